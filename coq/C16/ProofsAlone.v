(* C16 -- the sequential reading IS the interleaving semantics run with one thread.
   For every program h: the (unique) run of lts_step code_now on the configuration with the single
   thread h terminates, and the answers, per-call read counts and final cache / lock / source state
   are those of sq_run, up to the ghost fields (step numbers).  Hence the single-thread theorems
   (block_first_read, fresh_after, nested_noop, as_dict_spec) speak about the same machine as the
   thread theorems. *)
From PV Require Import C16.Lib C16.ProofsFresh C16.ProofsSeq C16.ProofsRefine.
Local Open Scope nat_scope.

(* ------------------------------------------------------------------ running one thread *)
Definition st := (shared * thread)%type.
Definition post (p : st) : st := (tick (fst p), snd p).
Definition step1 (x : st) : st :=
  match thread_step code_now 0 (fst x) (snd x) with Some p => post p | None => x end.
Fixpoint iter1 (n : nat) (x : st) : st := match n with 0 => x | S n' => iter1 n' (step1 x) end.
Definition reaches (x y : st) := exists n, iter1 n x = y.

Lemma iter1_add a b x : iter1 (a + b) x = iter1 b (iter1 a x).
Proof. revert x. induction a as [|a IH]; intros x; simpl; auto. Qed.
Lemma reaches_refl x : reaches x x.
Proof. exists 0. reflexivity. Qed.
Lemma reaches_trans x y z : reaches x y -> reaches y z -> reaches x z.
Proof. intros [a Ha] [b Hb]. exists (a + b). rewrite iter1_add, Ha, Hb. reflexivity. Qed.
Lemma reaches_step a th p : thread_step code_now 0 a th = Some p -> reaches (a, th) (post p).
Proof. intros H. exists 1. simpl. unfold step1. simpl. rewrite H. reflexivity. Qed.
Lemma reaches_step_then a th p z : thread_step code_now 0 a th = Some p -> reaches (post p) z -> reaches (a, th) z.
Proof. intros H Hz. eapply reaches_trans; [eapply reaches_step; eauto|exact Hz]. Qed.

(* ------------------------------------------------------------------ equality up to ghost fields *)
Definition erase (c : cache) : list (key * nat) := map (fun kv => (fst kv, fst (snd kv))) (c_ents c).
Definition sheq (a b : shared) :=
  map erase (heap a) = map erase (heap b) /\ fptr a = fptr b /\ pptr a = pptr b /\ lock a = lock b /\
  (forall s, srcs a s = srcs b s) /\ gone_flag a = gone_flag b.

Lemma sheq_tick a b : sheq a b -> sheq (tick a) b.
Proof. intros H. exact H. Qed.
Lemma sheq_len a b : sheq a b -> length (heap a) = length (heap b).
Proof. intros (H & _). apply (f_equal (@length _)) in H. rewrite !map_length in H. exact H. Qed.

Lemma nth_erase a b c : sheq a b ->
  match nth_error (heap a) c, nth_error (heap b) c with
  | Some Ca, Some Cb => erase Ca = erase Cb
  | None, None => True
  | _, _ => False
  end.
Proof.
  intros (H & _). apply (f_equal (fun l => nth_error l c)) in H. rewrite !nth_error_map in H.
  destruct (nth_error (heap a) c), (nth_error (heap b) c); simpl in H; try discriminate; auto. inversion H; auto.
Qed.

Fixpoint assoc_e (k : key) (l : list (key * nat)) : option nat :=
  match l with [] => None | (k', v) :: r => if key_eqb k k' then Some v else assoc_e k r end.
Lemma assoc_erase k C : assoc_e k (erase C) = option_map fst (assoc k (c_ents C)).
Proof.
  unfold erase. induction (c_ents C) as [|[k' v] r IH]; simpl; auto. destruct (key_eqb k k'); auto.
Qed.

Inductive osim : outcome val -> outcome val -> Prop :=
| osim_val va vb : fst va = fst vb -> osim (Val va) (Val vb)
| osim_exc e : osim (Exc e) (Exc e)
| osim_oom : osim OutOfModel OutOfModel.
Lemma osim_ver x y : osim x y -> ver_of x = ver_of y.
Proof. intros H. destruct H; simpl; congruence. Qed.

Lemma subscript_sim a b c k : sheq a b -> osim (py_subscript a c k) (py_subscript b c k).
Proof.
  intros H. pose proof (nth_erase a b c H) as Hn. unfold py_subscript.
  destruct (nth_error (heap a) c) as [Ca|], (nth_error (heap b) c) as [Cb|]; try contradiction; [|constructor].
  pose proof (assoc_erase k Ca) as E1. pose proof (assoc_erase k Cb) as E2. rewrite Hn in E1. rewrite E1 in E2.
  destruct (assoc k (c_ents Ca)), (assoc k (c_ents Cb)); simpl in E2; try discriminate; constructor. congruence.
Qed.

Lemma read_sim a b s : sheq a b -> osim (read_src a s) (read_src b s).
Proof.
  intros (_ & _ & _ & _ & Hs & _). unfold read_src. rewrite Hs. destruct (srcs b s); constructor. reflexivity.
Qed.

Lemma map_upd_nth {A B} (f : A -> B) n (g : A -> A) (g' : B -> B) l :
  (forall x, f (g x) = g' (f x)) -> map f (upd_nth n g l) = upd_nth n g' (map f l).
Proof. intros H. revert n. induction l as [|x l IH]; intros [|n]; simpl; auto; f_equal; auto. Qed.

Inductive ssim : outcome shared -> outcome shared -> Prop :=
| ssim_val a b : sheq a b -> ssim (Val a) (Val b)
| ssim_oom : ssim OutOfModel OutOfModel.

Lemma setitem_sim a b c k va vb : sheq a b -> fst va = fst vb -> ssim (py_setitem a c k va) (py_setitem b c k vb).
Proof.
  intros H Hv. pose proof (nth_erase a b c H) as Hn. unfold py_setitem.
  destruct (nth_error (heap a) c) as [Ca|], (nth_error (heap b) c) as [Cb|]; try contradiction; constructor.
  destruct H as (Hh & Hr). split; [|exact Hr]. simpl.
  rewrite (map_upd_nth erase c _ (fun l => (k, fst va) :: l)) by reflexivity.
  rewrite (map_upd_nth erase c _ (fun l => (k, fst vb) :: l)) by reflexivity.
  rewrite Hh, Hv. reflexivity.
Qed.

Lemma activate_sim l a b : sheq a b -> sheq (activate l a) (activate l b).
Proof.
  intros H. pose proof (sheq_len _ _ H) as Hl. destruct H as (Hh & Hf & Hp & Hk & Hs & Hg).
  unfold sheq. rewrite !activate_heap, !map_app, Hh. simpl.
  destruct l; simpl; rewrite Hl; repeat split; auto.
Qed.
Lemma deactivate_sim l a b : sheq a b -> ssim (deactivate l a) (deactivate l b).
Proof.
  intros H. pose proof H as (Hh & Hf & Hp & Hk & Hs & Hg). unfold deactivate, py_delcache.
  assert (Hptr : ptr l a = ptr l b) by (destruct l; auto). rewrite Hptr.
  destruct (ptr l b); simpl; constructor; auto. destruct l; unfold sheq; simpl; repeat split; auto.
Qed.
Lemma unlock_sim a b : sheq a b -> sheq (unlock a) (unlock b).
Proof. intros (Hh & Hf & Hp & Hk & Hs & Hg). unfold sheq, unlock; simpl. rewrite Hk. repeat split; auto. Qed.
Lemma set_lock_sim a b l : sheq a b -> sheq (set_lock a l) (set_lock b l).
Proof. intros (Hh & Hf & Hp & Hk & Hs & Hg). unfold sheq; simpl. repeat split; auto. Qed.
Lemma env_sim e a b : sheq a b -> sheq (apply_env e a) (apply_env e b).
Proof.
  intros (Hh & Hf & Hp & Hk & Hs & Hg). destruct e; unfold sheq; simpl; repeat split; auto.
  intros x. rewrite Hs. reflexivity.
Qed.

Inductive isim : ires -> ires -> Prop :=
| isim_ok a b : sheq a b -> isim (IOk a) (IOk b)
| isim_raise e : isim (IRaise e) (IRaise e).
Lemma ident_sim a b : sheq a b -> isim (ident_check a) (ident_check b).
Proof.
  intros H. pose proof H as (Hh & Hf & Hp & Hk & Hs & Hg). unfold ident_check. rewrite Hg, Hs.
  destruct (gone_flag b); [constructor|]. destruct (srcs b Stat); constructor; auto.
  unfold sheq; simpl; repeat split; auto.
Qed.

(* ------------------------------------------------------------------ one call *)
Definition tcore th th' :=
  t_ops th' = t_ops th /\ t_stk th' = t_stk th /\ t_res th' = t_res th /\ t_cur th' = t_cur th.
Lemma tcore_refl th : tcore th th.
Proof. repeat split. Qed.
Lemma tcore_trans a b c : tcore a b -> tcore b c -> tcore a c.
Proof. intros (A1 & A2 & A3 & A4) (B1 & B2 & B3 & B4). repeat split; congruence. Qed.

Definition fin (a : shared) (th : thread) (o : outcome val) : st := post (finish a th o).

Lemma w1_now_none l k a : ptr l a = None -> w1 code_now l k a = LMode MPlain.
Proof. intros H. unfold w1, py_getcache. rewrite H. reflexivity. Qed.
Lemma w1_now_some l k a c : ptr l a = Some c -> w1 code_now l k a = LNext c.
Proof. intros H. unfold w1, py_getcache. rewrite H. reflexivity. Qed.

(* the memoized reader, started at its lookup line *)
Lemma reader_alone a b th fm :
  sheq a b -> t_pc th = PP1 fm -> memoized (m_src (t_cur th)) = true ->
  let '(b', cn', r) := sq_reader (m_src (t_cur th)) b (t_cnt th) in
  exists a' th', sheq a' b' /\ tcore th th' /\ t_cnt th' = cn' /\
    match r with
    | Val vb => exists va, fst va = fst vb /\ reaches (a, th) (post (ret_proc a' th' fm va))
    | _ => exists o, ver_of o = ver_of r /\ reaches (a, th) (fin a' th' o)
    end.
Proof.
  intros Hse Hpc Hm. set (s := m_src (t_cur th)). unfold sq_reader. fold s in Hm. rewrite Hm.
  pose proof Hse as (Hh & Hfp & Hpp & Hlk & Hsr & Hgf).
  unfold sq_wrapper, py_getcache. simpl ptr.
  destruct (pptr b) as [pc|] eqn:Epb.
  - (* a reader-level dict is live *)
    assert (S1 : thread_step code_now 0 a th = Some (a, th_pc th (PP1b fm pc))).
    { unfold thread_step. rewrite Hpc. fold s. unfold on_lookup. rewrite (w1_now_some Proc (KS s) a pc) by (simpl; congruence). reflexivity. }
    set (a1 := tick a). set (th1 := th_pc th (PP1b fm pc)).
    assert (Hse1 : sheq a1 b) by exact Hse.
    pose proof (subscript_sim a1 b pc (KS s) Hse1) as Hsub.
    assert (S2form : thread_step code_now 0 a1 th1 =
                     Some (on_lookup a1 th1 (w1b true pc (KS s) a1) (fun th' v => ret_proc a1 th' fm v) (PP2 fm) (PP1b fm))).
    { unfold thread_step. reflexivity. }
    unfold w1b in S2form.
    destruct (py_subscript b pc (KS s)) as [vb|e|] eqn:Esb; inversion Hsub as [va vb' Hv Ea|e' Ea|Ea]; subst.
    + (* hit *)
      rewrite <- Ea in S2form. simpl in S2form.
      exists a1, (th_hit th1 (Some pc)). split; [exact Hse1|]. split; [repeat split|]. split; [reflexivity|].
      exists va. split; [exact Hv|]. eapply reaches_step_then; [exact S1|]. eapply reaches_step. exact S2form.
    + destruct e.
      all: try (rewrite <- Ea in S2form; simpl in S2form;
                exists a1, th1; split; [exact Hse1|]; split; [repeat split|]; split; [reflexivity|];
                eexists; split; [reflexivity|]; eapply reaches_step_then; [exact S1|]; eapply reaches_step; exact S2form).
      (* KeyError: read, store *)
      rewrite <- Ea in S2form. simpl in S2form.
      set (th2 := th_pc th1 (PP2 fm (MStore (Some pc)))). set (a2 := tick a1).
      assert (Hse2 : sheq a2 b) by exact Hse.
      pose proof (read_sim a2 b s Hse2) as Hrd.
      assert (S3form : thread_step code_now 0 a2 th2 =
                match read_src a2 s with
                | Val v => Some (a2, th_pc (th_count th2 s) (PP3 fm (MStore (Some pc)) v))
                | o => Some (finish a2 (th_count th2 s) o)
                end).
      { unfold thread_step. simpl t_pc. unfold do_read. simpl t_cur. fold s. destruct (read_src a2 s); reflexivity. }
      unfold sq_read.
      destruct (read_src b s) as [vb|e|] eqn:Erb; inversion Hrd as [va vb' Hv Era|e' Era|Era]; subst; rewrite <- Era in S3form.
      * set (th3 := th_pc (th_count th2 s) (PP3 fm (MStore (Some pc)) va)). set (a3 := tick a2).
        assert (Hse3 : sheq a3 b) by exact Hse.
        pose proof (setitem_sim a3 b pc (KS s) va vb Hse3 Hv) as Hst.
        assert (S4form : thread_step code_now 0 a3 th3 =
                  Some (on_store a3 th3 (py_setitem a3 pc (KS s) va) (fun sh' => ret_proc sh' th3 fm va))).
        { unfold thread_step. reflexivity. }
        destruct (py_setitem b pc (KS s) vb) as [b2|e|] eqn:Esb2; inversion Hst as [a4 b4 Hse4 Esa|Esa]; subst.
        -- rewrite <- Esa in S4form. simpl in S4form.
           exists a4, th3. split; [exact Hse4|]. split; [repeat split|]. split; [reflexivity|].
           exists va. split; [exact Hv|].
           eapply reaches_step_then; [exact S1|]. eapply reaches_step_then; [exact S2form|].
           eapply reaches_step_then; [exact S3form|]. eapply reaches_step. exact S4form.
        -- rewrite <- Esa in S4form. simpl in S4form.
           exists a3, th3. split; [exact Hse3|]. split; [repeat split|]. split; [reflexivity|].
           exists OutOfModel. split; [reflexivity|].
           eapply reaches_step_then; [exact S1|]. eapply reaches_step_then; [exact S2form|].
           eapply reaches_step_then; [exact S3form|]. eapply reaches_step. exact S4form.
      * exists a2, (th_count th2 s). split; [exact Hse2|]. split; [repeat split|]. split; [reflexivity|].
        exists (Exc e). split; [reflexivity|].
        eapply reaches_step_then; [exact S1|]. eapply reaches_step_then; [exact S2form|]. eapply reaches_step. exact S3form.
      * exists a2, (th_count th2 s). split; [exact Hse2|]. split; [repeat split|]. split; [reflexivity|].
        exists OutOfModel. split; [reflexivity|].
        eapply reaches_step_then; [exact S1|]. eapply reaches_step_then; [exact S2form|]. eapply reaches_step. exact S3form.
    + rewrite <- Ea in S2form. simpl in S2form.
      exists a1, th1. split; [exact Hse1|]. split; [repeat split|]. split; [reflexivity|].
      exists OutOfModel. split; [reflexivity|]. eapply reaches_step_then; [exact S1|]. eapply reaches_step. exact S2form.
  - (* no dict: plain read *)
    assert (S1 : thread_step code_now 0 a th = Some (a, th_pc th (PP2 fm MPlain))).
    { unfold thread_step. rewrite Hpc. fold s. unfold on_lookup. rewrite (w1_now_none Proc (KS s) a) by (simpl; congruence). reflexivity. }
    set (a1 := tick a). set (th1 := th_pc th (PP2 fm MPlain)).
    assert (Hse1 : sheq a1 b) by exact Hse.
    pose proof (read_sim a1 b s Hse1) as Hrd.
    assert (S2form : thread_step code_now 0 a1 th1 =
              match read_src a1 s with
              | Val v => Some (ret_proc a1 (th_count th1 s) fm v)
              | o => Some (finish a1 (th_count th1 s) o)
              end).
    { unfold thread_step. simpl t_pc. unfold do_read. simpl t_cur. fold s. destruct (read_src a1 s); reflexivity. }
    unfold sq_read.
    destruct (read_src b s) as [vb|e|] eqn:Erb; inversion Hrd as [va vb' Hv Era|e' Era|Era]; subst; rewrite <- Era in S2form.
    + exists a1, (th_count th1 s). split; [exact Hse1|]. split; [repeat split|]. split; [reflexivity|].
      exists va. split; [exact Hv|]. eapply reaches_step_then; [exact S1|]. eapply reaches_step. exact S2form.
    + exists a1, (th_count th1 s). split; [exact Hse1|]. split; [repeat split|]. split; [reflexivity|].
      exists (Exc e). split; [reflexivity|]. eapply reaches_step_then; [exact S1|]. eapply reaches_step. exact S2form.
    + exists a1, (th_count th1 s). split; [exact Hse1|]. split; [repeat split|]. split; [reflexivity|].
      exists OutOfModel. split; [reflexivity|]. eapply reaches_step_then; [exact S1|]. eapply reaches_step. exact S2form.
Qed.

Lemma ret_proc_nofull sh th fm v : meth_eqb (t_cur th) Mmemory_full = false ->
  ret_proc sh th fm v =
  match fm with FM (MStore b) => (sh, th_pc th (PF3 (MStore b) v)) | _ => finish sh th (Val v) end.
Proof. intros H. unfold ret_proc. rewrite H. reflexivity. Qed.
Lemma ret_proc_full_none sh th v : meth_eqb (t_cur th) Mmemory_full = true ->
  ret_proc sh th FNone v = finish sh (th_count th Statm) (do _ <- read_src sh Statm; Val v).
Proof. intros H. unfold ret_proc. rewrite H. unfold do_read. destruct (read_src sh Statm); reflexivity. Qed.

(* the body of a front-level memoized method, started at the wrapper's `fun(self)` line *)
Lemma body_alone a b th sm fk :
  sheq a b -> t_pc th = PF2 sm -> m_front (t_cur th) = Some fk ->
  let '(b1, cn1, r) := sq_body (t_cur th) b (t_cnt th) in
  exists a' th', sheq a' b1 /\ tcore th th' /\ t_cnt th' = cn1 /\
    match r with
    | Val vb => exists va, fst va = fst vb /\
                  reaches (a, th) (post (match sm with MPlain => finish a' th' (Val va) | _ => (a', th_pc th' (PF3 sm va)) end))
    | _ => exists o, ver_of o = ver_of r /\ reaches (a, th) (fin a' th' o)
    end.
Proof.
  intros Hse Hpc Hfk. set (m := t_cur th). fold m in Hfk. destruct (front_of_no_full _ _ Hfk) as [Hnf _].
  unfold sq_body. rewrite Hnf.
  assert (Hid : isim (if meth_eqb m Mppid then ident_check a else IOk a) (if meth_eqb m Mppid then ident_check b else IOk b)).
  { destruct (meth_eqb m Mppid); [apply ident_sim; auto|constructor; auto]. }
  assert (Sform : thread_step code_now 0 a th =
     match (if meth_eqb m Mppid then ident_check a else IOk a) with
     | IRaise e => Some (finish a th (Exc e))
     | IOut => Some (finish a th OutOfModel)
     | IOk sh1 =>
         if memoized (m_src m) then Some (sh1, th_pc th (PP1 (FM sm)))
         else let (th1, r) := do_read sh1 th (m_src m) in
              match r with
              | Val v => match sm with MPlain => Some (finish sh1 th1 (Val v)) | _ => Some (sh1, th_pc th1 (PF3 sm v)) end
              | o => Some (finish sh1 th1 o)
              end
     end).
  { unfold thread_step. rewrite Hpc. reflexivity. }
  destruct Hid as [a1 b1 Hse1|e].
  - destruct (memoized (m_src m)) eqn:Em.
    + set (th1 := th_pc th (PP1 (FM sm))).
      pose proof (reader_alone (tick a1) b1 th1 (FM sm) Hse1 eq_refl Em) as Hr. simpl t_cur in Hr. fold m in Hr. simpl t_cnt in Hr.
      destruct (sq_reader (m_src m) b1 (t_cnt th)) as [[b' cn'] r].
      destruct Hr as (a' & th' & Hse' & Hc' & Hcn' & Hr).
      exists a', th'. split; [exact Hse'|]. split; [exact Hc'|]. split; [exact Hcn'|].
      assert (Hnf' : meth_eqb (t_cur th') Mmemory_full = false) by (destruct Hc' as (_ & _ & _ & ->); exact Hnf).
      destruct r as [vb|e|].
      * destruct Hr as (va & Hv & Hre). exists va. split; [exact Hv|].
        eapply reaches_step_then; [exact Sform|]. rewrite (ret_proc_nofull _ _ _ _ Hnf') in Hre.
        destruct sm as [|b0]; exact Hre.
      * destruct Hr as (o & Ho & Hre). exists o. split; [exact Ho|]. eapply reaches_step_then; [exact Sform|exact Hre].
      * destruct Hr as (o & Ho & Hre). exists o. split; [exact Ho|]. eapply reaches_step_then; [exact Sform|exact Hre].
    + unfold sq_reader. rewrite Em. unfold sq_read. unfold do_read in Sform.
      pose proof (read_sim a1 b1 (m_src m) Hse1) as Hrd.
      destruct (read_src b1 (m_src m)) as [vb|e|] eqn:Erb; inversion Hrd as [va vb' Hv Era|e' Era|Era]; subst; rewrite <- Era in Sform.
      * exists a1, (th_count th (m_src m)). split; [exact Hse1|]. split; [repeat split|]. split; [reflexivity|].
        exists va. split; [exact Hv|]. destruct sm as [|b0]; eapply reaches_step; exact Sform.
      * exists a1, (th_count th (m_src m)). split; [exact Hse1|]. split; [repeat split|]. split; [reflexivity|].
        exists (Exc e). split; [reflexivity|]. eapply reaches_step; exact Sform.
      * exists a1, (th_count th (m_src m)). split; [exact Hse1|]. split; [repeat split|]. split; [reflexivity|].
        exists OutOfModel. split; [reflexivity|]. eapply reaches_step; exact Sform.
  - exists a, th. split; [exact Hse|]. split; [apply tcore_refl|]. split; [reflexivity|].
    exists (Exc e). split; [reflexivity|]. eapply reaches_step; exact Sform.
Qed.

(* one whole call *)
Lemma call_alone a b th :
  sheq a b -> t_cnt th = (fun _ => 0) ->
  t_pc th = (match m_front (t_cur th) with Some _ => PF1 | None => PP1 FNone end) ->
  let '(b', cn, r) := sq_call (t_cur th) b in
  exists a' th' o, reaches (a, th) (fin a' th' o) /\ sheq a' b' /\ tcore th th' /\ t_cnt th' = cn /\ ver_of o = ver_of r.
Proof.
  intros Hse Hcnt Hpc. set (m := t_cur th) in *. pose proof Hse as (Hh & Hfp & Hpp & Hlk & Hsr & Hgf).
  unfold sq_call. destruct (m_front m) as [fk|] eqn:Efk.
  - unfold sq_wrapper, py_getcache. simpl ptr. destruct (fptr b) as [fc|] eqn:Efb.
    + assert (S1 : thread_step code_now 0 a th = Some (a, th_pc th (PF1b fc))).
      { unfold thread_step. rewrite Hpc. fold m. rewrite Efk. unfold on_lookup.
        rewrite (w1_now_some Front (KF fk) a fc) by (simpl; congruence). reflexivity. }
      set (a1 := tick a). set (th1 := th_pc th (PF1b fc)).
      assert (Hse1 : sheq a1 b) by exact Hse.
      pose proof (subscript_sim a1 b fc (KF fk) Hse1) as Hsub.
      assert (S2form : thread_step code_now 0 a1 th1 =
                Some (on_lookup a1 th1 (w1b true fc (KF fk) a1) (fun th' v => finish a1 th' (Val v)) PF2 PF1b)).
      { unfold thread_step. simpl t_pc. simpl t_cur. fold m. rewrite Efk. reflexivity. }
      unfold w1b in S2form.
      destruct (py_subscript b fc (KF fk)) as [vb|e|] eqn:Esb; inversion Hsub as [va vb' Hv Ea|e' Ea|Ea]; subst.
      * rewrite <- Ea in S2form. simpl in S2form.
        exists a1, (th_hit th1 (Some fc)), (Val va). split.
        -- eapply reaches_step_then; [exact S1|]. eapply reaches_step. exact S2form.
        -- split; [exact Hse1|]. split; [repeat split|]. split; [exact Hcnt|]. simpl. congruence.
      * destruct e.
        all: try (rewrite <- Ea in S2form; simpl in S2form;
                  eexists a1, th1, _; split; [eapply reaches_step_then; [exact S1|]; eapply reaches_step; exact S2form|];
                  split; [exact Hse1|]; split; [repeat split|]; split; [exact Hcnt|reflexivity]).
        (* KeyError: run the body, store *)
        rewrite <- Ea in S2form. simpl in S2form.
        set (th2 := th_pc th1 (PF2 (MStore (Some fc)))). set (a2 := tick a1).
        assert (Hse2 : sheq a2 b) by exact Hse.
        pose proof (body_alone a2 b th2 (MStore (Some fc)) fk Hse2 eq_refl Efk) as Hb.
        simpl t_cur in Hb. fold m in Hb. simpl t_cnt in Hb. rewrite Hcnt in Hb.
        destruct (sq_body m b (fun _ => 0)) as [[b1 cn1] r].
        destruct Hb as (a' & th' & Hse' & Hc' & Hcn' & Hr).
        assert (Hpre : reaches (a, th) (post (a1, th2))).
        { eapply reaches_step_then; [exact S1|]. change (post (a, th_pc th (PF1b fc))) with (a1, th1).
          eapply reaches_step. exact S2form. }
        assert (Hc0 : tcore th th').
        { eapply tcore_trans; [|exact Hc']. repeat split. }
        destruct r as [vb|e|].
        -- destruct Hr as (va & Hv & Hre). simpl in Hre.
           set (th3 := th_pc th' (PF3 (MStore (Some fc)) va)). set (a3 := tick a').
           assert (Hse3 : sheq a3 b1) by exact Hse'.
           pose proof (setitem_sim a3 b1 fc (KF fk) va vb Hse3 Hv) as Hst.
           assert (S4form : thread_step code_now 0 a3 th3 =
                     Some (on_store a3 th3 (py_setitem a3 fc (KF fk) va) (fun sh' => finish sh' th3 (Val va)))).
           { unfold thread_step. simpl t_pc. simpl t_cur. destruct Hc' as (_ & _ & _ & ->). simpl t_cur. fold m. rewrite Efk. reflexivity. }
           destruct (py_setitem b1 fc (KF fk) vb) as [b2|e|] eqn:Esb2; inversion Hst as [a4 b4 Hse4 Esa|Esa]; subst.
           ++ rewrite <- Esa in S4form. simpl in S4form.
              exists a4, th3, (Val va). split.
              ** eapply reaches_trans; [exact Hpre|]. eapply reaches_trans; [exact Hre|]. eapply reaches_step. exact S4form.
              ** split; [exact Hse4|]. split; [exact Hc0|]. split; [first [exact Hcn'|reflexivity]|]. simpl. congruence.
           ++ rewrite <- Esa in S4form. simpl in S4form.
              exists a3, th3, OutOfModel. split.
              ** eapply reaches_trans; [exact Hpre|]. eapply reaches_trans; [exact Hre|]. eapply reaches_step. exact S4form.
              ** split; [exact Hse3|]. split; [exact Hc0|]. split; [first [exact Hcn'|reflexivity]|reflexivity].
        -- destruct Hr as (o & Ho & Hre). exists a', th', o. split; [eapply reaches_trans; eauto|].
           split; [exact Hse'|]. split; [exact Hc0|]. split; [exact Hcn'|exact Ho].
        -- destruct Hr as (o & Ho & Hre). exists a', th', o. split; [eapply reaches_trans; eauto|].
           split; [exact Hse'|]. split; [exact Hc0|]. split; [exact Hcn'|exact Ho].
      * rewrite <- Ea in S2form. simpl in S2form.
        exists a1, th1, OutOfModel. split; [eapply reaches_step_then; [exact S1|]; eapply reaches_step; exact S2form|].
        split; [exact Hse1|]. split; [repeat split|]. split; [exact Hcnt|reflexivity].
    + (* no front-level dict *)
      assert (S1 : thread_step code_now 0 a th = Some (a, th_pc th (PF2 MPlain))).
      { unfold thread_step. rewrite Hpc. fold m. rewrite Efk. unfold on_lookup.
        rewrite (w1_now_none Front (KF fk) a) by (simpl; congruence). reflexivity. }
      set (a1 := tick a). set (th1 := th_pc th (PF2 MPlain)).
      pose proof (body_alone a1 b th1 MPlain fk Hse eq_refl Efk) as Hb.
      simpl t_cur in Hb. fold m in Hb. simpl t_cnt in Hb. rewrite Hcnt in Hb.
      destruct (sq_body m b (fun _ => 0)) as [[b1 cn1] r].
      destruct Hb as (a' & th' & Hse' & Hc' & Hcn' & Hr).
      assert (Hc0 : tcore th th') by (eapply tcore_trans; [|exact Hc']; repeat split).
      destruct r as [vb|e|].
      * destruct Hr as (va & Hv & Hre). exists a', th', (Val va).
        split; [eapply reaches_step_then; [exact S1|exact Hre]|].
        split; [exact Hse'|]. split; [exact Hc0|]. split; [exact Hcn'|]. simpl. congruence.
      * destruct Hr as (o & Ho & Hre). exists a', th', o. split; [eapply reaches_step_then; [exact S1|exact Hre]|].
        split; [exact Hse'|]. split; [exact Hc0|]. split; [exact Hcn'|exact Ho].
      * destruct Hr as (o & Ho & Hre). exists a', th', o. split; [eapply reaches_step_then; [exact S1|exact Hre]|].
        split; [exact Hse'|]. split; [exact Hc0|]. split; [exact Hcn'|exact Ho].
  - (* no front-level wrapper *)
    pose proof (no_front_memoized _ Efk) as Hm. pose proof (no_front_not_ppid _ Efk) as Hnp.
    unfold sq_body. rewrite Hnp.
    pose proof (reader_alone a b th FNone Hse Hpc Hm) as Hr. fold m in Hr. rewrite Hcnt in Hr.
    destruct (sq_reader (m_src m) b (fun _ => 0)) as [[b' cn'] r].
    destruct Hr as (a' & th' & Hse' & Hc' & Hcn' & Hr).
    assert (Hcur' : t_cur th' = m) by (destruct Hc' as (_ & _ & _ & ->); reflexivity).
    destruct (meth_eqb m Mmemory_full) eqn:Ef.
    + destruct r as [vb|e|].
      * destruct Hr as (va & Hv & Hre). rewrite ret_proc_full_none in Hre by (rewrite Hcur'; exact Ef).
        pose proof (read_sim a' b' Statm Hse') as Hrd.
        exists a', (th_count th' Statm), (do _ <- read_src a' Statm; Val va). split; [exact Hre|].
        split; [exact Hse'|]. split; [destruct Hc' as (C1 & C2 & C3 & C4); repeat split; auto|].
        split; [simpl; rewrite Hcn'; reflexivity|].
        destruct Hrd; simpl; congruence.
      * destruct Hr as (o & Ho & Hre). exists a', th', o.
        split; [exact Hre|]. split; [exact Hse'|]. split; [exact Hc'|]. split; [exact Hcn'|exact Ho].
      * destruct Hr as (o & Ho & Hre). exists a', th', o.
        split; [exact Hre|]. split; [exact Hse'|]. split; [exact Hc'|]. split; [exact Hcn'|exact Ho].
    + destruct r as [vb|e|].
      * destruct Hr as (va & Hv & Hre). rewrite ret_proc_nofull in Hre by (rewrite Hcur'; exact Ef).
        exists a', th', (Val va). split; [exact Hre|]. split; [exact Hse'|]. split; [exact Hc'|]. split; [exact Hcn'|].
        simpl. congruence.
      * destruct Hr as (o & Ho & Hre). exists a', th', o.
        split; [exact Hre|]. split; [exact Hse'|]. split; [exact Hc'|]. split; [exact Hcn'|exact Ho].
      * destruct Hr as (o & Ho & Hre). exists a', th', o.
        split; [exact Hre|]. split; [exact Hse'|]. split; [exact Hc'|]. split; [exact Hcn'|exact Ho].
Qed.

(* ------------------------------------------------------------------ whole programs *)
Definition lock0 sh := forall o n, lock sh = Some (o, n) -> o = 0.
Definition projr (r : result) : outcome nat * list nat := (ver_of (r_out r), r_cnt r).
Definition sim (a : shared) (th : thread) (q : sq) :=
  sheq a (q_sh q) /\ lock0 (q_sh q) /\ t_stk th = q_stk q /\ map projr (t_res th) = q_res q.

(* the sequential reading never touches the lock inside a call *)
Lemma setitem_lock s cid k v s1 : py_setitem s cid k v = Val s1 -> lock s1 = lock s.
Proof. unfold py_setitem. destruct (nth_error (heap s) cid); intros E; inversion E; reflexivity. Qed.
Lemma sq_wrapper_lock l k body :
  (forall s c s1 c1 r1, body s c = (s1, c1, r1) -> lock s1 = lock s) ->
  forall s c s1 c1 r1, sq_wrapper l k body s c = (s1, c1, r1) -> lock s1 = lock s.
Proof.
  intros Hb s c s1 c1 r1. unfold sq_wrapper.
  destruct (py_getcache l s) as [cid|e|]; try (intros E; inversion E; subst; reflexivity).
  - destruct (py_subscript s cid k) as [v|e|]; try (intros E; inversion E; subst; reflexivity).
    destruct e; try (intros E; inversion E; subst; reflexivity).
    destruct (body s c) as [[s2 c2] r2] eqn:Eb. apply Hb in Eb.
    destruct r2 as [v|e|]; try (intros E; inversion E; subst; auto; fail).
    destruct (py_setitem s2 cid k v) as [s3|e|] eqn:Es; intros E; inversion E; subst; auto.
    apply setitem_lock in Es. congruence.
  - destruct e; try (intros E; inversion E; subst; reflexivity). apply Hb.
Qed.
Lemma sq_body_lock m s c s1 c1 r1 : sq_body m s c = (s1, c1, r1) -> lock s1 = lock s.
Proof.
  unfold sq_body.
  destruct (if meth_eqb m Mppid then ident_check s else IOk s) as [s2|e|] eqn:Ei;
    try (intros E; inversion E; subst; reflexivity).
  assert (H2 : lock s2 = lock s).
  { destruct (meth_eqb m Mppid); [|inversion Ei; reflexivity]. unfold ident_check in Ei.
    destruct (gone_flag s); [discriminate|]. destruct (srcs s Stat); inversion Ei; reflexivity. }
  destruct (sq_reader (m_src m) s2 c) as [[s3 c3] r3] eqn:Er.
  assert (H3 : lock s3 = lock s2).
  { revert Er. unfold sq_reader. destruct (memoized (m_src m)).
    - apply sq_wrapper_lock. unfold sq_read. intros ? ? ? ? ? E; inversion E; reflexivity.
    - unfold sq_read. intros E; inversion E; reflexivity. }
  destruct (meth_eqb m Mmemory_full); [destruct r3|]; intros E; inversion E; subst; congruence.
Qed.
Lemma sq_call_lock m sh sh' cn r : sq_call m sh = (sh', cn, r) -> lock sh' = lock sh.
Proof.
  unfold sq_call. destruct (m_front m).
  - apply sq_wrapper_lock. intros; eapply sq_body_lock; eauto.
  - apply sq_body_lock.
Qed.

Definition cw (p : pc) : nat := match p with PAcq | PEnv _ | PF1 | PP1 _ => 2 | _ => 0 end.
Definition mu (th : thread) : nat := 2 * length (t_ops th) + length (t_stk th) + cw (t_pc th).

(* what a thread stopped at the first line of an operation still has to do *)
Definition pending (th : thread) : list op :=
  match t_pc th with
  | PAcq => OEnter :: t_ops th
  | PDel _ => OExit :: t_ops th
  | PEnv e => OEnv e :: t_ops th
  | PF1 | PP1 _ => OCall (CM (t_cur th)) :: t_ops th
  | _ => t_ops th
  end.
Definition boundary (th : thread) : Prop :=
  match t_pc th with
  | PDone => t_ops th = []
  | PAcq | PEnv _ => True
  | PDel 0 => exists s, t_stk th = Real :: s
  | PF1 => t_cnt th = (fun _ => 0) /\ m_front (t_cur th) <> None
  | PP1 FNone => t_cnt th = (fun _ => 0) /\ m_front (t_cur th) = None
  | _ => False
  end.

Lemma lock0_unlock sh : lock0 sh -> lock0 (unlock sh).
Proof.
  intros H o n. unfold unlock. simpl. destruct (lock sh) as [[o' [|[|n']]]|] eqn:E; try discriminate.
  intros X; inversion X; subst. eapply H; eauto.
Qed.

Lemma unwind_add : forall j k q, sq_unwind (j + k) q = sq_unwind k (sq_unwind j q).
Proof. induction j as [|j IH]; intros k q; simpl; auto. Qed.

Lemma strip_sim : forall stk a q s a' (th : thread),
  sheq a (q_sh q) -> lock0 (q_sh q) -> stk = q_stk q -> strip_nested stk a = (s, a') ->
  exists j, sheq a' (q_sh (sq_unwind j q)) /\ lock0 (q_sh (sq_unwind j q)) /\ s = q_stk (sq_unwind j q) /\
            q_res (sq_unwind j q) = q_res q /\ j + length s = length stk /\ (forall r, s <> Nested :: r).
Proof.
  induction stk as [|f r IH]; intros a q s a' th Hse Hl Hs H; simpl in H.
  - inversion H; subst. exists 0. simpl.
    split; [exact Hse|]. split; [exact Hl|]. split; [exact Hs|]. split; [reflexivity|]. split; [reflexivity|].
    intros r0 X; discriminate X.
  - destruct f.
    + inversion H; subst. exists 0. simpl.
      split; [exact Hse|]. split; [exact Hl|]. split; [exact Hs|]. split; [reflexivity|]. split; [reflexivity|].
      intros r0 X; discriminate X.
    + assert (Hq : sq_exit q = mkSq (unlock (q_sh q)) r (q_res q)) by (unfold sq_exit; rewrite <- Hs; reflexivity).
      destruct (IH (unlock a) (sq_exit q) s a' th) as (j & J1 & J2 & J3 & J4 & J5 & J6); auto.
      * rewrite Hq. simpl. apply unlock_sim; auto.
      * rewrite Hq. simpl. apply lock0_unlock; auto.
      * rewrite Hq. reflexivity.
      * exists (S j). simpl. split; [exact J1|]. split; [exact J2|]. split; [exact J3|].
        split; [rewrite J4, Hq; reflexivity|]. split; [lia|exact J6].
Qed.

Lemma load_sim : forall ops a th q a1 t1,
  sim a th q -> load ops a th = (a1, t1) ->
  exists q1, sim a1 t1 q1 /\ boundary t1 /\ sq_run q1 (pending t1) = sq_run q ops /\
             mu t1 <= 2 * length ops + length (t_stk th).
Proof.
  induction ops as [|o r IH]; intros a th q a1 t1 Hsim H; pose proof Hsim as (Hse & Hl & Hs & Hr); simpl in H.
  - inversion H; subst. exists q. split; [exact Hsim|]. split; [reflexivity|]. split; [reflexivity|]. unfold mu; simpl. lia.
  - destruct o as [| | |c|e].
    + inversion H; subst. exists q. split; [exact Hsim|]. split; [exact I|]. split; [reflexivity|]. unfold mu; simpl. lia.
    + destruct (t_stk th) as [|[|] s] eqn:Es.
      * destruct (IH a th q a1 t1 Hsim H) as (q1 & X1 & X2 & X3 & X4). exists q1. split; auto. split; auto. split.
        -- rewrite X3. simpl. unfold sq_exit. rewrite <- Hs. reflexivity.
        -- rewrite Es in X4. simpl in *. lia.
      * inversion H; subst. exists q. split; [exact Hsim|]. split; [exists s; exact Es|]. split; [reflexivity|].
        unfold mu; simpl. rewrite Es. simpl. lia.
      * assert (Hq : sq_exit q = mkSq (unlock (q_sh q)) s (q_res q)) by (unfold sq_exit; rewrite <- Hs; reflexivity).
        assert (Hsim' : sim (unlock a) (th_stk th s) (sq_exit q)).
        { rewrite Hq. split; [apply unlock_sim; auto|]. split; [apply lock0_unlock; auto|]. split; [reflexivity|exact Hr]. }
        destruct (IH _ _ _ _ _ Hsim' H) as (q1 & X1 & X2 & X3 & X4). exists q1. split; auto. split; auto. split; auto.
        simpl in *. lia.
    + destruct (strip_nested (t_stk th) a) as [s a'] eqn:Est.
      destruct (strip_sim _ _ _ _ _ th Hse Hl Hs Est) as (j & J1 & J2 & J3 & J4 & J5 & J6).
      assert (Hsimj : sim a' (th_stk th s) (sq_unwind j q)).
      { split; auto. split; auto. split; [exact J3|]. simpl. rewrite J4. exact Hr. }
      destruct s as [|f s'].
      * destruct (IH _ _ _ _ _ Hsimj H) as (q1 & X1 & X2 & X3 & X4). exists q1. split; auto. split; auto. split.
        -- rewrite X3. simpl. rewrite <- Hs. simpl in J5. replace (length (t_stk th)) with j by lia. reflexivity.
        -- simpl in *. lia.
      * destruct f; [|exfalso; eapply J6; reflexivity].
        inversion H; subst. exists (sq_unwind j q). split; [exact Hsimj|]. split; [exists s'; reflexivity|]. split.
        -- simpl pending. simpl sq_run at 1. simpl sq_run at 2.
           rewrite <- Hs. replace (length (t_stk th)) with (j + S (length s')) by (simpl in J5; lia).
           rewrite unwind_add. simpl sq_unwind at 2.
           assert (Hlen : length (q_stk (sq_exit (sq_unwind j q))) = length s').
           { unfold sq_exit. rewrite <- J3. reflexivity. }
           rewrite Hlen. reflexivity.
        -- unfold mu; simpl. simpl in J5. lia.
    + destruct c as [m| |o].
      * inversion H; subst. exists q. split; [split; auto|]. split.
        -- unfold boundary; simpl. destruct (m_front m) eqn:E; simpl; split; auto; congruence.
        -- split; [simpl; destruct (m_front m); reflexivity|]. unfold mu; simpl. destruct (m_front m); simpl; lia.
      * assert (Hsim' : sim a (push_res (th_begin th (t_cur th) (clock a))
                                (mk_result a (th_begin th (t_cur th) (clock a)) (Val (pidval, clock a)))) (sq_step q (OCall CPid))).
        { split; [exact Hse|]. split; [exact Hl|]. split; [exact Hs|]. simpl. rewrite Hr. reflexivity. }
        destruct (IH _ _ _ _ _ Hsim' H) as (q1 & X1 & X2 & X3 & X4). exists q1. split; auto. split; auto. split; auto.
        simpl in *. lia.
      * assert (Hsim' : sim a (push_res (th_begin th (t_cur th) (clock a))
                                (mk_result a (th_begin th (t_cur th) (clock a)) (omap (fun n => (n, clock a)) o))) (sq_step q (OCall (CStub o)))).
        { split; [exact Hse|]. split; [exact Hl|]. split; [exact Hs|]. simpl. rewrite Hr. unfold projr; simpl.
          destruct o; reflexivity. }
        destruct (IH _ _ _ _ _ Hsim' H) as (q1 & X1 & X2 & X3 & X4). exists q1. split; auto. split; auto. split; auto.
        simpl in *. lia.
    + inversion H; subst. exists q. split; [exact Hsim|]. split; [exact I|]. split; [reflexivity|]. unfold mu; simpl. lia.
Qed.

(* ------------------------------------------------------------------ enter / exit / env, step by step *)
Lemma act_step a0 th0 k : t_pc th0 = PAct k -> k < 6 ->
  thread_step code_now 0 a0 th0 = Some (activate (if Nat.ltb k 4 then Front else Proc) a0, th_pc th0 (PAct (S k))).
Proof. intros H Hk. unfold thread_step. rewrite H. assert (Nat.ltb k 6 = true) by (apply Nat.ltb_lt; lia). rewrite H0. reflexivity. Qed.
Lemma del_step a0 th0 k a0' : t_pc th0 = PDel k -> k < 6 -> deactivate (if Nat.ltb k 4 then Front else Proc) a0 = Val a0' ->
  thread_step code_now 0 a0 th0 = Some (a0', th_pc th0 (PDel (S k))).
Proof. intros H Hk Hd. unfold thread_step. rewrite H, Hd. assert (Nat.ltb k 6 = true) by (apply Nat.ltb_lt; lia). rewrite H0. reflexivity. Qed.

Lemma deact_sim l a b : sheq a b -> exists a', deactivate l a = Val a' /\ sheq a' (deactivate1 l b).
Proof.
  intros H. pose proof (deactivate_sim l a b H) as Hs. unfold deactivate1.
  destruct (deactivate_val l a) as (a' & Da & _). destruct (deactivate_val l b) as (b' & Db & _).
  rewrite Da, Db in Hs. rewrite Db. inversion Hs; subst. eauto.
Qed.

Lemma reaches_pair a th p z : thread_step code_now 0 a th = Some p -> reaches (tick (fst p), snd p) z -> reaches (a, th) z.
Proof. intros H Hz. eapply reaches_step_then; [exact H|exact Hz]. Qed.

Lemma enter_alone a th q : sim a th q -> t_pc th = PAcq ->
  exists a1 t1, reaches (a, th) (post (load (t_ops th) a1 t1)) /\ sim a1 t1 (sq_enter q) /\
                length (t_stk t1) = S (length (t_stk th)).
Proof.
  intros (Hse & Hl & Hs & Hr) Hpc. pose proof Hse as (Hh & Hfp & Hpp & Hlk & Hsr & Hgf).
  set (b := q_sh q) in *.
  assert (S1 : thread_step code_now 0 a th = Some (set_lock a (lock (acquire0 b)), th_pc th PTest)).
  { unfold thread_step. rewrite Hpc, Hlk. unfold acquire0. simpl. destruct (lock b) as [[o n]|] eqn:El; [|reflexivity].
    pose proof (Hl _ _ El). subst o. reflexivity. }
  set (a1 := tick (set_lock a (lock (acquire0 b)))). set (th1 := th_pc th PTest).
  assert (Hse1 : sheq a1 (acquire0 b)) by (apply (set_lock_sim a b (lock (acquire0 b)) Hse)).
  assert (Hl1 : lock0 (acquire0 b)).
  { intros o n. unfold acquire0. simpl. destruct (lock b) as [[o' n']|] eqn:El; intros X; inversion X; subst; eauto. }
  unfold sq_enter. fold b. destruct (fptr (acquire0 b)) as [fc|] eqn:Ef.
  - (* nested *)
    assert (S2n : thread_step code_now 0 a1 th1 = Some (load (t_ops th1) a1 (th_stk th1 (Nested :: t_stk th1)))).
    { unfold thread_step. simpl t_pc.
      assert (Hf1 : fptr a1 = Some fc) by (destruct Hse1 as (_ & X & _); rewrite X; exact Ef). rewrite Hf1. reflexivity. }
    exists a1, (th_stk th1 (Nested :: t_stk th1)). split.
    + eapply reaches_pair; [exact S1|]. eapply reaches_step. exact S2n.
    + split; [|reflexivity]. split; [exact Hse1|]. split; [exact Hl1|]. split; [simpl; congruence|exact Hr].
  - (* the seven activations *)
    set (A0 := a1). set (T0 := th_pc th1 (PAct 0)).
    assert (S2 : thread_step code_now 0 a1 th1 = Some (a1, T0)).
    { unfold thread_step. simpl t_pc.
      assert (Hf1 : fptr a1 = None) by (destruct Hse1 as (_ & X & _); rewrite X; exact Ef). rewrite Hf1. reflexivity. }
    set (B0 := acquire0 b).
    set (A1 := tick (activate Front (tick A0))). set (B1 := activate Front B0).
    set (A2 := tick (activate Front A1)). set (B2 := activate Front B1).
    set (A3 := tick (activate Front A2)). set (B3 := activate Front B2).
    set (A4 := tick (activate Front A3)). set (B4 := activate Front B3).
    set (A5 := tick (activate Proc A4)). set (B5 := activate Proc B4).
    set (A6 := tick (activate Proc A5)). set (B6 := activate Proc B5).
    assert (E1 : sheq A1 B1) by (apply (activate_sim Front (tick A0) B0); exact Hse1).
    assert (E2 : sheq A2 B2) by (apply (activate_sim Front A1 B1 E1)).
    assert (E3 : sheq A3 B3) by (apply (activate_sim Front A2 B2 E2)).
    assert (E4 : sheq A4 B4) by (apply (activate_sim Front A3 B3 E3)).
    assert (E5 : sheq A5 B5) by (apply (activate_sim Proc A4 B4 E4)).
    assert (E6 : sheq A6 B6) by (apply (activate_sim Proc A5 B5 E5)).
    assert (E7 : sheq (activate Proc A6) (activate Proc B6)) by (apply (activate_sim Proc A6 B6 E6)).
    set (T6 := th_pc (th_pc (th_pc (th_pc (th_pc (th_pc T0 (PAct 1)) (PAct 2)) (PAct 3)) (PAct 4)) (PAct 5)) (PAct 6)).
    exists (activate Proc A6), (th_stk T6 (Real :: t_stk T6)). split.
    + eapply reaches_pair; [exact S1|]. eapply reaches_pair; [exact S2|]. simpl fst; simpl snd.
      eapply reaches_pair; [apply (act_step (tick A0) T0 0); [reflexivity|lia]|]. simpl fst; simpl snd.
      eapply reaches_pair; [apply (act_step A1 _ 1); [reflexivity|lia]|]. simpl fst; simpl snd.
      eapply reaches_pair; [apply (act_step A2 _ 2); [reflexivity|lia]|]. simpl fst; simpl snd.
      eapply reaches_pair; [apply (act_step A3 _ 3); [reflexivity|lia]|]. simpl fst; simpl snd.
      eapply reaches_pair; [apply (act_step A4 _ 4); [reflexivity|lia]|]. simpl fst; simpl snd.
      eapply reaches_pair; [apply (act_step A5 _ 5); [reflexivity|lia]|]. simpl fst; simpl snd.
      eapply reaches_step. unfold thread_step. reflexivity.
    + split; [|reflexivity]. split; [exact E7|]. split; [exact Hl1|]. split; [simpl; congruence|exact Hr].
Qed.

Lemma exit_alone a th q s : sim a th q -> t_pc th = PDel 0 -> t_stk th = Real :: s ->
  exists a1 t1, reaches (a, th) (post (load (t_ops th) a1 t1)) /\ sim a1 t1 (sq_exit q) /\ t_stk t1 = s.
Proof.
  intros (Hse & Hl & Hs & Hr) Hpc Hstk. set (b := q_sh q) in *.
  destruct (deact_sim Front a b Hse) as (a1 & D1 & E1).
  destruct (deact_sim Front (tick a1) _ E1) as (a2 & D2 & E2).
  destruct (deact_sim Front (tick a2) _ E2) as (a3 & D3 & E3).
  destruct (deact_sim Front (tick a3) _ E3) as (a4 & D4 & E4).
  destruct (deact_sim Proc (tick a4) _ E4) as (a5 & D5 & E5).
  destruct (deact_sim Proc (tick a5) _ E5) as (a6 & D6 & E6).
  destruct (deact_sim Proc (tick a6) _ E6) as (a7 & D7 & E7).
  set (T6 := th_pc (th_pc (th_pc (th_pc (th_pc (th_pc th (PDel 1)) (PDel 2)) (PDel 3)) (PDel 4)) (PDel 5)) (PDel 6)).
  assert (S7 : thread_step code_now 0 (tick a6) T6 = Some (load (t_ops T6) (unlock a7) (th_stk T6 (tl (t_stk T6))))).
  { unfold thread_step. change (t_pc T6) with (PDel 6). cbv iota beta. change (Nat.ltb 6 4) with false. cbv iota.
    rewrite D7. reflexivity. }
  exists (unlock a7), (th_stk T6 (tl (t_stk T6))). split.
  - eapply reaches_pair; [apply (del_step a th 0 a1 Hpc); [lia|exact D1]|]. simpl fst; simpl snd.
    eapply reaches_pair; [apply (del_step (tick a1) _ 1 a2); [reflexivity|lia|exact D2]|]. simpl fst; simpl snd.
    eapply reaches_pair; [apply (del_step (tick a2) _ 2 a3); [reflexivity|lia|exact D3]|]. simpl fst; simpl snd.
    eapply reaches_pair; [apply (del_step (tick a3) _ 3 a4); [reflexivity|lia|exact D4]|]. simpl fst; simpl snd.
    eapply reaches_pair; [apply (del_step (tick a4) _ 4 a5); [reflexivity|lia|exact D5]|]. simpl fst; simpl snd.
    eapply reaches_pair; [apply (del_step (tick a5) _ 5 a6); [reflexivity|lia|exact D6]|]. simpl fst; simpl snd.
    eapply reaches_step. exact S7.
  - assert (Hq : sq_exit q = mkSq (unlock (deactivate_all b)) s (q_res q)).
    { unfold sq_exit. rewrite <- Hs, Hstk. reflexivity. }
    rewrite Hq. split; [|simpl; rewrite Hstk; reflexivity].
    split; [apply unlock_sim; exact E7|]. split.
    + simpl. apply lock0_unlock. intros o n X. apply (Hl o n). rewrite <- X.
      clear. unfold deactivate_all.
      assert (Hd : forall l x, lock (deactivate1 l x) = lock x).
      { intros l x. unfold deactivate1, deactivate, py_delcache. destruct (ptr l x); simpl; destruct l; reflexivity. }
      rewrite !Hd. reflexivity.
    + split; [simpl; rewrite Hstk; reflexivity|exact Hr].
Qed.

Lemma env_alone a th q e : sim a th q -> t_pc th = PEnv e ->
  reaches (a, th) (post (load (t_ops th) (apply_env e a) th)) /\ sim (apply_env e a) th (sq_step q (OEnv e)).
Proof.
  intros (Hse & Hl & Hs & Hr) Hpc. split.
  - eapply reaches_step. unfold thread_step. rewrite Hpc. reflexivity.
  - split; [apply env_sim; exact Hse|]. split; [|split; [exact Hs|exact Hr]].
    simpl. intros o n X. apply (Hl o n). rewrite <- X. destruct e; reflexivity.
Qed.

Lemma call_whole a th q :
  sim a th q -> t_cnt th = (fun _ => 0) ->
  t_pc th = (match m_front (t_cur th) with Some _ => PF1 | None => PP1 FNone end) ->
  exists a1 t1, reaches (a, th) (post (load (t_ops th) a1 t1)) /\ sim a1 t1 (sq_step q (OCall (CM (t_cur th)))) /\
                t_stk t1 = t_stk th.
Proof.
  intros (Hse & Hl & Hs & Hr) Hcnt Hpc. pose proof (call_alone a (q_sh q) th Hse Hcnt Hpc) as H. simpl sq_step.
  destruct (sq_call (t_cur th) (q_sh q)) as [[b' cn] r] eqn:Ec.
  destruct H as (a' & th' & o & Hre & Hse' & (C1 & C2 & C3 & C4) & Hcn & Ho).
  exists a', (push_res th' (mk_result a' th' o)). split.
  - unfold fin, finish in Hre. rewrite C1 in Hre. exact Hre.
  - split; [|simpl; exact C2]. split; [exact Hse'|]. split.
    + simpl. intros o0 n X. apply (Hl o0 n). rewrite <- X. symmetry. eapply sq_call_lock; eauto.
    + split; [simpl; congruence|]. simpl. unfold projr at 1. simpl. rewrite Ho, Hcn, C3, Hr. reflexivity.
Qed.

Lemma sim_tick a th q : sim a th q -> sim (tick a) th q.
Proof. intros H. exact H. Qed.

(* ------------------------------------------------------------------ the run terminates and agrees *)
Lemma run_boundary : forall N a th q,
  mu th <= N -> sim a th q -> boundary th ->
  exists a' th', reaches (a, th) (a', th') /\ t_pc th' = PDone /\ sim a' th' (sq_run q (pending th)).
Proof.
  induction N as [|N IH]; intros a th q Hmu Hsim Hb.
  - (* measure 0: nothing left *)
    unfold mu in Hmu. unfold boundary, pending in *.
    destruct (t_pc th) as [| | |k|k|e| |cid|sm|fm|fm cid|fm pm|fm pm v|sm v] eqn:Epc; simpl in Hmu; try lia; try contradiction.
    + exists a, th. rewrite Hb. split; [apply reaches_refl|]. split; auto.
    + destruct k; [|contradiction]. destruct Hb as (s & Hs). rewrite Hs in Hmu. simpl in Hmu. lia.
  - assert (Hcont : forall ops' a1 t1 q', sim a1 t1 q' -> 2 * length ops' + length (t_stk t1) <= N ->
                    exists a' th', reaches (post (load ops' a1 t1)) (a', th') /\ t_pc th' = PDone /\ sim a' th' (sq_run q' ops')).
    { intros ops' a1 t1 q' Hs1 Hm1. destruct (load ops' a1 t1) as [a2 t2] eqn:El.
      destruct (load_sim _ _ _ _ _ _ Hs1 El) as (q1 & X1 & X2 & X3 & X4).
      destruct (IH (tick a2) t2 q1) as (a' & th' & R1 & R2 & R3); [lia|apply sim_tick; exact X1|exact X2|].
      exists a', th'. split; [exact R1|]. split; [exact R2|]. rewrite <- X3. exact R3. }
    unfold boundary in Hb. unfold mu in Hmu.
    destruct (t_pc th) as [| | |k|k|e| |cid|sm|fm|fm cid|fm pm|fm pm v|sm v] eqn:Epc; try contradiction.
    + exists a, th. unfold pending. rewrite Epc, Hb. split; [apply reaches_refl|]. split; auto.
    + (* enter *)
      destruct (enter_alone a th q Hsim Epc) as (a1 & t1 & Hre & Hs1 & Hlen).
      destruct (Hcont (t_ops th) a1 t1 _ Hs1) as (a' & th' & R1 & R2 & R3); [simpl in Hmu; lia|].
      exists a', th'. split; [eapply reaches_trans; eauto|]. split; [exact R2|]. unfold pending. rewrite Epc. exact R3.
    + (* exit *)
      destruct k; [|contradiction]. destruct Hb as (s & Hstk).
      destruct (exit_alone a th q s Hsim Epc Hstk) as (a1 & t1 & Hre & Hs1 & Hst1).
      destruct (Hcont (t_ops th) a1 t1 _ Hs1) as (a' & th' & R1 & R2 & R3); [rewrite Hst1, Hstk in *; simpl in Hmu; lia|].
      exists a', th'. split; [eapply reaches_trans; eauto|]. split; [exact R2|]. unfold pending. rewrite Epc. exact R3.
    + (* env *)
      destruct (env_alone a th q e Hsim Epc) as (Hre & Hs1).
      destruct (Hcont (t_ops th) _ th _ Hs1) as (a' & th' & R1 & R2 & R3); [simpl in Hmu; lia|].
      exists a', th'. split; [eapply reaches_trans; eauto|]. split; [exact R2|]. unfold pending. rewrite Epc. exact R3.
    + (* a call through the front-level wrapper *)
      destruct Hb as (Hcnt & Hfr).
      assert (Hpc : t_pc th = match m_front (t_cur th) with Some _ => PF1 | None => PP1 FNone end).
      { rewrite Epc. destruct (m_front (t_cur th)); [reflexivity|congruence]. }
      destruct (call_whole a th q Hsim Hcnt Hpc) as (a1 & t1 & Hre & Hs1 & Hst1).
      destruct (Hcont (t_ops th) a1 t1 _ Hs1) as (a' & th' & R1 & R2 & R3); [rewrite Hst1; simpl in Hmu; lia|].
      exists a', th'. split; [eapply reaches_trans; eauto|]. split; [exact R2|]. unfold pending. rewrite Epc. exact R3.
    + (* a call without front-level wrapper *)
      destruct fm; [|contradiction]. destruct Hb as (Hcnt & Hfr).
      assert (Hpc : t_pc th = match m_front (t_cur th) with Some _ => PF1 | None => PP1 FNone end).
      { rewrite Epc, Hfr. reflexivity. }
      destruct (call_whole a th q Hsim Hcnt Hpc) as (a1 & t1 & Hre & Hs1 & Hst1).
      destruct (Hcont (t_ops th) a1 t1 _ Hs1) as (a' & th' & R1 & R2 & R3); [rewrite Hst1; simpl in Hmu; lia|].
      exists a', th'. split; [eapply reaches_trans; eauto|]. split; [exact R2|]. unfold pending. rewrite Epc. exact R3.
Qed.

(* ------------------------------------------------------------------ in terms of lts_step / run_sched *)
Lemma sched_step_single a th :
  sched_step code_now (mkCfg a [th]) 0 = mkCfg (fst (step1 (a, th))) [snd (step1 (a, th))].
Proof. unfold sched_step, lts_step, step1. simpl. destruct (thread_step code_now 0 a th) as [[sh' th']|]; reflexivity. Qed.

Lemma run_iter : forall n a th,
  run_sched code_now (mkCfg a [th]) (repeat 0 n) = mkCfg (fst (iter1 n (a, th))) [snd (iter1 n (a, th))].
Proof.
  induction n as [|n IH]; intros a th; [reflexivity|].
  change (run_sched code_now (mkCfg a [th]) (repeat 0 (S n)))
    with (run_sched code_now (sched_step code_now (mkCfg a [th]) 0) (repeat 0 n)).
  rewrite sched_step_single. destruct (step1 (a, th)) as [a1 t1] eqn:E. simpl fst; simpl snd.
  rewrite IH. simpl iter1. rewrite E. reflexivity.
Qed.

Lemma init_single f h : init_cfg f [h] = mkCfg (fst (load h (init_shared f) blank_thread)) [snd (load h (init_shared f) blank_thread)].
Proof. unfold init_cfg. simpl. destruct (load h (init_shared f) blank_thread). reflexivity. Qed.

(* The simulation theorem.  One thread, any program: the run of the interleaving semantics
   terminates; its answers with their per-call read counts, its block stack and its final shared
   state (dict contents, both pointers, lock, sources, Process._gone) are those of the sequential
   reading, up to the ghost step numbers. *)
Theorem seq_is_lts_alone : forall f h,
  exists n th,
    let c := run_sched code_now (init_cfg f [h]) (repeat 0 n) in
    let q := sq_run (sq_init f) h in
    c_ths c = [th] /\ t_pc th = PDone /\
    map projr (rev (t_res th)) = rev (q_res q) /\ t_stk th = q_stk q /\ sheq (c_sh c) (q_sh q).
Proof.
  intros f h. rewrite init_single. destruct (load h (init_shared f) blank_thread) as [a0 t0] eqn:El. simpl fst; simpl snd.
  assert (Hs0 : sim (init_shared f) blank_thread (sq_init f)).
  { split; [repeat split|]. split; [intros o n X; discriminate|]. split; reflexivity. }
  destruct (load_sim _ _ _ _ _ _ Hs0 El) as (q1 & X1 & X2 & X3 & X4).
  destruct (run_boundary _ a0 t0 q1 (le_n _) X1 X2) as (a' & th' & (n & Hn) & Hp & (S1 & S2 & S3 & S4)).
  exists n, th'. rewrite run_iter, Hn. simpl. rewrite X3 in *.
  split; [reflexivity|]. split; [exact Hp|]. split; [rewrite map_rev, S4; reflexivity|]. split; [exact S3|exact S1].
Qed.

(* ... and that run is the only one: with a single thread every reachable configuration lies on it,
   and once the thread is done nothing moves any more *)
Theorem lts_alone_deterministic : forall f h c,
  reach code_now (init_cfg f [h]) c -> exists k, c = run_sched code_now (init_cfg f [h]) (repeat 0 k).
Proof.
  intros f h c H. induction H as [|c t c' Hr IH Hs].
  - exists 0. reflexivity.
  - destruct IH as (k & ->). exists (S k).
    assert (Hrep : repeat 0 (S k) = repeat 0 k ++ [0]).
    { clear. induction k as [|k IHk]; simpl; auto. f_equal. exact IHk. }
    assert (Ht : t = 0).
    { rewrite init_single, run_iter in Hs. unfold lts_step in Hs. simpl c_ths in Hs.
      destruct t as [|t]; auto. destruct t; discriminate. }
    subst t. rewrite Hrep. unfold run_sched at 1. rewrite fold_left_app.
    change (fold_left (sched_step code_now) (repeat 0 k) (init_cfg f [h])) with (run_sched code_now (init_cfg f [h]) (repeat 0 k)).
    cbn [fold_left]. unfold sched_step. rewrite Hs. reflexivity.
Qed.
Theorem lts_alone_done_is_final : forall c th t, c_ths c = [th] -> t_pc th = PDone -> lts_step code_now c t = None.
Proof.
  intros c th t Hc Hp. unfold lts_step. rewrite Hc. destruct t as [|t]; simpl; [|destruct t; reflexivity].
  unfold thread_step. rewrite Hp. reflexivity.
Qed.

(* Theorem 1 transported: the interleaving semantics itself, run with one thread, produces the
   answers and read counts of the specification's ghost machine *)
Theorem block_first_read_lts : forall f h rs,
  spec_run f h = Some rs ->
  exists n th, c_ths (run_sched code_now (init_cfg f [h]) (repeat 0 n)) = [th] /\ t_pc th = PDone /\
               map proj_res (map projr (rev (t_res th))) = rs.
Proof.
  intros f h rs H. destruct (seq_is_lts_alone f h) as (n & th & H1 & H2 & H3 & _).
  exists n, th. split; [exact H1|]. split; [exact H2|]. rewrite H3. apply block_first_read. exact H.
Qed.

(* Theorem 2 transported: when the program leaves no block open, the interleaving semantics ends
   with both _cache attributes gone *)
Theorem fresh_after_lts : forall f h,
  q_stk (sq_run (sq_init f) h) = [] ->
  exists n th, let c := run_sched code_now (init_cfg f [h]) (repeat 0 n) in
               c_ths c = [th] /\ t_pc th = PDone /\ t_stk th = [] /\ fptr (c_sh c) = None /\ pptr (c_sh c) = None.
Proof.
  intros f h Hs. destruct (seq_is_lts_alone f h) as (n & th & H1 & H2 & H3 & H4 & H5).
  exists n, th. split; [exact H1|]. split; [exact H2|]. split; [congruence|].
  assert (Hne : forall m, m = Mname -> m <> Mppid) by (intros m ->; discriminate).
  destruct (fresh_after f h Mname Hs (Hne _ eq_refl)) as (F1 & F2 & _).
  destruct H5 as (_ & E1 & E2 & _). split; congruence.
Qed.
