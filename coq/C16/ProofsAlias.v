(* C16 -- answers are values: what the caller does to an answer can never show up in a later answer.
   A small machine about OBJECT IDENTITY only, abstracting memoize_when_activated:
     a call of a method that is memoized in the tree, made inside a block that already holds the
     method's answer, hands out that very object again; every other call builds a new object;
     the caller may mutate in place any answer of a method whose result is a mutable container.
   Theorem: if no memoized method returns a mutable container, no call ever hands out an object
   the caller has mutated.  The table of memoized methods is generated from the source on every
   run (coq/Gen/C16_Tables.v) and proved (a) equal to the model's list and (b) disjoint from the
   methods returning mutable containers -- so one more cached method breaks a proof obligation. *)
From PV Require Import Base.Bytes C16.Spec C16.ProofsSeq Gen.C16_Tables.
Local Open Scope nat_scope.

Inductive aev := AEnter | AExit | ARaise | ACall (n : bytes) | AMut (i : nat).
Record ast := mkA {
  a_depth : nat;
  a_cache : list (bytes * nat);            (* the block's front-level dict: method -> object *)
  a_next : nat;                            (* next fresh object *)
  a_dirty : list nat;                      (* objects the caller has mutated *)
  a_ans : list (bytes * nat * bool) }.     (* answers, newest first: method, object, was it already mutated? *)

Fixpoint alookup (n : bytes) (l : list (bytes * nat)) : option nat :=
  match l with [] => None | (k, o) :: r => if bytes_eqb n k then Some o else alookup n r end.
Definition amem (o : nat) (l : list nat) : bool := existsb (Nat.eqb o) l.

Section Machine.
Variable cached : bytes -> bool.          (* memoize_when_activated methods of the tree *)
Variable mutable : bytes -> bool.         (* methods whose answer is a list / dict *)

Definition astep (s : ast) (e : aev) : ast :=
  match e with
  | AEnter => mkA (S (a_depth s)) (a_cache s) (a_next s) (a_dirty s) (a_ans s)
  | AExit =>
      match a_depth s with
      | 0 => s
      | 1 => mkA 0 [] (a_next s) (a_dirty s) (a_ans s)
      | S d => mkA d (a_cache s) (a_next s) (a_dirty s) (a_ans s)
      end
  | ARaise => mkA 0 [] (a_next s) (a_dirty s) (a_ans s)
  | ACall n =>
      let use := Nat.ltb 0 (a_depth s) && cached n in
      match (if use then alookup n (a_cache s) else None) with
      | Some o => mkA (a_depth s) (a_cache s) (a_next s) (a_dirty s) ((n, o, amem o (a_dirty s)) :: a_ans s)
      | None =>
          let o := a_next s in
          mkA (a_depth s) (if use then (n, o) :: a_cache s else a_cache s) (S o) (a_dirty s)
              ((n, o, amem o (a_dirty s)) :: a_ans s)
      end
  | AMut i =>
      match nth_error (rev (a_ans s)) i with
      | Some (n, o, _) => if mutable n then mkA (a_depth s) (a_cache s) (a_next s) (o :: a_dirty s) (a_ans s) else s
      | None => s
      end
  end.
Definition a_init : ast := mkA 0 [] 0 [] [].
Definition arun (h : list aev) : ast := fold_left astep h a_init.
Definition tainted (s : ast) : bool := existsb (fun x => snd x) (a_ans s).

Definition ainv (s : ast) : Prop :=
  (forall n o t, In (n, o, t) (a_ans s) -> o < a_next s /\ t = false) /\
  (forall n o, In (n, o) (a_cache s) -> o < a_next s /\ cached n = true /\ amem o (a_dirty s) = false) /\
  (forall n n' o, In (n, o) (a_cache s) -> In (n', o) (a_cache s) -> n = n') /\
  (forall n n' o t, In (n, o, t) (a_ans s) -> In (n', o) (a_cache s) -> n = n') /\
  (forall o, amem o (a_dirty s) = true -> o < a_next s).

Lemma alookup_In n l o : alookup n l = Some o -> exists k, bytes_eqb n k = true /\ In (k, o) l.
Proof.
  induction l as [|[k o'] r IH]; simpl; try discriminate. destruct (bytes_eqb n k) eqn:E.
  - intros H; inversion H; subst. exists k. auto.
  - intros H. destruct (IH H) as (k' & A & B). exists k'. auto.
Qed.

Hypothesis cached_immutable : forall n, cached n = true -> mutable n = false.

Lemma amem_lt o l b : (forall x, amem x l = true -> x < b) -> b <= o -> amem o l = false.
Proof. intros H Hb. destruct (amem o l) eqn:E; auto. apply H in E. lia. Qed.

Lemma ainv_step s e : ainv s -> ainv (astep s e).
Proof.
  intros Hinv.
  assert (Hdepth : forall d, ainv (mkA d (a_cache s) (a_next s) (a_dirty s) (a_ans s))) by (intros d; exact Hinv).
  assert (Hclear : forall d, ainv (mkA d [] (a_next s) (a_dirty s) (a_ans s))).
  { intros d. destruct Hinv as (I1 & _ & _ & _ & I5). split; [exact I1|]. split; [intros ? ? []|]. split; [intros ? ? ? []|].
    split; [intros ? ? ? ? _ []|exact I5]. }
  pose proof Hinv as (I1 & I2 & I3 & I4 & I5). destruct e as [| | |n|i]; simpl.
  - apply Hdepth.
  - destruct (a_depth s) as [|[|d]]; [exact Hinv|apply Hclear|apply Hdepth].
  - apply Hclear.
  - destruct (if Nat.ltb 0 (a_depth s) && cached n then alookup n (a_cache s) else None) as [o|] eqn:El.
    + (* handed out from the block's dict *)
      assert (Hin : exists k, bytes_eqb n k = true /\ In (k, o) (a_cache s)).
      { destruct (Nat.ltb 0 (a_depth s) && cached n); [apply alookup_In; auto|discriminate]. }
      destruct Hin as (k & Hk & Hin). apply bytes_eqb_eq in Hk. subst k.
      destruct (I2 _ _ Hin) as (L1 & L2 & L3).
      split; [|split; [|split; [|split]]]; simpl; auto.
      * intros n0 o0 t [E|E]; [inversion E; subst; auto|eapply I1; eauto].
      * intros n0 n' o0 t [E|E] Hc; [inversion E; subst; eapply I3; eauto|eapply I4; eauto].
    + (* a new object *)
      assert (Hfresh : amem (a_next s) (a_dirty s) = false) by (apply (amem_lt _ _ (a_next s)); auto).
      split; [|split; [|split; [|split]]]; simpl.
      * intros n0 o0 t [E|E]; [inversion E; subst; split; [lia|auto]|destruct (I1 _ _ _ E); split; [lia|auto]].
      * intros n0 o0 Hc.
        destruct (Nat.ltb 0 (a_depth s) && cached n) eqn:Eu.
        -- destruct Hc as [E|E]; [inversion E; subst|destruct (I2 _ _ E) as (A & B & C); repeat split; auto; lia].
           apply andb_prop in Eu. destruct Eu. repeat split; auto.
        -- destruct (I2 _ _ Hc) as (A & B & C); repeat split; auto; lia.
      * intros n0 n' o0 H1 H2. destruct (Nat.ltb 0 (a_depth s) && cached n); [|eapply I3; eauto].
        destruct H1 as [E1|E1], H2 as [E2|E2]; try (inversion E1; subst); try (inversion E2; subst); auto;
          try (exfalso; match goal with H : In (_, a_next s) (a_cache s) |- _ => apply I2 in H; lia end).
        eapply I3; eauto.
      * intros n0 n' o0 t H1 H2.
        assert (Hold : In (n', o0) (a_cache s) -> o0 < a_next s) by (intros X; apply I2 in X; tauto).
        destruct H1 as [E1|E1].
        -- inversion E1; subst.
           destruct (Nat.ltb 0 (a_depth s) && cached n0); [destruct H2 as [E2|E2]; [inversion E2; auto|apply Hold in E2; lia]|apply Hold in H2; lia].
        -- destruct (I1 _ _ _ E1) as [Lt _].
           destruct (Nat.ltb 0 (a_depth s) && cached n); [destruct H2 as [E2|E2]; [inversion E2; subst; lia|eapply I4; eauto]|eapply I4; eauto].
      * intros o0 H. apply I5 in H. lia.
  - destruct (nth_error (rev (a_ans s)) i) as [[[n o] t]|] eqn:En; [|exact Hinv].
    destruct (mutable n) eqn:Em; [|exact Hinv].
    assert (Hin : In (n, o, t) (a_ans s)) by (apply in_rev; eapply nth_error_In; eauto).
    destruct (I1 _ _ _ Hin) as [Lt _].
    split; [|split; [|split; [|split]]]; simpl; auto.
    + intros n0 o0 Hc. destruct (I2 _ _ Hc) as (A & B & C). repeat split; auto.
      destruct (Nat.eqb o0 o) eqn:E; auto. apply Nat.eqb_eq in E. subst o0. exfalso.
      rewrite (I4 _ _ _ _ Hin Hc) in Em. rewrite (cached_immutable _ B) in Em. discriminate.
    + intros o0 H. apply orb_prop in H. destruct H as [H|H]; [apply Nat.eqb_eq in H; subst; auto|auto].
Qed.

Lemma ainv_run : forall h s, ainv s -> ainv (fold_left astep h s).
Proof. induction h as [|e r IH]; intros s H; simpl; auto. apply IH. apply ainv_step. auto. Qed.

(* Aliasing freedom.  Any history of enter / exit / raise / calls of any methods / in-place mutations of any
   earlier answers: no call hands out an object the caller has mutated. *)
Theorem alias_free : forall h, tainted (arun h) = false.
Proof.
  intros h. assert (H : ainv (arun h)).
  { apply ainv_run. repeat split; simpl; try contradiction; try discriminate. }
  destruct H as (I1 & _). unfold tainted. destruct (existsb (fun x => snd x) (a_ans (arun h))) eqn:E; auto.
  apply existsb_exists in E. destruct E as ([[n o] t] & Hin & Ht). simpl in Ht. destruct (I1 _ _ _ Hin). congruence.
Qed.
End Machine.

(* ------------------------------------------------------------------ the tables *)
(* public Process methods whose answer is a mutable container (list / dict) *)
Definition mutable_methods : list bytes :=
  [bs "cmdline"; bs "environ"; bs "open_files"; bs "net_connections"; bs "connections"; bs "threads";
   bs "memory_maps"; bs "cpu_affinity"; bs "as_dict"; bs "children"; bs "parents"].
Definition is_mutable (n : bytes) : bool := mem_bytes n mutable_methods.
Definition is_cached (n : bytes) : bool := mem_bytes n memoized_front.

(* names of the model's front-level keys and memoized readers *)
Definition fkey_name (f : fkey) : bytes :=
  match f with FPpid => bs "ppid" | FCpuTimes => bs "cpu_times" | FMemInfo => bs "memory_info" | FUids => bs "uids" end.
Definition reader_name (s : src) : option bytes :=
  match s with Stat => Some (bs "_parse_stat_file") | Status => Some (bs "_read_status_file")
             | Smaps => Some (bs "_read_smaps_file") | Statm => None end.

(* The set of memoize_when_activated methods in the source is exactly the model's: the four front-level
   keys (in the generated, sorted order) and the three memoized readers; no reader for statm. *)
Theorem memoized_table :
  memoized_front = [fkey_name FCpuTimes; fkey_name FMemInfo; fkey_name FPpid; fkey_name FUids] /\
  memoized_platform = [bs "_parse_stat_file"; bs "_read_smaps_file"; bs "_read_status_file"] /\
  (forall s, match reader_name s with Some n => mem_bytes n memoized_platform = memoized s | None => memoized s = false end) /\
  (* none of the cached methods returns a mutable container *)
  (forall n, is_cached n = true -> is_mutable n = false).
Proof.
  split; [vm_compute; reflexivity|]. split; [vm_compute; reflexivity|]. split.
  - intros s. destruct s; vm_compute; reflexivity.
  - assert (H : forallb (fun n => negb (is_mutable n)) memoized_front = true) by (vm_compute; reflexivity).
    intros n Hn. unfold is_cached, mem_bytes in Hn. apply existsb_exists in Hn. destruct Hn as (k & Hk & He).
    apply bytes_eqb_eq in He. subst k. rewrite forallb_forall in H. apply negb_true_iff. apply H. exact Hk.
Qed.

(* hence, for the tree under test: *)
Theorem alias_free_now : forall h, tainted (arun is_cached is_mutable h) = false.
Proof. apply alias_free. destruct memoized_table as (_ & _ & _ & H). exact H. Qed.

(* and the hypothesis matters: were cmdline() memoized, the second call would hand out the list the caller emptied *)
Theorem alias_free_refuted_if_cmdline_cached :
  exists h, tainted (arun (fun n => bytes_eqb n (bs "cmdline")) is_mutable h) = true.
Proof. exists [AEnter; ACall (bs "cmdline"); AMut 0; ACall (bs "cmdline")]. vm_compute. reflexivity. Qed.
