(* C16 -- manager objects created ahead of their entry (Mgr.v): the moment of creation is irrelevant. *)
From PV Require Import C16.Lib C16.Mgr C16.ProofsRefine.
Local Open Scope nat_scope.

Definition g_inv (g : gsq) : Prop := map snd (gs_open g) = q_stk (gs_q g).

Lemma g_leave_exit : forall fr s q, q_stk q = fr :: s -> g_leave fr q = sq_exit q.
Proof.
  intros fr s q H. unfold g_leave, sq_exit. rewrite H. destruct fr; reflexivity.
Qed.

Lemma g_leave_all : forall (op : list (nat * frame)) q,
  map snd op = q_stk q ->
  fold_left (fun q' kf => g_leave (snd kf) q') op q = sq_unwind (length (q_stk q)) q
  /\ q_stk (sq_unwind (length (q_stk q)) q) = [].
Proof.
  induction op as [|[k fr] r IH]; intros q H; cbn [map snd] in H.
  - rewrite <- H. cbn. split; [reflexivity | symmetry; exact H].
  - rewrite <- H. cbn [length sq_unwind fold_left snd].
    assert (E : g_leave fr q = sq_exit q) by (apply g_leave_exit with (s := map snd r); symmetry; exact H).
    rewrite E.
    assert (S1 : q_stk (sq_exit q) = map snd r).
    { unfold sq_exit. rewrite <- H. destruct fr; reflexivity. }
    specialize (IH (sq_exit q) (eq_sym S1)). rewrite S1 in IH. rewrite map_length in IH. rewrite map_length.
    exact IH.
Qed.

Lemma g_step_erase : forall g o g',
  g_inv g -> g_step g o = Some g' ->
  gs_q g' = sq_run (gs_q g) (erase o) /\ g_inv g'.
Proof.
  intros g o g' I H. unfold g_inv in *. destruct o as [k|k|k| |c|e]; cbn [g_step erase sq_run fold_left] in *.
  - destruct (is_entered (gs_tab g k)); [discriminate|]. inversion H; subst; cbn. auto.
  - destruct (gs_tab g k); try discriminate.
    cbn [sq_step]. unfold sq_enter.
    destruct (fptr (acquire0 (q_sh (gs_q g)))) eqn:E; inversion H; subst; cbn [gs_q gs_open map snd q_stk];
      (split; [reflexivity | f_equal; exact I]).
  - destruct (gs_open g) as [|[k' fr] rest] eqn:E; [discriminate|].
    destruct (Nat.eqb k k'); [|discriminate]. inversion H; subst; cbn [gs_q gs_open sq_step].
    cbn [map snd] in I.
    rewrite (g_leave_exit fr (map snd rest) (gs_q g) (eq_sym I)). split; [reflexivity|].
    unfold sq_exit. rewrite <- I. destruct fr; reflexivity.
  - inversion H; subst; cbn [gs_q gs_open map sq_step].
    destruct (g_leave_all (gs_open g) (gs_q g) I) as [A B]. rewrite A. split; [reflexivity | symmetry; exact B].
  - inversion H; subst; cbn [gs_q gs_open]. split; [reflexivity|].
    rewrite I. cbn [sq_step]. destruct c as [m| |o]; cbn.
    + destruct (sq_call m (q_sh (gs_q g))) as [[sh cn] r]. reflexivity.
    + reflexivity.
    + reflexivity.
  - inversion H; subst; cbn [gs_q gs_open sq_step q_stk]. auto.
Qed.

Lemma sq_run_app : forall a b q, sq_run q (a ++ b) = sq_run (sq_run q a) b.
Proof. intros. unfold sq_run. apply fold_left_app. Qed.

Lemma g_run_erase : forall h g g',
  g_inv g -> g_run h g = Some g' ->
  gs_q g' = sq_run (gs_q g) (flat_map erase h) /\ g_inv g'.
Proof.
  induction h as [|o r IH]; intros g g' I H; cbn [g_run flat_map] in *.
  - inversion H; subst. auto.
  - destruct (g_step g o) as [g1|] eqn:E; [|discriminate].
    destruct (g_step_erase g o g1 I E) as [A I1].
    destruct (IH g1 g' I1 H) as [B I2]. rewrite sq_run_app, <- A. auto.
Qed.

(* the model: a history over pre-created manager objects does, call by call, what the same history written
   with `with p.oneshot():` does (answers, read counts, final cache pointers, lock) *)
Theorem precreated_same_as_with : forall f h g,
  g_run h (g_init f) = Some g ->
  gs_q g = sq_run (sq_init f) (flat_map erase h).
Proof.
  intros f h g H. apply (g_run_erase h (g_init f) g); [reflexivity | exact H].
Qed.

(* against the specification *)
Theorem precreated_block_first_read : forall f h g rs,
  g_run h (g_init f) = Some g ->
  spec_run f (flat_map erase h) = Some rs ->
  map proj_res (rev (q_res (gs_q g))) = rs.
Proof.
  intros f h g rs H S. rewrite (precreated_same_as_with f h g H). apply block_first_read. exact S.
Qed.

(* ---- moving every creation to the point of entry keeps the history inside the domain *)
Definition g_sim (g g' : gsq) : Prop :=
  gs_q g = gs_q g' /\ gs_open g = gs_open g' /\
  forall k, gs_tab g' k = MsEntered -> gs_tab g k = MsEntered.

Lemma g_step_inline : forall g o g1 g',
  g_sim g g' -> g_step g o = Some g1 ->
  exists g1', g_run (inline1 o) g' = Some g1' /\ g_sim g1 g1'.
Proof.
  intros g o g1 g' [Q [O T]] H. destruct o as [k|k|k| |c|e]; cbn [g_step inline1 g_run] in *.
  - destruct (is_entered (gs_tab g k)) eqn:E; [discriminate|]. inversion H; subst. exists g'.
    split; [reflexivity|]. split; [exact Q|]. split; [exact O|].
    intros x Hx. cbn [gs_tab]. unfold tab_set. destruct (Nat.eqb x k) eqn:Ex.
    + apply Nat.eqb_eq in Ex. subst x. rewrite (T k Hx) in E. discriminate.
    + apply T. exact Hx.
  - destruct (gs_tab g k) eqn:E; try discriminate.
    assert (N : is_entered (gs_tab g' k) = false).
    { destruct (gs_tab g' k) eqn:E'; try reflexivity. rewrite (T k E') in E. discriminate. }
    rewrite N. cbn [gs_tab gs_q gs_open]. unfold tab_set at 1. rewrite Nat.eqb_refl.
    rewrite <- Q, <- O.
    destruct (fptr (acquire0 (q_sh (gs_q g)))); inversion H; subst; eexists; (split; [reflexivity|]);
      (split; [reflexivity|]); (split; [reflexivity|]); intros x; cbn [gs_tab]; unfold tab_set;
      destruct (Nat.eqb x k); auto.
  - rewrite <- O, <- Q. destruct (gs_open g) as [|[k' fr] rest]; [discriminate|].
    destruct (Nat.eqb k k'); [|discriminate]. inversion H; subst. eexists. split; [reflexivity|].
    split; [reflexivity|]. split; [reflexivity|]. intros x; cbn [gs_tab]; unfold tab_set.
    destruct (Nat.eqb x k); auto.
  - rewrite <- O, <- Q. inversion H; subst. eexists. split; [reflexivity|].
    split; [reflexivity|]. split; [reflexivity|]. intros x; cbn [gs_tab].
    destruct (existsb (fun kf => Nat.eqb (fst kf) x) (gs_open g)); auto.
  - rewrite <- O, <- Q. inversion H; subst. eexists. split; [reflexivity|].
    split; [reflexivity|]. split; [reflexivity|]. exact T.
  - rewrite <- O, <- Q. inversion H; subst. eexists. split; [reflexivity|].
    split; [reflexivity|]. split; [reflexivity|]. exact T.
Qed.

Lemma g_run_app : forall a b g, g_run (a ++ b) g = match g_run a g with Some g1 => g_run b g1 | None => None end.
Proof.
  induction a as [|o r IH]; intros b g; cbn [g_run app]; [reflexivity|].
  destruct (g_step g o); [apply IH | reflexivity].
Qed.

Lemma g_run_inline : forall h g g' g2,
  g_sim g g' -> g_run h g = Some g2 ->
  exists g2', g_run (inline h) g' = Some g2' /\ g_sim g2 g2'.
Proof.
  induction h as [|o r IH]; intros g g' g2 S H; cbn [g_run] in H.
  - inversion H; subst. exists g'. split; [reflexivity | exact S].
  - destruct (g_step g o) as [g1|] eqn:E; [|discriminate].
    destruct (g_step_inline g o g1 g' S E) as [g1' [R1 S1]].
    destruct (IH g1 g1' g2 S1 H) as [g2' [R2 S2]].
    exists g2'. split; [|exact S2].
    unfold inline. cbn [flat_map]. rewrite g_run_app, R1. exact R2.
Qed.

Theorem precreated_same_as_created_at_entry : forall f h g,
  g_run h (g_init f) = Some g ->
  exists g', g_run (inline h) (g_init f) = Some g' /\ gs_q g' = gs_q g /\ gs_open g' = gs_open g.
Proof.
  intros f h g H.
  destruct (g_run_inline h (g_init f) (g_init f) g) as [g' [R [Q [O _]]]].
  - split; [reflexivity|]. split; [reflexivity|]. auto.
  - exact H.
  - exists g'. auto.
Qed.

(* a history of the class: two managers built up front, a third built inside the open block and entered on its own
   after it; kernel changes between the calls *)
Example precreated_example :
  exists g, g_run [GCreate 0; GCreate 1; GEnter 0; GCall (CM Mname); GEnv (ESet Stat (SAvail 2)); GCreate 2;
                   GEnter 1; GCall (CM Mppid); GExit 1; GCall (CM Mcpu_num); GExit 0;
                   GEnv (ESet Stat (SAvail 3)); GEnter 2; GCall (CM Mname); GCall (CM Mppid); GExit 2]
                  (g_init (fun _ => SAvail 1)) = Some g
            /\ map fst (rev (q_res (gs_q g))) = [Val 1; Val 1; Val 1; Val 3; Val 3]
            /\ map snd (rev (q_res (gs_q g))) = [[1; 0; 0; 0]; [0; 0; 0; 0]; [0; 0; 0; 0]; [1; 0; 0; 0]; [0; 0; 0; 0]].
Proof. eexists. split; [vm_compute; reflexivity|]. vm_compute. auto. Qed.
