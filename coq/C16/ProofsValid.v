(* C16 -- threads, all interleavings: where a returned value comes from (theorem 6).
   Every value a call returns was either read by that call, or was found in a cache dict that
   the call reached through the live pointer -- and (code now, theorem 7) every value in a dict
   was read after the dict was created, i.e. inside the block the call overlapped. *)
From PV Require Import C16.Lib C16.ProofsFresh.
Local Open Scope nat_scope.

Definition holds sh cid (v : val) := exists C k, nth_error (heap sh) cid = Some C /\ In (k, v) (c_ents C).
Definition vprov sh (t0 : nat) (hit : option nat) (v : val) := t0 <= snd v \/ exists cid, hit = Some cid /\ holds sh cid v.
Definition rprov sh (r : result) := match r_out r with Val v => vprov sh (r_t0 r) (r_hit r) v | _ => True end.
Definition tprov sh th :=
  t_t0 th <= clock sh /\ Forall (rprov sh) (t_res th) /\
  match t_pc th with
  | PP3 _ _ v => t_t0 th <= snd v
  | PF3 _ v => vprov sh (t_t0 th) (t_hit th) v
  | _ => True
  end.

Definition ext2 sh sh' := clock sh <= clock sh' /\ forall cid v, holds sh cid v -> holds sh' cid v.
Lemma ext2_refl sh : ext2 sh sh.
Proof. split; auto. Qed.
Lemma ext2_trans a b c : ext2 a b -> ext2 b c -> ext2 a c.
Proof. intros [A1 A2] [B1 B2]. split; [lia|auto]. Qed.
Lemma core_ext2 sh sh' : same_core sh sh' -> ext2 sh sh'.
Proof. intros (E1 & _ & _ & E4). unfold ext2, holds. rewrite E1, E4. auto. Qed.

Lemma vprov_ext sh sh' t0 hit v : ext2 sh sh' -> vprov sh t0 hit v -> vprov sh' t0 hit v.
Proof. intros [_ H] [A|(cid & E & Hh)]; [left; auto|right; eauto]. Qed.
Lemma rprov_ext sh sh' r : ext2 sh sh' -> rprov sh r -> rprov sh' r.
Proof. unfold rprov. destruct (r_out r); auto. apply vprov_ext. Qed.
Lemma tprov_ext sh sh' th : ext2 sh sh' -> tprov sh th -> tprov sh' th.
Proof.
  intros He (A & B & C). pose proof He as [Hc _]. split; [lia|]. split.
  - eapply Forall_impl; [|exact B]. intros r. apply rprov_ext; auto.
  - destruct (t_pc th); auto. eapply vprov_ext; eauto.
Qed.

Lemma load_prov : forall ops sh th sh' th',
  load ops sh th = (sh', th') -> t_t0 th <= clock sh -> Forall (rprov sh) (t_res th) -> tprov sh' th'.
Proof.
  induction ops as [|o r IH]; intros sh th sh' th' H Ht Hr; simpl in H.
  - inversion H; subst. repeat split; auto.
  - destruct o as [| | |c|e].
    + inversion H; subst. repeat split; auto.
    + destruct (t_stk th) as [|[|] s].
      * eapply IH; eauto.
      * inversion H; subst. repeat split; auto.
      * eapply IH; [exact H|exact Ht|]. eapply Forall_impl; [|exact Hr]. intros x. apply rprov_ext. apply core_ext2, unlock_core.
    + destruct (strip_nested (t_stk th) sh) as [s sh1] eqn:Es. pose proof (strip_nested_core _ _ _ _ Es) as Hc.
      assert (Hr1 : Forall (rprov sh1) (t_res th)).
      { eapply Forall_impl; [|exact Hr]. intros x. apply rprov_ext. apply core_ext2; auto. }
      assert (Ht1 : t_t0 th <= clock sh1) by (destruct Hc as (_ & _ & _ & ->); auto).
      destruct s as [|f s].
      * eapply IH; [exact H|exact Ht1|exact Hr1].
      * inversion H; subst. repeat split; auto.
    + destruct c as [m| |o].
      * inversion H; subst. split; [simpl; lia|]. split; [exact Hr|]. simpl. destruct (m_front m); exact I.
      * eapply IH; [exact H|simpl; lia|]. simpl. constructor; [|exact Hr]. unfold rprov; simpl. left. simpl. lia.
      * eapply IH; [exact H|simpl; lia|]. simpl. constructor; [|exact Hr]. unfold rprov; simpl.
        destruct o as [n|e|]; simpl; auto. left. simpl. lia.
    + inversion H; subst. repeat split; auto.
Qed.

Lemma finish_prov sh th o sh' th' :
  finish sh th o = (sh', th') -> t_t0 th <= clock sh -> Forall (rprov sh) (t_res th) ->
  (forall v, o = Val v -> vprov sh (t_t0 th) (t_hit th) v) -> tprov sh' th'.
Proof.
  intros H Ht Hr Hv. unfold finish in H. eapply load_prov; [exact H|exact Ht|].
  simpl. constructor; [|exact Hr]. unfold rprov; simpl. destruct o; auto.
Qed.

Lemma ret_proc_prov sh th fm v sh' th' :
  ret_proc sh th fm v = (sh', th') -> t_t0 th <= clock sh -> Forall (rprov sh) (t_res th) ->
  vprov sh (t_t0 th) (t_hit th) v -> tprov sh' th'.
Proof.
  intros H Ht Hr Hv. unfold ret_proc in H.
  destruct (meth_eqb (t_cur th) Mmemory_full).
  - unfold do_read in H. destruct (read_src sh Statm) as [x|e|]; simpl in H.
    + destruct fm as [|[|b]]; try (eapply finish_prov; [exact H|exact Ht|exact Hr|intros v0 E; inversion E; subst; exact Hv]).
      inversion H; subst. split; [exact Ht|]. split; [exact Hr|exact Hv].
    + eapply finish_prov; [exact H|exact Ht|exact Hr|intros v0 E; discriminate].
    + eapply finish_prov; [exact H|exact Ht|exact Hr|intros v0 E; discriminate].
  - destruct fm as [|[|b]]; try (eapply finish_prov; [exact H|exact Ht|exact Hr|intros v0 E; inversion E; subst; exact Hv]).
    inversion H; subst. split; [exact Ht|]. split; [exact Hr|exact Hv].
Qed.

Lemma assoc_In k l v : assoc k l = Some v -> In (k, v) l.
Proof.
  induction l as [|[k' v'] r IH]; simpl; try discriminate.
  destruct (key_eqb k k') eqn:Ek; auto. intros E; inversion E; subst. left. f_equal.
  destruct k, k'; simpl in Ek; try discriminate.
  - destruct f, f0; simpl in Ek; try discriminate; reflexivity.
  - destruct s, s0; simpl in Ek; try discriminate; reflexivity.
Qed.
Lemma w1b_hit b cid k sh v c : w1b b cid k sh = LHit v c -> c = cid /\ holds sh cid v.
Proof.
  unfold w1b, py_subscript. destruct (nth_error (heap sh) cid) as [C|] eqn:E; [|discriminate].
  destruct (assoc k (c_ents C)) as [v0|] eqn:Ea; [|discriminate]. intros H; inversion H; subst.
  split; auto. exists C, k. split; auto. apply assoc_In; auto.
Qed.
Lemma w1_hit vr l k sh v c : w1 vr l k sh = LHit v c -> holds sh c v.
Proof.
  unfold w1. destruct (py_getcache l sh) as [cid|e|]; try discriminate.
  - destruct (bind_once vr); [discriminate|]. intros H. apply w1b_hit in H. destruct H as [-> H]. exact H.
  - destruct e; discriminate.
Qed.

Lemma setitem_ext2 sh cid k v sh' : py_setitem sh cid k v = Val sh' -> ext2 sh sh'.
Proof.
  unfold py_setitem. destruct (nth_error (heap sh) cid) as [C0|] eqn:E0; [|discriminate].
  intros H; inversion H; subst. split; [simpl; auto|]. intros c w (C & k0 & HC & Hin). unfold holds. simpl.
  destruct (Nat.eq_dec cid c) as [->|Hne].
  - rewrite (nth_error_upd_nth_eq _ _ _ _ HC). eexists; exists k0. split; [reflexivity|]. simpl. auto.
  - rewrite nth_error_upd_nth_neq; auto. eauto.
Qed.
Lemma w3_ext2 vr l k sm v sh sh' : w3 vr l k sm v sh = Val sh' -> ext2 sh sh'.
Proof.
  unfold w3. destruct sm as [|[c|]].
  - intros H; inversion H; apply ext2_refl.
  - apply setitem_ext2.
  - unfold py_getcache. destruct (ptr l sh) as [c|]; simpl.
    + destruct (py_setitem sh c k v) as [s1|e|] eqn:Es.
      * intros H; inversion H; subst. eapply setitem_ext2; eauto.
      * exfalso. unfold py_setitem in Es. destruct (nth_error (heap sh) c); discriminate.
      * discriminate.
    + destruct (handle_l3 vr); intros H; inversion H; apply ext2_refl.
Qed.
Lemma activate_ext2 l sh : ext2 sh (activate l sh).
Proof.
  split; [destruct l; simpl; auto|]. intros c w (C & k0 & HC & Hin). exists C, k0. split; auto.
  rewrite activate_heap. rewrite nth_error_app1; auto. apply nth_error_Some. congruence.
Qed.
Lemma deactivate_ext2 l sh sh' : deactivate l sh = Val sh' -> ext2 sh sh'.
Proof.
  unfold deactivate, py_delcache. destruct (ptr l sh); simpl; intros H; inversion H; subst; [|apply ext2_refl].
  destruct l; split; simpl; auto.
Qed.

Lemma Forall_rprov_ext sh sh' l : ext2 sh sh' -> Forall (rprov sh) l -> Forall (rprov sh') l.
Proof. intros He H. eapply Forall_impl; [|exact H]. intros r. apply rprov_ext; auto. Qed.

Lemma thread_step_prov vr tid sh th sh' th' :
  thread_step vr tid sh th = Some (sh', th') -> tprov sh th -> tprov sh' th' /\ ext2 sh sh'.
Proof.
  intros H (Ht & Hr & Hp). unfold thread_step in H.
  assert (Hload : forall ops sh0 th0 p, load ops sh0 th0 = p -> ext2 sh sh0 -> t_t0 th0 = t_t0 th -> t_res th0 = t_res th ->
                  tprov (fst p) (snd p) /\ ext2 sh (fst p)).
  { intros ops sh0 th0 [a b] E He E1 E2. simpl. pose proof (load_core _ _ _ _ _ E) as [Hc _]. split.
    - eapply load_prov; [exact E| |]. rewrite E1. destruct He; lia. rewrite E2. eapply Forall_rprov_ext; eauto.
    - eapply ext2_trans; [exact He|apply core_ext2; auto]. }
  assert (Hfin : forall sh0 th0 o p, finish sh0 th0 o = p -> ext2 sh sh0 -> t_t0 th0 = t_t0 th -> t_res th0 = t_res th ->
                  (forall v, o = Val v -> vprov sh0 (t_t0 th0) (t_hit th0) v) ->
                  tprov (fst p) (snd p) /\ ext2 sh (fst p)).
  { intros sh0 th0 o [a b] E He E1 E2 Hv. simpl. pose proof (finish_core _ _ _ _ _ E) as [Hc _]. split.
    - eapply finish_prov; [exact E| | |exact Hv]. rewrite E1. destruct He; lia. rewrite E2. eapply Forall_rprov_ext; eauto.
    - eapply ext2_trans; [exact He|apply core_ext2; auto]. }
  assert (Hret : forall sh0 th0 fm v p, ret_proc sh0 th0 fm v = p -> ext2 sh sh0 -> t_t0 th0 = t_t0 th -> t_res th0 = t_res th ->
                  vprov sh0 (t_t0 th0) (t_hit th0) v ->
                  tprov (fst p) (snd p) /\ ext2 sh (fst p)).
  { intros sh0 th0 fm v [a b] E He E1 E2 Hv. simpl.
    assert (Hc : same_core sh0 a).
    { clear - E. unfold ret_proc in E. destruct (meth_eqb (t_cur th0) Mmemory_full).
      - unfold do_read in E. destruct (read_src sh0 Statm); simpl in E;
          try (apply finish_core in E; tauto). destruct fm as [|[|]]; try (apply finish_core in E; tauto).
        inversion E; apply same_core_refl.
      - destruct fm as [|[|]]; try (apply finish_core in E; tauto). inversion E; apply same_core_refl. }
    split.
    - eapply ret_proc_prov; [exact E| | |exact Hv]. rewrite E1. destruct He; lia. rewrite E2. eapply Forall_rprov_ext; eauto.
    - eapply ext2_trans; [exact He|apply core_ext2; auto]. }
  assert (Hpc : forall p, match p with PP3 _ _ v => t_t0 th <= snd v | PF3 _ v => vprov sh (t_t0 th) (t_hit th) v | _ => True end ->
                tprov sh (th_pc th p) /\ ext2 sh sh).
  { intros p Hq. split; [|apply ext2_refl]. split; [exact Ht|]. split; [exact Hr|exact Hq]. }
  destruct (t_pc th) as [| | |k|k|e| |cid|sm|fm|fm cid|fm pm|fm pm v|sm v] eqn:Epc.
  - discriminate.
  - destruct (lock sh) as [[o n]|].
    + destruct (Nat.eqb o tid); [|discriminate]. inversion H; subst.
      split; [split; [exact Ht|split; [exact Hr|exact I]]|apply core_ext2, set_lock_core].
    + inversion H; subst. split; [split; [exact Ht|split; [exact Hr|exact I]]|apply core_ext2, set_lock_core].
  - destruct (fptr sh).
    + unsome H E. apply Hload in E; [exact E|apply ext2_refl|reflexivity|reflexivity].
    + inversion H; subst. apply Hpc. exact I.
  - pose proof (activate_ext2 (if Nat.ltb k 4 then Front else Proc) sh) as He.
    destruct (Nat.ltb k 6).
    + inversion H; subst. split; [|exact He]. eapply tprov_ext; [exact He|]. split; [exact Ht|split; [exact Hr|exact I]].
    + unsome H E. apply Hload in E; [exact E|exact He|reflexivity|reflexivity].
  - destruct (deactivate (if Nat.ltb k 4 then Front else Proc) sh) as [sh1|e|] eqn:Ed.
    + pose proof (deactivate_ext2 _ _ _ Ed) as He. destruct (Nat.ltb k 6).
      * inversion H; subst. split; [|exact He]. eapply tprov_ext; [exact He|]. split; [exact Ht|split; [exact Hr|exact I]].
      * unsome H E. assert (He' : ext2 sh (unlock sh1)) by (eapply ext2_trans; [exact He|apply core_ext2, unlock_core]).
        apply Hload in E; [exact E|exact He'|reflexivity|reflexivity].
    + unsome H E. unfold crash in E. inversion E; subst. split; [|apply ext2_refl]. split; [exact Ht|]. split; [|exact I].
      simpl. constructor; [exact I|exact Hr].
    + unsome H E. unfold crash in E. inversion E; subst. split; [|apply ext2_refl]. split; [exact Ht|]. split; [|exact I].
      simpl. constructor; [exact I|exact Hr].
  - unsome H E. assert (He : ext2 sh (apply_env e sh)) by apply core_ext2, apply_env_core.
    apply Hload in E; [exact E|exact He|reflexivity|reflexivity].
  - destruct (m_front (t_cur th)) as [fk|]; unsome H E.
    + unfold on_lookup in E. destruct (w1 vr Front (KF fk) sh) as [v c|sm|c|o] eqn:Ew.
      * apply w1_hit in Ew. apply Hfin in E; [exact E|apply ext2_refl|reflexivity|reflexivity|].
        intros v0 X; inversion X; subst. right. exists c. split; [reflexivity|exact Ew].
      * inversion E; subst. apply Hpc. exact I.
      * inversion E; subst. apply Hpc. exact I.
      * apply Hfin in E; [exact E|apply ext2_refl|reflexivity|reflexivity|].
        intros v0 X. subst o. exfalso. clear - Ew. unfold w1, py_getcache in Ew. destruct (ptr Front sh); [|discriminate].
        destruct (bind_once vr); [discriminate|]. unfold w1b, py_subscript in Ew.
        destruct (nth_error (heap sh) n); [|discriminate]. destruct (assoc (KF fk) (c_ents c)); discriminate.
    + unfold crash in E. inversion E; subst. split; [|apply ext2_refl]. split; [exact Ht|]. split; [|exact I].
      simpl. constructor; [exact I|exact Hr].
  - destruct (m_front (t_cur th)) as [fk|]; unsome H E.
    + unfold on_lookup in E. destruct (w1b true cid (KF fk) sh) as [v c|sm|c|o] eqn:Ew.
      * apply w1b_hit in Ew. destruct Ew as [-> Ew]. apply Hfin in E; [exact E|apply ext2_refl|reflexivity|reflexivity|].
        intros v0 X; inversion X; subst. right. exists cid. split; [reflexivity|exact Ew].
      * inversion E; subst. apply Hpc. exact I.
      * inversion E; subst. apply Hpc. exact I.
      * apply Hfin in E; [exact E|apply ext2_refl|reflexivity|reflexivity|].
        intros v0 X. subst o. exfalso. clear - Ew. unfold w1b, py_subscript in Ew.
        destruct (nth_error (heap sh) cid); [|discriminate]. destruct (assoc (KF fk) (c_ents c)); discriminate.
    + unfold crash in E. inversion E; subst. split; [|apply ext2_refl]. split; [exact Ht|]. split; [|exact I].
      simpl. constructor; [exact I|exact Hr].
  - destruct (if meth_eqb (t_cur th) Mppid then ident_check sh else IOk sh) as [sh1|e|] eqn:Ei.
    + assert (Hc1 : same_core sh sh1).
      { destruct (meth_eqb (t_cur th) Mppid); [|inversion Ei; apply same_core_refl].
        unfold ident_check in Ei. destruct (gone_flag sh); [discriminate|].
        destruct (srcs sh Stat); inversion Ei; subst; try apply same_core_refl. apply set_gone_core. }
      pose proof (core_ext2 _ _ Hc1) as He1. assert (Hck : clock sh1 = clock sh) by (destruct Hc1 as (_ & _ & _ & ?); auto).
      destruct (memoized (m_src (t_cur th))).
      * inversion H; subst. split; [|exact He1]. eapply tprov_ext; [exact He1|]. split; [exact Ht|split; [exact Hr|exact I]].
      * unfold do_read, read_src in H. destruct (srcs sh1 (m_src (t_cur th))) as [x| |].
        -- destruct sm as [|b]; unsome H E.
           ++ apply Hfin in E; [exact E|exact He1|reflexivity|reflexivity|].
              intros v0 X; inversion X; subst. left. simpl. lia.
           ++ inversion E; subst. split; [|exact He1]. split; [simpl; lia|]. split; [simpl; eapply Forall_rprov_ext; eauto|].
              simpl. left. simpl. lia.
        -- unsome H E. apply Hfin in E; [exact E|exact He1|reflexivity|reflexivity|intros v0 X; discriminate].
        -- unsome H E. apply Hfin in E; [exact E|exact He1|reflexivity|reflexivity|intros v0 X; discriminate].
    + unsome H E. apply Hfin in E; [exact E|apply ext2_refl|reflexivity|reflexivity|intros v0 X; discriminate].
    + unsome H E. apply Hfin in E; [exact E|apply ext2_refl|reflexivity|reflexivity|intros v0 X; discriminate].
  - unsome H E. unfold on_lookup in E. destruct (w1 vr Proc (KS (m_src (t_cur th))) sh) as [v c|sm|c|o] eqn:Ew.
    + apply w1_hit in Ew. apply Hret in E; [exact E|apply ext2_refl|reflexivity|reflexivity|].
      right. exists c. split; [reflexivity|exact Ew].
    + inversion E; subst. apply Hpc. exact I.
    + inversion E; subst. apply Hpc. exact I.
    + apply Hfin in E; [exact E|apply ext2_refl|reflexivity|reflexivity|].
      intros v0 X. subst o. exfalso. clear - Ew. unfold w1, py_getcache in Ew. destruct (ptr Proc sh); [|discriminate].
      destruct (bind_once vr); [discriminate|]. unfold w1b, py_subscript in Ew.
      destruct (nth_error (heap sh) n); [|discriminate]. destruct (assoc (KS (m_src (t_cur th))) (c_ents c)); discriminate.
  - unsome H E. unfold on_lookup in E. destruct (w1b true cid (KS (m_src (t_cur th))) sh) as [v c|sm|c|o] eqn:Ew.
    + apply w1b_hit in Ew. destruct Ew as [-> Ew]. apply Hret in E; [exact E|apply ext2_refl|reflexivity|reflexivity|].
      right. exists cid. split; [reflexivity|exact Ew].
    + inversion E; subst. apply Hpc. exact I.
    + inversion E; subst. apply Hpc. exact I.
    + apply Hfin in E; [exact E|apply ext2_refl|reflexivity|reflexivity|].
      intros v0 X. subst o. exfalso. clear - Ew. unfold w1b, py_subscript in Ew.
      destruct (nth_error (heap sh) cid); [|discriminate]. destruct (assoc (KS (m_src (t_cur th))) (c_ents c)); discriminate.
  - unfold do_read, read_src in H. destruct (srcs sh (m_src (t_cur th))) as [x| |].
    + destruct pm as [|b]; unsome H E.
      * apply Hret in E; [exact E|apply ext2_refl|reflexivity|reflexivity|]. left. simpl. lia.
      * inversion E; subst. split; [|apply ext2_refl]. split; [exact Ht|]. split; [exact Hr|]. simpl. lia.
    + unsome H E. apply Hfin in E; [exact E|apply ext2_refl|reflexivity|reflexivity|intros v0 X; discriminate].
    + unsome H E. apply Hfin in E; [exact E|apply ext2_refl|reflexivity|reflexivity|intros v0 X; discriminate].
  - unsome H E. unfold on_store in E. destruct (w3 vr Proc (KS (m_src (t_cur th))) pm v sh) as [sh1|e|] eqn:Ew.
    + pose proof (w3_ext2 _ _ _ _ _ _ _ Ew) as He. apply Hret in E; [exact E|exact He|reflexivity|reflexivity|]. left. exact Hp.
    + apply Hfin in E; [exact E|apply ext2_refl|reflexivity|reflexivity|intros v0 X; discriminate].
    + apply Hfin in E; [exact E|apply ext2_refl|reflexivity|reflexivity|intros v0 X; discriminate].
  - destruct (m_front (t_cur th)) as [fk|]; unsome H E.
    + unfold on_store in E. destruct (w3 vr Front (KF fk) sm v sh) as [sh1|e|] eqn:Ew.
      * pose proof (w3_ext2 _ _ _ _ _ _ _ Ew) as He. apply Hfin in E; [exact E|exact He|reflexivity|reflexivity|].
        intros v0 X; inversion X; subst. eapply vprov_ext; eauto.
      * apply Hfin in E; [exact E|apply ext2_refl|reflexivity|reflexivity|intros v0 X; discriminate].
      * apply Hfin in E; [exact E|apply ext2_refl|reflexivity|reflexivity|intros v0 X; discriminate].
    + unfold crash in E. inversion E; subst. split; [|apply ext2_refl]. split; [exact Ht|]. split; [|exact I].
      simpl. constructor; [exact I|exact Hr].
Qed.

Lemma tick_ext2 sh : ext2 sh (tick sh).
Proof. split; simpl; auto. Qed.

Lemma init_threads_prov : forall progs sh sh' ths,
  init_threads sh progs = (sh', ths) -> same_core sh sh' /\ Forall (tprov sh') ths.
Proof.
  induction progs as [|p r IH]; intros sh sh' ths H; simpl in H.
  - inversion H; subst. split; [apply same_core_refl|constructor].
  - destruct (load p sh blank_thread) as [sh1 th1] eqn:E1. destruct (init_threads sh1 r) as [sh2 ths'] eqn:E2.
    inversion H; subst. pose proof (load_core _ _ _ _ _ E1) as [Hc1 _].
    destruct (IH _ _ _ E2) as [Hc2 Hall]. split; [eapply same_core_trans; eauto|].
    constructor; auto. eapply tprov_ext; [apply core_ext2; exact Hc2|].
    eapply load_prov; [exact E1|simpl; lia|constructor].
Qed.

Lemma prov_reach vr f progs c : reach vr (init_cfg f progs) c -> Forall (tprov (c_sh c)) (c_ths c).
Proof.
  intros H. induction H as [|c t c' Hr IH Hs].
  - unfold init_cfg. destruct (init_threads (init_shared f) progs) as [sh ths] eqn:E. simpl.
    apply init_threads_prov in E. tauto.
  - apply lts_step_inv in Hs. destruct Hs as (th & sh' & th' & E1 & E2 & ->). simpl.
    rewrite Forall_forall in IH. assert (Hth : tprov (c_sh c) th) by (apply IH; eapply nth_error_In; eauto).
    destruct (thread_step_prov _ _ _ _ _ _ E2 Hth) as [Hp He].
    assert (He' : ext2 (c_sh c) (tick sh')) by (eapply ext2_trans; [exact He|apply tick_ext2]).
    apply Forall_forall. intros x Hx. apply In_upd_nth in Hx. destruct Hx as [Hx|(y & _ & ->)].
    + eapply tprov_ext; [exact He'|]. apply IH; auto.
    + eapply tprov_ext; [apply tick_ext2|exact Hp].
Qed.

(* Theorem 6 (the code now).  Every interleaving: a value returned by a call was read by that
   call itself (at or after the step at which the call started), or it was found in a cache
   dict which the call reached through the live pointer, and it was read after that dict was
   created -- inside the block that overlapped the call, never before it. *)
Theorem plain_caller_valid : forall f progs c th r v,
  reach code_now (init_cfg f progs) c -> In th (c_ths c) -> In r (t_res th) -> r_out r = Val v ->
  r_t0 r <= snd v \/
  exists cid C k, r_hit r = Some cid /\ nth_error (heap (c_sh c)) cid = Some C /\ In (k, v) (c_ents C) /\
                  c_born C <= snd v.
Proof.
  intros f progs c th r v Hr Hth Hin Hv.
  pose proof (prov_reach _ _ _ _ Hr) as Hp. rewrite Forall_forall in Hp. destruct (Hp _ Hth) as (_ & Hres & _).
  rewrite Forall_forall in Hres. specialize (Hres _ Hin). unfold rprov in Hres. rewrite Hv in Hres.
  destruct Hres as [A|(cid & E & C & k & HC & Hk)]; [left; exact A|right].
  exists cid, C, k. repeat split; auto.
  destruct (cache_values_from_block _ _ _ _ _ _ _ Hr HC Hk). auto.
Qed.
