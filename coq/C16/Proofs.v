(* C16 -- proofs (placeholder while the harness is brought up) *)
From PV Require Import C16.Spec.
Lemma placeholder : code_now = mkVariant false true.
Proof. reflexivity. Qed.
