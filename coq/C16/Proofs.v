(* C16 -- all proofs *)
From PV Require Export C16.Lib C16.ProofsErr C16.ProofsFresh.
