(* C16 -- all proofs *)
From PV Require Export C16.Lib C16.ProofsErr C16.ProofsFresh C16.ProofsValid C16.ProofsSeq C16.ProofsRefine
  C16.ProofsAlone C16.ProofsReads C16.ProofsTables C16.ProofsAlias C16.ProofsCopy C16.ProofsMgr.
