(* C16 -- oneshot() context-manager OBJECTS: creation is an event of its own, distinct from enter / exit.

   Transcribed from psutil/__init__.py Process.oneshot (a generator function under
   @contextlib.contextmanager) and contextlib._GeneratorContextManager:
     p.oneshot()        builds the generator object; not one line of oneshot()'s body runs
     cm.__enter__()     next(gen): `with self._lock:` / `if hasattr(self, "_cache"): yield` (nested no-op)
                        / `else: cache_activate x4, _proc.oneshot_enter(); yield` -- the branch is taken NOW,
                        from the state of the object at the moment of entering, and stays with this generator
     cm.__exit__(...)   resumes the generator after ITS yield: the nested branch only releases the lock,
                        the real branch runs the finally clause (cache_deactivate x4, oneshot_exit) first.
   A generator can be entered once; entering a manager that was never created, twice, or leaving managers
   out of LIFO order (not expressible with `with` / ExitStack) is outside the domain (g_step = None). *)
From PV Require Export C16.Model.
Local Open Scope nat_scope.

Inductive mstat := MsNone | MsCreated | MsEntered | MsDone.
Inductive gop :=
| GCreate (k : nat)           (* k = p.oneshot()   (re-binding a name not currently entered makes a new object) *)
| GEnter (k : nat)            (* with k: / k.__enter__() / ExitStack.enter_context(k) *)
| GExit (k : nat)             (* end of the with block of k *)
| GRaise                      (* exception in the body: every open manager is left, innermost first *)
| GCall (c : callee)
| GEnv (e : envev).

Record gsq := mkGs {
  gs_q : sq;
  gs_tab : nat -> mstat;
  gs_open : list (nat * frame) }.   (* entered managers, innermost first, each with the branch ITS generator took *)

Definition tab_set (t : nat -> mstat) (k : nat) (s : mstat) : nat -> mstat :=
  fun x => if Nat.eqb x k then s else t x.
Definition is_entered (s : mstat) : bool := match s with MsEntered => true | _ => false end.

(* resume the generator suspended at the yield of branch fr *)
Definition g_leave (fr : frame) (q : sq) : sq :=
  mkSq (match fr with
        | Nested => unlock (q_sh q)
        | Real => unlock (deactivate_all (q_sh q))
        end) (tl (q_stk q)) (q_res q).

Definition g_step (g : gsq) (o : gop) : option gsq :=
  let q := gs_q g in
  match o with
  | GCreate k =>
      if is_entered (gs_tab g k) then None
      else Some (mkGs q (tab_set (gs_tab g) k MsCreated) (gs_open g))
  | GEnter k =>
      match gs_tab g k with
      | MsCreated =>
          let sh := acquire0 (q_sh q) in
          let (sh', fr) := match fptr sh with
                           | Some _ => (sh, Nested)
                           | None => (activate_all sh, Real)
                           end in
          Some (mkGs (mkSq sh' (fr :: q_stk q) (q_res q)) (tab_set (gs_tab g) k MsEntered) ((k, fr) :: gs_open g))
      | _ => None
      end
  | GExit k =>
      match gs_open g with
      | (k', fr) :: rest =>
          if Nat.eqb k k' then Some (mkGs (g_leave fr q) (tab_set (gs_tab g) k MsDone) rest) else None
      | [] => None
      end
  | GRaise =>
      Some (mkGs (fold_left (fun q' kf => g_leave (snd kf) q') (gs_open g) q)
                 (fun x => if existsb (fun kf => Nat.eqb (fst kf) x) (gs_open g) then MsDone else gs_tab g x) [])
  | GCall c => Some (mkGs (sq_step q (OCall c)) (gs_tab g) (gs_open g))
  | GEnv e => Some (mkGs (sq_step q (OEnv e)) (gs_tab g) (gs_open g))
  end.

Fixpoint g_run (h : list gop) (g : gsq) : option gsq :=
  match h with
  | [] => Some g
  | o :: r => match g_step g o with Some g' => g_run r g' | None => None end
  end.
Definition g_init (f : src -> sstate) : gsq := mkGs (sq_init f) (fun _ => MsNone) [].

(* the same history written with `with p.oneshot():` -- the manager made at the point of entry *)
Definition erase (o : gop) : list op :=
  match o with
  | GCreate _ => []
  | GEnter _ => [OEnter]
  | GExit _ => [OExit]
  | GRaise => [ORaise]
  | GCall c => [OCall c]
  | GEnv e => [OEnv e]
  end.
(* the same history over manager objects, every one created immediately before it is entered *)
Definition inline1 (o : gop) : list gop :=
  match o with
  | GCreate _ => []
  | GEnter k => [GCreate k; GEnter k]
  | x => [x]
  end.
Definition inline (h : list gop) : list gop := flat_map inline1 h.
