(* C16 -- the generated table of as_dict attribute names (coq/Gen/C16_Tables.v, dumped from
   psutil._as_dict_attrnames of the tree under test on every run). *)
From PV Require Import Base.Bytes C16.Spec C16.ProofsSeq Gen.C16_Tables.

(* names the model gives a meaning to, and names the front end must keep out of as_dict *)
Definition modelled_names : list bytes :=
  [bs "pid"; bs "name"; bs "ppid"; bs "cpu_times"; bs "cpu_num"; bs "uids"; bs "gids"; bs "num_threads";
   bs "num_ctx_switches"; bs "memory_info"; bs "memory_full_info"].
Definition excluded_names : list bytes :=
  [bs "oneshot"; bs "as_dict"; bs "send_signal"; bs "suspend"; bs "resume"; bs "terminate"; bs "kill"; bs "wait";
   bs "is_running"; bs "parent"; bs "parents"; bs "children"; bs "rlimit"; bs "connections"].

Fixpoint nodup_bytes (l : list bytes) : bool :=
  match l with [] => true | x :: r => negb (mem_bytes x r) && nodup_bytes r end.

Lemma names_valid_single valid n : names_valid valid (AColl [n]) = mem_bytes n valid.
Proof. unfold names_valid. simpl. rewrite orb_false_r, negb_involutive. reflexivity. Qed.

Theorem attrnames_table :
  forallb (fun n => mem_bytes n as_dict_attrnames) modelled_names = true /\
  forallb (fun n => negb (mem_bytes n as_dict_attrnames)) excluded_names = true /\
  nodup_bytes as_dict_attrnames = true /\
  (* hence as_dict accepts every modelled name and rejects the excluded ones before querying anything *)
  (forall n, In n modelled_names -> names_valid as_dict_attrnames (AColl [n]) = true) /\
  (forall n resolve q, In n excluded_names ->
     as_dict as_dict_attrnames resolve (AColl [n]) q = (q, Exc ValueError)).
Proof.
  assert (H1 : forallb (fun n => mem_bytes n as_dict_attrnames) modelled_names = true) by (vm_compute; reflexivity).
  assert (H2 : forallb (fun n => negb (mem_bytes n as_dict_attrnames)) excluded_names = true) by (vm_compute; reflexivity).
  split; [exact H1|]. split; [exact H2|]. split; [vm_compute; reflexivity|]. split.
  - intros n Hn. rewrite forallb_forall in H1. rewrite names_valid_single. apply H1; auto.
  - intros n resolve q Hn. rewrite forallb_forall in H2. destruct (as_dict_spec as_dict_attrnames resolve q) as (_ & H & _).
    apply H. rewrite names_valid_single. apply negb_true_iff. apply H2; auto.
Qed.
