(* C16 -- which sources a block keeps.  stat, status and smaps are shared by several methods and are
   read at most once per block, whichever methods ask; statm is per method: memory_info() keeps its
   answer for the block, memory_full_info() reads statm again on every call.  Stated on the
   specification's ghost machine; by block_first_read(_lts) these are the read counts of the code's model. *)
From PV Require Import C16.Lib C16.ProofsSeq C16.ProofsRefine.
Local Open Scope nat_scope.

Definition shared_source (s : src) : bool := memoized s.        (* Stat, Status, Smaps *)
Definition idx (s : src) : nat := match s with Stat => 0 | Status => 1 | Smaps => 2 | Statm => 3 end.
(* reads of s made by one successful call / by a list of calls *)
Definition reads1 (s : src) (x : sres) : nat :=
  match x with (Val _, Some c) => nth (idx s) c 0 | _ => 0 end.
Fixpoint reads (s : src) (l : list sres) : nat := match l with [] => 0 | x :: r => reads1 s x + reads s r end.

Lemma reads_app s a b : reads s (a ++ b) = reads s a + reads s b.
Proof. induction a as [|x a IH]; simpl; auto. rewrite IH. lia. Qed.
Lemma reads_rev s l : reads s (rev l) = reads s l.
Proof. induction l as [|x l IH]; simpl; auto. rewrite reads_app, IH. simpl. lia. Qed.

(* the history stays inside the block it starts in *)
Fixpoint stays (g : gst) (h : list op) : bool :=
  match h with
  | [] => true
  | o :: r => let g' := fst (spec_step g o) in Nat.ltb 0 (g_depth g') && stays g' r
  end.
Definition room (s : src) (g : gst) : nat := match g_snap g s with Some _ => 0 | None => 1 end.

Lemma nth_one s s' : nth (idx s) (one s') 0 = if src_eqb s s' then 1 else 0.
Proof. destruct s, s'; reflexivity. Qed.
Lemma nth_add4 i a b : length a = 4 -> length b = 4 -> nth i (add4 a b) 0 = nth i a 0 + nth i b 0.
Proof.
  destruct a as [|a0 [|a1 [|a2 [|a3 [|? ?]]]]]; simpl; try discriminate.
  destruct b as [|b0 [|b1 [|b2 [|b3 [|? ?]]]]]; simpl; try discriminate. intros _ _.
  destruct i as [|[|[|[|i]]]]; simpl; auto. destruct i; reflexivity.
Qed.

Lemma call_reads s g m g' x :
  shared_source s = true -> Nat.ltb 0 (g_depth g) = true -> spec_call g m = (g', x) ->
  reads1 s x + room s g' <= room s g /\ g_depth g' = g_depth g.
Proof.
  intros Hs Hin H. unfold spec_call in H. destruct (spec_primary g (m_src m)) as [[g1 o] c] eqn:Ep.
  assert (Hst : src_eqb s Statm = false) by (destruct s; simpl in Hs; auto; discriminate).
  assert (Hp : match o with Val _ => nth (idx s) c 0 | _ => 0 end + room s g1 <= room s g /\ g_depth g1 = g_depth g /\ length c = 4).
  { unfold spec_primary in Ep. rewrite Hin in Ep. unfold room.
    destruct (g_snap g (m_src m)) as [v|] eqn:Esn.
    - inversion Ep; subst. split; [|split; reflexivity].
      destruct (g_snap g1 s); destruct (idx s) as [|[|[|[|[|?]]]]]; simpl; lia.
    - destruct (g_cur g (m_src m)) as [v| |] eqn:Ec; inversion Ep; subst.
      + rewrite nth_one. unfold snap_set, g_block; cbn [g_snap g_depth]. destruct (src_eqb s (m_src m)) eqn:E.
        * apply src_eqb_eq in E. subst s. rewrite Esn. split; [lia|split; reflexivity].
        * destruct (g_snap g s); (split; [lia|split; reflexivity]).
      + destruct (g_snap g1 s); (split; [lia|split; reflexivity]).
      + destruct (g_snap g1 s); (split; [lia|split; reflexivity]). }
  destruct Hp as (Hp & Hd & Hlen).
  destruct o as [v|e|].
  - destruct (meth_eqb m Mmemory_full).
    + destruct (g_cur g Statm); inversion H; subst; simpl; split; auto; try lia.
      rewrite nth_add4 by (auto; reflexivity). rewrite nth_one, Hst. lia.
    + inversion H; subst. simpl. split; auto.
  - inversion H; subst. simpl. split; auto.
  - inversion H; subst. simpl. split; auto.
Qed.

Lemma go_reads s : forall h g acc g' rs,
  shared_source s = true -> Nat.ltb 0 (g_depth g) = true -> stays g h = true ->
  spec_go g h acc = (g', rs) -> reads s rs <= reads s acc + room s g.
Proof.
  induction h as [|o r IH]; intros g acc g' rs Hs Hin Hst H; simpl in H.
  - inversion H; subst. rewrite reads_rev. lia.
  - simpl in Hst. apply andb_prop in Hst. destruct Hst as [Hin' Hst'].
    destruct (spec_step g o) as [g1 x] eqn:E. simpl in Hin', Hst'.
    apply (IH _ _ _ _ Hs Hin' Hst') in H.
    assert (Hstep : match x with Some y => reads1 s y | None => 0 end + room s g1 <= room s g).
    { destruct o as [| | |c|e]; simpl in E.
      - inversion E; subst. unfold room, g_block; simpl.
        assert (Nat.eqb (g_depth g) 0 = false) by (destruct (g_depth g); [discriminate|reflexivity]). rewrite H0. lia.
      - destruct (g_depth g) as [|[|d]]; inversion E; subst; unfold room; simpl; try lia. simpl in Hin'. discriminate.
      - inversion E; subst. simpl in Hin'. discriminate.
      - destruct c as [m| |o].
        + destruct (spec_call g m) as [g2 y] eqn:Ec. inversion E; subst. eapply call_reads; eauto.
        + inversion E; subst. simpl. destruct (idx s) as [|[|[|[|[|?]]]]]; simpl; lia.
        + inversion E; subst. simpl. destruct o; simpl; try lia. destruct (idx s) as [|[|[|[|[|?]]]]]; simpl; lia.
      - destruct e; inversion E; subst; unfold room; simpl; lia. }
    destruct x as [y|]; simpl in *; lia.
Qed.

(* Shared sources: inside one block -- however many calls, whichever methods, whatever the kernel does
   meanwhile -- stat, status and smaps are each read successfully at most once, and not at all once the
   block holds them. *)
Theorem shared_source_read_once : forall s g h g' rs,
  shared_source s = true -> Nat.ltb 0 (g_depth g) = true -> stays g h = true ->
  spec_go g h [] = (g', rs) ->
  reads s rs <= 1 /\ (g_snap g s <> None -> reads s rs = 0).
Proof.
  intros s g h g' rs Hs Hin Hst H. pose proof (go_reads s h g [] g' rs Hs Hin Hst H) as X. simpl in X. unfold room in X.
  split; [destruct (g_snap g s); lia|]. intros Hn. destruct (g_snap g s); [lia|congruence].
Qed.

(* statm is per method *)
Theorem statm_per_method :
  (* memory_full_info() reads statm on every successful call, inside or outside a block ... *)
  (forall g g' v c, spec_call g Mmemory_full = (g', (Val v, Some c)) -> nth (idx Statm) c 0 = 1) /\
  (* ... and leaves no statm answer behind for anyone *)
  (forall g g' x, spec_call g Mmemory_full = (g', x) -> g_snap g' Statm = g_snap g Statm) /\
  (* memory_info() keeps its own: once answered in the block, no further read *)
  (forall g v, Nat.ltb 0 (g_depth g) = true -> g_snap g Statm = Some v ->
               spec_call g Mmemory_info = (g, (Val v, Some zero4))) /\
  (* while the shared sources are exactly the three memoized readers *)
  (forall s, shared_source s = true <-> s = Stat \/ s = Status \/ s = Smaps).
Proof.
  split; [|split; [|split]].
  - intros g g' v c H. unfold spec_call in H. simpl in H. destruct (spec_primary g Smaps) as [[g1 o] c1] eqn:Ep.
    pose proof (spec_primary_len _ _ _ _ _ Ep) as Hl.
    destruct o; try discriminate. destruct (g_cur g Statm); try discriminate. inversion H; subst.
    rewrite nth_add4 by (auto; reflexivity).
    unfold spec_primary in Ep. destruct (if Nat.ltb 0 (g_depth g) then g_snap g Smaps else None).
    + inversion Ep; subst. reflexivity.
    + destruct (g_cur g Smaps); inversion Ep; subst; reflexivity.
  - intros g g' x H. unfold spec_call in H. simpl in H. destruct (spec_primary g Smaps) as [[g1 o] c1] eqn:Ep.
    assert (Hg : g_snap g1 Statm = g_snap g Statm).
    { unfold spec_primary in Ep. destruct (if Nat.ltb 0 (g_depth g) then g_snap g Smaps else None).
      - inversion Ep; reflexivity.
      - destruct (g_cur g Smaps); inversion Ep; subst; try reflexivity. destruct (Nat.ltb 0 (g_depth g)); reflexivity. }
    destruct o; [destruct (g_cur g Statm)|..]; inversion H; subst; exact Hg.
  - intros g v Hin Hs. unfold spec_call, spec_primary. simpl. rewrite Hin, Hs. reflexivity.
  - intros s. destruct s; simpl; split; intros H; auto; try discriminate; destruct H as [H|[H|H]]; discriminate.
Qed.

Example shared_vs_per_method :
  spec_run (fun _ => SAvail 1)
    [OEnter; OCall (CM Mmemory_info); OCall (CM Mmemory_full); OCall (CM Mmemory_full); OCall (CM Mmemory_info);
     OCall (CM Mcpu_num); OCall (CM Mname); OCall (CM Mppid)]
  = Some [(Val 1, Some [0;0;0;1]); (Val 1, Some [0;0;1;1]); (Val 1, Some [0;0;0;1]); (Val 1, Some [0;0;0;0]);
          (Val 1, Some [1;0;0;0]); (Val 1, Some [0;0;0;0]); (Val 1, Some [0;0;0;0])].
Proof. reflexivity. Qed.
