(* C16 -- copies of a Process object (copy.copy / copy.deepcopy / pickle).  Several objects, each with its own
   _cache attribute and block stack, referring to shared or own platform objects (Model.mstep, lifted from
   the sequential reading).  Block transparency for copies: if no copy starts with a cache pointer it did
   not create (clean copies), then whenever no object referring to a platform object is inside a block,
   every object on it has no front-level dict and the platform object has none -- its calls read the
   kernel.  Sharing the platform object is harmless in this sense; keeping the front-level pointer (the
   default shallow copy) or a platform-level pointer is not: refuted with witnesses. *)
From PV Require Import Base.Bytes C16.Lib C16.ProofsFresh C16.ProofsSeq Gen.C16_Tables.
Local Open Scope nat_scope.

Definition fshape (stk : list frame) (f : option nat) : Prop :=
  match stk with [] => f = None | _ => (exists d, stk = repeat Nested d ++ [Real]) /\ f <> None end.

Lemma unwind_fshape : forall d q, q_stk q = repeat Nested d ++ [Real] ->
  q_stk (sq_unwind (S d) q) = [] /\ fptr (q_sh (sq_unwind (S d) q)) = None /\ pptr (q_sh (sq_unwind (S d) q)) = None.
Proof.
  induction d as [|d IH]; intros q Hs.
  - simpl. unfold sq_exit. rewrite Hs. simpl. destruct (deactivate_all_ptrs (q_sh q)). auto.
  - change (sq_unwind (S (S d)) q) with (sq_unwind (S d) (sq_exit q)). apply IH.
    unfold sq_exit. rewrite Hs. reflexivity.
Qed.

(* one operation on one object *)
Lemma fstep q p : fshape (q_stk q) (fptr (q_sh q)) ->
  fshape (q_stk (sq_step q p)) (fptr (q_sh (sq_step q p))) /\
  (q_stk (sq_step q p) = [] ->
   (q_stk q = [] /\ pptr (q_sh (sq_step q p)) = pptr (q_sh q)) \/ pptr (q_sh (sq_step q p)) = None).
Proof.
  intros H. destruct p as [| | |c|e]; simpl.
  - (* enter *) unfold sq_enter. change (fptr (acquire0 (q_sh q))) with (fptr (q_sh q)).
    unfold fshape in H. destruct (q_stk q) as [|fr s] eqn:Es.
    + rewrite H. simpl. split; [split; [exists 0; reflexivity|discriminate]|discriminate].
    + destruct H as ((d & Hd) & Hf). destruct (fptr (q_sh q)) eqn:Ef; [|congruence]. simpl.
      split; [|discriminate]. split; [exists (S d); simpl; rewrite Hd; reflexivity|].
      change (fptr (acquire0 (q_sh q))) with (fptr (q_sh q)). congruence.
  - (* exit *) unfold sq_exit. unfold fshape in H. destruct (q_stk q) as [|fr s] eqn:Es.
    + rewrite Es. split; [exact H|]. intros _. left. auto.
    + destruct H as ((d & Hd) & Hf). destruct d as [|d]; simpl in Hd; inversion Hd; subst.
      * simpl. destruct (deactivate_all_ptrs (q_sh q)) as [X1 X2]. split; [exact X1|]. intros _. right. exact X2.
      * simpl. split; [|destruct d; discriminate].
        destruct d as [|d']; simpl; (split; [first [exists 0; reflexivity|exists (S d'); reflexivity]|exact Hf]).
  - (* raise *) unfold fshape in H. destruct (q_stk q) as [|fr s] eqn:Es.
    + simpl. rewrite Es. split; [exact H|]. intros _. left. auto.
    + destruct H as ((d & Hd) & Hf). rewrite Hd, app_length, repeat_length. simpl. rewrite Nat.add_1_r.
      assert (Hq : q_stk q = repeat Nested d ++ [Real]) by congruence.
      destruct (unwind_fshape d q Hq) as (U1 & U2 & U3). rewrite U1. split; [exact U2|]. intros _. right. exact U3.
  - (* call *) destruct c as [m| |o]; simpl.
    + destruct (sq_call m (q_sh q)) as [[sh cn] r] eqn:E. apply sq_call_ptrs in E. destruct E as [E1 E2]. simpl.
      rewrite E1. split; [exact H|]. intros Hs. left. auto.
    + split; [exact H|]. intros Hs; left; auto.
    + split; [exact H|]. intros Hs; left; auto.
  - (* env *) split; [destruct e; exact H|]. intros Hs. left. split; auto. destruct e; reflexivity.
Qed.

Definition quiet (ms : msq) (pi : nat) : Prop :=
  forall o ob, nth_error (m_objs ms) o = Some (Some ob) -> o_plat ob = pi -> o_stk ob = [].
Definition minv (ms : msq) : Prop :=
  (forall o ob, nth_error (m_objs ms) o = Some (Some ob) ->
     fshape (o_stk ob) (o_fptr ob) /\ o_plat ob < length (m_plats ms)) /\
  (forall pi, pi < length (m_plats ms) -> quiet ms pi -> nth pi (m_plats ms) None = None).
(* a copy that starts with no cache pointer it did not create *)
Definition clean_d (d : option cdesc) : Prop :=
  match d with Some cd => cd_keep_front cd = false /\ (cd_shared cd = false -> cd_keep_plat cd = false) | None => True end.
Definition clean (e : mop) : Prop := match e with MCopy _ din dout => clean_d din /\ clean_d dout | _ => True end.

Lemma nth_upd_nth_eq {A} n (f : A -> A) l d : n < length l -> nth n (upd_nth n f l) d = f (nth n l d).
Proof. revert n. induction l as [|x l IH]; intros [|n] H; simpl in *; try lia; auto. apply IH. lia. Qed.
Lemma nth_upd_nth_neq {A} n m (f : A -> A) l d : n <> m -> nth m (upd_nth n f l) d = nth m l d.
Proof. revert n m. induction l as [|x l IH]; intros [|n] [|m] H; simpl; auto; try congruence. Qed.

Lemma minv_step ms e : clean e -> minv ms -> minv (mstep ms e).
Proof.
  intros Hc (I1 & I2). destruct e as [o p|o din dout]; simpl.
  - destruct (nth_error (m_objs ms) o) as [[ob|]|] eqn:Eo; [|split; auto|split; auto].
    destruct (I1 _ _ Eo) as [Hsh Hpl].
    set (q := mkSq (view ms ob) (o_stk ob) []).
    destruct (fstep q p Hsh) as [F1 F2]. fold q.
    split; simpl.
    + intros o' ob' H. rewrite upd_nth_length. apply nth_error_upd_nth_inv in H.
      destruct H as [[-> (x & Ex & E)]|[Hne H]]; [inversion E; subst; simpl; auto|eapply I1; eauto].
    + rewrite upd_nth_length. intros pi Hpi Hq.
      destruct (Nat.eq_dec (o_plat ob) pi) as [<-|Hne].
      * rewrite nth_upd_nth_eq by exact Hpl.
        assert (Hnew : q_stk (sq_step q p) = []).
        { apply (Hq o _ (nth_error_upd_nth_eq _ _ _ _ Eo)). reflexivity. }
        destruct (F2 Hnew) as [[Hold Hsame]|Hnone]; [|exact Hnone].
        rewrite Hsame. simpl. apply I2; auto. intros o' ob' H' Hp'.
        destruct (Nat.eq_dec o' o) as [->|Hno]; [rewrite Eo in H'; inversion H'; subst; exact Hold|].
        apply (Hq o' ob'); [simpl; rewrite nth_error_upd_nth_neq; auto|exact Hp'].
      * rewrite nth_upd_nth_neq by exact Hne. apply I2; auto. intros o' ob' H' Hp'.
        destruct (Nat.eq_dec o' o) as [->|Hno]; [rewrite Eo in H'; inversion H'; subst; congruence|].
        apply (Hq o' ob'); [simpl; rewrite nth_error_upd_nth_neq; auto|exact Hp'].
  - assert (Hnone : minv (mkM (m_sh ms) (m_plats ms) (m_objs ms ++ [None]) (S (m_time ms)) (srcs (m_sh ms) :: m_tl ms) (m_res ms))).
    { split; simpl.
      - intros o' ob' H. apply nth_error_snoc in H. destruct H as [[_ H]|[_ H]]; [eapply I1; eauto|discriminate].
      - intros pi Hpi Hq. apply I2; auto. intros o' ob' H' Hp'. apply (Hq o' ob'); [simpl; rewrite nth_error_app1; [exact H'|apply nth_error_Some; congruence]|exact Hp']. }
    destruct (nth_error (m_objs ms) o) as [[ob|]|] eqn:Eo; [|exact Hnone|exact Hnone].
    simpl in Hc. destruct Hc as [Hcin Hcout].
    assert (Hcd : clean_d (match o_fptr ob, nth (o_plat ob) (m_plats ms) None with None, None => dout | _, _ => din end))
      by (destruct (o_fptr ob); destruct (nth (o_plat ob) (m_plats ms) None); auto).
    destruct (match o_fptr ob, nth (o_plat ob) (m_plats ms) None with None, None => dout | _, _ => din end) as [cd|]; [|exact Hnone]. simpl in Hcd. destruct Hcd as [Hkf Hkp]. rewrite Hkf.
    destruct (I1 _ _ Eo) as [Hsh Hpl].
    destruct (cd_shared cd) eqn:Esh.
    + split; simpl.
      * intros o' ob' H. apply nth_error_snoc in H. destruct H as [[_ H]|[_ H]]; [eapply I1; eauto|].
        inversion H; subst. simpl. auto.
      * intros pi Hpi Hq. apply I2; auto. intros o' ob' H' Hp'. apply (Hq o' ob'); [simpl; rewrite nth_error_app1; [exact H'|apply nth_error_Some; congruence]|exact Hp'].
    + rewrite (Hkp eq_refl). split; simpl.
      * intros o' ob' H. rewrite app_length. simpl. apply nth_error_snoc in H. destruct H as [[_ H]|[_ H]].
        -- destruct (I1 _ _ H). split; auto. lia.
        -- inversion H; subst. simpl. split; auto. lia.
      * rewrite app_length. simpl. intros pi Hpi Hq.
        destruct (Nat.eq_dec pi (length (m_plats ms))) as [->|Hne].
        -- rewrite app_nth2 by lia. rewrite Nat.sub_diag. reflexivity.
        -- rewrite app_nth1 by lia. apply I2; [lia|]. intros o' ob' H' Hp'. apply (Hq o' ob'); [simpl; rewrite nth_error_app1; [exact H'|apply nth_error_Some; congruence]|exact Hp'].
Qed.

Lemma minv_run : forall h ms, minv ms -> Forall clean h -> minv (fold_left mstep h ms).
Proof.
  induction h as [|e r IH]; intros ms H Hc; simpl; auto. inversion Hc; subst. apply IH; auto. apply minv_step; auto.
Qed.

(* Block transparency for copies.  Any history over any number of objects (operations on objects, clean copies
   sharing or not the platform object, failing copies): whenever no object referring to a platform object is
   inside a block, every object on it has no front-level dict, the platform object has none, and its calls
   read the kernel as it is now. *)
Theorem copies_transparent : forall f h o ob m,
  Forall clean h ->
  let ms := mrun f h in
  nth_error (m_objs ms) o = Some (Some ob) -> quiet ms (o_plat ob) -> m <> Mppid ->
  fptr (view ms ob) = None /\ pptr (view ms ob) = None /\
  exists cn, sq_call m (view ms ob) = (view ms ob, cn, direct m (view ms ob)) /\ cn (m_src m) = 1.
Proof.
  intros f h o ob m Hc ms Ho Hq Hm.
  assert (Hinv : minv ms).
  { apply minv_run; auto. split; simpl.
    - intros [|o'] ob' H; simpl in H; [inversion H; subst; simpl; auto|destruct o'; discriminate].
    - intros [|pi] Hpi _; simpl in *; [reflexivity|lia]. }
  destruct Hinv as (I1 & I2). destruct (I1 _ _ Ho) as [Hsh Hpl].
  assert (Hf : fptr (view ms ob) = None).
  { simpl. unfold fshape in Hsh. rewrite (Hq _ _ Ho eq_refl) in Hsh. exact Hsh. }
  assert (Hp : pptr (view ms ob) = None) by (simpl; apply I2; auto).
  split; auto. split; auto. apply sq_call_direct; auto.
Qed.

(* ---- what is not harmless *)
Definition all_out (ms : msq) : bool :=
  forallb (fun x => match x with Some ob => match o_stk ob with [] => true | _ => false end | None => true end) (m_objs ms).
Definition last_answer_is (ms : msq) (a : outcome nat) : bool :=
  match m_res ms with (_, _, _, x) :: _ => outcome_nat_eqb x a | [] => false end.

(* the default shallow copy: taken inside a block it keeps the block's front-level dict for ever *)
Definition h_shallow : list mop :=
  [MOn 0 OEnter; MOn 0 (OCall (CM Mppid)); MCopy 0 (Some (mkCd true true false)) (Some (mkCd true false false)); MOn 0 OExit;
   MOn 0 (OEnv (ESet Stat (SAvail 2))); MOn 1 (OCall (CM Mppid))].
Theorem copies_transparent_shallow_refuted :
  let ms := mrun (fun _ => SAvail 1) h_shallow in
  all_out ms = true /\ srcs (m_sh ms) Stat = SAvail 2 /\ last_answer_is ms (Val 1) = true.
Proof. vm_compute. auto. Qed.

(* a deep copy that would carry the platform-level cache along *)
Definition h_deep : list mop :=
  [MOn 0 OEnter; MOn 0 (OCall (CM Mcpu_num)); MCopy 0 (Some (mkCd false false true)) (Some (mkCd false false false)); MOn 0 OExit;
   MOn 0 (OEnv (ESet Stat (SAvail 2))); MOn 1 (OCall (CM Mcpu_num))].
Theorem copies_transparent_deep_refuted :
  let ms := mrun (fun _ => SAvail 1) h_deep in
  all_out ms = true /\ srcs (m_sh ms) Stat = SAvail 2 /\ last_answer_is ms (Val 1) = true.
Proof. vm_compute. auto. Qed.

(* ---- the tree under test (generated table: copy, deepcopy, pickle; each inside / outside a block) *)
Definition tree_desc (i : nat) : option cdesc :=
  match nth i copy_table None with Some (a, b, c) => Some (mkCd a b c) | None => None end.
Definition desc_clean (d : option cdesc) : bool :=
  match d with Some cd => negb (cd_keep_front cd) && (cd_shared cd || negb (cd_keep_plat cd)) | None => true end.
Definition tree_clean : bool := forallb (fun i => desc_clean (tree_desc i)) [0; 1; 2; 3; 4; 5].
(* histories whose copies are those the tree supports *)
Definition tree_op (e : mop) : Prop :=
  match e with MCopy _ din dout => exists k, k < 3 /\ din = tree_desc (2 * k) /\ dout = tree_desc (2 * k + 1) | _ => True end.

Lemma desc_clean_d d : desc_clean d = true -> clean_d d.
Proof.
  destruct d as [cd|]; simpl; auto. intros H. apply andb_prop in H. destruct H as [H1 H2].
  apply negb_true_iff in H1. split; auto. intros Hs. rewrite Hs in H2. simpl in H2. apply negb_true_iff in H2. exact H2.
Qed.

Theorem copies_transparent_tree : tree_clean = true ->
  forall f h o ob m, Forall tree_op h ->
  let ms := mrun f h in
  nth_error (m_objs ms) o = Some (Some ob) -> quiet ms (o_plat ob) -> m <> Mppid ->
  fptr (view ms ob) = None /\ pptr (view ms ob) = None /\
  exists cn, sq_call m (view ms ob) = (view ms ob, cn, direct m (view ms ob)) /\ cn (m_src m) = 1.
Proof.
  intros Ht f h o ob m Hh. apply copies_transparent.
  unfold tree_clean in Ht. rewrite forallb_forall in Ht.
  eapply Forall_impl; [|exact Hh]. intros e He. destruct e as [o' p|o' din dout]; simpl; auto.
  simpl in He. destruct He as (k & Hk & -> & ->). split; apply desc_clean_d; apply Ht; simpl; lia.
Qed.

(* what the tree of record does: deepcopy and pickle raise, inside and outside a block (no object); copy.copy is a
   shallow copy sharing the platform object -- keeping the front-level _cache of an open block iff kf *)
Theorem copy_table_shape :
  (forall i, 2 <= i < 6 -> nth i copy_table None = None) /\
  exists sh kf, nth 0 copy_table None = Some (sh, kf, false) /\ nth 1 copy_table None = Some (sh, false, false).
Proof.
  split; [|vm_compute; eauto].
  intros i Hi. destruct i as [|[|[|[|[|[|i]]]]]]; try lia; vm_compute; reflexivity.
Qed.

(* the tree of record (after commit 16d17e9: __copy__ drops _cache): every copy it supports is clean *)
Theorem tree_clean_now : tree_clean = true.
Proof. vm_compute. reflexivity. Qed.
Theorem copies_transparent_now : forall f h o ob m, Forall tree_op h ->
  let ms := mrun f h in
  nth_error (m_objs ms) o = Some (Some ob) -> quiet ms (o_plat ob) -> m <> Mppid ->
  fptr (view ms ob) = None /\ pptr (view ms ob) = None /\
  exists cn, sq_call m (view ms ob) = (view ms ob, cn, direct m (view ms ob)) /\ cn (m_src m) = 1.
Proof. exact (copies_transparent_tree tree_clean_now). Qed.
