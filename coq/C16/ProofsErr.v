(* C16 -- threads, all interleavings: no AttributeError / KeyError of the cache plumbing
   ever reaches a caller (theorem 5), and the variant without the issue-1948 handler lets one out. *)
From PV Require Import C16.Lib.
Local Open Scope nat_scope.

Definition clean (o : outcome val) : Prop :=
  match o with Exc AttributeError | Exc KeyError => False | _ => True end.
(* a stubbed method that itself raises AttributeError/KeyError would of course show up *)
Definition op_clean (o : op) : Prop :=
  match o with OCall (CStub (Exc AttributeError)) | OCall (CStub (Exc KeyError)) => False | _ => True end.
Definition res_clean (th : thread) : Prop := Forall (fun r => clean (r_out r)) (t_res th).
Definition th_clean (th : thread) : Prop := Forall op_clean (t_ops th) /\ res_clean th.

Lemma load_clean : forall ops sh th sh' th',
  Forall op_clean ops -> res_clean th -> load ops sh th = (sh', th') -> th_clean th'.
Proof.
  induction ops as [|o r IH]; intros sh th sh' th' Hops Hres H; simpl in H.
  - inversion H; subst. split; simpl; auto.
  - inversion Hops as [|? ? Ho Hr]; subst.
    destruct o as [| | |c|e].
    + inversion H; subst. split; simpl; auto.
    + destruct (t_stk th) as [|[|] s].
      * eapply IH; [exact Hr|exact Hres|exact H].
      * inversion H; subst. split; simpl; auto.
      * eapply IH; [exact Hr| |exact H]. exact Hres.
    + destruct (strip_nested (t_stk th) sh) as [s sh1]. destruct s as [|f s].
      * eapply IH; [exact Hr| |exact H]. exact Hres.
      * inversion H; subst. split; simpl; auto.
    + destruct c as [m| |o].
      * inversion H; subst. split; simpl; auto.
      * eapply IH; [exact Hr| |exact H]. unfold res_clean; simpl. constructor; simpl; auto.
      * eapply IH; [exact Hr| |exact H]. unfold res_clean; simpl. constructor; auto. simpl.
        destruct o as [n|e|]; simpl in *; auto.
    + inversion H; subst. split; simpl; auto.
Qed.

Lemma finish_clean sh th o sh' th' :
  th_clean th -> clean o -> finish sh th o = (sh', th') -> th_clean th'.
Proof.
  intros [Ho Hr] Hc H. unfold finish in H. eapply load_clean; [| |exact H]; simpl; auto.
  unfold res_clean; simpl. constructor; auto.
Qed.

Lemma crash_clean sh th o sh' th' :
  th_clean th -> clean o -> crash sh th o = (sh', th') -> th_clean th'.
Proof.
  intros [Ho Hr] Hc H. unfold crash in H. inversion H; subst. split; simpl; auto.
  unfold res_clean; simpl. constructor; auto.
Qed.

Lemma read_src_clean sh s : clean (read_src sh s).
Proof. unfold read_src. destruct (srcs sh s); simpl; auto. Qed.

Lemma ret_proc_clean sh th fm v sh' th' :
  th_clean th -> ret_proc sh th fm v = (sh', th') -> th_clean th'.
Proof.
  intros Hc H. unfold ret_proc in H.
  destruct (meth_eqb (t_cur th) Mmemory_full).
  - unfold do_read in H. pose proof (read_src_clean sh Statm) as Hr.
    destruct (read_src sh Statm) as [x|e|]; simpl in H.
    + destruct fm as [|[|b]]; try (eapply finish_clean; [| |exact H]; simpl; auto; exact Hc).
      inversion H; subst. exact Hc.
    + eapply finish_clean; [| |exact H]; auto.
    + eapply finish_clean; [| |exact H]; simpl; auto.
  - destruct fm as [|[|b]]; try (eapply finish_clean; [| |exact H]; simpl; auto; exact Hc).
    inversion H; subst. exact Hc.
Qed.

Lemma w1b_clean bound cid k sh o : w1b bound cid k sh = LErr o -> clean o.
Proof.
  unfold w1b, py_subscript. destruct (nth_error (heap sh) cid) as [c|]; [|intros H; inversion H; simpl; auto].
  destruct (assoc k (c_ents c)); intros H; inversion H.
Qed.
Lemma w1_clean vr l k sh o : w1 vr l k sh = LErr o -> clean o.
Proof.
  unfold w1, py_getcache. destruct (ptr l sh); [|intros H; inversion H].
  destruct (bind_once vr); [intros H; inversion H|apply w1b_clean].
Qed.

Lemma on_lookup_clean sh th r hit mode next sh' th' :
  th_clean th -> (forall o, r = LErr o -> clean o) ->
  (forall th1 v sh1 th2, th_clean th1 -> hit th1 v = (sh1, th2) -> th_clean th2) ->
  on_lookup sh th r hit mode next = (sh', th') -> th_clean th'.
Proof.
  intros Hc Hr Hh H. unfold on_lookup in H. destruct r as [v cid|sm|cid|o].
  - eapply Hh; [|exact H]. exact Hc.
  - inversion H; subst; exact Hc.
  - inversion H; subst; exact Hc.
  - eapply finish_clean; [exact Hc| |exact H]. auto.
Qed.

Lemma py_setitem_shape sh cid k v : match py_setitem sh cid k v with Exc _ => False | _ => True end.
Proof. unfold py_setitem. destruct (nth_error (heap sh) cid); auto. Qed.

Lemma w3_clean vr l k sm v sh e : handle_l3 vr = true -> w3 vr l k sm v sh = Exc e -> False.
Proof.
  intros Hh. unfold w3. destruct sm as [|[cid|]].
  - discriminate.
  - pose proof (py_setitem_shape sh cid k v). destruct (py_setitem sh cid k v); try discriminate. contradiction.
  - unfold py_getcache. destruct (ptr l sh) as [cid|]; simpl.
    + pose proof (py_setitem_shape sh cid k v). destruct (py_setitem sh cid k v); try discriminate. contradiction.
    + rewrite Hh. discriminate.
Qed.

Lemma on_store_clean sh th r k sh' th' :
  th_clean th -> (forall e, r = Exc e -> False) ->
  (forall sh1 sh2 th2, k sh1 = (sh2, th2) -> th_clean th2) ->
  on_store sh th r k = (sh', th') -> th_clean th'.
Proof.
  intros Hc Hr Hk H. unfold on_store in H. destruct r as [x|e|].
  - eapply Hk; eauto.
  - exfalso; eauto.
  - eapply finish_clean; [exact Hc| |exact H]. simpl; auto.
Qed.

Ltac unsome H E :=
  match type of H with Some ?x = Some ?y => assert (E : x = y) by (clear - H; congruence) end.

Lemma thread_step_clean vr tid sh th sh' th' :
  handle_l3 vr = true -> th_clean th -> thread_step vr tid sh th = Some (sh', th') -> th_clean th'.
Proof.
  intros Hh Hc H. unfold thread_step in H.
  assert (Hload : forall sh0 th0 p, th_clean th0 -> t_ops th0 = t_ops th -> t_res th0 = t_res th ->
                   load (t_ops th) sh0 th0 = p -> th_clean (snd p)).
  { intros sh0 th0 [a b] [Ho Hr] E1 E2 E. simpl. eapply load_clean; [| |exact E]; auto. destruct Hc; auto. }
  destruct (t_pc th) as [| | |k|k|e| |cid|sm|fm|fm cid|fm pm|fm pm v|sm v].
  - discriminate.
  - destruct (lock sh) as [[o n]|].
    + destruct (Nat.eqb o tid); inversion H; subst; exact Hc.
    + inversion H; subst; exact Hc.
  - destruct (fptr sh).
    + unsome H E. eapply load_clean in E; eauto; destruct Hc; auto.
    + inversion H; subst; exact Hc.
  - destruct (Nat.ltb k 6).
    + inversion H; subst; exact Hc.
    + unsome H E. eapply load_clean in E; eauto; destruct Hc; auto.
  - unfold deactivate, py_delcache in H.
    destruct (ptr (if Nat.ltb k 4 then Front else Proc) sh); simpl in H.
    + destruct (Nat.ltb k 6).
      * inversion H; subst; exact Hc.
      * unsome H E. eapply load_clean in E; eauto; destruct Hc; auto.
    + destruct (Nat.ltb k 6).
      * inversion H; subst; exact Hc.
      * unsome H E. eapply load_clean in E; eauto; destruct Hc; auto.
  - unsome H E. eapply load_clean in E; eauto; destruct Hc; auto.
  - destruct (m_front (t_cur th)) as [fk|].
    + unsome H E. eapply on_lookup_clean; [exact Hc| | |exact E].
      * intros o. apply w1_clean.
      * intros th1 v sh1 th2 H1 H2. eapply finish_clean; [exact H1| |exact H2]. simpl; auto.
    + unsome H E. eapply crash_clean; [exact Hc| |exact E]. simpl; auto.
  - destruct (m_front (t_cur th)) as [fk|].
    + unsome H E. eapply on_lookup_clean; [exact Hc| | |exact E].
      * intros o. apply w1b_clean.
      * intros th1 v sh1 th2 H1 H2. eapply finish_clean; [exact H1| |exact H2]. simpl; auto.
    + unsome H E. eapply crash_clean; [exact Hc| |exact E]. simpl; auto.
  - assert (Hfin : forall sh0 th0 o p, th_clean th0 -> clean o -> finish sh0 th0 o = p -> th_clean (snd p)).
    { intros sh0 th0 o [a b] H1 H2 H3. simpl. eapply finish_clean; eauto. }
    destruct (if meth_eqb (t_cur th) Mppid then ident_check sh else IOk sh) as [sh1|e|] eqn:Ei.
    + destruct (memoized (m_src (t_cur th))).
      * inversion H; subst; exact Hc.
      * unfold do_read in H. pose proof (read_src_clean sh1 (m_src (t_cur th))) as Hr.
        destruct (read_src sh1 (m_src (t_cur th))) as [v|e|].
        -- destruct sm as [|b].
           ++ unsome H E. apply Hfin in E; simpl; auto; try exact Hc.
           ++ inversion H; subst. exact Hc.
        -- unsome H E. apply Hfin in E; auto; try exact Hc.
        -- unsome H E. apply Hfin in E; simpl; auto; try exact Hc.
    + unsome H E. apply Hfin in E; auto.
      destruct (meth_eqb (t_cur th) Mppid); [|discriminate].
      unfold ident_check in Ei. destruct (gone_flag sh); [inversion Ei; simpl; auto|].
      destruct (srcs sh Stat); discriminate.
    + unsome H E. apply Hfin in E; simpl; auto.
  - unsome H E. eapply on_lookup_clean; [exact Hc| | |exact E].
    + intros o. apply w1_clean.
    + intros th1 v sh1 th2 H1 H2. cbv beta in H2. eapply ret_proc_clean; [exact H1|exact H2].
  - unsome H E. eapply on_lookup_clean; [exact Hc| | |exact E].
    + intros o. apply w1b_clean.
    + intros th1 v sh1 th2 H1 H2. cbv beta in H2. eapply ret_proc_clean; [exact H1|exact H2].
  - unfold do_read in H. pose proof (read_src_clean sh (m_src (t_cur th))) as Hr.
    destruct (read_src sh (m_src (t_cur th))) as [v|e|].
    + destruct pm as [|b].
      * unsome H E. eapply ret_proc_clean; [|exact E]; exact Hc.
      * inversion H; subst. exact Hc.
    + unsome H E. eapply finish_clean; [| |exact E]; auto; exact Hc.
    + unsome H E. eapply finish_clean; [| |exact E]; simpl; auto; exact Hc.
  - unsome H E. eapply on_store_clean; [exact Hc| | |exact E].
    + intros e. apply w3_clean; auto.
    + intros sh1 sh2 th2 H2. eapply ret_proc_clean; [|exact H2]. exact Hc.
  - destruct (m_front (t_cur th)) as [fk|].
    + unsome H E. eapply on_store_clean; [exact Hc| | |exact E].
      * intros e. apply w3_clean; auto.
      * intros sh1 sh2 th2 H2. eapply finish_clean; [exact Hc| |exact H2]. simpl; auto.
    + unsome H E. eapply crash_clean; [exact Hc| |exact E]. simpl; auto.
Qed.

Lemma init_threads_clean : forall progs sh sh' ths,
  Forall (Forall op_clean) progs -> init_threads sh progs = (sh', ths) -> Forall th_clean ths.
Proof.
  induction progs as [|p r IH]; intros sh sh' ths Hp H; simpl in H.
  - inversion H; constructor.
  - inversion Hp; subst. destruct (load p sh blank_thread) as [sh1 th] eqn:E1.
    destruct (init_threads sh1 r) as [sh2 ths'] eqn:E2. inversion H; subst.
    constructor; [|eapply IH; eauto]. eapply load_clean; [| |exact E1]; auto. constructor.
Qed.

Lemma Forall_upd_nth {A} (P : A -> Prop) n x l : Forall P l -> P x -> Forall P (upd_nth n (fun _ => x) l).
Proof. intros H Hx. revert n. induction H; intros [|n]; simpl; constructor; auto. Qed.

Lemma no_spurious_errors_inv vr c0 c :
  handle_l3 vr = true -> Forall th_clean (c_ths c0) -> reach vr c0 c -> Forall th_clean (c_ths c).
Proof.
  intros Hh H0 Hr. induction Hr as [|c t c' Hr IH Hs]; auto.
  apply lts_step_inv in Hs. destruct Hs as (th & sh' & th' & E1 & E2 & ->). simpl.
  apply Forall_upd_nth; auto. eapply thread_step_clean; eauto.
  rewrite Forall_forall in IH. apply IH. eapply nth_error_In; eauto.
Qed.

(* Theorem 5.  Every interleaving, any number of threads, any programs: no call returns
   AttributeError or KeyError (for both the code now and the code before commit 7b727b3). *)
Theorem no_spurious_errors : forall vr f progs c th r,
  handle_l3 vr = true -> Forall (Forall op_clean) progs ->
  reach vr (init_cfg f progs) c -> In th (c_ths c) -> In r (t_res th) ->
  r_out r <> Exc AttributeError /\ r_out r <> Exc KeyError.
Proof.
  intros vr f progs c th r Hh Hp Hr Hth Hin.
  assert (H0 : Forall th_clean (c_ths (init_cfg f progs))).
  { unfold init_cfg. destruct (init_threads (init_shared f) progs) as [sh ths] eqn:E. simpl.
    eapply init_threads_clean; eauto. }
  pose proof (no_spurious_errors_inv vr _ c Hh H0 Hr) as H.
  rewrite Forall_forall in H. destruct (H th Hth) as [_ Hres].
  unfold res_clean in Hres. rewrite Forall_forall in Hres. specialize (Hres r Hin).
  split; intros E; rewrite E in Hres; exact Hres.
Qed.

(* the hypotheses are satisfiable by a non-trivial program *)
Example no_spurious_errors_example :
  Forall (Forall op_clean) [[OEnter; OCall (CM Mppid); OExit]; [OCall (CM Mcpu_num); OCall (CStub (Exc AccessDenied))]].
Proof. repeat constructor. Qed.

(* Without the handler (psutil before the issue-1948 repair) the store line raises when the
   owner leaves the block between a plain caller's lookup and its store. *)
Definition sched_1948 : list nat := [0;0;0;0;0;0;0;0;0; 1;1; 0;0;0;0;0;0;0;0;0;0; 1].
Definition progs_1948 : list (list op) := [[OEnter; OCall (CM Mcpu_num); OExit]; [OCall (CM Mcpu_num)]].
Theorem no_spurious_errors_pre1948_refuted :
  exists sch, let c := run_sched code_pre1948 (init_cfg (fun _ => SAvail 1) progs_1948) sch in
    Forall (Forall op_clean) progs_1948 /\
    exists th r, nth_error (c_ths c) 1 = Some th /\ In r (t_res th) /\ r_out r = Exc AttributeError.
Proof.
  exists sched_1948. split; [repeat constructor|].
  vm_compute. eexists. eexists. split; [reflexivity|]. split; [left; reflexivity|reflexivity].
Qed.
