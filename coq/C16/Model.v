(* C16 -- model of oneshot() / as_dict() / memoize_when_activated.

   Transcribed from
     psutil/_common.py   memoize_when_activated (wrapper, cache_activate, cache_deactivate)
     psutil/__init__.py  Process.oneshot, Process.as_dict, Process.ppid (identity pre-check),
                         the four front-level memoized methods (ppid, cpu_times, memory_info, uids)
     psutil/_pslinux.py  Process._parse_stat_file / _read_status_file / _read_smaps_file
                         (memoized readers), oneshot_enter / oneshot_exit, and which source
                         each modelled method consumes.

   Two readings of the same code:
   * an interleaving semantics  lts_step : variant -> cfg -> tid -> option cfg  in which one step
     is the execution of one source line that touches the shared cache state (the lines are
     listed at [pc]); everything between two such lines is local to the thread;
   * a sequential reading  sq_step  (one thread, whole calls), built from the same primitives.

   [variant] selects the code under study:  code_now = the code in /repo (commit 7b727b3:
   the wrapper binds `cache = self._cache` once and uses that dict for lookup and store);
   code_before_fix = the wrapper before that commit (looked `self._cache` up again when
   storing; AttributeError swallowed, issue 1948);  code_pre1948 = without that handler. *)
From PV Require Export Base.Prelude.
Local Open Scope nat_scope.

(* ------------------------------------------------------------------ vocabulary *)
Inductive src := Stat | Status | Smaps | Statm.
Inductive fkey := FPpid | FCpuTimes | FMemInfo | FUids.
Inductive key := KF (f : fkey) | KS (s : src).          (* dict keys are the raw function objects *)
Inductive lvl := Front | Proc.                            (* psutil.Process._cache / _pslinux.Process._cache *)

Definition src_eqb (a b : src) : bool :=
  match a, b with Stat, Stat | Status, Status | Smaps, Smaps | Statm, Statm => true | _, _ => false end.
Definition fkey_eqb (a b : fkey) : bool :=
  match a, b with FPpid, FPpid | FCpuTimes, FCpuTimes | FMemInfo, FMemInfo | FUids, FUids => true | _, _ => false end.
Definition key_eqb (a b : key) : bool :=
  match a, b with KF x, KF y => fkey_eqb x y | KS x, KS y => src_eqb x y | _, _ => false end.

Inductive meth := Mname | Mppid | Mcpu_times | Mcpu_num | Muids | Mgids | Mnum_threads | Mnum_ctx
                | Mmemory_info | Mmemory_full | Mmemory_maps.
Definition meth_eqb (a b : meth) : bool :=
  match a, b with
  | Mname, Mname | Mppid, Mppid | Mcpu_times, Mcpu_times | Mcpu_num, Mcpu_num | Muids, Muids | Mgids, Mgids
  | Mnum_threads, Mnum_threads | Mnum_ctx, Mnum_ctx | Mmemory_info, Mmemory_info | Mmemory_full, Mmemory_full
  | Mmemory_maps, Mmemory_maps => true
  | _, _ => false end.
(* methods decorated with @memoize_when_activated in psutil/__init__.py *)
Definition m_front (m : meth) : option fkey :=
  match m with Mppid => Some FPpid | Mcpu_times => Some FCpuTimes | Mmemory_info => Some FMemInfo
             | Muids => Some FUids | _ => None end.
(* the /proc file the method's answer is computed from *)
Definition m_src (m : meth) : src :=
  match m with
  | Mname | Mppid | Mcpu_times | Mcpu_num => Stat
  | Muids | Mgids | Mnum_threads | Mnum_ctx => Status
  | Mmemory_info => Statm
  | Mmemory_full | Mmemory_maps => Smaps      (* memory_maps() builds a new list from the smaps text on every call;
                                                 memory_full_info(): the _read_smaps_file path -- where /proc/<pid>/smaps_rollup
                                                 exists and is readable it is used instead, un-memoized (live cases) *)
  end.
(* _parse_stat_file, _read_status_file, _read_smaps_file are memoized; statm is read directly *)
Definition memoized (s : src) : bool := negb (src_eqb s Statm).

(* what the kernel currently answers for a source *)
Inductive sstate := SAvail (v : nat) | SDenied | SGone.
(* a value read from a source: the version seen and (ghost) the step at which it was read *)
Definition val := (nat * nat)%type.

Record cache := mkCache { c_born : nat (* ghost: step at which the dict was created *); c_ents : list (key * val) }.

Record shared := mkShared {
  heap : list cache;                 (* every dict ever created by cache_activate *)
  fptr : option nat;                 (* Process._cache  (index into heap) *)
  pptr : option nat;                 (* Process._proc._cache *)
  lock : option (nat * nat);         (* Process._lock: owner thread, recursion count *)
  srcs : src -> sstate;
  gone_flag : bool;                  (* Process._gone *)
  clock : nat }.                     (* ghost: number of steps so far *)

Definition set_heap sh h := mkShared h (fptr sh) (pptr sh) (lock sh) (srcs sh) (gone_flag sh) (clock sh).
Definition set_ptr (l : lvl) sh p :=
  match l with
  | Front => mkShared (heap sh) p (pptr sh) (lock sh) (srcs sh) (gone_flag sh) (clock sh)
  | Proc => mkShared (heap sh) (fptr sh) p (lock sh) (srcs sh) (gone_flag sh) (clock sh)
  end.
Definition set_lock sh l := mkShared (heap sh) (fptr sh) (pptr sh) l (srcs sh) (gone_flag sh) (clock sh).
Definition set_srcs sh f := mkShared (heap sh) (fptr sh) (pptr sh) (lock sh) f (gone_flag sh) (clock sh).
Definition set_gone sh b := mkShared (heap sh) (fptr sh) (pptr sh) (lock sh) (srcs sh) b (clock sh).
Definition tick sh := mkShared (heap sh) (fptr sh) (pptr sh) (lock sh) (srcs sh) (gone_flag sh) (S (clock sh)).
Definition ptr (l : lvl) sh := match l with Front => fptr sh | Proc => pptr sh end.

Record variant := mkVariant { bind_once : bool; handle_l3 : bool }.
Definition code_now := mkVariant true true.
Definition code_before_fix := mkVariant false true.
Definition code_pre1948 := mkVariant false false.

(* ------------------------------------------------------------------ Python primitives, exceptions explicit *)
Fixpoint assoc (k : key) (l : list (key * val)) : option val :=
  match l with [] => None | (k', v) :: r => if key_eqb k k' then Some v else assoc k r end.

Fixpoint upd_nth {A} (n : nat) (f : A -> A) (l : list A) : list A :=
  match l, n with
  | [], _ => []
  | x :: r, O => f x :: r
  | x :: r, S n' => x :: upd_nth n' f r
  end.

(* self._cache *)
Definition py_getcache (l : lvl) sh : outcome nat :=
  match ptr l sh with Some c => Val c | None => Exc AttributeError end.
(* d[k] *)
Definition py_subscript sh (cid : nat) (k : key) : outcome val :=
  match nth_error (heap sh) cid with
  | None => OutOfModel
  | Some c => match assoc k (c_ents c) with Some v => Val v | None => Exc KeyError end
  end.
(* d[k] = v  (a later binding shadows an earlier one) *)
Definition py_setitem sh (cid : nat) (k : key) (v : val) : outcome shared :=
  match nth_error (heap sh) cid with
  | None => OutOfModel
  | Some _ => Val (set_heap sh (upd_nth cid (fun c => mkCache (c_born c) ((k, v) :: c_ents c)) (heap sh)))
  end.
(* del proc._cache *)
Definition py_delcache (l : lvl) sh : outcome shared :=
  match ptr l sh with Some _ => Val (set_ptr l sh None) | None => Exc AttributeError end.
(* cache_activate: proc._cache = {} *)
Definition activate (l : lvl) sh : shared :=
  set_ptr l (set_heap sh (heap sh ++ [mkCache (clock sh) []])) (Some (length (heap sh))).
(* cache_deactivate: try: del proc._cache / except AttributeError: pass *)
Definition deactivate (l : lvl) sh : outcome shared :=
  match py_delcache l sh with Exc AttributeError => Val sh | r => r end.

(* fun(self) of a reader, wrap_exceptions folded in: PermissionError -> AccessDenied,
   FileNotFoundError with /proc/<pid> gone -> NoSuchProcess *)
Definition read_src sh (s : src) : outcome val :=
  match srcs sh s with
  | SAvail v => Val (v, clock sh)
  | SDenied => Exc AccessDenied
  | SGone => Exc NoSuchProcess
  end.

(* memoize_when_activated.wrapper, first lines:
     try: ret = self._cache[fun]
     except AttributeError: (case 2)   except KeyError: (case 3)
   [bind_once]: cache = self._cache / ret = cache[fun] on two lines *)
Inductive smode := MPlain | MStore (b : option nat).       (* case 2 | case 3 (dict bound at lookup, if any) *)
Inductive lres := LHit (v : val) (cid : nat) | LMode (sm : smode) | LNext (cid : nat) | LErr (o : outcome val).

Definition w1b (bound : bool) (cid : nat) (k : key) sh : lres :=
  match py_subscript sh cid k with
  | Val v => LHit v cid
  | Exc KeyError => LMode (MStore (if bound then Some cid else None))
  | Exc e => LErr (Exc e)
  | OutOfModel => LErr OutOfModel
  end.
Definition w1 (vr : variant) (l : lvl) (k : key) sh : lres :=
  match py_getcache l sh with
  | Exc AttributeError => LMode MPlain
  | Val cid => if bind_once vr then LNext cid else w1b false cid k sh
  | Exc e => LErr (Exc e)
  | OutOfModel => LErr OutOfModel
  end.
(* case 3, after fun(self):
     try: self._cache[fun] = ret
     except AttributeError: pass          (the issue-1948 handler; absent when handle_l3 = false)
   [bind_once] (the code now): cache[fun] = ret *)
Definition w3 (vr : variant) (l : lvl) (k : key) (sm : smode) (v : val) sh : outcome shared :=
  match sm with
  | MPlain => Val sh
  | MStore (Some cid) => py_setitem sh cid k v
  | MStore None =>
      match (do cid <- py_getcache l sh; py_setitem sh cid k v) with
      | Exc AttributeError => if handle_l3 vr then Val sh else Exc AttributeError
      | r => r
      end
  end.

(* Process.ppid(): self._raise_if_pid_reused() before the platform call.
   _gone already set -> NoSuchProcess without looking at anything.
   Otherwise is_running() builds Process(pid) and compares identities:
   * alive, stat readable -> same identity -> go on;
   * stat unreadable -> the new object's creation time is None: "the PID exists and nothing says it was
     reused" -> go on (the platform call then raises AccessDenied by itself);
   * pid gone -> Process(pid) raises NoSuchProcess -> _gone = True, is_running() False, no raise here
     (the platform call then fails, or is answered by the block's cache). *)
Inductive ires := IOk (sh : shared) | IRaise (e : exn) | IOut.   (* IOut: kept for totality, not produced *)
Definition ident_check sh : ires :=
  if gone_flag sh then IRaise NoSuchProcess
  else match srcs sh Stat with
       | SAvail _ => IOk sh
       | SGone => IOk (set_gone sh true)
       | SDenied => IOk sh
       end.

(* environment events (process-state changes) *)
Inductive envev := ESet (s : src) (st : sstate) | EGone.
Definition apply_env (e : envev) sh : shared :=
  match e with
  | ESet s st => set_srcs sh (fun x => if src_eqb x s then st else srcs sh x)
  | EGone => set_srcs sh (fun _ => SGone)
  end.

Definition unlock sh : shared :=
  set_lock sh (match lock sh with Some (o, S (S n)) => Some (o, S n) | _ => None end).

(* ------------------------------------------------------------------ threads *)
Inductive callee := CM (m : meth) | CPid | CStub (o : outcome nat).
Inductive op := OEnter | OExit | ORaise | OCall (c : callee) | OEnv (e : envev).
Inductive frame := Real | Nested.
Inductive fmode := FNone | FM (sm : smode).      (* state of the front-level wrapper around the current call *)

(* program counter = the next shared-state line the thread will execute *)
Inductive pc :=
| PDone
| PAcq                       (* oneshot: with self._lock: *)
| PTest                      (* if hasattr(self, "_cache"): *)
| PAct (k : nat)             (* k-th `proc._cache = {}`: 0-3 front (cpu_times, memory_info, ppid, uids), 4-6 _proc *)
| PDel (k : nat)             (* k-th `del proc._cache` in the finally clause, same order; lock released after the last *)
| PEnv (e : envev)           (* the harness thread changes the fake kernel *)
| PF1                        (* front wrapper: ret = self._cache[fun]      [bind_once: cache = self._cache] *)
| PF1b (cid : nat)           (*                                             [bind_once: ret = cache[fun]] *)
| PF2 (sm : smode)           (* front wrapper: (return|ret =) fun(self); runs the method body up to the next line below *)
| PP1 (fm : fmode)           (* reader wrapper: ret = self._cache[fun] *)
| PP1b (fm : fmode) (cid : nat)
| PP2 (fm : fmode) (pm : smode)            (* reader wrapper: (return|ret =) fun(self): the file is read *)
| PP3 (fm : fmode) (pm : smode) (v : val)  (* reader wrapper: self._cache[fun] = ret *)
| PF3 (sm : smode) (v : val).              (* front wrapper: self._cache[fun] = ret *)

Record result := mkResult {
  r_out : outcome val;
  r_cnt : list nat;            (* reads of stat, status, smaps, statm made by this call *)
  r_t0 : nat; r_t1 : nat;      (* ghost: steps at which the call started / returned *)
  r_hit : option nat }.        (* ghost: dict that supplied the value, if it came from a cache *)

Record thread := mkThread {
  t_ops : list op; t_pc : pc; t_stk : list frame; t_cur : meth;
  t_res : list result;         (* newest first *)
  t_cnt : src -> nat; t_t0 : nat; t_hit : option nat }.

Definition th_ops th o := mkThread o (t_pc th) (t_stk th) (t_cur th) (t_res th) (t_cnt th) (t_t0 th) (t_hit th).
Definition th_pc th p := mkThread (t_ops th) p (t_stk th) (t_cur th) (t_res th) (t_cnt th) (t_t0 th) (t_hit th).
Definition th_stk th s := mkThread (t_ops th) (t_pc th) s (t_cur th) (t_res th) (t_cnt th) (t_t0 th) (t_hit th).
Definition th_hit th h := mkThread (t_ops th) (t_pc th) (t_stk th) (t_cur th) (t_res th) (t_cnt th) (t_t0 th) h.
Definition th_count th (s : src) :=
  mkThread (t_ops th) (t_pc th) (t_stk th) (t_cur th) (t_res th)
           (fun x => if src_eqb x s then S (t_cnt th x) else t_cnt th x) (t_t0 th) (t_hit th).
Definition th_begin th (m : meth) (now : nat) :=
  mkThread (t_ops th) (t_pc th) (t_stk th) m (t_res th) (fun _ => 0) now None.
Definition cnt_list (f : src -> nat) : list nat := [f Stat; f Status; f Smaps; f Statm].
Definition mk_result sh th (o : outcome val) : result :=
  mkResult o (cnt_list (t_cnt th)) (t_t0 th) (clock sh) (t_hit th).
Definition push_res th (r : result) :=
  mkThread (t_ops th) (t_pc th) (t_stk th) (t_cur th) (r :: t_res th) (t_cnt th) (t_t0 th) (t_hit th).

Definition pidval : nat := 4242.

Fixpoint strip_nested (stk : list frame) sh : list frame * shared :=
  match stk with Nested :: r => strip_nested r (unlock sh) | _ => (stk, sh) end.

(* Run the thread's own code up to the next shared-state line: operations that contain no such
   line (exit of a nested block, Exit/Raise outside any block, p.pid, a stubbed method) are
   performed on the way. *)
Fixpoint load (ops : list op) sh th : shared * thread :=
  match ops with
  | [] => (sh, th_pc (th_ops th []) PDone)
  | OEnter :: r => (sh, th_pc (th_ops th r) PAcq)
  | OExit :: r =>
      match t_stk th with
      | [] => load r sh th
      | Nested :: s => load r (unlock sh) (th_stk th s)
      | Real :: _ => (sh, th_pc (th_ops th r) (PDel 0))
      end
  | ORaise :: r =>
      let (s, sh') := strip_nested (t_stk th) sh in
      match s with
      | [] => load r sh' (th_stk th [])
      | _ => (sh', th_pc (th_ops (th_stk th s) (ORaise :: r)) (PDel 0))
      end
  | OEnv e :: r => (sh, th_pc (th_ops th r) (PEnv e))
  | OCall c :: r =>
      match c with
      | CM m => let th0 := th_begin th m (clock sh) in
                (sh, th_pc (th_ops th0 r) (match m_front m with Some _ => PF1 | None => PP1 FNone end))
      | CPid => let th0 := th_begin th (t_cur th) (clock sh) in
                load r sh (push_res th0 (mk_result sh th0 (Val (pidval, clock sh))))
      | CStub o => let th0 := th_begin th (t_cur th) (clock sh) in
                   load r sh (push_res th0 (mk_result sh th0 (omap (fun n => (n, clock sh)) o)))
      end
  end.

(* the current call returns / raises o to the harness; go on to the next operation *)
Definition finish sh th (o : outcome val) : shared * thread :=
  load (t_ops th) sh (push_res th (mk_result sh th o)).
(* an exception no handler of psutil catches, outside any call *)
Definition crash sh th (o : outcome val) : shared * thread :=
  (sh, th_pc (th_ops (push_res th (mk_result sh th o)) []) PDone).

Definition do_read sh th (s : src) : thread * outcome val := (th_count th s, read_src sh s).

(* the reader wrapper returned v into the platform method, which returns to its caller *)
Definition ret_proc sh th (fm : fmode) (v : val) : shared * thread :=
  (* _pslinux.Process.memory_full_info: ... basic_mem = self.memory_info()  -- statm, not memoized *)
  let (th1, r) := if meth_eqb (t_cur th) Mmemory_full
                  then (let (th1, r) := do_read sh th Statm in (th1, do _ <- r; Val v))
                  else (th, Val v) in
  match r with
  | Val v' => match fm with
              | FM (MStore b) => (sh, th_pc th1 (PF3 (MStore b) v'))
              | _ => finish sh th1 (Val v')
              end
  | o => finish sh th1 o
  end.

Definition on_lookup sh th (r : lres) (hit : thread -> val -> shared * thread)
           (mode : smode -> pc) (next : nat -> pc) : shared * thread :=
  match r with
  | LHit v cid => hit (th_hit th (Some cid)) v
  | LMode sm => (sh, th_pc th (mode sm))
  | LNext cid => (sh, th_pc th (next cid))
  | LErr o => finish sh th o
  end.

Definition on_store sh th (r : outcome shared) (k : shared -> shared * thread) : shared * thread :=
  match r with Val sh' => k sh' | Exc e => finish sh th (Exc e) | OutOfModel => finish sh th OutOfModel end.

Definition thread_step (vr : variant) (tid : nat) sh th : option (shared * thread) :=
  let m := t_cur th in
  let s := m_src m in
  match t_pc th with
  | PDone => None
  | PAcq =>
      match lock sh with
      | None => Some (set_lock sh (Some (tid, 1)), th_pc th PTest)
      | Some (o, n) => if Nat.eqb o tid then Some (set_lock sh (Some (tid, S n)), th_pc th PTest) else None
      end
  | PTest =>
      match fptr sh with
      | Some _ => Some (load (t_ops th) sh (th_stk th (Nested :: t_stk th)))
      | None => Some (sh, th_pc th (PAct 0))
      end
  | PAct k =>
      let sh' := activate (if Nat.ltb k 4 then Front else Proc) sh in
      if Nat.ltb k 6 then Some (sh', th_pc th (PAct (S k)))
      else Some (load (t_ops th) sh' (th_stk th (Real :: t_stk th)))
  | PDel k =>
      match deactivate (if Nat.ltb k 4 then Front else Proc) sh with
      | Val sh' => if Nat.ltb k 6 then Some (sh', th_pc th (PDel (S k)))
                   else Some (load (t_ops th) (unlock sh') (th_stk th (tl (t_stk th))))
      | Exc e => Some (crash sh th (Exc e))
      | OutOfModel => Some (crash sh th OutOfModel)
      end
  | PEnv e => Some (load (t_ops th) (apply_env e sh) th)
  | PF1 =>
      match m_front m with
      | None => Some (crash sh th OutOfModel)
      | Some fk => Some (on_lookup sh th (w1 vr Front (KF fk) sh) (fun th' v => finish sh th' (Val v)) PF2 PF1b)
      end
  | PF1b cid =>
      match m_front m with
      | None => Some (crash sh th OutOfModel)
      | Some fk => Some (on_lookup sh th (w1b true cid (KF fk) sh) (fun th' v => finish sh th' (Val v)) PF2 PF1b)
      end
  | PF2 sm =>
      match (if meth_eqb m Mppid then ident_check sh else IOk sh) with
      | IRaise e => Some (finish sh th (Exc e))
      | IOut => Some (finish sh th OutOfModel)
      | IOk sh1 =>
          if memoized s then Some (sh1, th_pc th (PP1 (FM sm)))
          else let (th1, r) := do_read sh1 th s in
               match r with
               | Val v => match sm with
                          | MPlain => Some (finish sh1 th1 (Val v))
                          | _ => Some (sh1, th_pc th1 (PF3 sm v))
                          end
               | o => Some (finish sh1 th1 o)
               end
      end
  | PP1 fm => Some (on_lookup sh th (w1 vr Proc (KS s) sh) (fun th' v => ret_proc sh th' fm v) (PP2 fm) (PP1b fm))
  | PP1b fm cid => Some (on_lookup sh th (w1b true cid (KS s) sh) (fun th' v => ret_proc sh th' fm v) (PP2 fm) (PP1b fm))
  | PP2 fm pm =>
      let (th1, r) := do_read sh th s in
      match r with
      | Val v => match pm with
                 | MPlain => Some (ret_proc sh th1 fm v)
                 | _ => Some (sh, th_pc th1 (PP3 fm pm v))
                 end
      | o => Some (finish sh th1 o)
      end
  | PP3 fm pm v => Some (on_store sh th (w3 vr Proc (KS s) pm v sh) (fun sh' => ret_proc sh' th fm v))
  | PF3 sm v =>
      match m_front m with
      | None => Some (crash sh th OutOfModel)
      | Some fk => Some (on_store sh th (w3 vr Front (KF fk) sm v sh) (fun sh' => finish sh' th (Val v)))
      end
  end.

(* ------------------------------------------------------------------ configurations, schedules *)
Record cfg := mkCfg { c_sh : shared; c_ths : list thread }.

Definition lts_step (vr : variant) (c : cfg) (tid : nat) : option cfg :=
  match nth_error (c_ths c) tid with
  | None => None
  | Some th =>
      match thread_step vr tid (c_sh c) th with
      | None => None                                   (* finished, or blocked on the lock *)
      | Some (sh', th') => Some (mkCfg (tick sh') (upd_nth tid (fun _ => th') (c_ths c)))
      end
  end.

Definition init_shared (f : src -> sstate) : shared := mkShared [] None None None f false 0.
Definition blank_thread : thread := mkThread [] PDone [] Mname [] (fun _ => 0) 0 None.
(* threads run freely up to their first shared-state line before the schedule starts *)
Fixpoint init_threads sh (progs : list (list op)) : shared * list thread :=
  match progs with
  | [] => (sh, [])
  | p :: r => let (sh1, th) := load p sh blank_thread in
              let (sh2, ths) := init_threads sh1 r in (sh2, th :: ths)
  end.
Definition init_cfg (f : src -> sstate) (progs : list (list op)) : cfg :=
  let (sh, ths) := init_threads (init_shared f) progs in mkCfg sh ths.

(* a schedule names the thread to run next; naming a finished or blocked thread is a no-op *)
Definition sched_step vr (c : cfg) (tid : nat) : cfg :=
  match lts_step vr c tid with Some c' => c' | None => c end.
Definition run_sched vr (c : cfg) (sch : list nat) : cfg := fold_left (sched_step vr) sch c.

(* ------------------------------------------------------------------ the sequential reading *)
(* memoize_when_activated.wrapper as one function: body = fun(self) *)
Definition cnt := src -> nat.
Definition bump (cn : cnt) (s : src) : cnt := fun x => if src_eqb x s then S (cn x) else cn x.

Definition sq_wrapper (l : lvl) (k : key) (body : shared -> cnt -> shared * cnt * outcome val)
           sh (cn : cnt) : shared * cnt * outcome val :=
  match py_getcache l sh with                             (* cache = self._cache *)
  | Exc AttributeError => body sh cn                      (* case 2 *)
  | Val c =>
      match py_subscript sh c k with                      (* ret = cache[fun] *)
      | Val v => (sh, cn, Val v)                          (* case 1 *)
      | Exc KeyError =>                                   (* case 3 *)
          let '(sh1, cn1, r) := body sh cn in
          match r with
          | Val v => match py_setitem sh1 c k v with      (* cache[fun] = ret *)
                     | Val sh2 => (sh2, cn1, Val v)
                     | Exc e => (sh1, cn1, Exc e)
                     | OutOfModel => (sh1, cn1, OutOfModel)
                     end
          | o => (sh1, cn1, o)
          end
      | Exc e => (sh, cn, Exc e)
      | OutOfModel => (sh, cn, OutOfModel)
      end
  | Exc e => (sh, cn, Exc e)
  | OutOfModel => (sh, cn, OutOfModel)
  end.

Definition sq_read (s : src) sh (cn : cnt) : shared * cnt * outcome val := (sh, bump cn s, read_src sh s).
Definition sq_reader (s : src) := if memoized s then sq_wrapper Proc (KS s) (sq_read s) else sq_read s.

(* body of psutil.Process.<m>: identity pre-check (ppid), platform method *)
Definition sq_body (m : meth) sh (cn : cnt) : shared * cnt * outcome val :=
  match (if meth_eqb m Mppid then ident_check sh else IOk sh) with
  | IRaise e => (sh, cn, Exc e)
  | IOut => (sh, cn, OutOfModel)
  | IOk sh1 =>
      let '(sh2, cn2, r) := sq_reader (m_src m) sh1 cn in
      if meth_eqb m Mmemory_full
      then match r with
           | Val v => (sh2, bump cn2 Statm, do _ <- read_src sh2 Statm; Val v)
           | o => (sh2, cn2, o)
           end
      else (sh2, cn2, r)
  end.
Definition sq_call (m : meth) sh : shared * cnt * outcome val :=
  match m_front m with
  | Some fk => sq_wrapper Front (KF fk) (sq_body m) sh (fun _ => 0)
  | None => sq_body m sh (fun _ => 0)
  end.

Definition acquire0 sh : shared :=
  set_lock sh (match lock sh with Some (o, n) => Some (o, S n) | None => Some (0, 1) end).
Definition activate_all sh : shared :=
  activate Proc (activate Proc (activate Proc (activate Front (activate Front (activate Front (activate Front sh)))))).
Definition deactivate1 (l : lvl) sh : shared := match deactivate l sh with Val sh' => sh' | _ => sh end.
Definition deactivate_all sh : shared :=
  deactivate1 Proc (deactivate1 Proc (deactivate1 Proc
    (deactivate1 Front (deactivate1 Front (deactivate1 Front (deactivate1 Front sh)))))).

Record sq := mkSq { q_sh : shared; q_stk : list frame; q_res : list (outcome nat * list nat) (* newest first *) }.

Definition sq_enter (q : sq) : sq :=
  let sh := acquire0 (q_sh q) in
  match fptr sh with
  | Some _ => mkSq sh (Nested :: q_stk q) (q_res q)
  | None => mkSq (activate_all sh) (Real :: q_stk q) (q_res q)
  end.
Definition sq_exit (q : sq) : sq :=
  match q_stk q with
  | [] => q
  | Nested :: s => mkSq (unlock (q_sh q)) s (q_res q)
  | Real :: s => mkSq (unlock (deactivate_all (q_sh q))) s (q_res q)
  end.
Fixpoint sq_unwind (n : nat) (q : sq) : sq := match n with O => q | S n' => sq_unwind n' (sq_exit q) end.

Definition ver_of (o : outcome val) : outcome nat := omap fst o.

Definition sq_step (q : sq) (o : op) : sq :=
  match o with
  | OEnter => sq_enter q
  | OExit => sq_exit q
  | ORaise => sq_unwind (length (q_stk q)) q
  | OEnv e => mkSq (apply_env e (q_sh q)) (q_stk q) (q_res q)
  | OCall (CM m) => let '(sh, cn, r) := sq_call m (q_sh q) in mkSq sh (q_stk q) ((ver_of r, cnt_list cn) :: q_res q)
  | OCall CPid => mkSq (q_sh q) (q_stk q) ((Val pidval, [0; 0; 0; 0]) :: q_res q)
  | OCall (CStub o) => mkSq (q_sh q) (q_stk q) ((o, [0; 0; 0; 0]) :: q_res q)
  end.
Definition sq_init (f : src -> sstate) : sq := mkSq (init_shared f) [] [].
Definition sq_run (q : sq) (h : list op) : sq := fold_left sq_step h q.

(* ------------------------------------------------------------------ as_dict *)
Inductive attrs_arg := ANone | ANotColl | AColl (names : list bytes).

Fixpoint bytes_eqb (a b : bytes) : bool :=
  match a, b with
  | [], [] => true
  | x :: a', y :: b' => Z.eqb x y && bytes_eqb a' b'
  | _, _ => false
  end.
Definition mem_bytes (x : bytes) (l : list bytes) : bool := existsb (bytes_eqb x) l.
(* set(attrs): first occurrences, in the order given (the harness passes the iteration order) *)
Fixpoint dedup (l : list bytes) (seen : list bytes) : list bytes :=
  match l with
  | [] => []
  | x :: r => if mem_bytes x seen then dedup r seen else x :: dedup r (x :: seen)
  end.

Inductive ad_val := ADefault | AVal (v : nat).           (* ad_value | the method's answer *)

(* one pass of `for name in ls:` ; resolve gives what getattr(self, name)() is *)
Fixpoint ad_loop (resolve : bytes -> callee) (explicit : bool) (ls : list bytes) (q : sq)
         (acc : list (bytes * ad_val)) : sq * outcome (list (bytes * ad_val)) :=
  match ls with
  | [] => (q, Val (rev acc))
  | n :: r =>
      let q1 := sq_step q (OCall (resolve n)) in
      match q_res q1 with
      | [] => (q1, OutOfModel)
      | (o, _) :: _ =>
          match o with
          | Val v => ad_loop resolve explicit r q1 ((n, AVal v) :: acc)
          | Exc AccessDenied | Exc ZombieProcess => ad_loop resolve explicit r q1 ((n, ADefault) :: acc)
          | Exc NotImplementedError => if explicit then (q1, Exc NotImplementedError)
                                       else ad_loop resolve explicit r q1 acc
          | Exc e => (q1, Exc e)
          | OutOfModel => (q1, OutOfModel)
          end
      end
  end.

(* Process.as_dict(attrs, ad_value); valid = _as_dict_attrnames in iteration order.
   The results of the individual calls stay in q_res (ghost, for the read counts). *)
Definition as_dict (valid : list bytes) (resolve : bytes -> callee) (attrs : attrs_arg) (q : sq)
  : sq * outcome (list (bytes * ad_val)) :=
  match attrs with
  | ANotColl => (q, Exc TypeError)
  | _ =>
      let req := match attrs with AColl ns => dedup ns [] | _ => [] end in
      if existsb (fun n => negb (mem_bytes n valid)) req then (q, Exc ValueError)
      else
        let explicit := match req with [] => false | _ => true end in
        let ls := if explicit then req else valid in
        let q1 := sq_enter q in
        let (q2, r) := ad_loop resolve explicit ls q1 [] in
        (sq_exit q2, r)             (* finally: the block is left on every path *)
  end.

(* ------------------------------------------------------------------ attrs with arbitrary (hashable) elements *)
(* What a caller may put into the attrs collection: any hashable Python value, not only strings. *)
Inductive atom :=
| EStr (s : bytes) | EInt (z : Z) | ENone | EBool (b : bool) | EBytes (s : bytes)
| EFloat (num den : Z)          (* a finite float, as the exact rational num/den, den > 0 *)
| ENaN (id : Z)                 (* a NaN object (equal only to itself, by identity) *)
| EObj (id : Z).                (* an instance of some other class: default identity equality, whatever its
                                   __hash__ / __lt__ / __repr__ do *)
Inductive aname := NA (a : atom) | NTuple (l : list atom).

(* Python's == as set() uses it: numbers compare by value across int / bool / float *)
Definition atom_num (a : atom) : option (Z * Z) :=
  match a with
  | EInt z => Some (z, 1%Z) | EBool b => Some ((if b then 1 else 0)%Z, 1%Z) | EFloat n d => Some (n, d)
  | _ => None
  end.
Definition atom_eqb (a b : atom) : bool :=
  match atom_num a, atom_num b with
  | Some (n1, d1), Some (n2, d2) => Z.eqb (n1 * d2) (n2 * d1)
  | None, None =>
      match a, b with
      | EStr x, EStr y => bytes_eqb x y
      | ENone, ENone => true
      | EBytes x, EBytes y => bytes_eqb x y
      | ENaN i, ENaN j => Z.eqb i j
      | EObj i, EObj j => Z.eqb i j
      | _, _ => false
      end
  | _, _ => false
  end.
Fixpoint atoms_eqb (x y : list atom) : bool :=
  match x, y with
  | [], [] => true
  | a :: x', b :: y' => atom_eqb a b && atoms_eqb x' y'
  | _, _ => false
  end.
Definition aname_eqb (a b : aname) : bool :=
  match a, b with
  | NA x, NA y => atom_eqb x y
  | NTuple x, NTuple y => atoms_eqb x y
  | _, _ => false
  end.

(* an element is an acceptable name iff it is a str that is in _as_dict_attrnames *)
Definition name_valid (valid : list bytes) (n : aname) : bool :=
  match n with NA (EStr s) => mem_bytes s valid | _ => false end.
Fixpoint strs_of (l : list aname) : list bytes :=
  match l with [] => [] | NA (EStr s) :: r => s :: strs_of r | _ :: r => strs_of r end.
(* set(attrs) *)
Fixpoint dedup_n (l : list aname) (seen : list aname) : list aname :=
  match l with
  | [] => []
  | x :: r => if existsb (aname_eqb x) seen then dedup_n r seen else x :: dedup_n r (x :: seen)
  end.

Inductive attrs_any := PNone | PNotColl | PColl (elems : list aname).

(* Process.as_dict(attrs, ad_value) for any attrs:
     attrs = set(attrs); invalid_names = attrs - valid_names; if invalid_names: raise ValueError(...)
   (the message is built with repr() of each invalid element and is not modelled) *)
Definition as_dict_any (valid : list bytes) (resolve : bytes -> callee) (attrs : attrs_any) (q : sq)
  : sq * outcome (list (bytes * ad_val)) :=
  match attrs with
  | PNone => as_dict valid resolve ANone q
  | PNotColl => as_dict valid resolve ANotColl q
  | PColl ns =>
      let req := dedup_n ns [] in
      if existsb (fun n => negb (name_valid valid n)) req then (q, Exc ValueError)
      else as_dict valid resolve (AColl (strs_of req)) q
  end.

(* ------------------------------------------------------------------ several Process objects: copies *)
(* copy.copy(p) / copy.deepcopy(p) / pickle round trip of a Process object.  What the new object shares with the
   old one is a property of the tree (probed on every run, coq/Gen/C16_Tables.v):
     cd_shared      the copy refers to the SAME platform object p._proc (so _proc._cache is one cell for both)
     cd_keep_front  the copy starts with the value p._cache had (the front-level dict of p's open block)
     cd_keep_plat   (own platform object only) it starts with the value p._proc._cache had
   The tree of record: copy.copy is the default shallow copy (shared, keep_front); deepcopy and pickle raise
   TypeError (the RLock), and an operation that raises creates no object. *)
Record cdesc := mkCd { cd_shared : bool; cd_keep_front : bool; cd_keep_plat : bool }.
Record mobj := mkObj {
  o_fptr : option nat;            (* this object's _cache attribute *)
  o_gone : bool;                  (* this object's _gone *)
  o_stk : list frame;             (* its open oneshot() context managers *)
  o_plat : nat;                   (* which platform object it refers to *)
  o_start : option nat }.         (* ghost: step at which its outermost open block was entered *)
Record msq := mkM {
  m_sh : shared;                  (* heap, lock, sources, clock; its fptr / pptr / gone_flag fields are scratch *)
  m_plats : list (option nat);    (* _cache of each platform object *)
  m_objs : list (option mobj);    (* None: the copy operation raised, there is no such object *)
  m_time : nat;
  m_tl : list (src -> sstate);    (* ghost: kernel state before each step, newest first *)
  m_res : list (nat * nat * meth * outcome nat) }.   (* (step, object, method, answer), newest first *)
(* MCopy o din dout: what the operation gives when some cache cell reachable from o is live (o._cache or
   o._proc._cache exists: o, or an object sharing its platform object, is inside a block) / when none is
   (None: it raises) *)
Inductive mop := MOn (o : nat) (p : op) | MCopy (o : nat) (din dout : option cdesc).

Definition view (ms : msq) (ob : mobj) : shared :=
  let sh := m_sh ms in
  mkShared (heap sh) (o_fptr ob) (nth (o_plat ob) (m_plats ms) None) (lock sh) (srcs sh) (o_gone ob) (clock sh).

Definition op_meth (p : op) : meth := match p with OCall (CM m) => m | _ => Mname end.

Definition mstep (ms : msq) (e : mop) : msq :=
  let t := m_time ms in
  let tl := srcs (m_sh ms) :: m_tl ms in
  match e with
  | MOn o p =>
      match nth_error (m_objs ms) o with
      | Some (Some ob) =>
          let q' := sq_step (mkSq (view ms ob) (o_stk ob) []) p in
          let sh' := q_sh q' in
          let start := match q_stk q', o_stk ob with
                       | [], _ => None
                       | _ :: _, [] => Some t
                       | _ :: _, _ :: _ => o_start ob
                       end in
          let ob' := mkObj (fptr sh') (gone_flag sh') (q_stk q') (o_plat ob) start in
          mkM sh' (upd_nth (o_plat ob) (fun _ => pptr sh') (m_plats ms)) (upd_nth o (fun _ => Some ob') (m_objs ms))
              (S t) tl
              (match q_res q' with (a, _) :: _ => (t, o, op_meth p, a) :: m_res ms | [] => m_res ms end)
      | _ => mkM (m_sh ms) (m_plats ms) (m_objs ms) (S t) tl (m_res ms)
      end
  | MCopy o din dout =>
      match nth_error (m_objs ms) o, (match nth_error (m_objs ms) o with
                                       | Some (Some ob) => match o_fptr ob, nth (o_plat ob) (m_plats ms) None with None, None => dout | _, _ => din end
                                       | _ => None end) with
      | Some (Some ob), Some cd =>
          let f := if cd_keep_front cd then o_fptr ob else None in
          if cd_shared cd
          then mkM (m_sh ms) (m_plats ms) (m_objs ms ++ [Some (mkObj f (o_gone ob) [] (o_plat ob) None)]) (S t) tl (m_res ms)
          else mkM (m_sh ms)
                   (m_plats ms ++ [if cd_keep_plat cd then nth (o_plat ob) (m_plats ms) None else None])
                   (m_objs ms ++ [Some (mkObj f (o_gone ob) [] (length (m_plats ms)) None)]) (S t) tl (m_res ms)
      | _, _ => mkM (m_sh ms) (m_plats ms) (m_objs ms ++ [None]) (S t) tl (m_res ms)
      end
  end.
Definition m_init (f : src -> sstate) : msq :=
  mkM (init_shared f) [None] [Some (mkObj None false [] 0 None)] 0 [] [].
Definition mrun (f : src -> sstate) (h : list mop) : msq := fold_left mstep h (m_init f).
