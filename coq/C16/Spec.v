(* C16 -- specification, written from the property text (not from psutil's code).

   1. Sequential histories: a ghost machine that knows only what the kernel holds for each
      source, how deep the oneshot() nesting is, and -- while a block is open -- the value
      each source had when it was first read successfully in that block.  It says what every
      call must answer and how many times each source may be read.
   2. as_dict: the demanded result as a function of what the individual methods answer.
   3. Threads: the set of answers the property allows to a call, given the time line of the
      kernel state and of the block (values valid at some moment of the call, or read in a
      block overlapping the call after that block was entered). *)
From PV Require Export C16.Model.
Local Open Scope nat_scope.

Definition out_of (st : sstate) : outcome nat :=
  match st with SAvail v => Val v | SDenied => Exc AccessDenied | SGone => Exc NoSuchProcess end.

(* ------------------------------------------------------------------ 1. sequential ghost machine *)
Record gst := mkG {
  g_cur : src -> sstate;           (* what the kernel holds now *)
  g_depth : nat;                   (* open oneshot() blocks *)
  g_snap : src -> option nat;      (* first successful read of the source in the outermost open block *)
  g_dead : bool;                   (* the process is gone *)
  g_ok : bool }.                   (* the history is inside the domain of the claim *)

Definition no_snap : src -> option nat := fun _ => None.
Definition one (s : src) : list nat := cnt_list (fun x => if src_eqb x s then 1 else 0).
Definition zero4 : list nat := [0; 0; 0; 0].
Definition add4 (a b : list nat) : list nat :=
  match a, b with
  | [a0; a1; a2; a3], [b0; b1; b2; b3] => [a0 + b0; a1 + b1; a2 + b2; a3 + b3]
  | _, _ => a
  end.

(* answer of one method call, and the reads it may make (None: no claim when the call fails) *)
Definition sres := (outcome nat * option (list nat))%type.

Definition g_block (g : gst) (d : nat) (sn : src -> option nat) : gst :=
  mkG (g_cur g) d sn (g_dead g) (g_ok g).
Definition snap_set (g : gst) (s : src) (v : nat) : gst :=
  g_block g (g_depth g) (fun x => if src_eqb x s then Some v else g_snap g x).

(* the source the method is computed from: the block's first read if there is one, else the kernel now *)
Definition spec_primary (g : gst) (s : src) : gst * outcome nat * list nat :=
  let inb := Nat.ltb 0 (g_depth g) in
  match (if inb then g_snap g s else None) with
  | Some v => (g, Val v, zero4)                       (* the block already holds the source: no read *)
  | None =>
      match g_cur g s with
      | SAvail v => (if inb then snap_set g s v else g, Val v, one s)
      | st => (g, out_of st, one s)
      end
  end.

(* Sources: stat, status, smaps are shared by several methods and kept by the block (one read per block);
   statm is per method: memory_info() keeps its own answer for the block, memory_full_info() reads statm
   again on every call (its smaps part comes from the block). *)
Definition spec_call (g : gst) (m : meth) : gst * sres :=
  let '(g', o, c) := spec_primary g (m_src m) in
  match o with
  | Val v =>
      if meth_eqb m Mmemory_full
      then match g_cur g Statm with
           | SAvail _ => (g', (Val v, Some (add4 c (one Statm))))
           | st => (g', (out_of st, None))
           end
      else (g', (Val v, Some c))
  | _ => (g', (o, None))
  end.

(* ppid() needs no clause of its own: its PID-reuse pre-check (Process._gone, sticky) only ever turns an answer
   into NoSuchProcess once the process is gone, which is what the kernel state says anyway; inside a block the
   block's first read wins, as for every other method. *)
Definition spec_step (g : gst) (o : op) : gst * option sres :=
  match o with
  | OEnter => (g_block g (S (g_depth g)) (if Nat.eqb (g_depth g) 0 then no_snap else g_snap g), None)
  | OExit =>
      match g_depth g with
      | 0 => (g, None)
      | 1 => (g_block g 0 no_snap, None)
      | S d => (g_block g d (g_snap g), None)
      end
  | ORaise => (g_block g 0 no_snap, None)
  | OEnv (ESet s st) =>
      (* outside the claim: a source reappearing after the process is gone; a single file of a live process vanishing *)
      let ok := g_ok g && negb (g_dead g) && (match st with SGone => false | _ => true end) in
      (mkG (fun x => if src_eqb x s then st else g_cur g x) (g_depth g) (g_snap g) (g_dead g) ok, None)
  | OEnv EGone => (mkG (fun _ => SGone) (g_depth g) (g_snap g) true (g_ok g), None)
  | OCall (CM m) => let (g', r) := spec_call g m in (g', Some r)
  | OCall CPid => (g, Some (Val pidval, Some zero4))
  | OCall (CStub o) => (g, Some (o, match o with Val _ => Some zero4 | _ => None end))
  end.

Fixpoint spec_go (g : gst) (h : list op) (acc : list sres) : gst * list sres :=
  match h with
  | [] => (g, rev acc)
  | o :: r => let (g', x) := spec_step g o in
              spec_go g' r (match x with Some y => y :: acc | None => acc end)
  end.
(* a Process object exists only for a process that was there: no source starts out vanished *)
Definition init_ok (f : src -> sstate) : bool :=
  forallb (fun s => match f s with SGone => false | _ => true end) [Stat; Status; Smaps; Statm].
Definition spec_init (f : src -> sstate) : gst := mkG f 0 no_snap false (init_ok f).
Definition spec_run (f : src -> sstate) (h : list op) : option (list sres) :=
  let (g, rs) := spec_go (spec_init f) h [] in if g_ok g then Some rs else None.

(* what the harness / the theorems compare against: counts only for calls that succeeded *)
Definition proj_res (x : outcome nat * list nat) : sres :=
  (fst x, match fst x with Val _ => Some (snd x) | _ => None end).

(* ------------------------------------------------------------------ 2. as_dict *)
(* answers[i] = what the method behind the i-th requested name gives inside ONE oneshot block *)
Fixpoint spec_ad_collect (ls : list bytes) (answers : list (outcome nat)) : outcome (list (bytes * ad_val)) :=
  match ls, answers with
  | [], _ => Val []
  | n :: r, a :: ar =>
      match a with
      | Val v => do rest <- spec_ad_collect r ar; Val ((n, AVal v) :: rest)
      | Exc AccessDenied | Exc ZombieProcess => do rest <- spec_ad_collect r ar; Val ((n, ADefault) :: rest)
      | Exc NoSuchProcess => Exc NoSuchProcess
      | _ => OutOfModel              (* other exceptions (NotImplementedError ...): no claim in the property *)
      end
  | _ :: _, [] => OutOfModel
  end.

(* ------------------------------------------------------------------ 3. threads: allowed answers *)
(* A time line: kernel state before each step, and whether some thread is inside oneshot() then. *)
Record timeline := mkTl { tl_src : nat -> src -> sstate; tl_inblock : nat -> bool }.

(* start of the block interval containing t (t itself if none) *)
Fixpoint block_start (tl : timeline) (t : nat) : nat :=
  match t with
  | O => O
  | S t' => if tl_inblock tl t then (if tl_inblock tl t' then block_start tl t' else t) else t
  end.
Definition window_lo (tl : timeline) (t0 : nat) : nat := if tl_inblock tl t0 then block_start tl t0 else t0.

Fixpoint range (lo n : nat) : list nat := match n with O => [] | S n' => lo :: range (S lo) n' end.
Definition window (tl : timeline) (t0 t1 : nat) : list nat :=
  let lo := window_lo tl t0 in range lo (S t1 - lo).

Definition outcome_nat_eqb (a b : outcome nat) : bool :=
  match a, b with
  | Val x, Val y => Nat.eqb x y
  | Exc x, Exc y => String.eqb (exn_name x) (exn_name y)
  | OutOfModel, OutOfModel => true
  | _, _ => false
  end.

(* answers the property allows to a call of m that ran during steps [t0, t1] *)
Definition allowed (tl : timeline) (m : meth) (t0 t1 : nat) : list (outcome nat) :=
  let w := window tl t0 t1 in
  map (fun t => out_of (tl_src tl t (m_src m))) w
  ++ (if meth_eqb m Mmemory_full
      then flat_map (fun t => match tl_src tl t Statm with SAvail _ => [] | st => [out_of st] end) w
      else []).
Definition is_allowed (tl : timeline) (m : meth) (t0 t1 : nat) (o : outcome nat) : bool :=
  existsb (outcome_nat_eqb o) (allowed tl m t0 t1).

(* ------------------------------------------------------------------ 4. copies of a Process object *)
(* Block transparency for copies: an object answers from the kernel as it is now, unless it or an object
   that refers to the same platform object is inside a block -- then it may answer with what the source held
   at some moment since the earliest such block was entered.  (Which copies exist and what they share is the
   tree's business; an answer older than every open block is never allowed.) *)
Definition mates_lo (ms : msq) (ob : mobj) : nat :=
  fold_left (fun lo x => match x with
                         | Some y => if Nat.eqb (o_plat y) (o_plat ob)
                                     then match o_start y with Some s => Nat.min lo s | None => lo end else lo
                         | None => lo
                         end) (m_objs ms) (m_time ms).
Definition copy_allowed (ms : msq) (o : nat) (m : meth) : list (outcome nat) :=
  match nth_error (m_objs ms) o with
  | Some (Some ob) =>
      let w := srcs (m_sh ms) :: firstn (m_time ms - mates_lo ms ob) (m_tl ms) in
      map (fun f => out_of (f (m_src m))) w
      ++ (if meth_eqb m Mmemory_full
          then flat_map (fun f => match f Statm with SAvail _ => [] | st => [out_of st] end) w else [])
  | _ => []
  end.
