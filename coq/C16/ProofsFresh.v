(* C16 -- threads, all interleavings, the code now (cache dict bound once per wrapper call):
   every value held by a cache dict was read after that dict was created (theorem 7), hence
   every answer was read during the call or inside a block that overlapped it (theorem 6).
   The proof needs the lock protocol: only the thread holding Process._lock creates or
   removes dicts, and while front-level dicts are being created no reader-level dict is live. *)
From PV Require Import C16.Lib.
Local Open Scope nat_scope.

Ltac unsome H E :=
  match type of H with Some ?x = Some ?y => assert (E : x = y) by (clear - H; congruence) end.

(* ------------------------------------------------------------------ shared-state invariants *)
Definition le_born sh cid x := forall C, nth_error (heap sh) cid = Some C -> c_born C <= x.
Definition heap_ok sh := forall cid C, nth_error (heap sh) cid = Some C ->
  c_born C <= clock sh /\ forall k v, In (k, v) (c_ents C) -> c_born C <= snd v /\ snd v <= clock sh.
Definition valid sh cid := cid < length (heap sh).
Definition ptr_ok sh := (forall c, fptr sh = Some c -> valid sh c) /\ (forall c, pptr sh = Some c -> valid sh c).
(* dict fc is not younger than the live reader-level dict *)
Definition below sh fc := forall pc P, pptr sh = Some pc -> nth_error (heap sh) pc = Some P -> le_born sh fc (c_born P).
Definition front_below sh := forall fc, fptr sh = Some fc -> below sh fc.
Definition sh_ok sh := heap_ok sh /\ ptr_ok sh /\ front_below sh.

Definition ext sh sh' :=
  length (heap sh) <= length (heap sh') /\
  (forall cid C, nth_error (heap sh) cid = Some C ->
                 exists C', nth_error (heap sh') cid = Some C' /\ c_born C' = c_born C) /\
  clock sh <= clock sh' /\
  (forall pc P', pptr sh' = Some pc -> nth_error (heap sh') pc = Some P' -> pptr sh = Some pc \/ clock sh <= c_born P').

Lemma ext_refl sh : ext sh sh.
Proof. repeat split; auto. intros; eauto. Qed.

Lemma le_born_ext sh sh' cid x : ext sh sh' -> valid sh cid -> le_born sh cid x -> le_born sh' cid x.
Proof.
  intros (L & N & C & P) Hv Hl C' H'. unfold valid in Hv.
  destruct (nth_error (heap sh) cid) as [C0|] eqn:E.
  - destruct (N _ _ E) as (C1 & H1 & E1). rewrite H' in H1. inversion H1; subst. rewrite E1. apply Hl; auto.
  - apply nth_error_None in E. lia.
Qed.

Lemma valid_ext sh sh' cid : ext sh sh' -> valid sh cid -> valid sh' cid.
Proof. intros (L & _) H. unfold valid in *. lia. Qed.

Lemma le_born_clock sh cid : heap_ok sh -> le_born sh cid (clock sh).
Proof. intros H C E. destruct (H _ _ E); auto. Qed.

(* To keep [below] monotone we need the old pointer to be valid: fold ptr_ok into the statement. *)
Lemma below_ext sh sh' fc : ext sh sh' -> heap_ok sh -> ptr_ok sh -> valid sh fc -> below sh fc -> below sh' fc.
Proof.
  intros He Hh [_ Hpp] Hv Hb pc P' Hp Hn. pose proof He as (L & N & C & Pp).
  destruct (Pp _ _ Hp Hn) as [Hold|Hnew].
  - specialize (Hpp _ Hold). unfold valid in Hpp.
    destruct (nth_error (heap sh) pc) as [P0|] eqn:E; [|apply nth_error_None in E; lia].
    destruct (N _ _ E) as (C1 & H1 & E1). rewrite Hn in H1. inversion H1; subst. rewrite E1.
    eapply le_born_ext; eauto.
  - eapply le_born_ext; eauto. intros C0 H0. destruct (Hh _ _ H0). lia.
Qed.

(* ------------------------------------------------------------------ per-thread invariant *)
Definition sm_ok sh (sm : smode) :=
  match sm with MPlain => True | MStore None => False | MStore (Some c) => valid sh c end.
Definition sm_le sh (sm : smode) x := match sm with MStore (Some c) => le_born sh c x | _ => True end.
Definition sm_below sh (sm : smode) := match sm with MStore (Some c) => below sh c | _ => True end.
Definition fm_sm (fm : fmode) : smode := match fm with FNone => MPlain | FM sm => sm end.

Definition th_ok sh th :=
  match t_pc th with
  | PF1b cid => valid sh cid /\ below sh cid
  | PF2 sm => sm_ok sh sm /\ sm_below sh sm
  | PP1 fm => sm_ok sh (fm_sm fm) /\ sm_below sh (fm_sm fm)
  | PP1b fm cid => sm_ok sh (fm_sm fm) /\ valid sh cid /\
                   (forall P, nth_error (heap sh) cid = Some P -> sm_le sh (fm_sm fm) (c_born P))
  | PP2 fm pm => sm_ok sh (fm_sm fm) /\ sm_ok sh pm
  | PP3 fm pm v => sm_ok sh (fm_sm fm) /\ sm_ok sh pm /\ sm_le sh (fm_sm fm) (snd v) /\ sm_le sh pm (snd v)
                   /\ snd v <= clock sh
  | PF3 sm v => sm_ok sh sm /\ sm_le sh sm (snd v) /\ snd v <= clock sh
  | _ => True
  end.

Lemma sm_ok_ext sh sh' sm : ext sh sh' -> sm_ok sh sm -> sm_ok sh' sm.
Proof. destruct sm as [|[c|]]; simpl; auto. apply valid_ext. Qed.
Lemma sm_le_ext sh sh' sm x : ext sh sh' -> sm_ok sh sm -> sm_le sh sm x -> sm_le sh' sm x.
Proof. destruct sm as [|[c|]]; simpl; auto. intros; eapply le_born_ext; eauto. Qed.
Lemma sm_below_ext sh sh' sm : ext sh sh' -> heap_ok sh -> ptr_ok sh -> sm_ok sh sm -> sm_below sh sm -> sm_below sh' sm.
Proof. destruct sm as [|[c|]]; simpl; auto. intros; eapply below_ext; eauto. Qed.

Lemma th_ok_ext sh sh' th : ext sh sh' -> heap_ok sh -> ptr_ok sh -> th_ok sh th -> th_ok sh' th.
Proof.
  intros He Hh Hp. unfold th_ok. pose proof He as (L & N & C & Pp).
  destruct (t_pc th) as [| | |k|k|e| |cid|sm|fm|fm cid|fm pm|fm pm v|sm v]; auto.
  - intros [H1 H2]. split; [eapply valid_ext; eauto|eapply below_ext; eauto].
  - intros [H1 H2]. split; [eapply sm_ok_ext; eauto|eapply sm_below_ext; eauto].
  - intros [H1 H2]. split; [eapply sm_ok_ext; eauto|eapply sm_below_ext; eauto].
  - intros (H1 & H2 & H3). split; [eapply sm_ok_ext; eauto|]. split; [eapply valid_ext; eauto|].
    intros P' HP'. unfold valid in H2.
    destruct (nth_error (heap sh) cid) as [P0|] eqn:E; [|apply nth_error_None in E; lia].
    destruct (N _ _ E) as (C1 & HC1 & E1). rewrite HP' in HC1. inversion HC1; subst. rewrite E1.
    eapply sm_le_ext; eauto.
  - intros [H1 H2]. split; eapply sm_ok_ext; eauto.
  - intros (H1 & H2 & H3 & H4 & H5). repeat split; try (eapply sm_ok_ext; eauto); try (eapply sm_le_ext; eauto). lia.
  - intros (H1 & H2 & H3). repeat split; try (eapply sm_ok_ext; eauto); try (eapply sm_le_ext; eauto). lia.
Qed.

(* ------------------------------------------------------------------ primitives *)
Definition same_core sh sh' :=
  heap sh' = heap sh /\ fptr sh' = fptr sh /\ pptr sh' = pptr sh /\ clock sh' = clock sh.

Lemma same_core_refl sh : same_core sh sh.
Proof. repeat split. Qed.
Lemma same_core_trans a b c : same_core a b -> same_core b c -> same_core a c.
Proof. intros (A1 & A2 & A3 & A4) (B1 & B2 & B3 & B4). repeat split; congruence. Qed.

Lemma same_core_sh_ok sh sh' : same_core sh sh' -> sh_ok sh -> sh_ok sh'.
Proof.
  intros (E1 & E2 & E3 & E4) (A & [B1 B2] & C).
  unfold sh_ok, heap_ok, ptr_ok, front_below, below, le_born, valid in *. rewrite E1, E2, E3, E4. auto.
Qed.
Lemma same_core_ext sh sh' : same_core sh sh' -> ext sh sh'.
Proof.
  intros (E1 & E2 & E3 & E4). unfold ext. rewrite E1, E3, E4. repeat split; auto. intros; eauto.
Qed.
Lemma same_core_th_ok sh sh' th : same_core sh sh' -> th_ok sh th -> th_ok sh' th.
Proof.
  intros (E1 & E2 & E3 & E4). unfold th_ok, sm_ok, sm_le, sm_below, below, le_born, valid.
  rewrite E1, E3, E4. auto.
Qed.

Lemma unlock_core sh : same_core sh (unlock sh).
Proof. repeat split. Qed.
Lemma set_lock_core sh l : same_core sh (set_lock sh l).
Proof. repeat split. Qed.
Lemma apply_env_core e sh : same_core sh (apply_env e sh).
Proof. destruct e; repeat split. Qed.
Lemma set_gone_core sh b : same_core sh (set_gone sh b).
Proof. repeat split. Qed.

Lemma strip_nested_core : forall stk sh s sh', strip_nested stk sh = (s, sh') -> same_core sh sh'.
Proof.
  induction stk as [|[|] r IH]; intros sh s sh' H; simpl in H; try (inversion H; subst; apply same_core_refl).
  eapply same_core_trans; [apply unlock_core|]. eapply IH; eauto.
Qed.

(* pcs at which [load] leaves a thread *)
Definition load_pc (p : pc) : Prop :=
  match p with PDone | PAcq | PEnv _ | PF1 | PP1 FNone => True | PDel 0 => True | _ => False end.

Lemma load_core : forall ops sh th sh' th', load ops sh th = (sh', th') -> same_core sh sh' /\ load_pc (t_pc th').
Proof.
  induction ops as [|o r IH]; intros sh th sh' th' H; simpl in H.
  - inversion H; subst. split; [apply same_core_refl|simpl; auto].
  - destruct o as [| | |c|e].
    + inversion H; subst. split; [apply same_core_refl|simpl; auto].
    + destruct (t_stk th) as [|[|] s].
      * eapply IH; eauto.
      * inversion H; subst. split; [apply same_core_refl|simpl; auto].
      * apply IH in H. destruct H. split; auto.
    + destruct (strip_nested (t_stk th) sh) as [s sh1] eqn:Es. apply strip_nested_core in Es.
      destruct s as [|f s].
      * apply IH in H. destruct H. split; auto. eapply same_core_trans; eauto.
      * inversion H; subst. split; auto. simpl; auto.
    + destruct c as [m| |o].
      * inversion H; subst. split; [apply same_core_refl|]. simpl. destruct (m_front m); simpl; auto.
      * eapply IH; eauto.
      * eapply IH; eauto.
    + inversion H; subst. split; [apply same_core_refl|simpl; auto].
Qed.

Lemma load_pc_th_ok sh th : load_pc (t_pc th) -> th_ok sh th.
Proof.
  unfold th_ok. destruct (t_pc th) as [| | |k|k|e| |cid|sm|fm|fm cid|fm pm|fm pm v|sm v]; simpl; auto; try contradiction.
  destruct fm; simpl; auto; contradiction.
Qed.

Lemma finish_core sh th o sh' th' : finish sh th o = (sh', th') -> same_core sh sh' /\ load_pc (t_pc th').
Proof. unfold finish. apply load_core. Qed.

(* d[k] = v *)
Lemma setitem_ok sh cid k v sh' :
  py_setitem sh cid k v = Val sh' -> sh_ok sh -> le_born sh cid (snd v) -> snd v <= clock sh ->
  sh_ok sh' /\ ext sh sh' /\ length (heap sh') = length (heap sh) /\ pptr sh' = pptr sh /\ clock sh' = clock sh /\
  (forall c C', nth_error (heap sh') c = Some C' -> exists C, nth_error (heap sh) c = Some C /\ c_born C = c_born C').
Proof.
  unfold py_setitem. destruct (nth_error (heap sh) cid) as [C0|] eqn:E0; [|discriminate].
  intros H (A & [B1 B2] & Cf) Hle Hv. inversion H; subst; clear H.
  assert (Hb : forall c C', nth_error (upd_nth cid (fun c0 => mkCache (c_born c0) ((k, v) :: c_ents c0)) (heap sh)) c = Some C' ->
               exists C, nth_error (heap sh) c = Some C /\ c_born C = c_born C' /\
                         (forall kv, In kv (c_ents C') -> In kv (c_ents C) \/ (c = cid /\ kv = (k, v)))).
  { intros c C' H. apply nth_error_upd_nth_inv in H. destruct H as [[-> (x & Ex & ->)]|[Hne H]].
    - exists x. split; auto. split; auto. simpl. intros kv [<-|Hin]; auto.
    - exists C'. auto. }
  assert (Hf : forall c C, nth_error (heap sh) c = Some C ->
               exists C', nth_error (upd_nth cid (fun c0 => mkCache (c_born c0) ((k, v) :: c_ents c0)) (heap sh)) c = Some C'
                          /\ c_born C' = c_born C).
  { intros c C H. destruct (Nat.eq_dec cid c) as [->|Hne].
    - erewrite nth_error_upd_nth_eq; eauto. eexists; split; [reflexivity|reflexivity].
    - rewrite nth_error_upd_nth_neq; eauto. }
  split; [|split; [|split; [|split; [|split]]]]; simpl; auto.
  - split; [|split].
    + intros c C' H. simpl in H. destruct (Hb _ _ H) as (C & HC & Eb & Hents). destruct (A _ _ HC) as [A1 A2].
      simpl. split; [lia|]. intros k0 v0 Hin. destruct (Hents _ Hin) as [Hold|[-> Heq]].
      * rewrite <- Eb. apply A2 in Hold. exact Hold.
      * inversion Heq; subst. rewrite <- Eb. split; auto.
    + unfold ptr_ok, valid. simpl. rewrite upd_nth_length. split; auto.
    + intros fc Hfc pc P Hp Hn C' HC'. simpl in *.
      destruct (Hb _ _ Hn) as (P0 & HP0 & EP & _). destruct (Hb _ _ HC') as (C0' & HC0' & EC & _).
      rewrite <- EP, <- EC. eapply Cf; eauto.
  - unfold ext. simpl. rewrite upd_nth_length. repeat split; auto.
  - apply upd_nth_length.
  - intros c C' H. destruct (Hb _ _ H) as (C & HC & Eb & _). eauto.
Qed.

Lemma activate_heap l sh : heap (activate l sh) = heap sh ++ [mkCache (clock sh) []].
Proof. destruct l; reflexivity. Qed.

Lemma nth_error_snoc {A} (l : list A) x c y :
  nth_error (l ++ [x]) c = Some y -> (c < length l /\ nth_error l c = Some y) \/ (c = length l /\ y = x).
Proof.
  intros H. destruct (Nat.lt_ge_cases c (length l)) as [Hlt|Hge].
  - left. rewrite nth_error_app1 in H; auto.
  - right. rewrite nth_error_app2 in H; auto. destruct (c - length l) as [|n] eqn:E.
    + simpl in H. inversion H. split; auto. lia.
    + simpl in H. destruct n; discriminate.
Qed.

(* proc._cache = {} ; for the front level this needs that no reader-level dict is live *)
Lemma activate_ok l sh :
  sh_ok sh -> (l = Front -> pptr sh = None) ->
  sh_ok (activate l sh) /\ ext sh (activate l sh) /\ clock (activate l sh) = clock sh.
Proof.
  intros (A & [B1 B2] & Cf) Hl.
  assert (Hh : heap_ok (activate l sh)).
  { intros c C H. rewrite activate_heap in H. replace (clock (activate l sh)) with (clock sh) by (destruct l; reflexivity).
    apply nth_error_snoc in H. destruct H as [[_ H]|[_ ->]]; [exact (A _ _ H)|]. simpl. split; auto. intros ? ? []. }
  split; [|split].
  - split; [exact Hh|split].
    + unfold ptr_ok, valid. rewrite activate_heap, app_length. simpl.
      destruct l; simpl; split; intros c Hc; try (inversion Hc; subst; lia).
      * apply B2 in Hc. unfold valid in Hc. lia.
      * apply B1 in Hc. unfold valid in Hc. lia.
    + intros fc Hfc pc P Hp Hn C' HC'. rewrite activate_heap in Hn, HC'.
      apply nth_error_snoc in Hn. apply nth_error_snoc in HC'.
      destruct l; simpl in Hfc, Hp.
      * rewrite Hl in Hp; auto. discriminate.
      * inversion Hp; subst pc. destruct Hn as [[Hlt _]|[_ ->]]; [lia|]. simpl.
        destruct HC' as [[_ HC']|[_ ->]]; [apply A in HC'; tauto|simpl; auto].
  - unfold ext. rewrite activate_heap, app_length. simpl.
    replace (clock (activate l sh)) with (clock sh) by (destruct l; reflexivity).
    repeat split; try lia.
    + intros c C H. exists C. split; auto. rewrite nth_error_app1; auto. apply nth_error_Some. congruence.
    + intros pc P' Hp Hn. apply nth_error_snoc in Hn. destruct l; simpl in Hp.
      * left; auto.
      * inversion Hp; subst. destruct Hn as [[Hlt _]|[_ ->]]; [lia|]. right. simpl. auto.
  - destruct l; reflexivity.
Qed.

Lemma deactivate_ok l sh sh' :
  deactivate l sh = Val sh' -> sh_ok sh -> sh_ok sh' /\ ext sh sh' /\ clock sh' = clock sh.
Proof.
  unfold deactivate, py_delcache. intros H (A & [B1 B2] & Cf).
  destruct (ptr l sh) eqn:Ep; simpl in H; inversion H; subst; clear H.
  - destruct l; simpl.
    + split; [|split; auto].
      * split; [exact A|split].
        -- split; simpl; auto. intros c Hc; discriminate.
        -- intros fc Hfc. simpl in Hfc. discriminate.
      * unfold ext; simpl. repeat split; auto. intros; eauto.
    + split; [|split; auto].
      * split; [exact A|split].
        -- split; simpl; auto. intros c Hc; discriminate.
        -- intros fc Hfc pc P Hp. simpl in Hp. discriminate.
      * unfold ext; simpl. repeat split; auto. intros; eauto. intros pc P' Hp; discriminate.
  - split; [exact (conj A (conj (conj B1 B2) Cf))|split; [apply ext_refl|reflexivity]].
Qed.

(* ------------------------------------------------------------------ one step of one thread *)
Lemma w1_now l k sh r :
  w1 code_now l k sh = r -> (r = LMode MPlain /\ ptr l sh = None) \/ (exists cid, r = LNext cid /\ ptr l sh = Some cid).
Proof. unfold w1, py_getcache. simpl. destruct (ptr l sh); intros <-; eauto. Qed.

Lemma w1b_true cid k sh r :
  w1b true cid k sh = r ->
  (exists v C, r = LHit v cid /\ nth_error (heap sh) cid = Some C /\ In (k, v) (c_ents C))
  \/ r = LMode (MStore (Some cid)) \/ r = LErr OutOfModel.
Proof.
  unfold w1b, py_subscript. destruct (nth_error (heap sh) cid) as [C|] eqn:E; [|intros <-; auto].
  destruct (assoc k (c_ents C)) as [v|] eqn:Ea; intros <-; auto.
  left. exists v, C. repeat split; auto.
  clear - Ea. induction (c_ents C) as [|[k' v'] r IH]; simpl in *; try discriminate.
  destruct (key_eqb k k') eqn:Ek; auto. inversion Ea; subst. left. f_equal.
  destruct k, k'; simpl in Ek; try discriminate.
  - destruct f, f0; simpl in Ek; try discriminate; reflexivity.
  - destruct s, s0; simpl in Ek; try discriminate; reflexivity.
Qed.

Lemma ret_proc_ok sh th fm v sh' th' :
  ret_proc sh th fm v = (sh', th') -> sm_ok sh (fm_sm fm) -> sm_le sh (fm_sm fm) (snd v) -> snd v <= clock sh ->
  same_core sh sh' /\ th_ok sh' th'.
Proof.
  intros H H1 H2 H3. unfold ret_proc in H.
  assert (Hfin : forall th0 o, finish sh th0 o = (sh', th') -> same_core sh sh' /\ th_ok sh' th').
  { intros th0 o E. apply finish_core in E. destruct E. split; auto. apply load_pc_th_ok; auto. }
  destruct (meth_eqb (t_cur th) Mmemory_full).
  - unfold do_read in H. destruct (read_src sh Statm) as [x|e|]; simpl in H; eauto.
    destruct fm as [|[|b]]; eauto. inversion H; subst. split; [apply same_core_refl|].
    unfold th_ok; simpl. simpl in H1, H2. auto.
  - destruct fm as [|[|b]]; eauto. inversion H; subst. split; [apply same_core_refl|].
    unfold th_ok; simpl. simpl in H1, H2. auto.
Qed.

Lemma sm_le_clock sh sm : heap_ok sh -> sm_le sh sm (clock sh).
Proof. destruct sm as [|[c|]]; simpl; auto. apply le_born_clock. Qed.

(* the statement of the step lemma: shared invariants, extension, the stepping thread *)
Lemma thread_step_ok tid sh th sh' th' :
  thread_step code_now tid sh th = Some (sh', th') ->
  sh_ok sh -> th_ok sh th ->
  (forall k, t_pc th = PAct k -> k < 4 -> pptr sh = None) ->
  sh_ok sh' /\ ext sh sh' /\ th_ok sh' th' /\ clock sh' = clock sh.
Proof.
  intros H Hsh Hth Hact. pose proof Hsh as (A & [B1 B2] & Cf). unfold thread_step in H.
  assert (Hcore : forall sh1 th1, same_core sh sh1 -> load_pc (t_pc th1) ->
                  sh_ok sh1 /\ ext sh sh1 /\ th_ok sh1 th1 /\ clock sh1 = clock sh).
  { intros sh1 th1 Hc Hl. split; [eapply same_core_sh_ok; eauto|]. split; [apply same_core_ext; auto|].
    split; [apply load_pc_th_ok; auto|]. destruct Hc as (_ & _ & _ & Hc); auto. }
  assert (Hload : forall ops sh0 th0 p, same_core sh sh0 -> load ops sh0 th0 = p ->
                  sh_ok (fst p) /\ ext sh (fst p) /\ th_ok (fst p) (snd p) /\ clock (fst p) = clock sh).
  { intros ops sh0 th0 [a b] Hc E. apply load_core in E. destruct E. simpl. apply Hcore; auto.
    eapply same_core_trans; eauto. }
  assert (Hfin : forall sh0 th0 o p, same_core sh sh0 -> finish sh0 th0 o = p ->
                  sh_ok (fst p) /\ ext sh (fst p) /\ th_ok (fst p) (snd p) /\ clock (fst p) = clock sh).
  { intros sh0 th0 o p Hc E. unfold finish in E. eapply Hload; eauto. }
  assert (Hsame : forall p, th_ok sh (th_pc th p) -> sh_ok sh /\ ext sh sh /\ th_ok sh (th_pc th p) /\ clock sh = clock sh).
  { intros p Hp. split; [exact Hsh|split; [apply ext_refl|split; [exact Hp|reflexivity]]]. }
  unfold th_ok in Hth.
  destruct (t_pc th) as [| | |k|k|e| |cid|sm|fm|fm cid|fm pm|fm pm v|sm v] eqn:Epc.
  - discriminate.
  - (* PAcq *)
    destruct (lock sh) as [[o n]|].
    + destruct (Nat.eqb o tid); [|discriminate]. inversion H; subst.
      split; [eapply same_core_sh_ok; [apply set_lock_core|auto]|]. split; [apply same_core_ext, set_lock_core|].
      split; [exact I|reflexivity].
    + inversion H; subst.
      split; [eapply same_core_sh_ok; [apply set_lock_core|auto]|]. split; [apply same_core_ext, set_lock_core|].
      split; [exact I|reflexivity].
  - (* PTest *)
    destruct (fptr sh).
    + unsome H E. apply (Hload _ _ _ _ (same_core_refl sh)) in E. exact E.
    + inversion H; subst. apply Hsame. exact I.
  - (* PAct *)
    destruct (activate_ok (if Nat.ltb k 4 then Front else Proc) sh Hsh) as (S1 & S2 & S3).
    { intros Hl. destruct (Nat.ltb k 4) eqn:E4; [|discriminate]. apply Nat.ltb_lt in E4. eapply Hact; eauto. }
    destruct (Nat.ltb k 6).
    + inversion H; subst. split; [exact S1|split; [exact S2|split; [exact I|exact S3]]].
    + unsome H E. apply load_core in E. destruct E as [Hc Hl].
      split; [eapply same_core_sh_ok; eauto|]. destruct Hc as (C1 & C2 & C3 & C4).
      split; [|split; [apply load_pc_th_ok; auto|congruence]].
      destruct S2 as (X1 & X2 & X3 & X4). unfold ext. rewrite C1, C3, C4. repeat split; auto.
  - (* PDel *)
    destruct (deactivate (if Nat.ltb k 4 then Front else Proc) sh) as [sh1|e|] eqn:Ed.
    + destruct (deactivate_ok _ _ _ Ed Hsh) as (S1 & S2 & S3).
      destruct (Nat.ltb k 6).
      * inversion H; subst. split; [exact S1|split; [exact S2|split; [exact I|exact S3]]].
      * unsome H E. apply load_core in E. destruct E as [Hc Hl].
        assert (Hc' : same_core sh1 sh') by (eapply same_core_trans; [apply unlock_core|exact Hc]).
        split; [eapply same_core_sh_ok; eauto|]. destruct Hc' as (C1 & C2 & C3 & C4).
        split; [|split; [apply load_pc_th_ok; auto|congruence]].
        destruct S2 as (X1 & X2 & X3 & X4). unfold ext. rewrite C1, C3, C4. repeat split; auto.
    + unsome H E. unfold crash in E. inversion E; subst. split; [exact Hsh|split; [apply ext_refl|split; [exact I|reflexivity]]].
    + unsome H E. unfold crash in E. inversion E; subst. split; [exact Hsh|split; [apply ext_refl|split; [exact I|reflexivity]]].
  - (* PEnv *)
    unsome H E. apply (Hload _ _ _ _ (apply_env_core e sh)) in E. exact E.
  - (* PF1 *)
    destruct (m_front (t_cur th)) as [fk|].
    + unsome H E. unfold on_lookup in E.
      destruct (w1_now Front (KF fk) sh _ eq_refl) as [[Hr Hp]|(c & Hr & Hp)]; rewrite Hr in E.
      * inversion E; subst. apply Hsame. unfold th_ok; simpl. auto.
      * inversion E; subst. apply Hsame. unfold th_ok; simpl. simpl in Hp. split; [apply B1; auto|apply Cf; auto].
    + unsome H E. unfold crash in E. inversion E; subst. split; [exact Hsh|split; [apply ext_refl|split; [exact I|reflexivity]]].
  - (* PF1b *)
    destruct (m_front (t_cur th)) as [fk|].
    + unsome H E. unfold on_lookup in E. destruct Hth as [Hv Hb].
      destruct (w1b_true cid (KF fk) sh _ eq_refl) as [(v & C & Hr & _)|[Hr|Hr]]; rewrite Hr in E.
      * apply (Hfin _ _ _ _ (same_core_refl sh)) in E. exact E.
      * inversion E; subst. apply Hsame. unfold th_ok; simpl. auto.
      * apply (Hfin _ _ _ _ (same_core_refl sh)) in E. exact E.
    + unsome H E. unfold crash in E. inversion E; subst. split; [exact Hsh|split; [apply ext_refl|split; [exact I|reflexivity]]].
  - (* PF2 *)
    destruct Hth as [Hs Hb].
    destruct (if meth_eqb (t_cur th) Mppid then ident_check sh else IOk sh) as [sh1|e|] eqn:Ei.
    + assert (Hc1 : same_core sh sh1).
      { destruct (meth_eqb (t_cur th) Mppid); [|inversion Ei; apply same_core_refl].
        unfold ident_check in Ei. destruct (gone_flag sh); [discriminate|].
        destruct (srcs sh Stat); inversion Ei; subst; try apply same_core_refl. apply set_gone_core. }
      destruct (memoized (m_src (t_cur th))).
      * inversion H; subst. split; [eapply same_core_sh_ok; eauto|]. split; [apply same_core_ext; auto|].
        split; [|destruct Hc1 as (_ & _ & _ & ?); auto].
        eapply same_core_th_ok; eauto. unfold th_ok; simpl. auto.
      * unfold do_read in H. unfold read_src in H. destruct (srcs sh1 (m_src (t_cur th))) as [x| |].
        -- destruct sm as [|b].
           ++ unsome H E. apply (Hfin _ _ _ _ Hc1) in E. exact E.
           ++ inversion H; subst. split; [eapply same_core_sh_ok; eauto|]. split; [apply same_core_ext; auto|].
              split; [|destruct Hc1 as (_ & _ & _ & ?); auto].
              eapply same_core_th_ok; eauto. unfold th_ok; simpl.
              destruct Hc1 as (_ & _ & _ & Hck). rewrite Hck. split; auto. split; auto. exact (sm_le_clock sh (MStore b) A).
        -- unsome H E. apply (Hfin _ _ _ _ Hc1) in E. exact E.
        -- unsome H E. apply (Hfin _ _ _ _ Hc1) in E. exact E.
    + unsome H E. apply (Hfin _ _ _ _ (same_core_refl sh)) in E. exact E.
    + unsome H E. apply (Hfin _ _ _ _ (same_core_refl sh)) in E. exact E.
  - (* PP1 *)
    destruct Hth as [Hs Hb]. unsome H E. unfold on_lookup in E.
    destruct (w1_now Proc (KS (m_src (t_cur th))) sh _ eq_refl) as [[Hr Hp]|(c & Hr & Hp)]; rewrite Hr in E.
    + inversion E; subst. apply Hsame. unfold th_ok; simpl. auto.
    + inversion E; subst. apply Hsame. unfold th_ok; simpl. simpl in Hp. split; auto. split; [apply B2; auto|].
      intros P HP. destruct (fm_sm fm) as [|[fc|]]; simpl; auto. simpl in Hb. eapply Hb; eauto.
  - (* PP1b *)
    destruct Hth as (Hs & Hv & Hle). unsome H E. unfold on_lookup in E.
    destruct (w1b_true cid (KS (m_src (t_cur th))) sh _ eq_refl) as [(v & C & Hr & HC & Hin)|[Hr|Hr]]; rewrite Hr in E.
    + destruct (A _ _ HC) as [A1 A2]. destruct (A2 _ _ Hin) as [A3 A4].
      eapply ret_proc_ok in E; auto.
      * destruct E as [Hc Ht]. split; [eapply same_core_sh_ok; eauto|]. split; [apply same_core_ext; auto|].
        split; auto. destruct Hc as (_ & _ & _ & ?); auto.
      * specialize (Hle _ HC). destruct (fm_sm fm) as [|[fc|]]; simpl in *; auto.
        intros C0 H0. specialize (Hle _ H0). lia.
    + inversion E; subst. apply Hsame. unfold th_ok; simpl. auto.
    + apply (Hfin _ _ _ _ (same_core_refl sh)) in E. exact E.
  - (* PP2 *)
    destruct Hth as [Hs Hp]. unfold do_read, read_src in H. destruct (srcs sh (m_src (t_cur th))) as [x| |].
    + destruct pm as [|b].
      * unsome H E. eapply ret_proc_ok in E; simpl; auto; [|apply sm_le_clock; auto].
        destruct E as [Hc Ht]. split; [eapply same_core_sh_ok; eauto|]. split; [apply same_core_ext; auto|].
        split; auto. destruct Hc as (_ & _ & _ & ?); auto.
      * inversion H; subst. apply Hsame. unfold th_ok; simpl.
        split; [exact Hs|split; [exact Hp|split; [exact (sm_le_clock _ (fm_sm fm) A)|split; [exact (sm_le_clock _ (MStore b) A)|lia]]]].
    + unsome H E. apply (Hfin _ _ _ _ (same_core_refl sh)) in E. exact E.
    + unsome H E. apply (Hfin _ _ _ _ (same_core_refl sh)) in E. exact E.
  - (* PP3 *)
    destruct Hth as (Hs & Hp & Hl1 & Hl2 & Hv). unsome H E. unfold on_store in E.
    destruct pm as [|[c|]]; simpl in Hp; try contradiction.
    + simpl in E. eapply ret_proc_ok in E; auto.
      destruct E as [Hc Ht]. split; [eapply same_core_sh_ok; eauto|]. split; [apply same_core_ext; auto|].
      split; auto. destruct Hc as (_ & _ & _ & ?); auto.
    + simpl in E. destruct (py_setitem sh c (KS (m_src (t_cur th))) v) as [sh1|e|] eqn:Es.
      * destruct (setitem_ok _ _ _ _ _ Es Hsh Hl2 Hv) as (S1 & S2 & S3 & S4 & S5 & S6).
        eapply ret_proc_ok in E.
        -- destruct E as [Hc Ht]. split; [eapply same_core_sh_ok; eauto|].
           destruct Hc as (C1 & C2 & C3 & C4).
           split; [|split; [auto|congruence]].
           destruct S2 as (X1 & X2 & X3 & X4). unfold ext. rewrite C1, C3, C4. repeat split; auto.
        -- eapply sm_ok_ext; eauto.
        -- eapply sm_le_ext; eauto.
        -- lia.
      * apply (Hfin _ _ _ _ (same_core_refl sh)) in E. exact E.
      * apply (Hfin _ _ _ _ (same_core_refl sh)) in E. exact E.
  - (* PF3 *)
    destruct Hth as (Hs & Hl & Hv).
    destruct (m_front (t_cur th)) as [fk|].
    + unsome H E. unfold on_store in E.
      destruct sm as [|[c|]]; simpl in Hs; try contradiction.
      * simpl in E. apply (Hfin _ _ _ _ (same_core_refl sh)) in E. exact E.
      * simpl in E. destruct (py_setitem sh c (KF fk) v) as [sh1|e|] eqn:Es.
        -- destruct (setitem_ok _ _ _ _ _ Es Hsh Hl Hv) as (S1 & S2 & S3 & S4 & S5 & S6).
           apply finish_core in E. destruct E as [Hc Hlp].
           split; [eapply same_core_sh_ok; eauto|]. destruct Hc as (C1 & C2 & C3 & C4).
           split; [|split; [apply load_pc_th_ok; auto|congruence]].
           destruct S2 as (X1 & X2 & X3 & X4). unfold ext. rewrite C1, C3, C4. repeat split; auto.
        -- apply (Hfin _ _ _ _ (same_core_refl sh)) in E. exact E.
        -- apply (Hfin _ _ _ _ (same_core_refl sh)) in E. exact E.
    + unsome H E. unfold crash in E. inversion E; subst. split; [exact Hsh|split; [apply ext_refl|split; [exact I|reflexivity]]].
Qed.

(* ------------------------------------------------------------------ the lock protocol *)
Definition crit1 (p : pc) : nat := match p with PTest | PAct _ => 1 | _ => 0 end.
Definition hcount th := length (t_stk th) + crit1 (t_pc th).
Definition lock_ge (i : nat) sh (n : nat) := n > 0 -> exists m, lock sh = Some (i, m) /\ n <= m.
Definition pdel_ok th := forall k, t_pc th = PDel k -> t_stk th <> [].
Definition keeps (i : nat) sh sh' := forall m, lock sh = Some (i, m) -> lock sh' = None \/ exists m', lock sh' = Some (i, m').

Lemma unlock_ge i sh n : lock_ge i sh (S n) -> lock_ge i (unlock sh) n.
Proof.
  intros H Hn. destruct H as (m & E & Hm); [lia|]. unfold unlock. rewrite E. simpl.
  destruct m as [|[|m']]; try lia. exists (S m'). split; auto. lia.
Qed.
Lemma unlock_keeps i sh : keeps i sh (unlock sh).
Proof. intros m E. unfold unlock. rewrite E. simpl. destruct m as [|[|m']]; eauto. Qed.
Lemma keeps_refl i sh : keeps i sh sh.
Proof. intros m E. eauto. Qed.
Lemma strip_nested_lock i : forall stk sh s sh',
  strip_nested stk sh = (s, sh') -> lock_ge i sh (length stk) ->
  lock_ge i sh' (length s) /\ (stk = [] -> sh' = sh) /\ (forall f r, s = f :: r -> f = Real) /\
  (lock sh' = lock sh \/ exists m, lock sh = Some (i, m) /\ (lock sh' = None \/ exists m', lock sh' = Some (i, m'))).
Proof.
  induction stk as [|[|] r IH]; intros sh s sh' H Hg; simpl in H.
  - inversion H; subst. repeat split; auto. intros f r E; discriminate.
  - inversion H; subst. repeat split; auto; try discriminate. intros f r0 E; inversion E; auto.
  - apply IH in H; [|apply unlock_ge; exact Hg]. destruct H as (H1 & H2 & H3 & H4).
    split; auto. split; [discriminate|]. split; auto.
    destruct Hg as (m & E & Hm); [simpl; lia|]. right. exists m. split; auto.
    destruct H4 as [H4|(m1 & E1 & H4)].
    + rewrite H4. unfold unlock. rewrite E. simpl. destruct m as [|[|m']]; eauto.
    + exact H4.
Qed.

(* what [load] does to the lock, given that the lock covers the thread's open frames *)
Definition lock_step (i : nat) sh (n : nat) sh' th' :=
  lock_ge i sh' (hcount th') /\ pdel_ok th' /\ (n = 0 -> lock sh' = lock sh) /\
  (lock sh' = lock sh \/ exists m, lock sh = Some (i, m) /\ (lock sh' = None \/ exists m', lock sh' = Some (i, m'))).

Lemma lock_step_unlock i sh n sh' th' :
  lock_ge i sh (S n) -> lock_step i (unlock sh) n sh' th' -> lock_step i sh (S n) sh' th'.
Proof.
  intros Hg (H1 & H2 & H3 & H4). split; auto. split; auto. split; [lia|].
  destruct Hg as (m & E & Hm); [lia|]. right. exists m. split; auto.
  assert (Hu : lock (unlock sh) = None \/ exists m', lock (unlock sh) = Some (i, m')).
  { unfold unlock. rewrite E. simpl. destruct m as [|[|m']]; eauto. }
  destruct H4 as [H4|(m1 & E1 & H4)]; [rewrite H4; exact Hu|exact H4].
Qed.

Lemma load_lock i : forall ops sh th sh' th',
  load ops sh th = (sh', th') -> lock_ge i sh (length (t_stk th)) -> lock_step i sh (length (t_stk th)) sh' th'.
Proof.
  induction ops as [|o r IH]; intros sh th sh' th' H Hg; simpl in H.
  - inversion H; subst. unfold lock_step, hcount, pdel_ok; simpl. rewrite Nat.add_0_r. repeat split; auto; discriminate.
  - destruct o as [| | |c|e].
    + inversion H; subst. unfold lock_step, hcount, pdel_ok; simpl. rewrite Nat.add_0_r. repeat split; auto; discriminate.
    + destruct (t_stk th) as [|[|] s] eqn:Es.
      * apply IH in H; rewrite Es in *; auto.
      * inversion H; subst. unfold lock_step, hcount, pdel_ok; simpl. rewrite Es, Nat.add_0_r.
        repeat split; auto; try discriminate.
      * simpl in Hg. apply IH in H; simpl; [|apply unlock_ge; exact Hg]. simpl in H.
        apply lock_step_unlock; auto.
    + destruct (strip_nested (t_stk th) sh) as [s sh1] eqn:Es.
      destruct (strip_nested_lock i _ _ _ _ Es Hg) as (S1 & S2 & S3 & S4).
      destruct s as [|f s].
      * apply IH in H; simpl; [|exact S1]. simpl in H. destruct H as (H1 & H2 & H3 & H4).
        split; auto. split; auto. split.
        -- intros Hz. destruct (t_stk th); [|discriminate]. rewrite (S2 eq_refl) in *. auto.
        -- destruct S4 as [S4|(m & E & S4)].
           ++ destruct H4 as [H4|(m & E & H4)]; [left; congruence|right; exists m; rewrite <- S4; auto].
           ++ right. exists m. split; auto. destruct H4 as [H4|(m1 & E1 & H4)]; [rewrite H4; auto|auto].
      * inversion H; subst. rewrite (S3 _ _ eq_refl) in *.
        unfold lock_step, hcount, pdel_ok; simpl. rewrite Nat.add_0_r. split; [exact S1|]. split; [discriminate|].
        split; auto. intros Hz. destruct (t_stk th); [|discriminate]. rewrite (S2 eq_refl). auto.
    + destruct c as [m| |o].
      * inversion H; subst. unfold lock_step, hcount, pdel_ok; simpl.
        assert (crit1 (match m_front m with Some _ => PF1 | None => PP1 FNone end) = 0) by (destruct (m_front m); auto).
        rewrite H0, Nat.add_0_r. repeat split; auto. destruct (m_front m); discriminate.
      * apply IH in H; auto.
      * apply IH in H; auto.
    + inversion H; subst. unfold lock_step, hcount, pdel_ok; simpl. rewrite Nat.add_0_r. repeat split; auto; discriminate.
Qed.

(* pc-only steps of a call *)
Lemma pc_only_lock i sh th p :
  crit1 p = 0 -> (forall k, p <> PDel k) -> lock_ge i sh (length (t_stk th)) ->
  lock_step i sh (length (t_stk th)) sh (th_pc th p).
Proof.
  intros Hc Hd Hg. unfold lock_step, hcount, pdel_ok; simpl. rewrite Hc, Nat.add_0_r.
  repeat split; auto. intros k E. exfalso. eapply Hd; eauto.
Qed.

Lemma lock_step_transport i sh0 sh n sh' th' :
  lock sh0 = lock sh -> lock_step i sh0 n sh' th' -> lock_step i sh n sh' th'.
Proof. intros El H. unfold lock_step in *. rewrite El in H. exact H. Qed.
Lemma lock_ge_transport i sh0 sh n : lock sh0 = lock sh -> lock_ge i sh n -> lock_ge i sh0 n.
Proof. intros El H. unfold lock_ge in *. rewrite El. exact H. Qed.

Definition lk i sh th (p : shared * thread) := lock_step i sh (length (t_stk th)) (fst p) (snd p).

Lemma finish_lock i sh0 sh th0 th o :
  lock sh0 = lock sh -> t_stk th0 = t_stk th -> lock_ge i sh (length (t_stk th)) -> lk i sh th (finish sh0 th0 o).
Proof.
  intros El Es Hg. unfold lk, finish. destruct (load (t_ops th0) sh0 (push_res th0 (mk_result sh0 th0 o))) as [a b] eqn:E.
  apply (load_lock i) in E; simpl.
  - simpl in E. rewrite Es in E. simpl. eapply lock_step_transport; eauto.
  - rewrite Es. eapply lock_ge_transport; eauto.
Qed.

Lemma ret_proc_lock i sh0 sh th0 th fm v :
  lock sh0 = lock sh -> t_stk th0 = t_stk th -> lock_ge i sh (length (t_stk th)) -> lk i sh th (ret_proc sh0 th0 fm v).
Proof.
  intros El Es Hg. unfold ret_proc.
  assert (Hpc : forall th1 sm v', t_stk th1 = t_stk th -> lk i sh th (sh0, th_pc th1 (PF3 sm v'))).
  { intros th1 sm v' E1. unfold lk; simpl. rewrite <- E1. apply lock_step_transport with sh0; auto.
    apply pc_only_lock; [reflexivity|discriminate|]. rewrite E1. eapply lock_ge_transport; eauto. }
  destruct (meth_eqb (t_cur th0) Mmemory_full).
  - unfold do_read. destruct (read_src sh0 Statm) as [x|e|]; simpl;
      try (apply finish_lock; auto).
    destruct fm as [|[|b]]; try (apply finish_lock; auto). apply Hpc; auto.
  - destruct fm as [|[|b]]; try (apply finish_lock; auto). apply Hpc; auto.
Qed.

Lemma deactivate_val l sh : exists sh1, deactivate l sh = Val sh1 /\ lock sh1 = lock sh /\
  ptr l sh1 = None /\ (forall l', l' <> l -> ptr l' sh1 = ptr l' sh).
Proof.
  unfold deactivate, py_delcache. destruct (ptr l sh) eqn:E; simpl.
  - eexists; split; [reflexivity|]. destruct l; simpl; repeat split; auto; intros [|] Hn; try congruence; reflexivity.
  - exists sh. repeat split; auto.
Qed.

Lemma thread_step_lock vr tid sh th sh' th' :
  thread_step vr tid sh th = Some (sh', th') ->
  lock_ge tid sh (hcount th) -> pdel_ok th ->
  lock_ge tid sh' (hcount th') /\ pdel_ok th' /\
  (hcount th = 0 -> t_pc th <> PAcq -> lock sh' = lock sh) /\
  (t_pc th = PAcq -> (lock sh = None \/ exists n, lock sh = Some (tid, n)) /\ exists m, lock sh' = Some (tid, m)) /\
  (forall m, lock sh = Some (tid, m) -> lock sh' = None \/ exists m', lock sh' = Some (tid, m')).
Proof.
  intros H Hg Hd. unfold thread_step in H.
  (* every call step ends in one of the helpers below, with lock and frames untouched *)
  assert (Hlk : forall p, (forall k, t_pc th <> PDel k) -> crit1 (t_pc th) = 0 -> t_pc th <> PAcq ->
                 lk tid sh th p -> Some p = Some (sh', th') ->
    lock_ge tid sh' (hcount th') /\ pdel_ok th' /\
    (hcount th = 0 -> t_pc th <> PAcq -> lock sh' = lock sh) /\
    (t_pc th = PAcq -> (lock sh = None \/ exists n, lock sh = Some (tid, n)) /\ exists m, lock sh' = Some (tid, m)) /\
    (forall m, lock sh = Some (tid, m) -> lock sh' = None \/ exists m', lock sh' = Some (tid, m'))).
  { intros p _ Hc Hna (L1 & L2 & L3 & L4) E. inversion E; subst p; simpl in *.
    split; auto. split; auto. split.
    - intros Hz _. apply L3. unfold hcount in Hz. lia.
    - split; [intros; contradiction|]. intros m Em. destruct L4 as [L4|(m1 & E1 & L4)].
      + right. exists m. congruence.
      + rewrite Em in E1. inversion E1; subst. exact L4. }
  assert (Hg0 : crit1 (t_pc th) = 0 -> lock_ge tid sh (length (t_stk th))).
  { intros Hc. unfold hcount in Hg. rewrite Hc, Nat.add_0_r in Hg. exact Hg. }
  destruct (t_pc th) as [| | |k|k|e| |cid|sm|fm|fm cid|fm pm|fm pm v|sm v] eqn:Epc.
  - discriminate.
  - (* PAcq *)
    unfold hcount in *. rewrite Epc in *. simpl in *. rewrite Nat.add_0_r in Hg.
    destruct (lock sh) as [[o n]|] eqn:El.
    + destruct (Nat.eqb o tid) eqn:Eo; [|discriminate]. apply Nat.eqb_eq in Eo. subst o.
      inversion H; subst. simpl. split.
      * intros _. exists (S n). split; auto. destruct (Nat.eq_dec (length (t_stk th)) 0) as [Hz|Hz]; [lia|].
        destruct Hg as (m & Em & Hm); [lia|]. rewrite El in Em. inversion Em; subst. lia.
      * split; [intros k Hk; discriminate|]. split; [intros _ Hn; congruence|]. split; [intros _; split; eauto|]. intros m Em. eauto.
    + inversion H; subst. simpl. split.
      * intros _. exists 1. split; auto. destruct (Nat.eq_dec (length (t_stk th)) 0) as [Hz|Hz]; [lia|].
        destruct Hg as (m & Em & Hm); [lia|]. rewrite El in Em. discriminate.
      * split; [intros k Hk; discriminate|]. split; [intros _ Hn; congruence|]. split; [intros _; split; eauto|]. intros m Em; discriminate.
  - (* PTest *)
    unfold hcount in Hg. rewrite Epc in Hg. simpl in Hg.
    destruct (fptr sh).
    + unsome H E. apply (load_lock tid) in E; simpl; [|rewrite Nat.add_1_r in Hg; exact Hg].
      simpl in E. destruct E as (L1 & L2 & L3 & L4). split; auto. split; auto.
      split; [unfold hcount; rewrite Epc; simpl; lia|]. split; [discriminate|].
      intros m Em. destruct L4 as [L4|(m1 & E1 & L4)]; [right; exists m; congruence|].
      rewrite Em in E1. inversion E1; subst. exact L4.
    + inversion H; subst. unfold hcount; simpl. split; [exact Hg|]. split; [intros k Hk; discriminate|].
      split; [rewrite Epc; simpl; lia|]. split; [discriminate|]. intros m Em; eauto.
  - (* PAct *)
    unfold hcount in Hg. rewrite Epc in Hg. simpl in Hg.
    assert (El : lock (activate (if Nat.ltb k 4 then Front else Proc) sh) = lock sh) by (destruct (Nat.ltb k 4); reflexivity).
    destruct (Nat.ltb k 6).
    + inversion H; subst. unfold hcount; simpl. unfold lock_ge. rewrite El.
      split; [exact Hg|]. split; [intros k0 Hk; discriminate|]. split; [rewrite Epc; simpl; lia|].
      split; [discriminate|]. intros m Em; eauto.
    + unsome H E. apply (load_lock tid) in E; simpl; [|unfold lock_ge; rewrite El; rewrite Nat.add_1_r in Hg; exact Hg].
      simpl in E. destruct E as (L1 & L2 & L3 & L4). rewrite El in *. split; auto. split; auto.
      split; [unfold hcount; rewrite Epc; simpl; lia|]. split; [discriminate|].
      intros m Em. destruct L4 as [L4|(m1 & E1 & L4)]; [right; exists m; congruence|].
      rewrite Em in E1. inversion E1; subst. exact L4.
  - (* PDel *)
    unfold hcount in Hg. rewrite Epc in Hg. simpl in Hg. rewrite Nat.add_0_r in Hg.
    destruct (deactivate_val (if Nat.ltb k 4 then Front else Proc) sh) as (sh1 & Ed & El & _). rewrite Ed in H.
    assert (Hne : t_stk th <> []) by (eapply Hd; eauto).
    destruct (Nat.ltb k 6).
    + inversion H; subst. unfold hcount; simpl. rewrite Nat.add_0_r. unfold lock_ge. rewrite El.
      split; [exact Hg|]. split; [intros k0 Hk; exact Hne|]. split; [intros Hz; rewrite Epc in Hz; simpl in Hz; destruct (t_stk th); [congruence|simpl in Hz; lia]|].
      split; [discriminate|]. intros m Em; eauto.
    + unsome H E. destruct (t_stk th) as [|f s] eqn:Es; [congruence|]. simpl in E, Hg.
      assert (Hg1 : lock_ge tid sh1 (S (length s))) by (unfold lock_ge in *; rewrite El; exact Hg).
      apply (load_lock tid) in E; simpl; [|apply unlock_ge; exact Hg1].
      simpl in E. apply lock_step_unlock in E; auto. destruct E as (L1 & L2 & L3 & L4). rewrite El in *.
      split; auto. split; auto. split; [unfold hcount; rewrite Epc, Es; simpl; lia|]. split; [discriminate|].
      intros m Em. destruct L4 as [L4|(m1 & E1 & L4)]; [right; exists m; congruence|].
      rewrite Em in E1. inversion E1; subst. exact L4.
  - (* PEnv *)
    eapply Hlk; [discriminate|reflexivity|discriminate| |exact H].
    unfold lk. destruct (load (t_ops th) (apply_env e sh) th) as [a b] eqn:E.
    assert (El : lock (apply_env e sh) = lock sh) by (destruct e; reflexivity).
    apply (load_lock tid) in E; [|eapply lock_ge_transport; eauto].
    simpl. eapply lock_step_transport; eauto.
  - (* PF1 *)
    specialize (Hg0 eq_refl).
    destruct (m_front (t_cur th)) as [fk|]; (eapply Hlk; [discriminate|reflexivity|discriminate| |exact H]).
    + unfold on_lookup. destruct (w1 vr Front (KF fk) sh).
      * apply finish_lock; auto.
      * apply pc_only_lock; auto; discriminate.
      * apply pc_only_lock; auto; discriminate.
      * apply finish_lock; auto.
    + unfold crash, lk; simpl. unfold lock_step, hcount, pdel_ok; simpl. rewrite Nat.add_0_r. repeat split; auto; discriminate.
  - (* PF1b *)
    specialize (Hg0 eq_refl).
    destruct (m_front (t_cur th)) as [fk|]; (eapply Hlk; [discriminate|reflexivity|discriminate| |exact H]).
    + unfold on_lookup. destruct (w1b true cid (KF fk) sh).
      * apply finish_lock; auto.
      * apply pc_only_lock; auto; discriminate.
      * apply pc_only_lock; auto; discriminate.
      * apply finish_lock; auto.
    + unfold crash, lk; simpl. unfold lock_step, hcount, pdel_ok; simpl. rewrite Nat.add_0_r. repeat split; auto; discriminate.
  - (* PF2 *)
    specialize (Hg0 eq_refl).
    destruct (if meth_eqb (t_cur th) Mppid then ident_check sh else IOk sh) as [sh1|e|] eqn:Ei.
    + assert (El : lock sh1 = lock sh).
      { destruct (meth_eqb (t_cur th) Mppid); [|inversion Ei; auto].
        unfold ident_check in Ei. destruct (gone_flag sh); [discriminate|]. destruct (srcs sh Stat); inversion Ei; auto. }
      assert (Hpc : forall th1 p, t_stk th1 = t_stk th -> crit1 p = 0 -> (forall k, p <> PDel k) -> lk tid sh th (sh1, th_pc th1 p)).
      { intros th1 p E1 Hc Hk. unfold lk; simpl. rewrite <- E1. apply lock_step_transport with sh1; auto.
        apply pc_only_lock; auto. rewrite E1. eapply lock_ge_transport; eauto. }
      destruct (memoized (m_src (t_cur th))).
      * eapply Hlk; [discriminate|reflexivity|discriminate| |exact H]. apply Hpc; auto; discriminate.
      * unfold do_read in H. destruct (read_src sh1 (m_src (t_cur th))) as [x|e|].
        -- destruct sm; (eapply Hlk; [discriminate|reflexivity|discriminate| |exact H]);
             [apply finish_lock; auto|apply Hpc; auto; discriminate].
        -- eapply Hlk; [discriminate|reflexivity|discriminate| |exact H]. apply finish_lock; auto.
        -- eapply Hlk; [discriminate|reflexivity|discriminate| |exact H]. apply finish_lock; auto.
    + eapply Hlk; [discriminate|reflexivity|discriminate| |exact H]. apply finish_lock; auto.
    + eapply Hlk; [discriminate|reflexivity|discriminate| |exact H]. apply finish_lock; auto.
  - (* PP1 *)
    eapply Hlk; [discriminate|reflexivity|discriminate| |exact H]. specialize (Hg0 eq_refl).
    unfold on_lookup. destruct (w1 vr Proc (KS (m_src (t_cur th))) sh).
    + apply ret_proc_lock; auto.
    + apply pc_only_lock; auto; discriminate.
    + apply pc_only_lock; auto; discriminate.
    + apply finish_lock; auto.
  - (* PP1b *)
    eapply Hlk; [discriminate|reflexivity|discriminate| |exact H]. specialize (Hg0 eq_refl).
    unfold on_lookup. destruct (w1b true cid (KS (m_src (t_cur th))) sh).
    + apply ret_proc_lock; auto.
    + apply pc_only_lock; auto; discriminate.
    + apply pc_only_lock; auto; discriminate.
    + apply finish_lock; auto.
  - (* PP2 *)
    specialize (Hg0 eq_refl). unfold do_read in H.
    destruct (read_src sh (m_src (t_cur th))) as [x|e|].
    + destruct pm; (eapply Hlk; [discriminate|reflexivity|discriminate| |exact H]).
      * apply ret_proc_lock; auto.
      * assert (X := pc_only_lock tid sh (th_count th (m_src (t_cur th))) (PP3 fm (MStore b) x) eq_refl).
        apply X; auto; discriminate.
    + eapply Hlk; [discriminate|reflexivity|discriminate| |exact H]. apply finish_lock; auto.
    + eapply Hlk; [discriminate|reflexivity|discriminate| |exact H]. apply finish_lock; auto.
  - (* PP3 *)
    eapply Hlk; [discriminate|reflexivity|discriminate| |exact H]. specialize (Hg0 eq_refl).
    unfold on_store.
    assert (Hw : forall sh1, w3 vr Proc (KS (m_src (t_cur th))) pm v sh = Val sh1 -> lock sh1 = lock sh).
    { unfold w3, py_getcache, py_setitem. intros sh1.
      destruct pm as [|[c|]]; [intros E; inversion E; auto| |].
      - destruct (nth_error (heap sh) c); intros E; inversion E; auto.
      - destruct (ptr Proc sh) as [c|]; simpl.
        + destruct (nth_error (heap sh) c); intros E; inversion E; auto.
        + destruct (handle_l3 vr); intros E; inversion E; auto. }
    destruct (w3 vr Proc (KS (m_src (t_cur th))) pm v sh) as [sh1|e|] eqn:Ew.
    + apply ret_proc_lock; auto.
    + apply finish_lock; auto.
    + apply finish_lock; auto.
  - (* PF3 *)
    specialize (Hg0 eq_refl).
    destruct (m_front (t_cur th)) as [fk|]; (eapply Hlk; [discriminate|reflexivity|discriminate| |exact H]).
    + unfold on_store.
      assert (Hw : forall sh1, w3 vr Front (KF fk) sm v sh = Val sh1 -> lock sh1 = lock sh).
      { unfold w3, py_getcache, py_setitem. intros sh1.
        destruct sm as [|[c|]]; [intros E; inversion E; auto| |].
        - destruct (nth_error (heap sh) c); intros E; inversion E; auto.
        - destruct (ptr Front sh) as [c|]; simpl.
          + destruct (nth_error (heap sh) c); intros E; inversion E; auto.
          + destruct (handle_l3 vr); intros E; inversion E; auto. }
      destruct (w3 vr Front (KF fk) sm v sh) as [sh1|e|] eqn:Ew.
      * apply finish_lock; auto.
      * apply finish_lock; auto.
      * apply finish_lock; auto.
    + unfold crash, lk; simpl. unfold lock_step, hcount, pdel_ok; simpl. rewrite Nat.add_0_r. repeat split; auto; discriminate.
Qed.

(* ------------------------------------------------------------------ what a step does to the two pointers *)
Definition noact (p : pc) := forall k, p <> PAct k.
Lemma load_pc_noact p : load_pc p -> noact p.
Proof. intros H k E. subst. exact H. Qed.

Definition same_ptrs sh sh' := fptr sh' = fptr sh /\ pptr sh' = pptr sh.
Lemma core_ptrs sh sh' : same_core sh sh' -> same_ptrs sh sh'.
Proof. intros (_ & A & B & _). split; auto. Qed.

Lemma w3_ptrs vr l k sm v sh sh1 : w3 vr l k sm v sh = Val sh1 -> same_ptrs sh sh1.
Proof.
  unfold w3, py_getcache, py_setitem.
  destruct sm as [|[c|]]; [intros E; inversion E; split; auto| |].
  - destruct (nth_error (heap sh) c); intros E; inversion E; split; auto.
  - destruct (ptr l sh) as [c|]; simpl.
    + destruct (nth_error (heap sh) c); intros E; inversion E; split; auto.
    + destruct (handle_l3 vr); intros E; inversion E; split; auto.
Qed.

Lemma finish_ptrs sh th o sh' th' : finish sh th o = (sh', th') -> same_ptrs sh sh' /\ noact (t_pc th').
Proof. intros H. apply finish_core in H. destruct H. split; [apply core_ptrs; auto|apply load_pc_noact; auto]. Qed.

Lemma ret_proc_ptrs sh th fm v sh' th' : ret_proc sh th fm v = (sh', th') -> same_ptrs sh sh' /\ noact (t_pc th').
Proof.
  unfold ret_proc. intros H.
  destruct (meth_eqb (t_cur th) Mmemory_full).
  - unfold do_read in H. destruct (read_src sh Statm) as [x|e|]; simpl in H; try solve [eapply finish_ptrs; eauto].
    destruct fm as [|[|b]]; try solve [eapply finish_ptrs; eauto]. inversion H; subst. split; [split; auto|intros k E; discriminate].
  - destruct fm as [|[|b]]; try solve [eapply finish_ptrs; eauto]. inversion H; subst. split; [split; auto|intros k E; discriminate].
Qed.

Lemma ptrs_gen vr tid sh th sh' th' :
  thread_step vr tid sh th = Some (sh', th') ->
  noact (t_pc th) -> (forall k, t_pc th <> PDel k) -> t_pc th <> PTest ->
  same_ptrs sh sh' /\ noact (t_pc th').
Proof.
  intros H Ha Hd Ht. unfold thread_step in H.
  assert (Hid : forall p, noact p -> same_ptrs sh sh /\ noact (t_pc (th_pc th p))).
  { intros p Hp. split; [split; auto|exact Hp]. }
  destruct (t_pc th) as [| | |k|k|e| |cid|sm|fm|fm cid|fm pm|fm pm v|sm v] eqn:Epc.
  - discriminate.
  - destruct (lock sh) as [[o n]|].
    + destruct (Nat.eqb o tid); [|discriminate]. inversion H; subst. split; [split; auto|intros k E; discriminate].
    + inversion H; subst. split; [split; auto|intros k E; discriminate].
  - congruence.
  - exfalso. eapply Ha; eauto.
  - exfalso. eapply Hd; eauto.
  - unsome H E. apply load_core in E. destruct E as [Hc Hl]. split; [|apply load_pc_noact; auto].
    apply core_ptrs. eapply same_core_trans; [apply apply_env_core|exact Hc].
  - destruct (m_front (t_cur th)) as [fk|]; unsome H E.
    + unfold on_lookup in E. destruct (w1 vr Front (KF fk) sh).
      * eapply finish_ptrs; eauto.
      * inversion E; subst. apply Hid. intros k X; discriminate.
      * inversion E; subst. apply Hid. intros k X; discriminate.
      * eapply finish_ptrs; eauto.
    + unfold crash in E. inversion E; subst. split; [split; auto|intros k X; discriminate].
  - destruct (m_front (t_cur th)) as [fk|]; unsome H E.
    + unfold on_lookup in E. destruct (w1b true cid (KF fk) sh).
      * eapply finish_ptrs; eauto.
      * inversion E; subst. apply Hid. intros k X; discriminate.
      * inversion E; subst. apply Hid. intros k X; discriminate.
      * eapply finish_ptrs; eauto.
    + unfold crash in E. inversion E; subst. split; [split; auto|intros k X; discriminate].
  - destruct (if meth_eqb (t_cur th) Mppid then ident_check sh else IOk sh) as [sh1|e|] eqn:Ei.
    + assert (Hc1 : same_ptrs sh sh1).
      { destruct (meth_eqb (t_cur th) Mppid); [|inversion Ei; split; auto].
        unfold ident_check in Ei. destruct (gone_flag sh); [discriminate|].
        destruct (srcs sh Stat); inversion Ei; subst; split; auto. }
      assert (Htr : forall sh2 th2, same_ptrs sh1 sh2 /\ noact (t_pc th2) -> same_ptrs sh sh2 /\ noact (t_pc th2)).
      { intros sh2 th2 [[X1 X2] X3]. destruct Hc1 as [Y1 Y2]. split; [split; congruence|auto]. }
      destruct (memoized (m_src (t_cur th))).
      * inversion H; subst. split; [exact Hc1|intros k X; discriminate].
      * unfold do_read in H. destruct (read_src sh1 (m_src (t_cur th))) as [x|e|].
        -- destruct sm; unsome H E.
           ++ apply Htr. eapply finish_ptrs; eauto.
           ++ inversion E; subst. split; [exact Hc1|intros k X; discriminate].
        -- unsome H E. apply Htr. eapply finish_ptrs; eauto.
        -- unsome H E. apply Htr. eapply finish_ptrs; eauto.
    + unsome H E. eapply finish_ptrs; eauto.
    + unsome H E. eapply finish_ptrs; eauto.
  - unsome H E. unfold on_lookup in E. destruct (w1 vr Proc (KS (m_src (t_cur th))) sh).
    + eapply ret_proc_ptrs; eauto.
    + inversion E; subst. apply Hid. intros k X; discriminate.
    + inversion E; subst. apply Hid. intros k X; discriminate.
    + eapply finish_ptrs; eauto.
  - unsome H E. unfold on_lookup in E. destruct (w1b true cid (KS (m_src (t_cur th))) sh).
    + eapply ret_proc_ptrs; eauto.
    + inversion E; subst. apply Hid. intros k X; discriminate.
    + inversion E; subst. apply Hid. intros k X; discriminate.
    + eapply finish_ptrs; eauto.
  - unfold do_read in H. destruct (read_src sh (m_src (t_cur th))) as [x|e|].
    + destruct pm; unsome H E.
      * eapply ret_proc_ptrs; eauto.
      * inversion E; subst. split; [split; auto|intros k X; discriminate].
    + unsome H E. eapply finish_ptrs; eauto.
    + unsome H E. eapply finish_ptrs; eauto.
  - unsome H E. unfold on_store in E.
    destruct (w3 vr Proc (KS (m_src (t_cur th))) pm v sh) as [sh1|e|] eqn:Ew.
    + apply w3_ptrs in Ew. apply ret_proc_ptrs in E. destruct E as [[X1 X2] X3]. destruct Ew as [Y1 Y2].
      split; [split; congruence|auto].
    + eapply finish_ptrs; eauto.
    + eapply finish_ptrs; eauto.
  - destruct (m_front (t_cur th)) as [fk|]; unsome H E.
    + unfold on_store in E. destruct (w3 vr Front (KF fk) sm v sh) as [sh1|e|] eqn:Ew.
      * apply w3_ptrs in Ew. apply finish_ptrs in E. destruct E as [[X1 X2] X3]. destruct Ew as [Y1 Y2].
        split; [split; congruence|auto].
      * eapply finish_ptrs; eauto.
      * eapply finish_ptrs; eauto.
    + unfold crash in E. inversion E; subst. split; [split; auto|intros k X; discriminate].
Qed.

Lemma ptrs_test vr tid sh th sh' th' :
  thread_step vr tid sh th = Some (sh', th') -> t_pc th = PTest ->
  same_ptrs sh sh' /\ ((fptr sh = None /\ t_pc th' = PAct 0) \/ (fptr sh <> None /\ noact (t_pc th'))).
Proof.
  intros H Epc. unfold thread_step in H. rewrite Epc in H. destruct (fptr sh) eqn:Ef.
  - unsome H E. apply load_core in E. destruct E as [Hc Hl]. split; [apply core_ptrs; auto|].
    right. split; [discriminate|apply load_pc_noact; auto].
  - inversion H; subst. split; [split; auto|]. left. auto.
Qed.

Lemma ptrs_act vr tid sh th sh' th' k :
  thread_step vr tid sh th = Some (sh', th') -> t_pc th = PAct k ->
  (k < 4 -> fptr sh' <> None /\ pptr sh' = pptr sh) /\ (4 <= k -> fptr sh' = fptr sh /\ pptr sh' <> None) /\
  (k < 6 -> t_pc th' = PAct (S k)) /\ (6 <= k -> noact (t_pc th')).
Proof.
  intros H Epc. unfold thread_step in H. rewrite Epc in H.
  assert (Hp : forall sh1, same_core (activate (if Nat.ltb k 4 then Front else Proc) sh) sh1 ->
               (k < 4 -> fptr sh1 <> None /\ pptr sh1 = pptr sh) /\ (4 <= k -> fptr sh1 = fptr sh /\ pptr sh1 <> None)).
  { intros sh1 (_ & C2 & C3 & _). rewrite C2, C3. destruct (Nat.ltb k 4) eqn:E4.
    - apply Nat.ltb_lt in E4. split; [|lia]. intros _. simpl. split; [discriminate|auto].
    - apply Nat.ltb_ge in E4. split; [lia|]. intros _. simpl. split; [auto|discriminate]. }
  destruct (Nat.ltb k 6) eqn:E6.
  - apply Nat.ltb_lt in E6. inversion H; subst. destruct (Hp _ (same_core_refl _)) as [P1 P2].
    repeat split; try apply P1; try apply P2; auto; lia.
  - apply Nat.ltb_ge in E6. unsome H E. apply load_core in E. destruct E as [Hc Hl].
    destruct (Hp _ Hc) as [P1 P2]. split; auto. split; auto. split; [lia|]. intros _. apply load_pc_noact; auto.
Qed.

Lemma ptrs_del vr tid sh th sh' th' k :
  thread_step vr tid sh th = Some (sh', th') -> t_pc th = PDel k ->
  (k < 6 -> t_pc th' = PDel (S k)) /\ (6 <= k -> pptr sh' = None /\ noact (t_pc th')).
Proof.
  intros H Epc. unfold thread_step in H. rewrite Epc in H.
  destruct (deactivate_val (if Nat.ltb k 4 then Front else Proc) sh) as (sh1 & Ed & _ & Hn & _). rewrite Ed in H.
  destruct (Nat.ltb k 6) eqn:E6.
  - apply Nat.ltb_lt in E6. inversion H; subst. split; [auto|lia].
  - apply Nat.ltb_ge in E6. unsome H E. apply load_core in E. destruct E as [(_ & _ & C3 & _) Hl].
    split; [lia|]. intros _. split; [|apply load_pc_noact; auto].
    rewrite C3. simpl. assert (Nat.ltb k 4 = false) by (apply Nat.ltb_ge; lia). rewrite H0 in Hn. exact Hn.
Qed.

(* ------------------------------------------------------------------ the global invariant *)
Definition phi sh := fptr sh = None -> pptr sh = None.
Definition phase_ok sh (o : option pc) :=
  match o with
  | Some (PAct k) => (k < 4 -> pptr sh = None) /\ (1 <= k -> fptr sh <> None)
  | Some (PDel _) => True
  | _ => phi sh
  end.
Definition owner_pc (c : cfg) : option pc :=
  match lock (c_sh c) with Some (i, _) => option_map t_pc (nth_error (c_ths c) i) | None => None end.

Lemma phase_gen sh p : noact p -> phi sh -> phase_ok sh (Some p).
Proof. intros Hn Hp. destruct p; simpl; auto. exfalso. eapply Hn; eauto. Qed.
Lemma phase_ptrs sh sh' o : same_ptrs sh sh' -> phase_ok sh o -> phase_ok sh' o.
Proof. intros [E1 E2]. unfold phase_ok, phi. rewrite E1, E2. auto. Qed.

Definition Inv (c : cfg) :=
  sh_ok (c_sh c) /\
  (forall i th, nth_error (c_ths c) i = Some th ->
                th_ok (c_sh c) th /\ lock_ge i (c_sh c) (hcount th) /\ pdel_ok th) /\
  phase_ok (c_sh c) (owner_pc c).

Lemma tick_sh_ok sh : sh_ok sh -> sh_ok (tick sh).
Proof.
  intros (A & B & C). split; [|split; [exact B|exact C]].
  intros cid X H. destruct (A _ _ H) as [A1 A2]. simpl. split; [lia|]. intros k v Hin. destruct (A2 _ _ Hin). simpl. lia.
Qed.
Lemma tick_ext sh : ext sh (tick sh).
Proof. unfold ext; simpl. repeat split; auto. intros; eauto. Qed.

Lemma generic_pc th : hcount th = 0 -> pdel_ok th ->
  noact (t_pc th) /\ (forall k, t_pc th <> PDel k) /\ t_pc th <> PTest.
Proof.
  unfold hcount, pdel_ok. intros Hz Hd. repeat split.
  - intros k E. rewrite E in Hz. simpl in Hz. lia.
  - intros k E. specialize (Hd _ E). destruct (t_stk th); [congruence|simpl in Hz; lia].
  - intros E. rewrite E in Hz. simpl in Hz. lia.
Qed.

Lemma Inv_step c t c' : Inv c -> lts_step code_now c t = Some c' -> Inv c'.
Proof.
  intros (Hsh & Hths & Hph) Hs.
  apply lts_step_inv in Hs. destruct Hs as (th & sh' & th' & E1 & E2 & ->).
  destruct (Hths _ _ E1) as (Hth & Hg & Hd).
  set (sh := c_sh c) in *.
  assert (Hown : forall m, lock sh = Some (t, m) -> owner_pc c = Some (t_pc th)).
  { intros m Em. unfold owner_pc. fold sh. rewrite Em, E1. reflexivity. }
  assert (Hpos : hcount th > 0 -> exists m, lock sh = Some (t, m)).
  { intros Hh. destruct (Hg Hh) as (m & Em & _). eauto. }
  assert (Hact : forall k, t_pc th = PAct k -> k < 4 -> pptr sh = None).
  { intros k Ek Hk. destruct Hpos as (m & Em); [unfold hcount; rewrite Ek; simpl; lia|].
    rewrite (Hown _ Em), Ek in Hph. apply Hph; auto. }
  destruct (thread_step_ok _ _ _ _ _ E2 Hsh Hth Hact) as (S1 & S2 & S3 & S4).
  destruct (thread_step_lock _ _ _ _ _ _ E2 Hg Hd) as (K1 & K2 & K3 & K4 & K5).
  pose proof Hsh as (A & B & Cf).
  (* other threads cannot hold the lock when t does *)
  assert (Hother : forall i thi, i <> t -> nth_error (c_ths c) i = Some thi -> hcount thi > 0 ->
                   hcount th = 0 /\ t_pc th <> PAcq /\ lock sh' = lock sh).
  { intros i thi Hne Ei Hh. destruct (Hths _ _ Ei) as (_ & Hgi & _). destruct (Hgi Hh) as (m & Em & _).
    assert (Hz : hcount th = 0).
    { destruct (Nat.eq_dec (hcount th) 0); auto. destruct Hpos as (m' & Em'); [lia|]. rewrite Em in Em'. inversion Em'; congruence. }
    assert (Hna : t_pc th <> PAcq).
    { intros Ea. destruct (K4 Ea) as [[Hn|(n & Hn)] _]; rewrite Em in Hn; [discriminate|inversion Hn; congruence]. }
    auto. }
  split; [|split].
  - simpl. apply tick_sh_ok; auto.
  - intros i thi Hi. simpl in Hi. apply nth_error_upd_nth_inv in Hi. simpl.
    destruct Hi as [[-> (x & Ex & ->)]|[Hne Hi]].
    + split; [eapply th_ok_ext; [apply tick_ext|apply S1|apply S1|exact S3]|]. split; auto.
    + destruct (Hths _ _ Hi) as (Ti & Gi & Di).
      split; [|split; auto].
      * eapply th_ok_ext; [apply tick_ext|apply S1|apply S1|]. eapply th_ok_ext; eauto.
      * intros Hh. destruct (Hother _ _ Hne Hi Hh) as (_ & _ & El). unfold lock_ge in Gi.
        change (lock (tick sh')) with (lock sh'). rewrite El. auto.
  - (* phase *)
    unfold owner_pc. simpl. change (lock (tick sh')) with (lock sh').
    apply phase_ptrs with sh'; [split; reflexivity|].
    assert (Hphase_t : forall m, lock sh = Some (t, m) -> phase_ok sh' (Some (t_pc th')) /\ (lock sh' = None -> phi sh')).
    { intros m Em. pose proof Hph as Hp0. rewrite (Hown _ Em) in Hp0.
      destruct (t_pc th) as [| | |k|k|e| |cid|sm|fm|fm cid|fm pm|fm pm v|sm v] eqn:Epc;
        try (destruct (ptrs_gen _ _ _ _ _ _ E2) as [Hp Hn]; rewrite ?Epc;
             [intros k X; discriminate|intros k X; discriminate|discriminate|];
             assert (Hphi : phi sh') by (destruct Hp as [X1 X2]; unfold phi; rewrite X1, X2; exact Hp0);
             split; [apply phase_gen; auto|auto]).
      - (* PTest *)
        destruct (ptrs_test _ _ _ _ _ _ E2 Epc) as [[X1 X2] Hc].
        assert (Hphi : phi sh') by (unfold phi; rewrite X1, X2; exact Hp0).
        split; [|auto]. destruct Hc as [[Hf ->]|[Hf Hn]]; [|apply phase_gen; auto].
        simpl. split; [intros _; rewrite X2; apply Hp0; auto|lia].
      - (* PAct *)
        destruct (ptrs_act _ _ _ _ _ _ _ E2 Epc) as (P1 & P2 & P3 & P4). simpl in Hp0. destruct Hp0 as [Q1 Q2].
        destruct (Nat.lt_ge_cases k 6) as [H6|H6].
        + rewrite (P3 H6). split.
          * simpl. destruct (Nat.lt_ge_cases k 4) as [H4|H4].
            -- destruct (P1 H4) as [F1 F2]. split; [intros _; rewrite F2; auto|auto].
            -- destruct (P2 H4) as [F1 F2]. split; [lia|]. intros _. rewrite F1. apply Q2. lia.
          * intros Hn. exfalso. destruct K1 as (m' & Em' & _); [unfold hcount; rewrite (P3 H6); simpl; lia|]. congruence.
        + destruct (P2 ltac:(lia)) as [F1 F2].
          assert (Hphi : phi sh') by (intros Hf; exfalso; rewrite F1 in Hf; apply Q2 in Hf; auto; lia).
          split; [apply phase_gen; auto|auto].
      - (* PDel *)
        destruct (ptrs_del _ _ _ _ _ _ _ E2 Epc) as (P1 & P2).
        destruct (Nat.lt_ge_cases k 6) as [H6|H6].
        + rewrite (P1 H6). split; [exact I|]. intros Hn. exfalso.
          assert (Hne : t_stk th' <> []) by (eapply K2; eauto).
          destruct K1 as (m' & Em' & _); [unfold hcount; destruct (t_stk th'); [congruence|simpl; lia]|]. congruence.
        + destruct (P2 H6) as [F1 F2]. assert (Hphi : phi sh') by (intros _; exact F1).
          split; [apply phase_gen; auto|auto]. }
    destruct (lock sh') as [[j m']|] eqn:El'.
    + destruct (Nat.eq_dec j t) as [->|Hjt].
      * rewrite (nth_error_upd_nth_eq _ _ _ _ E1). simpl.
        destruct (lock sh) as [[i m]|] eqn:El.
        -- destruct (Nat.eq_dec i t) as [->|Hit].
           ++ destruct (Hphase_t _ eq_refl) as [X _]. exact X.
           ++ (* another thread owned the lock: t cannot have taken it *)
              exfalso. destruct (Nat.eq_dec (hcount th) 0) as [Hz|Hz].
              ** assert (Hna : t_pc th <> PAcq).
                 { intros Ea. destruct (K4 Ea) as [[Hn|(n & Hn)] _]; [discriminate|inversion Hn; congruence]. }
                 pose proof (K3 Hz Hna) as X. congruence.
              ** destruct Hpos as (m1 & Em1); [lia|]. inversion Em1; congruence.
        -- (* the lock was free: t is at PAcq *)
           destruct (Nat.eq_dec (hcount th) 0) as [Hz|Hz]; [|destruct Hpos as (m1 & Em1); [lia|discriminate]].
           destruct (generic_pc _ Hz Hd) as (G1 & G2 & G3).
           destruct (ptrs_gen _ _ _ _ _ _ E2 G1 G2 G3) as [Hp Hn].
           apply phase_gen; auto. unfold owner_pc in Hph. fold sh in Hph. rewrite El in Hph.
           destruct Hp as [X1 X2]. unfold phi. rewrite X1, X2. exact Hph.
      * rewrite nth_error_upd_nth_neq; auto.
        (* owner j <> t: the lock did not move and t made a generic step *)
        assert (Hz : hcount th = 0).
        { destruct (Nat.eq_dec (hcount th) 0); auto. destruct Hpos as (m1 & Em1); [lia|].
          destruct (K5 _ Em1) as [X|(m2 & X)]; [discriminate|inversion X; congruence]. }
        assert (Hna : t_pc th <> PAcq).
        { intros Ea. destruct (K4 Ea) as [_ (m2 & X)]. inversion X; congruence. }
        assert (El : lock sh = Some (j, m')) by (rewrite <- (K3 Hz Hna); auto).
        destruct (generic_pc _ Hz Hd) as (G1 & G2 & G3).
        destruct (ptrs_gen _ _ _ _ _ _ E2 G1 G2 G3) as [Hp Hn].
        eapply phase_ptrs; [exact Hp|]. unfold owner_pc in Hph. fold sh in Hph. rewrite El in Hph. exact Hph.
    + (* lock free afterwards *)
      simpl. destruct (lock sh) as [[i m]|] eqn:El.
      * destruct (Nat.eq_dec i t) as [->|Hit].
        -- destruct (Hphase_t _ eq_refl) as [_ X]. apply X; auto.
        -- exfalso. destruct (Nat.eq_dec (hcount th) 0) as [Hz|Hz].
           ++ assert (Hna : t_pc th <> PAcq).
              { intros Ea. destruct (K4 Ea) as [[Hn|(n & Hn)] _]; [discriminate|inversion Hn; congruence]. }
              pose proof (K3 Hz Hna) as X. congruence.
           ++ destruct Hpos as (m1 & Em1); [lia|]. inversion Em1; congruence.
      * destruct (Nat.eq_dec (hcount th) 0) as [Hz|Hz]; [|destruct Hpos as (m1 & Em1); [lia|discriminate]].
        destruct (generic_pc _ Hz Hd) as (G1 & G2 & G3).
        destruct (ptrs_gen _ _ _ _ _ _ E2 G1 G2 G3) as [[X1 X2] Hn].
        unfold owner_pc in Hph. fold sh in Hph. rewrite El in Hph. unfold phi. rewrite X1, X2. exact Hph.
Qed.

(* ------------------------------------------------------------------ initial configurations *)
Lemma init_threads_ok : forall progs sh sh' ths,
  init_threads sh progs = (sh', ths) -> lock sh = None ->
  same_core sh sh' /\ lock sh' = None /\
  forall i th, nth_error ths i = Some th -> load_pc (t_pc th) /\ hcount th = 0 /\ pdel_ok th.
Proof.
  induction progs as [|p r IH]; intros sh sh' ths H Hl; simpl in H.
  - inversion H; subst. split; [apply same_core_refl|]. split; auto. intros [|i] th E; discriminate.
  - destruct (load p sh blank_thread) as [sh1 th1] eqn:E1. destruct (init_threads sh1 r) as [sh2 ths'] eqn:E2.
    inversion H; subst. pose proof (load_core _ _ _ _ _ E1) as [Hc1 Hp1].
    assert (Hg : lock_ge 0 sh (length (t_stk blank_thread))) by (intros X; simpl in X; lia).
    apply (load_lock 0) in E1; auto. destruct E1 as (L1 & L2 & L3 & _). simpl in L3.
    assert (Hl1 : lock sh1 = None) by (rewrite L3; auto).
    destruct (IH _ _ _ E2 Hl1) as (Hc2 & Hl2 & Hall).
    split; [eapply same_core_trans; eauto|]. split; auto.
    intros [|i] th E; simpl in E.
    + inversion E; subst. split; auto. split; auto.
      destruct (Nat.eq_dec (hcount th) 0); auto. destruct L1 as (m & Em & _); [lia|]. congruence.
    + apply Hall in E. exact E.
Qed.

Lemma Inv_init f progs : Inv (init_cfg f progs).
Proof.
  unfold init_cfg. destruct (init_threads (init_shared f) progs) as [sh ths] eqn:E.
  destruct (init_threads_ok _ _ _ _ E eq_refl) as (Hc & Hl & Hall).
  assert (Hsh : sh_ok (init_shared f)).
  { split; [|split].
    - intros cid C H. destruct cid; discriminate.
    - split; intros c H; discriminate.
    - intros fc H; discriminate. }
  split; [|split]; simpl.
  - eapply same_core_sh_ok; eauto.
  - intros i th Hi. destruct (Hall _ _ Hi) as (H1 & H2 & H3). split; [apply load_pc_th_ok; auto|]. split; auto.
    intros X. lia.
  - unfold owner_pc. simpl. rewrite Hl. simpl. destruct Hc as (_ & C2 & C3 & _). unfold phi. rewrite C3. auto.
Qed.

Lemma Inv_reach f progs c : reach code_now (init_cfg f progs) c -> Inv c.
Proof. intros H. induction H; [apply Inv_init|eapply Inv_step; eauto]. Qed.

(* Theorem 7 (the code now).  Every interleaving of any number of threads running any programs
   of enter / exit / raise / calls / environment changes: every value held by any cache dict,
   front level or reader level, was read after that dict was created (and a dict is created
   only after its block was entered). *)
Theorem cache_values_from_block : forall f progs c cid C k v,
  reach code_now (init_cfg f progs) c ->
  nth_error (heap (c_sh c)) cid = Some C -> In (k, v) (c_ents C) ->
  c_born C <= snd v /\ snd v <= clock (c_sh c).
Proof.
  intros f progs c cid C k v Hr HC Hin. destruct (Inv_reach _ _ _ Hr) as ((A & _) & _).
  destruct (A _ _ HC) as [_ A2]. apply A2 in Hin. exact Hin.
Qed.

(* ... and the two pointers only ever name dicts that exist *)
Theorem no_dangling_cache_pointer : forall f progs c,
  reach code_now (init_cfg f progs) c ->
  (forall cid, fptr (c_sh c) = Some cid -> cid < length (heap (c_sh c))) /\
  (forall cid, pptr (c_sh c) = Some cid -> cid < length (heap (c_sh c))).
Proof. intros f progs c Hr. destruct (Inv_reach _ _ _ Hr) as ((_ & B & _) & _). exact B. Qed.

(* mutual exclusion: a thread that is inside oneshot() -- creating or removing dicts, or with an
   open block -- holds Process._lock *)
Theorem block_owner_holds_lock : forall f progs c i th,
  reach code_now (init_cfg f progs) c -> nth_error (c_ths c) i = Some th ->
  (t_stk th <> [] \/ (exists k, t_pc th = PAct k) \/ (exists k, t_pc th = PDel k) \/ t_pc th = PTest) ->
  exists m, lock (c_sh c) = Some (i, m).
Proof.
  intros f progs c i th Hr Hi Hc. destruct (Inv_reach _ _ _ Hr) as (_ & Hths & _).
  destruct (Hths _ _ Hi) as (_ & Hg & Hd).
  assert (Hh : hcount th > 0).
  { unfold hcount. destruct Hc as [Hs|[(k & Hk)|[(k & Hk)|Hk]]].
    - destruct (t_stk th); [congruence|simpl; lia].
    - rewrite Hk; simpl; lia.
    - specialize (Hd _ Hk). destruct (t_stk th); [congruence|simpl; lia].
    - rewrite Hk; simpl; lia. }
  destruct (Hg Hh) as (m & Em & _). eauto.
Qed.

(* ------------------------------------------------------------------ the code before commit 7b727b3 *)
(* owner: block, call, block, call; caller: two calls; third thread: one source change.
   The caller misses in block 1's dict, reads version 1, is pre-empted; the source changes; the
   owner leaves block 1 and enters block 2; the caller stores version 1 into block 2's dict. *)
Definition progs_stale : list (list op) :=
  [[OEnter; OCall (CM Mcpu_num); OExit; OEnter; OCall (CM Mcpu_num); OExit];
   [OCall (CM Mcpu_num); OCall (CM Mcpu_num)];
   [OEnv (ESet Stat (SAvail 2))]].
Definition sched_stale : list nat :=
  repeat 0 9 ++ [1; 1] ++ [2] ++ repeat 0 19 ++ [1; 1; 1; 1] ++ repeat 0 30.

Definition stale_entry (c : cfg) : bool :=
  existsb (fun C => existsb (fun kv => Nat.ltb (snd (snd kv)) (c_born C)) (c_ents C)) (heap (c_sh c)).
(* a call that returned a value read before the call started, out of a dict created after the read *)
Definition stale_result (c : cfg) (tid : nat) : bool :=
  match nth_error (c_ths c) tid with
  | None => false
  | Some th =>
      existsb (fun r => match r_out r, r_hit r with
                        | Val v, Some cid =>
                            Nat.ltb (snd v) (r_t0 r) &&
                            match nth_error (heap (c_sh c)) cid with Some C => Nat.ltb (snd v) (c_born C) | None => false end
                        | _, _ => false
                        end) (t_res th)
  end.

Theorem cache_values_from_block_before_fix_refuted :
  exists sch, let c := run_sched code_before_fix (init_cfg (fun _ => SAvail 1) progs_stale) sch in
    (exists cid C k v, nth_error (heap (c_sh c)) cid = Some C /\ In (k, v) (c_ents C) /\ snd v < c_born C)
    /\ stale_result c 0 = true      (* the block owner, inside block 2 *)
    /\ stale_result c 1 = true.     (* the plain caller's second call *)
Proof.
  exists sched_stale. cbv zeta.
  set (c := run_sched code_before_fix (init_cfg (fun _ => SAvail 1) progs_stale) sched_stale).
  assert (H : stale_entry c = true) by (vm_compute; reflexivity).
  split; [|split; vm_compute; reflexivity].
  unfold stale_entry in H. apply existsb_exists in H. destruct H as (C & HC & H).
  apply existsb_exists in H. destruct H as ([k v] & Hkv & H). apply Nat.ltb_lt in H.
  apply In_nth_error in HC. destruct HC as (cid & HC). exists cid, C, k, v. auto.
Qed.

(* the same schedule on the code now: nothing stale *)
Example stale_schedule_now_clean :
  let c := run_sched code_now (init_cfg (fun _ => SAvail 1) progs_stale) sched_stale in
  stale_entry c = false /\ stale_result c 0 = false /\ stale_result c 1 = false.
Proof. vm_compute. auto. Qed.
