(* C16 -- threads, all interleavings, the code now (cache dict bound once per wrapper call):
   every value held by a cache dict was read after that dict was created (theorem 7), hence
   every answer was read during the call or inside a block that overlapped it (theorem 6).
   The proof needs the lock protocol: only the thread holding Process._lock creates or
   removes dicts, and while front-level dicts are being created no reader-level dict is live. *)
From PV Require Import C16.Lib.
Local Open Scope nat_scope.

Ltac unsome H E :=
  match type of H with Some ?x = Some ?y => assert (E : x = y) by (clear - H; congruence) end.

(* ------------------------------------------------------------------ shared-state invariants *)
Definition le_born sh cid x := forall C, nth_error (heap sh) cid = Some C -> c_born C <= x.
Definition heap_ok sh := forall cid C, nth_error (heap sh) cid = Some C ->
  c_born C <= clock sh /\ forall k v, In (k, v) (c_ents C) -> c_born C <= snd v /\ snd v <= clock sh.
Definition valid sh cid := cid < length (heap sh).
Definition ptr_ok sh := (forall c, fptr sh = Some c -> valid sh c) /\ (forall c, pptr sh = Some c -> valid sh c).
(* dict fc is not younger than the live reader-level dict *)
Definition below sh fc := forall pc P, pptr sh = Some pc -> nth_error (heap sh) pc = Some P -> le_born sh fc (c_born P).
Definition front_below sh := forall fc, fptr sh = Some fc -> below sh fc.
Definition sh_ok sh := heap_ok sh /\ ptr_ok sh /\ front_below sh.

Definition ext sh sh' :=
  length (heap sh) <= length (heap sh') /\
  (forall cid C, nth_error (heap sh) cid = Some C ->
                 exists C', nth_error (heap sh') cid = Some C' /\ c_born C' = c_born C) /\
  clock sh <= clock sh' /\
  (forall pc P', pptr sh' = Some pc -> nth_error (heap sh') pc = Some P' -> pptr sh = Some pc \/ clock sh <= c_born P').

Lemma ext_refl sh : ext sh sh.
Proof. repeat split; auto. intros; eauto. Qed.

Lemma le_born_ext sh sh' cid x : ext sh sh' -> valid sh cid -> le_born sh cid x -> le_born sh' cid x.
Proof.
  intros (L & N & C & P) Hv Hl C' H'. unfold valid in Hv.
  destruct (nth_error (heap sh) cid) as [C0|] eqn:E.
  - destruct (N _ _ E) as (C1 & H1 & E1). rewrite H' in H1. inversion H1; subst. rewrite E1. apply Hl; auto.
  - apply nth_error_None in E. lia.
Qed.

Lemma valid_ext sh sh' cid : ext sh sh' -> valid sh cid -> valid sh' cid.
Proof. intros (L & _) H. unfold valid in *. lia. Qed.

Lemma le_born_clock sh cid : heap_ok sh -> le_born sh cid (clock sh).
Proof. intros H C E. destruct (H _ _ E); auto. Qed.

(* To keep [below] monotone we need the old pointer to be valid: fold ptr_ok into the statement. *)
Lemma below_ext sh sh' fc : ext sh sh' -> heap_ok sh -> ptr_ok sh -> valid sh fc -> below sh fc -> below sh' fc.
Proof.
  intros He Hh [_ Hpp] Hv Hb pc P' Hp Hn. pose proof He as (L & N & C & Pp).
  destruct (Pp _ _ Hp Hn) as [Hold|Hnew].
  - specialize (Hpp _ Hold). unfold valid in Hpp.
    destruct (nth_error (heap sh) pc) as [P0|] eqn:E; [|apply nth_error_None in E; lia].
    destruct (N _ _ E) as (C1 & H1 & E1). rewrite Hn in H1. inversion H1; subst. rewrite E1.
    eapply le_born_ext; eauto.
  - eapply le_born_ext; eauto. intros C0 H0. destruct (Hh _ _ H0). lia.
Qed.

(* ------------------------------------------------------------------ per-thread invariant *)
Definition sm_ok sh (sm : smode) :=
  match sm with MPlain => True | MStore None => False | MStore (Some c) => valid sh c end.
Definition sm_le sh (sm : smode) x := match sm with MStore (Some c) => le_born sh c x | _ => True end.
Definition sm_below sh (sm : smode) := match sm with MStore (Some c) => below sh c | _ => True end.
Definition fm_sm (fm : fmode) : smode := match fm with FNone => MPlain | FM sm => sm end.

Definition th_ok sh th :=
  match t_pc th with
  | PF1b cid => valid sh cid /\ below sh cid
  | PF2 sm => sm_ok sh sm /\ sm_below sh sm
  | PP1 fm => sm_ok sh (fm_sm fm) /\ sm_below sh (fm_sm fm)
  | PP1b fm cid => sm_ok sh (fm_sm fm) /\ valid sh cid /\
                   (forall P, nth_error (heap sh) cid = Some P -> sm_le sh (fm_sm fm) (c_born P))
  | PP2 fm pm => sm_ok sh (fm_sm fm) /\ sm_ok sh pm
  | PP3 fm pm v => sm_ok sh (fm_sm fm) /\ sm_ok sh pm /\ sm_le sh (fm_sm fm) (snd v) /\ sm_le sh pm (snd v)
                   /\ snd v <= clock sh
  | PF3 sm v => sm_ok sh sm /\ sm_le sh sm (snd v) /\ snd v <= clock sh
  | _ => True
  end.

Lemma sm_ok_ext sh sh' sm : ext sh sh' -> sm_ok sh sm -> sm_ok sh' sm.
Proof. destruct sm as [|[c|]]; simpl; auto. apply valid_ext. Qed.
Lemma sm_le_ext sh sh' sm x : ext sh sh' -> sm_ok sh sm -> sm_le sh sm x -> sm_le sh' sm x.
Proof. destruct sm as [|[c|]]; simpl; auto. intros; eapply le_born_ext; eauto. Qed.
Lemma sm_below_ext sh sh' sm : ext sh sh' -> heap_ok sh -> ptr_ok sh -> sm_ok sh sm -> sm_below sh sm -> sm_below sh' sm.
Proof. destruct sm as [|[c|]]; simpl; auto. intros; eapply below_ext; eauto. Qed.

Lemma th_ok_ext sh sh' th : ext sh sh' -> heap_ok sh -> ptr_ok sh -> th_ok sh th -> th_ok sh' th.
Proof.
  intros He Hh Hp. unfold th_ok. pose proof He as (L & N & C & Pp).
  destruct (t_pc th) as [| | |k|k|e| |cid|sm|fm|fm cid|fm pm|fm pm v|sm v]; auto.
  - intros [H1 H2]. split; [eapply valid_ext; eauto|eapply below_ext; eauto].
  - intros [H1 H2]. split; [eapply sm_ok_ext; eauto|eapply sm_below_ext; eauto].
  - intros [H1 H2]. split; [eapply sm_ok_ext; eauto|eapply sm_below_ext; eauto].
  - intros (H1 & H2 & H3). split; [eapply sm_ok_ext; eauto|]. split; [eapply valid_ext; eauto|].
    intros P' HP'. unfold valid in H2.
    destruct (nth_error (heap sh) cid) as [P0|] eqn:E; [|apply nth_error_None in E; lia].
    destruct (N _ _ E) as (C1 & HC1 & E1). rewrite HP' in HC1. inversion HC1; subst. rewrite E1.
    eapply sm_le_ext; eauto.
  - intros [H1 H2]. split; eapply sm_ok_ext; eauto.
  - intros (H1 & H2 & H3 & H4 & H5). repeat split; try (eapply sm_ok_ext; eauto); try (eapply sm_le_ext; eauto). lia.
  - intros (H1 & H2 & H3). repeat split; try (eapply sm_ok_ext; eauto); try (eapply sm_le_ext; eauto). lia.
Qed.

(* ------------------------------------------------------------------ primitives *)
Definition same_core sh sh' :=
  heap sh' = heap sh /\ fptr sh' = fptr sh /\ pptr sh' = pptr sh /\ clock sh' = clock sh.

Lemma same_core_refl sh : same_core sh sh.
Proof. repeat split. Qed.
Lemma same_core_trans a b c : same_core a b -> same_core b c -> same_core a c.
Proof. intros (A1 & A2 & A3 & A4) (B1 & B2 & B3 & B4). repeat split; congruence. Qed.

Lemma same_core_sh_ok sh sh' : same_core sh sh' -> sh_ok sh -> sh_ok sh'.
Proof.
  intros (E1 & E2 & E3 & E4) (A & [B1 B2] & C).
  unfold sh_ok, heap_ok, ptr_ok, front_below, below, le_born, valid in *. rewrite E1, E2, E3, E4. auto.
Qed.
Lemma same_core_ext sh sh' : same_core sh sh' -> ext sh sh'.
Proof.
  intros (E1 & E2 & E3 & E4). unfold ext. rewrite E1, E3, E4. repeat split; auto. intros; eauto.
Qed.
Lemma same_core_th_ok sh sh' th : same_core sh sh' -> th_ok sh th -> th_ok sh' th.
Proof.
  intros (E1 & E2 & E3 & E4). unfold th_ok, sm_ok, sm_le, sm_below, below, le_born, valid.
  rewrite E1, E3, E4. auto.
Qed.

Lemma unlock_core sh : same_core sh (unlock sh).
Proof. repeat split. Qed.
Lemma set_lock_core sh l : same_core sh (set_lock sh l).
Proof. repeat split. Qed.
Lemma apply_env_core e sh : same_core sh (apply_env e sh).
Proof. destruct e; repeat split. Qed.
Lemma set_gone_core sh b : same_core sh (set_gone sh b).
Proof. repeat split. Qed.

Lemma strip_nested_core : forall stk sh s sh', strip_nested stk sh = (s, sh') -> same_core sh sh'.
Proof.
  induction stk as [|[|] r IH]; intros sh s sh' H; simpl in H; try (inversion H; subst; apply same_core_refl).
  eapply same_core_trans; [apply unlock_core|]. eapply IH; eauto.
Qed.

(* pcs at which [load] leaves a thread *)
Definition load_pc (p : pc) : Prop :=
  match p with PDone | PAcq | PEnv _ | PF1 | PP1 FNone => True | PDel 0 => True | _ => False end.

Lemma load_core : forall ops sh th sh' th', load ops sh th = (sh', th') -> same_core sh sh' /\ load_pc (t_pc th').
Proof.
  induction ops as [|o r IH]; intros sh th sh' th' H; simpl in H.
  - inversion H; subst. split; [apply same_core_refl|simpl; auto].
  - destruct o as [| | |c|e].
    + inversion H; subst. split; [apply same_core_refl|simpl; auto].
    + destruct (t_stk th) as [|[|] s].
      * eapply IH; eauto.
      * inversion H; subst. split; [apply same_core_refl|simpl; auto].
      * apply IH in H. destruct H. split; auto.
    + destruct (strip_nested (t_stk th) sh) as [s sh1] eqn:Es. apply strip_nested_core in Es.
      destruct s as [|f s].
      * apply IH in H. destruct H. split; auto. eapply same_core_trans; eauto.
      * inversion H; subst. split; auto. simpl; auto.
    + destruct c as [m| |o].
      * inversion H; subst. split; [apply same_core_refl|]. simpl. destruct (m_front m); simpl; auto.
      * eapply IH; eauto.
      * eapply IH; eauto.
    + inversion H; subst. split; [apply same_core_refl|simpl; auto].
Qed.

Lemma load_pc_th_ok sh th : load_pc (t_pc th) -> th_ok sh th.
Proof.
  unfold th_ok. destruct (t_pc th) as [| | |k|k|e| |cid|sm|fm|fm cid|fm pm|fm pm v|sm v]; simpl; auto; try contradiction.
  destruct fm; simpl; auto; contradiction.
Qed.

Lemma finish_core sh th o sh' th' : finish sh th o = (sh', th') -> same_core sh sh' /\ load_pc (t_pc th').
Proof. unfold finish. apply load_core. Qed.

(* d[k] = v *)
Lemma setitem_ok sh cid k v sh' :
  py_setitem sh cid k v = Val sh' -> sh_ok sh -> le_born sh cid (snd v) -> snd v <= clock sh ->
  sh_ok sh' /\ ext sh sh' /\ length (heap sh') = length (heap sh) /\ pptr sh' = pptr sh /\ clock sh' = clock sh /\
  (forall c C', nth_error (heap sh') c = Some C' -> exists C, nth_error (heap sh) c = Some C /\ c_born C = c_born C').
Proof.
  unfold py_setitem. destruct (nth_error (heap sh) cid) as [C0|] eqn:E0; [|discriminate].
  intros H (A & [B1 B2] & Cf) Hle Hv. inversion H; subst; clear H.
  assert (Hb : forall c C', nth_error (upd_nth cid (fun c0 => mkCache (c_born c0) ((k, v) :: c_ents c0)) (heap sh)) c = Some C' ->
               exists C, nth_error (heap sh) c = Some C /\ c_born C = c_born C' /\
                         (forall kv, In kv (c_ents C') -> In kv (c_ents C) \/ (c = cid /\ kv = (k, v)))).
  { intros c C' H. apply nth_error_upd_nth_inv in H. destruct H as [[-> (x & Ex & ->)]|[Hne H]].
    - exists x. split; auto. split; auto. simpl. intros kv [<-|Hin]; auto.
    - exists C'. auto. }
  assert (Hf : forall c C, nth_error (heap sh) c = Some C ->
               exists C', nth_error (upd_nth cid (fun c0 => mkCache (c_born c0) ((k, v) :: c_ents c0)) (heap sh)) c = Some C'
                          /\ c_born C' = c_born C).
  { intros c C H. destruct (Nat.eq_dec cid c) as [->|Hne].
    - erewrite nth_error_upd_nth_eq; eauto. eexists; split; [reflexivity|reflexivity].
    - rewrite nth_error_upd_nth_neq; eauto. }
  split; [|split; [|split; [|split; [|split]]]]; simpl; auto.
  - split; [|split].
    + intros c C' H. simpl in H. destruct (Hb _ _ H) as (C & HC & Eb & Hents). destruct (A _ _ HC) as [A1 A2].
      simpl. split; [lia|]. intros k0 v0 Hin. destruct (Hents _ Hin) as [Hold|[-> Heq]].
      * rewrite <- Eb. apply A2 in Hold. exact Hold.
      * inversion Heq; subst. rewrite <- Eb. split; auto.
    + unfold ptr_ok, valid. simpl. rewrite upd_nth_length. split; auto.
    + intros fc Hfc pc P Hp Hn C' HC'. simpl in *.
      destruct (Hb _ _ Hn) as (P0 & HP0 & EP & _). destruct (Hb _ _ HC') as (C0' & HC0' & EC & _).
      rewrite <- EP, <- EC. eapply Cf; eauto.
  - unfold ext. simpl. rewrite upd_nth_length. repeat split; auto.
  - apply upd_nth_length.
  - intros c C' H. destruct (Hb _ _ H) as (C & HC & Eb & _). eauto.
Qed.

Lemma activate_heap l sh : heap (activate l sh) = heap sh ++ [mkCache (clock sh) []].
Proof. destruct l; reflexivity. Qed.

Lemma nth_error_snoc {A} (l : list A) x c y :
  nth_error (l ++ [x]) c = Some y -> (c < length l /\ nth_error l c = Some y) \/ (c = length l /\ y = x).
Proof.
  intros H. destruct (Nat.lt_ge_cases c (length l)) as [Hlt|Hge].
  - left. rewrite nth_error_app1 in H; auto.
  - right. rewrite nth_error_app2 in H; auto. destruct (c - length l) as [|n] eqn:E.
    + simpl in H. inversion H. split; auto. lia.
    + simpl in H. destruct n; discriminate.
Qed.

(* proc._cache = {} ; for the front level this needs that no reader-level dict is live *)
Lemma activate_ok l sh :
  sh_ok sh -> (l = Front -> pptr sh = None) ->
  sh_ok (activate l sh) /\ ext sh (activate l sh) /\ clock (activate l sh) = clock sh.
Proof.
  intros (A & [B1 B2] & Cf) Hl.
  assert (Hh : heap_ok (activate l sh)).
  { intros c C H. rewrite activate_heap in H. replace (clock (activate l sh)) with (clock sh) by (destruct l; reflexivity).
    apply nth_error_snoc in H. destruct H as [[_ H]|[_ ->]]; [exact (A _ _ H)|]. simpl. split; auto. intros ? ? []. }
  split; [|split].
  - split; [exact Hh|split].
    + unfold ptr_ok, valid. rewrite activate_heap, app_length. simpl.
      destruct l; simpl; split; intros c Hc; try (inversion Hc; subst; lia).
      * apply B2 in Hc. unfold valid in Hc. lia.
      * apply B1 in Hc. unfold valid in Hc. lia.
    + intros fc Hfc pc P Hp Hn C' HC'. rewrite activate_heap in Hn, HC'.
      apply nth_error_snoc in Hn. apply nth_error_snoc in HC'.
      destruct l; simpl in Hfc, Hp.
      * rewrite Hl in Hp; auto. discriminate.
      * inversion Hp; subst pc. destruct Hn as [[Hlt _]|[_ ->]]; [lia|]. simpl.
        destruct HC' as [[_ HC']|[_ ->]]; [apply A in HC'; tauto|simpl; auto].
  - unfold ext. rewrite activate_heap, app_length. simpl.
    replace (clock (activate l sh)) with (clock sh) by (destruct l; reflexivity).
    repeat split; try lia.
    + intros c C H. exists C. split; auto. rewrite nth_error_app1; auto. apply nth_error_Some. congruence.
    + intros pc P' Hp Hn. apply nth_error_snoc in Hn. destruct l; simpl in Hp.
      * left; auto.
      * inversion Hp; subst. destruct Hn as [[Hlt _]|[_ ->]]; [lia|]. right. simpl. auto.
  - destruct l; reflexivity.
Qed.

Lemma deactivate_ok l sh sh' :
  deactivate l sh = Val sh' -> sh_ok sh -> sh_ok sh' /\ ext sh sh' /\ clock sh' = clock sh.
Proof.
  unfold deactivate, py_delcache. intros H (A & [B1 B2] & Cf).
  destruct (ptr l sh) eqn:Ep; simpl in H; inversion H; subst; clear H.
  - destruct l; simpl.
    + split; [|split; auto].
      * split; [exact A|split].
        -- split; simpl; auto. intros c Hc; discriminate.
        -- intros fc Hfc. simpl in Hfc. discriminate.
      * unfold ext; simpl. repeat split; auto. intros; eauto.
    + split; [|split; auto].
      * split; [exact A|split].
        -- split; simpl; auto. intros c Hc; discriminate.
        -- intros fc Hfc pc P Hp. simpl in Hp. discriminate.
      * unfold ext; simpl. repeat split; auto. intros; eauto. intros pc P' Hp; discriminate.
  - split; [exact (conj A (conj (conj B1 B2) Cf))|split; [apply ext_refl|reflexivity]].
Qed.

(* ------------------------------------------------------------------ one step of one thread *)
Lemma w1_now l k sh r :
  w1 code_now l k sh = r -> (r = LMode MPlain /\ ptr l sh = None) \/ (exists cid, r = LNext cid /\ ptr l sh = Some cid).
Proof. unfold w1, py_getcache. simpl. destruct (ptr l sh); intros <-; eauto. Qed.

Lemma w1b_true cid k sh r :
  w1b true cid k sh = r ->
  (exists v C, r = LHit v cid /\ nth_error (heap sh) cid = Some C /\ In (k, v) (c_ents C))
  \/ r = LMode (MStore (Some cid)) \/ r = LErr OutOfModel.
Proof.
  unfold w1b, py_subscript. destruct (nth_error (heap sh) cid) as [C|] eqn:E; [|intros <-; auto].
  destruct (assoc k (c_ents C)) as [v|] eqn:Ea; intros <-; auto.
  left. exists v, C. repeat split; auto.
  clear - Ea. induction (c_ents C) as [|[k' v'] r IH]; simpl in *; try discriminate.
  destruct (key_eqb k k') eqn:Ek; auto. inversion Ea; subst. left. f_equal.
  destruct k, k'; simpl in Ek; try discriminate.
  - destruct f, f0; simpl in Ek; try discriminate; reflexivity.
  - destruct s, s0; simpl in Ek; try discriminate; reflexivity.
Qed.

Lemma ret_proc_ok sh th fm v sh' th' :
  ret_proc sh th fm v = (sh', th') -> sm_ok sh (fm_sm fm) -> sm_le sh (fm_sm fm) (snd v) -> snd v <= clock sh ->
  same_core sh sh' /\ th_ok sh' th'.
Proof.
  intros H H1 H2 H3. unfold ret_proc in H.
  assert (Hfin : forall th0 o, finish sh th0 o = (sh', th') -> same_core sh sh' /\ th_ok sh' th').
  { intros th0 o E. apply finish_core in E. destruct E. split; auto. apply load_pc_th_ok; auto. }
  destruct (meth_eqb (t_cur th) Mmemory_full).
  - unfold do_read in H. destruct (read_src sh Statm) as [x|e|]; simpl in H; eauto.
    destruct fm as [|[|b]]; eauto. inversion H; subst. split; [apply same_core_refl|].
    unfold th_ok; simpl. simpl in H1, H2. auto.
  - destruct fm as [|[|b]]; eauto. inversion H; subst. split; [apply same_core_refl|].
    unfold th_ok; simpl. simpl in H1, H2. auto.
Qed.

Lemma sm_le_clock sh sm : heap_ok sh -> sm_le sh sm (clock sh).
Proof. destruct sm as [|[c|]]; simpl; auto. apply le_born_clock. Qed.

(* the statement of the step lemma: shared invariants, extension, the stepping thread *)
Lemma thread_step_ok tid sh th sh' th' :
  thread_step code_now tid sh th = Some (sh', th') ->
  sh_ok sh -> th_ok sh th ->
  (forall k, t_pc th = PAct k -> k < 4 -> pptr sh = None) ->
  sh_ok sh' /\ ext sh sh' /\ th_ok sh' th' /\ clock sh' = clock sh.
Proof.
  intros H Hsh Hth Hact. pose proof Hsh as (A & [B1 B2] & Cf). unfold thread_step in H.
  assert (Hcore : forall sh1 th1, same_core sh sh1 -> load_pc (t_pc th1) ->
                  sh_ok sh1 /\ ext sh sh1 /\ th_ok sh1 th1 /\ clock sh1 = clock sh).
  { intros sh1 th1 Hc Hl. split; [eapply same_core_sh_ok; eauto|]. split; [apply same_core_ext; auto|].
    split; [apply load_pc_th_ok; auto|]. destruct Hc as (_ & _ & _ & Hc); auto. }
  assert (Hload : forall ops sh0 th0 p, same_core sh sh0 -> load ops sh0 th0 = p ->
                  sh_ok (fst p) /\ ext sh (fst p) /\ th_ok (fst p) (snd p) /\ clock (fst p) = clock sh).
  { intros ops sh0 th0 [a b] Hc E. apply load_core in E. destruct E. simpl. apply Hcore; auto.
    eapply same_core_trans; eauto. }
  assert (Hfin : forall sh0 th0 o p, same_core sh sh0 -> finish sh0 th0 o = p ->
                  sh_ok (fst p) /\ ext sh (fst p) /\ th_ok (fst p) (snd p) /\ clock (fst p) = clock sh).
  { intros sh0 th0 o p Hc E. unfold finish in E. eapply Hload; eauto. }
  assert (Hsame : forall p, th_ok sh (th_pc th p) -> sh_ok sh /\ ext sh sh /\ th_ok sh (th_pc th p) /\ clock sh = clock sh).
  { intros p Hp. split; [exact Hsh|split; [apply ext_refl|split; [exact Hp|reflexivity]]]. }
  unfold th_ok in Hth.
  destruct (t_pc th) as [| | |k|k|e| |cid|sm|fm|fm cid|fm pm|fm pm v|sm v] eqn:Epc.
  - discriminate.
  - (* PAcq *)
    destruct (lock sh) as [[o n]|].
    + destruct (Nat.eqb o tid); [|discriminate]. inversion H; subst.
      split; [eapply same_core_sh_ok; [apply set_lock_core|auto]|]. split; [apply same_core_ext, set_lock_core|].
      split; [exact I|reflexivity].
    + inversion H; subst.
      split; [eapply same_core_sh_ok; [apply set_lock_core|auto]|]. split; [apply same_core_ext, set_lock_core|].
      split; [exact I|reflexivity].
  - (* PTest *)
    destruct (fptr sh).
    + unsome H E. apply (Hload _ _ _ _ (same_core_refl sh)) in E. exact E.
    + inversion H; subst. apply Hsame. exact I.
  - (* PAct *)
    destruct (activate_ok (if Nat.ltb k 4 then Front else Proc) sh Hsh) as (S1 & S2 & S3).
    { intros Hl. destruct (Nat.ltb k 4) eqn:E4; [|discriminate]. apply Nat.ltb_lt in E4. eapply Hact; eauto. }
    destruct (Nat.ltb k 6).
    + inversion H; subst. split; [exact S1|split; [exact S2|split; [exact I|exact S3]]].
    + unsome H E. apply load_core in E. destruct E as [Hc Hl].
      split; [eapply same_core_sh_ok; eauto|]. destruct Hc as (C1 & C2 & C3 & C4).
      split; [|split; [apply load_pc_th_ok; auto|congruence]].
      destruct S2 as (X1 & X2 & X3 & X4). unfold ext. rewrite C1, C3, C4. repeat split; auto.
  - (* PDel *)
    destruct (deactivate (if Nat.ltb k 4 then Front else Proc) sh) as [sh1|e|] eqn:Ed.
    + destruct (deactivate_ok _ _ _ Ed Hsh) as (S1 & S2 & S3).
      destruct (Nat.ltb k 6).
      * inversion H; subst. split; [exact S1|split; [exact S2|split; [exact I|exact S3]]].
      * unsome H E. apply load_core in E. destruct E as [Hc Hl].
        assert (Hc' : same_core sh1 sh') by (eapply same_core_trans; [apply unlock_core|exact Hc]).
        split; [eapply same_core_sh_ok; eauto|]. destruct Hc' as (C1 & C2 & C3 & C4).
        split; [|split; [apply load_pc_th_ok; auto|congruence]].
        destruct S2 as (X1 & X2 & X3 & X4). unfold ext. rewrite C1, C3, C4. repeat split; auto.
    + unsome H E. unfold crash in E. inversion E; subst. split; [exact Hsh|split; [apply ext_refl|split; [exact I|reflexivity]]].
    + unsome H E. unfold crash in E. inversion E; subst. split; [exact Hsh|split; [apply ext_refl|split; [exact I|reflexivity]]].
  - (* PEnv *)
    unsome H E. apply (Hload _ _ _ _ (apply_env_core e sh)) in E. exact E.
  - (* PF1 *)
    destruct (m_front (t_cur th)) as [fk|].
    + unsome H E. unfold on_lookup in E.
      destruct (w1_now Front (KF fk) sh _ eq_refl) as [[Hr Hp]|(c & Hr & Hp)]; rewrite Hr in E.
      * inversion E; subst. apply Hsame. unfold th_ok; simpl. auto.
      * inversion E; subst. apply Hsame. unfold th_ok; simpl. simpl in Hp. split; [apply B1; auto|apply Cf; auto].
    + unsome H E. unfold crash in E. inversion E; subst. split; [exact Hsh|split; [apply ext_refl|split; [exact I|reflexivity]]].
  - (* PF1b *)
    destruct (m_front (t_cur th)) as [fk|].
    + unsome H E. unfold on_lookup in E. destruct Hth as [Hv Hb].
      destruct (w1b_true cid (KF fk) sh _ eq_refl) as [(v & C & Hr & _)|[Hr|Hr]]; rewrite Hr in E.
      * apply (Hfin _ _ _ _ (same_core_refl sh)) in E. exact E.
      * inversion E; subst. apply Hsame. unfold th_ok; simpl. auto.
      * apply (Hfin _ _ _ _ (same_core_refl sh)) in E. exact E.
    + unsome H E. unfold crash in E. inversion E; subst. split; [exact Hsh|split; [apply ext_refl|split; [exact I|reflexivity]]].
  - (* PF2 *)
    destruct Hth as [Hs Hb].
    destruct (if meth_eqb (t_cur th) Mppid then ident_check sh else IOk sh) as [sh1|e|] eqn:Ei.
    + assert (Hc1 : same_core sh sh1).
      { destruct (meth_eqb (t_cur th) Mppid); [|inversion Ei; apply same_core_refl].
        unfold ident_check in Ei. destruct (gone_flag sh); [discriminate|].
        destruct (srcs sh Stat); inversion Ei; subst; try apply same_core_refl. apply set_gone_core. }
      destruct (memoized (m_src (t_cur th))).
      * inversion H; subst. split; [eapply same_core_sh_ok; eauto|]. split; [apply same_core_ext; auto|].
        split; [|destruct Hc1 as (_ & _ & _ & ?); auto].
        eapply same_core_th_ok; eauto. unfold th_ok; simpl. auto.
      * unfold do_read in H. unfold read_src in H. destruct (srcs sh1 (m_src (t_cur th))) as [x| |].
        -- destruct sm as [|b].
           ++ unsome H E. apply (Hfin _ _ _ _ Hc1) in E. exact E.
           ++ inversion H; subst. split; [eapply same_core_sh_ok; eauto|]. split; [apply same_core_ext; auto|].
              split; [|destruct Hc1 as (_ & _ & _ & ?); auto].
              eapply same_core_th_ok; eauto. unfold th_ok; simpl.
              destruct Hc1 as (_ & _ & _ & Hck). rewrite Hck. split; auto. split; auto. exact (sm_le_clock sh (MStore b) A).
        -- unsome H E. apply (Hfin _ _ _ _ Hc1) in E. exact E.
        -- unsome H E. apply (Hfin _ _ _ _ Hc1) in E. exact E.
    + unsome H E. apply (Hfin _ _ _ _ (same_core_refl sh)) in E. exact E.
    + unsome H E. apply (Hfin _ _ _ _ (same_core_refl sh)) in E. exact E.
  - (* PP1 *)
    destruct Hth as [Hs Hb]. unsome H E. unfold on_lookup in E.
    destruct (w1_now Proc (KS (m_src (t_cur th))) sh _ eq_refl) as [[Hr Hp]|(c & Hr & Hp)]; rewrite Hr in E.
    + inversion E; subst. apply Hsame. unfold th_ok; simpl. auto.
    + inversion E; subst. apply Hsame. unfold th_ok; simpl. simpl in Hp. split; auto. split; [apply B2; auto|].
      intros P HP. destruct (fm_sm fm) as [|[fc|]]; simpl; auto. simpl in Hb. eapply Hb; eauto.
  - (* PP1b *)
    destruct Hth as (Hs & Hv & Hle). unsome H E. unfold on_lookup in E.
    destruct (w1b_true cid (KS (m_src (t_cur th))) sh _ eq_refl) as [(v & C & Hr & HC & Hin)|[Hr|Hr]]; rewrite Hr in E.
    + destruct (A _ _ HC) as [A1 A2]. destruct (A2 _ _ Hin) as [A3 A4].
      eapply ret_proc_ok in E; auto.
      * destruct E as [Hc Ht]. split; [eapply same_core_sh_ok; eauto|]. split; [apply same_core_ext; auto|].
        split; auto. destruct Hc as (_ & _ & _ & ?); auto.
      * specialize (Hle _ HC). destruct (fm_sm fm) as [|[fc|]]; simpl in *; auto.
        intros C0 H0. specialize (Hle _ H0). lia.
    + inversion E; subst. apply Hsame. unfold th_ok; simpl. auto.
    + apply (Hfin _ _ _ _ (same_core_refl sh)) in E. exact E.
  - (* PP2 *)
    destruct Hth as [Hs Hp]. unfold do_read, read_src in H. destruct (srcs sh (m_src (t_cur th))) as [x| |].
    + destruct pm as [|b].
      * unsome H E. eapply ret_proc_ok in E; simpl; auto; [|apply sm_le_clock; auto].
        destruct E as [Hc Ht]. split; [eapply same_core_sh_ok; eauto|]. split; [apply same_core_ext; auto|].
        split; auto. destruct Hc as (_ & _ & _ & ?); auto.
      * inversion H; subst. apply Hsame. unfold th_ok; simpl.
        split; [exact Hs|split; [exact Hp|split; [exact (sm_le_clock _ (fm_sm fm) A)|split; [exact (sm_le_clock _ (MStore b) A)|lia]]]].
    + unsome H E. apply (Hfin _ _ _ _ (same_core_refl sh)) in E. exact E.
    + unsome H E. apply (Hfin _ _ _ _ (same_core_refl sh)) in E. exact E.
  - (* PP3 *)
    destruct Hth as (Hs & Hp & Hl1 & Hl2 & Hv). unsome H E. unfold on_store in E.
    destruct pm as [|[c|]]; simpl in Hp; try contradiction.
    + simpl in E. eapply ret_proc_ok in E; auto.
      destruct E as [Hc Ht]. split; [eapply same_core_sh_ok; eauto|]. split; [apply same_core_ext; auto|].
      split; auto. destruct Hc as (_ & _ & _ & ?); auto.
    + simpl in E. destruct (py_setitem sh c (KS (m_src (t_cur th))) v) as [sh1|e|] eqn:Es.
      * destruct (setitem_ok _ _ _ _ _ Es Hsh Hl2 Hv) as (S1 & S2 & S3 & S4 & S5 & S6).
        eapply ret_proc_ok in E.
        -- destruct E as [Hc Ht]. split; [eapply same_core_sh_ok; eauto|].
           destruct Hc as (C1 & C2 & C3 & C4).
           split; [|split; [auto|congruence]].
           destruct S2 as (X1 & X2 & X3 & X4). unfold ext. rewrite C1, C3, C4. repeat split; auto.
        -- eapply sm_ok_ext; eauto.
        -- eapply sm_le_ext; eauto.
        -- lia.
      * apply (Hfin _ _ _ _ (same_core_refl sh)) in E. exact E.
      * apply (Hfin _ _ _ _ (same_core_refl sh)) in E. exact E.
  - (* PF3 *)
    destruct Hth as (Hs & Hl & Hv).
    destruct (m_front (t_cur th)) as [fk|].
    + unsome H E. unfold on_store in E.
      destruct sm as [|[c|]]; simpl in Hs; try contradiction.
      * simpl in E. apply (Hfin _ _ _ _ (same_core_refl sh)) in E. exact E.
      * simpl in E. destruct (py_setitem sh c (KF fk) v) as [sh1|e|] eqn:Es.
        -- destruct (setitem_ok _ _ _ _ _ Es Hsh Hl Hv) as (S1 & S2 & S3 & S4 & S5 & S6).
           apply finish_core in E. destruct E as [Hc Hlp].
           split; [eapply same_core_sh_ok; eauto|]. destruct Hc as (C1 & C2 & C3 & C4).
           split; [|split; [apply load_pc_th_ok; auto|congruence]].
           destruct S2 as (X1 & X2 & X3 & X4). unfold ext. rewrite C1, C3, C4. repeat split; auto.
        -- apply (Hfin _ _ _ _ (same_core_refl sh)) in E. exact E.
        -- apply (Hfin _ _ _ _ (same_core_refl sh)) in E. exact E.
    + unsome H E. unfold crash in E. inversion E; subst. split; [exact Hsh|split; [apply ext_refl|split; [exact I|reflexivity]]].
Qed.

(* ------------------------------------------------------------------ the lock protocol *)
Definition crit1 (p : pc) : nat := match p with PTest | PAct _ => 1 | _ => 0 end.
Definition hcount th := length (t_stk th) + crit1 (t_pc th).
Definition lock_ge (i : nat) sh (n : nat) := n > 0 -> exists m, lock sh = Some (i, m) /\ n <= m.
Definition pdel_ok th := forall k, t_pc th = PDel k -> t_stk th <> [].
Definition keeps (i : nat) sh sh' := forall m, lock sh = Some (i, m) -> lock sh' = None \/ exists m', lock sh' = Some (i, m').

Lemma unlock_ge i sh n : lock_ge i sh (S n) -> lock_ge i (unlock sh) n.
Proof.
  intros H Hn. destruct H as (m & E & Hm); [lia|]. unfold unlock. rewrite E. simpl.
  destruct m as [|[|m']]; try lia. exists (S m'). split; auto. lia.
Qed.
Lemma unlock_keeps i sh : keeps i sh (unlock sh).
Proof. intros m E. unfold unlock. rewrite E. simpl. destruct m as [|[|m']]; eauto. Qed.
Lemma keeps_refl i sh : keeps i sh sh.
Proof. intros m E. eauto. Qed.
Lemma strip_nested_lock i : forall stk sh s sh',
  strip_nested stk sh = (s, sh') -> lock_ge i sh (length stk) ->
  lock_ge i sh' (length s) /\ (stk = [] -> sh' = sh) /\ (forall f r, s = f :: r -> f = Real) /\
  (lock sh' = lock sh \/ exists m, lock sh = Some (i, m) /\ (lock sh' = None \/ exists m', lock sh' = Some (i, m'))).
Proof.
  induction stk as [|[|] r IH]; intros sh s sh' H Hg; simpl in H.
  - inversion H; subst. repeat split; auto. intros f r E; discriminate.
  - inversion H; subst. repeat split; auto; try discriminate. intros f r0 E; inversion E; auto.
  - apply IH in H; [|apply unlock_ge; exact Hg]. destruct H as (H1 & H2 & H3 & H4).
    split; auto. split; [discriminate|]. split; auto.
    destruct Hg as (m & E & Hm); [simpl; lia|]. right. exists m. split; auto.
    destruct H4 as [H4|(m1 & E1 & H4)].
    + rewrite H4. unfold unlock. rewrite E. simpl. destruct m as [|[|m']]; eauto.
    + exact H4.
Qed.

(* what [load] does to the lock, given that the lock covers the thread's open frames *)
Definition lock_step (i : nat) sh (n : nat) sh' th' :=
  lock_ge i sh' (hcount th') /\ pdel_ok th' /\ (n = 0 -> lock sh' = lock sh) /\
  (lock sh' = lock sh \/ exists m, lock sh = Some (i, m) /\ (lock sh' = None \/ exists m', lock sh' = Some (i, m'))).

Lemma lock_step_unlock i sh n sh' th' :
  lock_ge i sh (S n) -> lock_step i (unlock sh) n sh' th' -> lock_step i sh (S n) sh' th'.
Proof.
  intros Hg (H1 & H2 & H3 & H4). split; auto. split; auto. split; [lia|].
  destruct Hg as (m & E & Hm); [lia|]. right. exists m. split; auto.
  assert (Hu : lock (unlock sh) = None \/ exists m', lock (unlock sh) = Some (i, m')).
  { unfold unlock. rewrite E. simpl. destruct m as [|[|m']]; eauto. }
  destruct H4 as [H4|(m1 & E1 & H4)]; [rewrite H4; exact Hu|exact H4].
Qed.

Lemma load_lock i : forall ops sh th sh' th',
  load ops sh th = (sh', th') -> lock_ge i sh (length (t_stk th)) -> lock_step i sh (length (t_stk th)) sh' th'.
Proof.
  induction ops as [|o r IH]; intros sh th sh' th' H Hg; simpl in H.
  - inversion H; subst. unfold lock_step, hcount, pdel_ok; simpl. rewrite Nat.add_0_r. repeat split; auto; discriminate.
  - destruct o as [| | |c|e].
    + inversion H; subst. unfold lock_step, hcount, pdel_ok; simpl. rewrite Nat.add_0_r. repeat split; auto; discriminate.
    + destruct (t_stk th) as [|[|] s] eqn:Es.
      * apply IH in H; rewrite Es in *; auto.
      * inversion H; subst. unfold lock_step, hcount, pdel_ok; simpl. rewrite Es, Nat.add_0_r.
        repeat split; auto; try discriminate. simpl in Hg. exact Hg.
      * simpl in Hg. apply IH in H; simpl; [|apply unlock_ge; exact Hg]. simpl in H.
        apply lock_step_unlock; auto.
    + destruct (strip_nested (t_stk th) sh) as [s sh1] eqn:Es.
      destruct (strip_nested_lock i _ _ _ _ Es Hg) as (S1 & S2 & S3 & S4).
      destruct s as [|f s].
      * apply IH in H; simpl; [|exact S1]. simpl in H. destruct H as (H1 & H2 & H3 & H4).
        split; auto. split; auto. split.
        -- intros Hz. destruct (t_stk th); [|discriminate]. rewrite (S2 eq_refl) in *. auto.
        -- destruct S4 as [S4|(m & E & S4)].
           ++ destruct H4 as [H4|(m & E & H4)]; [left; congruence|right; exists m; rewrite <- S4; auto].
           ++ right. exists m. split; auto. destruct H4 as [H4|(m1 & E1 & H4)]; [rewrite H4; auto|auto].
      * inversion H; subst. rewrite (S3 _ _ eq_refl) in *.
        unfold lock_step, hcount, pdel_ok; simpl. rewrite Nat.add_0_r. split; [exact S1|]. split; [discriminate|].
        split; auto. intros Hz. destruct (t_stk th); [|discriminate]. rewrite (S2 eq_refl). auto.
    + destruct c as [m| |o].
      * inversion H; subst. unfold lock_step, hcount, pdel_ok; simpl.
        assert (crit1 (match m_front m with Some _ => PF1 | None => PP1 FNone end) = 0) by (destruct (m_front m); auto).
        rewrite H0, Nat.add_0_r. repeat split; auto. destruct (m_front m); discriminate.
      * apply IH in H; auto.
      * apply IH in H; auto.
    + inversion H; subst. unfold lock_step, hcount, pdel_ok; simpl. rewrite Nat.add_0_r. repeat split; auto; discriminate.
Qed.

(* pc-only steps of a call *)
Lemma pc_only_lock i sh th p :
  crit1 p = 0 -> (forall k, p <> PDel k) -> lock_ge i sh (length (t_stk th)) ->
  lock_step i sh (length (t_stk th)) sh (th_pc th p).
Proof.
  intros Hc Hd Hg. unfold lock_step, hcount, pdel_ok; simpl. rewrite Hc, Nat.add_0_r.
  repeat split; auto. intros k E. exfalso. eapply Hd; eauto.
Qed.

Definition lk i sh th (p : shared * thread) := lock_step i sh (length (t_stk th)) (fst p) (snd p).

Lemma finish_lock i sh0 sh th0 th o :
  lock sh0 = lock sh -> t_stk th0 = t_stk th -> lock_ge i sh (length (t_stk th)) -> lk i sh th (finish sh0 th0 o).
Proof.
  intros El Es Hg. unfold lk, finish. destruct (load (t_ops th0) sh0 (push_res th0 (mk_result sh0 th0 o))) as [a b] eqn:E.
  apply (load_lock i) in E; simpl; rewrite ?Es; [|unfold lock_ge in *; rewrite El; exact Hg].
  simpl in E. rewrite Es in E. unfold lock_step in *. rewrite El in E. exact E.
Qed.

Lemma ret_proc_lock i sh0 sh th0 th fm v :
  lock sh0 = lock sh -> t_stk th0 = t_stk th -> lock_ge i sh (length (t_stk th)) -> lk i sh th (ret_proc sh0 th0 fm v).
Proof.
  intros El Es Hg. unfold ret_proc.
  assert (Hpc : forall th1 sm v', t_stk th1 = t_stk th -> lk i sh th (sh0, th_pc th1 (PF3 sm v'))).
  { intros th1 sm v' E1. unfold lk; simpl. rewrite <- E1.
    assert (X := pc_only_lock i sh0 th1 (PF3 sm v') eq_refl). unfold lock_step in *. rewrite El in X.
    apply X; [discriminate|]. rewrite E1. unfold lock_ge in *. rewrite El. exact Hg. }
  destruct (meth_eqb (t_cur th0) Mmemory_full).
  - unfold do_read. destruct (read_src sh0 Statm) as [x|e|]; simpl;
      try (apply finish_lock; auto).
    destruct fm as [|[|b]]; try (apply finish_lock; auto). apply Hpc; auto.
  - destruct fm as [|[|b]]; try (apply finish_lock; auto). apply Hpc; auto.
Qed.

Lemma deactivate_val l sh : exists sh1, deactivate l sh = Val sh1 /\ lock sh1 = lock sh /\
  ptr l sh1 = None /\ (forall l', l' <> l -> ptr l' sh1 = ptr l' sh).
Proof.
  unfold deactivate, py_delcache. destruct (ptr l sh) eqn:E; simpl.
  - eexists; split; [reflexivity|]. destruct l; simpl; repeat split; auto; intros [|] Hn; try congruence; reflexivity.
  - exists sh. repeat split; auto.
Qed.

Lemma thread_step_lock vr tid sh th sh' th' :
  thread_step vr tid sh th = Some (sh', th') ->
  lock_ge tid sh (hcount th) -> pdel_ok th ->
  lock_ge tid sh' (hcount th') /\ pdel_ok th' /\
  (hcount th = 0 -> t_pc th <> PAcq -> lock sh' = lock sh) /\
  (t_pc th = PAcq -> (lock sh = None \/ exists n, lock sh = Some (tid, n)) /\ exists m, lock sh' = Some (tid, m)) /\
  (forall m, lock sh = Some (tid, m) -> lock sh' = None \/ exists m', lock sh' = Some (tid, m')).
Proof.
  intros H Hg Hd. unfold thread_step in H.
  (* every call step ends in one of the helpers below, with lock and frames untouched *)
  assert (Hlk : forall p, (forall k, t_pc th <> PDel k) -> crit1 (t_pc th) = 0 -> t_pc th <> PAcq ->
                 lk tid sh th p -> Some p = Some (sh', th') ->
    lock_ge tid sh' (hcount th') /\ pdel_ok th' /\
    (hcount th = 0 -> t_pc th <> PAcq -> lock sh' = lock sh) /\
    (t_pc th = PAcq -> (lock sh = None \/ exists n, lock sh = Some (tid, n)) /\ exists m, lock sh' = Some (tid, m)) /\
    (forall m, lock sh = Some (tid, m) -> lock sh' = None \/ exists m', lock sh' = Some (tid, m'))).
  { intros p _ Hc Hna (L1 & L2 & L3 & L4) E. inversion E; subst p; simpl in *.
    split; auto. split; auto. split.
    - intros Hz _. apply L3. unfold hcount in Hz. lia.
    - split; [intros; contradiction|]. intros m Em. destruct L4 as [L4|(m1 & E1 & L4)].
      + right. exists m. congruence.
      + rewrite Em in E1. inversion E1; subst. exact L4. }
  assert (Hg0 : crit1 (t_pc th) = 0 -> lock_ge tid sh (length (t_stk th))).
  { intros Hc. unfold hcount in Hg. rewrite Hc, Nat.add_0_r in Hg. exact Hg. }
  destruct (t_pc th) as [| | |k|k|e| |cid|sm|fm|fm cid|fm pm|fm pm v|sm v] eqn:Epc.
  - discriminate.
  - (* PAcq *)
    unfold hcount in *. rewrite Epc in *. simpl in *. rewrite Nat.add_0_r in Hg.
    destruct (lock sh) as [[o n]|] eqn:El.
    + destruct (Nat.eqb o tid) eqn:Eo; [|discriminate]. apply Nat.eqb_eq in Eo. subst o.
      inversion H; subst. simpl. split.
      * intros _. exists (S n). split; auto. destruct (Nat.eq_dec (length (t_stk th)) 0) as [Hz|Hz]; [lia|].
        destruct Hg as (m & Em & Hm); [lia|]. inversion Em; subst. lia.
      * split; [intros k Hk; discriminate|]. split; [intros _ Hn; congruence|]. split; [intros _; split; eauto|]. intros m Em. eauto.
    + inversion H; subst. simpl. split.
      * intros _. exists 1. split; auto. destruct (Nat.eq_dec (length (t_stk th)) 0) as [Hz|Hz]; [lia|].
        destruct Hg as (m & Em & Hm); [lia|]. discriminate.
      * split; [intros k Hk; discriminate|]. split; [intros _ Hn; congruence|]. split; [intros _; split; eauto|]. intros m Em; discriminate.
  - (* PTest *)
    unfold hcount in Hg. rewrite Epc in Hg. simpl in Hg.
    destruct (fptr sh).
    + unsome H E. apply (load_lock tid) in E; simpl; [|rewrite Nat.add_1_r in Hg; exact Hg].
      simpl in E. destruct E as (L1 & L2 & L3 & L4). split; auto. split; auto.
      split; [unfold hcount; rewrite Epc; simpl; lia|]. split; [discriminate|].
      intros m Em. destruct L4 as [L4|(m1 & E1 & L4)]; [right; exists m; congruence|].
      rewrite Em in E1. inversion E1; subst. exact L4.
    + inversion H; subst. unfold hcount; simpl. split; [exact Hg|]. split; [intros k Hk; discriminate|].
      split; [rewrite Epc; simpl; lia|]. split; [discriminate|]. intros m Em; eauto.
  - (* PAct *)
    unfold hcount in Hg. rewrite Epc in Hg. simpl in Hg.
    assert (El : lock (activate (if Nat.ltb k 4 then Front else Proc) sh) = lock sh) by (destruct (Nat.ltb k 4); reflexivity).
    destruct (Nat.ltb k 6).
    + inversion H; subst. unfold hcount; simpl. unfold lock_ge. rewrite El.
      split; [exact Hg|]. split; [intros k0 Hk; discriminate|]. split; [rewrite Epc; simpl; lia|].
      split; [discriminate|]. intros m Em; eauto.
    + unsome H E. apply (load_lock tid) in E; simpl; [|unfold lock_ge; rewrite El; rewrite Nat.add_1_r in Hg; exact Hg].
      simpl in E. destruct E as (L1 & L2 & L3 & L4). rewrite El in *. split; auto. split; auto.
      split; [unfold hcount; rewrite Epc; simpl; lia|]. split; [discriminate|].
      intros m Em. destruct L4 as [L4|(m1 & E1 & L4)]; [right; exists m; congruence|].
      rewrite Em in E1. inversion E1; subst. exact L4.
  - (* PDel *)
    unfold hcount in Hg. rewrite Epc in Hg. simpl in Hg. rewrite Nat.add_0_r in Hg.
    destruct (deactivate_val (if Nat.ltb k 4 then Front else Proc) sh) as (sh1 & Ed & El & _). rewrite Ed in H.
    assert (Hne : t_stk th <> []) by (eapply Hd; eauto).
    destruct (Nat.ltb k 6).
    + inversion H; subst. unfold hcount; simpl. rewrite Nat.add_0_r. unfold lock_ge. rewrite El.
      split; [exact Hg|]. split; [intros k0 Hk; exact Hne|]. split; [intros Hz; rewrite Epc in Hz; simpl in Hz; destruct (t_stk th); [congruence|simpl in Hz; lia]|].
      split; [discriminate|]. intros m Em; eauto.
    + unsome H E. destruct (t_stk th) as [|f s] eqn:Es; [congruence|]. simpl in E, Hg.
      assert (Hg1 : lock_ge tid sh1 (S (length s))) by (unfold lock_ge in *; rewrite El; exact Hg).
      apply (load_lock tid) in E; simpl; [|apply unlock_ge; exact Hg1].
      simpl in E. apply lock_step_unlock in E; auto. destruct E as (L1 & L2 & L3 & L4). rewrite El in *.
      split; auto. split; auto. split; [unfold hcount; rewrite Epc; simpl; lia|]. split; [discriminate|].
      intros m Em. destruct L4 as [L4|(m1 & E1 & L4)]; [right; exists m; congruence|].
      rewrite Em in E1. inversion E1; subst. exact L4.
  - (* PEnv *)
    eapply Hlk; [discriminate|reflexivity|discriminate| |exact H].
    unfold lk. destruct (load (t_ops th) (apply_env e sh) th) as [a b] eqn:E.
    assert (El : lock (apply_env e sh) = lock sh) by (destruct e; reflexivity).
    apply (load_lock tid) in E; [|unfold lock_ge; rewrite El; apply Hg0; reflexivity].
    simpl. unfold lock_step in *. rewrite El in E. exact E.
  - (* PF1 *)
    eapply Hlk; [discriminate|reflexivity|discriminate| |exact H]. specialize (Hg0 eq_refl).
    destruct (m_front (t_cur th)) as [fk|].
    + unfold on_lookup. destruct (w1 vr Front (KF fk) sh).
      * apply finish_lock; auto.
      * apply pc_only_lock; auto; discriminate.
      * apply pc_only_lock; auto; discriminate.
      * apply finish_lock; auto.
    + unfold crash, lk; simpl. unfold lock_step, hcount, pdel_ok; simpl. rewrite Nat.add_0_r. repeat split; auto; discriminate.
  - (* PF1b *)
    eapply Hlk; [discriminate|reflexivity|discriminate| |exact H]. specialize (Hg0 eq_refl).
    destruct (m_front (t_cur th)) as [fk|].
    + unfold on_lookup. destruct (w1b true cid (KF fk) sh).
      * apply finish_lock; auto.
      * apply pc_only_lock; auto; discriminate.
      * apply pc_only_lock; auto; discriminate.
      * apply finish_lock; auto.
    + unfold crash, lk; simpl. unfold lock_step, hcount, pdel_ok; simpl. rewrite Nat.add_0_r. repeat split; auto; discriminate.
  - (* PF2 *)
    specialize (Hg0 eq_refl).
    destruct (if meth_eqb (t_cur th) Mppid then ident_check sh else IOk sh) as [sh1|e|] eqn:Ei.
    + assert (El : lock sh1 = lock sh).
      { destruct (meth_eqb (t_cur th) Mppid); [|inversion Ei; auto].
        unfold ident_check in Ei. destruct (gone_flag sh); [discriminate|]. destruct (srcs sh Stat); inversion Ei; auto. }
      assert (Hpc : forall th1 p, t_stk th1 = t_stk th -> crit1 p = 0 -> (forall k, p <> PDel k) -> lk tid sh th (sh1, th_pc th1 p)).
      { intros th1 p E1 Hc Hk. unfold lk; simpl. rewrite <- E1.
        assert (X := pc_only_lock tid sh1 th1 p Hc Hk). unfold lock_step in *. rewrite El in X. apply X.
        rewrite E1. unfold lock_ge in *. rewrite El. exact Hg0. }
      eapply Hlk; [discriminate|reflexivity|discriminate| |exact H].
      destruct (memoized (m_src (t_cur th))).
      * apply Hpc; auto; discriminate.
      * unfold do_read. destruct (read_src sh1 (m_src (t_cur th))) as [x|e|].
        -- destruct sm; [apply finish_lock; auto|apply Hpc; auto; discriminate].
        -- apply finish_lock; auto.
        -- apply finish_lock; auto.
    + eapply Hlk; [discriminate|reflexivity|discriminate| |exact H]. apply finish_lock; auto.
    + eapply Hlk; [discriminate|reflexivity|discriminate| |exact H]. apply finish_lock; auto.
  - (* PP1 *)
    eapply Hlk; [discriminate|reflexivity|discriminate| |exact H]. specialize (Hg0 eq_refl).
    unfold on_lookup. destruct (w1 vr Proc (KS (m_src (t_cur th))) sh).
    + apply ret_proc_lock; auto.
    + apply pc_only_lock; auto; discriminate.
    + apply pc_only_lock; auto; discriminate.
    + apply finish_lock; auto.
  - (* PP1b *)
    eapply Hlk; [discriminate|reflexivity|discriminate| |exact H]. specialize (Hg0 eq_refl).
    unfold on_lookup. destruct (w1b true cid (KS (m_src (t_cur th))) sh).
    + apply ret_proc_lock; auto.
    + apply pc_only_lock; auto; discriminate.
    + apply pc_only_lock; auto; discriminate.
    + apply finish_lock; auto.
  - (* PP2 *)
    specialize (Hg0 eq_refl). unfold do_read in H.
    eapply Hlk; [discriminate|reflexivity|discriminate| |exact H].
    destruct (read_src sh (m_src (t_cur th))) as [x|e|].
    + destruct pm.
      * apply ret_proc_lock; auto.
      * assert (X := pc_only_lock tid sh (th_count th (m_src (t_cur th))) (PP3 fm (MStore b) x) eq_refl).
        apply X; auto; discriminate.
    + apply finish_lock; auto.
    + apply finish_lock; auto.
  - (* PP3 *)
    eapply Hlk; [discriminate|reflexivity|discriminate| |exact H]. specialize (Hg0 eq_refl).
    unfold on_store.
    assert (Hw : forall sh1, w3 vr Proc (KS (m_src (t_cur th))) pm v sh = Val sh1 -> lock sh1 = lock sh).
    { unfold w3, py_getcache, py_setitem. intros sh1.
      destruct pm as [|[c|]]; [intros E; inversion E; auto| |].
      - destruct (nth_error (heap sh) c); intros E; inversion E; auto.
      - destruct (ptr Proc sh) as [c|]; simpl.
        + destruct (nth_error (heap sh) c); intros E; inversion E; auto.
        + destruct (handle_l3 vr); intros E; inversion E; auto. }
    destruct (w3 vr Proc (KS (m_src (t_cur th))) pm v sh) as [sh1|e|] eqn:Ew.
    + apply ret_proc_lock; auto.
    + apply finish_lock; auto.
    + apply finish_lock; auto.
  - (* PF3 *)
    eapply Hlk; [discriminate|reflexivity|discriminate| |exact H]. specialize (Hg0 eq_refl).
    destruct (m_front (t_cur th)) as [fk|].
    + unfold on_store.
      assert (Hw : forall sh1, w3 vr Front (KF fk) sm v sh = Val sh1 -> lock sh1 = lock sh).
      { unfold w3, py_getcache, py_setitem. intros sh1.
        destruct sm as [|[c|]]; [intros E; inversion E; auto| |].
        - destruct (nth_error (heap sh) c); intros E; inversion E; auto.
        - destruct (ptr Front sh) as [c|]; simpl.
          + destruct (nth_error (heap sh) c); intros E; inversion E; auto.
          + destruct (handle_l3 vr); intros E; inversion E; auto. }
      destruct (w3 vr Front (KF fk) sm v sh) as [sh1|e|] eqn:Ew.
      * apply finish_lock; auto.
      * apply finish_lock; auto.
      * apply finish_lock; auto.
    + unfold crash, lk; simpl. unfold lock_step, hcount, pdel_ok; simpl. rewrite Nat.add_0_r. repeat split; auto; discriminate.
Qed.
