(* C16 -- small list lemmas and reachability. *)
From PV Require Export C16.Spec.
Local Open Scope nat_scope.

Lemma upd_nth_length {A} n (f : A -> A) l : length (upd_nth n f l) = length l.
Proof. revert n; induction l as [|x l IH]; intros [|n]; simpl; auto. Qed.

Lemma nth_error_upd_nth_eq {A} n (f : A -> A) l x :
  nth_error l n = Some x -> nth_error (upd_nth n f l) n = Some (f x).
Proof. revert n; induction l as [|y l IH]; intros [|n]; simpl; intros H; try discriminate; auto. now inversion H. Qed.

Lemma nth_error_upd_nth_neq {A} n m (f : A -> A) l :
  n <> m -> nth_error (upd_nth n f l) m = nth_error l m.
Proof. revert n m; induction l as [|y l IH]; intros [|n] [|m]; simpl; intros H; auto; try congruence. Qed.

Lemma nth_error_upd_nth_inv {A} n m (f : A -> A) l y :
  nth_error (upd_nth n f l) m = Some y ->
  (m = n /\ exists x, nth_error l n = Some x /\ y = f x) \/ (m <> n /\ nth_error l m = Some y).
Proof.
  intros H. destruct (Nat.eq_dec m n) as [->|Hne].
  - left. split; auto. destruct (nth_error l n) as [x|] eqn:E.
    + rewrite (nth_error_upd_nth_eq _ _ _ _ E) in H. inversion H. eauto.
    + apply nth_error_None in E. assert (nth_error (upd_nth n f l) n = None).
      { apply nth_error_None. now rewrite upd_nth_length. } congruence.
  - right. split; auto. rewrite nth_error_upd_nth_neq in H; auto.
Qed.

Lemma In_upd_nth {A} n (f : A -> A) l y :
  In y (upd_nth n f l) -> In y l \/ exists x, nth_error l n = Some x /\ y = f x.
Proof.
  intros H. apply In_nth_error in H. destruct H as [m H].
  apply nth_error_upd_nth_inv in H. destruct H as [[-> [x [E ->]]]|[_ H]]; eauto using nth_error_In.
Qed.

(* ------------------------------------------------------------------ reachability *)
Inductive reach (vr : variant) (c0 : cfg) : cfg -> Prop :=
| reach_init : reach vr c0 c0
| reach_step : forall c t c', reach vr c0 c -> lts_step vr c t = Some c' -> reach vr c0 c'.

Lemma run_sched_reach vr c0 sch : forall c, reach vr c0 c -> reach vr c0 (run_sched vr c sch).
Proof.
  induction sch as [|t r IH]; intros c H; simpl; auto.
  apply IH. unfold sched_step. destruct (lts_step vr c t) eqn:E; auto. eapply reach_step; eauto.
Qed.

(* invariants of the form  P (shared) /\ every thread satisfies Q (shared)  *)
Lemma lts_step_inv vr c t c' :
  lts_step vr c t = Some c' ->
  exists th sh' th', nth_error (c_ths c) t = Some th /\ thread_step vr t (c_sh c) th = Some (sh', th')
                     /\ c' = mkCfg (tick sh') (upd_nth t (fun _ => th') (c_ths c)).
Proof.
  unfold lts_step. destruct (nth_error (c_ths c) t) as [th|] eqn:E; try discriminate.
  destruct (thread_step vr t (c_sh c) th) as [[sh' th']|] eqn:E2; try discriminate.
  intros H; inversion H; eauto 10.
Qed.
