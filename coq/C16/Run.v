(* Entry points evaluated by the correspondence harness (props/C16.py). *)
From PV Require Export C16.Spec C16.Mgr.
Local Open Scope nat_scope.

Definition jn (n : nat) : jv := JZ (Z.of_nat n).
Definition jv_on (o : outcome nat) : jv := jv_outcome jn o.
Definition jv_cnt (l : list nat) : jv := JL (map jn l).

Definition srcs_of (l : list sstate) : src -> sstate :=
  fun s => nth (match s with Stat => 0 | Status => 1 | Smaps => 2 | Statm => 3 end) l SGone.

Definition jv_result (r : result) : jv := JL [jv_on (ver_of (r_out r)); jv_cnt (r_cnt r)].
Definition jv_sqres (x : outcome nat * list nat) : jv := JL [jv_on (fst x); jv_cnt (snd x)].
Definition jv_sres (x : sres) : jv := JL [jv_on (fst x); jopt jv_cnt (snd x)].
Definition jv_ptrs (sh : shared) : jv :=
  JL [jbool (match fptr sh with Some _ => true | None => false end);
      jbool (match pptr sh with Some _ => true | None => false end)].

(* ---- one thread, whole history: interleaving semantics run alone, sequential reading, specification *)
Definition run_hist (vr : variant) (init : list sstate) (h : list op) (fuel : nat) : jv :=
  let c := run_sched vr (init_cfg (srcs_of init) [h]) (repeat 0 fuel) in
  let q := sq_run (sq_init (srcs_of init)) h in
  let th := nth 0 (c_ths c) blank_thread in
  JL [ JL (map jv_result (rev (t_res th)));
       jbool (match t_pc th with PDone => true | _ => false end);
       jv_ptrs (c_sh c);
       JL (map jv_sqres (rev (q_res q)));
       jv_ptrs (q_sh q);
       jopt (fun rs => JL (map jv_sres rs)) (spec_run (srcs_of init) h) ].

(* ---- threads under a schedule *)
Definition thread_in_block (th : thread) : bool :=
  match t_stk th with _ :: _ => true | [] => match t_pc th with PTest | PAct _ | PDel _ => true | _ => false end end.
Definition cfg_in_block (c : cfg) : bool := existsb thread_in_block (c_ths c).

(* configurations before each executed step (list index = clock) and the final one *)
Fixpoint trace_sched vr (c : cfg) (sch : list nat) : list cfg * cfg :=
  match sch with
  | [] => ([], c)
  | t :: r => match lts_step vr c t with
              | Some c' => let (l, f) := trace_sched vr c' r in (c :: l, f)
              | None => trace_sched vr c r
              end
  end.
Definition timeline_of (tr : list cfg) (final : cfg) : timeline :=
  mkTl (fun t s => srcs (c_sh (nth t tr final)) s) (fun t => cfg_in_block (nth t tr final)).

Fixpoint callees (p : list op) : list callee :=
  match p with [] => [] | OCall c :: r => c :: callees r | _ :: r => callees r end.

Definition jv_tres (tl : timeline) (x : callee * result) : jv :=
  let (c, r) := x in
  JL [ jv_on (ver_of (r_out r)); jv_cnt (r_cnt r);
       match c with
       | CM m => JL (map jv_on (allowed tl m (r_t0 r) (r_t1 r)))
       | _ => jnone
       end;
       match c with
       | CM m => jbool (is_allowed tl m (r_t0 r) (r_t1 r) (ver_of (r_out r)))
       | _ => jbool true
       end ].

Definition run_threads (vr : variant) (init : list sstate) (progs : list (list op)) (sch : list nat) : jv :=
  let c0 := init_cfg (srcs_of init) progs in
  let (tr, c) := trace_sched vr c0 sch in
  let tl := timeline_of tr c in
  JL [ JL (map (fun pt => JL (map (jv_tres tl) (combine (callees (fst pt)) (rev (t_res (snd pt))))))
              (combine progs (c_ths c)));
       JL (map (fun th => jbool (match t_pc th with PDone => true | _ => false end)) (c_ths c));
       jv_ptrs (c_sh c) ].

(* ---- as_dict *)
Definition jv_adval (a : ad_val) : jv := match a with ADefault => JC "AdValue" [] | AVal v => jn v end.
Definition jv_dict (d : list (bytes * ad_val)) : jv := JL (map (fun kv => JL [JB (fst kv); jv_adval (snd kv)]) d).

Fixpoint lookup_callee (n : bytes) (tbl : list (bytes * callee)) : callee :=
  match tbl with
  | [] => CStub (Val 0)
  | (k, c) :: r => if bytes_eqb n k then c else lookup_callee n r
  end.

(* pre: history executed before the call (e.g. an enclosing Enter, environment events) *)
Definition run_asdict (init : list sstate) (pre : list op) (valid : list bytes) (tbl : list (bytes * callee))
           (attrs : attrs_arg) : jv :=
  let q0 := sq_run (sq_init (srcs_of init)) pre in
  let n0 := length (q_res q0) in
  let (q, r) := as_dict valid (fun n => lookup_callee n tbl) attrs q0 in
  let calls := rev (firstn (length (q_res q) - n0) (q_res q)) in
  let total := fold_left add4 (map snd calls) zero4 in
  JL [ jv_outcome jv_dict r; jv_cnt total; jv_ptrs (q_sh q);
       (* specification: TypeError / ValueError with nothing read; otherwise the policy applied to the
          answers the same methods give inside one oneshot block (sequential ghost machine) *)
       match attrs with
       | ANotColl => JL [jv_outcome jv_dict (Exc TypeError); jv_cnt zero4]
       | _ =>
           let req := match attrs with AColl ns => dedup ns [] | _ => [] end in
           if existsb (fun n => negb (mem_bytes n valid)) req
           then JL [jv_outcome jv_dict (Exc ValueError); jv_cnt zero4]
           else
             let ls := match req with [] => valid | _ => req end in
             let h := pre ++ [OEnter] ++ map (fun n => OCall (lookup_callee n tbl)) ls in
             match spec_run (srcs_of init) h with
             | None => jnone
             | Some rs =>
                 let mine := skipn (length rs - length ls) rs in
                 match spec_ad_collect ls (map fst mine) with
                 | OutOfModel => jnone
                 | o => JL [jv_outcome jv_dict o; jnone]
                 end
             end
       end ].

(* ---- as_dict with attrs elements of any type (the rejection class: at least one element is not a valid name) *)
Definition run_asdict_any (init : list sstate) (pre : list op) (valid : list bytes) (tbl : list (bytes * callee))
           (attrs : attrs_any) : jv :=
  let q0 := sq_run (sq_init (srcs_of init)) pre in
  let n0 := length (q_res q0) in
  let (q, r) := as_dict_any valid (fun n => lookup_callee n tbl) attrs q0 in
  let calls := rev (firstn (length (q_res q) - n0) (q_res q)) in
  let total := fold_left add4 (map snd calls) zero4 in
  JL [ jv_outcome jv_dict r; jv_cnt total; jv_ptrs (q_sh q);
       match attrs with
       | PNotColl => JL [jv_outcome jv_dict (Exc TypeError); jv_cnt zero4]
       | PColl ns => if existsb (fun n => negb (name_valid valid n)) ns
                     then JL [jv_outcome jv_dict (Exc ValueError); jv_cnt zero4]
                     else jnone
       | PNone => jnone
       end ].

(* ---- histories over several Process objects (copies) *)
(* per object inside its own block: the answer each source already gave in that block (the property: every later
   answer in the block is that one -- whatever is done to other objects meanwhile) *)
Fixpoint snap_get (o : nat) (s : src) (l : list (nat * src * nat)) : option nat :=
  match l with
  | [] => None
  | (o', s', v) :: r => if Nat.eqb o o' && src_eqb s s' then Some v else snap_get o s r
  end.
Definition in_own_block (ms : msq) (o : nat) : bool :=
  match nth_error (m_objs ms) o with Some (Some ob) => match o_stk ob with [] => false | _ => true end | _ => false end.

Fixpoint run_copy_go (ms : msq) (h : list mop) (snaps : list (nat * src * nat)) (acc : list jv) : list jv :=
  match h with
  | [] => rev acc
  | e :: r =>
      let ms' := mstep ms e in
      let '(acc', snaps1) :=
        match e, m_res ms' with
        | MOn o (OCall (CM m)), (t, o', _, a) :: _ =>
            if Nat.eqb t (m_time ms)
            then let held := if in_own_block ms o then snap_get o (m_src m) snaps else None in
                 let al := match held with
                           | Some v => Val v :: filter (fun x => match x with Val _ => false | _ => true end) (copy_allowed ms o m)
                           | None => copy_allowed ms o m
                           end in
                 (JL [jn o; jv_on a; JL (map jv_on al); jbool (existsb (outcome_nat_eqb a) al)] :: acc,
                  match a, held with
                  | Val v, None => if in_own_block ms o then (o, m_src m, v) :: snaps else snaps
                  | _, _ => snaps
                  end)
            else (acc, snaps)
        | _, _ => (acc, snaps)
        end in
      let snaps2 := match e with
                    | MOn o _ => if in_own_block ms' o then snaps1 else filter (fun x => negb (Nat.eqb (fst (fst x)) o)) snaps1
                    | _ => snaps1
                    end in
      run_copy_go ms' r snaps2 acc'
  end.
Definition run_copy (init : list sstate) (h : list mop) : jv :=
  let ms := mrun (srcs_of init) h in
  JL [ JL (run_copy_go (m_init (srcs_of init)) h [] []);
       JL (map (fun x => match x with
                         | Some ob => JL [jbool (match o_fptr ob with Some _ => true | None => false end);
                                          jbool (match nth (o_plat ob) (m_plats ms) None with Some _ => true | None => false end)]
                         | None => jnone end) (m_objs ms)) ].

(* ---- histories over oneshot() manager OBJECTS (creation / enter / exit as separate events, Mgr.v):
   the manager model, the sequential reading of the same history written with `with p.oneshot():`, the specification *)
Definition run_mgr (init : list sstate) (h : list gop) : jv :=
  let f := srcs_of init in
  let q := sq_run (sq_init f) (flat_map erase h) in
  JL [ match g_run h (g_init f) with
       | Some g => JL [JL (map jv_sqres (rev (q_res (gs_q g)))); jv_ptrs (q_sh (gs_q g))]
       | None => jnone
       end;
       JL [JL (map jv_sqres (rev (q_res q))); jv_ptrs (q_sh q)];
       jopt (fun rs => JL (map jv_sres rs)) (spec_run f (flat_map erase h)) ].
