(* C16 -- one thread, all histories: the sequential reading refines the ghost machine of the
   specification (Spec.spec_run).  The invariant R also carries what the specification does not
   need to know: Process._gone (set by ppid()'s pre-check) is only ever set once the process is
   gone for good, and inside a block a held stat snapshot then comes with ppid's own answer. *)
From PV Require Import C16.Lib C16.ProofsFresh C16.ProofsSeq.
Local Open Scope nat_scope.

Definition fk_src (fk : fkey) : src :=
  match fk with FPpid | FCpuTimes => Stat | FUids => Status | FMemInfo => Statm end.
Definition vfst (o : option val) : option nat := option_map fst o.

Definition Rb sh (g : gst) : Prop :=
  exists fc pc F P, fptr sh = Some fc /\ pptr sh = Some pc /\ fc <> pc /\
    nth_error (heap sh) fc = Some F /\ nth_error (heap sh) pc = Some P /\
    (forall s, memoized s = true -> vfst (assoc (KS s) (c_ents P)) = g_snap g s) /\
    vfst (assoc (KF FMemInfo) (c_ents F)) = g_snap g Statm /\
    (forall fk v, fk <> FMemInfo -> assoc (KF fk) (c_ents F) = Some v -> g_snap g (fk_src fk) = Some (fst v)).

(* kernel state agrees; "gone" is all-or-nothing and final inside the domain *)
Definition Rcore sh (g : gst) : Prop :=
  (forall s, srcs sh s = g_cur g s) /\
  ((g_dead g = true -> forall s, g_cur g s = SGone) /\ (forall s, g_cur g s = SGone -> g_dead g = true)).
(* Process._gone *)
Definition Rg sh (g : gst) : Prop :=
  (gone_flag sh = true -> g_dead g = true) /\
  (gone_flag sh = true -> g_snap g Stat <> None ->
   forall fc, fptr sh = Some fc -> exists F, nth_error (heap sh) fc = Some F /\ assoc (KF FPpid) (c_ents F) <> None).

Definition R (q : sq) (g : gst) : Prop :=
  Rcore (q_sh q) g /\ Rg (q_sh q) g /\
  match g_depth g with
  | 0 => q_stk q = [] /\ fptr (q_sh q) = None /\ pptr (q_sh q) = None
  | S d => q_stk q = repeat Nested d ++ [Real] /\ Rb (q_sh q) g
  end.

Lemma cnt_bump cn s : cnt_list (bump cn s) = add4 (cnt_list cn) (one s).
Proof. unfold cnt_list, bump, one, add4. destruct s; simpl; f_equal; try lia; f_equal; try lia; f_equal; try lia; f_equal; lia. Qed.
Lemma add4_zero l : length l = 4 -> add4 l zero4 = l.
Proof. destruct l as [|a [|b [|c [|d [|e r]]]]]; simpl; try discriminate. intros _. repeat rewrite Nat.add_0_r. reflexivity. Qed.
Lemma cnt_len cn : length (cnt_list cn) = 4.
Proof. reflexivity. Qed.

Lemma sh_store_nth_eq sh cid k v C : nth_error (heap sh) cid = Some C ->
  nth_error (heap (sh_store sh cid k v)) cid = Some (add_ent k v C).
Proof. intros H. unfold sh_store. simpl. apply nth_error_upd_nth_eq; auto. Qed.
Lemma sh_store_nth_neq sh cid k v c : cid <> c ->
  nth_error (heap (sh_store sh cid k v)) c = nth_error (heap sh) c.
Proof. intros H. unfold sh_store. simpl. apply nth_error_upd_nth_neq; auto. Qed.

Lemma memoized_neq_statm s : memoized s = true -> src_eqb Statm s = false.
Proof. destruct s; simpl; auto; discriminate. Qed.

(* front-level keys only ever get added *)
Definition kf_mono sh sh' :=
  fptr sh' = fptr sh /\
  forall c C, nth_error (heap sh) c = Some C ->
    exists C', nth_error (heap sh') c = Some C' /\ forall fk, assoc (KF fk) (c_ents C) <> None -> assoc (KF fk) (c_ents C') <> None.
Lemma kf_mono_refl sh : kf_mono sh sh.
Proof. split; auto. intros c C H. exists C. auto. Qed.
Lemma kf_mono_trans a b c : kf_mono a b -> kf_mono b c -> kf_mono a c.
Proof.
  intros [A1 A2] [B1 B2]. split; [congruence|]. intros x C H. destruct (A2 _ _ H) as (C1 & H1 & M1).
  destruct (B2 _ _ H1) as (C2 & H2 & M2). exists C2. split; auto.
Qed.
Lemma kf_mono_store sh cid k v : kf_mono sh (sh_store sh cid k v).
Proof.
  split; [reflexivity|]. intros c C H. destruct (Nat.eq_dec cid c) as [->|Hne].
  - exists (add_ent k v C). split; [apply sh_store_nth_eq; auto|]. intros fk Hn. unfold add_ent; cbn [c_ents assoc].
    destruct (key_eqb (KF fk) k); [intros X; discriminate X|exact Hn].
  - exists C. split; [rewrite sh_store_nth_neq; auto|auto].
Qed.
Lemma kf_mono_core sh sh' : same_core sh sh' -> kf_mono sh sh'.
Proof. intros (E1 & E2 & _). split; auto. intros c C H. exists C. rewrite E1. auto. Qed.

Lemma setitem_is_store sh cid k v sh2 : py_setitem sh cid k v = Val sh2 -> sh2 = sh_store sh cid k v.
Proof. unfold py_setitem. destruct (nth_error (heap sh) cid); intros E; inversion E; reflexivity. Qed.

Lemma wrapper_frame l k body :
  (forall s c s1 c1 r1, body s c = (s1, c1, r1) -> kf_mono s s1 /\ gone_flag s1 = gone_flag s) ->
  forall s c s1 c1 r1, sq_wrapper l k body s c = (s1, c1, r1) -> kf_mono s s1 /\ gone_flag s1 = gone_flag s.
Proof.
  intros Hb s c s1 c1 r1. unfold sq_wrapper.
  destruct (py_getcache l s) as [cid|e|]; try (intros E; inversion E; subst; split; [apply kf_mono_refl|reflexivity]; fail).
  - destruct (py_subscript s cid k) as [v|e|]; try (intros E; inversion E; subst; split; [apply kf_mono_refl|reflexivity]; fail).
    destruct e; try (intros E; inversion E; subst; split; [apply kf_mono_refl|reflexivity]; fail).
    destruct (body s c) as [[s2 c2] r2] eqn:Eb. apply Hb in Eb.
    destruct r2 as [v|e|]; try (intros E; inversion E; subst; auto; fail).
    destruct (py_setitem s2 cid k v) as [s3|e|] eqn:Es; intros E; inversion E; subst; auto.
    apply setitem_is_store in Es. subst. destruct Eb as [X1 X2]. split; [|exact X2].
    eapply kf_mono_trans; [exact X1|apply kf_mono_store].
  - destruct e; try (intros E; inversion E; subst; split; [apply kf_mono_refl|reflexivity]; fail). apply Hb.
Qed.
Lemma reader_frame s0 s c s1 c1 r1 : sq_reader s0 s c = (s1, c1, r1) -> kf_mono s s1 /\ gone_flag s1 = gone_flag s.
Proof.
  unfold sq_reader. destruct (memoized s0).
  - apply wrapper_frame. unfold sq_read. intros ? ? ? ? ? E; inversion E; split; [apply kf_mono_refl|reflexivity].
  - unfold sq_read. intros E; inversion E; split; [apply kf_mono_refl|reflexivity].
Qed.

(* the memoized reader of source s inside a block *)
Lemma reader_sim sh g s cn :
  memoized s = true -> Nat.ltb 0 (g_depth g) = true -> Rcore sh g -> Rb sh g ->
  let '(g', o, c) := spec_primary g s in
  exists sh' cn' r, sq_reader s sh cn = (sh', cn', r) /\ ver_of r = o /\ cnt_list cn' = add4 (cnt_list cn) c /\
    Rcore sh' g' /\ Rb sh' g' /\ g_cur g' = g_cur g /\ g_depth g' = g_depth g /\ g_dead g' = g_dead g /\ g_ok g' = g_ok g /\
    (forall v, r = Val v -> g_snap g' s = Some (fst v)) /\ (forall s', s' <> s -> g_snap g' s' = g_snap g s').
Proof.
  intros Hm Hin [Hcur [Hd1 Hd2]] Hb. pose proof Hb as (fc & pc & F & P & Hf & Hp & Hne & HF & HP & H1 & H2 & H3).
  unfold spec_primary. rewrite Hin. unfold sq_reader. rewrite Hm.
  rewrite (wrapper_live Proc (KS s) (sq_read s) sh cn pc P Hp HP).
  pose proof (H1 s Hm) as Hs. destruct (assoc (KS s) (c_ents P)) as [v|] eqn:Ea; simpl in Hs; rewrite <- Hs.
  - exists sh, cn, (Val v). rewrite add4_zero by apply cnt_len. repeat split; auto. intros v0 E; inversion E; subst; auto.
  - unfold sq_read, read_src. rewrite Hcur. destruct (g_cur g s) as [x| |] eqn:Ec.
    + rewrite (setitem_store _ _ _ _ _ HP).
      exists (sh_store sh pc (KS s) (x, clock sh)), (bump cn s), (Val (x, clock sh)).
      split; [reflexivity|]. split; [reflexivity|]. split; [apply cnt_bump|].
      split; [split; auto|]. split.
      * exists fc, pc, F, (add_ent (KS s) (x, clock sh) P).
        split; [exact Hf|]. split; [exact Hp|]. split; auto.
        split; [rewrite sh_store_nth_neq; auto|]. split; [apply sh_store_nth_eq; auto|].
        split; [|split].
        -- intros s' Hm'. simpl. destruct (src_eqb s' s) eqn:E; simpl; auto.
        -- unfold snap_set, g_block; cbn [g_snap]. rewrite (memoized_neq_statm _ Hm). exact H2.
        -- intros fk v Hfk Hv. unfold snap_set, g_block; cbn [g_snap]. destruct (src_eqb (fk_src fk) s) eqn:E; [|apply H3; auto].
           apply src_eqb_eq in E. pose proof (H3 _ _ Hfk Hv) as X. rewrite E in X. congruence.
      * repeat split; simpl; auto.
        -- intros v E; inversion E; subst. rewrite src_eqb_refl. reflexivity.
        -- intros s' Hs'. destruct (src_eqb s' s) eqn:E; auto. apply src_eqb_eq in E. congruence.
    + exists sh, (bump cn s), (Exc AccessDenied). repeat split; auto; try apply cnt_bump. intros v E; discriminate.
    + exists sh, (bump cn s), (Exc NoSuchProcess). repeat split; auto; try apply cnt_bump. intros v E; discriminate.
Qed.

(* storing the answer under the front-level key afterwards *)
Lemma front_store_Rb sh g fk v :
  Rb sh g -> g_snap g (fk_src fk) = Some (fst v) ->
  forall fc F, fptr sh = Some fc -> nth_error (heap sh) fc = Some F -> Rb (sh_store sh fc (KF fk) v) g.
Proof.
  intros (fc & pc & F & P & Hf & Hp & Hne & HF & HP & H1 & H2 & H3) Hs fc' F' Hf' HF'.
  rewrite Hf in Hf'. inversion Hf'; subst fc'. rewrite HF in HF'. inversion HF'; subst F'.
  exists fc, pc, (add_ent (KF fk) v F), P. split; [exact Hf|]. split; [exact Hp|]. split; auto.
  split; [apply sh_store_nth_eq; auto|]. split; [rewrite sh_store_nth_neq; auto|]. split; [exact H1|]. split.
  - simpl. destruct fk; simpl; auto.
  - intros fk' v' Hfk Hv. simpl in Hv. destruct (fkey_eqb fk' fk) eqn:E.
    + apply fkey_eqb_eq in E. subst. inversion Hv; subst. exact Hs.
    + apply H3; auto.
Qed.

Lemma Rcore_store sh g cid k v : Rcore sh g -> Rcore (sh_store sh cid k v) g.
Proof. intros [A B]. split; auto. Qed.

Lemma Rb_core sh sh' g : same_core sh sh' -> Rb sh g -> Rb sh' g.
Proof.
  intros (E1 & E2 & E3 & _) (fc & pc & F & P & X). exists fc, pc, F, P. rewrite E1, E2, E3. exact X.
Qed.
Lemma Rb_core_set sh g b : Rb sh g -> Rb (set_gone sh b) g.
Proof. apply Rb_core. apply set_gone_core. Qed.

Lemma ident_cases sh m :
  (if meth_eqb m Mppid then ident_check sh else IOk sh) = IOk sh \/
  (m = Mppid /\ gone_flag sh = false /\ srcs sh Stat = SGone /\
   (if meth_eqb m Mppid then ident_check sh else IOk sh) = IOk (set_gone sh true)) \/
  (m = Mppid /\ gone_flag sh = true /\ (if meth_eqb m Mppid then ident_check sh else IOk sh) = IRaise NoSuchProcess).
Proof.
  destruct (meth_eqb m Mppid) eqn:E; auto.
  assert (m = Mppid) by (destruct m; simpl in E; congruence).
  unfold ident_check. destruct (gone_flag sh) eqn:Eg; [right; right; auto|].
  destruct (srcs sh Stat) eqn:Es; auto. right; left; auto.
Qed.

Definition gsame (g g' : gst) := g_cur g' = g_cur g /\ g_depth g' = g_depth g /\ g_dead g' = g_dead g /\ g_ok g' = g_ok g.

Lemma add4_zero_l c : length c = 4 -> add4 zero4 c = c.
Proof. destruct c as [|a [|b [|c0 [|d [|e r]]]]]; simpl; try discriminate. reflexivity. Qed.
Lemma spec_primary_len g s g' o c : spec_primary g s = (g', o, c) -> length c = 4.
Proof.
  unfold spec_primary. destruct (if Nat.ltb 0 (g_depth g) then g_snap g s else None).
  - intros E; inversion E; reflexivity.
  - destruct (g_cur g s); intros E; inversion E; reflexivity.
Qed.

(* the platform method body inside a block, for a memoized source; sh1 = state after ppid's pre-check *)
Lemma body_sim sh sh1 g m :
  memoized (m_src m) = true -> Nat.ltb 0 (g_depth g) = true -> Rcore sh1 g -> Rb sh1 g ->
  (if meth_eqb m Mppid then ident_check sh else IOk sh) = IOk sh1 ->
  let '(g', x) := spec_call g m in
  exists sh' cn r, sq_body m sh (fun _ => 0) = (sh', cn, r) /\ proj_res (ver_of r, cnt_list cn) = x /\
    Rcore sh' g' /\ Rb sh' g' /\ gsame g g' /\ (forall v, r = Val v -> g_snap g' (m_src m) = Some (fst v)) /\
    kf_mono sh1 sh' /\ gone_flag sh' = gone_flag sh1.
Proof.
  intros Hm Hin Hcore Hb Hid. pose proof (reader_sim sh1 g (m_src m) (fun _ => 0) Hm Hin Hcore Hb) as Hr.
  unfold spec_call. destruct (spec_primary g (m_src m)) as [[g' o] c] eqn:Ep.
  pose proof (spec_primary_len _ _ _ _ _ Ep) as Hlen.
  destruct Hr as (sh' & cn' & r & Er & Eo & Ec & Rc' & Rb' & G1 & G2 & G3 & G4 & Hv & Hoth).
  change (cnt_list (fun _ : src => 0)) with zero4 in Ec. rewrite (add4_zero_l _ Hlen) in Ec.
  destruct (reader_frame _ _ _ _ _ _ Er) as [Hkf Hfl].
  unfold sq_body. rewrite Hid, Er.
  assert (Hgs : gsame g g') by (repeat split; auto).
  destruct (meth_eqb m Mmemory_full) eqn:Ef.
  - destruct r as [v|e|]; simpl in Eo; subst o.
    + pose proof Rc' as [Hcur' Hg']. unfold read_src. rewrite Hcur', G1.
      destruct (g_cur g Statm) as [y| |] eqn:Est; simpl.
      * exists sh', (bump cn' Statm), (Val v). split; [reflexivity|]. split.
        -- unfold proj_res; simpl. rewrite cnt_bump, Ec. reflexivity.
        -- split; [exact Rc'|split; [exact Rb'|split; [exact Hgs|split; [exact Hv|split; [exact Hkf|exact Hfl]]]]].
      * exists sh', (bump cn' Statm), (Exc AccessDenied). split; [reflexivity|]. split; [reflexivity|].
        split; [exact Rc'|split; [exact Rb'|split; [exact Hgs|split; [intros v0 E; discriminate|split; [exact Hkf|exact Hfl]]]]].
      * exists sh', (bump cn' Statm), (Exc NoSuchProcess). split; [reflexivity|]. split; [reflexivity|].
        split; [exact Rc'|split; [exact Rb'|split; [exact Hgs|split; [intros v0 E; discriminate|split; [exact Hkf|exact Hfl]]]]].
    + exists sh', cn', (Exc e). split; [reflexivity|]. split; [reflexivity|].
      split; [exact Rc'|split; [exact Rb'|split; [exact Hgs|split; [intros v0 E; discriminate|split; [exact Hkf|exact Hfl]]]]].
    + exists sh', cn', OutOfModel. split; [reflexivity|]. split; [reflexivity|].
      split; [exact Rc'|split; [exact Rb'|split; [exact Hgs|split; [intros v0 E; discriminate|split; [exact Hkf|exact Hfl]]]]].
  - destruct r as [v|e|]; simpl in Eo; subst o; simpl.
    + exists sh', cn', (Val v). split; [reflexivity|]. split; [unfold proj_res; simpl; rewrite Ec; reflexivity|].
      split; [exact Rc'|split; [exact Rb'|split; [exact Hgs|split; [exact Hv|split; [exact Hkf|exact Hfl]]]]].
    + exists sh', cn', (Exc e). split; [reflexivity|]. split; [reflexivity|].
      split; [exact Rc'|split; [exact Rb'|split; [exact Hgs|split; [exact Hv|split; [exact Hkf|exact Hfl]]]]].
    + exists sh', cn', OutOfModel. split; [reflexivity|]. split; [reflexivity|].
      split; [exact Rc'|split; [exact Rb'|split; [exact Hgs|split; [exact Hv|split; [exact Hkf|exact Hfl]]]]].
Qed.

Lemma front_of_no_full m fk : m_front m = Some fk -> meth_eqb m Mmemory_full = false /\ fk_src fk = m_src m.
Proof. destruct m; simpl; intros E; inversion E; auto. Qed.
Lemma no_front_memoized m : m_front m = None -> memoized (m_src m) = true.
Proof. destruct m; simpl; intros E; try discriminate; reflexivity. Qed.
Lemma front_not_memoized m fk : m_front m = Some fk -> memoized (m_src m) = false -> m = Mmemory_info /\ fk = FMemInfo.
Proof. destruct m; simpl; intros E1 E2; inversion E1; try discriminate; auto. Qed.
Lemma no_front_not_ppid m : m_front m = None -> meth_eqb m Mppid = false.
Proof. destruct m; simpl; intros E; try discriminate; reflexivity. Qed.

(* once stat is gone the block's stat snapshot cannot change any more *)
Lemma snap_stat_keep g m g' x : spec_call g m = (g', x) -> g_cur g Stat = SGone -> g_snap g' Stat = g_snap g Stat.
Proof.
  unfold spec_call, spec_primary. intros H Hs.
  destruct (if Nat.ltb 0 (g_depth g) then g_snap g (m_src m) else None) as [v|].
  - destruct (meth_eqb m Mmemory_full); [destruct (g_cur g Statm)|]; inversion H; reflexivity.
  - destruct (g_cur g (m_src m)) as [v| |] eqn:Ec; try (inversion H; reflexivity).
    assert (Hne : src_eqb Stat (m_src m) = false).
    { destruct (src_eqb Stat (m_src m)) eqn:E; auto. apply src_eqb_eq in E. rewrite <- E in Ec. congruence. }
    assert (Hg : g_snap (if Nat.ltb 0 (g_depth g) then snap_set g (m_src m) v else g) Stat = g_snap g Stat).
    { destruct (Nat.ltb 0 (g_depth g)); auto. unfold snap_set, g_block; cbn [g_snap]. rewrite Hne. reflexivity. }
    destruct (meth_eqb m Mmemory_full); [destruct (g_cur g Statm)|]; inversion H; subst; exact Hg.
Qed.

(* the facts about Process._gone survive a call *)
Lemma Rg_keep sh sh' g g' :
  Rcore sh g -> Rg sh g -> gsame g g' -> (g_cur g Stat = SGone -> g_snap g' Stat = g_snap g Stat) ->
  kf_mono sh sh' ->
  (gone_flag sh' = true ->
   gone_flag sh = true \/
   (g_cur g Stat = SGone /\
    (g_snap g' Stat <> None -> forall fc, fptr sh' = Some fc ->
       exists F, nth_error (heap sh') fc = Some F /\ assoc (KF FPpid) (c_ents F) <> None))) ->
  Rg sh' g'.
Proof.
  intros (Hcur & Hd1 & Hd2) [Hfl HK] (G1 & G2 & G3 & G4) Hsn [Hfp Hmono] Hflag. split.
  - intros H. rewrite G3. destruct (Hflag H) as [A|[A _]]; [auto|exact (Hd2 Stat A)].
  - intros H Hs fc Hfc. destruct (Hflag H) as [A|[A B]]; [|apply B; auto].
    assert (Hst : g_cur g Stat = SGone) by (apply Hd1; auto).
    rewrite (Hsn Hst) in Hs. rewrite Hfp in Hfc. destruct (HK A Hs _ Hfc) as (F & HF & Ha).
    destruct (Hmono _ _ HF) as (F' & HF' & Hm). exists F'. split; auto.
Qed.

(* one method call: the sequential reading answers what the ghost machine answers *)
Lemma call_sim q g m :
  R q g ->
  let '(g', x) := spec_call g m in
  exists sh' cn r, sq_call m (q_sh q) = (sh', cn, r) /\ proj_res (ver_of r, cnt_list cn) = x /\
    R (mkSq sh' (q_stk q) (q_res q)) g' /\ gsame g g'.
Proof.
  intros (Hcore & Hrg & HR). pose proof Hcore as (Hcur & Hd1 & Hd2). pose proof Hrg as [Hfl HK].
  destruct (g_depth g) as [|d] eqn:Ed.
  - (* outside any block: no dict is live *)
    destruct HR as (Hs & Hf & Hp). unfold spec_call, spec_primary. rewrite Ed. simpl.
    assert (Hcall : sq_call m (q_sh q) = sq_body m (q_sh q) (fun _ => 0)).
    { unfold sq_call. destruct (m_front m); auto. rewrite wrapper_dead; auto. }
    assert (Hgs : gsame g g) by (repeat split).
    assert (HRany : forall sh1, same_core (q_sh q) sh1 -> srcs sh1 = srcs (q_sh q) ->
                     (gone_flag sh1 = true -> g_dead g = true) -> R (mkSq sh1 (q_stk q) (q_res q)) g).
    { intros sh1 (C1 & C2 & C3 & _) Hsr Hg1. split; [split; [intros s; simpl; rewrite Hsr; apply Hcur|split; auto]|].
      split; [split; [exact Hg1|]|].
      - simpl. intros _ _ fc Hfc. rewrite C2, Hf in Hfc. discriminate.
      - rewrite Ed. simpl. rewrite C2, C3. auto. }
    assert (HRq : R (mkSq (q_sh q) (q_stk q) (q_res q)) g).
    { apply HRany; [apply same_core_refl|reflexivity|exact Hfl]. }
    rewrite Hcall.
    destruct (ident_cases (q_sh q) m) as [Hid|[(Hm & Hg0 & Hst & Hid)|(Hm & Hg1 & Hid)]].
    + unfold sq_body. rewrite Hid. unfold sq_reader.
      destruct (memoized (m_src m)) eqn:Em; [rewrite wrapper_dead by exact Hp|]; unfold sq_read, read_src; rewrite Hcur.
      * destruct (meth_eqb m Mmemory_full) eqn:Ef.
        -- assert (m = Mmemory_full) by (destruct m; simpl in Ef; congruence). subst m. simpl.
           destruct (g_cur g Smaps) as [x| |]; simpl.
           ++ rewrite Hcur. destruct (g_cur g Statm) as [y| |]; simpl;
                (eexists; eexists; eexists; split; [reflexivity|]; split; [reflexivity|]; split; [exact HRq|exact Hgs]).
           ++ eexists; eexists; eexists; split; [reflexivity|]; split; [reflexivity|]; split; [exact HRq|exact Hgs].
           ++ eexists; eexists; eexists; split; [reflexivity|]; split; [reflexivity|]; split; [exact HRq|exact Hgs].
        -- destruct (g_cur g (m_src m)) as [x| |]; simpl;
             (eexists; eexists; eexists; split; [reflexivity|]; split; [|split; [exact HRq|exact Hgs]]);
             unfold proj_res; simpl; rewrite ?cnt_bump; reflexivity.
      * assert (Ef : meth_eqb m Mmemory_full = false) by (destruct m; auto; discriminate). rewrite Ef.
        destruct (g_cur g (m_src m)) as [x| |]; simpl;
          (eexists; eexists; eexists; split; [reflexivity|]; split; [|split; [exact HRq|exact Hgs]]);
          unfold proj_res; simpl; rewrite ?cnt_bump; reflexivity.
    + (* ppid, the PID has just been found gone: remembered, and the read fails by itself *)
      subst m.
      assert (Hbd : sq_body Mppid (q_sh q) (fun _ => 0) = (set_gone (q_sh q) true, bump (fun _ => 0) Stat, Exc NoSuchProcess)).
      { unfold sq_body. rewrite Hid. unfold sq_reader. change (memoized (m_src Mppid)) with true. cbv iota.
        rewrite wrapper_dead by exact Hp. unfold sq_read, read_src.
        change (srcs (set_gone (q_sh q) true) (m_src Mppid)) with (srcs (q_sh q) Stat). rewrite Hst. reflexivity. }
      rewrite Hbd. simpl m_src. rewrite <- Hcur, Hst.
      eexists; eexists; eexists; split; [reflexivity|]; split; [reflexivity|]; split; [|exact Hgs].
      apply HRany; [apply set_gone_core|reflexivity|]. intros _. apply (Hd2 Stat). rewrite <- Hcur. exact Hst.
    + (* ppid, the object already knows: NoSuchProcess without looking *)
      subst m.
      assert (Hbd : sq_body Mppid (q_sh q) (fun _ => 0) = (q_sh q, fun _ => 0, Exc NoSuchProcess)).
      { unfold sq_body. rewrite Hid. reflexivity. }
      rewrite Hbd. simpl m_src. rewrite (Hd1 (Hfl Hg1) Stat).
      eexists; eexists; eexists; split; [reflexivity|]; split; [reflexivity|]; split; [exact HRq|exact Hgs].
  - (* inside a block *)
    destruct HR as (Hstk & Hb). pose proof Hb as (fc & pc & F & P & Hf & Hp & Hne & HF & HP & H1 & H2 & H3).
    assert (Hin : Nat.ltb 0 (g_depth g) = true) by (rewrite Ed; reflexivity).
    assert (HRmk : forall sh' g', gsame g g' -> Rcore sh' g' -> Rg sh' g' -> Rb sh' g' -> R (mkSq sh' (q_stk q) (q_res q)) g').
    { intros sh' g' (_ & G2 & _) A B C. split; auto. split; auto. rewrite G2, Ed. auto. }
    assert (Hgs0 : gsame g g) by (repeat split).
    destruct (m_front m) as [fk|] eqn:Efk.
    + destruct (front_of_no_full _ _ Efk) as [Hnf Hsrc].
      unfold sq_call. rewrite Efk.
      rewrite (wrapper_live Front (KF fk) (sq_body m) (q_sh q) (fun _ => 0) fc F Hf HF).
      destruct (assoc (KF fk) (c_ents F)) as [v|] eqn:Ea.
      * (* held by the front-level dict *)
        assert (Hsnap : g_snap g (m_src m) = Some (fst v)).
        { destruct (fkey_eqb fk FMemInfo) eqn:E.
          - apply fkey_eqb_eq in E. subst fk. rewrite Ea in H2. simpl in H2. rewrite <- Hsrc. simpl. auto.
          - rewrite <- Hsrc. apply H3; auto. intros X; subst; discriminate. }
        unfold spec_call, spec_primary. rewrite Hin, Hsnap, Hnf.
        exists (q_sh q), (fun _ => 0), (Val v). split; [reflexivity|]. split; [reflexivity|].
        split; [apply HRmk; auto|exact Hgs0].
      * destruct (memoized (m_src m)) eqn:Em.
        -- destruct (ident_cases (q_sh q) m) as [Hid|[(Hm & Hg0 & Hst & Hid)|(Hm & Hg1 & Hid)]].
           ++ (* pre-check passes *)
              pose proof (body_sim (q_sh q) (q_sh q) g m Em Hin Hcore Hb Hid) as Hbody.
              destruct (spec_call g m) as [g' x] eqn:Esp.
              destruct Hbody as (sh' & cn & r & Eb & Hx & Rc' & Rb' & Gs & Hv & Hkf & Hfg). rewrite Eb.
              assert (Hsn : g_cur g Stat = SGone -> g_snap g' Stat = g_snap g Stat) by (eapply snap_stat_keep; eauto).
              destruct r as [v|e|].
              ** pose proof Rb' as (fc' & pc' & F' & P' & Hf' & Hp' & Hne' & HF' & HP' & _).
                 destruct Hkf as [X1 Hmono]. rewrite Hf, Hf' in X1. inversion X1; subst fc'.
                 rewrite (setitem_store _ _ _ _ _ HF').
                 exists (sh_store sh' fc (KF fk) v), cn, (Val v). split; [reflexivity|]. split; [exact Hx|].
                 split; [|exact Gs]. apply HRmk; [exact Gs|apply Rcore_store; exact Rc'| |].
                 --- eapply Rg_keep; [exact Hcore|exact Hrg|exact Gs|exact Hsn| |].
                     +++ apply kf_mono_trans with sh'; [split; [congruence|exact Hmono]|apply kf_mono_store].
                     +++ intros Hg. left. simpl in Hg. congruence.
                 --- eapply front_store_Rb; eauto. rewrite Hsrc. apply Hv. reflexivity.
              ** exists sh', cn, (Exc e). split; [reflexivity|]. split; [exact Hx|]. split; [|exact Gs].
                 apply HRmk; auto. eapply Rg_keep; [exact Hcore|exact Hrg|exact Gs|exact Hsn|exact Hkf|].
                 intros Hg. left. congruence.
              ** exists sh', cn, OutOfModel. split; [reflexivity|]. split; [exact Hx|]. split; [|exact Gs].
                 apply HRmk; auto. eapply Rg_keep; [exact Hcore|exact Hrg|exact Gs|exact Hsn|exact Hkf|].
                 intros Hg. left. congruence.
           ++ (* ppid: the PID has just been found gone; remembered; the block may still hold stat *)
              assert (Hc1 : Rcore (set_gone (q_sh q) true) g) by exact Hcore.
              assert (Hb1 : Rb (set_gone (q_sh q) true) g) by (eapply Rb_core_set; exact Hb).
              pose proof (body_sim (q_sh q) (set_gone (q_sh q) true) g m Em Hin Hc1 Hb1 Hid) as Hbody.
              destruct (spec_call g m) as [g' x] eqn:Esp.
              destruct Hbody as (sh' & cn & r & Eb & Hx & Rc' & Rb' & Gs & Hv & Hkf & Hfg). rewrite Eb.
              assert (Hst' : g_cur g Stat = SGone) by (rewrite <- Hcur; exact Hst).
              assert (Hsn : g_cur g Stat = SGone -> g_snap g' Stat = g_snap g Stat) by (eapply snap_stat_keep; eauto).
              assert (Hkf0 : kf_mono (q_sh q) sh').
              { eapply kf_mono_trans; [apply kf_mono_core, set_gone_core|exact Hkf]. }
              assert (Hfk : fk = FPpid) by (subst m; simpl in Efk; inversion Efk; reflexivity).
              destruct r as [v|e|].
              ** pose proof Rb' as (fc' & pc' & F' & P' & Hf' & Hp' & Hne' & HF' & HP' & _).
                 destruct Hkf0 as [X1 Hmono]. rewrite Hf, Hf' in X1. inversion X1; subst fc'.
                 rewrite (setitem_store _ _ _ _ _ HF').
                 exists (sh_store sh' fc (KF fk) v), cn, (Val v). split; [reflexivity|]. split; [exact Hx|].
                 split; [|exact Gs]. apply HRmk; [exact Gs|apply Rcore_store; exact Rc'| |].
                 --- eapply Rg_keep; [exact Hcore|exact Hrg|exact Gs|exact Hsn| |].
                     +++ apply kf_mono_trans with sh'; [split; [congruence|exact Hmono]|apply kf_mono_store].
                     +++ intros _. right. split; [exact Hst'|]. intros _ fc0 Hfc0. simpl in Hfc0.
                         rewrite Hf' in Hfc0. inversion Hfc0; subst fc0.
                         exists (add_ent (KF fk) v F'). split; [apply sh_store_nth_eq; auto|].
                         subst fk. simpl. discriminate.
                 --- eapply front_store_Rb; eauto. rewrite Hsrc. apply Hv. reflexivity.
              ** exists sh', cn, (Exc e). split; [reflexivity|]. split; [exact Hx|]. split; [|exact Gs].
                 apply HRmk; auto. eapply Rg_keep; [exact Hcore|exact Hrg|exact Gs|exact Hsn|exact Hkf0|].
                 intros _. right. split; [exact Hst'|]. intros Hs. exfalso.
                 rewrite (Hsn Hst') in Hs. destruct (g_snap g Stat) as [v0|] eqn:Es0; [|congruence].
                 subst m. unfold spec_call, spec_primary in Esp. rewrite Hin in Esp. simpl m_src in Esp. rewrite Es0 in Esp.
                 simpl in Esp. inversion Esp as [[Eg Ex]]. rewrite <- Ex in Hx. unfold proj_res in Hx. simpl in Hx. inversion Hx.
              ** exists sh', cn, OutOfModel. split; [reflexivity|]. split; [exact Hx|]. split; [|exact Gs].
                 apply HRmk; auto. eapply Rg_keep; [exact Hcore|exact Hrg|exact Gs|exact Hsn|exact Hkf0|].
                 intros _. right. split; [exact Hst'|]. intros Hs. exfalso.
                 rewrite (Hsn Hst') in Hs. destruct (g_snap g Stat) as [v0|] eqn:Es0; [|congruence].
                 subst m. unfold spec_call, spec_primary in Esp. rewrite Hin in Esp. simpl m_src in Esp. rewrite Es0 in Esp.
                 simpl in Esp. inversion Esp as [[Eg Ex]]. rewrite <- Ex in Hx. unfold proj_res in Hx. simpl in Hx. inversion Hx.
           ++ (* ppid: the object already knows the PID is gone, and ppid's own answer is not in the block *)
              subst m. unfold sq_body. rewrite Hid.
              assert (Hs0 : g_snap g Stat = None).
              { destruct (g_snap g Stat) as [v0|] eqn:Es0; auto. exfalso.
                destruct (HK Hg1 ltac:(congruence) _ Hf) as (F0 & HF0 & Ha0). rewrite HF in HF0. inversion HF0; subst F0.
                simpl in Efk. inversion Efk; subst fk. congruence. }
              unfold spec_call, spec_primary. rewrite Hin. simpl m_src. rewrite Hs0, (Hd1 (Hfl Hg1) Stat). simpl.
              exists (q_sh q), (fun _ => 0), (Exc NoSuchProcess). split; [reflexivity|]. split; [reflexivity|].
              split; [apply HRmk; auto|exact Hgs0].
        -- (* memory_info: statm is read directly *)
           destruct (front_not_memoized _ _ Efk Em) as [-> ->].
           unfold spec_call, spec_primary. rewrite Hin. simpl m_src. rewrite <- H2, Ea. simpl.
           unfold sq_body. simpl. unfold sq_read, read_src. rewrite Hcur.
           destruct (g_cur g Statm) as [x| |] eqn:Ec; simpl.
           ++ rewrite (setitem_store _ _ _ _ _ HF).
              exists (sh_store (q_sh q) fc (KF FMemInfo) (x, clock (q_sh q))), (bump (fun _ => 0) Statm), (Val (x, clock (q_sh q))).
              split; [reflexivity|]. split; [reflexivity|]. split; [|repeat split].
              apply HRmk; [repeat split|apply Rcore_store; exact Hcore| |].
              ** eapply Rg_keep; [exact Hcore|exact Hrg|repeat split|reflexivity|apply kf_mono_store|].
                 intros Hg. left. exact Hg.
              ** exists fc, pc, (add_ent (KF FMemInfo) (x, clock (q_sh q)) F), P.
                 split; [exact Hf|]. split; [exact Hp|]. split; auto.
                 split; [apply sh_store_nth_eq; auto|]. split; [rewrite sh_store_nth_neq; auto|].
                 split; [|split].
                 --- intros s Hms. unfold snap_set, g_block; cbn [g_snap]. destruct (src_eqb s Statm) eqn:E; [|apply H1; auto].
                     apply src_eqb_eq in E. subst. discriminate.
                 --- reflexivity.
                 --- intros fk v Hfk Hv. unfold snap_set, g_block; cbn [g_snap]. simpl in Hv.
                     destruct (fkey_eqb fk FMemInfo) eqn:E; [apply fkey_eqb_eq in E; congruence|].
                     assert (src_eqb (fk_src fk) Statm = false) by (destruct fk; simpl; auto; congruence).
                     rewrite H. apply H3; auto.
           ++ exists (q_sh q), (bump (fun _ => 0) Statm), (Exc AccessDenied). split; [reflexivity|]. split; [reflexivity|].
              split; [apply HRmk; auto|exact Hgs0].
           ++ exists (q_sh q), (bump (fun _ => 0) Statm), (Exc NoSuchProcess). split; [reflexivity|]. split; [reflexivity|].
              split; [apply HRmk; auto|exact Hgs0].
    + (* no front-level wrapper (never ppid) *)
      assert (Hid : (if meth_eqb m Mppid then ident_check (q_sh q) else IOk (q_sh q)) = IOk (q_sh q))
        by (rewrite (no_front_not_ppid _ Efk); reflexivity).
      pose proof (body_sim (q_sh q) (q_sh q) g m (no_front_memoized _ Efk) Hin Hcore Hb Hid) as Hbody.
      destruct (spec_call g m) as [g' x] eqn:Esp.
      destruct Hbody as (sh' & cn & r & Eb & Hx & Rc' & Rb' & Gs & Hv & Hkf & Hfg).
      unfold sq_call. rewrite Efk. exists sh', cn, r. split; auto. split; auto. split; auto.
      apply HRmk; auto. eapply Rg_keep; [exact Hcore|exact Hrg|exact Gs|eapply snap_stat_keep; eauto|exact Hkf|].
      intros Hg. left. congruence.
Qed.

(* ------------------------------------------------------------------ enter / exit / raise / env *)
Lemma R_ext q g g' :
  g_cur g' = g_cur g -> g_depth g' = g_depth g -> g_snap g' = g_snap g -> g_dead g' = g_dead g -> R q g -> R q g'.
Proof.
  intros E1 E2 E3 E4 ((A & B1 & B2) & (G1 & G2) & C). split; [|split].
  - split; [intros s; rewrite E1; auto|]. rewrite E1, E4. auto.
  - split; [rewrite E4; auto|rewrite E3; auto].
  - rewrite E2. destruct (g_depth g); auto. destruct C as [C1 C2]. split; auto.
    destruct C2 as (fc & pc & F & P & X). exists fc, pc, F, P. rewrite E3. exact X.
Qed.

Lemma nth_error_snoc_eq {A} (l : list A) x : nth_error (l ++ [x]) (length l) = Some x.
Proof. rewrite nth_error_app2 by lia. rewrite Nat.sub_diag. reflexivity. Qed.
Lemma nth_error_snoc_keep {A} (l : list A) x i y : nth_error l i = Some y -> nth_error (l ++ [x]) i = Some y.
Proof. intros H. rewrite nth_error_app1; auto. apply nth_error_Some. congruence. Qed.

Lemma activate_all_Rb sh g : g_snap g = no_snap -> Rb (activate_all sh) g.
Proof.
  intros Hs. unfold activate_all.
  set (a1 := activate Front sh). set (a2 := activate Front a1). set (a3 := activate Front a2).
  set (a4 := activate Front a3). set (a5 := activate Proc a4). set (a6 := activate Proc a5). set (a7 := activate Proc a6).
  assert (H4 : nth_error (heap a4) (length (heap a3)) = Some (mkCache (clock a3) [])).
  { unfold a4. rewrite activate_heap. apply nth_error_snoc_eq. }
  assert (H7 : nth_error (heap a7) (length (heap a6)) = Some (mkCache (clock a6) [])).
  { unfold a7. rewrite activate_heap. apply nth_error_snoc_eq. }
  assert (H4' : nth_error (heap a7) (length (heap a3)) = Some (mkCache (clock a3) [])).
  { unfold a7. rewrite activate_heap. apply nth_error_snoc_keep.
    unfold a6. rewrite activate_heap. apply nth_error_snoc_keep.
    unfold a5. rewrite activate_heap. apply nth_error_snoc_keep. exact H4. }
  exists (length (heap a3)), (length (heap a6)), (mkCache (clock a3) []), (mkCache (clock a6) []).
  split; [reflexivity|]. split; [reflexivity|]. split.
  - unfold a6, a5, a4. rewrite !activate_heap, !app_length. simpl. lia.
  - split; [exact H4'|]. split; [exact H7|]. rewrite Hs. repeat split; simpl; auto. intros fk v _ X; discriminate.
Qed.

Lemma deactivate1_core l sh : srcs (deactivate1 l sh) = srcs sh /\ gone_flag (deactivate1 l sh) = gone_flag sh.
Proof. unfold deactivate1, deactivate, py_delcache. destruct (ptr l sh); simpl; destruct l; split; reflexivity. Qed.
Lemma deactivate_all_core sh : srcs (deactivate_all sh) = srcs sh /\ gone_flag (deactivate_all sh) = gone_flag sh.
Proof.
  unfold deactivate_all. repeat match goal with |- context [deactivate1 ?l ?x] =>
    let H := fresh in destruct (deactivate1_core l x) as [H ?]; rewrite H; clear H end.
  split; auto.
  repeat match goal with |- context [gone_flag (deactivate1 ?l ?x)] =>
    let H := fresh in destruct (deactivate1_core l x) as [_ H]; rewrite H; clear H end. reflexivity.
Qed.

Lemma Rg_nofront sh g : (gone_flag sh = true -> g_dead g = true) -> fptr sh = None -> Rg sh g.
Proof. intros H Hf. split; auto. intros _ _ fc Hfc. congruence. Qed.

Lemma exit_sim q g : R q g -> R (sq_exit q) (fst (spec_step g OExit)).
Proof.
  intros ((Hcur & Hd) & (Hfl & HK) & HR). unfold sq_exit. simpl. destruct (g_depth g) as [|[|d]] eqn:Ed.
  - destruct HR as (Hs & Hf & Hp). rewrite Hs. split; [split; auto|]. split; [split; auto|]. simpl. rewrite Ed. auto.
  - destruct HR as (Hs & Hb). simpl in Hs. rewrite Hs.
    destruct (deactivate_all_core (q_sh q)) as [X1 X2]. destruct (deactivate_all_ptrs (q_sh q)) as [Y1 Y2].
    split; [|split].
    + split; [intros s; exact (eq_trans (f_equal (fun f => f s) X1) (Hcur s))|exact Hd].
    + apply Rg_nofront; [|exact Y1]. intros H. apply Hfl. rewrite <- X2. exact H.
    + simpl. split; [reflexivity|]. split; [exact Y1|exact Y2].
  - destruct HR as (Hs & Hb). simpl in Hs. rewrite Hs. split; [split; auto|]. split; [split; auto|].
    simpl. split; auto.
Qed.

Lemma unwind_sim : forall n q g, R q g -> g_depth g = n ->
  exists g', R (sq_unwind n q) g' /\ g_depth g' = 0 /\ g_cur g' = g_cur g /\ g_dead g' = g_dead g.
Proof.
  induction n as [|n IH]; intros q g HR Hd; simpl.
  - exists g. auto.
  - pose proof (exit_sim _ _ HR) as H. simpl in H. rewrite Hd in H.
    destruct n as [|n'].
    + destruct (IH _ _ H eq_refl) as (g' & X1 & X2 & X3 & X4). exists g'. auto.
    + destruct (IH _ _ H eq_refl) as (g' & X1 & X2 & X3 & X4). exists g'. auto.
Qed.

Lemma R_len q g : R q g -> length (q_stk q) = g_depth g.
Proof.
  intros (_ & _ & H). destruct (g_depth g) as [|d].
  - destruct H as (-> & _). reflexivity.
  - destruct H as (-> & _). rewrite app_length, repeat_length. simpl. lia.
Qed.

Lemma exit_res q : q_res (sq_exit q) = q_res q.
Proof. unfold sq_exit. destruct (q_stk q) as [|[|] s]; reflexivity. Qed.
Lemma unwind_res : forall n q, q_res (sq_unwind n q) = q_res q.
Proof. induction n as [|n IH]; intros q; simpl; auto. rewrite IH. apply exit_res. Qed.

(* the domain of the claim, step by step: no source changes after the process vanished, no single file vanishes *)
Definition step_dom (g : gst) (o : op) : Prop :=
  match o with OEnv (ESet s st) => g_dead g = false /\ st <> SGone | _ => True end.

Lemma step_sim q g o :
  R q g -> step_dom g o ->
  let (g', x) := spec_step g o in
  R (sq_step q o) g' /\
  match x with
  | Some y => exists r, q_res (sq_step q o) = r :: q_res q /\ proj_res r = y
  | None => q_res (sq_step q o) = q_res q
  end.
Proof.
  intros HR Hdom. destruct o as [| | |c|e].
  - (* enter *) simpl. split; [|unfold sq_enter; destruct (fptr (acquire0 (q_sh q))); reflexivity].
    destruct HR as ((Hcur & Hd) & (Hfl & HK) & HR). unfold sq_enter.
    change (fptr (acquire0 (q_sh q))) with (fptr (q_sh q)).
    destruct (g_depth g) as [|d] eqn:Ed.
    + destruct HR as (Hs & Hf & Hp). rewrite Hf. split; [split; auto|]. split.
      * split; [exact Hfl|]. simpl. intros _ X. exfalso. apply X. reflexivity.
      * simpl. rewrite Hs. split; [reflexivity|]. apply activate_all_Rb. reflexivity.
    + destruct HR as (Hs & Hb). pose proof Hb as (fc & _ & _ & _ & Hf & _). rewrite Hf. split; [split; auto|]. split.
      * split; [exact Hfl|exact HK].
      * simpl. rewrite Hs. split; [reflexivity|]. destruct Hb as (fc' & pc & F & P & X). exists fc', pc, F, P. exact X.
  - (* exit *) pose proof (exit_sim _ _ HR) as H. simpl in *.
    destruct (g_depth g) as [|[|d]]; (split; [exact H|]); unfold sq_exit; destruct (q_stk q) as [|[|] s]; reflexivity.
  - (* raise *) simpl. split.
    + destruct (unwind_sim _ _ _ HR (eq_sym (R_len _ _ HR))) as (g' & X1 & X2 & X3 & X4).
      destruct X1 as ((A & B) & (G1 & G2) & C). rewrite X2 in C. destruct C as (C1 & C2 & C3).
      split; [|split].
      * split; [intros s; simpl; rewrite A, X3; reflexivity|]. simpl. rewrite <- X3, <- X4. exact B.
      * apply Rg_nofront; [|exact C2]. simpl. rewrite <- X4. exact G1.
      * simpl. auto.
    + apply unwind_res.
  - (* call *) destruct c as [m| |o].
    + pose proof (call_sim q g m HR) as H. simpl.
      destruct (spec_call g m) as [g' x]. destruct H as (sh' & cn & r & Ec & Hx & HR' & Gs). rewrite Ec. simpl.
      split; [exact HR'|eexists; split; [reflexivity|exact Hx]].
    + simpl. split; [exact HR|]. eexists; split; reflexivity.
    + simpl. split; [exact HR|]. eexists; split; [reflexivity|]. unfold proj_res. simpl. destruct o; reflexivity.
  - (* env *) destruct HR as ((Hcur & Hd1 & Hd2) & (Hfl & HK) & HR). destruct e as [s st|]; simpl; (split; [|reflexivity]).
    + destruct Hdom as [Hnd Hst]. split; [|split].
      * split; [intros x; simpl; rewrite Hcur; reflexivity|]. simpl. split.
        -- intros X. congruence.
        -- intros x. destruct (src_eqb x s); [intros X; congruence|apply Hd2].
      * split; [exact Hfl|exact HK].
      * simpl. destruct (g_depth g); auto.
    + split; [|split].
      * split; [intros x; reflexivity|]. simpl. split; auto.
      * split; [intros _; reflexivity|exact HK].
      * simpl. destruct (g_depth g); auto.
Qed.

Lemma step_ok_mono g o : g_ok (fst (spec_step g o)) = true -> g_ok g = true /\ step_dom g o.
Proof.
  destruct o as [| | |c|e]; simpl; auto.
  - destruct (g_depth g) as [|[|d]]; simpl; auto.
  - destruct c as [m| |o]; simpl; auto. destruct (spec_call g m) as [g' r] eqn:E. simpl.
    intros H. split; auto. unfold spec_call in E. destruct (spec_primary g (m_src m)) as [[g1 o1] c1] eqn:Ep.
    assert (g_ok g1 = g_ok g).
    { unfold spec_primary in Ep. destruct (if Nat.ltb 0 (g_depth g) then g_snap g (m_src m) else None).
      - inversion Ep; reflexivity.
      - destruct (g_cur g (m_src m)); inversion Ep; try reflexivity. destruct (Nat.ltb 0 (g_depth g)); reflexivity. }
    destruct o1; [destruct (meth_eqb m Mmemory_full); [destruct (g_cur g Statm)|]|..]; inversion E; subst; congruence.
  - destruct e as [s st|]; simpl; auto. intros H. apply andb_prop in H. destruct H as [H H3].
    apply andb_prop in H. destruct H as [H1 H2]. split; auto. split.
    + destruct (g_dead g); simpl in H2; congruence.
    + intros ->. discriminate.
Qed.

Lemma go_ok_mono : forall h g acc gf rs, spec_go g h acc = (gf, rs) -> g_ok gf = true -> g_ok g = true.
Proof.
  induction h as [|o r IH]; intros g acc gf rs H Hok; simpl in H.
  - inversion H; subst; auto.
  - destruct (spec_step g o) as [g' x] eqn:E. apply IH in H; auto.
    assert (g' = fst (spec_step g o)) by (rewrite E; reflexivity). subst g'. apply step_ok_mono in H. tauto.
Qed.

Lemma go_sim : forall h q g acc gf rs,
  R q g -> map proj_res (rev (q_res q)) = rev acc ->
  spec_go g h acc = (gf, rs) -> g_ok gf = true ->
  map proj_res (rev (q_res (sq_run q h))) = rs.
Proof.
  induction h as [|o r IH]; intros q g acc gf rs HR Hacc H Hok; simpl in H.
  - inversion H; subst. exact Hacc.
  - destruct (spec_step g o) as [g' x] eqn:E. simpl.
    pose proof (go_ok_mono _ _ _ _ _ H Hok) as Hok'.
    assert (Hd : step_dom g o).
    { assert (g' = fst (spec_step g o)) by (rewrite E; reflexivity). subst g'. apply step_ok_mono in Hok'. tauto. }
    pose proof (step_sim q g o HR Hd) as Hs. rewrite E in Hs. destruct Hs as [HR' Hres].
    eapply IH; [exact HR'| |exact H|exact Hok].
    destruct x as [y|].
    + destruct Hres as (r0 & Er & Ey). rewrite Er. simpl. rewrite map_app, Hacc. simpl. rewrite Ey. reflexivity.
    + rewrite Hres. exact Hacc.
Qed.

Lemma init_ok_spec f : init_ok f = true -> forall s, f s <> SGone.
Proof.
  unfold init_ok. simpl. intros H s. repeat (apply andb_prop in H; destruct H as [? H]).
  destruct s; intros X; rewrite X in *; discriminate.
Qed.

(* Theorem 1 (with 2 and 3 folded in: the ghost machine forgets everything at the outermost exit
   and ignores nested enters).  For every history inside the stated domain, every call of the
   sequential reading answers what the property demands, and every successful call makes exactly
   the reads the property allows: one per shared source (stat, status, smaps) and block, none once
   the block holds the source; statm once per block for memory_info(), once per call for
   memory_full_info(). *)
Theorem block_first_read : forall f h rs,
  spec_run f h = Some rs ->
  map proj_res (rev (q_res (sq_run (sq_init f) h))) = rs.
Proof.
  intros f h rs H. unfold spec_run in H. destruct (spec_go (spec_init f) h []) as [gf rs'] eqn:E.
  destruct (g_ok gf) eqn:Eok; [|discriminate]. inversion H; subst rs'.
  pose proof (go_ok_mono _ _ _ _ _ E Eok) as Hi. simpl in Hi. pose proof (init_ok_spec _ Hi) as Hns.
  eapply go_sim; [| |exact E|exact Eok].
  - split; [|split].
    + split; [intros s; reflexivity|]. simpl. split; [discriminate|]. intros s X. exfalso. eapply Hns; eauto.
    + apply Rg_nofront; [discriminate|reflexivity].
    + simpl. auto.
  - reflexivity.
Qed.

Example block_first_read_example :
  spec_run (fun _ => SAvail 1)
    [OEnter; OCall (CM Mcpu_num); OEnv (ESet Stat (SAvail 2)); OCall (CM Mppid); OEnter; OCall (CM Mname); OExit;
     OCall (CM Muids); OEnv (ESet Status SDenied); OCall (CM Mgids); ORaise; OCall (CM Mcpu_num); OCall (CM Mgids)]
  = Some [(Val 1, Some [1;0;0;0]); (Val 1, Some [0;0;0;0]); (Val 1, Some [0;0;0;0]); (Val 1, Some [0;1;0;0]);
          (Val 1, Some [0;0;0;0]); (Val 2, Some [1;0;0;0]); (Exc AccessDenied, None)].
Proof. reflexivity. Qed.

(* ppid() after the process vanished, inside and outside a block, is inside the domain *)
Example block_first_read_example_gone :
  spec_run (fun _ => SAvail 1)
    [OEnter; OCall (CM Mcpu_num); OEnv EGone; OCall (CM Mppid); OCall (CM Mppid); OCall (CM Mgids); OExit;
     OCall (CM Mppid); OEnter; OCall (CM Mppid)]
  = Some [(Val 1, Some [1;0;0;0]); (Val 1, Some [0;0;0;0]); (Val 1, Some [0;0;0;0]); (Exc NoSuchProcess, None);
          (Exc NoSuchProcess, None); (Exc NoSuchProcess, None)].
Proof. reflexivity. Qed.
