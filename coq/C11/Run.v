(* Entry points evaluated by the correspondence harness (props/C11.py). *)
From PV Require Export C11.Spec.

Definition jaddr (a : addr) : jv :=
  match a with
  | ANone => JC "Empty" []
  | AInet ip port => JL [JB ip; JZ port]
  | APath p => JB p
  end.
Definition jfam (t : tagged) : jv :=
  match t with TEnum n => JC "AddressFamily" [JZ n] | TInt n => JC "int" [JZ n] end.
Definition jkind (t : tagged) : jv :=
  match t with TEnum n => JC "SocketKind" [JZ n] | TInt n => JC "int" [JZ n] end.
Definition jrow (r : row) : jv :=
  JL [JZ (r_fd r); jfam (r_family r); jkind (r_type r); jaddr (r_laddr r); jaddr (r_raddr r);
      JB (r_status r); jopt JZ (r_pid r)].
Definition jrows (rs : list row) : jv := JL (map jrow rs).
Definition jowner (o : option Z * Z) : jv := JL [jopt JZ (fst o); JZ (snd o)].
Definition jentry (e : entry) : jv :=
  JL [jfam (e_family e); jkind (e_type e); jaddr (e_laddr e); jaddr (e_raddr e); JB (e_status e);
      JL (map jowner (e_owners e))].
Definition jentries (es : list entry) : jv := JL (map jentry es).

Definition file_names : list bytes := [bs "tcp"; bs "tcp6"; bs "udp"; bs "udp6"; bs "unix"].

Definition jlog (l : list bytes) : jv := JL (map JB l).

(* a kernel-shaped state: printed files, is the state in the theorems' domain, then per kind
   [returned rows; add() sequence; files opened; demanded entries; demanded access log] system-wide,
   and the same for the processes selected by index *)
Definition run_state (v : variant) (le : bool) (o : ipv6_oracle) (st : kstate) (ks : list bytes)
           (sel : list (nat * list bytes)) : jv :=
  let files := k_files le st in
  let procs := to_procs (k_procs st) in
  JL [ JL (map (fun n => jopt JB (files n)) file_names);
       jbool (wf_state st && files_text_safe le st && unix_guard v st && (o_ntop6 o || negb (o_supported o)));
       JL (map (fun k => JL [ jv_outcome jrows (net_connections v le o files procs k);
                              jv_outcome jrows (net_connections_adds v le o files procs k);
                              jlog (net_log v le o files procs k);
                              jentries (spec_sys k (restrict6 o st));
                              jlog (spec_log k st) ]) ks);
       JL (map (fun s =>
                  match nth_error (k_procs st) (fst s) with
                  | Some p =>
                    JL (map (fun k => JL [ jv_outcome jrows (proc_net_connections v le o files (p_pid p) (to_listing p) k);
                                           jv_outcome jrows (proc_net_connections_adds v le o files (p_pid p) (to_listing p) k);
                                           jlog (proc_log v le o files (p_pid p) (to_listing p) k);
                                           jentries (spec_proc p k (restrict6 o st));
                                           jlog (spec_proc_log p k st) ]) (snd s))
                  | None => jnone
                  end) sel) ].

(* arbitrary (possibly malformed) files and descriptor tables: model answers only *)
Definition files_of (fs : list (bytes * bytes)) (n : bytes) : option bytes := assoc n fs.
Definition run_raw (v : variant) (le : bool) (o : ipv6_oracle) (fs : list (bytes * bytes)) (procs : list (Z * listing))
           (ks : list bytes) (sel : list (nat * list bytes)) : jv :=
  let files := files_of fs in
  JL [ JL (map (fun k => JL [ jv_outcome jrows (net_connections v le o files procs k);
                              jv_outcome jrows (net_connections_adds v le o files procs k);
                              jlog (net_log v le o files procs k) ]) ks);
       JL (map (fun s =>
                  match nth_error procs (fst s) with
                  | Some (pid, ls) =>
                    JL (map (fun k => JL [ jv_outcome jrows (proc_net_connections v le o files pid ls k);
                                           jv_outcome jrows (proc_net_connections_adds v le o files pid ls k);
                                           jlog (proc_log v le o files pid ls k) ]) (snd s))
                  | None => jnone
                  end) sel) ].

(* address decoding alone: printed text, model, demanded *)
Definition jdres (d : dres) : jv :=
  match d with DAddr a => JC "Val" [jaddr a] | DUnsupported => JC "Exc" [JC "_Ipv6UnsupportedError" []] end.
Definition jdres_outcome (x : outcome dres) : jv :=
  match x with Val d => jdres d | Exc e => JC "Exc" [JC (exn_name e) []] | OutOfModel => JC "OutOfModel" [] end.
Definition run_addr (le : bool) (o : ipv6_oracle) (ip : ipaddr) (port : Z) : jv :=
  JL [ JB (k_addr le ip port);
       jdres_outcome (decode_address le o (k_addr le ip port) (if is_v6 ip then AF_INET6 else AF_INET));
       (if wf_ip ip && wf_port port then jdres_outcome (addr_res o ip port) else jnone) ].
Definition run_addr_raw (le : bool) (o : ipv6_oracle) (a : bytes) (family : Z) : jv :=
  JL [ jdres_outcome (decode_address le o a family) ].
