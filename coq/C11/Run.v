(* Entry points evaluated by the correspondence harness (props/C11.py). *)
From PV Require Export C11.Spec.

Definition jaddr (a : addr) : jv :=
  match a with
  | ANone => JC "Empty" []
  | AInet ip port => JL [JB ip; JZ port]
  | APath p => JB p
  end.
Definition jrow (r : row) : jv :=
  JL [JZ (r_fd r); JZ (r_family r); JZ (r_type r); jaddr (r_laddr r); jaddr (r_raddr r);
      JB (r_status r); jopt JZ (r_pid r)].
Definition jrows (rs : list row) : jv := JL (map jrow rs).
Definition jowner (o : option Z * Z) : jv := JL [jopt JZ (fst o); JZ (snd o)].
Definition jentry (e : entry) : jv :=
  JL [JZ (e_family e); JZ (e_type e); jaddr (e_laddr e); jaddr (e_raddr e); JB (e_status e);
      JL (map jowner (e_owners e))].
Definition jentries (es : list entry) : jv := JL (map jentry es).

Definition file_names : list bytes := [bs "tcp"; bs "tcp6"; bs "udp"; bs "udp6"; bs "unix"].

(* a kernel-shaped state: printed files, is the state in the theorems' domain, then per kind
   [model; demanded entries] system-wide, and the same for the processes selected by index *)
Definition run_state (v : variant) (le : bool) (st : kstate) (ks : list bytes) (sel : list (nat * list bytes)) : jv :=
  let files := k_files le st in
  JL [ JL (map (fun n => jopt JB (files n)) file_names);
       jbool (wf_state st && files_text_safe le st);
       JL (map (fun k => JL [ jv_outcome jrows (net_connections v le files (to_procs (k_procs st)) k);
                              jentries (spec_sys k st) ]) ks);
       JL (map (fun s =>
                  match nth_error (k_procs st) (fst s) with
                  | Some p =>
                    JL (map (fun k => JL [ jv_outcome jrows (proc_net_connections v le files (p_pid p) (to_listing p) k);
                                           jentries (spec_proc p k st) ]) (snd s))
                  | None => jnone
                  end) sel) ].

(* arbitrary (possibly malformed) files and descriptor tables: model answers only *)
Definition files_of (fs : list (bytes * bytes)) (n : bytes) : option bytes := assoc n fs.
Definition run_raw (v : variant) (le : bool) (fs : list (bytes * bytes)) (procs : list (Z * listing))
           (ks : list bytes) (sel : list (nat * list bytes)) : jv :=
  let files := files_of fs in
  JL [ JL (map (fun k => jv_outcome jrows (net_connections v le files procs k)) ks);
       JL (map (fun s =>
                  match nth_error procs (fst s) with
                  | Some (pid, ls) =>
                    JL (map (fun k => jv_outcome jrows (proc_net_connections v le files pid ls k)) (snd s))
                  | None => jnone
                  end) sel) ].

(* address decoding alone: printed text, model, demanded *)
Definition run_addr (le : bool) (ip : ipaddr) (port : Z) : jv :=
  JL [ JB (k_addr le ip port);
       jv_outcome jaddr (decode_address le (k_addr le ip port) (if is_v6 ip then AF_INET6 else AF_INET));
       (if wf_ip ip && wf_port port then jaddr (spec_addr ip port) else jnone) ].
Definition run_addr_raw (le : bool) (a : bytes) (family : Z) : jv :=
  JL [ jv_outcome jaddr (decode_address le a family) ].
