(* C11 -- assembly: retrieve over the generated tmap, then the system-wide and per-process theorems,
   the two refuted classes and the satisfiability examples. *)
From PV Require Import C11.Spec C11.Lib C11.ProofsTables C11.ProofsAddr C11.ProofsLines C11.ProofsOwners.

(* ------------------------------------------------------------ retrieve = the reference tables *)
Lemma protos_rows_app v le files lk filt a b :
  protos_rows v le files lk filt (a ++ b)
  = do x <- protos_rows v le files lk filt a; do y <- protos_rows v le files lk filt b; Val (x ++ y).
Proof.
  induction a as [|p a IH].
  - cbn [app protos_rows obind]. destruct (protos_rows v le files lk filt b); reflexivity.
  - cbn [app protos_rows]. rewrite IH.
    destruct (proto_rows v le files lk filt p) as [r| |]; cbn [obind]; try reflexivity.
    destruct (protos_rows v le files lk filt a) as [ra| |]; cbn [obind]; try reflexivity.
    destruct (protos_rows v le files lk filt b) as [rb| |]; cbn [obind]; try reflexivity.
    now rewrite app_assoc.
Qed.

Lemma protos_rows_on v le files lk filt (b : bool) p R :
  (b = true -> proto_rows v le files lk filt p = Val R) ->
  protos_rows v le files lk filt (on b [p]) = Val (on b R).
Proof.
  destruct b; cbn [on]; intros H; [|reflexivity].
  cbn [protos_rows]. rewrite H by reflexivity. cbn [obind]. now rewrite app_nil_r.
Qed.

Definition p_tcp4 : proto := (bs "tcp", 2, Some 1).
Definition p_tcp6 : proto := (bs "tcp6", 10, Some 1).
Definition p_udp4 : proto := (bs "udp", 2, Some 2).
Definition p_udp6 : proto := (bs "udp6", 10, Some 2).
Definition p_unix : proto := (bs "unix", 1, None).

Lemma filter_all5 f :
  filter f all5 = on (f p_tcp4) [p_tcp4] ++ on (f p_tcp6) [p_tcp6] ++ on (f p_udp4) [p_udp4]
                  ++ on (f p_udp6) [p_udp6] ++ on (f p_unix) [p_unix].
Proof.
  unfold all5. fold p_tcp4 p_tcp6 p_udp4 p_udp6 p_unix. cbn [filter].
  destruct (f p_tcp4), (f p_tcp6), (f p_udp4), (f p_udp6), (f p_unix); reflexivity.
Qed.

Definition R_inet (lk : imap) (filt : option Z) (fam ty : Z) (socks : list isock) : list row :=
  flat_map (fun s => olist (ref_inet_row lk filt fam ty s)) socks.
Definition R_unix (lk : imap) (filt : option Z) (us : list usock) : list row :=
  flat_map (ref_unix_rows 1 lk filt) us.

Lemma wf_state_parts st :
  wf_state st = true ->
  forallb (wf_isock false) (k_tcp4 st) = true /\ forallb tcp_state_ok (k_tcp4 st) = true
  /\ forallb (wf_isock true) (opt_list (k_tcp6 st)) = true /\ forallb tcp_state_ok (opt_list (k_tcp6 st)) = true
  /\ forallb (wf_isock false) (k_udp4 st) = true /\ forallb (wf_isock true) (opt_list (k_udp6 st)) = true
  /\ forallb wf_usock (k_unix st) = true /\ forallb wf_kproc (k_procs st) = true.
Proof.
  unfold wf_state. intros H. repeat (apply andb_true_iff in H as [H ?]). repeat split; assumption.
Qed.

Lemma files_text_safe_parts le st :
  files_text_safe le st = true ->
  text_safe (k_ifile le hdr_tcp (k_tcp4 st)) = true
  /\ (forall l, k_tcp6 st = Some l -> text_safe (k_ifile le hdr_tcp6 l) = true)
  /\ text_safe (k_ifile le hdr_udp (k_udp4 st)) = true
  /\ (forall l, k_udp6 st = Some l -> text_safe (k_ifile le hdr_udp6 l) = true)
  /\ text_safe (k_ufile (k_unix st)) = true.
Proof.
  unfold files_text_safe. cbn [forallb].
  change (k_files le st (bs "tcp")) with (Some (k_ifile le hdr_tcp (k_tcp4 st))).
  change (k_files le st (bs "tcp6")) with (option_map (k_ifile le hdr_tcp6) (k_tcp6 st)).
  change (k_files le st (bs "udp")) with (Some (k_ifile le hdr_udp (k_udp4 st))).
  change (k_files le st (bs "udp6")) with (option_map (k_ifile le hdr_udp6) (k_udp6 st)).
  change (k_files le st (bs "unix")) with (Some (k_ufile (k_unix st))).
  intros H.
  apply andb_true_iff in H as [H1 H]. apply andb_true_iff in H as [H2 H].
  apply andb_true_iff in H as [H3 H]. apply andb_true_iff in H as [H4 H].
  apply andb_true_iff in H as [H5 _].
  split; [exact H1|]. split; [intros l E; rewrite E in H2; exact H2|].
  split; [exact H3|]. split; [intros l E; rewrite E in H4; exact H4|]. exact H5.
Qed.

Lemma retrieve_ok v le st kind lk filt :
  lk_ok lk -> wf_state st = true -> files_text_safe le st = true -> In kind kinds ->
  (covers_unix kind = true -> v_exact v = true \/ no_lead_ws st = true) ->
  retrieve v le (k_files le st) kind lk filt
  = Val (on (spec_admits kind 2 1) (R_inet lk filt 2 1 (k_tcp4 st))
         ++ on (spec_admits kind 10 1) (R_inet lk filt 10 1 (opt_list (k_tcp6 st)))
         ++ on (spec_admits kind 2 2) (R_inet lk filt 2 2 (k_udp4 st))
         ++ on (spec_admits kind 10 2) (R_inet lk filt 10 2 (opt_list (k_udp6 st)))
         ++ on (spec_admits kind 1 1) (R_unix lk filt (k_unix st))).
Proof.
  intros Hlk Hwf Hsafe Hk Hux.
  apply wf_state_parts in Hwf as (W4 & S4 & W6 & S6 & U4 & U6 & WU & _).
  apply files_text_safe_parts in Hsafe as (T4 & T6 & TU4 & TU6 & TX).
  unfold retrieve. rewrite kind_table_tmap by exact Hk. cbn [of_option obind].
  rewrite filter_all5. rewrite !protos_rows_app.
  rewrite (protos_rows_on v le _ lk filt _ p_tcp4 (R_inet lk filt 2 1 (k_tcp4 st))).
  2:{ intros _. unfold proto_rows, p_tcp4. cbv beta iota.
      change ((2 =? AF_INET) || (2 =? AF_INET6)) with true. cbv iota.
      change (k_files le st (bs "tcp")) with (Some (k_ifile le hdr_tcp (k_tcp4 st))).
      exact (process_inet_ok le false 1 lk filt hdr_tcp (k_tcp4 st) _ Hlk eq_refl W4
               (or_introl (conj eq_refl S4)) T4). }
  rewrite (protos_rows_on v le _ lk filt _ p_tcp6 (R_inet lk filt 10 1 (opt_list (k_tcp6 st)))).
  2:{ intros _. unfold proto_rows, p_tcp6. cbv beta iota.
      change ((10 =? AF_INET) || (10 =? AF_INET6)) with true. cbv iota.
      change (k_files le st (bs "tcp6")) with (option_map (k_ifile le hdr_tcp6) (k_tcp6 st)).
      destruct (k_tcp6 st) as [l|] eqn:E6; cbn [option_map opt_list] in *.
      - exact (process_inet_ok le true 1 lk filt hdr_tcp6 l _ Hlk eq_refl W6
                 (or_introl (conj eq_refl S6)) (T6 l eq_refl)).
      - reflexivity. }
  rewrite (protos_rows_on v le _ lk filt _ p_udp4 (R_inet lk filt 2 2 (k_udp4 st))).
  2:{ intros _. unfold proto_rows, p_udp4. cbv beta iota.
      change ((2 =? AF_INET) || (2 =? AF_INET6)) with true. cbv iota.
      change (k_files le st (bs "udp")) with (Some (k_ifile le hdr_udp (k_udp4 st))).
      exact (process_inet_ok le false 2 lk filt hdr_udp (k_udp4 st) _ Hlk eq_refl U4 (or_intror eq_refl) TU4). }
  rewrite (protos_rows_on v le _ lk filt _ p_udp6 (R_inet lk filt 10 2 (opt_list (k_udp6 st)))).
  2:{ intros _. unfold proto_rows, p_udp6. cbv beta iota.
      change ((10 =? AF_INET) || (10 =? AF_INET6)) with true. cbv iota.
      change (k_files le st (bs "udp6")) with (option_map (k_ifile le hdr_udp6) (k_udp6 st)).
      destruct (k_udp6 st) as [l|] eqn:E6; cbn [option_map opt_list] in *.
      - exact (process_inet_ok le true 2 lk filt hdr_udp6 l _ Hlk eq_refl U6 (or_intror eq_refl) (TU6 l eq_refl)).
      - reflexivity. }
  rewrite (protos_rows_on v le _ lk filt _ p_unix (R_unix lk filt (k_unix st))).
  2:{ intros Hb. unfold proto_rows, p_unix. cbv beta iota.
      change ((1 =? AF_INET) || (1 =? AF_INET6)) with false. cbv iota.
      change (k_files le st (bs "unix")) with (Some (k_ufile (k_unix st))).
      apply process_unix_ok; [exact WU| |exact TX].
      unfold no_lead_ws in Hux. apply Hux. exact Hb. }
  cbn [obind]. reflexivity.
Qed.

(* ------------------------------------------------------------ rows vs demanded entries *)
Lemma Forall2_on (b : bool) R X :
  (b = true -> Forall2 row_ok R X) -> Forall2 row_ok (on b R) (on b X).
Proof. destruct b; cbn [on]; intros H; [now apply H|constructor]. Qed.

Lemma unix_entries_on own k us :
  In k kinds ->
  flat_map (fun u => on (spec_admits k 1 (utype_num (u_type u))) (unix_entry own u)) us
  = on (spec_admits k 1 1) (flat_map (unix_entry own) us).
Proof.
  intros Hk. induction us as [|u r IH]; [now destruct (spec_admits k 1 1)|].
  cbn [flat_map]. rewrite IH, (unix_any_type k _ Hk). now destruct (spec_admits k 1 1).
Qed.

Lemma Forall2_map_same {A} (f : A -> row) (g : A -> entry) l :
  (forall x, In x l -> row_ok (f x) (g x)) -> Forall2 row_ok (map f l) (map g l).
Proof.
  induction l as [|x l IH]; intros H; [constructor|].
  cbn [map]. constructor; [apply H; now left|]. apply IH. intros y Hy. apply H. now right.
Qed.

Lemma filter_all {A} (f : A -> bool) l : (forall x, In x l -> f x = true) -> filter f l = l.
Proof.
  induction l as [|x l IH]; intros H; [reflexivity|]. cbn [filter]. rewrite (H x (or_introl eq_refl)).
  f_equal. apply IH. intros y Hy. apply H. now right.
Qed.

(* system-wide, TCP/UDP tables *)
Lemma sys_inet_rows v ps fam ty socks :
  Forall2 row_ok (R_inet (lookup_v v (dicts ps)) None fam ty socks)
                 (flat_map (inet_entry (sys_owners ps) fam ty) socks).
Proof.
  unfold R_inet. induction socks as [|s r IH]; [constructor|].
  cbn [flat_map]. apply Forall2_app; [|exact IH].
  unfold ref_inet_row, inet_entry, owner_of, sys_owners. cbn [filt_skip].
  destruct (lookup_v_cases v ps (s_inode s)) as [[Hh Hl]|[l (Hl & Hne & Hin)]].
  - rewrite Hl, Hh. cbn [olist]. constructor; [|constructor].
    unfold row_ok. cbn [r_family r_type r_laddr r_raddr r_status r_pid r_fd e_family e_type e_laddr e_raddr
                        e_status e_owners fst snd].
    repeat split. now left.
  - rewrite Hl. destruct l as [|[p f] l']; [congruence|].
    destruct (holders ps (s_inode s)) as [|h t] eqn:Eh.
    { exfalso. apply (Hin (p, f)). now left. }
    cbn [olist map]. constructor; [|constructor].
    unfold row_ok. cbn [r_family r_type r_laddr r_raddr r_status r_pid r_fd e_family e_type e_laddr e_raddr
                        e_status e_owners fst snd].
    repeat split.
    change ((Some (fst h), snd h) :: map (fun pf : Z * Z => (Some (fst pf), snd pf)) t)
      with (map (fun pf : Z * Z => (Some (fst pf), snd pf)) (h :: t)).
    apply in_map_iff. exists (p, f). split; [reflexivity|]. apply Hin. now left.
Qed.

(* system-wide, UNIX table: one row per holder when no socket is shared between processes *)
Lemma unix_row_ok (pf : option Z * Z) u :
  row_ok {| r_fd := snd pf; r_family := 1; r_type := utype_num (u_type u); r_laddr := APath (path_of u);
            r_raddr := APath []; r_status := CONN_NONE; r_pid := fst pf |}
         {| e_family := 1; e_type := utype_num (u_type u); e_laddr := APath (path_of u); e_raddr := APath [];
            e_status := spec_none; e_owners := [pf] |}.
Proof.
  unfold row_ok. cbn [r_family r_type r_laddr r_raddr r_status r_pid r_fd e_family e_type e_laddr e_raddr
                      e_status e_owners]. repeat split. left. now destruct pf.
Qed.

Lemma sys_unix_rows v ps us :
  v_merge v = true \/ forallb (fun u => one_holder_proc ps (u_inode u)) us = true ->
  Forall2 row_ok (R_unix (lookup_v v (dicts ps)) None us) (flat_map (unix_entry (sys_owners ps)) us).
Proof.
  unfold R_unix. induction us as [|u r IH]; intros H; [constructor|].
  assert (Hu : v_merge v = true \/ one_holder_proc ps (u_inode u) = true).
  { destruct H as [H|H]; [now left|right]. cbn [forallb] in H. now apply andb_true_iff in H as [H _]. }
  assert (Hr : v_merge v = true \/ forallb (fun u => one_holder_proc ps (u_inode u)) r = true).
  { destruct H as [H|H]; [now left|right]. cbn [forallb] in H. now apply andb_true_iff in H as [_ H]. }
  cbn [flat_map]. apply Forall2_app; [|now apply IH].
  unfold ref_unix_rows, unix_entry, unix_pairs, sys_owners.
  rewrite (lookup_v_unshared v ps (u_inode u) Hu).
  assert (E : match match holders ps (u_inode u) with [] => None | l => Some l end with
              | Some l => map (fun pf : Z * Z => (Some (fst pf), snd pf)) l
              | None => [(None, -1)]
              end
              = match holders ps (u_inode u) with
                | [] => [(None, -1)]
                | l => map (fun pf : Z * Z => (Some (fst pf), snd pf)) l
                end) by (destruct (holders ps (u_inode u)); reflexivity).
  rewrite E. rewrite filter_all by (intros x _; reflexivity).
  apply Forall2_map_same. intros pf _. apply unix_row_ok.
Qed.

(* per process *)
Lemma proc_inet_rows p fam ty socks :
  p_visible p = true ->
  Forall2 row_ok (R_inet (lookup1 (sock_pairs p)) (Some (p_pid p)) fam ty socks)
                 (flat_map (inet_entry (proc_owners p) fam ty) socks).
Proof.
  intros Hv. unfold R_inet. induction socks as [|s r IH]; [constructor|].
  cbn [flat_map]. apply Forall2_app; [|exact IH].
  unfold ref_inet_row, inet_entry, owner_of, proc_owners. rewrite (lookup1_proc p _ Hv).
  destruct (holders_in p (s_inode s)) as [|[q f] t] eqn:Eh.
  - cbn [fst filt_skip olist map]. constructor.
  - assert (Hq : q = p_pid p).
    { change q with (fst (q, f)). apply (holders_in_pid p (s_inode s)). rewrite Eh. now left. }
    subst q. cbn [fst snd filt_skip]. rewrite Z.eqb_refl. cbn [negb olist map].
    constructor; [|constructor].
    unfold row_ok. cbn [r_family r_type r_laddr r_raddr r_status r_pid r_fd e_family e_type e_laddr e_raddr
                        e_status e_owners fst snd].
    repeat split. now left.
Qed.

Lemma proc_unix_rows p us :
  p_visible p = true ->
  Forall2 row_ok (R_unix (lookup1 (sock_pairs p)) (Some (p_pid p)) us)
                 (flat_map (unix_entry (proc_owners p)) us).
Proof.
  intros Hv. unfold R_unix. induction us as [|u r IH]; [constructor|].
  cbn [flat_map]. apply Forall2_app; [|exact IH].
  unfold ref_unix_rows, unix_entry, unix_pairs, proc_owners. rewrite (lookup1_proc p _ Hv).
  destruct (holders_in p (u_inode u)) as [|h t] eqn:Eh.
  - cbn [filter fst filt_skip negb map]. constructor.
  - rewrite filter_all.
    + apply Forall2_map_same. intros pf _. apply unix_row_ok.
    + intros x Hx. apply in_map_iff in Hx as [pf [<- Hpf]]. cbn [fst filt_skip].
      rewrite <- Eh in Hpf. rewrite (holders_in_pid p _ pf Hpf), Z.eqb_refl. reflexivity.
Qed.

(* ------------------------------------------------------------ the theorems *)
Theorem system_wide v le st kind :
  wf_state st = true -> files_text_safe le st = true -> In kind kinds ->
  (covers_unix kind = true -> (v_merge v = true \/ unix_unshared st = true)
                              /\ (v_exact v = true \/ no_lead_ws st = true)) ->
  exists rows, net_connections v le (k_files le st) (to_procs (k_procs st)) kind = Val rows
               /\ Forall2 row_ok rows (spec_sys kind st).
Proof.
  intros Hwf Hsafe Hk Hux.
  pose proof (wf_state_parts st Hwf) as (_ & _ & _ & _ & _ & _ & _ & WP).
  unfold net_connections. rewrite check_kind_good by exact Hk. cbn [obind].
  rewrite get_all_inodes_ok by exact WP. cbn [obind].
  rewrite (retrieve_ok v le st kind _ None (lookup_v_lk_ok v _) Hwf Hsafe Hk) by (intros H; now apply Hux).
  eexists. split; [reflexivity|].
  unfold spec_sys, spec_entries, spec_entries2. rewrite (unix_entries_on _ kind _ Hk).
  repeat apply Forall2_app; apply Forall2_on; intros Hb; try apply sys_inet_rows.
  apply sys_unix_rows. destruct (Hux Hb) as [Hs _]. exact Hs.
Qed.

Lemma spec_entries_nil own kind st :
  (forall ino, own ino = []) -> spec_entries own kind st = [].
Proof.
  intros H. unfold spec_entries, spec_entries2.
  assert (Hi : forall fam ty socks, flat_map (inet_entry own fam ty) socks = []).
  { intros fam ty socks. induction socks as [|s r IH]; [reflexivity|].
    cbn [flat_map]. unfold inet_entry at 1. rewrite H. exact IH. }
  assert (Hu : flat_map (fun u => on (spec_admits kind 1 (utype_num (u_type u))) (unix_entry own u)) (k_unix st) = []).
  { induction (k_unix st) as [|u r IH]; [reflexivity|].
    cbn [flat_map]. unfold unix_entry at 1. rewrite H. cbn [map]. rewrite IH.
    now destruct (spec_admits kind 1 (utype_num (u_type u))). }
  rewrite !Hi, Hu.
  destruct (spec_admits kind 2 1), (spec_admits kind 10 1), (spec_admits kind 2 2), (spec_admits kind 10 2);
    reflexivity.
Qed.

Theorem per_process v le st p kind :
  wf_state st = true -> files_text_safe le st = true -> wf_kproc p = true -> p_visible p = true ->
  In kind kinds -> (covers_unix kind = true -> v_exact v = true \/ no_lead_ws st = true) ->
  exists rows, proc_net_connections v le (k_files le st) (p_pid p) (to_listing p) kind = Val rows
               /\ Forall2 row_ok rows (spec_proc p kind st).
Proof.
  intros Hwf Hsafe Hp Hv Hk Hux.
  unfold proc_net_connections. rewrite check_kind_good by exact Hk. cbn [obind].
  unfold to_listing. rewrite Hv. unfold wf_kproc in Hp. rewrite get_proc_inodes_ok by exact Hp.
  cbn [obind]. fold (sock_pairs p).
  destruct (sock_pairs p) as [|kv d] eqn:Ed.
  - exists []. split; [reflexivity|]. unfold spec_proc. rewrite spec_entries_nil; [constructor|].
    intros ino. unfold proc_owners. rewrite (holders_in_visible p ino Hv), Ed. reflexivity.
  - rewrite <- Ed.
    rewrite (retrieve_ok v le st kind _ (Some (p_pid p)) (lookup1_lk_ok _) Hwf Hsafe Hk Hux).
    eexists. split; [reflexivity|].
    unfold spec_proc, spec_entries, spec_entries2. rewrite (unix_entries_on _ kind _ Hk).
    repeat apply Forall2_app; apply Forall2_on; intros Hb; try (now apply proc_inet_rows).
    now apply proc_unix_rows.
Qed.

(* the current code (v_merge) reports the first holder in scan order *)
Lemma sys_inet_rows_first v ps fam ty socks :
  v_merge v = true ->
  Forall2 row_ok (R_inet (lookup_v v (dicts ps)) None fam ty socks)
                 (flat_map (inet_entry (fun ino => firstn 1 (sys_owners ps ino)) fam ty) socks).
Proof.
  intros Hm. unfold R_inet. induction socks as [|s r IH]; [constructor|].
  cbn [flat_map]. apply Forall2_app; [|exact IH].
  unfold ref_inet_row, inet_entry, owner_of, sys_owners. cbn [filt_skip].
  rewrite (lookup_v_unshared v ps (s_inode s) (or_introl Hm)).
  destruct (holders ps (s_inode s)) as [|[p f] t].
  - cbn [firstn olist]. constructor; [|constructor].
    unfold row_ok. cbn [r_family r_type r_laddr r_raddr r_status r_pid r_fd e_family e_type e_laddr e_raddr
                        e_status e_owners fst snd].
    repeat split. now left.
  - cbn [map firstn fst snd olist]. constructor; [|constructor].
    unfold row_ok. cbn [r_family r_type r_laddr r_raddr r_status r_pid r_fd e_family e_type e_laddr e_raddr
                        e_status e_owners fst snd].
    repeat split. now left.
Qed.

Theorem system_wide_first v le st kind :
  v_merge v = true ->
  wf_state st = true -> files_text_safe le st = true -> In kind kinds ->
  (covers_unix kind = true -> v_exact v = true \/ no_lead_ws st = true) ->
  exists rows, net_connections v le (k_files le st) (to_procs (k_procs st)) kind = Val rows
               /\ Forall2 row_ok rows (spec_sys_first kind st).
Proof.
  intros Hm Hwf Hsafe Hk Hux.
  pose proof (wf_state_parts st Hwf) as (_ & _ & _ & _ & _ & _ & _ & WP).
  unfold net_connections. rewrite check_kind_good by exact Hk. cbn [obind].
  rewrite get_all_inodes_ok by exact WP. cbn [obind].
  rewrite (retrieve_ok v le st kind _ None (lookup_v_lk_ok v _) Hwf Hsafe Hk Hux).
  eexists. split; [reflexivity|].
  unfold spec_sys_first, spec_entries2. rewrite (unix_entries_on _ kind _ Hk).
  repeat apply Forall2_app; apply Forall2_on; intros Hb; try (now apply sys_inet_rows_first).
  apply sys_unix_rows. now left.
Qed.

(* the code as it is now: no exclusion *)
Corollary system_wide_current le st kind :
  wf_state st = true -> files_text_safe le st = true -> In kind kinds ->
  exists rows, net_connections current le (k_files le st) (to_procs (k_procs st)) kind = Val rows
               /\ Forall2 row_ok rows (spec_sys kind st).
Proof.
  intros Hwf Hsafe Hk. apply system_wide; try assumption.
  intros _. split; left; reflexivity.
Qed.
Corollary system_wide_first_current le st kind :
  wf_state st = true -> files_text_safe le st = true -> In kind kinds ->
  exists rows, net_connections current le (k_files le st) (to_procs (k_procs st)) kind = Val rows
               /\ Forall2 row_ok rows (spec_sys_first kind st).
Proof.
  intros Hwf Hsafe Hk. apply system_wide_first; try assumption; [reflexivity|].
  intros _. left; reflexivity.
Qed.
Corollary per_process_current le st p kind :
  wf_state st = true -> files_text_safe le st = true -> wf_kproc p = true -> p_visible p = true ->
  In kind kinds ->
  exists rows, proc_net_connections current le (k_files le st) (p_pid p) (to_listing p) kind = Val rows
               /\ Forall2 row_ok rows (spec_proc p kind st).
Proof.
  intros Hwf Hsafe Hp Hv Hk. apply per_process; try assumption.
  intros _. left; reflexivity.
Qed.

(* ------------------------------------------------------------ witnesses *)
Definition q4 (a b c d : Z) : quad := (a, b, c, d).
Definition mid0 : list bytes := [bs "00000000:00000000"; bs "00:00000000"; bs "00000000"; bs "0"; bs "0"].
Definition ex_tcp : isock :=
  Build_isock 3 (fun i => nth i [0; 0; 0; 0; 0; 0; 4; 7]%nat O) (bs "0:") (IP4 (q4 127 0 0 1)) 22 (IP4 (q4 0 0 0 0)) 0 10
              mid0 (bs "500") (bs " 1 0000000000000000 100 0 0 10 0   ").
Definition ex_udp6 : isock :=
  Build_isock 2 (fun _ => O) (bs "7:") (IP6 (q4 254 128 0 0) (q4 0 0 0 0) (q4 0 0 0 0) (q4 0 0 0 1)) 5353
              (IP6 (q4 0 0 0 0) (q4 0 0 0 0) (q4 0 0 255 255) (q4 10 0 0 5)) 65535 7 mid0 (bs "501") [].
Definition ex_unix (ino path : bytes) (t : utype) : usock :=
  Build_usock (fun i => nth i [0; 0; 0; 0; 0; 2]%nat O) (bs "0000000000000000:") (bs "00000002") (bs "00000000")
              (bs "00010000") t (bs "01") ino (Some path).
Definition ex_procs (shared : bool) : list kproc :=
  [ Build_kproc 10 true [Build_kfd (bs "3") (TSock (bs "500")); Build_kfd (bs "5") (TSock (bs "600"));
                         Build_kfd (bs "0") (TOther (bs "/dev/null") false); Build_kfd (bs "9") TClosed];
    Build_kproc 20 true (Build_kfd (bs "4") (TSock (bs "500"))
                         :: if shared then [Build_kfd (bs "6") (TSock (bs "600")); Build_kfd (bs "7") (TSock (bs "600"))]
                            else [Build_kfd (bs "6") (TSock (bs "601"))]);
    Build_kproc 30 false [Build_kfd (bs "1") (TSock (bs "501"))] ].
Definition ex_state (shared : bool) (path : bytes) : kstate :=
  Build_kstate [ex_tcp] None [] (Some [ex_udp6])
               [ex_unix (bs "600") path UStream; ex_unix (bs "601") (bs "@abstract name") USeqpacket]
               (ex_procs shared).

(* the hypotheses of [system_wide] / [per_process] hold for a state with a TCP socket held by two
   processes, a hidden holder, a UNIX name with blanks and an abstract name *)
Example hypotheses_satisfiable :
  let st := ex_state false (bs "/tmp/a b") in
  wf_state st = true /\ files_text_safe true st = true /\ unix_unshared st = true /\ no_lead_ws st = true
  /\ length (spec_sys (bs "all") st) = 4%nat
  /\ forallb wf_kproc (k_procs st) = true.
Proof. vm_compute. repeat split; reflexivity. Qed.

(* the code before d36edd1: a UNIX socket open in two processes lost the rows of all but one of them *)
Lemma unix_shared_refuted :
  exists st, wf_state st = true /\ files_text_safe true st = true /\ no_lead_ws st = true
             /\ unix_unshared st = false
             /\ exists rows, net_connections before_repairs true (k_files true st) (to_procs (k_procs st)) (bs "unix") = Val rows
                             /\ length (spec_sys (bs "unix") st) = 4%nat /\ length rows = 3%nat.
Proof.
  exists (ex_state true (bs "/tmp/a b")). vm_compute. repeat split; try reflexivity.
  eexists. repeat split; reflexivity.
Qed.

(* the code before 9cf9292: a UNIX name starting with white space was returned without it *)
Lemma unix_lead_ws_refuted :
  exists st, wf_state st = true /\ files_text_safe true st = true /\ unix_unshared st = true
             /\ no_lead_ws st = false
             /\ exists rows, net_connections before_repairs true (k_files true st) (to_procs (k_procs st)) (bs "unix") = Val rows
                             /\ map e_laddr (spec_sys (bs "unix") st) = [APath (bs " lead"); APath (bs "@abstract name")]
                             /\ map r_laddr rows = [APath (bs "lead"); APath (bs "@abstract name")].
Proof.
  exists (ex_state false (bs " lead")). vm_compute. repeat split; try reflexivity.
  eexists. repeat split; reflexivity.
Qed.

(* the defect repaired by b838598 (the code before it returned '' for a path with a blank; that code is
   not modelled): the path is returned whole *)
Lemma unix_path_with_blank :
  exists rows, net_connections current true (k_files true (ex_state false (bs "/tmp/a b")))
                               (to_procs (k_procs (ex_state false (bs "/tmp/a b")))) (bs "unix") = Val rows
               /\ map r_laddr rows = [APath (bs "/tmp/a b"); APath (bs "@abstract name")].
Proof. eexists. vm_compute. split; reflexivity. Qed.

(* the code as it is now gives the demanded answer on the two witnesses *)
Lemma repaired_witnesses :
  let v := current in
  (exists rows, net_connections v true (k_files true (ex_state true (bs "/tmp/a b")))
                                (to_procs (k_procs (ex_state true (bs "/tmp/a b")))) (bs "unix") = Val rows
                /\ length rows = 4%nat)
  /\ (exists rows, net_connections v true (k_files true (ex_state false (bs " lead")))
                                   (to_procs (k_procs (ex_state false (bs " lead")))) (bs "unix") = Val rows
                   /\ map r_laddr rows = [APath (bs " lead"); APath (bs "@abstract name")]).
Proof. split; eexists; vm_compute; split; reflexivity. Qed.

(* the domain of the theorems for the current code includes states with a UNIX socket shared between two
   processes whose name starts with a blank *)
Example full_domain_example :
  let st := ex_state true (bs " lead") in
  wf_state st = true /\ files_text_safe true st = true /\ unix_unshared st = false /\ no_lead_ws st = false
  /\ length (spec_sys (bs "all") st) = 6%nat.
Proof. vm_compute. repeat split; reflexivity. Qed.
