(* C11 -- assembly: retrieve over the generated tmap, then the system-wide and per-process theorems,
   the two refuted classes and the satisfiability examples. *)
From PV Require Import C11.Spec C11.Lib C11.ProofsTables C11.ProofsAddr C11.ProofsLines C11.ProofsOwners.
Require Import ZifyBool.

(* ------------------------------------------------------------ retrieve = the reference tables *)
Lemma filter_all {A} (f : A -> bool) l : (forall x, In x l -> f x = true) -> filter f l = l.
Proof.
  induction l as [|x l IH]; intros H; [reflexivity|]. cbn [filter]. rewrite (H x (or_introl eq_refl)).
  f_equal. apply IH. intros y Hy. apply H. now right.
Qed.

Lemma protos_rows_app v le o files lk filt a b :
  protos_rows v le o files lk filt (a ++ b)
  = do x <- protos_rows v le o files lk filt a; do y <- protos_rows v le o files lk filt b; Val (x ++ y).
Proof.
  induction a as [|p a IH].
  - cbn [app protos_rows obind]. destruct (protos_rows v le o files lk filt b); reflexivity.
  - cbn [app protos_rows]. rewrite IH.
    destruct (proto_rows v le o files lk filt p) as [r| |]; cbn [obind]; try reflexivity.
    destruct (protos_rows v le o files lk filt a) as [ra| |]; cbn [obind]; try reflexivity.
    destruct (protos_rows v le o files lk filt b) as [rb| |]; cbn [obind]; try reflexivity.
    now rewrite app_assoc.
Qed.

Lemma protos_rows_on v le o files lk filt (b : bool) p R :
  (b = true -> proto_rows v le o files lk filt p = Val R) ->
  protos_rows v le o files lk filt (on b [p]) = Val (on b R).
Proof.
  destruct b; cbn [on]; intros H; [|reflexivity].
  cbn [protos_rows]. rewrite H by reflexivity. cbn [obind]. now rewrite app_nil_r.
Qed.

(* the access log follows the rows: as long as every table parses, every table of the list is opened *)
Lemma protos_log_app v le o files lk filt a b ra :
  protos_rows v le o files lk filt a = Val ra ->
  protos_log v le o files lk filt (a ++ b) = protos_log v le o files lk filt a ++ protos_log v le o files lk filt b.
Proof.
  revert ra. induction a as [|p a IH]; intros ra H; [reflexivity|].
  cbn [app protos_log protos_rows] in *.
  destruct (proto_rows v le o files lk filt p) as [r| |]; cbn [obind] in H; try discriminate.
  destruct (protos_rows v le o files lk filt a) as [ra'| |]; cbn [obind] in H; try discriminate.
  rewrite (IH ra' eq_refl). now rewrite app_assoc.
Qed.
Lemma protos_log_on v le o files lk filt (b : bool) p R :
  (b = true -> proto_rows v le o files lk filt p = Val R) ->
  protos_log v le o files lk filt (on b [p]) = on b (proto_log files p).
Proof.
  destruct b; cbn [on]; intros H; [|reflexivity].
  cbn [protos_log]. rewrite H by reflexivity. now rewrite app_nil_r.
Qed.

Definition p_tcp4 : proto := (bs "tcp", 2, Some 1).
Definition p_tcp6 : proto := (bs "tcp6", 10, Some 1).
Definition p_udp4 : proto := (bs "udp", 2, Some 2).
Definition p_udp6 : proto := (bs "udp6", 10, Some 2).
Definition p_unix : proto := (bs "unix", 1, None).

Lemma filter_all5 f :
  filter f all5 = on (f p_tcp4) [p_tcp4] ++ on (f p_tcp6) [p_tcp6] ++ on (f p_udp4) [p_udp4]
                  ++ on (f p_udp6) [p_udp6] ++ on (f p_unix) [p_unix].
Proof.
  unfold all5. fold p_tcp4 p_tcp6 p_udp4 p_udp6 p_unix. cbn [filter].
  destruct (f p_tcp4), (f p_tcp6), (f p_udp4), (f p_udp6), (f p_unix); reflexivity.
Qed.

Definition R_inet (lk : imap) (filt : option Z) (fam ty : Z) (socks : list isock) : list row :=
  flat_map (fun s => olist (ref_inet_row lk filt fam ty s)) socks.
Definition R_unix (lk : imap) (filt : option Z) (us : list usock) : list row :=
  flat_map (ref_unix_rows 1 lk filt) us.

Lemma wf_state_parts st :
  wf_state st = true ->
  forallb (wf_isock false) (k_tcp4 st) = true /\ forallb tcp_state_ok (k_tcp4 st) = true
  /\ forallb (wf_isock true) (opt_list (k_tcp6 st)) = true /\ forallb tcp_state_ok (opt_list (k_tcp6 st)) = true
  /\ forallb (wf_isock false) (k_udp4 st) = true /\ forallb (wf_isock true) (opt_list (k_udp6 st)) = true
  /\ forallb wf_usock (k_unix st) = true /\ forallb wf_kproc (k_procs st) = true /\ deg_ok st = true.
Proof.
  unfold wf_state. intros H. apply andb_true_iff in H as [H HD].
  repeat (apply andb_true_iff in H as [H ?]). repeat split; assumption.
Qed.

(* a degenerate file stands for an existing table without sockets *)
Lemma deg_ok_parts st :
  deg_ok st = true ->
  (forall d, k_deg st (bs "tcp") = Some d -> k_tcp4 st = [])
  /\ (forall d, k_deg st (bs "tcp6") = Some d -> k_tcp6 st = Some [])
  /\ (forall d, k_deg st (bs "udp") = Some d -> k_udp4 st = [])
  /\ (forall d, k_deg st (bs "udp6") = Some d -> k_udp6 st = Some [])
  /\ (forall d, k_deg st (bs "unix") = Some d -> k_unix st = []).
Proof.
  unfold deg_ok. intros H.
  apply andb_true_iff in H as [H H5]. apply andb_true_iff in H as [H H4].
  apply andb_true_iff in H as [H H3]. apply andb_true_iff in H as [H1 H2].
  repeat split; intros d E.
  - rewrite E in H1. now destruct (k_tcp4 st).
  - rewrite E in H2. destruct (k_tcp6 st) as [[|x l]|]; congruence.
  - rewrite E in H3. now destruct (k_udp4 st).
  - rewrite E in H4. destruct (k_udp6 st) as [[|x l]|]; congruence.
  - rewrite E in H5. now destruct (k_unix st).
Qed.

Lemma files_text_safe_parts le st :
  files_text_safe le st = true ->
  text_safe (k_table_file (k_deg st (bs "tcp")) hdr_tcp (k_ifile le hdr_tcp (k_tcp4 st))) = true
  /\ (forall l, k_tcp6 st = Some l -> text_safe (k_table_file (k_deg st (bs "tcp6")) hdr_tcp6 (k_ifile le hdr_tcp6 l)) = true)
  /\ text_safe (k_table_file (k_deg st (bs "udp")) hdr_udp (k_ifile le hdr_udp (k_udp4 st))) = true
  /\ (forall l, k_udp6 st = Some l -> text_safe (k_table_file (k_deg st (bs "udp6")) hdr_udp6 (k_ifile le hdr_udp6 l)) = true)
  /\ unix_heads_safe st = true.
Proof.
  unfold files_text_safe. intros H. apply andb_true_iff in H as [H HU]. revert H. cbn [forallb].
  change (k_files le st (bs "tcp")) with (Some (k_table_file (k_deg st (bs "tcp")) hdr_tcp (k_ifile le hdr_tcp (k_tcp4 st)))).
  change (k_files le st (bs "tcp6"))
    with (option_map (fun l => k_table_file (k_deg st (bs "tcp6")) hdr_tcp6 (k_ifile le hdr_tcp6 l)) (k_tcp6 st)).
  change (k_files le st (bs "udp")) with (Some (k_table_file (k_deg st (bs "udp")) hdr_udp (k_ifile le hdr_udp (k_udp4 st)))).
  change (k_files le st (bs "udp6"))
    with (option_map (fun l => k_table_file (k_deg st (bs "udp6")) hdr_udp6 (k_ifile le hdr_udp6 l)) (k_udp6 st)).
  intros H.
  apply andb_true_iff in H as [H1 H]. apply andb_true_iff in H as [H2 H].
  apply andb_true_iff in H as [H3 H]. apply andb_true_iff in H as [H4 _].
  split; [exact H1|]. split; [intros l E; rewrite E in H2; exact H2|].
  split; [exact H3|]. split; [intros l E; rewrite E in H4; exact H4|]. exact HU.
Qed.

(* which sockets of a table are shown on a host described by the oracle *)
Lemma shown_v4 o l : shown o false l = l.
Proof. unfold shown. apply filter_all. intros x _. reflexivity. Qed.
Lemma shown_ok o v6 l : o_ntop6 o = true -> shown o v6 l = l.
Proof.
  intros H. unfold shown. apply filter_all. intros x _. unfold hidden6. rewrite H.
  now rewrite andb_false_r.
Qed.
Lemma shown_v6_no o l : o_ntop6 o = false -> shown o true l = filter ports_zero l.
Proof.
  intros H. unfold shown. apply filter_ext. intros s. unfold hidden6. rewrite H. cbn [negb andb].
  apply negb_involutive.
Qed.

Lemma restrict6_parts o st :
  k_tcp4 (restrict6 o st) = k_tcp4 st
  /\ opt_list (k_tcp6 (restrict6 o st)) = shown o true (opt_list (k_tcp6 st))
  /\ k_udp4 (restrict6 o st) = k_udp4 st
  /\ opt_list (k_udp6 (restrict6 o st)) = shown o true (opt_list (k_udp6 st))
  /\ k_unix (restrict6 o st) = k_unix st /\ k_procs (restrict6 o st) = k_procs st.
Proof.
  unfold restrict6. destruct (o_ntop6 o) eqn:E.
  - rewrite !shown_ok by exact E. repeat split; reflexivity.
  - rewrite !shown_v6_no by exact E. cbn [k_tcp4 k_tcp6 k_udp4 k_udp6 k_unix k_procs].
    repeat split; try reflexivity.
    + now destruct (k_tcp6 st).
    + now destruct (k_udp6 st).
Qed.

Definition no_v6_failure (o : ipv6_oracle) : Prop := o_ntop6 o = true \/ o_supported o = false.
Lemma no_v6_failure_v6 o : no_v6_failure o -> no_v6_error o true.
Proof. intros [H|H]; [left; exact H|right; right; exact H]. Qed.
Lemma no_v6_error_v4 o : no_v6_error o false.
Proof. right. left. reflexivity. Qed.

Section Protos.
  Variables (v : variant) (le : bool) (o : ipv6_oracle) (st : kstate) (lk : imap) (filt : option Z).
  Hypothesis Hlk : lk_ok lk.
  Hypothesis Hwf : wf_state st = true.
  Hypothesis Hsafe : files_text_safe le st = true.
  Hypothesis Ho : no_v6_failure o.
  Hypothesis Hug : unix_guard v st = true.

  Lemma P_tcp4 : proto_rows v le o (k_files le st) lk filt p_tcp4 = Val (R_inet lk filt 2 1 (k_tcp4 st)).
  Proof.
    apply wf_state_parts in Hwf as (W4 & S4 & _ & _ & _ & _ & _ & _ & HD). apply files_text_safe_parts in Hsafe as (T4 & _).
    apply deg_ok_parts in HD as (D & _).
    unfold proto_rows, p_tcp4. cbv beta iota.
    change ((2 =? AF_INET) || (2 =? AF_INET6)) with true. cbv iota.
    change (k_files le st (bs "tcp")) with (Some (k_table_file (k_deg st (bs "tcp")) hdr_tcp (k_ifile le hdr_tcp (k_tcp4 st)))).
    destruct (k_deg st (bs "tcp")) as [d|]; cbn [k_table_file] in *.
    { rewrite (D d eq_refl). now apply process_inet_degenerate. }
    rewrite <- (shown_v4 o (k_tcp4 st)) at 2.
    exact (process_inet_ok le o false 1 lk filt hdr_tcp (k_tcp4 st) _ Hlk eq_refl W4
             (or_introl (conj eq_refl S4)) (no_v6_error_v4 o) T4).
  Qed.
  Lemma P_udp4 : proto_rows v le o (k_files le st) lk filt p_udp4 = Val (R_inet lk filt 2 2 (k_udp4 st)).
  Proof.
    apply wf_state_parts in Hwf as (_ & _ & _ & _ & U4 & _ & _ & _ & HD). apply files_text_safe_parts in Hsafe as (_ & _ & TU4 & _).
    apply deg_ok_parts in HD as (_ & _ & D & _).
    unfold proto_rows, p_udp4. cbv beta iota.
    change ((2 =? AF_INET) || (2 =? AF_INET6)) with true. cbv iota.
    change (k_files le st (bs "udp")) with (Some (k_table_file (k_deg st (bs "udp")) hdr_udp (k_ifile le hdr_udp (k_udp4 st)))).
    destruct (k_deg st (bs "udp")) as [d|]; cbn [k_table_file] in *.
    { rewrite (D d eq_refl). now apply process_inet_degenerate. }
    rewrite <- (shown_v4 o (k_udp4 st)) at 2.
    exact (process_inet_ok le o false 2 lk filt hdr_udp (k_udp4 st) _ Hlk eq_refl U4 (or_intror eq_refl)
             (no_v6_error_v4 o) TU4).
  Qed.
  Lemma P_tcp6 : proto_rows v le o (k_files le st) lk filt p_tcp6
                 = Val (R_inet lk filt 10 1 (shown o true (opt_list (k_tcp6 st)))).
  Proof.
    apply wf_state_parts in Hwf as (_ & _ & W6 & S6 & _ & _ & _ & _ & HD). apply files_text_safe_parts in Hsafe as (_ & T6 & _).
    apply deg_ok_parts in HD as (_ & D & _).
    unfold proto_rows, p_tcp6. cbv beta iota.
    change ((10 =? AF_INET) || (10 =? AF_INET6)) with true. cbv iota.
    change (k_files le st (bs "tcp6"))
      with (option_map (fun l => k_table_file (k_deg st (bs "tcp6")) hdr_tcp6 (k_ifile le hdr_tcp6 l)) (k_tcp6 st)).
    destruct (k_tcp6 st) as [l|] eqn:E6; cbn [option_map opt_list] in *.
    - specialize (T6 l eq_refl). destruct (k_deg st (bs "tcp6")) as [d|]; cbn [k_table_file] in *.
      { specialize (D d eq_refl). inversion D; subst l. now apply process_inet_degenerate. }
      exact (process_inet_ok le o true 1 lk filt hdr_tcp6 l _ Hlk eq_refl W6
               (or_introl (conj eq_refl S6)) (no_v6_failure_v6 o Ho) T6).
    - reflexivity.
  Qed.
  Lemma P_udp6 : proto_rows v le o (k_files le st) lk filt p_udp6
                 = Val (R_inet lk filt 10 2 (shown o true (opt_list (k_udp6 st)))).
  Proof.
    apply wf_state_parts in Hwf as (_ & _ & _ & _ & _ & U6 & _ & _ & HD).
    apply files_text_safe_parts in Hsafe as (_ & _ & _ & TU6 & _).
    apply deg_ok_parts in HD as (_ & _ & _ & D & _).
    unfold proto_rows, p_udp6. cbv beta iota.
    change ((10 =? AF_INET) || (10 =? AF_INET6)) with true. cbv iota.
    change (k_files le st (bs "udp6"))
      with (option_map (fun l => k_table_file (k_deg st (bs "udp6")) hdr_udp6 (k_ifile le hdr_udp6 l)) (k_udp6 st)).
    destruct (k_udp6 st) as [l|] eqn:E6; cbn [option_map opt_list] in *.
    - specialize (TU6 l eq_refl). destruct (k_deg st (bs "udp6")) as [d|]; cbn [k_table_file] in *.
      { specialize (D d eq_refl). inversion D; subst l. now apply process_inet_degenerate. }
      exact (process_inet_ok le o true 2 lk filt hdr_udp6 l _ Hlk eq_refl U6 (or_intror eq_refl)
               (no_v6_failure_v6 o Ho) TU6).
    - reflexivity.
  Qed.
  Lemma P_unix : v_exact v = true \/ no_lead_ws st = true ->
    proto_rows v le o (k_files le st) lk filt p_unix = Val (R_unix lk filt (k_unix st)).
  Proof.
    intros Hux.
    apply wf_state_parts in Hwf as (_ & _ & _ & _ & _ & _ & WU & _ & HD).
    apply deg_ok_parts in HD as (_ & _ & _ & _ & D).
    unfold unix_guard in Hug. apply andb_true_iff in Hug as [G1 G2].
    unfold proto_rows, p_unix. cbv beta iota.
    change ((1 =? AF_INET) || (1 =? AF_INET6)) with false. cbv iota.
    change (k_files le st (bs "unix")) with (Some (k_table_file (k_deg st (bs "unix")) hdr_unix (k_ufile (k_unix st)))).
    destruct (k_deg st (bs "unix")) as [d|]; cbn [k_table_file].
    { rewrite (D d eq_refl). apply process_unix_degenerate. }
    apply process_unix_ok; [exact WU|exact Hux|exact G1|].
    apply orb_true_iff in G2 as [G2|G2]; [now left|right; now apply negb_true_iff in G2].
  Qed.

  Lemma retrieve_ok kind :
    In kind kinds -> (covers_unix kind = true -> v_exact v = true \/ no_lead_ws st = true) ->
    retrieve v le o (k_files le st) kind lk filt
    = Val (on (spec_admits kind 2 1) (R_inet lk filt 2 1 (k_tcp4 st))
           ++ on (spec_admits kind 10 1) (R_inet lk filt 10 1 (shown o true (opt_list (k_tcp6 st))))
           ++ on (spec_admits kind 2 2) (R_inet lk filt 2 2 (k_udp4 st))
           ++ on (spec_admits kind 10 2) (R_inet lk filt 10 2 (shown o true (opt_list (k_udp6 st))))
           ++ on (spec_admits kind 1 1) (R_unix lk filt (k_unix st)))
    /\ retrieve_log v le o (k_files le st) kind lk filt = spec_log kind st.
  Proof.
    intros Hk Hux.
    assert (R1 := protos_rows_on v le o (k_files le st) lk filt (proto_admitted kind p_tcp4) p_tcp4 _ (fun _ => P_tcp4)).
    assert (R2 := protos_rows_on v le o (k_files le st) lk filt (proto_admitted kind p_tcp6) p_tcp6 _ (fun _ => P_tcp6)).
    assert (R3 := protos_rows_on v le o (k_files le st) lk filt (proto_admitted kind p_udp4) p_udp4 _ (fun _ => P_udp4)).
    assert (R4 := protos_rows_on v le o (k_files le st) lk filt (proto_admitted kind p_udp6) p_udp6 _ (fun _ => P_udp6)).
    assert (R5 := protos_rows_on v le o (k_files le st) lk filt (proto_admitted kind p_unix) p_unix _
                    (fun Hb => P_unix (Hux Hb))).
    assert (L1 := protos_log_on v le o (k_files le st) lk filt (proto_admitted kind p_tcp4) p_tcp4 _ (fun _ => P_tcp4)).
    assert (L2 := protos_log_on v le o (k_files le st) lk filt (proto_admitted kind p_tcp6) p_tcp6 _ (fun _ => P_tcp6)).
    assert (L3 := protos_log_on v le o (k_files le st) lk filt (proto_admitted kind p_udp4) p_udp4 _ (fun _ => P_udp4)).
    assert (L4 := protos_log_on v le o (k_files le st) lk filt (proto_admitted kind p_udp6) p_udp6 _ (fun _ => P_udp6)).
    assert (L5 := protos_log_on v le o (k_files le st) lk filt (proto_admitted kind p_unix) p_unix _
                    (fun Hb => P_unix (Hux Hb))).
    split.
    - unfold retrieve. rewrite kind_table_tmap by exact Hk. cbn [of_option obind].
      rewrite filter_all5. rewrite !protos_rows_app. rewrite R1, R2, R3, R4, R5. cbn [obind]. reflexivity.
    - unfold retrieve_log. rewrite kind_table_tmap by exact Hk. rewrite filter_all5.
      rewrite (protos_log_app _ _ _ _ _ _ _ _ _ R1), (protos_log_app _ _ _ _ _ _ _ _ _ R2),
              (protos_log_app _ _ _ _ _ _ _ _ _ R3), (protos_log_app _ _ _ _ _ _ _ _ _ R4).
      rewrite L1, L2, L3, L4, L5. unfold spec_log.
      change (proto_admitted kind p_tcp4) with (spec_admits kind 2 1).
      change (proto_admitted kind p_tcp6) with (spec_admits kind 10 1).
      change (proto_admitted kind p_udp4) with (spec_admits kind 2 2).
      change (proto_admitted kind p_udp6) with (spec_admits kind 10 2).
      change (proto_admitted kind p_unix) with (spec_admits kind 1 1).
      change (proto_log (k_files le st) p_tcp4) with [bs "tcp"].
      change (proto_log (k_files le st) p_udp4) with [bs "udp"].
      change (proto_log (k_files le st) p_unix) with [bs "unix"].
      assert (E6 : proto_log (k_files le st) p_tcp6 = match k_tcp6 st with Some _ => [bs "tcp6"] | None => [] end).
      { unfold proto_log, p_tcp6. cbv beta iota.
        change ((10 =? AF_INET) || (10 =? AF_INET6)) with true. cbv iota.
        change (k_files le st (bs "tcp6"))
          with (option_map (fun l => k_table_file (k_deg st (bs "tcp6")) hdr_tcp6 (k_ifile le hdr_tcp6 l)) (k_tcp6 st)).
        now destruct (k_tcp6 st). }
      assert (E7 : proto_log (k_files le st) p_udp6 = match k_udp6 st with Some _ => [bs "udp6"] | None => [] end).
      { unfold proto_log, p_udp6. cbv beta iota.
        change ((10 =? AF_INET) || (10 =? AF_INET6)) with true. cbv iota.
        change (k_files le st (bs "udp6"))
          with (option_map (fun l => k_table_file (k_deg st (bs "udp6")) hdr_udp6 (k_ifile le hdr_udp6 l)) (k_udp6 st)).
        now destruct (k_udp6 st). }
      rewrite E6, E7. reflexivity.
  Qed.
End Protos.

Lemma Forall2_on (b : bool) R X :
  (b = true -> Forall2 row_ok R X) -> Forall2 row_ok (on b R) (on b X).
Proof. destruct b; cbn [on]; intros H; [now apply H|constructor]. Qed.

Lemma unix_entries_on own k us :
  In k kinds ->
  flat_map (fun u => on (spec_admits k 1 (utype_num (u_type u))) (unix_entry own u)) us
  = on (spec_admits k 1 1) (flat_map (unix_entry own) us).
Proof.
  intros Hk. induction us as [|u r IH]; [now destruct (spec_admits k 1 1)|].
  cbn [flat_map]. rewrite IH, (unix_any_type k _ Hk). now destruct (spec_admits k 1 1).
Qed.

Lemma Forall2_map_same {A} (f : A -> row) (g : A -> entry) l :
  (forall x, In x l -> row_ok (f x) (g x)) -> Forall2 row_ok (map f l) (map g l).
Proof.
  induction l as [|x l IH]; intros H; [constructor|].
  cbn [map]. constructor; [apply H; now left|]. apply IH. intros y Hy. apply H. now right.
Qed.


(* system-wide, TCP/UDP tables *)
Lemma sys_inet_rows v ps fam ty socks :
  Forall2 row_ok (R_inet (lookup_v v (dicts ps)) None fam ty socks)
                 (flat_map (inet_entry (sys_owners ps) fam ty) socks).
Proof.
  unfold R_inet. induction socks as [|s r IH]; [constructor|].
  cbn [flat_map]. apply Forall2_app; [|exact IH].
  unfold ref_inet_row, inet_entry, owner_of, sys_owners. cbn [filt_skip].
  destruct (lookup_v_cases v ps (s_inode s)) as [[Hh Hl]|[l (Hl & Hne & Hin)]].
  - rewrite Hl, Hh. cbn [olist]. constructor; [|constructor].
    unfold row_ok. cbn [r_family r_type r_laddr r_raddr r_status r_pid r_fd e_family e_type e_laddr e_raddr
                        e_status e_owners fst snd].
    repeat split. now left.
  - rewrite Hl. destruct l as [|[p f] l']; [congruence|].
    destruct (holders ps (s_inode s)) as [|h t] eqn:Eh.
    { exfalso. apply (Hin (p, f)). now left. }
    cbn [olist map]. constructor; [|constructor].
    unfold row_ok. cbn [r_family r_type r_laddr r_raddr r_status r_pid r_fd e_family e_type e_laddr e_raddr
                        e_status e_owners fst snd].
    repeat split.
    change ((Some (fst h), snd h) :: map (fun pf : Z * Z => (Some (fst pf), snd pf)) t)
      with (map (fun pf : Z * Z => (Some (fst pf), snd pf)) (h :: t)).
    apply in_map_iff. exists (p, f). split; [reflexivity|]. apply Hin. now left.
Qed.

(* system-wide, UNIX table: one row per holder when no socket is shared between processes *)
(* socktype_to_enum over the dumped members of socket.SocketKind = the documented members, for every number *)
Lemma sock_kind_agrees n : to_enum gen_socket_kinds n = spec_sock_kind n.
Proof.
  unfold to_enum, spec_sock_kind.
  assert (E : existsb (Z.eqb n) gen_socket_kinds = ((1 <=? n) && (n <=? 5) || (n =? 2048) || (n =? 524288))).
  { cbn [existsb gen_socket_kinds]. lia. }
  now rewrite E.
Qed.

Lemma unix_row_ok (pf : option Z * Z) u :
  row_ok {| r_fd := snd pf; r_family := tmap_obj 1; r_type := to_enum gen_socket_kinds (utype_num (u_type u));
            r_laddr := APath (path_of u);
            r_raddr := APath []; r_status := CONN_NONE; r_pid := fst pf |}
         {| e_family := TEnum 1; e_type := spec_sock_kind (utype_num (u_type u)); e_laddr := APath (path_of u);
            e_raddr := APath []; e_status := spec_none; e_owners := [pf] |}.
Proof.
  unfold row_ok. cbn [r_family r_type r_laddr r_raddr r_status r_pid r_fd e_family e_type e_laddr e_raddr
                      e_status e_owners]. rewrite sock_kind_agrees. repeat split. left. now destruct pf.
Qed.

Lemma sys_unix_rows v ps us :
  v_merge v = true \/ forallb (fun u => one_holder_proc ps (u_inode u)) us = true ->
  Forall2 row_ok (R_unix (lookup_v v (dicts ps)) None us) (flat_map (unix_entry (sys_owners ps)) us).
Proof.
  unfold R_unix. induction us as [|u r IH]; intros H; [constructor|].
  assert (Hu : v_merge v = true \/ one_holder_proc ps (u_inode u) = true).
  { destruct H as [H|H]; [now left|right]. cbn [forallb] in H. now apply andb_true_iff in H as [H _]. }
  assert (Hr : v_merge v = true \/ forallb (fun u => one_holder_proc ps (u_inode u)) r = true).
  { destruct H as [H|H]; [now left|right]. cbn [forallb] in H. now apply andb_true_iff in H as [_ H]. }
  cbn [flat_map]. apply Forall2_app; [|now apply IH].
  unfold ref_unix_rows, unix_entry, unix_pairs, sys_owners.
  rewrite (lookup_v_unshared v ps (u_inode u) Hu).
  assert (E : match match holders ps (u_inode u) with [] => None | l => Some l end with
              | Some l => map (fun pf : Z * Z => (Some (fst pf), snd pf)) l
              | None => [(None, -1)]
              end
              = match holders ps (u_inode u) with
                | [] => [(None, -1)]
                | l => map (fun pf : Z * Z => (Some (fst pf), snd pf)) l
                end) by (destruct (holders ps (u_inode u)); reflexivity).
  rewrite E. rewrite filter_all by (intros x _; reflexivity).
  apply Forall2_map_same. intros pf _. apply unix_row_ok.
Qed.

(* per process *)
Lemma proc_inet_rows p fam ty socks :
  p_visible p = true ->
  Forall2 row_ok (R_inet (lookup1 (sock_pairs p)) (Some (p_pid p)) fam ty socks)
                 (flat_map (inet_entry (proc_owners p) fam ty) socks).
Proof.
  intros Hv. unfold R_inet. induction socks as [|s r IH]; [constructor|].
  cbn [flat_map]. apply Forall2_app; [|exact IH].
  unfold ref_inet_row, inet_entry, owner_of, proc_owners. rewrite (lookup1_proc p _ Hv).
  destruct (holders_in p (s_inode s)) as [|[q f] t] eqn:Eh.
  - cbn [fst filt_skip olist map]. constructor.
  - assert (Hq : q = p_pid p).
    { change q with (fst (q, f)). apply (holders_in_pid p (s_inode s)). rewrite Eh. now left. }
    subst q. cbn [fst snd filt_skip]. rewrite Z.eqb_refl. cbn [negb olist map].
    constructor; [|constructor].
    unfold row_ok. cbn [r_family r_type r_laddr r_raddr r_status r_pid r_fd e_family e_type e_laddr e_raddr
                        e_status e_owners fst snd].
    repeat split. now left.
Qed.

Lemma proc_unix_rows p us :
  p_visible p = true ->
  Forall2 row_ok (R_unix (lookup1 (sock_pairs p)) (Some (p_pid p)) us)
                 (flat_map (unix_entry (proc_owners p)) us).
Proof.
  intros Hv. unfold R_unix. induction us as [|u r IH]; [constructor|].
  cbn [flat_map]. apply Forall2_app; [|exact IH].
  unfold ref_unix_rows, unix_entry, unix_pairs, proc_owners. rewrite (lookup1_proc p _ Hv).
  destruct (holders_in p (u_inode u)) as [|h t] eqn:Eh.
  - cbn [filter fst filt_skip negb map]. constructor.
  - rewrite filter_all.
    + apply Forall2_map_same. intros pf _. apply unix_row_ok.
    + intros x Hx. apply in_map_iff in Hx as [pf [<- Hpf]]. cbn [fst filt_skip].
      rewrite <- Eh in Hpf. rewrite (holders_in_pid p _ pf Hpf), Z.eqb_refl. reflexivity.
Qed.

(* ------------------------------------------------------------ the theorems *)
(* ------------------------------------------------------------ the set *)
Lemma as_set_nodup l : NoDup (as_set l).
Proof. apply NoDup_nodup. Qed.
Lemma as_set_in l r : In r (as_set l) <-> In r l.
Proof. apply nodup_In. Qed.

(* T6: whatever the files and descriptor tables hold, a returned list has no duplicate and holds exactly
   the rows that were add()ed *)
Theorem result_duplicate_free v le o files procs kind rows :
  net_connections v le o files procs kind = Val rows ->
  NoDup rows /\ exists adds, net_connections_adds v le o files procs kind = Val adds
                             /\ forall r, In r rows <-> In r adds.
Proof.
  unfold net_connections, omap, obind.
  destruct (net_connections_adds v le o files procs kind) as [adds| |]; try discriminate.
  intros H. inversion H; subst. split; [apply as_set_nodup|].
  exists adds. split; [reflexivity|]. intros r. apply as_set_in.
Qed.
Theorem proc_result_duplicate_free v le o files pid ls kind rows :
  proc_net_connections v le o files pid ls kind = Val rows ->
  NoDup rows /\ exists adds, proc_net_connections_adds v le o files pid ls kind = Val adds
                             /\ forall r, In r rows <-> In r adds.
Proof.
  unfold proc_net_connections, omap, obind.
  destruct (proc_net_connections_adds v le o files pid ls kind) as [adds| |]; try discriminate.
  intros H. inversion H; subst. split; [apply as_set_nodup|].
  exists adds. split; [reflexivity|]. intros r. apply as_set_in.
Qed.

(* ------------------------------------------------------------ the theorems *)
Theorem system_wide v le o st kind :
  wf_state st = true -> files_text_safe le st = true -> unix_guard v st = true -> In kind kinds -> no_v6_failure o ->
  (covers_unix kind = true -> (v_merge v = true \/ unix_unshared st = true)
                              /\ (v_exact v = true \/ no_lead_ws st = true)) ->
  exists adds, net_connections_adds v le o (k_files le st) (to_procs (k_procs st)) kind = Val adds
               /\ Forall2 row_ok adds (spec_sys kind (restrict6 o st))
               /\ net_connections v le o (k_files le st) (to_procs (k_procs st)) kind = Val (as_set adds)
               /\ net_log v le o (k_files le st) (to_procs (k_procs st)) kind = spec_log kind st.
Proof.
  intros Hwf Hsafe Hug Hk Ho Hux.
  pose proof (wf_state_parts st Hwf) as (_ & _ & _ & _ & _ & _ & _ & WP & _).
  destruct (retrieve_ok v le o st (lookup_v v (dicts (k_procs st))) None (lookup_v_lk_ok v _) Hwf Hsafe Ho Hug kind Hk)
    as [HR HL]; [intros H; now apply Hux|].
  assert (HA : net_connections_adds v le o (k_files le st) (to_procs (k_procs st)) kind
               = retrieve v le o (k_files le st) kind (lookup_v v (dicts (k_procs st))) None).
  { unfold net_connections_adds. rewrite check_kind_good by exact Hk. cbn [obind].
    rewrite get_all_inodes_ok by exact WP. reflexivity. }
  rewrite HR in HA.
  eexists. split; [exact HA|]. split; [|split].
  - destruct (restrict6_parts o st) as (E1 & E2 & E3 & E4 & E5 & E6).
    unfold spec_sys, spec_entries, spec_entries2. rewrite E1, E2, E3, E4, E5, E6.
    rewrite (unix_entries_on _ kind _ Hk).
    repeat apply Forall2_app; apply Forall2_on; intros Hb; try apply sys_inet_rows.
    apply sys_unix_rows. destruct (Hux Hb) as [Hs _]. exact Hs.
  - unfold net_connections. rewrite HA. reflexivity.
  - unfold net_log. rewrite check_kind_good by exact Hk. rewrite get_all_inodes_ok by exact WP. exact HL.
Qed.

Lemma spec_entries_nil own kind st :
  (forall ino, own ino = []) -> spec_entries own kind st = [].
Proof.
  intros H. unfold spec_entries, spec_entries2.
  assert (Hi : forall fam ty socks, flat_map (inet_entry own fam ty) socks = []).
  { intros fam ty socks. induction socks as [|s r IH]; [reflexivity|].
    cbn [flat_map]. unfold inet_entry at 1. rewrite H. exact IH. }
  assert (Hu : flat_map (fun u => on (spec_admits kind 1 (utype_num (u_type u))) (unix_entry own u)) (k_unix st) = []).
  { induction (k_unix st) as [|u r IH]; [reflexivity|].
    cbn [flat_map]. unfold unix_entry at 1. rewrite H. cbn [map]. rewrite IH.
    now destruct (spec_admits kind 1 (utype_num (u_type u))). }
  rewrite !Hi, Hu.
  destruct (spec_admits kind 2 1), (spec_admits kind 10 1), (spec_admits kind 2 2), (spec_admits kind 10 2);
    reflexivity.
Qed.

(* a process that holds no socket: [] at once, whatever the tables hold -- no table file is read *)
Theorem proc_no_sockets v le o files pid ents kind :
  get_proc_inodes pid ents = Val [] -> In kind kinds ->
  proc_net_connections_adds v le o files pid (LsOk ents) kind = Val []
  /\ proc_net_connections v le o files pid (LsOk ents) kind = Val []
  /\ proc_log v le o files pid (LsOk ents) kind = [].
Proof.
  intros H Hk. unfold proc_net_connections, proc_net_connections_adds, proc_log.
  rewrite check_kind_good by exact Hk. rewrite H. repeat split; reflexivity.
Qed.

Lemma holds_no_socket_pairs p : holds_no_socket p = true -> sock_pairs p = [].
Proof.
  unfold holds_no_socket, sock_pairs, sock_pairs_of. induction (p_fds p) as [|f r IH]; [reflexivity|].
  cbn [forallb flat_map]. intros H. apply andb_true_iff in H as [Hf Hr]. rewrite IH by exact Hr.
  unfold ent_pair. destruct (f_target f); [discriminate|reflexivity|reflexivity].
Qed.
Lemma pairs_nil_holds_none p : sock_pairs p = [] -> holds_no_socket p = true.
Proof.
  unfold holds_no_socket, sock_pairs, sock_pairs_of. induction (p_fds p) as [|f r IH]; [reflexivity|].
  cbn [forallb flat_map]. unfold ent_pair at 1. destruct (f_target f); cbn [app]; try discriminate; exact IH.
Qed.
Corollary proc_no_sockets_kernel v le o files p kind :
  wf_kproc p = true -> p_visible p = true -> holds_no_socket p = true -> In kind kinds ->
  proc_net_connections v le o files (p_pid p) (to_listing p) kind = Val []
  /\ proc_log v le o files (p_pid p) (to_listing p) kind = [].
Proof.
  intros Hp Hv Hn Hk. unfold to_listing. rewrite Hv.
  assert (H : get_proc_inodes (p_pid p) (map to_ent (p_fds p)) = Val []).
  { unfold wf_kproc in Hp. rewrite get_proc_inodes_ok by exact Hp. fold (sock_pairs p).
    now rewrite holds_no_socket_pairs. }
  destruct (proc_no_sockets v le o files (p_pid p) _ kind H Hk) as (_ & H2 & H3). now split.
Qed.

Theorem per_process v le o st p kind :
  wf_state st = true -> files_text_safe le st = true -> unix_guard v st = true -> wf_kproc p = true -> p_visible p = true ->
  In kind kinds -> no_v6_failure o ->
  (covers_unix kind = true -> v_exact v = true \/ no_lead_ws st = true) ->
  exists adds, proc_net_connections_adds v le o (k_files le st) (p_pid p) (to_listing p) kind = Val adds
               /\ Forall2 row_ok adds (spec_proc p kind (restrict6 o st))
               /\ proc_net_connections v le o (k_files le st) (p_pid p) (to_listing p) kind = Val (as_set adds)
               /\ proc_log v le o (k_files le st) (p_pid p) (to_listing p) kind = spec_proc_log p kind st.
Proof.
  intros Hwf Hsafe Hug Hp Hv Hk Ho Hux. unfold spec_proc_log.
  assert (HI : get_proc_inodes (p_pid p) (map to_ent (p_fds p)) = Val (sock_pairs p)).
  { unfold wf_kproc in Hp. now rewrite get_proc_inodes_ok by exact Hp. }
  unfold proc_net_connections, proc_net_connections_adds, proc_log.
  rewrite check_kind_good by exact Hk. cbn [obind].
  unfold to_listing. rewrite Hv, HI. cbn [obind].
  destruct (sock_pairs p) as [|kv d] eqn:Ed.
  - rewrite (pairs_nil_holds_none p Ed).
    exists []. split; [reflexivity|]. split; [|split; reflexivity].
    unfold spec_proc. rewrite spec_entries_nil; [constructor|].
    intros ino. unfold proc_owners. rewrite (holders_in_visible p ino Hv), Ed. reflexivity.
  - assert (Hn : holds_no_socket p = false).
    { destruct (holds_no_socket p) eqn:E; [|reflexivity]. rewrite holds_no_socket_pairs in Ed by exact E. discriminate. }
    rewrite Hn. rewrite <- Ed.
    destruct (retrieve_ok v le o st (lookup1 (sock_pairs p)) (Some (p_pid p)) (lookup1_lk_ok _) Hwf Hsafe Ho Hug kind Hk Hux)
      as [HR HL].
    rewrite HR. eexists. split; [reflexivity|]. split; [|split; [reflexivity|]].
    + destruct (restrict6_parts o st) as (E1 & E2 & E3 & E4 & E5 & E6).
      unfold spec_proc, spec_entries, spec_entries2. rewrite E1, E2, E3, E4, E5.
      rewrite (unix_entries_on _ kind _ Hk).
      repeat apply Forall2_app; apply Forall2_on; intros Hb; try (now apply proc_inet_rows).
      now apply proc_unix_rows.
    + exact HL.
Qed.

(* the current code (v_merge) reports the first holder in scan order *)
Lemma sys_inet_rows_first v ps fam ty socks :
  v_merge v = true ->
  Forall2 row_ok (R_inet (lookup_v v (dicts ps)) None fam ty socks)
                 (flat_map (inet_entry (fun ino => firstn 1 (sys_owners ps ino)) fam ty) socks).
Proof.
  intros Hm. unfold R_inet. induction socks as [|s r IH]; [constructor|].
  cbn [flat_map]. apply Forall2_app; [|exact IH].
  unfold ref_inet_row, inet_entry, owner_of, sys_owners. cbn [filt_skip].
  rewrite (lookup_v_unshared v ps (s_inode s) (or_introl Hm)).
  destruct (holders ps (s_inode s)) as [|[p f] t].
  - cbn [firstn olist]. constructor; [|constructor].
    unfold row_ok. cbn [r_family r_type r_laddr r_raddr r_status r_pid r_fd e_family e_type e_laddr e_raddr
                        e_status e_owners fst snd].
    repeat split. now left.
  - cbn [map firstn fst snd olist]. constructor; [|constructor].
    unfold row_ok. cbn [r_family r_type r_laddr r_raddr r_status r_pid r_fd e_family e_type e_laddr e_raddr
                        e_status e_owners fst snd].
    repeat split. now left.
Qed.

Theorem system_wide_first v le o st kind :
  v_merge v = true ->
  wf_state st = true -> files_text_safe le st = true -> unix_guard v st = true -> In kind kinds -> no_v6_failure o ->
  (covers_unix kind = true -> v_exact v = true \/ no_lead_ws st = true) ->
  exists adds, net_connections_adds v le o (k_files le st) (to_procs (k_procs st)) kind = Val adds
               /\ Forall2 row_ok adds (spec_sys_first kind (restrict6 o st)).
Proof.
  intros Hm Hwf Hsafe Hug Hk Ho Hux.
  pose proof (wf_state_parts st Hwf) as (_ & _ & _ & _ & _ & _ & _ & WP & _).
  destruct (retrieve_ok v le o st (lookup_v v (dicts (k_procs st))) None (lookup_v_lk_ok v _) Hwf Hsafe Ho Hug kind Hk Hux)
    as [HR _].
  unfold net_connections_adds. rewrite check_kind_good by exact Hk. cbn [obind].
  rewrite get_all_inodes_ok by exact WP. cbn [obind]. rewrite HR.
  eexists. split; [reflexivity|].
  destruct (restrict6_parts o st) as (E1 & E2 & E3 & E4 & E5 & E6).
  unfold spec_sys_first, spec_entries2. rewrite E1, E2, E3, E4, E5, E6. rewrite (unix_entries_on _ kind _ Hk).
  repeat apply Forall2_app; apply Forall2_on; intros Hb; try (now apply sys_inet_rows_first).
  apply sys_unix_rows. now left.
Qed.

(* for the code as it is now the guard of the unix file is implied: only the fixed-format part of a record matters *)
Lemma unix_guard_current le st : wf_state st = true -> files_text_safe le st = true -> unix_guard current st = true.
Proof.
  intros Hwf Hsafe. apply wf_state_parts in Hwf as (_ & _ & _ & _ & _ & _ & WU & _).
  apply files_text_safe_parts in Hsafe as (_ & _ & _ & _ & HU).
  unfold unix_guard. change (v_lf current) with true. rewrite andb_true_r.
  unfold unix_heads_safe in HU. rewrite forallb_forall in *. intros u Hu.
  rewrite line_guard_exact; [now apply HU|reflexivity|now apply WU].
Qed.

(* the code as it is now on a host with working IPv6: no exclusion, the state itself *)
Lemma restrict6_ok st : restrict6 ipv6_ok st = st.
Proof. reflexivity. Qed.

Corollary system_wide_current le st kind :
  wf_state st = true -> files_text_safe le st = true -> In kind kinds ->
  exists adds, net_connections_adds current le ipv6_ok (k_files le st) (to_procs (k_procs st)) kind = Val adds
               /\ Forall2 row_ok adds (spec_sys kind st)
               /\ net_connections current le ipv6_ok (k_files le st) (to_procs (k_procs st)) kind = Val (as_set adds)
               /\ net_log current le ipv6_ok (k_files le st) (to_procs (k_procs st)) kind = spec_log kind st.
Proof.
  intros Hwf Hsafe Hk.
  apply (system_wide current le ipv6_ok st kind Hwf Hsafe (unix_guard_current le st Hwf Hsafe) Hk); [left; reflexivity|].
  intros _. split; left; reflexivity.
Qed.
Corollary system_wide_first_current le st kind :
  wf_state st = true -> files_text_safe le st = true -> In kind kinds ->
  exists adds, net_connections_adds current le ipv6_ok (k_files le st) (to_procs (k_procs st)) kind = Val adds
               /\ Forall2 row_ok adds (spec_sys_first kind st).
Proof.
  intros Hwf Hsafe Hk.
  apply (system_wide_first current le ipv6_ok st kind eq_refl Hwf Hsafe (unix_guard_current le st Hwf Hsafe) Hk); [left; reflexivity|].
  intros _. left; reflexivity.
Qed.
Corollary per_process_current le st p kind :
  wf_state st = true -> files_text_safe le st = true -> wf_kproc p = true -> p_visible p = true ->
  In kind kinds ->
  exists adds, proc_net_connections_adds current le ipv6_ok (k_files le st) (p_pid p) (to_listing p) kind = Val adds
               /\ Forall2 row_ok adds (spec_proc p kind st)
               /\ proc_net_connections current le ipv6_ok (k_files le st) (p_pid p) (to_listing p) kind = Val (as_set adds)
               /\ proc_log current le ipv6_ok (k_files le st) (p_pid p) (to_listing p) kind = spec_proc_log p kind st.
Proof.
  intros Hwf Hsafe Hp Hv Hk.
  apply (per_process current le ipv6_ok st p kind Hwf Hsafe (unix_guard_current le st Hwf Hsafe) Hp Hv Hk); [left; reflexivity|].
  intros _. left; reflexivity.
Qed.

(* a host without IPv6 (inet_ntop cannot format it and supports_ipv6() says so): the IPv4 and UNIX rows are
   exactly those of a host with IPv6; of the IPv6 tables only the sockets with both ports 0 remain *)
Corollary ipv6_unsupported le st kind :
  let o := {| o_ntop6 := false; o_supported := false |} in
  wf_state st = true -> files_text_safe le st = true -> In kind kinds ->
  exists adds, net_connections_adds current le o (k_files le st) (to_procs (k_procs st)) kind = Val adds
               /\ Forall2 row_ok adds (spec_sys kind (restrict6 o st))
               /\ k_tcp4 (restrict6 o st) = k_tcp4 st /\ k_udp4 (restrict6 o st) = k_udp4 st
               /\ k_unix (restrict6 o st) = k_unix st /\ k_procs (restrict6 o st) = k_procs st
               /\ k_tcp6 (restrict6 o st) = option_map (filter ports_zero) (k_tcp6 st)
               /\ k_udp6 (restrict6 o st) = option_map (filter ports_zero) (k_udp6 st).
Proof.
  intros o Hwf Hsafe Hk.
  destruct (system_wide current le o st kind Hwf Hsafe (unix_guard_current le st Hwf Hsafe) Hk) as (adds & HA & HF & _).
  - right. reflexivity.
  - intros _. split; left; reflexivity.
  - exists adds. repeat split; assumption || reflexivity.
Qed.

(* ------------------------------------------------------------ witnesses *)
Definition q4 (a b c d : Z) : quad := (a, b, c, d).
Definition mid0 : list bytes := [bs "00000000:00000000"; bs "00:00000000"; bs "00000000"; bs "0"; bs "0"].
Definition ex_tcp : isock :=
  Build_isock 3 (fun i => nth i [0; 0; 0; 0; 0; 0; 4; 7]%nat O) (bs "0:") (IP4 (q4 127 0 0 1)) 22 (IP4 (q4 0 0 0 0)) 0 10
              mid0 (bs "500") (bs " 1 0000000000000000 100 0 0 10 0   ").
Definition ex_udp6 : isock :=
  Build_isock 2 (fun _ => O) (bs "7:") (IP6 (q4 254 128 0 0) (q4 0 0 0 0) (q4 0 0 0 0) (q4 0 0 0 1)) 5353
              (IP6 (q4 0 0 0 0) (q4 0 0 0 0) (q4 0 0 255 255) (q4 10 0 0 5)) 65535 7 mid0 (bs "501") [].
Definition ex_unix (ino path : bytes) (t : utype) : usock :=
  Build_usock (fun i => nth i [0; 0; 0; 0; 0; 2]%nat O) (bs "0000000000000000:") (bs "00000002") (bs "00000000")
              (bs "00010000") t (bs "01") ino (Some path).
Definition ex_procs (shared : bool) : list kproc :=
  [ Build_kproc 10 true [Build_kfd (bs "3") (TSock (bs "500")); Build_kfd (bs "5") (TSock (bs "600"));
                         Build_kfd (bs "0") (TOther (bs "/dev/null") false); Build_kfd (bs "9") TClosed];
    Build_kproc 20 true (Build_kfd (bs "4") (TSock (bs "500"))
                         :: if shared then [Build_kfd (bs "6") (TSock (bs "600")); Build_kfd (bs "7") (TSock (bs "600"))]
                            else [Build_kfd (bs "6") (TSock (bs "601"))]);
    Build_kproc 30 false [Build_kfd (bs "1") (TSock (bs "501"))] ].
Definition ex_state (shared : bool) (path : bytes) : kstate :=
  Build_kstate [ex_tcp] None [] (Some [ex_udp6])
               [ex_unix (bs "600") path UStream; ex_unix (bs "601") (bs "@abstract name") USeqpacket]
               (ex_procs shared) (fun _ => None).

(* the hypotheses of [system_wide] / [per_process] hold for a state with a TCP socket held by two
   processes, a hidden holder, a UNIX name with blanks and an abstract name *)
Example hypotheses_satisfiable :
  let st := ex_state false (bs "/tmp/a b") in
  wf_state st = true /\ files_text_safe true st = true /\ unix_unshared st = true /\ no_lead_ws st = true
  /\ length (spec_sys (bs "all") st) = 4%nat
  /\ forallb wf_kproc (k_procs st) = true.
Proof. vm_compute. repeat split; reflexivity. Qed.

(* the code before d36edd1: a UNIX socket open in two processes lost the rows of all but one of them *)
Lemma unix_shared_refuted :
  exists st, wf_state st = true /\ files_text_safe true st = true /\ no_lead_ws st = true
             /\ unix_unshared st = false
             /\ exists rows, net_connections_adds before_repairs true ipv6_ok (k_files true st) (to_procs (k_procs st)) (bs "unix") = Val rows
                             /\ length (spec_sys (bs "unix") st) = 4%nat /\ length rows = 3%nat.
Proof.
  exists (ex_state true (bs "/tmp/a b")). vm_compute. repeat split; try reflexivity.
  eexists. repeat split; reflexivity.
Qed.

(* the code before 9cf9292: a UNIX name starting with white space was returned without it *)
Lemma unix_lead_ws_refuted :
  exists st, wf_state st = true /\ files_text_safe true st = true /\ unix_unshared st = true
             /\ no_lead_ws st = false
             /\ exists rows, net_connections_adds before_repairs true ipv6_ok (k_files true st) (to_procs (k_procs st)) (bs "unix") = Val rows
                             /\ map e_laddr (spec_sys (bs "unix") st) = [APath (bs " lead"); APath (bs "@abstract name")]
                             /\ map r_laddr rows = [APath (bs "lead"); APath (bs "@abstract name")].
Proof.
  exists (ex_state false (bs " lead")). vm_compute. repeat split; try reflexivity.
  eexists. repeat split; reflexivity.
Qed.

(* the defect repaired by b838598 (the code before it returned '' for a path with a blank; that code is
   not modelled): the path is returned whole *)
Lemma unix_path_with_blank :
  exists rows, net_connections_adds current true ipv6_ok (k_files true (ex_state false (bs "/tmp/a b")))
                               (to_procs (k_procs (ex_state false (bs "/tmp/a b")))) (bs "unix") = Val rows
               /\ map r_laddr rows = [APath (bs "/tmp/a b"); APath (bs "@abstract name")].
Proof. eexists. vm_compute. split; reflexivity. Qed.

(* the code as it is now gives the demanded answer on the two witnesses *)
Lemma repaired_witnesses :
  let v := current in
  (exists rows, net_connections_adds v true ipv6_ok (k_files true (ex_state true (bs "/tmp/a b")))
                                (to_procs (k_procs (ex_state true (bs "/tmp/a b")))) (bs "unix") = Val rows
                /\ length rows = 4%nat)
  /\ (exists rows, net_connections_adds v true ipv6_ok (k_files true (ex_state false (bs " lead")))
                                   (to_procs (k_procs (ex_state false (bs " lead")))) (bs "unix") = Val rows
                   /\ map r_laddr rows = [APath (bs " lead"); APath (bs "@abstract name")]).
Proof. split; eexists; vm_compute; split; reflexivity. Qed.

(* the domain of the theorems for the current code includes states with a UNIX socket shared between two
   processes whose name starts with a blank *)
Example full_domain_example :
  let st := ex_state true (bs " lead") in
  wf_state st = true /\ files_text_safe true st = true /\ unix_unshared st = false /\ no_lead_ws st = false
  /\ length (spec_sys (bs "all") st) = 6%nat.
Proof. vm_compute. repeat split; reflexivity. Qed.

(* a host without IPv6: of two IPv6 sockets only the one with both ports 0 is reported; IPv4 is untouched *)
Definition ex_v6_listen0 : isock :=
  Build_isock 2 (fun _ => O) (bs "8:") (IP6 (q4 0 0 0 0) (q4 0 0 0 0) (q4 0 0 0 0) (q4 0 0 0 0)) 0
              (IP6 (q4 0 0 0 0) (q4 0 0 0 0) (q4 0 0 0 0) (q4 0 0 0 0)) 0 7 mid0 (bs "502") [].
Example ipv6_unsupported_example :
  let o := {| o_ntop6 := false; o_supported := false |} in
  let st := Build_kstate [ex_tcp] None [] (Some [ex_udp6; ex_v6_listen0]) [] (ex_procs false) (fun _ => None) in
  wf_state st = true /\ files_text_safe true st = true
  /\ exists adds, net_connections_adds current true o (k_files true st) (to_procs (k_procs st)) (bs "inet") = Val adds
                  /\ map r_family adds = [TEnum 2; TEnum 10] /\ map r_laddr adds = [AInet [127; 0; 0; 1] 22; ANone]
                  /\ length (spec_sys (bs "inet") st) = 3%nat.
Proof. vm_compute. repeat split; try reflexivity. eexists. repeat split; reflexivity. Qed.

(* junk lines in /proc/net/unix: hypotheses of process_unix_items_ok hold for a file with a record, a token-only
   line and an empty line *)
Example unix_items_example :
  let items := [USock (ex_unix (bs "600") (bs "/tmp/a b") UStream);
                UJunk (bs "000000000000000000000000000000000000000000000000000000"); UJunk []] in
  forallb uitem_ok items = true /\ forallb (fun i => line_guard current (k_uitem i)) items = true
  /\ length (socks_of items) = 1%nat.
Proof. vm_compute. repeat split; reflexivity. Qed.

(* ------------------------------------------------------------ names with CR / LF / exotic white space *)
Definition before_0e98900 : variant := {| v_merge := true; v_exact := true; v_lf := false |}.
Definition name_cr : bytes := bs "/tmp/a" ++ [13] ++ bs "b c".
Definition name_odd : bytes := [32; 13; 28; 194; 160; 226; 128; 168; 9; 255] ++ bs " x " ++ [31].   (* blank CR FS NBSP LS tab \xff ... US *)

(* the code before 0e98900 read the unix file with universal newlines: a name holding a CR split its record
   and the whole call failed, for every caller *)
Lemma unix_cr_refuted :
  exists st, wf_state st = true /\ files_text_safe true st = true
             /\ length (spec_sys (bs "unix") st) = 2%nat
             /\ net_connections_adds before_0e98900 true ipv6_ok (k_files true st) (to_procs (k_procs st)) (bs "unix")
                = Exc RuntimeError.
Proof. exists (ex_state false name_cr). vm_compute. repeat split; reflexivity. Qed.

(* the current code returns such names whole: CR, FS, NBSP, LINE SEPARATOR, tab, undecodable bytes, leading and
   trailing blanks -- the states are in the domain of the main theorems *)
Example unix_odd_names :
  let st := ex_state true name_odd in
  wf_state st = true /\ files_text_safe true st = true
  /\ (exists rows, net_connections_adds current true ipv6_ok (k_files true st) (to_procs (k_procs st)) (bs "unix") = Val rows
                   /\ map r_laddr rows = [APath name_odd; APath name_odd; APath name_odd; APath (bs "@abstract name")])
  /\ (exists rows, net_connections_adds current true ipv6_ok (k_files true (ex_state false name_cr))
                                         (to_procs (k_procs (ex_state false name_cr))) (bs "unix") = Val rows
                   /\ map r_laddr rows = [APath name_cr; APath (bs "@abstract name")]).
Proof.
  vm_compute. split; [reflexivity|]. split; [reflexivity|].
  split; eexists; split; reflexivity.
Qed.

(* the excluded class, precisely: a name holding LF.  The kernel prints it raw (unix_seq_show), so the record is
   split.  When the tail holds a blank the whole call fails (RuntimeError); when it holds none the tail is
   skipped (issue 766) and the name is silently cut at the LF *)
Lemma unix_name_with_lf_splits :
  let u1 := ex_unix (bs "600") (bs "/tmp/a" ++ [10] ++ bs "b c") UStream in
  let u2 := ex_unix (bs "600") (bs "/tmp/a" ++ [10] ++ bs "b") UStream in
  wf_usock u1 = false /\ wf_usock u2 = false
  /\ process_unix current (Some (k_ufile [u1])) 1 (fun _ => None) None = Exc RuntimeError
  /\ exists rows, process_unix current (Some (k_ufile [u2])) 1 (fun _ => None) None = Val rows
                  /\ map r_laddr rows = [APath (bs "/tmp/a")].
Proof. vm_compute. repeat split; try reflexivity. eexists. split; reflexivity. Qed.

(* ------------------------------------------------------------ degenerate table files *)
(* tables that exist but are completely empty (0 bytes), a header without newline, a lone newline -- alone and next to a
   well-formed table: the state is in the domain of the main theorems; such a table contributes no row, raises nothing,
   and is read like any other *)
Example empty_tables_example :
  let st := Build_kstate [ex_tcp] (Some []) [] (Some []) [] (ex_procs false)
              (fun n => if beqb n (bs "tcp6") then Some DEmpty else if beqb n (bs "udp6") then Some DHeaderNoNl
                        else if beqb n (bs "unix") then Some DNewline else None) in
  wf_state st = true /\ files_text_safe true st = true
  /\ k_files true st (bs "tcp6") = Some [] /\ k_files true st (bs "udp6") = Some hdr_udp6
  /\ k_files true st (bs "unix") = Some [10]
  /\ (exists adds, net_connections_adds current true ipv6_ok (k_files true st) (to_procs (k_procs st)) (bs "all") = Val adds
                   /\ length adds = 1%nat /\ length (spec_sys (bs "all") st) = 1%nat)
  /\ net_log current true ipv6_ok (k_files true st) (to_procs (k_procs st)) (bs "all")
     = [bs "tcp"; bs "tcp6"; bs "udp"; bs "udp6"; bs "unix"]
  /\ net_connections current true ipv6_ok (k_files true st) (to_procs (k_procs st)) (bs "inet6") = Val [].
Proof.
  vm_compute. repeat split; try reflexivity. eexists. repeat split; reflexivity.
Qed.

(* every table degenerate at once, in each of the three forms *)
Example all_tables_degenerate :
  forall d, let st := Build_kstate [] (Some []) [] (Some []) [] (ex_procs false) (fun _ => Some d) in
  wf_state st = true /\ files_text_safe true st = true
  /\ net_connections current true ipv6_ok (k_files true st) (to_procs (k_procs st)) (bs "all") = Val [].
Proof. intros d. destruct d; vm_compute; repeat split; reflexivity. Qed.

(* ------------------------------------------------------------ the classes of the field values *)
Lemma field_classes :
  gen_tmap_enums = true
  /\ forallb (fun f => existsb (Z.eqb f) gen_address_families) [1; 2; 10] = true
  /\ forallb (fun s => existsb (beqb s) gen_conn_constants) (CONN_NONE :: map snd gen_tcp_statuses) = true.
Proof. repeat split; reflexivity. Qed.

(* SOCK_SEQPACKET is the member, SOCK_RAW (3) too, an unknown type (7, 0) stays a plain int *)
Example unix_type_classes :
  let st := Build_kstate [] None [] None
              [ex_unix (bs "600") (bs "/s") USeqpacket; ex_unix (bs "601") (bs "/r") (UOther 3);
               ex_unix (bs "602") (bs "/u") (UOther 7); ex_unix (bs "603") (bs "/z") (UOther 0)]
              (ex_procs false) (fun _ => None) in
  wf_state st = true /\ files_text_safe true st = true
  /\ exists adds, net_connections_adds current true ipv6_ok (k_files true st) (to_procs (k_procs st)) (bs "unix") = Val adds
                  /\ map r_type adds = [TEnum 5; TEnum 3; TInt 7; TInt 0]
                  /\ map r_family adds = [TEnum 1; TEnum 1; TEnum 1; TEnum 1]
                  /\ map e_type (spec_sys (bs "unix") st) = [TEnum 5; TEnum 3; TInt 7; TInt 0].
Proof. vm_compute. repeat split; try reflexivity. eexists. repeat split; reflexivity. Qed.
