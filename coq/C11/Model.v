(* C11 -- model of psutil's Linux net_connections():
     psutil/_pslinux.py  readlink (200-217), NetConnections (750-989), net_connections (995-997),
                         Process.net_connections (2291-2295, wrap_exceptions folded in)
     psutil/__init__.py  _check_conn_kind (275-280), called first by both public entry points
   transcribed from the code as it is now.  The constant tables (tmap, conn_tmap, TCP_STATUSES,
   socket constants) are NOT written here: they come from Gen/C11_Tables.v, dumped from the code.

   Representation choices (tied to the code by the correspondence run only):
   * /proc/net/* files are read in text mode; a line is modelled as its bytes.  Universal-newline reading
     (tcp/udp files; the unix file before fix 0e98900) is [univ_nl]; since 0e98900 the unix file is opened with
     newline="\n": only LF ends a record.  str.split() differs from bytes.split() only on \x1c-\x1f and the
     non-ASCII Unicode white space ([str_safe]): a tcp/udp file holding one is [OutOfModel]; of a unix line only
     the part that is tokenised (everything before the socket name, [unix_head]) must be free of them -- the
     name itself may hold any byte.
   * a defaultdict(list) filled by append is the list of (key, value) pairs in append order;
     d[k] = the values appended under k, "k in d" = that list is non-empty.
   * dict.update over the per-process dicts = the LAST per-process dict that has the key wins.
   * retrieve() collects namedtuples in a set: [*_adds] is the sequence of ret.add() calls, the public
     functions return [as_set] of it (the distinct rows; list(set) order is not modelled, the harness sorts).
   * inet_ntop (bytes -> text) is not modelled: an address is its packed 4/16 bytes.  Whether
     inet_ntop(AF_INET6, ..) works at all and what supports_ipv6() answers are oracles ([ipv6_oracle]).
   * [*_log] = the /proc/net files handed to open_text(), in order (compared with an access log).
   Two switches ([variant]) distinguish the code as it is now ([current], both true) from the code before two
   repairs ([before_repairs], both false; kept so that the old failures stay stated and replayable):
     v_merge : get_all_inodes keeps the (pid, fd) pairs of every process      (fix d36edd1; before: dict.update)
     v_exact : the UNIX name is what follows the single blank after the inode (fix 9cf9292; before: split(None, 7)[7])
     v_lf    : /proc/net/unix is opened with newline="\n"                      (fix 0e98900; before: universal newlines) *)
From PV Require Export Base.Dec Gen.C11_Tables.

Record variant := { v_merge : bool; v_exact : bool; v_lf : bool }.
Definition current : variant := {| v_merge := true; v_exact := true; v_lf := true |}.
Definition before_repairs : variant := {| v_merge := false; v_exact := false; v_lf := false |}.

(* ------------------------------------------------------------ text-mode guard *)
Definition uni_ws3 (c d e : Z) : bool :=
  ((c =? 225) && (d =? 154) && (e =? 128))                                   (* U+1680 *)
  || ((c =? 226) && (d =? 128) && (((128 <=? e) && (e <=? 138)) || (e =? 168) || (e =? 169) || (e =? 175)))
  || ((c =? 226) && (d =? 129) && (e =? 159))                                (* U+205F *)
  || ((c =? 227) && (d =? 128) && (e =? 128)).                               (* U+3000 *)
Definition uni_ws2 (c d : Z) : bool := (c =? 194) && ((d =? 133) || (d =? 160)).   (* U+0085 U+00A0 *)

(* no character that str.split() treats as white space and bytes.split() does not *)
Fixpoint str_safe (l : bytes) : bool :=
  match l with
  | [] => true
  | c :: r =>
    negb ((28 <=? c) && (c <=? 31))
    && negb (match r with
             | d :: r' => uni_ws2 c d || match r' with e :: _ => uni_ws3 c d e | [] => false end
             | [] => false
             end)
    && str_safe r
  end.
(* ... and no carriage return either: universal-newline reading changes nothing *)
Definition text_safe (l : bytes) : bool := negb (contains 13 l) && str_safe l.

(* open(..., newline=None): "\r\n" and "\r" are read as "\n" *)
Fixpoint univ_nl (l : bytes) : bytes :=
  match l with
  | [] => []
  | c :: r =>
    if c =? 13 then
      10 :: match r with
            | d :: r' => if d =? 10 then univ_nl r' else univ_nl r
            | [] => []
            end
    else c :: univ_nl r
  end.

(* ------------------------------------------------------------ readlink() wrapper *)
Definition deleted_sfx : bytes := bs " (deleted)".
Definition readlink_clean (raw : bytes) (exists_cut : bool) : bytes :=
  let p := hd [] (split_on 0 raw) in
  if suffixb deleted_sfx p && negb exists_cut
  then firstn (length p - 10) p else p.

(* ------------------------------------------------------------ get_proc_inodes / get_all_inodes *)
Inductive link_res :=
| LTarget (raw : bytes) (exists_cut : bool)   (* os.readlink value; path_exists_strict answer *)
| LENOENT                                     (* ENOENT / ESRCH: continue *)
| LEINVAL                                     (* EINVAL / ENAMETOOLONG: continue *)
| LEACCES.                                    (* PermissionError: raised *)
Inductive listing :=
| LsOk (ents : list (bytes * link_res))       (* os.listdir of /proc/<pid>/fd, in order, with what readlink gives *)
| LsDenied                                    (* PermissionError *)
| LsGone.                                     (* FileNotFoundError / ProcessLookupError *)

Definition flatdict := list (bytes * (Z * Z)).   (* inode -> (pid, fd), append order *)
Definition sock_pfx : bytes := bs "socket:[".

Definition fd_scan_one (pid : Z) (e : bytes * link_res) : outcome (option (bytes * (Z * Z))) :=
  match snd e with
  | LENOENT | LEINVAL => Val None
  | LEACCES => Exc AccessDenied
  | LTarget raw ex =>
    let p := readlink_clean raw ex in
    if prefixb sock_pfx p then
      do fd <- py_int (fst e);
      Val (Some (removelast (skipn 8 p), (pid, fd)))
    else Val None
  end.

Fixpoint get_proc_inodes (pid : Z) (ents : list (bytes * link_res)) : outcome flatdict :=
  match ents with
  | [] => Val []
  | e :: r =>
    do x <- fd_scan_one pid e;
    do rest <- get_proc_inodes pid r;
    Val (match x with Some kv => kv :: rest | None => rest end)
  end.

(* d[inode] for a defaultdict filled by append *)
Definition pairs_of (d : flatdict) (ino : bytes) : list (Z * Z) :=
  map snd (filter (fun kv => beqb (fst kv) ino) d).
Definition lookup1 (d : flatdict) (ino : bytes) : option (list (Z * Z)) :=
  match pairs_of d ino with [] => None | l => Some l end.

(* code before d36edd1: inodes = {}; for pid in pids(): inodes.update(get_proc_inodes(pid)) -- later pid wins *)
Fixpoint lookup_all (ds : list flatdict) (ino : bytes) : option (list (Z * Z)) :=
  match ds with
  | [] => None
  | d :: r => match lookup_all r ino with Some l => Some l | None => lookup1 d ino end
  end.

(* current code: for inode, pairs in proc_inodes.items(): inodes.setdefault(inode, []).extend(pairs) *)
Definition lookup_merged (ds : list flatdict) (ino : bytes) : option (list (Z * Z)) :=
  match flat_map (fun d => pairs_of d ino) ds with [] => None | l => Some l end.
Definition lookup_v (v : variant) (ds : list flatdict) : bytes -> option (list (Z * Z)) :=
  if v_merge v then lookup_merged ds else lookup_all ds.

Fixpoint get_all_inodes (procs : list (Z * listing)) : outcome (list flatdict) :=
  match procs with
  | [] => Val []
  | (pid, ls) :: r =>
    match ls with
    | LsDenied | LsGone => get_all_inodes r
    | LsOk ents =>
      match get_proc_inodes pid ents with
      | Val d => do rest <- get_all_inodes r; Val (d :: rest)
      | Exc AccessDenied => get_all_inodes r          (* except PermissionError: continue *)
      | Exc e => Exc e
      | OutOfModel => OutOfModel
      end
    end
  end.

Definition imap := bytes -> option (list (Z * Z)).

(* ------------------------------------------------------------ decode_address *)
Inductive addr := ANone | AInet (ip : bytes) (port : Z) | APath (p : bytes).
(* family and type are Python objects whose CLASS matters: a member of socket.AddressFamily / socket.SocketKind
   (an IntEnum: prints as SOCK_SEQPACKET, compares equal to 5) or a plain int *)
Inductive tagged := TEnum (n : Z) | TInt (n : Z).
Definition tag_val (t : tagged) : Z := match t with TEnum n | TInt n => n end.
(* _common.socktype_to_enum / sockfam_to_enum: the member with that value, else the number itself *)
Definition to_enum (members : list Z) (n : Z) : tagged :=
  if existsb (Z.eqb n) members then TEnum n else TInt n.
(* the family / type objects stored in NetConnections.tmap are yielded as they are *)
Definition tmap_obj (n : Z) : tagged := if gen_tmap_enums then TEnum n else TInt n.

Record row := { r_fd : Z; r_family : tagged; r_type : tagged; r_laddr : addr; r_raddr : addr;
                r_status : bytes; r_pid : option Z }.

(* the host's IPv6 support: does socket.inet_ntop(AF_INET6, packed) work (False: it raises ValueError,
   psutil issue 623), and what does supports_ipv6() answer *)
Record ipv6_oracle := { o_ntop6 : bool; o_supported : bool }.
Definition ipv6_ok : ipv6_oracle := {| o_ntop6 := true; o_supported := true |}.
(* decode_address either returns an address or raises _Ipv6UnsupportedError (caught by process_inet) *)
Inductive dres := DAddr (a : addr) | DUnsupported.

Definition hexv (c : Z) : option Z :=
  if (48 <=? c) && (c <=? 57) then Some (c - 48)
  else if (65 <=? c) && (c <=? 70) then Some (c - 55)
  else None.
(* base64.b16decode: upper-case hex pairs only *)
Fixpoint b16decode (l : bytes) : option bytes :=
  match l with
  | [] => Some []
  | h :: lo :: r =>
    match hexv h, hexv lo, b16decode r with
    | Some a, Some b, Some t => Some (16 * a + b :: t)
    | _, _, _ => None
    end
  | [_] => None
  end.

(* struct.unpack('<4I', ip) *)
Fixpoint words_le (l : bytes) : option (list Z) :=
  match l with
  | [] => Some []
  | a :: b :: c :: d :: r =>
    match words_le r with
    | Some ws => Some (a + 256 * b + 65536 * c + 16777216 * d :: ws)
    | None => None
    end
  | _ => None
  end.
Definition unpack_le4 (l : bytes) : option (list Z) :=
  match words_le l with
  | Some ([_; _; _; _] as ws) => Some ws
  | _ => None
  end.
(* struct.pack('>4I', ...) / struct.pack('<4I', ...) *)
Definition pack_be (w : Z) : bytes := [(w / 16777216) mod 256; (w / 65536) mod 256; (w / 256) mod 256; w mod 256].
Definition pack_le (w : Z) : bytes := [w mod 256; (w / 256) mod 256; (w / 65536) mod 256; (w / 16777216) mod 256].

(* [le] = _pslinux.LITTLE_ENDIAN *)
Definition decode_address (le : bool) (o : ipv6_oracle) (a : bytes) (family : Z) : outcome dres :=
  match split_on 58 a with
  | [ip; port] =>
    do p <- of_option ValueError (parse_hex port);
    if p =? 0 then Val (DAddr ANone)
    else
      do raw <- of_option ValueError (b16decode ip);
      if family =? AF_INET then
        let b := if le then rev raw else raw in
        if (length b =? 4)%nat then Val (DAddr (AInet b p)) else Exc ValueError     (* inet_ntop *)
      else
        match unpack_le4 raw with
        | Some ws =>
          (* try: inet_ntop(AF_INET6, ..) except ValueError: if not supports_ipv6(): raise _Ipv6UnsupportedError; raise *)
          if o_ntop6 o then Val (DAddr (AInet (flat_map (if le then pack_be else pack_le) ws) p))
          else if o_supported o then Exc ValueError else Val DUnsupported
        | None => OutOfModel                                               (* struct.error *)
        end
  | _ => Exc ValueError
  end.

(* ------------------------------------------------------------ process_inet *)
Fixpoint assoc {V} (k : bytes) (d : list (bytes * V)) : option V :=
  match d with
  | [] => None
  | (k', v) :: r => if beqb k k' then Some v else assoc k r
  end.

(* "filter_pid is not None and filter_pid != pid" *)
Definition filt_skip (filt : option Z) (pid : option Z) : bool :=
  match filt with
  | None => false
  | Some f => match pid with Some p => negb (f =? p) | None => true end
  end.

Definition inet_line (le : bool) (o : ipv6_oracle) (family type : Z) (lk : imap) (filt : option Z) (line : bytes)
  : outcome (option row) :=
  match firstn 10 (split_ws line) with
  | [_; laddr; raddr; status; _; _; _; _; _; inode] =>
    do own <- match lk inode with
              | Some ((p, f) :: _) => Val (Some p, f)
              | Some [] => Exc IndexError
              | None => Val (None, -1)
              end;
    if filt_skip filt (fst own) then Val None
    else
      do st <- (if type =? SOCK_STREAM then of_option KeyError (assoc status gen_tcp_statuses)
                else Val CONN_NONE);
      do la <- decode_address le o laddr family;
      match la with
      | DUnsupported => Val None                       (* except _Ipv6UnsupportedError: continue *)
      | DAddr la =>
        do ra <- decode_address le o raddr family;
        match ra with
        | DUnsupported => Val None
        | DAddr ra =>
          Val (Some {| r_fd := snd own; r_family := tmap_obj family; r_type := tmap_obj type; r_laddr := la; r_raddr := ra;
                       r_status := st; r_pid := fst own |})
        end
      end
  | _ => Exc RuntimeError
  end.

Fixpoint inet_lines (le : bool) (o : ipv6_oracle) (family type : Z) (lk : imap) (filt : option Z) (ls : list bytes)
  : outcome (list row) :=
  match ls with
  | [] => Val []
  | l :: r =>
    do x <- inet_line le o family type lk filt l;
    do xs <- inet_lines le o family type lk filt r;
    Val (match x with Some rw => rw :: xs | None => xs end)
  end.

(* content = None: the file does not exist *)
Definition process_inet (le : bool) (o : ipv6_oracle) (content : option bytes) (is6 : bool) (family type : Z)
           (lk : imap) (filt : option Z) : outcome (list row) :=
  match content with
  | None => if is6 then Val [] else OutOfModel
  | Some c =>
    let c' := univ_nl c in                                   (* open_text(file): universal newlines *)
    if str_safe c' then inet_lines le o family type lk filt (tl (lines_keep c')) else OutOfModel
  end.

(* ------------------------------------------------------------ process_unix *)
(* line.split(None, n)[n] when it exists: skip n tokens, then the white space after them *)
Fixpoint drop_tok (l : bytes) : bytes :=
  match l with
  | [] => []
  | c :: r => if is_ws c then l else drop_tok r
  end.
Fixpoint rest_after (n : nat) (l : bytes) : bytes :=
  match n with
  | O => lstrip l
  | S k => rest_after k (drop_tok (lstrip l))
  end.
(* .rstrip('\n') *)
Fixpoint lstrip_nl (l : bytes) : bytes :=
  match l with
  | c :: r => if c =? 10 then lstrip_nl r else l
  | [] => []
  end.
Definition rstrip_nl (l : bytes) : bytes := rev (lstrip_nl (rev l)).

(* rest.partition(' ')[2] *)
Fixpoint after_space (l : bytes) : bytes :=
  match l with
  | [] => []
  | c :: r => if c =? 32 then r else after_space r
  end.

Definition unix_line (v : variant) (family : Z) (lk : imap) (filt : option Z) (line : bytes) : outcome (list row) :=
  let tokens := split_ws line in
  match firstn 7 tokens with
  | [_; _; _; _; ty; _; inode] =>
    let pairs := match lk inode with
                 | Some l => map (fun pf => (Some (fst pf), snd pf)) l
                 | None => [(None, -1)]
                 end in
    let sel := filter (fun pf => negb (filt_skip filt (fst pf))) pairs in
    match sel with
    | [] => Val []
    | _ =>
      let path := if v_exact v then rstrip_nl (after_space (rest_after 6 line))
                  else if (8 <=? length tokens)%nat then rstrip_nl (rest_after 7 line) else [] in
      do t <- py_int ty;                               (* socktype_to_enum(int(type_)) *)
      Val (map (fun pf => {| r_fd := snd pf; r_family := tmap_obj family; r_type := to_enum gen_socket_kinds t;
                             r_laddr := APath path;
                             r_raddr := APath []; r_status := CONN_NONE; r_pid := fst pf |}) sel)
    end
  | _ => if contains 32 line then Exc RuntimeError else Val []
  end.

Fixpoint unix_lines (v : variant) (family : Z) (lk : imap) (filt : option Z) (ls : list bytes) : outcome (list row) :=
  match ls with
  | [] => Val []
  | l :: r =>
    do x <- unix_line v family lk filt l;
    do xs <- unix_lines v family lk filt r;
    Val (x ++ xs)
  end.

(* the part of a record that is tokenised: up to and including the blank that precedes the name *)
Definition unix_head (line : bytes) : bytes :=
  firstn (length line - length (after_space (rest_after 6 line))) line.
Definition line_guard (v : variant) (line : bytes) : bool :=
  str_safe (if v_exact v then unix_head line else line).

Definition process_unix (v : variant) (content : option bytes) (family : Z) (lk : imap) (filt : option Z)
  : outcome (list row) :=
  match content with
  | None => OutOfModel
  | Some c =>
    let ls := tl (lines_keep (if v_lf v then c else univ_nl c)) in     (* open_text(file, newline="\n") *)
    if forallb (line_guard v) ls then unix_lines v family lk filt ls else OutOfModel
  end.

(* ------------------------------------------------------------ retrieve *)
Definition proto := (bytes * Z * option Z)%type.

Definition proto_rows (v : variant) (le : bool) (o : ipv6_oracle) (files : bytes -> option bytes) (lk : imap) (filt : option Z) (p : proto)
  : outcome (list row) :=
  let '(name, family, ty) := p in
  if (family =? AF_INET) || (family =? AF_INET6) then
    match ty with
    | Some t => process_inet le o (files name) (suffixb [54] name) family t lk filt
    | None => OutOfModel
    end
  else process_unix v (files name) family lk filt.

Fixpoint protos_rows (v : variant) (le : bool) (o : ipv6_oracle) (files : bytes -> option bytes) (lk : imap) (filt : option Z)
         (ps : list proto) : outcome (list row) :=
  match ps with
  | [] => Val []
  | p :: r =>
    do a <- proto_rows v le o files lk filt p;
    do b <- protos_rows v le o files lk filt r;
    Val (a ++ b)
  end.

(* the files handed to open_text(): an absent "...6" file is only probed with os.path.exists; after a
   failure nothing more is opened *)
Definition proto_log (files : bytes -> option bytes) (p : proto) : list bytes :=
  let '(name, family, ty) := p in
  if (family =? AF_INET) || (family =? AF_INET6) then
    match ty with
    | Some _ => match files name with
                | None => if suffixb [54] name then [] else [name]
                | Some _ => [name]
                end
    | None => []
    end
  else [name].
Fixpoint protos_log (v : variant) (le : bool) (o : ipv6_oracle) (files : bytes -> option bytes) (lk : imap)
         (filt : option Z) (ps : list proto) : list bytes :=
  match ps with
  | [] => []
  | p :: r =>
    proto_log files p ++ match proto_rows v le o files lk filt p with
                         | Val _ => protos_log v le o files lk filt r
                         | _ => []
                         end
  end.

Definition retrieve (v : variant) (le : bool) (o : ipv6_oracle) (files : bytes -> option bytes) (kind : bytes) (lk : imap) (filt : option Z)
  : outcome (list row) :=
  do ps <- of_option KeyError (assoc kind gen_tmap);
  protos_rows v le o files lk filt ps.
Definition retrieve_log (v : variant) (le : bool) (o : ipv6_oracle) (files : bytes -> option bytes) (kind : bytes)
           (lk : imap) (filt : option Z) : list bytes :=
  match assoc kind gen_tmap with
  | Some ps => protos_log v le o files lk filt ps
  | None => []
  end.

(* ------------------------------------------------------------ ret = set(); ret.add(conn); list(ret) *)
Definition addr_eq_dec : forall a b : addr, {a = b} + {a <> b}.
Proof. decide equality; try apply Z.eq_dec; apply (list_eq_dec Z.eq_dec). Defined.
Definition tagged_eq_dec : forall a b : tagged, {a = b} + {a <> b}.
Proof. decide equality; apply Z.eq_dec. Defined.
Definition row_eq_dec : forall a b : row, {a = b} + {a <> b}.
Proof.
  decide equality; try apply tagged_eq_dec; try apply Z.eq_dec; try apply addr_eq_dec; try apply (list_eq_dec Z.eq_dec).
  decide equality; apply Z.eq_dec.
Defined.
Definition as_set (l : list row) : list row := nodup row_eq_dec l.

(* ------------------------------------------------------------ public entry points *)
Definition check_kind (kind : bytes) : outcome unit :=
  if existsb (beqb kind) (map fst gen_conn_tmap) then Val tt else Exc ValueError.

(* psutil.net_connections(kind): the sequence of ret.add() calls, the returned rows, the files opened *)
Definition net_connections_adds (v : variant) (le : bool) (o : ipv6_oracle) (files : bytes -> option bytes)
           (procs : list (Z * listing)) (kind : bytes) : outcome (list row) :=
  do _ <- check_kind kind;
  do ds <- get_all_inodes procs;
  retrieve v le o files kind (lookup_v v ds) None.
Definition net_connections (v : variant) (le : bool) (o : ipv6_oracle) (files : bytes -> option bytes)
           (procs : list (Z * listing)) (kind : bytes) : outcome (list row) :=
  omap as_set (net_connections_adds v le o files procs kind).
Definition net_log (v : variant) (le : bool) (o : ipv6_oracle) (files : bytes -> option bytes)
           (procs : list (Z * listing)) (kind : bytes) : list bytes :=
  match check_kind kind with
  | Val _ => match get_all_inodes procs with
             | Val ds => retrieve_log v le o files kind (lookup_v v ds) None
             | _ => []
             end
  | _ => []
  end.

(* psutil.Process(pid).net_connections(kind) for a live process; rows are pconn (no pid field) *)
Definition proc_net_connections_adds (v : variant) (le : bool) (o : ipv6_oracle) (files : bytes -> option bytes)
           (pid : Z) (ls : listing) (kind : bytes) : outcome (list row) :=
  do _ <- check_kind kind;
  match ls with
  | LsDenied => Exc AccessDenied
  | LsGone => OutOfModel
  | LsOk ents =>
    do d <- get_proc_inodes pid ents;
    match d with
    | [] => Val []                                    (* "no connections for this process": nothing is read *)
    | _ => retrieve v le o files kind (lookup1 d) (Some pid)
    end
  end.
Definition proc_net_connections (v : variant) (le : bool) (o : ipv6_oracle) (files : bytes -> option bytes)
           (pid : Z) (ls : listing) (kind : bytes) : outcome (list row) :=
  omap as_set (proc_net_connections_adds v le o files pid ls kind).
Definition proc_log (v : variant) (le : bool) (o : ipv6_oracle) (files : bytes -> option bytes)
           (pid : Z) (ls : listing) (kind : bytes) : list bytes :=
  match check_kind kind with
  | Val _ => match ls with
             | LsOk ents => match get_proc_inodes pid ents with
                            | Val ((_ :: _) as d) => retrieve_log v le o files kind (lookup1 d) (Some pid)
                            | _ => []
                            end
             | _ => []
             end
  | _ => []
  end.

(* ------------------------------------------------------------ after os.fork() *)
(* The NetConnections singleton and every module-level object are copied into a forked child.  A synchronisation object
   that another thread of the parent held at the moment of the fork stays held in the child for ever (that thread does
   not exist there) unless an os.register_at_fork(after_in_child=...) handler re-creates it.  [gen_fork_sync] (dumped
   from the code) lists those objects; a call in the child that needs a stale one never returns. *)
Inductive child_answer (A : Type) := Answers (o : outcome A) | Hangs.
Arguments Answers {A} o.
Arguments Hangs {A}.
Definition fork_stale_lock : bool := existsb (fun e => negb (snd e)) gen_fork_sync.
(* [held]: some other thread was inside net_connections() when the parent forked *)
Definition in_forked_child {A} (held : bool) (o : outcome A) : child_answer A :=
  if held && fork_stale_lock then Hangs else Answers o.
