(* C11 -- decode_address inverts the kernel's address printing, for every address and port. *)
From PV Require Import C11.Spec C11.Lib.
Require Import ZifyBool.
Ltac Zify.zify_post_hook ::= Z.div_mod_to_equations.

Lemma wf_quad_range a b c d :
  wf_quad (a, b, c, d) = true -> 0 <= a < 256 /\ 0 <= b < 256 /\ 0 <= c < 256 /\ 0 <= d < 256.
Proof. unfold wf_quad, wf_byte. lia. Qed.

Lemma be_bytes_host le q :
  wf_quad q = true ->
  be_bytes 4 (host_word le q) = if le then rev (quad_bytes q) else quad_bytes q.
Proof.
  destruct q as [[[a b] c] d]. intros H. apply wf_quad_range in H as (Ha & Hb & Hc & Hd).
  rewrite be_bytes4. unfold host_word, quad_bytes. destruct le.
  - destruct (word_bytes a b c d Ha Hb Hc Hd) as (E1 & E2 & E3 & E4).
    cbv zeta in E1, E2, E3, E4. rewrite E1, E2, E3, E4. reflexivity.
  - destruct (word_bytes d c b a Hd Hc Hb Ha) as (E1 & E2 & E3 & E4).
    cbv zeta in E1, E2, E3, E4. rewrite E1, E2, E3, E4. reflexivity.
Qed.

Lemma pack_be_word a b c d :
  0 <= a < 256 -> 0 <= b < 256 -> 0 <= c < 256 -> 0 <= d < 256 ->
  pack_be (d + 256 * c + 65536 * b + 16777216 * a) = [a; b; c; d].
Proof.
  intros Ha Hb Hc Hd. destruct (word_bytes d c b a Hd Hc Hb Ha) as (E1 & E2 & E3 & E4).
  cbv zeta in E1, E2, E3, E4. unfold pack_be. rewrite E1, E2, E3, E4. reflexivity.
Qed.
Lemma pack_le_word a b c d :
  0 <= a < 256 -> 0 <= b < 256 -> 0 <= c < 256 -> 0 <= d < 256 ->
  pack_le (a + 256 * b + 65536 * c + 16777216 * d) = [a; b; c; d].
Proof.
  intros Ha Hb Hc Hd. destruct (word_bytes a b c d Ha Hb Hc Hd) as (E1 & E2 & E3 & E4).
  cbv zeta in E1, E2, E3, E4. unfold pack_le. rewrite E1, E2, E3, E4. reflexivity.
Qed.

Lemma k_ip_hex le ip : forallb is_hexd (k_ip le ip) = true.
Proof. destruct ip; cbn [k_ip]; rewrite ?forallb_app, !hexw_hex; reflexivity. Qed.

Lemma b16decode_word le q :
  wf_quad q = true ->
  b16decode (hexw 8 (host_word le q)) = Some (if le then rev (quad_bytes q) else quad_bytes q).
Proof.
  intros H. change 8%nat with (2 * 4)%nat. rewrite b16decode_hexw. now rewrite be_bytes_host.
Qed.

Lemma b16decode_k_ip6 le a b c d :
  wf_quad a = true -> wf_quad b = true -> wf_quad c = true -> wf_quad d = true ->
  b16decode (k_ip le (IP6 a b c d)) =
  Some ((if le then rev (quad_bytes a) else quad_bytes a) ++ (if le then rev (quad_bytes b) else quad_bytes b)
        ++ (if le then rev (quad_bytes c) else quad_bytes c) ++ (if le then rev (quad_bytes d) else quad_bytes d)).
Proof.
  intros Ha Hb Hc Hd. cbn [k_ip].
  rewrite (b16decode_app _ _ _ (b16decode_word le a Ha)).
  rewrite (b16decode_app _ _ _ (b16decode_word le b Hb)).
  rewrite (b16decode_app _ _ _ (b16decode_word le c Hc)).
  rewrite (b16decode_word le d Hd). reflexivity.
Qed.

Theorem addr_roundtrip le o ip port :
  wf_ip ip = true -> wf_port port = true ->
  decode_address le o (k_addr le ip port) (if is_v6 ip then AF_INET6 else AF_INET) = addr_res o ip port.
Proof.
  intros Hip Hport. unfold decode_address, k_addr.
  assert (Hc : contains 58 (k_ip le ip) = false) by (apply hexs_contains; [reflexivity|apply k_ip_hex]).
  rewrite split_on_app by exact Hc.
  rewrite split_on_nosep by (apply hexs_contains; [reflexivity|apply hexw_hex]).
  rewrite parse_hex_hexw by discriminate.
  assert (Hp : port mod 16 ^ Z.of_nat 4 = port).
  { change (16 ^ Z.of_nat 4) with 65536. unfold wf_port in Hport. apply Z.mod_small. lia. }
  rewrite Hp. cbn [of_option obind]. unfold addr_res.
  destruct (port =? 0); [reflexivity|].
  destruct ip as [q|a b c d].
  - cbn [is_v6 k_ip wf_ip] in *. rewrite (b16decode_word le q Hip). cbn [of_option obind].
    change (AF_INET =? AF_INET) with true. cbv iota.
    destruct q as [[[x y] z] t]. cbn [quad_bytes ip_bytes]. destruct le; reflexivity.
  - cbn [is_v6 wf_ip] in *.
    apply andb_true_iff in Hip as [Hip Hd]. apply andb_true_iff in Hip as [Hip Hcc].
    apply andb_true_iff in Hip as [Ha Hb].
    rewrite (b16decode_k_ip6 le a b c d Ha Hb Hcc Hd). cbn [of_option obind].
    change (AF_INET6 =? AF_INET) with false. cbv iota.
    destruct a as [[[a0 a1] a2] a3], b as [[[b0 b1] b2] b3], c as [[[c0 c1] c2] c3], d as [[[d0 d1] d2] d3].
    apply wf_quad_range in Ha as (? & ? & ? & ?). apply wf_quad_range in Hb as (? & ? & ? & ?).
    apply wf_quad_range in Hcc as (? & ? & ? & ?). apply wf_quad_range in Hd as (? & ? & ? & ?).
    cbn [quad_bytes ip_bytes rev app]. destruct le.
    + cbn [unpack_le4 words_le flat_map app andb].
      destruct (o_ntop6 o); [|reflexivity]. cbn [negb].
      rewrite !pack_be_word by assumption. reflexivity.
    + cbn [unpack_le4 words_le flat_map app andb].
      destruct (o_ntop6 o); [|reflexivity]. cbn [negb].
      rewrite !pack_le_word by assumption. reflexivity.
Qed.

(* when IPv6 can be formatted (or the address is IPv4) the answer is the demanded address *)
Corollary addr_roundtrip_ok le o ip port :
  wf_ip ip = true -> wf_port port = true -> o_ntop6 o = true \/ is_v6 ip = false ->
  decode_address le o (k_addr le ip port) (if is_v6 ip then AF_INET6 else AF_INET) = Val (DAddr (spec_addr ip port)).
Proof.
  intros Hip Hport Ho. rewrite addr_roundtrip by assumption. unfold addr_res, spec_addr.
  destruct (port =? 0); [reflexivity|].
  destruct Ho as [Ho|Ho]; rewrite Ho; [now rewrite andb_false_r|reflexivity].
Qed.

(* port 0: the empty tuple, whatever the address *)
Corollary addr_port0 le o ip :
  wf_ip ip = true ->
  decode_address le o (k_addr le ip 0) (if is_v6 ip then AF_INET6 else AF_INET) = Val (DAddr ANone).
Proof. intros H. now rewrite addr_roundtrip. Qed.

(* tokens *)
Lemma k_addr_tok le ip port : tok_ok (k_addr le ip port) = true.
Proof.
  apply tok_ok_spec. split.
  - unfold k_addr. destruct (k_ip le ip); discriminate.
  - unfold k_addr. rewrite no_ws_app. rewrite (hexs_no_ws _ (k_ip_hex le ip)).
    cbn [no_ws forallb]. change (is_ws 58) with false. cbn [negb andb].
    apply (hexs_no_ws _ (hexw_hex 4 port)).
Qed.
