(* C11 -- theorems about the tables dumped from the code (Gen/C11_Tables.v): re-checked by coqc against
   what the code says now.  All are finite checks lifted with forallb_forall. *)
From PV Require Import C11.Spec.

Definition opt_eqb (a b : option Z) : bool :=
  match a, b with Some x, Some y => x =? y | None, None => true | _, _ => false end.
Definition proto_eqb (a b : proto) : bool :=
  beqb (fst (fst a)) (fst (fst b)) && (snd (fst a) =? snd (fst b)) && opt_eqb (snd a) (snd b).
Fixpoint list_eqb {A} (e : A -> A -> bool) (a b : list A) : bool :=
  match a, b with
  | [], [] => true
  | x :: a', y :: b' => e x y && list_eqb e a' b'
  | _, _ => false
  end.

Lemma opt_eqb_eq a b : opt_eqb a b = true -> a = b.
Proof. destruct a, b; simpl; try congruence. intros H. apply Z.eqb_eq in H. congruence. Qed.
Lemma proto_eqb_eq a b : proto_eqb a b = true -> a = b.
Proof.
  destruct a as [[n1 f1] t1], b as [[n2 f2] t2]. unfold proto_eqb. cbn [fst snd]. intros H.
  apply andb_true_iff in H as [H H3]. apply andb_true_iff in H as [H1 H2].
  apply beqb_eq in H1. apply Z.eqb_eq in H2. apply opt_eqb_eq in H3. congruence.
Qed.
Lemma list_eqb_eq {A} (e : A -> A -> bool) :
  (forall x y, e x y = true -> x = y) -> forall a b, list_eqb e a b = true -> a = b.
Proof.
  intros He. induction a as [|x a IH]; intros [|y b]; simpl; try congruence.
  intros H. apply andb_true_iff in H as [H1 H2]. apply He in H1. apply IH in H2. congruence.
Qed.

Definition tmap_row_ok (k : bytes) : bool :=
  match assoc k gen_tmap with
  | Some ps => list_eqb proto_eqb ps (filter (proto_admitted k) all5)
  | None => false
  end.

Lemma kind_table_tmap k :
  In k kinds -> assoc k gen_tmap = Some (filter (proto_admitted k) all5).
Proof.
  assert (H : forallb tmap_row_ok kinds = true) by (vm_compute; reflexivity).
  intros Hk. rewrite forallb_forall in H. specialize (H k Hk). unfold tmap_row_ok in H.
  destruct (assoc k gen_tmap) as [ps|]; [|discriminate].
  f_equal. apply (list_eqb_eq proto_eqb proto_eqb_eq). exact H.
Qed.

(* the same sets of keys: a list of byte strings as a set *)
Definition subset (a b : list bytes) : bool := forallb (fun x => existsb (beqb x) b) a.
Lemma existsb_beqb_In k l : existsb (beqb k) l = true <-> In k l.
Proof.
  rewrite existsb_exists. split.
  - intros [x [Hx He]]. apply beqb_eq in He. now subst.
  - intros H. exists k. split; [exact H|apply beqb_refl].
Qed.
Lemma subset_In a b : subset a b = true -> forall k, In k a -> In k b.
Proof.
  unfold subset. rewrite forallb_forall. intros H k Hk. apply existsb_beqb_In. apply H. exact Hk.
Qed.

Lemma conn_tmap_keys k : In k (map fst gen_conn_tmap) <-> In k kinds.
Proof.
  split; apply subset_In; vm_compute; reflexivity.
Qed.
Lemma tmap_keys k : In k (map fst gen_tmap) <-> In k kinds.
Proof.
  split; apply subset_In; vm_compute; reflexivity.
Qed.

(* conn_tmap (the documented (families, types) table) agrees with the kind table on TCP/UDP types *)
Lemma zmem_In x l : In x l -> zmem x l = true.
Proof. intros H. apply existsb_exists. exists x. split; [exact H|apply Z.eqb_refl]. Qed.

Lemma conn_tmap_agrees k fam ty :
  In k kinds -> In fam [1; 2; 10] -> In ty [1; 2] ->
  conn_admits k fam ty = spec_admits k fam ty.
Proof.
  assert (H : forallb (fun k => forallb (fun fam => forallb (fun ty =>
              Bool.eqb (conn_admits k fam ty) (spec_admits k fam ty)) [1; 2]) [1; 2; 10]) kinds = true)
    by (vm_compute; reflexivity).
  intros Hk Hf Ht. rewrite forallb_forall in H. specialize (H k Hk).
  rewrite forallb_forall in H. specialize (H fam Hf).
  rewrite forallb_forall in H. specialize (H ty Ht).
  now apply eqb_prop in H.
Qed.

(* the kind "unix" (and "all") covers every UNIX socket type; the others none *)
Lemma unix_any_type k t : In k kinds -> spec_admits k 1 t = spec_admits k 1 1.
Proof.
  intros Hk. unfold spec_admits. change (1 =? 2) with false. change (1 =? 10) with false. cbn [orb andb].
  repeat (destruct (beqb k _); [reflexivity|]). reflexivity.
Qed.

Lemma gen_constants :
  AF_UNIX = 1 /\ AF_INET = 2 /\ AF_INET6 = 10 /\ SOCK_STREAM = 1 /\ SOCK_DGRAM = 2 /\ CONN_NONE = spec_none.
Proof. repeat split; reflexivity. Qed.

(* TCP_STATUSES maps the kernel's "%02X" state to the name of include/net/tcp_states.h *)
Lemma tcp_status_table st :
  1 <= st <= 11 -> assoc (hexw 2 st) gen_tcp_statuses = spec_tcp_state st.
Proof.
  intros H.
  assert (Hs : In st [1; 2; 3; 4; 5; 6; 7; 8; 9; 10; 11]) by (cbn [In]; lia).
  assert (Hall : forallb (fun s => match assoc (hexw 2 s) gen_tcp_statuses, spec_tcp_state s with
                                   | Some a, Some b => beqb a b | _, _ => false end)
                         [1; 2; 3; 4; 5; 6; 7; 8; 9; 10; 11] = true) by (vm_compute; reflexivity).
  rewrite forallb_forall in Hall. specialize (Hall st Hs).
  destruct (assoc (hexw 2 st) gen_tcp_statuses) as [a|]; [|discriminate].
  destruct (spec_tcp_state st) as [b|]; [|discriminate].
  apply beqb_eq in Hall. congruence.
Qed.

(* a kind outside the eleven is refused before anything is read: whatever the files and tables hold *)
Lemma check_kind_bad k : ~ In k kinds -> check_kind k = Exc ValueError.
Proof.
  intros H. unfold check_kind.
  destruct (existsb (beqb k) (map fst gen_conn_tmap)) eqn:E; [|reflexivity].
  apply existsb_beqb_In in E. apply conn_tmap_keys in E. contradiction.
Qed.
Lemma check_kind_good k : In k kinds -> check_kind k = Val tt.
Proof.
  intros H. unfold check_kind. apply conn_tmap_keys in H. apply existsb_beqb_In in H. now rewrite H.
Qed.

Lemma unknown_kind_sys v le o files procs k :
  ~ In k kinds -> net_connections_adds v le o files procs k = Exc ValueError
                  /\ net_connections v le o files procs k = Exc ValueError
                  /\ net_log v le o files procs k = [].
Proof.
  intros H. unfold net_connections, net_connections_adds, net_log. now rewrite (check_kind_bad k H).
Qed.
Lemma unknown_kind_proc v le o files pid ls k :
  ~ In k kinds -> proc_net_connections_adds v le o files pid ls k = Exc ValueError
                  /\ proc_net_connections v le o files pid ls k = Exc ValueError
                  /\ proc_log v le o files pid ls k = [].
Proof.
  intros H. unfold proc_net_connections, proc_net_connections_adds, proc_log. now rewrite (check_kind_bad k H).
Qed.

(* every synchronisation object net_connections() uses is re-created in a forked child (the table is empty on a
   tree that keeps no lock) ... *)
Lemma fork_sync_reinitialised : forallb (fun e => snd e) gen_fork_sync = true.
Proof. reflexivity. Qed.
(* ... so a forked child gets the answer of the model whatever the other threads of the parent were doing *)
Lemma fork_child_answers {A} (held : bool) (o : outcome A) : in_forked_child held o = Answers o.
Proof.
  unfold in_forked_child, fork_stale_lock.
  assert (E : existsb (fun e : bytes * bool => negb (snd e)) gen_fork_sync = false).
  { pose proof fork_sync_reinitialised as H. induction gen_fork_sync as [|e l IH]; [reflexivity|].
    cbn [forallb existsb] in *. apply andb_true_iff in H as [H1 H2]. rewrite H1, IH by exact H2. reflexivity. }
  rewrite E, andb_false_r. reflexivity.
Qed.
