(* C11 -- parsing the printed files: for any inode lookup [lk] and filter, process_inet / process_unix
   on the kernel's text give the reference rows (one per line, decoded), for every list of sockets. *)
From PV Require Import C11.Spec C11.Lib C11.ProofsAddr C11.ProofsTables.

Definition lk_ok (lk : imap) : Prop := forall ino, lk ino <> Some [].

Definition owner_of (lk : imap) (ino : bytes) : option Z * Z :=
  match lk ino with Some ((p, f) :: _) => (Some p, f) | _ => (None, -1) end.

Definition status_of (ty : Z) (s : isock) : bytes :=
  if ty =? 1 then match spec_tcp_state (s_st s) with Some n => n | None => [] end else spec_none.

Definition ref_inet_row (lk : imap) (filt : option Z) (fam ty : Z) (s : isock) : option row :=
  let own := owner_of lk (s_inode s) in
  if filt_skip filt (fst own) then None
  else Some {| r_fd := snd own; r_family := tmap_obj fam; r_type := tmap_obj ty;
               r_laddr := spec_addr (s_lip s) (s_lport s); r_raddr := spec_addr (s_rip s) (s_rport s);
               r_status := status_of ty s; r_pid := fst own |}.
Definition olist {A} (o : option A) : list A := match o with Some a => [a] | None => [] end.

(* ------------------------------------------------------------ inet line *)
Lemma wf_isock_parts v6 s :
  wf_isock v6 s = true ->
  tok_ok (s_sl s) = true /\ wf_ip (s_lip s) = true /\ wf_ip (s_rip s) = true
  /\ is_v6 (s_lip s) = v6 /\ is_v6 (s_rip s) = v6
  /\ wf_port (s_lport s) = true /\ wf_port (s_rport s) = true
  /\ 0 <= s_st s < 256
  /\ length (s_mid s) = 5%nat /\ forallb tok_ok (s_mid s) = true
  /\ is_dec (s_inode s) = true /\ wf_tail (s_tail s) = true.
Proof.
  unfold wf_isock. intros H.
  repeat (apply andb_true_iff in H as [H ?]).
  repeat split; try assumption; try (now apply eqb_prop); try lia; try (now apply Nat.eqb_eq).
Qed.

Lemma split_ws_inode_tail ino tail :
  is_dec ino = true -> wf_tail tail = true ->
  exists X, split_ws (ino ++ tail ++ [10]) = ino :: X.
Proof.
  intros Hi Ht. apply is_dec_tok in Hi as [Hne Hnw]. unfold wf_tail in Ht.
  apply andb_true_iff in Ht as [_ Ht]. destruct tail as [|c t].
  - exists (split_ws []). cbn [app]. now rewrite split_ws_token_sep.
  - exists (split_ws (t ++ [10])). cbn [app]. now rewrite split_ws_token_sep.
Qed.

Lemma tcp_state_some st : 1 <= st <= 11 -> exists n, spec_tcp_state st = Some n.
Proof.
  intros H. assert (Hs : In st [1; 2; 3; 4; 5; 6; 7; 8; 9; 10; 11]) by (cbn [In]; lia).
  cbn [In] in Hs.
  repeat (destruct Hs as [<-|Hs]; [eexists; reflexivity|]). contradiction.
Qed.

(* an IPv6 line whose address would have to be formatted is dropped when inet_ntop lacks IPv6 *)
Definition hidden6 (o : ipv6_oracle) (v6 : bool) (s : isock) : bool :=
  v6 && negb (o_ntop6 o) && negb (ports_zero s).
(* no ValueError from the IPv6 branch: inet_ntop works, or the table is IPv4, or supports_ipv6() is False *)
Definition no_v6_error (o : ipv6_oracle) (v6 : bool) : Prop :=
  o_ntop6 o = true \/ v6 = false \/ o_supported o = false.

Lemma decode_two le o s (K : addr -> addr -> row) :
  wf_ip (s_lip s) = true -> wf_ip (s_rip s) = true -> is_v6 (s_rip s) = is_v6 (s_lip s) ->
  wf_port (s_lport s) = true -> wf_port (s_rport s) = true ->
  no_v6_error o (is_v6 (s_lip s)) ->
  (do la <- decode_address le o (k_addr le (s_lip s) (s_lport s)) (if is_v6 (s_lip s) then AF_INET6 else AF_INET);
   match la with
   | DUnsupported => Val None
   | DAddr la =>
     do ra <- decode_address le o (k_addr le (s_rip s) (s_rport s)) (if is_v6 (s_lip s) then AF_INET6 else AF_INET);
     match ra with
     | DUnsupported => Val None
     | DAddr ra => Val (Some (K la ra))
     end
   end)
  = Val (if hidden6 o (is_v6 (s_lip s)) s then None
         else Some (K (spec_addr (s_lip s) (s_lport s)) (spec_addr (s_rip s) (s_rport s)))).
Proof.
  intros Hlip Hrip Hr6 Hlp Hrp Ho.
  rewrite addr_roundtrip by assumption.
  rewrite <- Hr6. rewrite addr_roundtrip by assumption.
  unfold addr_res, hidden6, ports_zero, spec_addr, no_v6_error in *. rewrite ?Hr6 in *.
  destruct (s_lport s =? 0), (s_rport s =? 0), (is_v6 (s_lip s)), (o_ntop6 o), (o_supported o);
    cbn [andb negb obind]; try reflexivity;
    destruct Ho as [Ho|[Ho|Ho]]; discriminate.
Qed.

Lemma inet_line_ok le o v6 ty lk filt s :
  lk_ok lk -> wf_isock v6 s = true ->
  (ty = 1 /\ tcp_state_ok s = true) \/ ty = 2 ->
  no_v6_error o v6 ->
  inet_line le o (if v6 then AF_INET6 else AF_INET) ty lk filt (k_iline le s)
  = Val (if hidden6 o v6 s then None else ref_inet_row lk filt (if v6 then AF_INET6 else AF_INET) ty s).
Proof.
  intros Hlk Hwf Hty Ho.
  apply wf_isock_parts in Hwf as (Hsl & Hlip & Hrip & Hl6 & Hr6 & Hlp & Hrp & Hst & Hmid & Hmidok & Hino & Htail).
  subst v6.
  unfold inet_line, k_iline. rewrite split_ws_repeat.
  rewrite split_ws_k_seq.
  2:{ rewrite forallb_app. cbn [forallb]. rewrite Hsl, !k_addr_tok, hexw_tok by discriminate. exact Hmidok. }
  destruct (split_ws_inode_tail _ _ Hino Htail) as [X ->].
  destruct (s_mid s) as [|m0 [|m1 [|m2 [|m3 [|m4 [|m5 mid']]]]]]; try discriminate.
  cbn [app firstn].
  assert (Hs : (if ty =? SOCK_STREAM then of_option KeyError (assoc (hexw 2 (s_st s)) gen_tcp_statuses)
                else Val CONN_NONE) = Val (status_of ty s)).
  { unfold status_of. destruct Hty as [[-> Hok]| ->].
    - change (1 =? SOCK_STREAM) with true. change (1 =? 1) with true. cbv iota.
      unfold tcp_state_ok in Hok. rewrite tcp_status_table by lia.
      destruct (tcp_state_some (s_st s)) as [n ->]; [lia|reflexivity].
    - reflexivity. }
  unfold ref_inet_row, owner_of.
  destruct (lk (s_inode s)) as [[|[p f] l]|] eqn:E.
  - exfalso. exact (Hlk _ E).
  - cbn [obind fst snd]. destruct (filt_skip filt (Some p)).
    + now destruct (hidden6 o (is_v6 (s_lip s)) s).
    + rewrite Hs. cbn [obind].
      exact (decode_two le o s (fun la ra => {| r_fd := f; r_family := tmap_obj (if is_v6 (s_lip s) then AF_INET6 else AF_INET);
                                               r_type := tmap_obj ty; r_laddr := la; r_raddr := ra;
                                               r_status := status_of ty s; r_pid := Some p |})
                        Hlip Hrip Hr6 Hlp Hrp Ho).
  - cbn [obind fst snd]. destruct (filt_skip filt None).
    + now destruct (hidden6 o (is_v6 (s_lip s)) s).
    + rewrite Hs. cbn [obind].
      exact (decode_two le o s (fun la ra => {| r_fd := -1; r_family := tmap_obj (if is_v6 (s_lip s) then AF_INET6 else AF_INET);
                                               r_type := tmap_obj ty; r_laddr := la; r_raddr := ra;
                                               r_status := status_of ty s; r_pid := None |})
                        Hlip Hrip Hr6 Hlp Hrp Ho).
Qed.

Definition shown (o : ipv6_oracle) (v6 : bool) (socks : list isock) : list isock :=
  filter (fun s => negb (hidden6 o v6 s)) socks.

Lemma inet_lines_ok le o v6 ty lk filt socks :
  lk_ok lk -> forallb (wf_isock v6) socks = true ->
  (ty = 1 /\ forallb tcp_state_ok socks = true) \/ ty = 2 ->
  no_v6_error o v6 ->
  inet_lines le o (if v6 then AF_INET6 else AF_INET) ty lk filt (map (k_iline le) socks)
  = Val (flat_map (fun s => olist (ref_inet_row lk filt (if v6 then AF_INET6 else AF_INET) ty s)) (shown o v6 socks)).
Proof.
  intros Hlk. induction socks as [|s r IH]; intros Hwf Hty Ho; [reflexivity|].
  cbn [forallb] in Hwf. apply andb_true_iff in Hwf as [Hs Hr].
  cbn [map inet_lines].
  rewrite (inet_line_ok le o v6 ty lk filt s Hlk Hs); [| |exact Ho].
  2:{ destruct Hty as [[-> H]| ->]; [left|right; reflexivity].
      cbn [forallb] in H. apply andb_true_iff in H as [H1 _]. auto. }
  cbn [obind]. rewrite IH; [|exact Hr| |exact Ho].
  2:{ destruct Hty as [[-> H]| ->]; [left|right; reflexivity].
      cbn [forallb] in H. apply andb_true_iff in H as [_ H2]. auto. }
  cbn [obind]. unfold shown. cbn [filter].
  destruct (hidden6 o v6 s); cbn [negb flat_map]; [reflexivity|].
  destruct (ref_inet_row _ _ _ _ s); reflexivity.
Qed.

(* ------------------------------------------------------------ files as lines *)
Lemma lines_keep_lines {A} (f body : A -> bytes) (xs : list A) :
  (forall x, In x xs -> f x = body x ++ [10] /\ contains 10 (body x) = false) ->
  lines_keep (concat (map f xs)) = map f xs.
Proof.
  induction xs as [|x r IH]; intros H; [reflexivity|].
  destruct (H x (or_introl eq_refl)) as [E C].
  cbn [map concat]. rewrite E, <- app_assoc. cbn [app].
  rewrite lines_keep_line by exact C. rewrite IH; [reflexivity|].
  intros y Hy. apply H. now right.
Qed.

Definition iline_body (le : bool) (s : isock) : bytes :=
  repeat 32 (s_lead s)
  ++ k_seq (s_pad s) 0
       ([s_sl s; k_addr le (s_lip s) (s_lport s); k_addr le (s_rip s) (s_rport s); hexw 2 (s_st s)] ++ s_mid s)
       (s_inode s ++ s_tail s).

Lemma iline_is_line le v6 s :
  wf_isock v6 s = true ->
  k_iline le s = iline_body le s ++ [10] /\ contains 10 (iline_body le s) = false.
Proof.
  intros Hwf.
  apply wf_isock_parts in Hwf as (Hsl & Hlip & Hrip & Hl6 & Hr6 & Hlp & Hrp & Hst & Hmid & Hmidok & Hino & Htail).
  split.
  - unfold k_iline, iline_body. rewrite <- app_assoc. f_equal.
    rewrite <- k_seq_app_last. now rewrite <- app_assoc.
  - unfold iline_body. rewrite contains_app, contains_repeat by discriminate.
    rewrite contains_k_seq; [|discriminate|reflexivity|].
    + rewrite contains_app. apply is_dec_tok in Hino as [_ Hn].
      rewrite (no_ws_contains 10 _ eq_refl Hn). unfold wf_tail in Htail.
      apply andb_true_iff in Htail as [Ht _]. now apply negb_true_iff in Ht.
    + rewrite forallb_app. cbn [forallb]. rewrite Hsl, !k_addr_tok, hexw_tok by discriminate. exact Hmidok.
Qed.

Lemma process_inet_ok le o v6 ty lk filt hdr socks is6 :
  lk_ok lk -> contains 10 hdr = false -> forallb (wf_isock v6) socks = true ->
  (ty = 1 /\ forallb tcp_state_ok socks = true) \/ ty = 2 ->
  no_v6_error o v6 ->
  text_safe (k_ifile le hdr socks) = true ->
  process_inet le o (Some (k_ifile le hdr socks)) is6 (if v6 then AF_INET6 else AF_INET) ty lk filt
  = Val (flat_map (fun s => olist (ref_inet_row lk filt (if v6 then AF_INET6 else AF_INET) ty s)) (shown o v6 socks)).
Proof.
  intros Hlk Hh Hwf Hty Ho Hsafe. unfold process_inet. cbv zeta.
  apply text_safe_parts in Hsafe as [Hcr Hss]. rewrite (univ_nl_id _ Hcr), Hss.
  unfold k_ifile. rewrite lines_keep_line by exact Hh.
  rewrite (lines_keep_lines (k_iline le) (iline_body le)).
  - cbn [tl]. now apply inet_lines_ok.
  - intros s Hs. rewrite forallb_forall in Hwf. apply (iline_is_line le v6). now apply Hwf.
Qed.

(* ------------------------------------------------------------ unix line *)
Definition unix_pairs (lk : imap) (ino : bytes) : list (option Z * Z) :=
  match lk ino with
  | Some l => map (fun pf => (Some (fst pf), snd pf)) l
  | None => [(None, -1)]
  end.
Definition ref_unix_rows (fam : Z) (lk : imap) (filt : option Z) (u : usock) : list row :=
  map (fun pf => {| r_fd := snd pf; r_family := tmap_obj fam; r_type := to_enum gen_socket_kinds (utype_num (u_type u));
                    r_laddr := APath (path_of u); r_raddr := APath []; r_status := CONN_NONE; r_pid := fst pf |})
      (filter (fun pf => negb (filt_skip filt (fst pf))) (unix_pairs lk (u_inode u))).

Lemma wf_usock_parts u :
  wf_usock u = true ->
  tok_ok (u_num u) = true /\ tok_ok (u_ref u) = true /\ tok_ok (u_proto u) = true /\ tok_ok (u_flags u) = true
  /\ tok_ok (u_st u) = true /\ is_dec (u_inode u) = true /\ contains 10 (path_of u) = false.
Proof.
  unfold wf_usock. intros H. repeat (apply andb_true_iff in H as [H ?]).
  repeat split; try assumption. now apply negb_true_iff.
Qed.

Definition uline_tail (u : usock) : bytes := match u_path u with None => [10] | Some p => 32 :: p ++ [10] end.
Definition six (u : usock) : list bytes :=
  [u_num u; u_ref u; u_proto u; u_flags u; hexw 4 (utype_num (u_type u)); u_st u].

Lemma six_ok u : wf_usock u = true -> forallb tok_ok (six u) = true.
Proof.
  intros H. apply wf_usock_parts in H as (H1 & H2 & H3 & H4 & H5 & _).
  unfold six. cbn [forallb]. rewrite H1, H2, H3, H4, H5, hexw_tok by discriminate. reflexivity.
Qed.

Lemma py_int_utype t : wf_utype t = true -> py_int (hexw 4 (utype_num t)) = Val (utype_num t).
Proof.
  destruct t as [| | |n]; try reflexivity. cbn [wf_utype utype_num]. intros H.
  assert (Hn : In n [0; 1; 2; 3; 4; 5; 6; 7; 8; 9]) by (cbn [In]; lia).
  cbn [In] in Hn. repeat (destruct Hn as [<-|Hn]; [reflexivity|]). contradiction.
Qed.

Lemma after_space_tok t r : contains 32 t = false -> after_space (t ++ 32 :: r) = r.
Proof.
  induction t as [|c t IH]; intros H.
  - cbn [app after_space]. now rewrite Z.eqb_refl.
  - rewrite contains_cons in H. apply orb_false_iff in H as [Hc Ht].
    cbn [app after_space]. rewrite Z.eqb_sym, Hc. now apply IH.
Qed.
Lemma after_space_none t : contains 32 t = false -> after_space t = [].
Proof.
  induction t as [|c t IH]; intros H; [reflexivity|].
  rewrite contains_cons in H. apply orb_false_iff in H as [Hc Ht].
  cbn [after_space]. rewrite Z.eqb_sym, Hc. now apply IH.
Qed.

Lemma unix_line_ok v fam lk filt u :
  wf_usock u = true -> v_exact v = true \/ path_lead_ws u = false ->
  unix_line v fam lk filt (k_uline u) = Val (ref_unix_rows fam lk filt u).
Proof.
  intros Hwf Hlead. pose proof (six_ok u Hwf) as Hsix.
  assert (Hty : wf_utype (u_type u) = true).
  { unfold wf_usock in Hwf. now apply andb_true_iff in Hwf as [_ Hwf]. }
  apply wf_usock_parts in Hwf as (H1 & H2 & H3 & H4 & H5 & Hino & Hnl).
  pose proof Hino as Hino'. apply is_dec_tok in Hino' as [Hne Hnw].
  assert (Ek : k_uline u = k_seq (u_pad u) 0 (six u) (u_inode u ++ uline_tail u)) by reflexivity.
  rewrite Ek. unfold unix_line.
  rewrite split_ws_k_seq by exact Hsix.
  (* the inode token and what follows it *)
  assert (Htl : exists s r, uline_tail u = s :: r /\ is_ws s = true /\
                            ((r = [] /\ path_of u = []) \/ r = path_of u ++ [10])).
  { unfold uline_tail, path_of. destruct (u_path u) as [p|].
    - exists 32, (p ++ [10]). repeat split. now right.
    - exists 10, []. repeat split. now left. }
  destruct Htl as (s & r & Etl & Hs & Hr). rewrite Etl.
  rewrite split_ws_token_sep by assumption.
  (* the path *)
  assert (Hpath : (if v_exact v
                   then rstrip_nl (after_space (rest_after 6 (k_seq (u_pad u) 0 (six u) (u_inode u ++ s :: r))))
                   else if (8 <=? length (six u ++ u_inode u :: split_ws r))%nat
                   then rstrip_nl (rest_after 7 (k_seq (u_pad u) 0 (six u) (u_inode u ++ s :: r))) else [])
                  = path_of u).
  { destruct (v_exact v) eqn:Ex.
    { (* repaired extraction: everything after the single blank that follows the inode *)
      change 6%nat with (length (six u) + 0)%nat. rewrite rest_after_k_seq by exact Hsix.
      cbn [rest_after]. rewrite lstrip_tok by (apply tok_ok_spec; auto).
      assert (H32 : contains 32 (u_inode u) = false) by (apply no_ws_contains; [reflexivity|exact Hnw]).
      unfold uline_tail, path_of in *. destruct (u_path u) as [p|].
      - inversion Etl; subst s r. rewrite after_space_tok by exact H32. now apply rstrip_nl_snoc.
      - inversion Etl; subst s r. rewrite after_space_none; [reflexivity|].
        rewrite contains_app, H32. reflexivity. }
    destruct Hlead as [Hlead|Hlead]; [congruence|].
    destruct Hr as [[-> Hp]| ->].
    - cbn. now rewrite Hp.
    - destruct (path_of u) as [|c p'] eqn:Ep.
      + cbn. reflexivity.
      + assert (Hc : is_ws c = false).
        { unfold path_lead_ws in Hlead. now rewrite Ep in Hlead. }
        assert (Hy : split_ws ((c :: p') ++ [10]) <> []) by (apply split_ws_nonempty; exact Hc).
        destruct (split_ws ((c :: p') ++ [10])) as [|y Y]; [congruence|].
        unfold six at 1. cbn [app length Nat.leb].
        change 7%nat with (length (six u) + 1)%nat.
        rewrite rest_after_k_seq by exact Hsix.
        cbn [rest_after]. rewrite lstrip_tok by (apply tok_ok_spec; auto).
        rewrite drop_tok_tok by assumption.
        assert (El : lstrip (s :: (c :: p') ++ [10]) = (c :: p') ++ [10]).
        { cbn [lstrip app]. rewrite Hs. cbn [lstrip]. now rewrite Hc. }
        cbn [app] in El. rewrite El. apply (rstrip_nl_snoc (c :: p')). exact Hnl. }
  unfold six at 1. cbn [app firstn].
  unfold ref_unix_rows, unix_pairs.
  destruct (filter (fun pf => negb (filt_skip filt (fst pf)))
              match lk (u_inode u) with
              | Some l => map (fun pf => (Some (fst pf), snd pf)) l
              | None => [(None, -1)]
              end) as [|x sel'] eqn:Esel; [reflexivity|].
  rewrite py_int_utype by exact Hty. cbn [obind].
  f_equal. apply map_ext. intros pf. f_equal. f_equal. exact Hpath.
Qed.

Lemma unix_lines_ok v fam lk filt socks :
  forallb wf_usock socks = true ->
  v_exact v = true \/ forallb (fun u => negb (path_lead_ws u)) socks = true ->
  unix_lines v fam lk filt (map k_uline socks) = Val (flat_map (ref_unix_rows fam lk filt) socks).
Proof.
  induction socks as [|u r IH]; intros Hwf Hl; [reflexivity|].
  cbn [forallb] in Hwf. apply andb_true_iff in Hwf as [Hu Hr].
  cbn [map unix_lines flat_map]. rewrite unix_line_ok.
  - cbn [obind]. rewrite IH; [reflexivity|exact Hr|].
    destruct Hl as [Hl|Hl]; [now left|right].
    cbn [forallb] in Hl. now apply andb_true_iff in Hl as [_ Hl].
  - exact Hu.
  - destruct Hl as [Hl|Hl]; [now left|right].
    cbn [forallb] in Hl. apply andb_true_iff in Hl as [Hl _]. now apply negb_true_iff in Hl.
Qed.

Definition uline_body (u : usock) : bytes :=
  k_seq (u_pad u) 0 (six u) (u_inode u ++ match u_path u with None => [] | Some p => 32 :: p end).

Lemma uline_is_line u :
  wf_usock u = true -> k_uline u = uline_body u ++ [10] /\ contains 10 (uline_body u) = false.
Proof.
  intros Hwf. pose proof (six_ok u Hwf) as Hsix.
  apply wf_usock_parts in Hwf as (H1 & H2 & H3 & H4 & H5 & Hino & Hnl).
  split.
  - unfold k_uline, uline_body. fold (six u). rewrite <- k_seq_app_last. f_equal.
    rewrite <- app_assoc. f_equal. destruct (u_path u); [|reflexivity].
    cbn [app]. reflexivity.
  - unfold uline_body. rewrite contains_k_seq; [|discriminate|reflexivity|exact Hsix].
    rewrite contains_app. apply is_dec_tok in Hino as [_ Hn].
    rewrite (no_ws_contains 10 _ eq_refl Hn). unfold path_of in Hnl.
    destruct (u_path u); [|reflexivity]. rewrite contains_cons, Hnl. reflexivity.
Qed.

(* reading the unix file: LF-terminated records; with universal newlines (before 0e98900) only when no CR occurs *)
Lemma process_unix_lines {A} v fam lk filt (f body : A -> bytes) xs :
  (forall x, In x xs -> f x = body x ++ [10] /\ contains 10 (body x) = false) ->
  forallb (fun x => line_guard v (f x)) xs = true ->
  v_lf v = true \/ contains 13 (hdr_unix ++ 10 :: concat (map f xs)) = false ->
  process_unix v (Some (hdr_unix ++ 10 :: concat (map f xs))) fam lk filt = unix_lines v fam lk filt (map f xs).
Proof.
  intros Hlines Hg Hcr. unfold process_unix. cbv zeta.
  destruct (v_lf v).
  - rewrite lines_keep_line by reflexivity.
    rewrite (lines_keep_lines f body) by exact Hlines. cbn [tl]. rewrite forallb_map, Hg. reflexivity.
  - destruct Hcr as [Hcr|Hcr]; [discriminate|]. rewrite (univ_nl_id _ Hcr).
    rewrite lines_keep_line by reflexivity.
    rewrite (lines_keep_lines f body) by exact Hlines. cbn [tl]. rewrite forallb_map, Hg. reflexivity.
Qed.

(* the tokenised part of a printed record is its fixed-format part *)
Lemma unix_head_uline u : wf_usock u = true -> unix_head (k_uline u) = uline_head u.
Proof.
  intros Hwf. pose proof (six_ok u Hwf) as Hsix.
  apply wf_usock_parts in Hwf as (H1 & H2 & H3 & H4 & H5 & Hino & Hnl).
  pose proof Hino as Hino'. apply is_dec_tok in Hino' as [Hne Hnw].
  assert (H32 : contains 32 (u_inode u) = false) by (apply no_ws_contains; [reflexivity|exact Hnw]).
  unfold unix_head, uline_head. fold (six u).
  assert (Ek : k_uline u = k_seq (u_pad u) 0 (six u) (u_inode u ++ uline_tail u)) by reflexivity.
  rewrite Ek. change 6%nat with (length (six u) + 0)%nat. rewrite rest_after_k_seq by exact Hsix.
  cbn [rest_after]. rewrite lstrip_tok by (apply tok_ok_spec; auto).
  unfold uline_tail. destruct (u_path u) as [p|].
  - rewrite after_space_tok by exact H32.
    replace (u_inode u ++ 32 :: p ++ [10]) with ((u_inode u ++ [32]) ++ (p ++ [10])) by (now rewrite <- app_assoc).
    rewrite k_seq_app_last. apply firstn_app_minus.
  - rewrite after_space_none by (rewrite contains_app, H32; reflexivity).
    cbn [length]. rewrite Nat.sub_0_r. apply firstn_all.
Qed.
Lemma line_guard_exact v u :
  v_exact v = true -> wf_usock u = true -> line_guard v (k_uline u) = str_safe (uline_head u).
Proof. intros Hv Hwf. unfold line_guard. rewrite Hv. now rewrite unix_head_uline. Qed.

Lemma process_unix_ok v fam lk filt socks :
  forallb wf_usock socks = true ->
  v_exact v = true \/ forallb (fun u => negb (path_lead_ws u)) socks = true ->
  forallb (fun u => line_guard v (k_uline u)) socks = true ->
  v_lf v = true \/ contains 13 (k_ufile socks) = false ->
  process_unix v (Some (k_ufile socks)) fam lk filt = Val (flat_map (ref_unix_rows fam lk filt) socks).
Proof.
  intros Hwf Hl Hg Hcr. unfold k_ufile in *.
  rewrite (process_unix_lines v fam lk filt k_uline uline_body); [now apply unix_lines_ok| |exact Hg|exact Hcr].
  intros u Hu. rewrite forallb_forall in Hwf. apply uline_is_line. now apply Hwf.
Qed.

(* ------------------------------------------------------------ malformed lines: what reaches which branch *)
Lemma decode_address_exc le o a fam e : decode_address le o a fam = Exc e -> e = ValueError.
Proof.
  unfold decode_address. destruct (split_on 58 a) as [|ip [|port [|x r]]]; try congruence.
  destruct (parse_hex port) as [p|]; cbn [of_option obind]; [|congruence].
  destruct (p =? 0); [congruence|].
  destruct (b16decode ip) as [raw|]; cbn [of_option obind]; [|congruence].
  destruct (fam =? AF_INET).
  - destruct (length (if le then rev raw else raw) =? 4)%nat; congruence.
  - destruct (unpack_le4 raw); [|congruence].
    destruct (o_ntop6 o); [congruence|]. destruct (o_supported o); congruence.
Qed.

(* process_inet: "error while parsing ...; malformed line" (RuntimeError) is raised exactly for a line with
   fewer than 10 white-space separated fields (a blank line included), whatever the fields hold *)
Theorem inet_line_runtime_error le o fam ty lk filt line :
  inet_line le o fam ty lk filt line = Exc RuntimeError <-> (length (split_ws line) < 10)%nat.
Proof.
  unfold inet_line. split.
  - destruct (split_ws line) as [|t0 [|t1 [|t2 [|t3 [|t4 [|t5 [|t6 [|t7 [|t8 [|t9 r]]]]]]]]]];
      cbn [length]; try lia.
    cbn [firstn]. intros H. exfalso.
    destruct (lk t9) as [[|[p f] l]|]; cbn [obind] in H; try discriminate;
      (destruct (filt_skip filt _); [discriminate|]);
      (destruct (ty =? SOCK_STREAM);
       [destruct (assoc t3 gen_tcp_statuses); cbn [of_option obind] in H; [|discriminate]|cbn [obind] in H]);
      (destruct (decode_address le o t1 fam) as [[la|]| |] eqn:E1; cbn [obind] in H; try discriminate;
       [destruct (decode_address le o t2 fam) as [[ra|]| |] eqn:E2; cbn [obind] in H; try discriminate;
        apply decode_address_exc in E2; congruence
       |apply decode_address_exc in E1; congruence]).
  - intros H.
    destruct (split_ws line) as [|t0 [|t1 [|t2 [|t3 [|t4 [|t5 [|t6 [|t7 [|t8 [|t9 r]]]]]]]]]];
      cbn [length] in H; try reflexivity. lia.
Qed.

(* process_unix: a line with fewer than 7 fields is skipped when it holds no blank (issue 766: the tail of a
   socket name that contained a newline) and raises RuntimeError when it holds one; nothing else does *)
Theorem unix_line_short v fam lk filt line :
  (length (split_ws line) < 7)%nat ->
  unix_line v fam lk filt line = if contains 32 line then Exc RuntimeError else Val [].
Proof.
  intros H. unfold unix_line.
  destruct (split_ws line) as [|t0 [|t1 [|t2 [|t3 [|t4 [|t5 [|t6 r]]]]]]]; cbn [length] in H; try reflexivity. lia.
Qed.

Theorem unix_line_runtime_error v fam lk filt line :
  unix_line v fam lk filt line = Exc RuntimeError
  <-> (length (split_ws line) < 7)%nat /\ contains 32 line = true.
Proof.
  split.
  - intros H. destruct (Nat.lt_ge_cases (length (split_ws line)) 7) as [Hl|Hl].
    + split; [exact Hl|]. rewrite unix_line_short in H by exact Hl. destruct (contains 32 line); congruence.
    + exfalso. unfold unix_line in H.
      destruct (split_ws line) as [|t0 [|t1 [|t2 [|t3 [|t4 [|t5 [|t6 r]]]]]]]; cbn [length] in Hl; try lia.
      cbn [firstn] in H.
      destruct (filter _ _) as [|x sel]; [discriminate|].
      destruct (py_int t4) as [t| |] eqn:E; cbn [obind] in H; try discriminate.
      unfold py_int in E. destruct (parse_int t4); cbn in E; congruence.
  - intros [Hl Hc]. rewrite unix_line_short by exact Hl. now rewrite Hc.
Qed.

(* a /proc/net/unix file with such junk lines between the socket records: the rows of the records *)
Lemma junk_line_skipped v fam lk filt j :
  junk_ok j = true -> unix_line v fam lk filt (j ++ [10]) = Val [].
Proof.
  unfold junk_ok. intros H. apply andb_true_iff in H as [H Hl]. apply andb_true_iff in H as [H32 H10].
  apply negb_true_iff in H32. apply Nat.ltb_lt in Hl.
  rewrite unix_line_short by exact Hl. rewrite contains_app, H32. reflexivity.
Qed.


Lemma unix_lines_items_ok v fam lk filt items :
  forallb uitem_ok items = true ->
  v_exact v = true \/ forallb (fun u => negb (path_lead_ws u)) (socks_of items) = true ->
  unix_lines v fam lk filt (map k_uitem items) = Val (flat_map (ref_unix_rows fam lk filt) (socks_of items)).
Proof.
  induction items as [|i r IH]; intros Hwf Hl; [reflexivity|].
  cbn [forallb] in Hwf. apply andb_true_iff in Hwf as [Hi Hr].
  cbn [map unix_lines]. destruct i as [u|j]; cbn [k_uitem uitem_ok socks_of flat_map app] in *.
  - rewrite unix_line_ok.
    + cbn [obind]. fold (socks_of r). rewrite IH; [reflexivity|exact Hr|].
      destruct Hl as [Hl|Hl]; [now left|right].
      cbn [forallb] in Hl. now apply andb_true_iff in Hl as [_ Hl].
    + exact Hi.
    + destruct Hl as [Hl|Hl]; [now left|right].
      cbn [forallb] in Hl. apply andb_true_iff in Hl as [Hl _]. now apply negb_true_iff in Hl.
  - rewrite junk_line_skipped by exact Hi. cbn [obind]. fold (socks_of r). rewrite IH by assumption. reflexivity.
Qed.

Theorem process_unix_items_ok v fam lk filt items :
  forallb uitem_ok items = true ->
  v_exact v = true \/ forallb (fun u => negb (path_lead_ws u)) (socks_of items) = true ->
  forallb (fun i => line_guard v (k_uitem i)) items = true ->
  v_lf v = true \/ contains 13 (k_ufile_items items) = false ->
  process_unix v (Some (k_ufile_items items)) fam lk filt
  = Val (flat_map (ref_unix_rows fam lk filt) (socks_of items)).
Proof.
  intros Hwf Hl Hg Hcr. unfold k_ufile_items in *.
  rewrite (process_unix_lines v fam lk filt k_uitem (fun i => match i with USock u => uline_body u | UJunk j => j end));
    [now apply unix_lines_items_ok| |exact Hg|exact Hcr].
  - intros i Hi. rewrite forallb_forall in Hwf. specialize (Hwf i Hi). destruct i as [u|j]; cbn [k_uitem uitem_ok] in *.
    + now apply uline_is_line.
    + split; [reflexivity|]. unfold junk_ok in Hwf. apply andb_true_iff in Hwf as [Hwf _].
      apply andb_true_iff in Hwf as [_ H10]. now apply negb_true_iff in H10.
Qed.

(* ... i.e. the junk lines change nothing: the answer is that of the file holding only the records *)
Lemma socks_of_wf items : forallb uitem_ok items = true -> forallb wf_usock (socks_of items) = true.
Proof.
  induction items as [|i r IH]; [reflexivity|]. cbn [forallb]. intros H. apply andb_true_iff in H as [Hi Hr].
  destruct i as [u|j]; cbn [socks_of flat_map app uitem_ok] in *.
  - fold (socks_of r). cbn [forallb]. now rewrite Hi, IH.
  - fold (socks_of r). now apply IH.
Qed.

Theorem unix_junk_lines_change_nothing v fam lk filt items :
  forallb uitem_ok items = true ->
  v_exact v = true \/ forallb (fun u => negb (path_lead_ws u)) (socks_of items) = true ->
  forallb (fun i => line_guard v (k_uitem i)) items = true ->
  v_lf v = true \/ (contains 13 (k_ufile_items items) = false /\ contains 13 (k_ufile (socks_of items)) = false) ->
  exists rows, process_unix v (Some (k_ufile_items items)) fam lk filt = Val rows
               /\ process_unix v (Some (k_ufile (socks_of items))) fam lk filt = Val rows.
Proof.
  intros Hwf Hl Hg Hcr. eexists. split.
  - apply process_unix_items_ok; try assumption. destruct Hcr as [H|[H _]]; [now left|now right].
  - apply process_unix_ok; [now apply socks_of_wf|exact Hl| |destruct Hcr as [H|[_ H]]; [now left|now right]].
    clear -Hg. induction items as [|i r IH]; [reflexivity|].
    cbn [forallb] in Hg. apply andb_true_iff in Hg as [Hi Hr].
    destruct i as [u|j]; cbn [socks_of flat_map app k_uitem] in *; fold (socks_of r).
    + cbn [forallb]. now rewrite Hi, IH.
    + now apply IH.
Qed.

(* ------------------------------------------------------------ degenerate table files: no record at all *)
Lemma lines_keep_nolf l : contains 10 l = false -> lines_keep l = match l with [] => [] | _ => [l] end.
Proof.
  induction l as [|c l IH]; intros H; [reflexivity|].
  rewrite contains_cons in H. apply orb_false_iff in H as [Hc Hl].
  cbn [lines_keep]. rewrite Z.eqb_sym, Hc. rewrite IH by exact Hl. now destruct l.
Qed.
Lemma tl_lines_deg d hdr : contains 10 hdr = false -> tl (lines_keep (k_deg_file d hdr)) = [].
Proof.
  intros H. destruct d; cbn [k_deg_file]; try reflexivity.
  rewrite lines_keep_nolf by exact H. now destruct hdr.
Qed.

(* an existing but empty / header-only-without-newline / newline-only table file: no rows, no error *)
Lemma process_inet_degenerate le o d hdr is6 fam ty lk filt :
  text_safe hdr = true -> contains 10 hdr = false ->
  process_inet le o (Some (k_deg_file d hdr)) is6 fam ty lk filt = Val [].
Proof.
  intros Hs Hh. unfold process_inet. cbv zeta.
  assert (E : univ_nl (k_deg_file d hdr) = k_deg_file d hdr /\ str_safe (k_deg_file d hdr) = true).
  { apply text_safe_parts in Hs as [Hcr Hss]. destruct d; cbn [k_deg_file]; try (split; reflexivity).
    split; [now apply univ_nl_id|exact Hss]. }
  destruct E as [E1 E2]. rewrite E1, E2, tl_lines_deg by exact Hh. reflexivity.
Qed.
Lemma process_unix_degenerate v d fam lk filt :
  process_unix v (Some (k_deg_file d hdr_unix)) fam lk filt = Val [].
Proof.
  unfold process_unix. cbv zeta.
  assert (E : (if v_lf v then k_deg_file d hdr_unix else univ_nl (k_deg_file d hdr_unix)) = k_deg_file d hdr_unix).
  { destruct (v_lf v); [reflexivity|]. destruct d; reflexivity. }
  destruct (v_lf v); [|destruct d; reflexivity]. rewrite tl_lines_deg by reflexivity. reflexivity.
Qed.
