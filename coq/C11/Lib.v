(* C11 -- generic lemmas: tokens with padding, lines, hexadecimal text. *)
From PV Require Import C11.Spec.
Require Import ZifyBool.
Ltac Zify.zify_post_hook ::= Z.div_mod_to_equations.

(* ------------------------------------------------------------ white space and tokens *)
Lemma split_ws_repeat n r : split_ws (repeat 32 n ++ r) = split_ws r.
Proof. induction n as [|n IH]; [reflexivity|]. cbn [repeat app]. now rewrite split_ws_leading. Qed.

Lemma lstrip_repeat n r : lstrip (repeat 32 n ++ r) = lstrip r.
Proof. induction n as [|n IH]; [reflexivity|]. cbn [repeat app lstrip]. exact IH. Qed.

Lemma split_ws_k_seq pad toks : forall i last,
  forallb tok_ok toks = true ->
  split_ws (k_seq pad i toks last) = toks ++ split_ws last.
Proof.
  induction toks as [|t toks IH]; intros i last H; [reflexivity|].
  cbn [forallb] in H. apply andb_true_iff in H as [Ht Hts].
  apply tok_ok_spec in Ht as [Hne Hnw].
  cbn [k_seq repeat app]. rewrite split_ws_token_sep by (auto).
  rewrite split_ws_repeat, IH by assumption. reflexivity.
Qed.

Lemma k_seq_app_last pad toks : forall i a b, k_seq pad i toks (a ++ b) = k_seq pad i toks a ++ b.
Proof.
  induction toks as [|t toks IH]; intros i a b; [reflexivity|].
  cbn [k_seq]. rewrite IH. now rewrite !app_assoc.
Qed.

Lemma contains_repeat b n : b <> 32 -> contains b (repeat 32 n) = false.
Proof.
  intros H. induction n as [|n IH]; [reflexivity|]. cbn [repeat]. rewrite contains_cons, IH.
  apply Z.eqb_neq in H. now rewrite H.
Qed.

Lemma tok_ok_contains b t : is_ws b = true -> tok_ok t = true -> contains b t = false.
Proof. intros Hb Ht. apply tok_ok_spec in Ht as [_ Hn]. now apply no_ws_contains. Qed.

Lemma contains_k_seq b pad toks : forall i last,
  b <> 32 -> is_ws b = true -> forallb tok_ok toks = true ->
  contains b (k_seq pad i toks last) = contains b last.
Proof.
  induction toks as [|t toks IH]; intros i last Hb Hw H; [reflexivity|].
  cbn [forallb] in H. apply andb_true_iff in H as [Ht Hts].
  cbn [k_seq]. rewrite !contains_app, (tok_ok_contains b t Hw Ht), (contains_repeat b _ Hb), IH by assumption.
  reflexivity.
Qed.

Lemma split_ws_nonempty c r : is_ws c = false -> split_ws (c :: r) <> [].
Proof.
  intros H. cbn [split_ws]. rewrite H. destruct r as [|d r']; [discriminate|].
  destruct (is_ws d); [discriminate|]. destruct (split_ws (d :: r')); discriminate.
Qed.

Lemma all_ws_split l : forallb is_ws l = true -> split_ws l = [].
Proof.
  induction l as [|c l IH]; [reflexivity|]. cbn [forallb]. intros H.
  apply andb_true_iff in H as [Hc Hl]. rewrite split_ws_leading by assumption. auto.
Qed.

(* drop_tok / rest_after : line.split(None, n)[n] *)
Lemma drop_tok_tok t s r : no_ws t = true -> is_ws s = true -> drop_tok (t ++ s :: r) = s :: r.
Proof.
  induction t as [|c t IH]; intros Hn Hs.
  - cbn [app drop_tok]. now rewrite Hs.
  - cbn [no_ws forallb] in Hn. apply andb_true_iff in Hn as [Hc Ht]. apply negb_true_iff in Hc.
    cbn [app drop_tok]. rewrite Hc. now apply IH.
Qed.

Lemma lstrip_tok t r : tok_ok t = true -> lstrip (t ++ r) = t ++ r.
Proof.
  intros H. apply tok_ok_spec in H as [Hne Hn]. destruct t as [|c t]; [congruence|].
  cbn [no_ws forallb] in Hn. apply andb_true_iff in Hn as [Hc _]. apply negb_true_iff in Hc.
  cbn [app lstrip]. now rewrite Hc.
Qed.

Lemma rest_after_ws k x : rest_after k (32 :: x) = rest_after k x.
Proof. destruct k; reflexivity. Qed.
Lemma rest_after_repeat n k x : rest_after k (repeat 32 n ++ x) = rest_after k x.
Proof. destruct k; cbn [rest_after]; now rewrite lstrip_repeat. Qed.

Lemma rest_after_k_seq pad toks : forall i k last,
  forallb tok_ok toks = true ->
  rest_after (length toks + k) (k_seq pad i toks last) = rest_after k last.
Proof.
  induction toks as [|t toks IH]; intros i k last H; [reflexivity|].
  cbn [forallb] in H. apply andb_true_iff in H as [Ht Hts].
  cbn [length Nat.add rest_after k_seq repeat app].
  rewrite lstrip_tok by assumption.
  apply tok_ok_spec in Ht as [_ Hn]. rewrite drop_tok_tok by auto.
  rewrite rest_after_ws, rest_after_repeat. now apply IH.
Qed.

Lemma rstrip_nl_snoc p : contains 10 p = false -> rstrip_nl (p ++ [10]) = p.
Proof.
  intros H. unfold rstrip_nl. rewrite rev_app_distr. cbn [rev app lstrip_nl]. rewrite Z.eqb_refl.
  assert (E : lstrip_nl (rev p) = rev p).
  { rewrite <- contains_rev in H. destruct (rev p) as [|c q]; [reflexivity|].
    rewrite contains_cons in H. apply orb_false_iff in H as [Hc _].
    cbn [lstrip_nl]. rewrite Z.eqb_sym, Hc. reflexivity. }
  rewrite E. apply rev_involutive.
Qed.

(* ------------------------------------------------------------ lines *)
Lemma lines_keep_bodies (bodies : list bytes) :
  forallb (fun t => negb (contains 10 t)) bodies = true ->
  lines_keep (concat (map (fun t => t ++ [10]) bodies)) = map (fun t => t ++ [10]) bodies.
Proof.
  induction bodies as [|t r IH]; intros H; [reflexivity|].
  cbn [forallb] in H. apply andb_true_iff in H as [Ht Hr]. apply negb_true_iff in Ht.
  cbn [map concat]. rewrite <- app_assoc. cbn [app].
  rewrite lines_keep_line by assumption. now rewrite IH.
Qed.

(* ------------------------------------------------------------ hexadecimal text *)
Definition is_hexd (c : Z) : bool := ((48 <=? c) && (c <=? 57)) || ((65 <=? c) && (c <=? 70)).

Lemma hexdig_hex d : 0 <= d < 16 -> is_hexd (hexdig d) = true.
Proof. intros H. unfold is_hexd, hexdig. destruct (d <? 10) eqn:E; lia. Qed.
Lemma hexv_hexdig d : 0 <= d < 16 -> hexv (hexdig d) = Some d.
Proof.
  intros H. unfold hexv, hexdig. destruct (d <? 10) eqn:E.
  - assert ((48 <=? 48 + d) && (48 + d <=? 57) = true) as -> by lia. f_equal. lia.
  - assert ((48 <=? 55 + d) && (55 + d <=? 57) = false) as -> by lia.
    assert ((65 <=? 55 + d) && (55 + d <=? 70) = true) as -> by lia. f_equal. lia.
Qed.
Lemma digit_val_hexdig d : 0 <= d < 16 -> digit_val 16 (hexdig d) = Some d.
Proof.
  intros H. unfold digit_val, hexdig. destruct (d <? 10) eqn:E.
  - assert ((48 <=? 48 + d) && (48 + d <=? 57) = true) as -> by lia.
    assert (48 + d - 48 <? 16 = true) as -> by lia. f_equal. lia.
  - assert ((48 <=? 55 + d) && (55 + d <=? 57) = false) as -> by lia.
    assert ((97 <=? 55 + d) && (55 + d <=? 122) = false) as -> by lia.
    assert ((65 <=? 55 + d) && (55 + d <=? 90) = true) as -> by lia.
    assert (55 + d - 55 <? 16 = true) as -> by lia. f_equal. lia.
Qed.

Lemma hexw_hex n : forall w, forallb is_hexd (hexw n w) = true.
Proof.
  induction n as [|n IH]; intros w; [reflexivity|].
  cbn [hexw]. rewrite forallb_app, IH. cbn [forallb]. rewrite hexdig_hex; [reflexivity|].
  apply Z.mod_pos_bound. lia.
Qed.
Lemma hexd_not_ws c : is_hexd c = true -> is_ws c = false.
Proof. unfold is_hexd, is_ws. lia. Qed.
Lemma hexs_no_ws l : forallb is_hexd l = true -> no_ws l = true.
Proof.
  induction l as [|c l IH]; [reflexivity|]. cbn [forallb no_ws]. intros H.
  apply andb_true_iff in H as [Hc Hl]. rewrite (hexd_not_ws c Hc). cbn [negb andb]. now apply IH.
Qed.
Lemma hexs_contains b l : is_hexd b = false -> forallb is_hexd l = true -> contains b l = false.
Proof.
  intros Hb. induction l as [|c l IH]; [reflexivity|]. cbn [forallb]. intros H.
  apply andb_true_iff in H as [Hc Hl]. rewrite contains_cons, IH by assumption.
  destruct (Z.eqb_spec b c); [subst; congruence|reflexivity].
Qed.
Lemma hexw_length n : forall w, length (hexw n w) = n.
Proof. induction n as [|n IH]; intros w; [reflexivity|]. cbn [hexw]. rewrite app_length, IH. cbn. lia. Qed.
Lemma hexw_tok n w : n <> O -> tok_ok (hexw n w) = true.
Proof.
  intros Hn. apply tok_ok_spec. split.
  - intros E. apply (f_equal (@length Z)) in E. rewrite hexw_length in E. cbn in E. congruence.
  - apply hexs_no_ws, hexw_hex.
Qed.

(* int(text, 16) on "%0nX" text *)
Definition hex_step (a d : Z) : Z := a * 16 + d.
Fixpoint dig16 (n : nat) (w : Z) : list Z :=
  match n with O => [] | S k => dig16 k (w / 16) ++ [w mod 16] end.
Lemma hexw_dig16 n : forall w, hexw n w = map hexdig (dig16 n w).
Proof. induction n as [|n IH]; intros w; [reflexivity|]. cbn [hexw dig16]. now rewrite map_app, IH. Qed.
Lemma dig16_range n : forall w, Forall (fun d => 0 <= d < 16) (dig16 n w).
Proof.
  induction n as [|n IH]; intros w; [constructor|]. cbn [dig16]. apply Forall_app. split; [apply IH|].
  constructor; [|constructor]. apply Z.mod_pos_bound. lia.
Qed.
Lemma dig16_val n : forall w acc, fold_left hex_step (dig16 n w) acc = acc * 16 ^ Z.of_nat n + w mod 16 ^ Z.of_nat n.
Proof.
  induction n as [|n IH]; intros w acc.
  - cbn [dig16 fold_left]. change (16 ^ Z.of_nat 0) with 1. rewrite Z.mod_1_r. lia.
  - cbn [dig16]. rewrite fold_left_app, IH. cbn [fold_left]. unfold hex_step.
    rewrite Nat2Z.inj_succ, Z.pow_succ_r by lia.
    assert (Hp : 0 < 16 ^ Z.of_nat n) by (apply Z.pow_pos_nonneg; lia).
    rewrite (Z.rem_mul_r w 16 (16 ^ Z.of_nat n)) by lia. lia.
Qed.

Lemma digits_us_hex ds : forall pd acc,
  Forall (fun d => 0 <= d < 16) ds -> (ds <> [] \/ pd = true) ->
  digits_us 16 (map hexdig ds) pd acc = Some (fold_left hex_step ds acc).
Proof.
  induction ds as [|d ds IH]; intros pd acc H Hne.
  - destruct Hne as [Hne| ->]; [congruence|reflexivity].
  - inversion H as [|? ? Hd Hds]; subst. cbn [map digits_us fold_left].
    rewrite (digit_val_hexdig d Hd). rewrite IH; auto.
Qed.

Lemma parse_hex_hexw n w : n <> O -> parse_hex (hexw n w) = Some (w mod 16 ^ Z.of_nat n).
Proof.
  intros Hn. unfold parse_hex, parse_signed.
  rewrite strip_no_ws by (apply hexs_no_ws, hexw_hex).
  pose proof (hexw_hex n w) as Hh.
  assert (G : digits_us 16 (hexw n w) false 0 = Some (w mod 16 ^ Z.of_nat n)).
  { rewrite hexw_dig16. rewrite digits_us_hex.
    { rewrite dig16_val. f_equal. }
    { apply dig16_range. }
    { left. intros E. apply (f_equal (@length Z)) in E.
      rewrite <- (map_length hexdig), <- hexw_dig16, hexw_length in E. cbn in E. congruence. } }
  destruct (hexw n w) as [|c r] eqn:E.
  { apply (f_equal (@length Z)) in E. rewrite hexw_length in E. cbn in E. congruence. }
  cbn [forallb] in Hh. apply andb_true_iff in Hh as [Hc Hr].
  assert (c =? 45 = false) as -> by (unfold is_hexd in Hc; lia).
  assert (c =? 43 = false) as -> by (unfold is_hexd in Hc; lia).
  unfold with_prefix. destruct r as [|x [|y r']]; try exact G.
  cbn [forallb] in Hr. apply andb_true_iff in Hr as [Hx _].
  assert ((c =? 48) && ((x =? 120) || (x =? 88)) = false) as -> by (unfold is_hexd in Hx; lia).
  exact G.
Qed.

(* base64.b16decode on "%0(2n)X" text: the big-endian bytes of the word *)
Fixpoint be_bytes (n : nat) (w : Z) : bytes :=
  match n with O => [] | S k => be_bytes k (w / 256) ++ [w mod 256] end.

Lemma b16decode_app a : forall x b,
  b16decode a = Some x ->
  b16decode (a ++ b) = match b16decode b with Some y => Some (x ++ y) | None => None end.
Proof.
  assert (P : forall n a, (length a <= n)%nat -> forall x b, b16decode a = Some x ->
              b16decode (a ++ b) = match b16decode b with Some y => Some (x ++ y) | None => None end).
  { induction n as [|n IH]; intros a0 Hl x b H.
    - destruct a0; [|cbn in Hl; lia]. cbn in H. inversion H; subst. cbn [app].
      destruct (b16decode b); reflexivity.
    - destruct a0 as [|h [|l r]].
      + cbn in H. inversion H; subst. cbn [app]. destruct (b16decode b); reflexivity.
      + discriminate.
      + cbn [b16decode] in H. cbn [app b16decode].
        destruct (hexv h) as [hv|]; [|discriminate].
        destruct (hexv l) as [lv|]; [|discriminate].
        destruct (b16decode r) as [t|] eqn:Er; [|discriminate].
        inversion H; subst.
        rewrite (IH r) with (x := t) by (cbn in Hl; lia || exact Er).
        destruct (b16decode b); reflexivity. }
  intros x b H. apply (P (length a) a (le_n _) x b H).
Qed.

Lemma hexw_SS n w :
  hexw (S (S n)) w = hexw n (w / 256) ++ [hexdig ((w / 16) mod 16); hexdig (w mod 16)].
Proof.
  cbn [hexw]. rewrite <- app_assoc. cbn [app]. rewrite Z.div_div by lia. reflexivity.
Qed.

Lemma b16decode_hexw n : forall w, b16decode (hexw (2 * n) w) = Some (be_bytes n w).
Proof.
  induction n as [|n IH]; intros w; [reflexivity|].
  replace (2 * S n)%nat with (S (S (2 * n))) by lia.
  rewrite hexw_SS. rewrite (b16decode_app _ _ _ (IH (w / 256))).
  cbn [b16decode be_bytes].
  rewrite !hexv_hexdig by (apply Z.mod_pos_bound; lia).
  f_equal. f_equal. f_equal. lia.
Qed.

(* the bytes of a host word *)
Lemma be_bytes4 w :
  be_bytes 4 w = [(w / 16777216) mod 256; (w / 65536) mod 256; (w / 256) mod 256; w mod 256].
Proof.
  cbn [be_bytes app]. rewrite !Z.div_div by lia. reflexivity.
Qed.

Lemma word_bytes a b c d :
  0 <= a < 256 -> 0 <= b < 256 -> 0 <= c < 256 -> 0 <= d < 256 ->
  let w := a + 256 * b + 65536 * c + 16777216 * d in
  w mod 256 = a /\ (w / 256) mod 256 = b /\ (w / 65536) mod 256 = c /\ (w / 16777216) mod 256 = d.
Proof. intros Ha Hb Hc Hd w. subst w. repeat split; lia. Qed.

(* ------------------------------------------------------------ text-mode reading *)
Lemma univ_nl_id l : contains 13 l = false -> univ_nl l = l.
Proof.
  induction l as [|c l IH]; intros H; [reflexivity|].
  rewrite contains_cons in H. apply orb_false_iff in H as [Hc Hl].
  cbn [univ_nl]. rewrite Z.eqb_sym, Hc. now rewrite IH.
Qed.
Lemma text_safe_parts l : text_safe l = true -> contains 13 l = false /\ str_safe l = true.
Proof. unfold text_safe. intros H. apply andb_true_iff in H as [H1 H2]. now apply negb_true_iff in H1. Qed.
Lemma forallb_map {A B} (f : B -> bool) (g : A -> B) l : forallb f (map g l) = forallb (fun x => f (g x)) l.
Proof. induction l as [|x l IH]; [reflexivity|]. cbn [map forallb]. now rewrite IH. Qed.
Lemma firstn_app_minus {A} (a b : list A) : firstn (length (a ++ b) - length b) (a ++ b) = a.
Proof.
  rewrite app_length. replace (length a + length b - length b)%nat with (length a) by lia.
  rewrite firstn_app, Nat.sub_diag, firstn_all. cbn [firstn]. apply app_nil_r.
Qed.
