(* C11 -- descriptor tables: what get_proc_inodes / get_all_inodes compute from the kernel's
   /proc/<pid>/fd links, and how the resulting lookup relates to the real holders of a socket. *)
From PV Require Import C11.Spec C11.Lib C11.ProofsLines.

(* ------------------------------------------------------------ one link *)
Lemma digits_contains b l : is_digit b = false -> all_digits l = true -> contains b l = false.
Proof.
  intros Hb. induction l as [|c l IH]; [reflexivity|]. cbn [all_digits forallb]. intros H.
  apply andb_true_iff in H as [Hc Hl]. rewrite contains_cons, IH by assumption.
  destruct (Z.eqb_spec b c); [subst; congruence|reflexivity].
Qed.
Lemma is_dec_digits l : is_dec l = true -> all_digits l = true.
Proof. destruct l; [discriminate|]. auto. Qed.

Lemma prefixb_firstn q : forall k p, prefixb q (firstn k p) = true -> prefixb q p = true.
Proof.
  induction q as [|x q IH]; intros k p H; [reflexivity|].
  destruct k as [|k]; [discriminate|]. destruct p as [|y p]; [discriminate|].
  cbn [firstn prefixb] in *. apply andb_true_iff in H as [H1 H2]. rewrite H1. cbn [andb]. now apply (IH k).
Qed.

Lemma sock_pfx_lit : bs "socket:[" = [115; 111; 99; 107; 101; 116; 58; 91].
Proof. reflexivity. Qed.

Lemma readlink_clean_link ino ex : is_dec ino = true -> readlink_clean (k_link ino) ex = k_link ino.
Proof.
  intros H. apply is_dec_digits in H. unfold readlink_clean.
  assert (Hc : contains 0 (k_link ino) = false).
  { unfold k_link. rewrite !contains_app. rewrite (digits_contains 0 ino eq_refl H). reflexivity. }
  rewrite split_on_nosep by exact Hc. cbn [hd].
  assert (Hs : suffixb deleted_sfx (k_link ino) = false).
  { unfold suffixb, k_link. rewrite !rev_app_distr. cbn [rev app].
    change (rev deleted_sfx) with [41; 100; 101; 116; 101; 108; 101; 100; 40; 32]. reflexivity. }
  rewrite Hs. reflexivity.
Qed.

Definition ent_pair (pid : Z) (f : kfd) : option (bytes * (Z * Z)) :=
  match f_target f with
  | TSock i => Some (i, (pid, dec_val (f_name f)))
  | _ => None
  end.

Lemma fd_scan_one_ok pid f : wf_kfd f = true -> fd_scan_one pid (to_ent f) = Val (ent_pair pid f).
Proof.
  unfold wf_kfd, fd_scan_one, to_ent, ent_pair. intros H. apply andb_true_iff in H as [Hn Ht].
  cbn [fst snd]. destruct (f_target f) as [ino|raw ex|].
  - rewrite readlink_clean_link by exact Ht.
    assert (Hp : prefixb sock_pfx (k_link ino) = true) by (unfold k_link, sock_pfx; apply prefixb_app).
    rewrite Hp. unfold py_int. rewrite parse_int_dec by exact Hn. cbn [of_option obind].
    unfold k_link. rewrite sock_pfx_lit. cbn [app skipn]. now rewrite removelast_last.
  - apply negb_true_iff in Ht.
    assert (Hp : prefixb sock_pfx (readlink_clean raw ex) = false).
    { unfold readlink_clean.
      destruct (suffixb deleted_sfx (hd [] (split_on 0 raw)) && negb ex); [|exact Ht].
      destruct (prefixb sock_pfx (firstn _ (hd [] (split_on 0 raw)))) eqn:E; [|reflexivity].
      apply prefixb_firstn in E. unfold sock_pfx in E. congruence. }
    now rewrite Hp.
  - reflexivity.
Qed.

Definition sock_pairs_of (pid : Z) (fds : list kfd) : flatdict :=
  flat_map (fun f => match ent_pair pid f with Some kv => [kv] | None => [] end) fds.
Definition sock_pairs (p : kproc) : flatdict := sock_pairs_of (p_pid p) (p_fds p).

Lemma get_proc_inodes_ok pid fds :
  forallb wf_kfd fds = true -> get_proc_inodes pid (map to_ent fds) = Val (sock_pairs_of pid fds).
Proof.
  induction fds as [|f r IH]; intros H; [reflexivity|].
  cbn [forallb] in H. apply andb_true_iff in H as [Hf Hr].
  cbn [map get_proc_inodes]. rewrite fd_scan_one_ok by exact Hf. cbn [obind].
  rewrite IH by exact Hr. cbn [obind]. unfold sock_pairs_of. cbn [flat_map].
  destruct (ent_pair pid f); reflexivity.
Qed.

Lemma pairs_of_sock_pairs pid fds ino :
  pairs_of (sock_pairs_of pid fds) ino = map (fun f => (pid, dec_val (f_name f))) (filter (fd_holds ino) fds).
Proof.
  unfold pairs_of. induction fds as [|f r IH]; [reflexivity|].
  unfold sock_pairs_of in *. cbn [flat_map filter]. unfold ent_pair at 1, fd_holds at 1.
  destruct (f_target f) as [i| |]; cbn [app filter fst]; try exact IH.
  destruct (beqb i ino); cbn [map snd]; now rewrite IH.
Qed.

Lemma holders_in_visible p ino :
  p_visible p = true -> holders_in p ino = pairs_of (sock_pairs p) ino.
Proof. intros H. unfold holders_in, sock_pairs. rewrite H. now rewrite pairs_of_sock_pairs. Qed.
Lemma holders_in_hidden p ino : p_visible p = false -> holders_in p ino = [].
Proof. intros H. unfold holders_in. now rewrite H. Qed.

Lemma holders_in_pid p ino pf : In pf (holders_in p ino) -> fst pf = p_pid p.
Proof.
  unfold holders_in. destruct (p_visible p); [|contradiction].
  intros H. apply in_map_iff in H as [f [<- _]]. reflexivity.
Qed.

(* ------------------------------------------------------------ all processes *)
Definition dicts (ps : list kproc) : list flatdict :=
  flat_map (fun p => if p_visible p then [sock_pairs p] else []) ps.

Lemma get_all_inodes_ok ps :
  forallb wf_kproc ps = true -> get_all_inodes (to_procs ps) = Val (dicts ps).
Proof.
  induction ps as [|p r IH]; intros H; [reflexivity|].
  cbn [forallb] in H. apply andb_true_iff in H as [Hp Hr].
  assert (E : to_procs (p :: r) = (p_pid p, to_listing p) :: to_procs r) by reflexivity.
  rewrite E. unfold dicts. cbn [flat_map]. fold (dicts r). unfold to_listing.
  destruct (p_visible p).
  - cbn [get_all_inodes]. unfold wf_kproc in Hp. rewrite get_proc_inodes_ok by exact Hp.
    rewrite IH by exact Hr. reflexivity.
  - cbn [get_all_inodes]. now rewrite IH.
Qed.

Lemma lookup1_not_nil d ino : lookup1 d ino <> Some [].
Proof. unfold lookup1. destruct (pairs_of d ino); discriminate. Qed.

Lemma lookup_all_lk_ok ds : lk_ok (lookup_all ds).
Proof.
  intros ino. induction ds as [|d r IH]; [discriminate|].
  cbn [lookup_all]. destruct (lookup_all r ino) as [l|] eqn:E.
  - exact IH.
  - apply lookup1_not_nil.
Qed.
Lemma lookup1_lk_ok d : lk_ok (lookup1 d).
Proof. intros ino. apply lookup1_not_nil. Qed.

(* the lookup answers with some holders of the socket, or None when nobody visible holds it *)
Lemma lookup_all_cases ps ino :
  (holders ps ino = [] /\ lookup_all (dicts ps) ino = None)
  \/ (exists l, lookup_all (dicts ps) ino = Some l /\ l <> [] /\ incl l (holders ps ino)).
Proof.
  induction ps as [|p r IH]; [left; split; reflexivity|].
  unfold holders, dicts in *. cbn [flat_map]. destruct (p_visible p) eqn:Hv.
  - cbn [app lookup_all]. rewrite (holders_in_visible p ino Hv).
    destruct IH as [[Hh Hl]|[l (Hl & Hne & Hin)]].
    + rewrite Hl, Hh, app_nil_r. unfold lookup1.
      destruct (pairs_of (sock_pairs p) ino) as [|x t] eqn:E.
      * left. split; reflexivity.
      * right. exists (x :: t). repeat split; [discriminate|apply incl_refl].
    + right. exists l. rewrite Hl. repeat split; [exact Hne|]. now apply incl_appr.
  - cbn [app]. rewrite (holders_in_hidden p ino Hv). cbn [app]. exact IH.
Qed.

(* ... and with all of them when at most one process holds it *)
Lemma no_holder_procs r ino :
  filter (fun p => holds p ino) r = [] -> holders r ino = [].
Proof.
  induction r as [|q r IH]; [reflexivity|]. cbn [filter]. unfold holds at 1.
  destruct (holders_in q ino) eqn:E; [|discriminate].
  intros H. unfold holders. cbn [flat_map]. rewrite E. cbn [app]. now apply IH.
Qed.

Lemma lookup_all_unshared ps ino :
  one_holder_proc ps ino = true ->
  lookup_all (dicts ps) ino = match holders ps ino with [] => None | l => Some l end.
Proof.
  unfold one_holder_proc. induction ps as [|p r IH]; intros H; [reflexivity|].
  cbn [filter] in H. unfold holds at 1 in H.
  unfold holders, dicts in *. cbn [flat_map].
  destruct (holders_in p ino) as [|x t] eqn:E.
  - cbn [app]. specialize (IH H). destruct (p_visible p) eqn:Hv.
    + cbn [app lookup_all]. rewrite IH.
      destruct (flat_map (fun p0 => holders_in p0 ino) r); [|reflexivity].
      unfold lookup1. rewrite <- (holders_in_visible p ino Hv), E. reflexivity.
    + cbn [app]. exact IH.
  - assert (Hv : p_visible p = true).
    { destruct (p_visible p) eqn:Hv; [reflexivity|]. rewrite holders_in_hidden in E by exact Hv. discriminate. }
    rewrite Hv. cbn [app lookup_all].
    assert (Hf : filter (fun p0 => holds p0 ino) r = []).
    { cbn [length] in H. destruct (filter (fun p0 => holds p0 ino) r); [reflexivity|]. cbn in H. discriminate. }
    pose proof (no_holder_procs r ino Hf) as Hr. unfold holders in Hr. rewrite Hr, app_nil_r.
    destruct (lookup_all_cases r ino) as [[_ Hl]|[l (Hl & Hne & Hin)]].
    + unfold dicts in Hl. rewrite Hl. unfold lookup1. rewrite <- (holders_in_visible p ino Hv), E. reflexivity.
    + exfalso. unfold holders in Hin. rewrite Hr in Hin. destruct l as [|y l]; [congruence|].
      apply (Hin y). now left.
Qed.

(* the repaired merge keeps every holder *)
Lemma merged_pairs ps ino : flat_map (fun d => pairs_of d ino) (dicts ps) = holders ps ino.
Proof.
  induction ps as [|p r IH]; [reflexivity|].
  unfold holders, dicts in *. cbn [flat_map]. destruct (p_visible p) eqn:Hv.
  - cbn [app flat_map]. rewrite (holders_in_visible p ino Hv). f_equal. exact IH.
  - cbn [app]. rewrite (holders_in_hidden p ino Hv). exact IH.
Qed.
Lemma lookup_merged_holders ps ino :
  lookup_merged (dicts ps) ino = match holders ps ino with [] => None | l => Some l end.
Proof. unfold lookup_merged. now rewrite merged_pairs. Qed.

Lemma lookup_v_lk_ok v ds : lk_ok (lookup_v v ds).
Proof.
  unfold lookup_v. destruct (v_merge v); [|apply lookup_all_lk_ok].
  intros ino. unfold lookup_merged. destruct (flat_map _ ds); discriminate.
Qed.

Lemma lookup_v_cases v ps ino :
  (holders ps ino = [] /\ lookup_v v (dicts ps) ino = None)
  \/ (exists l, lookup_v v (dicts ps) ino = Some l /\ l <> [] /\ incl l (holders ps ino)).
Proof.
  unfold lookup_v. destruct (v_merge v); [|apply lookup_all_cases].
  rewrite lookup_merged_holders. destruct (holders ps ino) as [|h t].
  - left. split; reflexivity.
  - right. exists (h :: t). repeat split; [discriminate|apply incl_refl].
Qed.

Lemma lookup_v_unshared v ps ino :
  v_merge v = true \/ one_holder_proc ps ino = true ->
  lookup_v v (dicts ps) ino = match holders ps ino with [] => None | l => Some l end.
Proof.
  unfold lookup_v. intros [H|H].
  - rewrite H. apply lookup_merged_holders.
  - destruct (v_merge v); [apply lookup_merged_holders|now apply lookup_all_unshared].
Qed.

(* one process *)
Lemma lookup1_proc p ino :
  p_visible p = true ->
  lookup1 (sock_pairs p) ino = match holders_in p ino with [] => None | l => Some l end.
Proof. intros Hv. unfold lookup1. now rewrite <- (holders_in_visible p ino Hv). Qed.
