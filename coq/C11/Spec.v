(* C11 -- what the kernel holds (socket tables keyed by inode, descriptor tables), the bytes it
   prints for them, and what the property says net_connections() must answer.
   Written from the property text and the kernel formats, not from psutil's code:
     net/ipv4/tcp_ipv4.c get_tcp4_sock, net/ipv6/tcp_ipv6.c get_tcp6_sock, net/ipv4/udp.c udp4_format_sock:
       "%4d: %08X:%04X %08X:%04X %02X %08X:%08X %02X:%08lX %08X %5u %8d %lu ..."  (v6: 4 x %08X per address)
       an address word is the network-order 32-bit group read as a HOST integer; the port is host order
     net/unix/af_unix.c unix_seq_show:
       "%pK: %08X %08X %08X %04X %02X %5lu" [ ' ' path ] '\n'    (abstract names start with '@')
     include/net/tcp_states.h: 1 ESTABLISHED .. 11 CLOSING
     proc(5): /proc/<pid>/fd/<n> -> "socket:[<inode>]"
   The only thing imported from the model file is the shape of the answer (row, addr) and of the
   model's input (listing, link_res).  The generated tables appear only in [conn_admits] (what conn_tmap says,
   compared with the documented table by a theorem); the demanded answer never mentions them. *)
From PV Require Export C11.Model.

(* ------------------------------------------------------------ numbers as the kernel prints them *)
Definition hexdig (n : Z) : Z := if n <? 10 then 48 + n else 55 + n.
(* "%0<n>X" of w, for 0 <= w < 16^n *)
Fixpoint hexw (n : nat) (w : Z) : bytes :=
  match n with
  | O => []
  | S k => hexw k (w / 16) ++ [hexdig (w mod 16)]
  end.

(* ------------------------------------------------------------ addresses *)
Definition quad := (Z * Z * Z * Z)%type.          (* four bytes in network order *)
Inductive ipaddr := IP4 (a : quad) | IP6 (a b c d : quad).
Definition quad_bytes (q : quad) : bytes := let '(a, b, c, d) := q in [a; b; c; d].
Definition ip_bytes (ip : ipaddr) : bytes :=
  match ip with
  | IP4 a => quad_bytes a
  | IP6 a b c d => quad_bytes a ++ quad_bytes b ++ quad_bytes c ++ quad_bytes d
  end.
Definition wf_quad (q : quad) : bool :=
  let '(a, b, c, d) := q in wf_byte a && wf_byte b && wf_byte c && wf_byte d.
Definition wf_ip (ip : ipaddr) : bool :=
  match ip with
  | IP4 a => wf_quad a
  | IP6 a b c d => wf_quad a && wf_quad b && wf_quad c && wf_quad d
  end.
Definition is_v6 (ip : ipaddr) : bool := match ip with IP4 _ => false | IP6 _ _ _ _ => true end.
(* the __be32 group read by a little- / big-endian CPU *)
Definition host_word (le : bool) (q : quad) : Z :=
  let '(a, b, c, d) := q in
  if le then a + 256 * b + 65536 * c + 16777216 * d
  else d + 256 * c + 65536 * b + 16777216 * a.
Definition k_ip (le : bool) (ip : ipaddr) : bytes :=
  match ip with
  | IP4 a => hexw 8 (host_word le a)
  | IP6 a b c d => hexw 8 (host_word le a) ++ hexw 8 (host_word le b)
                   ++ hexw 8 (host_word le c) ++ hexw 8 (host_word le d)
  end.
Definition k_addr (le : bool) (ip : ipaddr) (port : Z) : bytes := k_ip le ip ++ 58 :: hexw 4 port.
Definition wf_port (p : Z) : bool := (0 <=? p) && (p <? 65536).

(* the address the property demands: textual IP (here: its packed bytes) and port; empty when port = 0 *)
Definition spec_addr (ip : ipaddr) (port : Z) : addr :=
  if port =? 0 then ANone else AInet (ip_bytes ip) port.
(* ... and what decode_address gives on a host described by the oracle: an IPv6 address that must be formatted
   (port <> 0) cannot be when inet_ntop lacks IPv6: ValueError, or _Ipv6UnsupportedError when supports_ipv6()
   says so too (psutil issue 623) *)
Definition addr_res (o : ipv6_oracle) (ip : ipaddr) (port : Z) : outcome dres :=
  if port =? 0 then Val (DAddr ANone)
  else if is_v6 ip && negb (o_ntop6 o) then (if o_supported o then Exc ValueError else Val DUnsupported)
  else Val (DAddr (AInet (ip_bytes ip) port)).

(* ------------------------------------------------------------ a line of tokens *)
(* every token but the last is followed by one space plus pad(i) more *)
Fixpoint k_seq (pad : nat -> nat) (i : nat) (toks : list bytes) (last : bytes) : bytes :=
  match toks with
  | [] => last
  | t :: r => t ++ repeat 32 (S (pad i)) ++ k_seq pad (S i) r last
  end.

(* ------------------------------------------------------------ inet sockets *)
Record isock := {
  s_lead : nat;             (* leading blanks of "%4d:" *)
  s_pad : nat -> nat;       (* extra blanks after token i ("%5u", "%8d" padding) *)
  s_sl : bytes;             (* "0:" *)
  s_lip : ipaddr; s_lport : Z;
  s_rip : ipaddr; s_rport : Z;
  s_st : Z;                 (* sk_state *)
  s_mid : list bytes;       (* tx:rx  tr:when  retrnsmt  uid  timeout  -- five tokens *)
  s_inode : bytes;          (* decimal *)
  s_tail : bytes }.         (* rest of the line: empty, or blank + further fields / padding *)

Definition wf_tail (t : bytes) : bool :=
  negb (contains 10 t) && match t with [] => true | c :: _ => is_ws c end.
Definition wf_isock (v6 : bool) (s : isock) : bool :=
  tok_ok (s_sl s) && wf_ip (s_lip s) && wf_ip (s_rip s)
  && Bool.eqb (is_v6 (s_lip s)) v6 && Bool.eqb (is_v6 (s_rip s)) v6
  && wf_port (s_lport s) && wf_port (s_rport s)
  && (0 <=? s_st s) && (s_st s <? 256)
  && (length (s_mid s) =? 5)%nat && forallb tok_ok (s_mid s)
  && is_dec (s_inode s) && wf_tail (s_tail s).
Definition tcp_state_ok (s : isock) : bool := (1 <=? s_st s) && (s_st s <=? 11).

Definition k_iline (le : bool) (s : isock) : bytes :=
  repeat 32 (s_lead s)
  ++ k_seq (s_pad s) 0
       ([s_sl s; k_addr le (s_lip s) (s_lport s); k_addr le (s_rip s) (s_rport s); hexw 2 (s_st s)] ++ s_mid s)
       (s_inode s ++ s_tail s ++ [10]).

(* tcp4_seq_show / udp4_seq_show pad every line, the header included, to 149 / 127 characters (seq_setwidth, seq_pad);
   the IPv6 tables are not padded (validated against the running kernel by the live case) *)
Definition hdr_tcp : bytes :=
  bs "  sl  local_address rem_address   st tx_queue rx_queue tr tm->when retrnsmt   uid  timeout inode" ++ repeat 32 53.
Definition hdr_tcp6 : bytes :=
  bs "  sl  local_address                         remote_address                        st tx_queue rx_queue tr tm->when retrnsmt   uid  timeout inode".
Definition hdr_udp : bytes :=
  bs "   sl  local_address rem_address   st tx_queue rx_queue tr tm->when retrnsmt   uid  timeout inode ref pointer drops"
  ++ repeat 32 12.
Definition hdr_udp6 : bytes :=
  bs "  sl  local_address                         remote_address                        st tx_queue rx_queue tr tm->when retrnsmt   uid  timeout inode ref pointer drops".
Definition hdr_unix : bytes := bs "Num       RefCount Protocol Flags    Type St Inode Path".

Definition k_ifile (le : bool) (hdr : bytes) (socks : list isock) : bytes :=
  hdr ++ 10 :: concat (map (k_iline le) socks).

(* include/net/tcp_states.h *)
Definition spec_tcp_state (st : Z) : option bytes :=
  if st =? 1 then Some (bs "ESTABLISHED") else if st =? 2 then Some (bs "SYN_SENT")
  else if st =? 3 then Some (bs "SYN_RECV") else if st =? 4 then Some (bs "FIN_WAIT1")
  else if st =? 5 then Some (bs "FIN_WAIT2") else if st =? 6 then Some (bs "TIME_WAIT")
  else if st =? 7 then Some (bs "CLOSE") else if st =? 8 then Some (bs "CLOSE_WAIT")
  else if st =? 9 then Some (bs "LAST_ACK") else if st =? 10 then Some (bs "LISTEN")
  else if st =? 11 then Some (bs "CLOSING") else None.
Definition spec_none : bytes := bs "NONE".

(* ------------------------------------------------------------ UNIX sockets *)
(* sk_type: the three types AF_UNIX has, and -- to state the documented fallback -- any other one-digit value *)
Inductive utype := UStream | UDgram | USeqpacket | UOther (n : Z).
Definition utype_num (t : utype) : Z := match t with UStream => 1 | UDgram => 2 | USeqpacket => 5 | UOther n => n end.
Definition wf_utype (t : utype) : bool :=
  match t with UOther n => (0 <=? n) && (n <=? 9) && negb ((n =? 1) || (n =? 2) || (n =? 5)) | _ => true end.
(* the members of socket.SocketKind on Linux: SOCK_STREAM 1, SOCK_DGRAM 2, SOCK_RAW 3, SOCK_RDM 4, SOCK_SEQPACKET 5
   (and the flags SOCK_NONBLOCK, SOCK_CLOEXEC); AF_UNIX 1, AF_INET 2, AF_INET6 10 are members of socket.AddressFamily.
   The type of a row IS the member when there is one (SOCK_SEQPACKET, not the bare 5), else the plain number *)
Definition spec_sock_kind (n : Z) : tagged :=
  if (1 <=? n) && (n <=? 5) || (n =? 2048) || (n =? 524288) then TEnum n else TInt n.

Record usock := {
  u_pad : nat -> nat;
  u_num : bytes;            (* "%pK:" *)
  u_ref : bytes; u_proto : bytes; u_flags : bytes;
  u_type : utype;           (* printed "%04X" *)
  u_st : bytes;
  u_inode : bytes;
  u_path : option bytes }.  (* bound name as printed ('@' for the NULs of an abstract name); None = unbound *)

Definition k_uline (u : usock) : bytes :=
  k_seq (u_pad u) 0 [u_num u; u_ref u; u_proto u; u_flags u; hexw 4 (utype_num (u_type u)); u_st u]
        (u_inode u ++ match u_path u with None => [10] | Some p => 32 :: p ++ [10] end).
Definition k_ufile (socks : list usock) : bytes := hdr_unix ++ 10 :: concat (map k_uline socks).

(* lines that are not socket records (issue 766: the tail of a name that contained a newline): no blank,
   fewer than 7 white-space separated fields *)
Inductive uitem := USock (u : usock) | UJunk (j : bytes).
Definition junk_ok (j : bytes) : bool :=
  negb (contains 32 j) && negb (contains 10 j) && Nat.ltb (length (split_ws (j ++ [10]))) 7.
Definition k_uitem (i : uitem) : bytes := match i with USock u => k_uline u | UJunk j => j ++ [10] end.
Definition k_ufile_items (items : list uitem) : bytes := hdr_unix ++ 10 :: concat (map k_uitem items).
Definition socks_of (items : list uitem) : list usock :=
  flat_map (fun i => match i with USock u => [u] | UJunk _ => [] end) items.

Definition path_of (u : usock) : bytes := match u_path u with Some p => p | None => [] end.
(* the printed name: any bytes except NUL (unix_seq_show prints '@' for a NUL) and LF.  The kernel prints an LF
   of a bound name raw, so such a name splits its record in two lines: the one-line-per-socket format cannot
   carry it -- that class is excluded here (see C11_unix_name_with_lf_splits for what then happens) *)
Definition wf_usock (u : usock) : bool :=
  tok_ok (u_num u) && tok_ok (u_ref u) && tok_ok (u_proto u) && tok_ok (u_flags u) && tok_ok (u_st u)
  && is_dec (u_inode u) && negb (contains 10 (path_of u)) && negb (contains 0 (path_of u)) && wf_utype (u_type u).
(* the fixed-format part of a record: everything before the name *)
Definition uline_head (u : usock) : bytes :=
  k_seq (u_pad u) 0 [u_num u; u_ref u; u_proto u; u_flags u; hexw 4 (utype_num (u_type u)); u_st u]
        (u_inode u ++ match u_path u with None => [10] | Some _ => [32] end).
Definition uitem_ok (i : uitem) : bool :=
  match i with USock u => wf_usock u | UJunk j => junk_ok j end.
(* class excluded from the main theorem (finding): the bound name starts with white space *)
Definition path_lead_ws (u : usock) : bool :=
  match path_of u with c :: _ => is_ws c | [] => false end.

(* ------------------------------------------------------------ descriptor tables *)
Inductive ktarget :=
| TSock (ino : bytes)                     (* "socket:[<ino>]" *)
| TOther (raw : bytes) (exists_cut : bool) (* anything else readlink(2) can return *)
| TClosed.                                (* closed between listdir and readlink *)
Record kfd := { f_name : bytes; f_target : ktarget }.
Record kproc := { p_pid : Z; p_visible : bool; p_fds : list kfd }.

Definition k_link (ino : bytes) : bytes := bs "socket:[" ++ ino ++ [93].
Definition wf_kfd (f : kfd) : bool :=
  is_dec (f_name f)
  && match f_target f with
     | TSock ino => is_dec ino
     | TOther raw _ => negb (prefixb (bs "socket:[") (hd [] (split_on 0 raw)))
     | TClosed => true
     end.
Definition wf_kproc (p : kproc) : bool := forallb wf_kfd (p_fds p).

Definition to_ent (f : kfd) : bytes * link_res :=
  (f_name f, match f_target f with
             | TSock ino => LTarget (k_link ino) false
             | TOther raw ex => LTarget raw ex
             | TClosed => LENOENT
             end).
Definition to_listing (p : kproc) : listing :=
  if p_visible p then LsOk (map to_ent (p_fds p)) else LsDenied.
Definition to_procs (ps : list kproc) : list (Z * listing) := map (fun p => (p_pid p, to_listing p)) ps.

(* who holds socket [ino]: (pid, fd) for every descriptor that is this socket, visible tables only *)
Definition fd_holds (ino : bytes) (f : kfd) : bool :=
  match f_target f with TSock i => beqb i ino | _ => false end.
Definition holders_in (p : kproc) (ino : bytes) : list (Z * Z) :=
  if p_visible p
  then map (fun f => (p_pid p, dec_val (f_name f))) (filter (fd_holds ino) (p_fds p))
  else [].
Definition holders (ps : list kproc) (ino : bytes) : list (Z * Z) :=
  flat_map (fun p => holders_in p ino) ps.

(* ------------------------------------------------------------ the kernel state *)
(* a table without sockets as procfs emulations / sandboxes export it: the file exists but is degenerate *)
Inductive degenerate :=
| DEmpty          (* 0 bytes: not even the header line *)
| DHeaderNoNl     (* the header without its newline *)
| DNewline.       (* a lone newline *)
Definition k_deg_file (d : degenerate) (hdr : bytes) : bytes :=
  match d with DEmpty => [] | DHeaderNoNl => hdr | DNewline => [10] end.
(* the file of a table: the degenerate form when the state says so, else header + records *)
Definition k_table_file (deg : option degenerate) (hdr body : bytes) : bytes :=
  match deg with Some d => k_deg_file d hdr | None => body end.

Record kstate := {
  k_tcp4 : list isock; k_tcp6 : option (list isock);    (* None: no IPv6, the file is absent *)
  k_udp4 : list isock; k_udp6 : option (list isock);
  k_unix : list usock;
  k_procs : list kproc;
  k_deg : bytes -> option degenerate }.                  (* file name -> degenerate form (only for tables without sockets) *)
Definition is_nil {A} (l : list A) : bool := match l with [] => true | _ => false end.

Definition opt_list {A} (o : option (list A)) : list A := match o with Some l => l | None => [] end.

(* a degenerate file stands for a table that exists and holds no socket *)
Definition deg_ok (st : kstate) : bool :=
  (match k_deg st (bs "tcp") with Some _ => is_nil (k_tcp4 st) | None => true end)
  && (match k_deg st (bs "tcp6") with Some _ => match k_tcp6 st with Some [] => true | _ => false end | None => true end)
  && (match k_deg st (bs "udp") with Some _ => is_nil (k_udp4 st) | None => true end)
  && (match k_deg st (bs "udp6") with Some _ => match k_udp6 st with Some [] => true | _ => false end | None => true end)
  && (match k_deg st (bs "unix") with Some _ => is_nil (k_unix st) | None => true end).

Definition wf_state (st : kstate) : bool :=
  forallb (wf_isock false) (k_tcp4 st) && forallb tcp_state_ok (k_tcp4 st)
  && forallb (wf_isock true) (opt_list (k_tcp6 st)) && forallb tcp_state_ok (opt_list (k_tcp6 st))
  && forallb (wf_isock false) (k_udp4 st) && forallb (wf_isock true) (opt_list (k_udp6 st))
  && forallb wf_usock (k_unix st) && forallb wf_kproc (k_procs st)
  && deg_ok st.

(* /proc/net/<name> *)
Definition k_files (le : bool) (st : kstate) (name : bytes) : option bytes :=
  if beqb name (bs "tcp") then Some (k_table_file (k_deg st (bs "tcp")) hdr_tcp (k_ifile le hdr_tcp (k_tcp4 st)))
  else if beqb name (bs "tcp6")
       then option_map (fun l => k_table_file (k_deg st (bs "tcp6")) hdr_tcp6 (k_ifile le hdr_tcp6 l)) (k_tcp6 st)
  else if beqb name (bs "udp") then Some (k_table_file (k_deg st (bs "udp")) hdr_udp (k_ifile le hdr_udp (k_udp4 st)))
  else if beqb name (bs "udp6")
       then option_map (fun l => k_table_file (k_deg st (bs "udp6")) hdr_udp6 (k_ifile le hdr_udp6 l)) (k_udp6 st)
  else if beqb name (bs "unix") then Some (k_table_file (k_deg st (bs "unix")) hdr_unix (k_ufile (k_unix st)))
  else None.
(* the printed tcp/udp files hold no character that only text-mode reading treats as white space / newline, and
   neither does the fixed-format part of the unix records (the kernel prints hex digits, digits, blanks and ':'
   there); the socket NAMES are not constrained: CR, \x1c-\x1f, Unicode blanks ... are allowed in them *)
Definition unix_heads_safe (st : kstate) : bool := forallb (fun u => str_safe (uline_head u)) (k_unix st).
Definition files_text_safe (le : bool) (st : kstate) : bool :=
  forallb (fun n => match k_files le st n with Some c => text_safe c | None => true end)
          [bs "tcp"; bs "tcp6"; bs "udp"; bs "udp6"]
  && unix_heads_safe st.
(* what an older variant of the code needs of the unix file in addition: its own line guard, and no CR at all
   while the file was read with universal newlines *)
Definition unix_guard (v : variant) (st : kstate) : bool :=
  forallb (fun u => line_guard v (k_uline u)) (k_unix st)
  && (v_lf v || negb (contains 13 (k_ufile (k_unix st)))).

(* ------------------------------------------------------------ the demanded answer *)
(* kind -> does it cover (family, type)?  The documented table:
   inet = IPv4 and IPv6; inet4; inet6; tcp; tcp4; tcp6; udp; udp4; udp6;
   unix = UNIX sockets (every type); all = everything.
   families: 1 = AF_UNIX, 2 = AF_INET, 10 = AF_INET6;  types: 1 = STREAM (TCP), 2 = DGRAM (UDP), 5 = SEQPACKET *)
Definition spec_admits (kind : bytes) (fam ty : Z) : bool :=
  let v4 := fam =? 2 in let v6 := fam =? 10 in let ux := fam =? 1 in
  let tcp := ty =? 1 in let udp := ty =? 2 in
  if beqb kind (bs "all") then true
  else if beqb kind (bs "inet") then v4 || v6
  else if beqb kind (bs "inet4") then v4
  else if beqb kind (bs "inet6") then v6
  else if beqb kind (bs "tcp") then (v4 || v6) && tcp
  else if beqb kind (bs "tcp4") then v4 && tcp
  else if beqb kind (bs "tcp6") then v6 && tcp
  else if beqb kind (bs "udp") then (v4 || v6) && udp
  else if beqb kind (bs "udp4") then v4 && udp
  else if beqb kind (bs "udp6") then v6 && udp
  else if beqb kind (bs "unix") then ux
  else false.
Definition kinds : list bytes :=
  [bs "all"; bs "inet"; bs "inet4"; bs "inet6"; bs "tcp"; bs "tcp4"; bs "tcp6"; bs "udp"; bs "udp4"; bs "udp6"; bs "unix"].

(* the five proc files in the order the documented table lists them, with (family, type) *)
Definition all5 : list proto :=
  [(bs "tcp", 2, Some 1); (bs "tcp6", 10, Some 1); (bs "udp", 2, Some 2); (bs "udp6", 10, Some 2); (bs "unix", 1, None)].
(* is the file's class covered by the kind?  (the unix file has no type: every UNIX type) *)
Definition proto_admitted (kind : bytes) (p : proto) : bool :=
  match snd p with Some t => spec_admits kind (snd (fst p)) t | None => spec_admits kind (snd (fst p)) 1 end.


(* what _common.conn_tmap (families, types) says about a kind *)
Definition zmem (x : Z) (l : list Z) : bool := existsb (Z.eqb x) l.
Definition conn_admits (k : bytes) (fam ty : Z) : bool :=
  match assoc k gen_conn_tmap with
  | Some (fams, tys) => zmem fam fams && zmem ty tys
  | None => false
  end.

(* one demanded row; the owner may be any of [e_owners] (a TCP/UDP socket held through several
   descriptors is reported once, with one of its holders) *)
Record entry := { e_family : tagged; e_type : tagged; e_laddr : addr; e_raddr : addr; e_status : bytes;
                  e_owners : list (option Z * Z) }.

Definition row_ok (r : row) (e : entry) : Prop :=
  r_family r = e_family e /\ r_type r = e_type e /\ r_laddr r = e_laddr e /\ r_raddr r = e_raddr e
  /\ r_status r = e_status e /\ In (r_pid r, r_fd r) (e_owners e).

(* [own ino] = the admissible owners of socket [ino]; [] = the socket is not to be reported *)
Definition inet_entry (own : bytes -> list (option Z * Z)) (fam ty : Z) (s : isock) : list entry :=
  match own (s_inode s) with
  | [] => []
  | os => [{| e_family := TEnum fam; e_type := TEnum ty;
              e_laddr := spec_addr (s_lip s) (s_lport s); e_raddr := spec_addr (s_rip s) (s_rport s);
              e_status := if ty =? 1 then match spec_tcp_state (s_st s) with Some n => n | None => [] end
                          else spec_none;
              e_owners := os |}]
  end.
(* UNIX: one row per holder *)
Definition unix_entry (own : bytes -> list (option Z * Z)) (u : usock) : list entry :=
  map (fun o => {| e_family := TEnum 1; e_type := spec_sock_kind (utype_num (u_type u));
                   e_laddr := APath (path_of u); e_raddr := APath []; e_status := spec_none;
                   e_owners := [o] |}) (own (u_inode u)).

Definition on (b : bool) {A} (l : list A) : list A := if b then l else [].

(* [own_i] / [own_u]: admissible owners of a TCP/UDP socket / holders of a UNIX socket *)
Definition spec_entries2 (own_i own_u : bytes -> list (option Z * Z)) (kind : bytes) (st : kstate) : list entry :=
  on (spec_admits kind 2 1) (flat_map (inet_entry own_i 2 1) (k_tcp4 st))
  ++ on (spec_admits kind 10 1) (flat_map (inet_entry own_i 10 1) (opt_list (k_tcp6 st)))
  ++ on (spec_admits kind 2 2) (flat_map (inet_entry own_i 2 2) (k_udp4 st))
  ++ on (spec_admits kind 10 2) (flat_map (inet_entry own_i 10 2) (opt_list (k_udp6 st)))
  ++ flat_map (fun u => on (spec_admits kind 1 (utype_num (u_type u))) (unix_entry own_u u)) (k_unix st).
Definition spec_entries (own : bytes -> list (option Z * Z)) (kind : bytes) (st : kstate) : list entry :=
  spec_entries2 own own kind st.

(* system-wide: every socket; holder (pid, fd), or (None, -1) when no holder is visible *)
Definition sys_owners (ps : list kproc) (ino : bytes) : list (option Z * Z) :=
  match holders ps ino with
  | [] => [(None, -1)]
  | l => map (fun pf => (Some (fst pf), snd pf)) l
  end.
(* per-process: only the sockets this process holds *)
Definition proc_owners (p : kproc) (ino : bytes) : list (option Z * Z) :=
  map (fun pf => (Some (fst pf), snd pf)) (holders_in p ino).

(* a host without IPv6 (inet_ntop cannot format it, supports_ipv6() = False): psutil leaves out the IPv6 sockets
   whose addresses would have to be formatted, i.e. those with a non-zero port; everything else is unchanged *)
Definition ports_zero (s : isock) : bool := (s_lport s =? 0) && (s_rport s =? 0).
Definition restrict6 (o : ipv6_oracle) (st : kstate) : kstate :=
  if o_ntop6 o then st
  else {| k_tcp4 := k_tcp4 st; k_tcp6 := option_map (filter ports_zero) (k_tcp6 st);
          k_udp4 := k_udp4 st; k_udp6 := option_map (filter ports_zero) (k_udp6 st);
          k_unix := k_unix st; k_procs := k_procs st; k_deg := k_deg st |}.

(* the /proc/net tables a call reads: those of the kind's classes that exist, each once, in this order *)
Definition spec_log (kind : bytes) (st : kstate) : list bytes :=
  on (spec_admits kind 2 1) [bs "tcp"]
  ++ on (spec_admits kind 10 1) (match k_tcp6 st with Some _ => [bs "tcp6"] | None => [] end)
  ++ on (spec_admits kind 2 2) [bs "udp"]
  ++ on (spec_admits kind 10 2) (match k_udp6 st with Some _ => [bs "udp6"] | None => [] end)
  ++ on (spec_admits kind 1 1) [bs "unix"].

(* a process that holds no socket is answered at once: nothing is read *)
Definition holds_no_socket (p : kproc) : bool :=
  forallb (fun f => match f_target f with TSock _ => false | _ => true end) (p_fds p).
Definition spec_proc_log (p : kproc) (kind : bytes) (st : kstate) : list bytes :=
  if holds_no_socket p then [] else spec_log kind st.

Definition spec_sys (kind : bytes) (st : kstate) : list entry :=
  spec_entries (sys_owners (k_procs st)) kind st.
(* the sharper answer the current code gives: a TCP/UDP socket is reported with its FIRST holder in the
   order the process and descriptor tables are scanned (not demanded by the property; stated as its own theorem) *)
Definition spec_sys_first (kind : bytes) (st : kstate) : list entry :=
  spec_entries2 (fun ino => firstn 1 (sys_owners (k_procs st) ino)) (sys_owners (k_procs st)) kind st.
Definition spec_proc (p : kproc) (kind : bytes) (st : kstate) : list entry :=
  spec_entries (proc_owners p) kind st.

(* classes excluded from the main theorems (findings) *)
(* a UNIX socket held by two different processes: [one_holder_proc] = at most one process table holds it *)
Definition holds (p : kproc) (ino : bytes) : bool :=
  match holders_in p ino with [] => false | _ => true end.
Definition one_holder_proc (ps : list kproc) (ino : bytes) : bool :=
  (length (filter (fun p => holds p ino) ps) <=? 1)%nat.
Definition unix_unshared (st : kstate) : bool :=
  forallb (fun u => one_holder_proc (k_procs st) (u_inode u)) (k_unix st).
Definition no_lead_ws (st : kstate) : bool := forallb (fun u => negb (path_lead_ws u)) (k_unix st).
Definition covers_unix (kind : bytes) : bool := spec_admits kind 1 1.
