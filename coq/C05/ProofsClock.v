(* C05 -- the clock: btime changes, the BOOT_TIME cache, the caller's create_time() cache. *)
From PV Require Export C05.ProofsVanish.

Definition set_ctime (o : pobj) (c : option Z) : pobj :=
  {| o_pid := o_pid o; o_ident := o_ident o; o_ctime := c; o_known := o_known o |}.

(* ------------------------------------------------------------ with the repair (age tests on start
   times since boot) nothing depends on the create_time() cache, hence on the clock *)
Section Mono.
  Variable fx : fixes.
  Hypothesis M : fx_mono fx = true.
  Hypothesis N : fx_ident_some fx = true.     (* the test is "is not None": tick 0 is a value *)

  Lemma caller_start_known : forall t o, o_known o = true -> caller_start fx t o = Val (o_ident o).
  Proof. intros t o K. unfold caller_start, ident_opt. rewrite M, K, N. reflexivity. Qed.

  Lemma caller_start_set : forall t o c, o_known o = true -> caller_start fx t (set_ctime o c) = caller_start fx t o.
  Proof. intros t o c K. rewrite (caller_start_known t o K). apply (caller_start_known t (set_ctime o c)). exact K. Qed.

  Lemma child_ok_set : forall t gone o c q, o_known o = true ->
    child_ok fx t gone (set_ctime o c) q = child_ok fx t gone o q.
  Proof. intros t gone o c q K. unfold child_ok. rewrite (caller_start_set t o c K). reflexivity. Qed.

  Lemma okkids_set : forall t gone o c p, o_known o = true -> okkids fx t gone (set_ctime o c) p = okkids fx t gone o p.
  Proof.
    intros t gone o c p K. unfold okkids. apply filter_ext. intros q. rewrite (child_ok_set t gone o c q K). reflexivity.
  Qed.

  Lemma walk_set : forall t gone o c, o_known o = true -> forall fuel stack seen ret,
    walk fx t gone (set_ctime o c) fuel stack seen ret = walk fx t gone o fuel stack seen ret.
  Proof.
    intros t gone o c K. induction fuel as [|f IH]; intros stack seen ret; destruct stack as [|p st]; try reflexivity.
    cbn [walk]. rewrite (okkids_set t gone o c p K). destruct (memz p seen); apply IH.
  Qed.

  Lemma parent_set : forall t g cache o c, o_known o = true -> parent fx t g cache (set_ctime o c) = parent fx t g cache o.
  Proof. intros t g cache o c K. unfold parent. rewrite (caller_start_set t o c K). reflexivity. Qed.

  Theorem clock_invariance : forall t gone goneb cache fuel o c, o_known o = true ->
    children_direct fx t gone (set_ctime o c) = children_direct fx t gone o /\
    children_rec fx fuel t gone (set_ctime o c) = children_rec fx fuel t gone o /\
    parent fx t gone cache (set_ctime o c) = parent fx t gone cache o /\
    parents fx fuel t gone goneb cache (set_ctime o c) = parents fx fuel t gone goneb cache o.
  Proof.
    intros t gone goneb cache fuel o c K. repeat split.
    - unfold children_direct. rewrite (okkids_set t gone o c _ K). reflexivity.
    - unfold children_rec. rewrite (walk_set t gone o c K). reflexivity.
    - apply parent_set. exact K.
    - unfold parents. rewrite (parent_set t gone cache o c K). reflexivity.
  Qed.
End Mono.

Lemma clock_obj_shape : forall pid ident k0 evs,
  exists c, clock_obj pid ident k0 evs = set_ctime {| o_pid := pid; o_ident := ident; o_ctime := None; o_known := true |} c.
Proof.
  intros pid ident k0 evs. unfold clock_obj. destruct (run_clock ident k0 evs) as [k c].
  eexists. reflexivity.
Qed.

(* whatever the clock did (steps of btime, boot_time() calls, create_time() calls on the
   caller), before or between calls: the four answers are the same *)
Theorem btime_invariance : forall fx, fx_mono fx = true -> fx_ident_some fx = true ->
  forall t gone goneb cache fuel pid ident k0 evs k0' evs',
    let o := clock_obj pid ident k0 evs in
    let o' := clock_obj pid ident k0' evs' in
    children_direct fx t gone o = children_direct fx t gone o' /\
    children_rec fx fuel t gone o = children_rec fx fuel t gone o' /\
    parent fx t gone cache o = parent fx t gone cache o' /\
    parents fx fuel t gone goneb cache o = parents fx fuel t gone goneb cache o'.
Proof.
  intros fx M N t gone goneb cache fuel pid ident k0 evs k0' evs' o o'.
  destruct (clock_obj_shape pid ident k0 evs) as [c E]. destruct (clock_obj_shape pid ident k0' evs') as [c' E'].
  subst o o'. rewrite E, E'.
  destruct (clock_invariance fx M N t gone goneb cache fuel {| o_pid := pid; o_ident := ident; o_ctime := None; o_known := true |} c eq_refl) as [A1 [A2 [A3 A4]]].
  destruct (clock_invariance fx M N t gone goneb cache fuel {| o_pid := pid; o_ident := ident; o_ctime := None; o_known := true |} c' eq_refl) as [B1 [B2 [B3 B4]]].
  repeat split; congruence.
Qed.

(* ------------------------------------------------------------ ... and the answers are the demanded
   ones for every live caller, whatever its create_time() cache holds *)
Lemma alive_norm : forall t o, alive_b t (set_ctime o None) = live_b t o.
Proof.
  intros t o. unfold alive_b, live_b, set_ctime. cbn [o_pid o_ident o_ctime].
  destruct (lookup t (o_pid o)); [apply andb_true_r | reflexivity].
Qed.

Lemma live_known : forall t o, live_b t o = true -> o_known o = true.
Proof.
  intros t o H. unfold live_b in H. destruct (lookup t (o_pid o)); [|discriminate].
  apply andb_true_iff in H. destruct H as [H _]. exact H.
Qed.

Section MonoSpec.
  Variable fx : fixes.
  Hypothesis M : fx_mono fx = true.
  Hypothesis N : fx_ident_some fx = true.
  Hypothesis S1 : fx_skip_self fx = true.

  Theorem children_direct_mono : forall t gone o, wf_table t = true -> live_b t o = true ->
    children_direct fx t gone o = Val (spec_children t gone (o_pid o) (o_ident o)).
  Proof.
    intros t gone o W Lv. destruct (clock_invariance fx M N t gone [] None O o None (live_known t o Lv)) as [E _]. rewrite <- E.
    assert (A : alive_b t (set_ctime o None) = true) by (rewrite alive_norm; exact Lv).
    destruct (alive_facts _ _ A) as [R _].
    unfold children_direct. rewrite R. cbn [obind]. f_equal.
    rewrite (okkids_list fx t gone _ _ W A). unfold spec_children. cbn [set_ctime o_pid o_ident]. f_equal.
    apply filter_ext_in. intros e He. unfold not_self. rewrite S1. cbn [o_pid].
    destruct (kp_ppid e =? o_pid o); reflexivity.
  Qed.

  Theorem children_rec_mono : forall t gone o, wf_table t = true -> live_b t o = true ->
    exists l, children_rec fx (S (length t)) t gone o = Val (Some l) /\ NoDup l /\
              forall q, In q l <-> (desc t gone (o_pid o) (o_ident o) q /\ q <> o_pid o).
  Proof.
    intros t gone o W Lv. destruct (clock_invariance fx M N t gone [] None (S (length t)) o None (live_known t o Lv)) as [_ [E _]].
    rewrite <- E.
    assert (A : alive_b t (set_ctime o None) = true) by (rewrite alive_norm; exact Lv).
    destruct (alive_facts _ _ A) as [R _].
    destruct (children_walk_terminates fx t gone (set_ctime o None) (wf_nodup t W)) as [l [Wk [ND Rc]]].
    exists l. unfold children_rec. rewrite R. cbn [obind]. rewrite Wk. split; [reflexivity|]. split; [exact ND|].
    intros q. rewrite Rc. apply (reach_desc_skip fx t gone (set_ctime o None) q S1 W A).
  Qed.

  Theorem parent_mono : forall t gone cache o, wf_table t = true -> live_b t o = true ->
    cache_fresh_b t cache = true ->
    parent fx t gone cache o = Val (spec_parent_v t gone (o_pid o) (o_ident o)).
  Proof.
    intros t gone cache o W Lv F. destruct (clock_invariance fx M N t gone [] cache O o None (live_known t o Lv)) as [_ [_ [E _]]].
    rewrite <- E.
    assert (A : alive_b t (set_ctime o None) = true) by (rewrite alive_norm; exact Lv).
    apply (parent_spec_v fx t gone cache (set_ctime o None) W A F).
  Qed.

  Theorem parents_mono : forall t gone goneb cache o,
    fx_parents_seen fx = true -> fx_parents_nsp fx = true ->
    wf_table t = true -> live_b t o = true -> cache_fresh_b t cache = true ->
    (exists l, parents fx (S (length t)) t gone goneb cache o = Val (Some l)) /\
    (forall l fuel, memz (o_pid o) goneb = false -> chain_v t gone goneb (o_pid o) l -> (length l <= fuel)%nat ->
                    parents fx fuel t gone goneb cache o = Val (Some l)).
  Proof.
    intros t gone goneb cache o F1 F2 W Lv F.
    assert (A : alive_b t (set_ctime o None) = true) by (rewrite alive_norm; exact Lv).
    split.
    - destruct (clock_invariance fx M N t gone goneb cache (S (length t)) o None (live_known t o Lv)) as [_ [_ [_ E]]]. rewrite <- E.
      apply (parents_vanish_total fx t gone goneb cache (set_ctime o None) F1 F2 W A F).
    - intros l fuel Ng Ch B. destruct (clock_invariance fx M N t gone goneb cache fuel o None (live_known t o Lv)) as [_ [_ [_ E]]].
      rewrite <- E. apply (parents_chain_v_fx fx t gone goneb cache (set_ctime o None) l fuel F2 W A F Ng Ch B).
  Qed.
End MonoSpec.

(* ------------------------------------------------------------ the code before the repair *)
(* as long as psutil.boot_time() is not called, steps of btime change nothing: the cached
   create_time() and every fresh read use the same BOOT_TIME cache *)
Lemma run_clock_inv : forall ident evs k c, ~ In CallBootTime evs ->
  (forall w, c = Some w -> exists b, k_cache k = Some b /\ w = ident + b) ->
  forall k' c', fold_left (cstep ident) evs (k, c) = (k', c') ->
  forall w, c' = Some w -> exists b, k_cache k' = Some b /\ w = ident + b.
Proof.
  intros ident. induction evs as [|e evs IH]; intros k c Nb Inv k' c' H w Hw.
  - cbn [fold_left] in H. inversion H; subst. apply Inv. reflexivity.
  - cbn [fold_left] in H. assert (Nb' : ~ In CallBootTime evs) by (intros X; apply Nb; right; exact X).
    destruct e as [b | |].
    + cbn [cstep] in H. apply (IH _ _ Nb') with (k' := k') (c' := c') (w := w) in H; [exact H | | exact Hw].
      intros w0 Hw0. cbn [k_cache]. apply Inv. exact Hw0.
    + exfalso. apply Nb. left. reflexivity.
    + cbn [cstep] in H. destruct c as [w1|].
      * apply (IH _ _ Nb') with (k' := k') (c' := c') (w := w) in H; [exact H | exact Inv | exact Hw].
      * apply (IH _ _ Nb') with (k' := k') (c' := c') (w := w) in H; [exact H | | exact Hw].
        intros w0 Hw0. inversion Hw0; subst. cbn [k_cache]. eexists. split; reflexivity.
Qed.

Theorem clock_no_refresh : forall t pid ident k0 evs, ~ In CallBootTime evs ->
  alive_b t (clock_obj pid ident k0 evs) = live_b t (clock_obj pid ident k0 evs).
Proof.
  intros t pid ident k0 evs Nb. unfold clock_obj, run_clock.
  destruct (fold_left (cstep ident) evs (k0, None)) as [k c] eqn:R.
  unfold alive_b, live_b. cbn [o_pid o_ident o_ctime]. destruct (lookup t pid) as [e|]; [|reflexivity].
  destruct c as [w|]; cbn [option_map]; [|apply andb_true_r].
  destruct (run_clock_inv ident evs k0 None Nb) with (k' := k) (c' := Some w) (w := w) as [b [Kc Ew]];
    [intros w0 X; discriminate | exact R | reflexivity |].
  unfold k_eff. rewrite Kc. subst w. replace (ident + b - b) with ident by lia. rewrite Z.eqb_refl. apply andb_true_r.
Qed.

(* fixed (e49a6c9); before the repair: create_time() cached, clock stepped by +100 s, psutil.boot_time() called:
   children() of the live caller 5 reports PID 12, which started before it; parent() is None *)
Definition tclock : table := [ {| kp_pid := 1; kp_ppid := 0; kp_start := 100 |};
                               {| kp_pid := 5; kp_ppid := 1; kp_start := 3000 |};
                               {| kp_pid := 9; kp_ppid := 5; kp_start := 4000 |};
                               {| kp_pid := 12; kp_ppid := 5; kp_start := 2000 |} ].
Definition k1500 : clk := {| k_btime := 150000000000; k_cache := None |}.
Definition step100 : list cev := [CallCreateTime; SetBtime 150000010000; CallBootTime].

Theorem clock_refuted :
  exists t k0 evs, let o := clock_obj 5 3000 k0 evs in
    wf_table t = true /\ live_b t o = true /\
    spec_children t [] 5 3000 = [9] /\ children_direct before_mono_fix t [] o = Val [9; 12] /\
    spec_parent_v t [] 5 3000 = Some (1, 100) /\ parent before_mono_fix t [] None o = Val None /\
    children_direct as_is t [] o = Val [9] /\ parent as_is t [] None o = Val (Some (1, 100)).
Proof. exists tclock, k1500, step100. repeat split; vm_compute; reflexivity. Qed.

Example clock_no_refresh_example :
  children_direct as_is tclock [] (clock_obj 5 3000 k1500 [CallCreateTime; SetBtime 150000010000]) = Val [9].
Proof. vm_compute. reflexivity. Qed.

(* ------------------------------------------------------------ the code as it is: every theorem
   proved for a caller with a consistent create_time() cache holds for every live caller *)
Lemma norm_ops : forall t gone goneb cache fuel o, o_known o = true ->
  children_direct as_is t gone o = children_direct as_is t gone (set_ctime o None) /\
  children_rec as_is fuel t gone o = children_rec as_is fuel t gone (set_ctime o None) /\
  parent as_is t gone cache o = parent as_is t gone cache (set_ctime o None) /\
  parents as_is fuel t gone goneb cache o = parents as_is fuel t gone goneb cache (set_ctime o None).
Proof.
  intros t gone goneb cache fuel o K.
  destruct (clock_invariance as_is eq_refl eq_refl t gone goneb cache fuel o None K) as [A [B [C D]]].
  repeat split; symmetry; assumption.
Qed.

Lemma norm_alive : forall t o, live_b t o = true -> alive_b t (set_ctime o None) = true.
Proof. intros t o H. rewrite alive_norm. exact H. Qed.

Theorem children_direct_live : forall t gone o, wf_table t = true -> live_b t o = true ->
  children_direct as_is t gone o = Val (spec_children t gone (o_pid o) (o_ident o)).
Proof. exact (children_direct_mono as_is eq_refl eq_refl eq_refl). Qed.

Theorem children_rec_live : forall t gone o, wf_table t = true -> live_b t o = true ->
  exists l, children_rec as_is (S (length t)) t gone o = Val (Some l) /\ NoDup l /\
            forall q, In q l <-> (desc t gone (o_pid o) (o_ident o) q /\ q <> o_pid o).
Proof. exact (children_rec_mono as_is eq_refl eq_refl eq_refl). Qed.

Theorem parent_live : forall t gone cache o, wf_table t = true -> live_b t o = true ->
  cache_fresh_b t cache = true ->
  parent as_is t gone cache o = Val (spec_parent_v t gone (o_pid o) (o_ident o)).
Proof. exact (parent_mono as_is eq_refl eq_refl). Qed.

Theorem parent_static_live : forall t cache o, wf_table t = true -> live_b t o = true ->
  cache_fresh_b t cache = true ->
  parent as_is t [] cache o = Val (spec_parent t (o_pid o) (o_ident o)).
Proof. intros t cache o W L F. rewrite (parent_live t [] cache o W L F). rewrite spec_parent_v_nil. reflexivity. Qed.

Theorem parents_total_live : forall t gone goneb cache o,
  wf_table t = true -> live_b t o = true -> cache_fresh_b t cache = true ->
  exists l, parents as_is (S (length t)) t gone goneb cache o = Val (Some l).
Proof.
  intros t gone goneb cache o W L F.
  destruct (parents_mono as_is eq_refl eq_refl t gone goneb cache o eq_refl eq_refl W L F) as [H _]. exact H.
Qed.

Theorem parents_chain_v_live : forall t gone goneb cache o l fuel,
  wf_table t = true -> live_b t o = true -> cache_fresh_b t cache = true ->
  memz (o_pid o) goneb = false ->
  chain_v t gone goneb (o_pid o) l -> (length l <= fuel)%nat ->
  parents as_is fuel t gone goneb cache o = Val (Some l).
Proof.
  intros t gone goneb cache o l fuel W L F Ng Ch B.
  destruct (parents_mono as_is eq_refl eq_refl t gone goneb cache o eq_refl eq_refl W L F) as [_ H]. apply H; assumption.
Qed.

Theorem parents_oracle_live : forall t gone goneb cache o l,
  wf_table t = true -> live_b t o = true -> cache_fresh_b t cache = true ->
  memz (o_pid o) goneb = false ->
  spec_parents_v t gone goneb (length t) (o_pid o) = Some l ->
  parents as_is (S (length t)) t gone goneb cache o = Val (Some l) /\ chain_v t gone goneb (o_pid o) l.
Proof.
  intros t gone goneb cache o l W L F Ng H. destruct (spec_parents_v_sound _ _ _ _ _ _ H) as [C Len].
  split; [|exact C]. apply parents_chain_v_live; assumption.
Qed.

Theorem parents_cut_live : forall t cache o, wf_table t = true -> live_b t o = true ->
  cache_fresh_b t cache = true ->
  exists l, parents as_is (S (length t)) t [] [] cache o = Val (Some l) /\ chain_cut t [o_pid o] (o_pid o) l.
Proof.
  intros t cache o W L F. destruct (norm_ops t [] [] cache (S (length t)) o (live_known t o L)) as [_ [_ [_ E]]].
  destruct (parents_cut t cache (set_ctime o None) W (norm_alive t o L) F) as [l [H C]].
  exists l. split; [rewrite E; exact H | exact C].
Qed.

Theorem parents_chain_complete_live : forall t cache o l fuel, wf_table t = true -> live_b t o = true ->
  cache_fresh_b t cache = true -> chain t (o_pid o) l -> (length l <= fuel)%nat ->
  parents as_is fuel t [] [] cache o = Val (Some l).
Proof.
  intros t cache o l fuel W L F Ch B. destruct (norm_ops t [] [] cache fuel o (live_known t o L)) as [_ [_ [_ E]]]. rewrite E.
  apply (parents_chain_complete t cache (set_ctime o None) l fuel W (norm_alive t o L) F Ch B).
Qed.

Theorem parents_acyclic_chain_live : forall t cache o, wf_table t = true -> live_b t o = true ->
  cache_fresh_b t cache = true -> acyclic t ->
  exists l, parents as_is (S (length t)) t [] [] cache o = Val (Some l) /\ chain t (o_pid o) l.
Proof.
  intros t cache o W L F AC. destruct (norm_ops t [] [] cache (S (length t)) o (live_known t o L)) as [_ [_ [_ E]]].
  destruct (parents_acyclic_chain t cache (set_ctime o None) W (norm_alive t o L) F AC) as [l [H C]].
  exists l. split; [rewrite E; exact H | exact C].
Qed.

(* ------------------------------------------------------------ start tick 0 is a value, not "unknown" *)
(* a caller whose identity is start tick 0 (init, kthreadd, PID 1/2 of a container) obeys the
   same statements as any other: instances of the theorems above *)
Theorem tick0_statements : forall t gone goneb cache o,
  wf_table t = true -> live_b t o = true -> cache_fresh_b t cache = true -> o_ident o = 0 ->
  children_direct as_is t gone o = Val (spec_children t gone (o_pid o) 0) /\
  (exists l, children_rec as_is (S (length t)) t gone o = Val (Some l) /\ NoDup l /\
             forall q, In q l <-> (desc t gone (o_pid o) 0 q /\ q <> o_pid o)) /\
  parent as_is t gone cache o = Val (spec_parent_v t gone (o_pid o) 0) /\
  (exists l, parents as_is (S (length t)) t gone goneb cache o = Val (Some l)) /\
  forall c, children_direct as_is t gone (set_ctime o c) = children_direct as_is t gone o /\
            parent as_is t gone cache (set_ctime o c) = parent as_is t gone cache o.
Proof.
  intros t gone goneb cache o W L F Z0. rewrite <- Z0. repeat split.
  - apply children_direct_live; assumption.
  - apply children_rec_live; assumption.
  - apply parent_live; assumption.
  - apply parents_total_live; assumption.
  - destruct (clock_invariance as_is eq_refl eq_refl t gone goneb cache O o c (live_known t o L)) as [A _]. exact A.
  - destruct (clock_invariance as_is eq_refl eq_refl t gone goneb cache O o c (live_known t o L)) as [_ [_ [A _]]]. exact A.
Qed.

(* an UNKNOWN identity (_ident[1] is None: the start time could not be read when the object was
   created) is something else: once the PID is readable the object is taken for a stale one *)
Theorem unknown_identity_raises : forall t gone goneb cache fuel o e,
  o_known o = false -> lookup t (o_pid o) = Some e ->
  children_direct as_is t gone o = Exc NoSuchProcess /\
  children_rec as_is fuel t gone o = Exc NoSuchProcess /\
  parent as_is t gone cache o = Exc NoSuchProcess /\
  parents as_is fuel t gone goneb cache o = Exc NoSuchProcess.
Proof.
  intros t gone goneb cache fuel o e K L.
  assert (R : raise_if_pid_reused t o = Exc NoSuchProcess) by (unfold raise_if_pid_reused; rewrite L, K; reflexivity).
  assert (P : parent as_is t gone cache o = Exc NoSuchProcess) by (unfold parent; cbn [fx_parent_reuse as_is]; rewrite R; reflexivity).
  repeat split.
  - unfold children_direct. rewrite R. reflexivity.
  - unfold children_rec. rewrite R. reflexivity.
  - exact P.
  - unfold parents. rewrite P. reflexivity.
Qed.

(* what a truthiness test on _ident[1] would do (NOT the code): a caller at tick 0 falls back
   to create_time() on both sides, and a clock step + boot_time() refresh corrupts the answers *)
Definition t0tab : table := [ {| kp_pid := 1; kp_ppid := 0; kp_start := 0 |};
                              {| kp_pid := 2; kp_ppid := 1; kp_start := 0 |};
                              {| kp_pid := 5; kp_ppid := 2; kp_start := 0 |};
                              {| kp_pid := 7; kp_ppid := 2; kp_start := 50 |} ].
Theorem ident_falsy_refuted :
  let back := clock_obj 2 0 k1500 [CallCreateTime; SetBtime 149999990000; CallBootTime] in
  let fwd := clock_obj 2 0 k1500 [CallCreateTime; SetBtime 150000010000; CallBootTime] in
  wf_table t0tab = true /\ live_b t0tab back = true /\ live_b t0tab fwd = true /\
  children_direct as_is t0tab [] back = Val [5; 7] /\ children_direct ident_falsy_variant t0tab [] back = Val [] /\
  parent as_is t0tab [] None fwd = Val (Some (1, 0)) /\ parent ident_falsy_variant t0tab [] None fwd = Val None /\
  parents as_is 5 t0tab [] [] None fwd = Val (Some [1]) /\ parents ident_falsy_variant 5 t0tab [] [] None fwd = Val (Some []).
Proof. repeat split; vm_compute; reflexivity. Qed.

(* ------------------------------------------------------------ copies of a Process object *)
Lemma copy_obj_same : forall o, copy_obj o = o.
Proof. intros [p i c k]. reflexivity. Qed.

(* a copy preserves the identity (as an option: None stays None, tick 0 stays tick 0) and the
   create_time() cache; the four answers on a copy are those on the original, in every table,
   for every caller state, whatever vanishes, with or without any of the repairs *)
Theorem copy_same_answers : forall fx t gone goneb cache fuel o,
  ident_opt (copy_obj o) = ident_opt o /\ o_ctime (copy_obj o) = o_ctime o /\
  children_direct fx t gone (copy_obj o) = children_direct fx t gone o /\
  children_rec fx fuel t gone (copy_obj o) = children_rec fx fuel t gone o /\
  parent fx t gone cache (copy_obj o) = parent fx t gone cache o /\
  parents fx fuel t gone goneb cache (copy_obj o) = parents fx fuel t gone goneb cache o.
Proof. intros fx t gone goneb cache fuel o. rewrite copy_obj_same. repeat split; reflexivity. Qed.

(* in particular the copy of a STALE original (its PID now belongs to a younger or older
   process) raises NoSuchProcess from all four calls, like the original: it never describes the
   tree around the new owner of the PID *)
Theorem copy_of_stale_raises : forall t gone goneb cache fuel o, recycled_b t o = true ->
  children_direct as_is t gone (copy_obj o) = Exc NoSuchProcess /\
  children_rec as_is fuel t gone (copy_obj o) = Exc NoSuchProcess /\
  parent as_is t gone cache (copy_obj o) = Exc NoSuchProcess /\
  parents as_is fuel t gone goneb cache (copy_obj o) = Exc NoSuchProcess.
Proof.
  intros t gone goneb cache fuel o H. rewrite copy_obj_same.
  destruct (children_recycled as_is fuel t gone o H) as [A B].
  assert (P : parent as_is t gone cache o = Exc NoSuchProcess)
    by (unfold parent; cbn [fx_parent_reuse as_is]; rewrite (recycled_raises t o H); reflexivity).
  repeat split; [exact A | exact B | exact P | unfold parents; rewrite P; reflexivity].
Qed.

(* deepcopy / pickle create no object in the code as it is *)
Theorem no_deep_copy : forall o, copy_result DeepCopy o = Exc TypeError /\ copy_result PickleRoundTrip o = Exc TypeError
                                 /\ copy_result ShallowCopy o = Val o.
Proof. intros o. repeat split. cbn [copy_result]. rewrite copy_obj_same. reflexivity. Qed.
