(* C05 -- model of psutil/__init__.py: Process.children(), Process.parent(),
   Process.parents(), Process.ppid() (identity pre-check), and of
   psutil/_pslinux.py: ppid_map(), pids().  Transcribed line by line from the
   code in /repo.

   What the kernel answers is an argument: the process table [t] as the fake /proc
   lists it at the time of the call (listing order), and the PIDs that vanish while the
   call runs: [gone] = directories that disappear before the call has read that
   process's create_time() (for children(): before ppid_map() reads its stat file, or
   between the snapshot and Process(pid), or between Process(pid) and
   child.create_time() -- the three points give the same answer, the harness exercises
   each; for parent(): before Process(ppid) or before parent.create_time());
   [goneb] = ancestors that vanish after parents() has appended them and before their
   own parent link has been read.  Times are start ticks since boot
   (Process identity, commit 5d0422d); create_time() = ticks/CLK + boot time is
   strictly monotone in the ticks for a constant boot time, so the [<=] tests of the
   code are modelled on ticks (float layer trusted, see notes).

   The five booleans of [fixes] stand for the five repairs found with this check and
   committed to /repo (6afb079 children() never returns the caller, 3959fba parent()
   checks the caller's identity first, e202d3b parents() keeps a seen set, 671469c parents()
   ends the chain when an ancestor vanishes during the walk, e49a6c9 parent()/children() compare
   start times on one clock):
   [as_is] (all true) = the code as it is now, [before_fixes] = the code before them
   (kept so that the old defects stay stated, and reverting a repair is modelled).
   [before_nsp_fix] = the code before the fourth only. *)
From PV Require Export Base.Prelude.

Record kproc := { kp_pid : Z; kp_ppid : Z; kp_start : Z }.
Definition table := list kproc.

Record fixes := { fx_skip_self : bool;       (* children(): never yield the caller itself *)
                  fx_parents_seen : bool;    (* parents(): stop at the first repeated PID *)
                  fx_parent_reuse : bool;    (* parent(): identity pre-check before the lowest-PID stop *)
                  fx_parents_nsp : bool;     (* parents(): an ancestor that vanished mid-walk ends the chain *)
                  fx_mono : bool;            (* age tests compare start times since boot *)
                  fx_ident_some : bool }.    (* _start_times tests "_ident[1] is not None" (true, the code as it
                                                is) -- false = a truthiness test, which takes tick 0 for unknown *)
Definition as_is : fixes :=
  {| fx_skip_self := true; fx_parents_seen := true; fx_parent_reuse := true; fx_parents_nsp := true; fx_mono := true; fx_ident_some := true |}.
Definition before_fixes : fixes :=
  {| fx_skip_self := false; fx_parents_seen := false; fx_parent_reuse := false; fx_parents_nsp := false; fx_mono := false; fx_ident_some := true |}.
(* the code before the fifth repair only (e49a6c9: age tests on one clock) *)
Definition before_mono_fix : fixes :=
  {| fx_skip_self := true; fx_parents_seen := true; fx_parent_reuse := true; fx_parents_nsp := true; fx_mono := false; fx_ident_some := true |}.
(* NOT a version of the code: the code as it is with a truthiness test on _ident[1] *)
Definition ident_falsy_variant : fixes :=
  {| fx_skip_self := true; fx_parents_seen := true; fx_parent_reuse := true; fx_parents_nsp := true; fx_mono := true;
     fx_ident_some := false |}.
(* the code between the first three repairs and the fourth *)
Definition before_nsp_fix : fixes :=
  {| fx_skip_self := true; fx_parents_seen := true; fx_parent_reuse := true; fx_parents_nsp := false; fx_mono := false; fx_ident_some := true |}.

(* the caller: a Process object created earlier.  [o_ident] = start ticks read by
   _get_ident() when it was created; [o_ctime] = the create_time() cache
   (self._create_time), filled only if create_time() was called before.  create_time() is
   start ticks + boot offset (btime * CLK; _pslinux.BOOT_TIME or boot_time()); the cache is
   kept here RE-BASED on the boot offset in force during the call that is modelled, i.e.
   cached value - that offset: it equals [o_ident] unless the boot offset changed between
   the cached read and the call (see [clock_obj] below).
   _gone/_pid_reused are False (a fresh object; the sticky flags belong to C01). *)
Record pobj := { o_pid : Z; o_ident : Z; o_ctime : option Z; o_known : bool }.
(* self._ident[1]: the start time since boot read when the object was created, or None when it
   could not be read then (AccessDenied).  0 is a value (init, kthreadd, PID 1/2 of a container),
   not "unknown": [o_known] says which, [o_ident] is meaningful only when it is true. *)
Definition ident_opt (o : pobj) : option Z := if o_known o then Some (o_ident o) else None.

Definition memz (x : Z) (l : list Z) : bool := existsb (Z.eqb x) l.
Definition lookup (t : table) (pid : Z) : option kproc := find (fun e => kp_pid e =? pid) t.
Definition pids_of (t : table) : list Z := map kp_pid t.

(* _pslinux.ppid_map(): {pid: ppid} in listing order (dict insertion order) *)
Definition ppid_map (t : table) : list (Z * Z) := map (fun e => (kp_pid e, kp_ppid e)) t.

Definition PID_MAX : Z := 2147483647.

(* Process(pid) for another PID: ValueError for a negative pid, NoSuchProcess when
   out of pid_t range / not listed / vanished; otherwise its start ticks *)
Definition proc_new (t : table) (gone : list Z) (pid : Z) : outcome Z :=
  if pid <? 0 then Exc ValueError
  else if PID_MAX <? pid then Exc NoSuchProcess
  else if memz pid gone then Exc NoSuchProcess
  else match lookup t pid with
       | Some e => Val (kp_start e)
       | None => Exc NoSuchProcess
       end.

(* self._raise_if_pid_reused() on a fresh object: is_running() compares the identity
   with Process(self.pid); an absent PID only sets _gone and does NOT raise here *)
Definition raise_if_pid_reused (t : table) (o : pobj) : outcome unit :=
  match lookup t (o_pid o) with
  | None => Val tt
  | Some e => if o_known o && (kp_start e =? o_ident o) then Val tt else Exc NoSuchProcess
  end.

(* self.create_time(): cached value, else a fresh read of /proc/<pid>/stat *)
Definition self_ctime (t : table) (o : pobj) : outcome Z :=
  match o_ctime o with
  | Some c => Val c
  | None => match lookup t (o_pid o) with
            | Some e => Val (kp_start e)
            | None => Exc NoSuchProcess
            end
  end.

(* body of the try block in children():
     child = Process(pid); if self.create_time() <= child.create_time(): append
   under "except (NoSuchProcess, ZombieProcess): pass" -- every failure here is a
   NoSuchProcess (listed PIDs are in range), so it is swallowed *)
(* the caller's side of an age test: self.create_time(), or (repair) the start time since
   boot kept in the identity *)
Definition caller_start (fx : fixes) (t : table) (o : pobj) : outcome Z :=
  if fx_mono fx then
    match ident_opt o with
    | Some s => if fx_ident_some fx || negb (s =? 0) then Val s else self_ctime t o
    | None => self_ctime t o       (* unknown identity: fall back to create_time() on both sides *)
    end
  else self_ctime t o.

Definition child_ok (fx : fixes) (t : table) (gone : list Z) (o : pobj) (q : Z) : bool :=
  match proc_new t gone q with
  | Val cs => match caller_start fx t o with
              | Val c => c <=? cs
              | _ => false
              end
  | _ => false
  end.

(* reverse_ppid_map[p]: PIDs whose recorded ppid is p, in snapshot order *)
Definition kids (t : table) (p : Z) : list Z :=
  map fst (filter (fun pq => snd pq =? p) (ppid_map t)).

Definition not_self (fx : fixes) (o : pobj) (q : Z) : bool :=
  if fx_skip_self fx then negb (q =? o_pid o) else true.

Definition okkids (fx : fixes) (t : table) (gone : list Z) (o : pobj) (p : Z) : list Z :=
  filter (fun q => not_self fx o q && child_ok fx t gone o q) (kids t p).

(* children(recursive=False) *)
Definition children_direct (fx : fixes) (t : table) (gone : list Z) (o : pobj) : outcome (list Z) :=
  do _ <- raise_if_pid_reused t o;
  Val (okkids fx t gone o (o_pid o)).

(* the while-stack loop of children(recursive=True); one unit of fuel per loop
   iteration; the stack is kept with its top first (stack.pop() takes the last
   appended); None = fuel exhausted *)
Fixpoint walk (fx : fixes) (t : table) (gone : list Z) (o : pobj)
         (fuel : nat) (stack seen ret : list Z) : option (list Z) :=
  match stack with
  | [] => Some ret
  | p :: st =>
      match fuel with
      | O => None
      | S f =>
          if memz p seen then walk fx t gone o f st seen ret
          else let ks := okkids fx t gone o p in
               walk fx t gone o f (rev ks ++ st) (p :: seen) (ret ++ ks)
      end
  end.

Definition children_rec (fx : fixes) (fuel : nat) (t : table) (gone : list Z) (o : pobj)
  : outcome (option (list Z)) :=
  do _ <- raise_if_pid_reused t o;
  Val (walk fx t gone o fuel [o_pid o] [] []).

(* psutil.pids()[0] / the module global _LOWEST_PID *)
Definition min_pid (t : table) : outcome Z :=
  match pids_of t with
  | [] => Exc IndexError
  | p :: r => Val (fold_left Z.min r p)
  end.
Definition lowest_pid (t : table) (cache : option Z) : outcome Z :=
  match cache with Some l => Val l | None => min_pid t end.

(* Process.ppid(): identity pre-check, then /proc/<pid>/stat *)
Definition ppid_call (t : table) (o : pobj) : outcome Z :=
  do _ <- raise_if_pid_reused t o;
  match lookup t (o_pid o) with
  | Some e => Val (kp_ppid e)
  | None => Exc NoSuchProcess
  end.

(* Process.parent(): Some (pid, start ticks of the returned object) or None *)
Definition parent (fx : fixes) (t : table) (gone : list Z) (cache : option Z) (o : pobj) : outcome (option (Z * Z)) :=
  do _ <- (if fx_parent_reuse fx then raise_if_pid_reused t o else Val tt);
  do low <- lowest_pid t cache;
  if o_pid o =? low then Val None
  else
    do pp <- ppid_call t o;
    do c <- caller_start fx t o;
    match proc_new t gone pp with
    | Val ps => if ps <=? c then Val (Some (pp, ps)) else Val None
    | Exc NoSuchProcess => Val None
    | Exc e => Exc e
    | OutOfModel => OutOfModel
    end.

(* the objects parent() returns are fresh, with create_time() already cached *)
Definition obj_of (ps : Z * Z) : pobj := {| o_pid := fst ps; o_ident := snd ps; o_ctime := Some (snd ps); o_known := true |}.

(* after the first pids() call the cache holds the lowest listed PID *)
Definition cache_after (t : table) (cache : option Z) : option Z :=
  match cache with
  | Some l => Some l
  | None => match min_pid t with Val m => Some m | _ => None end
  end.

(* the table as a process that has just vanished leaves it *)
Definition remove_pid (q : Z) (t : table) : table := filter (fun e => negb (kp_pid e =? q)) t.

(* parents(): proc = self.parent(); while proc is not None [and proc.pid not in seen]:
   append; proc = proc.parent().  One unit of fuel per loop test; None = fuel exhausted.
   An ancestor in [goneb] has vanished when its parent() is called. *)
Fixpoint parents_loop (fx : fixes) (t : table) (gone goneb : list Z) (cache : option Z) (fuel : nat)
         (seen : list Z) (cur : option (Z * Z)) (acc : list Z) : outcome (option (list Z)) :=
  match cur with
  | None => Val (Some acc)
  | Some ps =>
      if fx_parents_seen fx && memz (fst ps) seen then Val (Some acc)
      else match fuel with
           | O => Val None
           | S f =>
               match parent fx (if memz (fst ps) goneb then remove_pid (fst ps) t else t) gone cache (obj_of ps) with
               | Val nxt => parents_loop fx t gone goneb cache f (fst ps :: seen) nxt (acc ++ [fst ps])
               | Exc NoSuchProcess => if fx_parents_nsp fx then Val (Some (acc ++ [fst ps])) else Exc NoSuchProcess
               | Exc e => Exc e
               | OutOfModel => OutOfModel
               end
           end
  end.

Definition parents (fx : fixes) (fuel : nat) (t : table) (gone goneb : list Z) (cache : option Z) (o : pobj)
  : outcome (option (list Z)) :=
  do first <- parent fx t gone cache o;
  parents_loop fx t gone goneb (cache_after t cache) fuel [o_pid o] first [].

(* ------------------------------------------------------------ the clock: /proc/stat btime and
   the module-level BOOT_TIME cache (both as tick offsets, btime * CLK), and what a history of
   clock steps, psutil.boot_time() calls and create_time() calls on the caller leaves behind *)
Record clk := { k_btime : Z; k_cache : option Z }.
Definition k_eff (k : clk) : Z := match k_cache k with Some b => b | None => k_btime k end.
Inductive cev :=
| SetBtime (b : Z)     (* the system clock is stepped: the btime line of /proc/stat changes *)
| CallBootTime         (* psutil.boot_time(): re-reads btime and refreshes BOOT_TIME *)
| CallCreateTime.      (* create_time() on the caller (also children()/parent()/parents() of the
                          code without the repair): reads "BOOT_TIME or boot_time()" unless cached *)
Definition cstep (ident : Z) (s : clk * option Z) (e : cev) : clk * option Z :=
  let (k, c) := s in
  match e with
  | SetBtime b => ({| k_btime := b; k_cache := k_cache k |}, c)
  | CallBootTime => ({| k_btime := k_btime k; k_cache := Some (k_btime k) |}, c)
  | CallCreateTime =>
      match c with
      | Some _ => (k, c)
      | None => ({| k_btime := k_btime k; k_cache := Some (k_eff k) |}, Some (ident + k_eff k))
      end
  end.
Definition run_clock (ident : Z) (k0 : clk) (evs : list cev) : clk * option Z :=
  fold_left (cstep ident) evs (k0, None).
(* the caller object as the modelled call sees it after that history *)
Definition clock_obj (pid ident : Z) (k0 : clk) (evs : list cev) : pobj :=
  let (k, c) := run_clock ident k0 evs in
  {| o_pid := pid; o_ident := ident; o_ctime := option_map (fun w => w - k_eff k) c; o_known := true |}.

(* ------------------------------------------------------------ object protocols
   copy.copy(p): a shallow copy -- a new Process object with the same __dict__ entries: the same
   pid, the same identity (_ident, shared), the same create_time() cache (and the same flags);
   it is another handle on the SAME incarnation.  copy.deepcopy(p) and a pickle round trip raise
   TypeError in the code as it is (the object holds an RLock): no object is created. *)
Definition copy_obj (o : pobj) : pobj :=
  {| o_pid := o_pid o; o_ident := o_ident o; o_ctime := o_ctime o; o_known := o_known o |}.
Inductive copy_how := ShallowCopy | DeepCopy | PickleRoundTrip.
Definition copy_result (how : copy_how) (o : pobj) : outcome pobj :=
  match how with
  | ShallowCopy => Val (copy_obj o)
  | DeepCopy | PickleRoundTrip => Exc TypeError
  end.
