(* C05 -- proofs about children() / children(recursive=True). *)
From PV Require Export C05.Lib.

(* ------------------------------------------------------------ well-formed tables, caller state *)
Lemma wf_nodup : forall t, wf_table t = true -> NoDup (pids_of t).
Proof.
  intros t H. unfold wf_table in H. apply andb_true_iff in H. destruct H as [H _].
  apply nodupb_NoDup. exact H.
Qed.

Lemma wf_range : forall t e, wf_table t = true -> In e t ->
  0 <= kp_pid e <= PID_MAX /\ 0 <= kp_ppid e <= PID_MAX.
Proof.
  intros t e H He. unfold wf_table in H. apply andb_true_iff in H. destruct H as [_ H].
  rewrite forallb_forall in H. specialize (H e He).
  repeat (apply andb_true_iff in H; destruct H as [H ?]). lia.
Qed.

Lemma alive_known : forall t o, alive_b t o = true -> o_known o = true.
Proof.
  intros t o H. unfold alive_b in H. destruct (lookup t (o_pid o)); [|discriminate].
  apply andb_true_iff in H. destruct H as [H _]. apply andb_true_iff in H. destruct H as [H _]. exact H.
Qed.

Lemma alive_facts : forall t o, alive_b t o = true ->
  raise_if_pid_reused t o = Val tt /\ self_ctime t o = Val (o_ident o) /\
  exists e, lookup t (o_pid o) = Some e /\ kp_start e = o_ident o.
Proof.
  intros t o H. unfold alive_b in H. unfold raise_if_pid_reused, self_ctime.
  destruct (lookup t (o_pid o)) as [e|] eqn:L; [|discriminate].
  apply andb_true_iff in H. destruct H as [H1 H2]. rewrite H1.
  apply andb_true_iff in H1. destruct H1 as [_ H1]. apply Z.eqb_eq in H1.
  split; [reflexivity|]. split.
  - destruct (o_ctime o) as [c|].
    + apply Z.eqb_eq in H2. subst. reflexivity.
    + rewrite H1. reflexivity.
  - exists e. split; [reflexivity | exact H1].
Qed.

Lemma recycled_raises : forall t o, recycled_b t o = true -> raise_if_pid_reused t o = Exc NoSuchProcess.
Proof.
  intros t o H. unfold recycled_b in H. unfold raise_if_pid_reused.
  destruct (lookup t (o_pid o)) as [e|]; [|discriminate].
  apply andb_true_iff in H. destruct H as [K H]. apply negb_true_iff in H. rewrite K, H. reflexivity.
Qed.

(* ------------------------------------------------------------ the per-child test *)
Lemma caller_start_alive : forall fx t o, alive_b t o = true -> caller_start fx t o = Val (o_ident o).
Proof.
  intros fx t o A. destruct (alive_facts t o A) as [_ [C _]]. unfold caller_start, ident_opt.
  rewrite (alive_known t o A). destruct (fx_mono fx); [|exact C].
  destruct (fx_ident_some fx || negb (o_ident o =? 0)); [reflexivity | exact C].
Qed.

Lemma child_ok_spec : forall fx t gone o e, wf_table t = true -> alive_b t o = true -> In e t ->
  child_ok fx t gone o (kp_pid e) = elig gone (o_ident o) e.
Proof.
  intros fx t gone o e W A He. pose proof (caller_start_alive fx t o A) as C.
  destruct (wf_range t e W He) as [[R1 R2] _].
  unfold child_ok, proc_new, elig.
  assert (X1 : (kp_pid e <? 0) = false) by (apply Z.ltb_ge; exact R1). rewrite X1.
  assert (X2 : (PID_MAX <? kp_pid e) = false) by (apply Z.ltb_ge; exact R2). rewrite X2.
  destruct (memz (kp_pid e) gone); [reflexivity|].
  rewrite (lookup_complete t e (wf_nodup t W) He). rewrite C. reflexivity.
Qed.

Lemma okkids_list : forall fx t gone o p, wf_table t = true -> alive_b t o = true ->
  okkids fx t gone o p =
  map kp_pid (filter (fun e => (kp_ppid e =? p) && (not_self fx o (kp_pid e) && elig gone (o_ident o) e)) t).
Proof.
  intros fx t gone o p W A. unfold okkids, kids, ppid_map.
  assert (G : forall l, incl l t ->
    filter (fun q => not_self fx o q && child_ok fx t gone o q)
           (map fst (filter (fun pq => snd pq =? p) (map (fun e => (kp_pid e, kp_ppid e)) l))) =
    map kp_pid (filter (fun e => (kp_ppid e =? p) && (not_self fx o (kp_pid e) && elig gone (o_ident o) e)) l)).
  { induction l as [|e r IH]; intros Hin; [reflexivity|].
    assert (He : In e t) by (apply Hin; left; reflexivity).
    assert (Hr : incl r t) by (intros x Hx; apply Hin; right; exact Hx).
    cbn [map filter snd]. destruct (kp_ppid e =? p).
    - cbn [map fst filter andb]. rewrite (child_ok_spec fx t gone o e W A He).
      destruct (not_self fx o (kp_pid e) && elig gone (o_ident o) e).
      + cbn [map]. f_equal. apply IH. exact Hr.
      + apply IH. exact Hr.
    - cbn [andb]. apply IH. exact Hr. }
  apply G. apply incl_refl.
Qed.

Lemma In_okkids : forall fx t gone o p q, wf_table t = true -> alive_b t o = true ->
  (In q (okkids fx t gone o p) <->
   exists e, In e t /\ kp_pid e = q /\ kp_ppid e = p /\ not_self fx o q = true /\ elig gone (o_ident o) e = true).
Proof.
  intros fx t gone o p q W A. rewrite (okkids_list fx t gone o p W A). rewrite in_map_iff. split.
  - intros [e [E H]]. apply filter_In in H. destruct H as [He H].
    apply andb_true_iff in H. destruct H as [H1 H2]. apply andb_true_iff in H2. destruct H2 as [H2 H3].
    apply Z.eqb_eq in H1. exists e. subst q. auto.
  - intros [e [He [E1 [E2 [N El]]]]]. exists e. split; [exact E1|]. apply filter_In. split; [exact He|].
    subst q. rewrite N, El. apply Z.eqb_eq in E2. rewrite E2. reflexivity.
Qed.

(* ------------------------------------------------------------ the walk is the generic walk *)
Lemma walk_gwalk : forall fx t gone o fuel stack seen ret,
  walk fx t gone o fuel stack seen ret = gwalk (okkids fx t gone o) fuel stack seen ret.
Proof.
  intros fx t gone o. induction fuel as [|f IH]; intros stack seen ret; destruct stack as [|p st]; try reflexivity.
  cbn [walk gwalk]. destruct (memz p seen); apply IH.
Qed.

Section Edges.
  Variables (fx : fixes) (t : table) (gone : list Z) (o : pobj).
  Hypothesis N : NoDup (pids_of t).

  Lemma E_nodup : forall p, NoDup (okkids fx t gone o p).
  Proof. intros p. unfold okkids. apply NoDup_filter. apply NoDup_kids. exact N. Qed.
  Lemma E_univ : forall p q, In q (okkids fx t gone o p) -> In q (pids_of t).
  Proof. intros p q H. unfold okkids in H. apply filter_In in H. destruct H as [H _]. apply (kids_sub_pids t p q H). Qed.
  Lemma E_parent : forall p p' q, In q (okkids fx t gone o p) -> In q (okkids fx t gone o p') -> p = p'.
  Proof.
    intros p p' q H H'. unfold okkids in H, H'. apply filter_In in H. apply filter_In in H'.
    destruct H as [H _]. destruct H' as [H' _]. apply (kids_one_parent t p p' q N H H').
  Qed.
End Edges.

(* termination and no duplicates on ANY parent-link graph, any caller, any set of
   vanished processes, with or without the repair *)
Theorem children_walk_terminates : forall fx t gone o, NoDup (pids_of t) ->
  exists l, walk fx t gone o (S (length t)) [o_pid o] [] [] = Some l /\ NoDup l
            /\ forall q, In q l <-> reach (okkids fx t gone o) (o_pid o) q.
Proof.
  intros fx t gone o N.
  destruct (gwalk_correct (okkids fx t gone o) (pids_of t) (o_pid o)
              (E_nodup fx t gone o N) (E_univ fx t gone o) (E_parent fx t gone o N)) as [l [W [ND R]]].
  exists l. rewrite walk_gwalk. unfold pids_of in W. rewrite map_length in W. auto.
Qed.

(* ------------------------------------------------------------ reach = desc *)
(* code before the repair: everything reachable, the caller included *)
Lemma reach_desc_old : forall fx t gone o q, fx_skip_self fx = false -> wf_table t = true -> alive_b t o = true ->
  (reach (okkids fx t gone o) (o_pid o) q <-> desc t gone (o_pid o) (o_ident o) q).
Proof.
  intros fx t gone o q F W A.
  assert (NS : forall x, not_self fx o x = true) by (intros x; unfold not_self; rewrite F; reflexivity).
  split.
  - intros R. induction R as [q Hq | p q R IH Hq].
    + apply (In_okkids fx t gone o _ q W A) in Hq. destruct Hq as [e [He [E1 [E2 [_ El]]]]].
      subst q. apply desc_child; assumption.
    + apply (In_okkids fx t gone o _ q W A) in Hq. destruct Hq as [e [He [E1 [E2 [_ El]]]]].
      subst q. apply desc_step; try assumption. rewrite E2. exact IH.
  - intros D. induction D as [e He E El | e He El D IH].
    + apply reach_kid. apply (In_okkids fx t gone o _ _ W A). exists e. auto.
    + apply (reach_step _ _ (kp_ppid e)); [exact IH|].
      apply (In_okkids fx t gone o _ _ W A). exists e. auto.
Qed.

Lemma not_self_skip : forall fx o q, fx_skip_self fx = true -> (not_self fx o q = true <-> q <> o_pid o).
Proof.
  intros fx o q F. unfold not_self. rewrite F. rewrite negb_true_iff. rewrite Z.eqb_neq. tauto.
Qed.

Lemma reach_desc_skip : forall fx t gone o q, fx_skip_self fx = true -> wf_table t = true -> alive_b t o = true ->
  (reach (okkids fx t gone o) (o_pid o) q <-> desc t gone (o_pid o) (o_ident o) q /\ q <> o_pid o).
Proof.
  intros fx t gone o q F W A. split.
  - intros R. induction R as [q Hq | p q R IH Hq].
    + apply (In_okkids fx t gone o _ q W A) in Hq. destruct Hq as [e [He [E1 [E2 [Ns El]]]]].
      apply (not_self_skip fx o q F) in Ns. subst q. split; [apply desc_child; assumption | exact Ns].
    + apply (In_okkids fx t gone o _ q W A) in Hq. destruct Hq as [e [He [E1 [E2 [Ns El]]]]].
      apply (not_self_skip fx o q F) in Ns. subst q. split; [|exact Ns].
      apply desc_step; try assumption. rewrite E2. apply IH.
  - intros [D Nq]. induction D as [e He E El | e He El D IH].
    + apply reach_kid. apply (In_okkids fx t gone o _ _ W A). exists e.
      repeat split; try assumption. apply (not_self_skip fx o _ F). exact Nq.
    + assert (Ns : not_self fx o (kp_pid e) = true) by (apply (not_self_skip fx o _ F); exact Nq).
      destruct (Z.eq_dec (kp_ppid e) (o_pid o)) as [Ep|Ep].
      * apply reach_kid. apply (In_okkids fx t gone o _ _ W A). exists e. auto.
      * apply (reach_step _ _ (kp_ppid e)); [apply IH; exact Ep|].
        apply (In_okkids fx t gone o _ _ W A). exists e. auto.
Qed.

(* ------------------------------------------------------------ children(recursive=True) *)
Theorem children_rec_exact : forall t gone o, wf_table t = true -> alive_b t o = true ->
  exists l, children_rec as_is (S (length t)) t gone o = Val (Some l) /\ NoDup l /\
            forall q, In q l <-> (desc t gone (o_pid o) (o_ident o) q /\ q <> o_pid o).
Proof.
  intros t gone o W A. destruct (alive_facts t o A) as [R _].
  destruct (children_walk_terminates as_is t gone o (wf_nodup t W)) as [l [Wk [ND Rc]]].
  exists l. unfold children_rec. rewrite R. cbn [obind]. rewrite Wk. split; [reflexivity|]. split; [exact ND|].
  intros q. rewrite Rc. apply reach_desc_skip; [reflexivity | assumption | assumption].
Qed.

(* the code before repair 6afb079: exactly the reachable set -- the caller included when it
   is its own descendant *)
Theorem children_rec_old_exact : forall t gone o, wf_table t = true -> alive_b t o = true ->
  exists l, children_rec before_fixes (S (length t)) t gone o = Val (Some l) /\ NoDup l /\
            forall q, In q l <-> desc t gone (o_pid o) (o_ident o) q.
Proof.
  intros t gone o W A. destruct (alive_facts t o A) as [R _].
  destruct (children_walk_terminates before_fixes t gone o (wf_nodup t W)) as [l [Wk [ND Rc]]].
  exists l. unfold children_rec. rewrite R. cbn [obind]. rewrite Wk. split; [reflexivity|]. split; [exact ND|].
  intros q. rewrite Rc. apply reach_desc_old; [reflexivity | assumption | assumption].
Qed.

(* the loop of children(recursive=True) stops within |table|+1 iterations whatever
   the graph, the caller state, the vanished set and the repair flags are *)
Theorem children_rec_terminates : forall fx t gone o, NoDup (pids_of t) ->
  children_rec fx (S (length t)) t gone o <> Val None.
Proof.
  intros fx t gone o N. unfold children_rec.
  destruct (raise_if_pid_reused t o); cbn [obind]; try discriminate.
  destruct (children_walk_terminates fx t gone o N) as [l [Wk _]]. rewrite Wk. discriminate.
Qed.

Definition cyc2 : table := [ {| kp_pid := 10; kp_ppid := 20; kp_start := 100 |};
                             {| kp_pid := 20; kp_ppid := 10; kp_start := 100 |} ].
Definition o10 : pobj := {| o_pid := 10; o_ident := 100; o_ctime := None; o_known := true |}.

Theorem children_rec_old_refuted :
  exists t o, wf_table t = true /\ alive_b t o = true /\
              exists l, children_rec before_fixes (S (length t)) t [] o = Val (Some l) /\ In (o_pid o) l.
Proof.
  exists cyc2, o10. split; [reflexivity|]. split; [reflexivity|].
  exists [20; 10]. split; [vm_compute; reflexivity | right; left; reflexivity].
Qed.

Example cyc2_now : children_rec as_is 3 cyc2 [] o10 = Val (Some [20]).
Proof. vm_compute. reflexivity. Qed.

(* ------------------------------------------------------------ children() *)
Theorem children_direct_exact : forall t gone o, wf_table t = true -> alive_b t o = true ->
  children_direct as_is t gone o = Val (spec_children t gone (o_pid o) (o_ident o)).
Proof.
  intros t gone o W A. destruct (alive_facts t o A) as [R _].
  unfold children_direct. rewrite R. cbn [obind]. f_equal.
  rewrite (okkids_list as_is t gone o (o_pid o) W A). unfold spec_children. f_equal.
  apply filter_ext_in. intros e He. unfold not_self. cbn [fx_skip_self as_is].
  destruct (kp_ppid e =? o_pid o); reflexivity.
Qed.

Definition loop7 : table := [ {| kp_pid := 1; kp_ppid := 0; kp_start := 1 |};
                              {| kp_pid := 7; kp_ppid := 7; kp_start := 50 |};
                              {| kp_pid := 9; kp_ppid := 7; kp_start := 60 |} ].
Definition o7 : pobj := {| o_pid := 7; o_ident := 50; o_ctime := None; o_known := true |}.

Theorem children_direct_old_refuted :
  exists t o, wf_table t = true /\ alive_b t o = true /\
              exists l, children_direct before_fixes t [] o = Val l /\ In (o_pid o) l.
Proof.
  exists loop7, o7. split; [reflexivity|]. split; [reflexivity|].
  exists [7; 9]. split; [vm_compute; reflexivity | left; reflexivity].
Qed.

(* a non-trivial table satisfying the hypotheses of the theorems above *)
Definition tree5 : table := [ {| kp_pid := 1; kp_ppid := 0; kp_start := 1 |};
                              {| kp_pid := 5; kp_ppid := 1; kp_start := 30 |};
                              {| kp_pid := 6; kp_ppid := 5; kp_start := 20 |};   (* older than 5: a recycled PID *)
                              {| kp_pid := 8; kp_ppid := 5; kp_start := 40 |};
                              {| kp_pid := 9; kp_ppid := 8; kp_start := 40 |} ].
Definition o5 : pobj := {| o_pid := 5; o_ident := 30; o_ctime := Some 30; o_known := true |}.

Example tree5_hyps : wf_table tree5 = true /\ alive_b tree5 o5 = true
  /\ children_direct as_is tree5 [] o5 = Val [8]
  /\ children_rec as_is 6 tree5 [] o5 = Val (Some [8; 9])
  /\ children_rec as_is 6 tree5 [8] o5 = Val (Some []).
Proof. repeat split; vm_compute; reflexivity. Qed.

(* ------------------------------------------------------------ recycled caller *)
Theorem children_recycled : forall fx fuel t gone o, recycled_b t o = true ->
  children_direct fx t gone o = Exc NoSuchProcess /\ children_rec fx fuel t gone o = Exc NoSuchProcess.
Proof.
  intros fx fuel t gone o H. unfold children_direct, children_rec.
  rewrite (recycled_raises t o H). split; reflexivity.
Qed.

(* ------------------------------------------------------------ the computable descendant test is sound *)
Lemma climbs_desc : forall t gone self s0 n q,
  climbs t gone self s0 n q = true -> desc t gone self s0 q.
Proof.
  intros t gone self s0. induction n as [|m IH]; intros q H; [discriminate|].
  cbn [climbs] in H. destruct (lookup t q) as [e|] eqn:L; [|discriminate].
  apply lookup_In in L. destruct L as [He Ep]. subst q.
  apply andb_true_iff in H. destruct H as [El H]. apply orb_true_iff in H. destruct H as [H|H].
  - apply Z.eqb_eq in H. apply desc_child; assumption.
  - apply desc_step; try assumption. apply IH. exact H.
Qed.
