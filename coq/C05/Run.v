(* Entry points evaluated by the correspondence harness (props/C05.py). *)
From PV Require Export C05.Spec.

Definition jzs (l : list Z) : jv := JL (map JZ l).
Definition jtimeout : jv := JC "Timeout" [].
Definition jfuel (o : outcome (option (list Z))) : jv :=
  match o with
  | Val (Some l) => JC "Val" [jzs l]
  | Val None => jtimeout
  | Exc e => JC "Exc" [JC (exn_name e) []]
  | OutOfModel => JC "OutOfModel" []
  end.
Definition jpar (x : option (Z * Z)) : jv := jopt (fun ps => JL [JZ (fst ps); JZ (snd ps)]) x.
Definition jnsp : jv := JC "Exc" [JC "NoSuchProcess" []].

Definition mk_table (l : list (Z * Z * Z)) : table :=
  map (fun x => {| kp_pid := fst (fst x); kp_ppid := snd (fst x); kp_start := snd x |}) l.

(* spec answer by caller state: alive -> demanded value, recycled -> NoSuchProcess,
   gone (PID absent) -> nothing demanded *)
Definition by_state (t : table) (o : pobj) (v : jv) : jv :=
  if alive_b t o then v else if recycled_b t o then jnsp else jnone.

(* class tags computed from the input (used for the known-finding classes) *)
Definition tags (t : table) (gone : list Z) (cache : option Z) (o : pobj) : jv :=
  JL [ jbool (alive_b t o);
       jbool (recycled_b t o);
       (* the caller is its own descendant: a ppid cycle (or self-loop) through it *)
       jbool (climbs t gone (o_pid o) (o_ident o) (length t) (o_pid o));
       (* the caller is its own parent *)
       jbool (own_parent_b t (o_pid o));
       (* the chain of parents from the caller never reaches the root *)
       jbool (match spec_parents t (length t) (o_pid o) with None => true | Some _ => false end);
       (* stale lowest-PID cache *)
       jbool (negb (cache_fresh_b t cache));
       (* the caller is the lowest PID as parent() sees it *)
       jbool (match lowest_pid t cache with Val l => o_pid o =? l | _ => false end) ].

Definition guard (t : table) (body : jv) : jv :=
  if wf_table t then body else JL [JC "OutOfModel" []; jnone; JL []].

Definition run_children (fx : fixes) (tl : list (Z * Z * Z)) (gone : list Z) (cache : option Z) (o : pobj) : jv :=
  let t := mk_table tl in
  guard t (JL [ jv_outcome jzs (children_direct fx t gone o);
                by_state t o (JC "Val" [jzs (spec_children t gone (o_pid o) (o_ident o))]);
                tags t gone cache o ]).

Definition run_children_rec (fx : fixes) (tl : list (Z * Z * Z)) (gone : list Z) (cache : option Z) (o : pobj) : jv :=
  let t := mk_table tl in
  guard t (JL [ jfuel (children_rec fx (S (length t)) t gone o);
                by_state t o (JC "Val" [jzs (spec_descendants t gone (o_pid o) (o_ident o))]);
                tags t gone cache o ]).

Definition run_parent (fx : fixes) (tl : list (Z * Z * Z)) (gone : list Z) (cache : option Z) (o : pobj) : jv :=
  let t := mk_table tl in
  guard t (JL [ jv_outcome jpar (parent fx t cache o);
                by_state t o (JC "Val" [jpar (spec_parent t (o_pid o) (o_ident o))]);
                tags t gone cache o ]).

Definition run_parents (fx : fixes) (tl : list (Z * Z * Z)) (gone : list Z) (cache : option Z) (o : pobj) : jv :=
  let t := mk_table tl in
  guard t (JL [ jfuel (parents fx (S (length t)) t cache o);
                by_state t o (match spec_parents t (length t) (o_pid o) with
                              | Some l => JC "Val" [jzs l]
                              | None => JC "Cyclic" []
                              end);
                tags t gone cache o ]).
