(* Entry points evaluated by the correspondence harness (props/C05.py). *)
From PV Require Export C05.Spec.

(* returned objects are compared by identity: (pid, start ticks) *)
Definition jid (t : table) (q : Z) : jv :=
  JL [JZ q; JZ (match lookup t q with Some e => kp_start e | None => -1 end)].
Definition jids (t : table) (l : list Z) : jv := JL (map (jid t) l).
Definition jtimeout : jv := JC "Timeout" [].
Definition jnsp : jv := JC "Exc" [JC "NoSuchProcess" []].
(* NoSuchProcess carrying another PID than the caller's: a live caller never raises for itself *)
Definition jexc (t : table) (o : pobj) (e : exn) : jv :=
  match e with
  | NoSuchProcess => if live_b t o then JC "Exc" [JC "NoSuchProcessOther" []] else jnsp
  | _ => JC "Exc" [JC (exn_name e) []]
  end.
Definition jout {A} (t : table) (o : pobj) (f : A -> jv) (r : outcome A) : jv :=
  match r with
  | Val a => JC "Val" [f a]
  | Exc e => jexc t o e
  | OutOfModel => JC "OutOfModel" []
  end.
Definition jfuel (t : table) (o : pobj) (r : outcome (option (list Z))) : jv :=
  match r with
  | Val None => jtimeout
  | _ => jout t o (fun x => match x with Some l => jids t l | None => jnone end) r
  end.
Definition jpar (x : option (Z * Z)) : jv := jopt (fun ps => JL [JZ (fst ps); JZ (snd ps)]) x.

Definition mk_table (l : list (Z * Z * Z)) : table :=
  map (fun x => {| kp_pid := fst (fst x); kp_ppid := snd (fst x); kp_start := snd x |}) l.
Definition mk_fixes (a b c d e f : bool) : fixes :=
  {| fx_skip_self := a; fx_parents_seen := b; fx_parent_reuse := c; fx_parents_nsp := d; fx_mono := e; fx_ident_some := f |}.

(* the caller after a clock history: btime (seconds) at the start, BOOT_TIME cache empty,
   then clock steps / psutil.boot_time() calls / create_time() calls on the caller *)
Definition CLK : Z := 100.
Inductive hev := HSet (b : Z) | HBoot | HCt.
(* [known] = false: the identity could not be read when the object was created (_ident[1] is None) *)
Definition with_known (known : bool) (o : pobj) : pobj :=
  {| o_pid := o_pid o; o_ident := o_ident o; o_ctime := o_ctime o; o_known := known |}.
Definition mk_obj (known : bool) (pid ident b0 : Z) (h : list hev) : pobj :=
  with_known known (clock_obj pid ident {| k_btime := b0 * CLK; k_cache := None |}
    (map (fun e => match e with HSet b => SetBtime (b * CLK) | HBoot => CallBootTime | HCt => CallCreateTime end) h)).

(* spec answer by caller state (whatever the create_time() cache holds): alive -> demanded value, recycled -> NoSuchProcess,
   gone (PID absent) -> nothing demanded beyond "a value or NoSuchProcess(caller)" *)
Definition by_state (t : table) (o : pobj) (v : jv) : jv :=
  if live_b t o then v else if recycled_b t o then jnsp else jnone.

Definition the_chain (t : table) (gone goneb : list Z) (o : pobj) : option (list Z) :=
  spec_parents_v t gone goneb (length t) (o_pid o).

(* class tags computed from the input (used for the known-finding classes) *)
Definition tags (t : table) (gone goneb : list Z) (cache : option Z) (o : pobj) : jv :=
  JL [ jbool (live_b t o);
       jbool (recycled_b t o);
       (* the caller is its own descendant: a ppid cycle (or self-loop) through it *)
       jbool (climbs t gone (o_pid o) (o_ident o) (length t) (o_pid o));
       (* the caller is its own parent *)
       jbool (own_parent_b t (o_pid o));
       (* the chain of parents from the caller never reaches the root *)
       jbool (match the_chain t gone goneb o with None => true | Some _ => false end);
       (* stale lowest-PID cache *)
       jbool (negb (cache_fresh_b t cache));
       (* the caller is the lowest PID as parent() sees it *)
       jbool (match lowest_pid t cache with Val l => o_pid o =? l | _ => false end);
       (* an ancestor vanishes after parents() appended it *)
       jbool (match the_chain t gone goneb o with
              | Some l => existsb (fun q => memz q goneb) l
              | None => negb (match goneb with [] => true | _ => false end)
              end);
       (* the cached create_time() and fresh reads are on different boot-time bases *)
       jbool (match o_ctime o with Some c => negb (c =? o_ident o) | None => false end) ].

(* outside the domain: a PID listed twice / out of range, or a table that lists no process
   at all (the process running psutil is always listed; pids()[0] would be an IndexError) *)
Definition guard (t : table) (body : jv) : jv :=
  if wf_table t && negb (match t with [] => true | _ => false end) then body
  else JL [JC "OutOfModel" []; jnone; JL []].

Definition run_children_t (fx : fixes) (t : table) (gone goneb : list Z) (cache : option Z) (o : pobj) : jv :=
  guard t (JL [ jout t o (jids t) (children_direct fx t gone o);
                by_state t o (JC "Val" [jids t (spec_children t gone (o_pid o) (o_ident o))]);
                tags t gone goneb cache o ]).
(* [dspec]: the demanded descendants when they are known in closed form (deep chains: the generic
   climbs test is cubic there), else computed by [spec_descendants] *)
Definition run_children_rec_t (fx : fixes) (t : table) (dspec : option (list Z)) (gone goneb : list Z) (cache : option Z) (o : pobj) : jv :=
  guard t (JL [ jfuel t o (children_rec fx (S (length t)) t gone o);
                by_state t o (JC "Val" [jids t (match dspec with Some l => l
                                                | None => spec_descendants t gone (o_pid o) (o_ident o) end)]);
                tags t gone goneb cache o ]).
Definition run_parent_t (fx : fixes) (t : table) (gone goneb : list Z) (cache : option Z) (o : pobj) : jv :=
  guard t (JL [ jout t o jpar (parent fx t gone cache o);
                by_state t o (JC "Val" [jpar (spec_parent_v t gone (o_pid o) (o_ident o))]);
                tags t gone goneb cache o ]).
Definition run_parents_t (fx : fixes) (t : table) (gone goneb : list Z) (cache : option Z) (o : pobj) : jv :=
  guard t (JL [ jfuel t o (parents fx (S (length t)) t gone goneb cache o);
                by_state t o (match the_chain t gone goneb o with
                              | Some l => JC "Val" [jids t l]
                              | None => JC "Cyclic" []
                              end);
                tags t gone goneb cache o ]).

Definition run_children fx (tl : list (Z * Z * Z)) := run_children_t fx (mk_table tl).
Definition run_children_rec fx (tl : list (Z * Z * Z)) := run_children_rec_t fx (mk_table tl) None.
Definition run_parent fx (tl : list (Z * Z * Z)) := run_parent_t fx (mk_table tl).
Definition run_parents fx (tl : list (Z * Z * Z)) := run_parents_t fx (mk_table tl).

(* big tables generated from a seed: shape 0 = chain n, 1 = star n, 2 = comb n w; op 0 = children,
   1 = children(recursive=True), 2 = parent, 3 = parents; caller = PID k (a fresh object) *)
Definition big_table (shape : Z) (n w : Z) : table :=
  if shape =? 0 then gen_chain (Z.to_nat n)
  else if shape =? 1 then gen_star (Z.to_nat n)
  else gen_comb (Z.to_nat n) (Z.to_nat w).
Definition run_big (fx : fixes) (op shape n w k : Z) (cache : option Z) : jv :=
  let t := big_table shape n w in
  let ident := match lookup t k with Some e => kp_start e | None => 0 end in
  let o := {| o_pid := k; o_ident := ident; o_ctime := None; o_known := true |} in
  if op =? 0 then run_children_t fx t [] [] cache o
  else if op =? 1 then
    run_children_rec_t fx t (if shape =? 0 then Some (zseq (k + 1) (Z.to_nat (n - k))) else None) [] [] cache o
  else if op =? 2 then run_parent_t fx t [] [] cache o
  else run_parents_t fx t [] [] cache o.

(* a case that first copies the caller (how: 0 = none, 1 = copy.copy, 2 = copy.deepcopy, 3 = pickle round
   trip) and asks the copy: [r] = the run on the copied object; when no copy is created the model
   answer is NoCopy(TypeError) and no call is made (the demanded answer stays: it applies to any
   tree in which such a copy does exist) *)
Definition copy_how_of (how : Z) : copy_how :=
  if how =? 2 then DeepCopy else if how =? 3 then PickleRoundTrip else ShallowCopy.
Definition copied (how : Z) (o : pobj) : pobj :=
  match copy_result (copy_how_of how) o with Val c => c | _ => o end.
Definition after_copy (how : Z) (o : pobj) (r : jv) : jv :=
  match copy_result (copy_how_of how) o with
  | Val _ => r
  | Exc e => match r with
             | JL [m; s; tg] => JL [JC "NoCopy" [JC (exn_name e) []]; s; tg]
             | x => x
             end
  | OutOfModel => r
  end.
