(* C05 -- a tiny statement language that covers exactly the shape of Process.children() in
   psutil/__init__.py (both branches), and its interpreter.  No proofs here.  The program is GENERATED from the
   ast of the source under test (props/_c05_gen.py -> coq/Gen/C05_Tables.v); the theorems that the interpreter
   run on the generated program equals the hand-written model are in ProofsGen.v.

   What the calls into the rest of psutil answer is a record of primitives [prims] (instantiated with the
   model's functions in ProofsGen.v):
     p_self     self.pid
     p_check    self._raise_if_pid_reused()
     p_map      _ppid_map().items(), in dict order
     p_new      Process(pid): the start time of the new object, or the exception raised
     p_start    the caller's side of self._start_times(x) (the other side is x's own start time)
   Python values: integers; a Process object is the pair (pid, start time) kept in two environments. *)
From PV Require Export C05.Model.
From Coq Require Import String.
Local Open Scope string_scope.
Local Open Scope Z_scope.
Local Open Scope list_scope.

Scheme Equality for exn.

Inductive ex := EVar (x : string) | ESelfPid.
Inductive cmpop := OEq | ONe | OLe | OLt | OGe | OGt.
Inductive cond :=
| CCmp (op : cmpop) (a b : ex)       (* a op b *)
| CAnd (a b : cond)                  (* a and b (short circuit) *)
| CVar (x : string).                 (* a local holding a bool *)

(* statements of a try body *)
Inductive bstmt :=
| BNewProc (dst : string) (arg : ex)             (* dst = Process(arg) *)
| BStartTimes (d1 d2 : string) (arg : string)    (* d1, d2 = self._start_times(arg) *)
| BLet (dst : string) (c : cond)                 (* dst = <comparison> *)
| BIf (c : cond) (th : list bstmt)               (* if c: th *)
| BAppendRet (x : string)                        (* ret.append(x), x a Process local *)
| BPush (a : ex).                                (* stack.append(a) *)

(* statements of a for body *)
Inductive cstmt :=
| CIf (g : cond) (th : list cstmt)               (* if g: th *)
| CIfContinue (g : cond)                         (* if g: continue *)
| CTry (body : list bstmt) (handlers : list exn) (* try: body / except (handlers): pass *)
| CRevAppend (key val : ex).                     (* reverse_ppid_map[key].append(val) *)

(* statements of the while body *)
Inductive wstmt :=
| WPop (x : string)                              (* x = stack.pop() *)
| WIfSeenContinue (a : ex)                       (* if a in seen: continue *)
| WSeenAdd (a : ex)                              (* seen.add(a) *)
| WForRev (v : string) (key : ex) (body : list cstmt).   (* for v in reverse_ppid_map[key]: body *)

Inductive top :=
| TCheck                                         (* self._raise_if_pid_reused() *)
| TMap                                           (* ppid_map = _ppid_map() *)
| TRetInit                                       (* ret = [] *)
| TRevInit                                       (* reverse_ppid_map = collections.defaultdict(list) *)
| TSeenInit                                      (* seen = set() *)
| TStackInit (a : ex)                            (* stack = [a] *)
| TForItems (v1 v2 : string) (body : list cstmt) (* for v1, v2 in ppid_map.items(): body *)
| TWhileStack (body : list wstmt)                (* while stack: body *)
| TReturnRet.                                    (* return ret *)

(* def children(self, recursive=False): pre; if [not] recursive: th else: el; post *)
Record children_prog := { cp_pre : list top; cp_neg : bool; cp_then : list top; cp_else : list top; cp_post : list top }.

Record prims := { p_self : Z; p_check : outcome unit; p_map : list (Z * Z);
                  p_new : Z -> outcome Z; p_start : outcome Z }.

Record st := { s_env : list (string * Z);        (* integer locals; a Process local holds its pid *)
               s_pst : list (string * Z);        (* start time of the Process locals *)
               s_map : option (list (Z * Z));    (* ppid_map *)
               s_ret : option (list Z);          (* ret: pids of the appended objects *)
               s_stack : option (list Z);        (* stack, TOP FIRST (append = cons, pop = head) *)
               s_seen : option (list Z);
               s_rev : option (list (Z * Z)) }.  (* reverse_ppid_map as (key, value) in append order *)
Definition st0 : st := {| s_env := []; s_pst := []; s_map := None; s_ret := None; s_stack := None; s_seen := None; s_rev := None |}.

Definition w_env f s := {| s_env := f (s_env s); s_pst := s_pst s; s_map := s_map s; s_ret := s_ret s; s_stack := s_stack s; s_seen := s_seen s; s_rev := s_rev s |}.
Definition w_pst f s := {| s_env := s_env s; s_pst := f (s_pst s); s_map := s_map s; s_ret := s_ret s; s_stack := s_stack s; s_seen := s_seen s; s_rev := s_rev s |}.
Definition w_map v s := {| s_env := s_env s; s_pst := s_pst s; s_map := v; s_ret := s_ret s; s_stack := s_stack s; s_seen := s_seen s; s_rev := s_rev s |}.
Definition w_ret v s := {| s_env := s_env s; s_pst := s_pst s; s_map := s_map s; s_ret := v; s_stack := s_stack s; s_seen := s_seen s; s_rev := s_rev s |}.
Definition w_stack v s := {| s_env := s_env s; s_pst := s_pst s; s_map := s_map s; s_ret := s_ret s; s_stack := v; s_seen := s_seen s; s_rev := s_rev s |}.
Definition w_seen v s := {| s_env := s_env s; s_pst := s_pst s; s_map := s_map s; s_ret := s_ret s; s_stack := s_stack s; s_seen := v; s_rev := s_rev s |}.
Definition w_rev v s := {| s_env := s_env s; s_pst := s_pst s; s_map := s_map s; s_ret := s_ret s; s_stack := s_stack s; s_seen := s_seen s; s_rev := v |}.

(* how a statement ends: normally, by continue, by an exception, or outside the language (unbound name) *)
Inductive res := ROk (s : st) | RCont (s : st) | RExc (e : exn) (s : st) | RBad.

Definition getv (e : list (string * Z)) (x : string) : option Z :=
  match find (fun p => String.eqb (fst p) x) e with Some p => Some (snd p) | None => None end.
Definition setv (x : string) (v : Z) (s : st) : st := w_env (fun e => (x, v) :: e) s.

Definition cmp (op : cmpop) (a b : Z) : bool :=
  match op with
  | OEq => a =? b | ONe => negb (a =? b) | OLe => a <=? b | OLt => a <? b | OGe => b <=? a | OGt => b <? a
  end.

Section Interp.
Variable pr : prims.

Definition eval (a : ex) (s : st) : option Z :=
  match a with EVar x => getv (s_env s) x | ESelfPid => Some (p_self pr) end.

Fixpoint evalc (c : cond) (s : st) : option bool :=
  match c with
  | CCmp op a b => match eval a s, eval b s with Some x, Some y => Some (cmp op x y) | _, _ => None end
  | CAnd a b => match evalc a s with Some true => evalc b s | Some false => Some false | None => None end
  | CVar x => match getv (s_env s) x with Some v => Some (negb (v =? 0)) | None => None end
  end.

Fixpoint bexec (b : bstmt) (s : st) : res :=
  match b with
  | BNewProc d a =>
      match eval a s with
      | None => RBad
      | Some q => match p_new pr q with
                  | Val c => ROk (w_pst (fun e => (d, c) :: e) (setv d q s))
                  | Exc e => RExc e s
                  | OutOfModel => RBad
                  end
      end
  | BStartTimes d1 d2 x =>
      match getv (s_pst s) x with
      | None => RBad
      | Some c => match p_start pr with
                  | Val m => ROk (setv d2 c (setv d1 m s))
                  | Exc e => RExc e s
                  | OutOfModel => RBad
                  end
      end
  | BLet d c => match evalc c s with Some v => ROk (setv d (if v then 1 else 0) s) | None => RBad end
  | BIf c th =>
      match evalc c s with
      | None => RBad
      | Some false => ROk s
      | Some true =>
          (fix go (l : list bstmt) (s : st) : res :=
             match l with
             | [] => ROk s
             | x :: r => match bexec x s with ROk s' => go r s' | o => o end
             end) th s
      end
  | BAppendRet x =>
      match getv (s_env s) x, getv (s_pst s) x, s_ret s with
      | Some q, Some _, Some r => ROk (w_ret (Some (r ++ [q])) s)
      | _, _, _ => RBad
      end
  | BPush a =>
      match eval a s, s_stack s with
      | Some q, Some k => ROk (w_stack (Some (q :: k)) s)
      | _, _ => RBad
      end
  end.

Fixpoint bseq (l : list bstmt) (s : st) : res :=
  match l with
  | [] => ROk s
  | x :: r => match bexec x s with ROk s' => bseq r s' | o => o end
  end.

Fixpoint cexec (c : cstmt) (s : st) : res :=
  match c with
  | CIf g th =>
      match evalc g s with
      | None => RBad
      | Some false => ROk s
      | Some true =>
          (fix go (l : list cstmt) (s : st) : res :=
             match l with
             | [] => ROk s
             | x :: r => match cexec x s with ROk s' => go r s' | o => o end
             end) th s
      end
  | CIfContinue g => match evalc g s with None => RBad | Some true => RCont s | Some false => ROk s end
  | CTry body hs =>
      match bseq body s with
      | RExc e s' => if existsb (exn_beq e) hs then ROk s' else RExc e s'
      | o => o
      end
  | CRevAppend k v =>
      match eval k s, eval v s, s_rev s with
      | Some a, Some b, Some r => ROk (w_rev (Some (r ++ [(a, b)])) s)
      | _, _, _ => RBad
      end
  end.

Fixpoint cseq (l : list cstmt) (s : st) : res :=
  match l with
  | [] => ROk s
  | x :: r => match cexec x s with ROk s' => cseq r s' | o => o end
  end.

(* a for loop: bind the loop variable(s), run the body; continue ends the item only *)
Fixpoint forloop {A} (bind : A -> st -> st) (body : list cstmt) (items : list A) (s : st) : res :=
  match items with
  | [] => ROk s
  | x :: r => match cseq body (bind x s) with
              | ROk s' | RCont s' => forloop bind body r s'
              | o => o
              end
  end.

Definition wexec (w : wstmt) (s : st) : res :=
  match w with
  | WPop x => match s_stack s with
              | Some (q :: k) => ROk (setv x q (w_stack (Some k) s))
              | Some [] => RExc IndexError s
              | None => RBad
              end
  | WIfSeenContinue a => match eval a s, s_seen s with
                         | Some q, Some sn => if memz q sn then RCont s else ROk s
                         | _, _ => RBad
                         end
  | WSeenAdd a => match eval a s, s_seen s with
                  | Some q, Some sn => ROk (w_seen (Some (q :: sn)) s)
                  | _, _ => RBad
                  end
  | WForRev v key body =>
      match eval key s, s_rev s with
      | Some k, Some r => forloop (fun q => setv v q) body (map snd (filter (fun kv => fst kv =? k) r)) s
      | _, _ => RBad
      end
  end.

Fixpoint wseq (l : list wstmt) (s : st) : res :=
  match l with
  | [] => ROk s
  | x :: r => match wexec x s with ROk s' => wseq r s' | o => o end
  end.

(* while stack: one unit of fuel per iteration; None = fuel exhausted *)
Fixpoint wloop (body : list wstmt) (fuel : nat) (s : st) : option res :=
  match s_stack s with
  | None => Some RBad
  | Some [] => Some (ROk s)
  | Some (_ :: _) =>
      match fuel with
      | O => None
      | S f => match wseq body s with
               | ROk s' | RCont s' => wloop body f s'
               | o => Some o
               end
      end
  end.

(* a top-level statement: Some (inl state) = go on, Some (inr l) = returned l, None = out of fuel *)
Inductive tres := TGo (s : st) | TRet (l : list Z) | TExc (e : exn) | TBad | TFuel.

Definition texec (fuel : nat) (x : top) (s : st) : tres :=
  match x with
  | TCheck => match p_check pr with Val _ => TGo s | Exc e => TExc e | OutOfModel => TBad end
  | TMap => TGo (w_map (Some (p_map pr)) s)
  | TRetInit => TGo (w_ret (Some []) s)
  | TRevInit => TGo (w_rev (Some []) s)
  | TSeenInit => TGo (w_seen (Some []) s)
  | TStackInit a => match eval a s with Some q => TGo (w_stack (Some [q]) s) | None => TBad end
  | TForItems v1 v2 body =>
      match s_map s with
      | None => TBad
      | Some m => match forloop (fun kv s => setv v2 (snd kv) (setv v1 (fst kv) s)) body m s with
                  | ROk s' => TGo s'
                  | RExc e _ => TExc e
                  | _ => TBad
                  end
      end
  | TWhileStack body =>
      match wloop body fuel s with
      | None => TFuel
      | Some (ROk s') => TGo s'
      | Some (RExc e _) => TExc e
      | Some _ => TBad
      end
  | TReturnRet => match s_ret s with Some l => TRet l | None => TBad end
  end.

Fixpoint tseq (fuel : nat) (l : list top) (s : st) : tres :=
  match l with
  | [] => TGo s
  | x :: r => match texec fuel x s with TGo s' => tseq fuel r s' | o => o end
  end.

(* children(recursive): Val (Some l) = returned l, Val None = the while loop ran out of fuel *)
Definition run_children (p : children_prog) (recursive : bool) (fuel : nat) : outcome (option (list Z)) :=
  match tseq fuel (cp_pre p) st0 with
  | TGo s1 =>
      match tseq fuel (if xorb (cp_neg p) recursive then cp_then p else cp_else p) s1 with
      | TGo s2 => match tseq fuel (cp_post p) s2 with
                  | TRet l => Val (Some l)
                  | TExc e => Exc e
                  | TFuel => Val None
                  | _ => OutOfModel           (* fell off the end: returns None, not a list *)
                  end
      | TRet l => Val (Some l)
      | TExc e => Exc e
      | TFuel => Val None
      | TBad => OutOfModel
      end
  | TRet l => Val (Some l)
  | TExc e => Exc e
  | TFuel => Val None
  | TBad => OutOfModel
  end.
End Interp.

(* ------------------------------------------------------------------ Process.parent()
   A second tiny language for the shape of parent(): straight-line statements, two kinds of early return, one try.
   Primitives: those of children() plus the lowest-PID expression and self.ppid(). *)
Inductive pstmt :=
| PCheck                                          (* self._raise_if_pid_reused() *)
| PLowest (x : string)                            (* x = _LOWEST_PID if _LOWEST_PID is not None else pids()[0] *)
| PIfReturnNone (c : cond)                        (* if c: return None *)
| PPpid (x : string)                              (* x = self.ppid() *)
| PIfNotNone (x : string) (th : list pstmt)       (* if x is not None: th   (x an integer local: never None) *)
| PTry (body : list pstmt) (handlers : list exn)  (* try: body / except (handlers): pass *)
| PNewProc (dst : string) (arg : ex)              (* dst = Process(arg) *)
| PStartTimes (d1 d2 : string) (arg : string)     (* d1, d2 = self._start_times(arg) *)
| PIfReturnProc (c : cond) (x : string).          (* if c: return x   (x a Process local) *)

Record pprims := { q_base : prims; q_lowest : outcome Z; q_ppid : outcome Z }.

Inductive pres := PGo (s : st) | PRetNone | PRetProc (pid start : Z) | PExc (e : exn) (s : st) | PBad.

Section InterpParent.
Variable qr : pprims.
Let pr := q_base qr.

Fixpoint pexec (p : pstmt) (s : st) : pres :=
  let pseq := fix pseq (l : list pstmt) (s : st) : pres :=
                match l with
                | [] => PGo s
                | x :: r => match pexec x s with PGo s' => pseq r s' | o => o end
                end in
  match p with
  | PCheck => match p_check pr with Val _ => PGo s | Exc e => PExc e s | OutOfModel => PBad end
  | PLowest x => match q_lowest qr with Val l => PGo (setv x l s) | Exc e => PExc e s | OutOfModel => PBad end
  | PIfReturnNone c => match evalc pr c s with None => PBad | Some true => PRetNone | Some false => PGo s end
  | PPpid x => match q_ppid qr with Val l => PGo (setv x l s) | Exc e => PExc e s | OutOfModel => PBad end
  | PIfNotNone x th => match getv (s_env s) x with None => PBad | Some _ => pseq th s end
  | PTry body hs =>
      match pseq body s with
      | PExc e s' => if existsb (exn_beq e) hs then PGo s' else PExc e s'
      | o => o
      end
  | PNewProc d a =>
      match eval pr a s with
      | None => PBad
      | Some q => match p_new pr q with
                  | Val c => PGo (w_pst (fun e => (d, c) :: e) (setv d q s))
                  | Exc e => PExc e s
                  | OutOfModel => PBad
                  end
      end
  | PStartTimes d1 d2 x =>
      match getv (s_pst s) x with
      | None => PBad
      | Some c => match p_start pr with
                  | Val m => PGo (setv d2 c (setv d1 m s))
                  | Exc e => PExc e s
                  | OutOfModel => PBad
                  end
      end
  | PIfReturnProc c x =>
      match evalc pr c s with
      | None => PBad
      | Some false => PGo s
      | Some true => match getv (s_env s) x, getv (s_pst s) x with
                     | Some q, Some c => PRetProc q c
                     | _, _ => PBad
                     end
      end
  end.

Fixpoint pseq (l : list pstmt) (s : st) : pres :=
  match l with
  | [] => PGo s
  | x :: r => match pexec x s with PGo s' => pseq r s' | o => o end
  end.

(* parent(): Some (pid, start) of the returned object, or None (also when the body falls off its end) *)
Definition run_parent (body : list pstmt) : outcome (option (Z * Z)) :=
  match pseq body st0 with
  | PGo _ | PRetNone => Val None
  | PRetProc q c => Val (Some (q, c))
  | PExc e _ => Exc e
  | PBad => OutOfModel
  end.
End InterpParent.
