(* C05 -- the computable descendant test of the specification ([climbs] with fuel |t|,
   used by the harness as the oracle) decides exactly the inductive [desc]. *)
From PV Require Export C05.Proofs.

Section Climb.
  Variables (t : table) (gone : list Z) (self s0 : Z).
  Hypothesis N : NoDup (pids_of t).

  (* the parent links followed from q up to the first process whose parent is the caller *)
  Inductive cpath : Z -> list Z -> Prop :=
  | cp_end q e : lookup t q = Some e -> elig gone s0 e = true -> kp_ppid e = self -> cpath q []
  | cp_step q e l : lookup t q = Some e -> elig gone s0 e = true -> kp_ppid e <> self ->
                    cpath (kp_ppid e) l -> cpath q (kp_ppid e :: l).

  Lemma desc_cpath : forall q, desc t gone self s0 q -> exists l, cpath q l.
  Proof.
    intros q D. induction D as [e He E El | e He El D IH].
    - exists []. apply (cp_end _ e); [apply lookup_complete; assumption | exact El | exact E].
    - destruct (Z.eq_dec (kp_ppid e) self) as [Ep|Ep].
      + exists []. apply (cp_end _ e); [apply lookup_complete; assumption | exact El | exact Ep].
      + destruct IH as [l Hl]. exists (kp_ppid e :: l).
        apply (cp_step _ e); [apply lookup_complete; assumption | exact El | exact Ep | exact Hl].
  Qed.

  Lemma cpath_fun : forall q l, cpath q l -> forall l', cpath q l' -> l = l'.
  Proof.
    intros q l C. induction C as [q e L El Ep | q e l L El Ep C IH]; intros l' C'.
    - inversion C' as [q0 e0 L0 El0 Ep0 | q0 e0 l0 L0 El0 Ep0 C0]; subst; [reflexivity|].
      rewrite L in L0. inversion L0; subst. contradiction.
    - inversion C' as [q0 e0 L0 El0 Ep0 | q0 e0 l0 L0 El0 Ep0 C0]; subst.
      + rewrite L in L0. inversion L0; subst. contradiction.
      + rewrite L in L0. inversion L0; subst. f_equal. apply IH. exact C0.
  Qed.

  Lemma cpath_suffix : forall l1 p q l2, cpath p (l1 ++ q :: l2) -> cpath q l2.
  Proof.
    induction l1 as [|a l1 IH]; intros p q l2 C; cbn [app] in C.
    - inversion C; subst. assumption.
    - inversion C as [|q0 e0 l0 L0 El0 Ep0 C0]; subst. apply (IH _ q l2 C0).
  Qed.

  Lemma cpath_not_in : forall p l, cpath p l -> ~ In p l.
  Proof.
    intros p l C Hin. apply in_split in Hin. destruct Hin as [l1 [l2 E]]. subst l.
    pose proof (cpath_suffix l1 p p l2 C) as C2.
    pose proof (cpath_fun p _ C _ C2) as E.
    apply (f_equal (@length Z)) in E. rewrite app_length in E. cbn [length] in E. lia.
  Qed.

  Lemma cpath_NoDup : forall p l, cpath p l -> NoDup (p :: l).
  Proof.
    intros p l C. induction C as [q e L El Ep | q e l L El Ep C IH].
    - constructor; [intros [] | constructor].
    - constructor; [|exact IH]. apply (cpath_not_in q (kp_ppid e :: l)). apply (cp_step q e); assumption.
  Qed.

  Lemma cpath_listed : forall p l, cpath p l -> incl (p :: l) (pids_of t).
  Proof.
    intros p l C. induction C as [q e L El Ep | q e l L El Ep C IH].
    - intros x [Hx|[]]. subst x. apply lookup_In in L. destruct L as [He Eq]. subst q.
      unfold pids_of. apply in_map. exact He.
    - intros x [Hx|Hx]; [|apply IH; exact Hx].
      subst x. apply lookup_In in L. destruct L as [He Eq]. subst q. unfold pids_of. apply in_map. exact He.
  Qed.

  Lemma cpath_climbs : forall p l, cpath p l -> climbs t gone self s0 (S (length l)) p = true.
  Proof.
    intros p l C. induction C as [q e L El Ep | q e l L El Ep C IH].
    - cbn [climbs length]. rewrite L, El. apply Z.eqb_eq in Ep. rewrite Ep. reflexivity.
    - change (climbs t gone self s0 (S (length (kp_ppid e :: l))) q) with
        (match lookup t q with
         | None => false
         | Some e' => elig gone s0 e' && ((kp_ppid e' =? self) || climbs t gone self s0 (S (length l)) (kp_ppid e'))
         end).
      rewrite L, El, IH. apply orb_true_r.
  Qed.

  Lemma climbs_mono : forall n m q, (n <= m)%nat ->
    climbs t gone self s0 n q = true -> climbs t gone self s0 m q = true.
  Proof.
    induction n as [|n IH]; intros m q Le H; [discriminate|].
    destruct m as [|m]; [lia|]. cbn [climbs] in *. destruct (lookup t q) as [e|]; [|discriminate].
    apply andb_true_iff in H. destruct H as [El H]. rewrite El. cbn [andb].
    apply orb_true_iff in H. destruct H as [H|H]; [rewrite H; reflexivity|].
    rewrite (IH m (kp_ppid e)); [apply orb_true_r | lia | exact H].
  Qed.

  Theorem desc_climbs : forall q, desc t gone self s0 q -> climbs t gone self s0 (length t) q = true.
  Proof.
    intros q D. destruct (desc_cpath q D) as [l C].
    pose proof (NoDup_incl_length (cpath_NoDup q l C) (cpath_listed q l C)) as Len.
    unfold pids_of in Len. rewrite map_length in Len. cbn [length] in Len.
    apply (climbs_mono (S (length l))); [exact Len | apply cpath_climbs; exact C].
  Qed.

  Lemma desc_listed : forall q, desc t gone self s0 q -> In q (pids_of t).
  Proof. intros q D. destruct D; unfold pids_of; apply in_map; assumption. Qed.

  Theorem spec_descendants_exact : forall q,
    In q (spec_descendants t gone self s0) <-> (desc t gone self s0 q /\ q <> self).
  Proof.
    intros q. unfold spec_descendants. rewrite filter_In. split.
    - intros [_ H]. apply andb_true_iff in H. destruct H as [H1 H2].
      apply negb_true_iff in H1. apply Z.eqb_neq in H1. split; [|exact H1].
      apply (climbs_desc t gone self s0 (length t) q H2).
    - intros [D Ne]. split; [apply desc_listed; exact D|].
      apply andb_true_iff. split; [apply negb_true_iff; apply Z.eqb_neq; exact Ne | apply desc_climbs; exact D].
  Qed.
End Climb.
