(* C05 -- processes vanishing while parent() / parents() look at them. *)
From PV Require Export C05.ProofsParent.

(* parent(): a parent that vanishes before its create_time() has been read is no parent *)
Theorem parent_spec_v : forall fx t gone cache o, wf_table t = true -> alive_b t o = true ->
  cache_fresh_b t cache = true ->
  parent fx t gone cache o = Val (spec_parent_v t gone (o_pid o) (o_ident o)).
Proof.
  intros fx t gone cache o W A F. destruct (fresh_lowest t cache o A F) as [r [Lr Rr]].
  destruct (alive_facts t o A) as [R [C [e [L S]]]].
  unfold parent, spec_parent_v, spec_parent, is_root_b.
  assert (P0 : (if fx_parent_reuse fx then raise_if_pid_reused t o else Val tt) = Val tt)
    by (destruct (fx_parent_reuse fx); [exact R | reflexivity]).
  rewrite P0. cbn [obind]. rewrite Lr, Rr. cbn [obind].
  destruct (o_pid o =? r); [reflexivity|].
  unfold ppid_call. rewrite R, L, C. cbn [obind].
  pose proof (lookup_In _ _ _ L) as [He _].
  destruct (wf_range t e W He) as [_ [P1 P2]].
  unfold proc_new.
  assert (X1 : (kp_ppid e <? 0) = false) by (apply Z.ltb_ge; exact P1). rewrite X1.
  assert (X2 : (PID_MAX <? kp_ppid e) = false) by (apply Z.ltb_ge; exact P2). rewrite X2.
  destruct (memz (kp_ppid e) gone); [reflexivity|].
  destruct (lookup t (kp_ppid e)) as [pe|] eqn:Lp; [|reflexivity].
  apply lookup_In in Lp. destruct Lp as [_ Ep]. rewrite Ep.
  destruct (kp_start pe <=? o_ident o); reflexivity.
Qed.

(* ------------------------------------------------------------ a table minus one process *)
Lemma nodupb_filter : forall (f : kproc -> bool) t, nodupb (pids_of t) = true -> nodupb (pids_of (filter f t)) = true.
Proof.
  intros f t H. apply NoDup_nodupb. apply nodupb_NoDup in H. unfold pids_of in *.
  induction t as [|e r IH]; cbn [filter map]; [constructor|].
  cbn [map] in H. inversion H as [|? ? Hn Nr]; subst. destruct (f e).
  - cbn [map]. constructor; [|apply IH; exact Nr].
    intros Hin. apply Hn. apply in_map_iff in Hin. destruct Hin as [e' [E He']].
    apply filter_In in He'. destruct He' as [He' _]. rewrite <- E. apply in_map. exact He'.
  - apply IH. exact Nr.
Qed.

Lemma wf_remove : forall q t, wf_table t = true -> wf_table (remove_pid q t) = true.
Proof.
  intros q t W. unfold wf_table in *. apply andb_true_iff in W. destruct W as [W1 W2].
  apply andb_true_iff. split.
  - apply nodupb_filter. exact W1.
  - rewrite forallb_forall in *. intros e He. unfold remove_pid in He. apply filter_In in He.
    destruct He as [He _]. apply W2. exact He.
Qed.

(* with a lowest-PID cache in place parent() ends with a value or NoSuchProcess, nothing else *)
Lemma parent_val_or_nsp : forall fx t g l o, wf_table t = true ->
  (exists x, parent fx t g (Some l) o = Val x) \/ parent fx t g (Some l) o = Exc NoSuchProcess.
Proof.
  intros fx t g l o W. unfold parent.
  assert (R : raise_if_pid_reused t o = Val tt \/ raise_if_pid_reused t o = Exc NoSuchProcess).
  { unfold raise_if_pid_reused. destruct (lookup t (o_pid o)) as [e|]; [|left; reflexivity].
    destruct (kp_start e =? o_ident o); [left | right]; reflexivity. }
  assert (R0 : (if fx_parent_reuse fx then raise_if_pid_reused t o else Val tt) = Val tt \/
               (if fx_parent_reuse fx then raise_if_pid_reused t o else Val tt) = Exc NoSuchProcess).
  { destruct (fx_parent_reuse fx); [exact R | left; reflexivity]. }
  destruct R0 as [R0|R0]; rewrite R0; cbn [obind lowest_pid]; [|right; reflexivity].
  destruct (o_pid o =? l); [left; eexists; reflexivity|].
  unfold ppid_call. destruct R as [R|R]; rewrite R; cbn [obind]; [|right; reflexivity].
  destruct (lookup t (o_pid o)) as [e|] eqn:L; cbn [obind]; [|right; reflexivity].
  assert (C : (exists c, self_ctime t o = Val c)).
  { unfold self_ctime. destruct (o_ctime o) as [c|]; [exists c; reflexivity|]. rewrite L. eexists. reflexivity. }
  destruct C as [c C]. rewrite C. cbn [obind].
  pose proof (lookup_In _ _ _ L) as [He _].
  destruct (wf_range t e W He) as [_ [P1 P2]].
  unfold proc_new.
  assert (X1 : (kp_ppid e <? 0) = false) by (apply Z.ltb_ge; exact P1). rewrite X1.
  assert (X2 : (PID_MAX <? kp_ppid e) = false) by (apply Z.ltb_ge; exact P2). rewrite X2.
  destruct (memz (kp_ppid e) g); [left; eexists; reflexivity|].
  destruct (lookup t (kp_ppid e)) as [pe|]; [|left; eexists; reflexivity].
  destruct (kp_start pe <=? c); left; eexists; reflexivity.
Qed.

(* with the proposed repair the loop never lets an exception out *)
Lemma loop_total_v : forall fx t g gb l, fx_parents_seen fx = true -> fx_parents_nsp fx = true ->
  wf_table t = true ->
  forall fuel seen cur acc,
    parents_loop fx t g gb (Some l) fuel seen cur acc = Val None \/
    exists r, parents_loop fx t g gb (Some l) fuel seen cur acc = Val (Some r).
Proof.
  intros fx t g gb l F1 F2 W. induction fuel as [|f IH]; intros seen cur acc;
    (destruct cur as [[q sq]|]; [|right; eexists; apply loop_none]);
    destruct (memz q seen) eqn:M.
  - right. eexists. apply (loop_seen fx t g gb (Some l) O seen q sq acc F1 M).
  - left. apply loop_zero. rewrite M. apply andb_false_r.
  - right. eexists. apply (loop_seen fx t g gb (Some l) (S f) seen q sq acc F1 M).
  - rewrite (loop_unfold fx t g gb (Some l) f seen q sq acc); [|rewrite M; apply andb_false_r].
    assert (W' : wf_table (if memz q gb then remove_pid q t else t) = true)
      by (destruct (memz q gb); [apply wf_remove; exact W | exact W]).
    destruct (parent_val_or_nsp fx _ g l (obj_of (q, sq)) W') as [[x Hx]|Hx]; rewrite Hx.
    + apply IH.
    + rewrite F2. right. eexists. reflexivity.
Qed.

Lemma cache_after_some : forall t cache o, alive_b t o = true -> exists l, cache_after t cache = Some l.
Proof.
  intros t cache o A. unfold cache_after. destruct cache as [l|]; [exists l; reflexivity|].
  destruct (alive_facts t o A) as [_ [_ [e [L _]]]]. apply lookup_In in L. destruct L as [He _].
  unfold min_pid, pids_of. destruct t as [|a t']; [destruct He|]. cbn [map]. eexists. reflexivity.
Qed.

(* parents() with the proposed repair: whatever vanishes while the chain is walked
   (before or after an ancestor has been appended), a live caller gets a list *)
Theorem parents_vanish_total : forall fx t gone goneb cache o,
  fx_parents_seen fx = true -> fx_parents_nsp fx = true ->
  wf_table t = true -> alive_b t o = true -> cache_fresh_b t cache = true ->
  exists l, parents fx (S (length t)) t gone goneb cache o = Val (Some l).
Proof.
  intros fx t gone goneb cache o F1 F2 W A F.
  pose proof (parents_terminates fx t gone goneb cache o F1) as T.
  unfold parents in *. rewrite (parent_spec_v fx t gone cache o W A F) in *. cbn [obind] in *.
  destruct (cache_after_some t cache o A) as [l Hl]. rewrite Hl in *.
  destruct (loop_total_v fx t gone goneb l F1 F2 W (S (length t)) [o_pid o]
              (spec_parent_v t gone (o_pid o) (o_ident o)) []) as [N|[r Hr]]; [contradiction|].
  exists r. exact Hr.
Qed.

(* the code as it is: an ancestor that vanishes after it was appended makes parents() of a
   LIVE caller raise NoSuchProcess (for that ancestor's PID) *)
Definition chain3 : table := [ {| kp_pid := 1; kp_ppid := 0; kp_start := 1 |};
                               {| kp_pid := 5; kp_ppid := 1; kp_start := 10 |};
                               {| kp_pid := 8; kp_ppid := 5; kp_start := 20 |} ].
Definition o8 : pobj := {| o_pid := 8; o_ident := 20; o_ctime := None |}.

Theorem parents_vanish_refuted :
  exists t goneb o, wf_table t = true /\ alive_b t o = true /\
    parents as_is (S (length t)) t [] goneb None o = Exc NoSuchProcess /\
    parents with_nsp_fix (S (length t)) t [] goneb None o = Val (Some [5]).
Proof. exists chain3, [5], o8. repeat split; vm_compute; reflexivity. Qed.

(* when it vanishes earlier (before its create_time() was read) it is simply not a parent *)
Example chain3_gone_early : parents as_is 4 chain3 [5] [] None o8 = Val (Some [])
                            /\ parent as_is chain3 [5] None o8 = Val None.
Proof. split; vm_compute; reflexivity. Qed.
