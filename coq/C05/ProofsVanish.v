(* C05 -- processes vanishing while parent() / parents() look at them. *)
From PV Require Export C05.ProofsParent.

(* parent(): a parent that vanishes before its create_time() has been read is no parent *)
Theorem parent_spec_v : forall fx t gone cache o, wf_table t = true -> alive_b t o = true ->
  cache_fresh_b t cache = true ->
  parent fx t gone cache o = Val (spec_parent_v t gone (o_pid o) (o_ident o)).
Proof.
  intros fx t gone cache o W A F. destruct (fresh_lowest t cache o A F) as [r [Lr Rr]].
  destruct (alive_facts t o A) as [R [C [e [L S]]]].
  unfold parent, spec_parent_v, spec_parent, is_root_b.
  assert (P0 : (if fx_parent_reuse fx then raise_if_pid_reused t o else Val tt) = Val tt)
    by (destruct (fx_parent_reuse fx); [exact R | reflexivity]).
  rewrite P0. cbn [obind]. rewrite Lr, Rr. cbn [obind].
  destruct (o_pid o =? r); [reflexivity|].
  unfold ppid_call. rewrite R, L. cbn [obind]. rewrite (caller_start_alive fx t o A). cbn [obind].
  pose proof (lookup_In _ _ _ L) as [He _].
  destruct (wf_range t e W He) as [_ [P1 P2]].
  unfold proc_new.
  assert (X1 : (kp_ppid e <? 0) = false) by (apply Z.ltb_ge; exact P1). rewrite X1.
  assert (X2 : (PID_MAX <? kp_ppid e) = false) by (apply Z.ltb_ge; exact P2). rewrite X2.
  destruct (memz (kp_ppid e) gone); [reflexivity|].
  destruct (lookup t (kp_ppid e)) as [pe|] eqn:Lp; [|reflexivity].
  apply lookup_In in Lp. destruct Lp as [_ Ep]. rewrite Ep.
  destruct (kp_start pe <=? o_ident o); reflexivity.
Qed.

(* ------------------------------------------------------------ a table minus one process *)
Lemma nodupb_filter : forall (f : kproc -> bool) t, nodupb (pids_of t) = true -> nodupb (pids_of (filter f t)) = true.
Proof.
  intros f t H. apply NoDup_nodupb. apply nodupb_NoDup in H. unfold pids_of in *.
  induction t as [|e r IH]; cbn [filter map]; [constructor|].
  cbn [map] in H. inversion H as [|? ? Hn Nr]; subst. destruct (f e).
  - cbn [map]. constructor; [|apply IH; exact Nr].
    intros Hin. apply Hn. apply in_map_iff in Hin. destruct Hin as [e' [E He']].
    apply filter_In in He'. destruct He' as [He' _]. rewrite <- E. apply in_map. exact He'.
  - apply IH. exact Nr.
Qed.

Lemma wf_remove : forall q t, wf_table t = true -> wf_table (remove_pid q t) = true.
Proof.
  intros q t W. unfold wf_table in *. apply andb_true_iff in W. destruct W as [W1 W2].
  apply andb_true_iff. split.
  - apply nodupb_filter. exact W1.
  - rewrite forallb_forall in *. intros e He. unfold remove_pid in He. apply filter_In in He.
    destruct He as [He _]. apply W2. exact He.
Qed.

(* with a lowest-PID cache in place parent() ends with a value or NoSuchProcess, nothing else *)
Lemma parent_val_or_nsp : forall fx t g l o, wf_table t = true ->
  (exists x, parent fx t g (Some l) o = Val x) \/ parent fx t g (Some l) o = Exc NoSuchProcess.
Proof.
  intros fx t g l o W. unfold parent.
  assert (R : raise_if_pid_reused t o = Val tt \/ raise_if_pid_reused t o = Exc NoSuchProcess).
  { unfold raise_if_pid_reused. destruct (lookup t (o_pid o)) as [e|]; [|left; reflexivity].
    destruct (o_known o && (kp_start e =? o_ident o)); [left | right]; reflexivity. }
  assert (R0 : (if fx_parent_reuse fx then raise_if_pid_reused t o else Val tt) = Val tt \/
               (if fx_parent_reuse fx then raise_if_pid_reused t o else Val tt) = Exc NoSuchProcess).
  { destruct (fx_parent_reuse fx); [exact R | left; reflexivity]. }
  destruct R0 as [R0|R0]; rewrite R0; cbn [obind lowest_pid]; [|right; reflexivity].
  destruct (o_pid o =? l); [left; eexists; reflexivity|].
  unfold ppid_call. destruct R as [R|R]; rewrite R; cbn [obind]; [|right; reflexivity].
  destruct (lookup t (o_pid o)) as [e|] eqn:L; cbn [obind]; [|right; reflexivity].
  assert (C : (exists c, caller_start fx t o = Val c)).
  { assert (Sc : exists c, self_ctime t o = Val c).
    { unfold self_ctime. destruct (o_ctime o) as [c|]; [exists c; reflexivity|]. rewrite L. eexists. reflexivity. }
    unfold caller_start. destruct (fx_mono fx); [|exact Sc].
    destruct (ident_opt o) as [s|]; [|exact Sc].
    destruct (fx_ident_some fx || negb (s =? 0)); [eexists; reflexivity | exact Sc]. }
  destruct C as [c C]. rewrite C. cbn [obind].
  pose proof (lookup_In _ _ _ L) as [He _].
  destruct (wf_range t e W He) as [_ [P1 P2]].
  unfold proc_new.
  assert (X1 : (kp_ppid e <? 0) = false) by (apply Z.ltb_ge; exact P1). rewrite X1.
  assert (X2 : (PID_MAX <? kp_ppid e) = false) by (apply Z.ltb_ge; exact P2). rewrite X2.
  destruct (memz (kp_ppid e) g); [left; eexists; reflexivity|].
  destruct (lookup t (kp_ppid e)) as [pe|]; [|left; eexists; reflexivity].
  destruct (kp_start pe <=? c); left; eexists; reflexivity.
Qed.

(* with the proposed repair the loop never lets an exception out *)
Lemma loop_total_v : forall fx t g gb l, fx_parents_seen fx = true -> fx_parents_nsp fx = true ->
  wf_table t = true ->
  forall fuel seen cur acc,
    parents_loop fx t g gb (Some l) fuel seen cur acc = Val None \/
    exists r, parents_loop fx t g gb (Some l) fuel seen cur acc = Val (Some r).
Proof.
  intros fx t g gb l F1 F2 W. induction fuel as [|f IH]; intros seen cur acc;
    (destruct cur as [[q sq]|]; [|right; eexists; apply loop_none]);
    destruct (memz q seen) eqn:M.
  - right. eexists. apply (loop_seen fx t g gb (Some l) O seen q sq acc F1 M).
  - left. apply loop_zero. rewrite M. apply andb_false_r.
  - right. eexists. apply (loop_seen fx t g gb (Some l) (S f) seen q sq acc F1 M).
  - rewrite (loop_unfold fx t g gb (Some l) f seen q sq acc); [|rewrite M; apply andb_false_r].
    assert (W' : wf_table (if memz q gb then remove_pid q t else t) = true)
      by (destruct (memz q gb); [apply wf_remove; exact W | exact W]).
    destruct (parent_val_or_nsp fx _ g l (obj_of (q, sq)) W') as [[x Hx]|Hx]; rewrite Hx.
    + apply IH.
    + rewrite F2. right. eexists. reflexivity.
Qed.

Lemma cache_after_some : forall t cache o, alive_b t o = true -> exists l, cache_after t cache = Some l.
Proof.
  intros t cache o A. unfold cache_after. destruct cache as [l|]; [exists l; reflexivity|].
  destruct (alive_facts t o A) as [_ [_ [e [L _]]]]. apply lookup_In in L. destruct L as [He _].
  unfold min_pid, pids_of. destruct t as [|a t']; [destruct He|]. cbn [map]. eexists. reflexivity.
Qed.

(* parents() with the proposed repair: whatever vanishes while the chain is walked
   (before or after an ancestor has been appended), a live caller gets a list *)
Theorem parents_vanish_total : forall fx t gone goneb cache o,
  fx_parents_seen fx = true -> fx_parents_nsp fx = true ->
  wf_table t = true -> alive_b t o = true -> cache_fresh_b t cache = true ->
  exists l, parents fx (S (length t)) t gone goneb cache o = Val (Some l).
Proof.
  intros fx t gone goneb cache o F1 F2 W A F.
  pose proof (parents_terminates fx t gone goneb cache o F1) as T.
  unfold parents in *. rewrite (parent_spec_v fx t gone cache o W A F) in *. cbn [obind] in *.
  destruct (cache_after_some t cache o A) as [l Hl]. rewrite Hl in *.
  destruct (loop_total_v fx t gone goneb l F1 F2 W (S (length t)) [o_pid o]
              (spec_parent_v t gone (o_pid o) (o_ident o)) []) as [N|[r Hr]]; [contradiction|].
  exists r. exact Hr.
Qed.

(* the code as it is: an ancestor that vanishes after it was appended makes parents() of a
   LIVE caller raise NoSuchProcess (for that ancestor's PID) *)
Definition chain3 : table := [ {| kp_pid := 1; kp_ppid := 0; kp_start := 1 |};
                               {| kp_pid := 5; kp_ppid := 1; kp_start := 10 |};
                               {| kp_pid := 8; kp_ppid := 5; kp_start := 20 |} ].
Definition o8 : pobj := {| o_pid := 8; o_ident := 20; o_ctime := None; o_known := true |}.

Theorem parents_vanish_refuted :
  exists t goneb o, wf_table t = true /\ alive_b t o = true /\
    parents before_nsp_fix (S (length t)) t [] goneb None o = Exc NoSuchProcess /\
    parents as_is (S (length t)) t [] goneb None o = Val (Some [5]).
Proof. exists chain3, [5], o8. repeat split; vm_compute; reflexivity. Qed.

(* when it vanishes earlier (before its create_time() was read) it is simply not a parent *)
Example chain3_gone_early : parents as_is 4 chain3 [5] [] None o8 = Val (Some [])
                            /\ parent as_is chain3 [5] None o8 = Val None.
Proof. split; vm_compute; reflexivity. Qed.

(* the code as it is (repair 671469c): a live caller always gets a list, whatever vanishes *)
Theorem parents_total_v : forall t gone goneb cache o,
  wf_table t = true -> alive_b t o = true -> cache_fresh_b t cache = true ->
  exists l, parents as_is (S (length t)) t gone goneb cache o = Val (Some l).
Proof. intros t gone goneb cache o. apply parents_vanish_total; reflexivity. Qed.

(* ------------------------------------------------------------ chain_v: the demanded chain under vanishing *)
Lemma spec_parent_v_nil : forall t p s, spec_parent_v t [] p s = spec_parent t p s.
Proof.
  intros t p s. unfold spec_parent_v, spec_parent. destruct (is_root_b t p); [reflexivity|].
  destruct (lookup t p) as [e|]; reflexivity.
Qed.

Lemma spec_parent_of_v_nil : forall t p, spec_parent_of_v t [] p = spec_parent_of t p.
Proof.
  intros t p. unfold spec_parent_of_v, spec_parent_of. destruct (lookup t p); [|reflexivity].
  rewrite spec_parent_v_nil. reflexivity.
Qed.

Theorem chain_v_static : forall t p l, chain_v t [] [] p l <-> chain t p l.
Proof.
  intros t p l. split.
  - intros C. induction C as [p Hn | p q Hs Hg | p q l Hs Hg C IH].
    + apply chain_end. rewrite <- spec_parent_of_v_nil. exact Hn.
    + discriminate Hg.
    + apply chain_cons; [rewrite <- spec_parent_of_v_nil; exact Hs | exact IH].
  - intros C. induction C as [p Hn | p q l Hs C IH].
    + apply cv_end. rewrite spec_parent_of_v_nil. exact Hn.
    + apply cv_cons; [rewrite spec_parent_of_v_nil; exact Hs | reflexivity | exact IH].
Qed.

(* the harness's oracle for parents() computes that chain *)
Theorem spec_parents_v_sound : forall t gone goneb n p l,
  spec_parents_v t gone goneb n p = Some l -> chain_v t gone goneb p l /\ (length l <= S n)%nat.
Proof.
  intros t gone goneb. induction n as [|m IH]; intros p l H; cbn [spec_parents_v] in H;
    destruct (spec_parent_of_v t gone p) as [q|] eqn:Sp.
  - destruct (memz q goneb) eqn:G; [|discriminate]. injection H as <-. split; [apply (cv_gone _ _ _ p q Sp G) | cbn [length]; lia].
  - injection H as <-. split; [apply cv_end; exact Sp | cbn [length]; lia].
  - destruct (memz q goneb) eqn:G.
    + injection H as <-. split; [apply (cv_gone _ _ _ p q Sp G) | cbn [length]; lia].
    + destruct (spec_parents_v t gone goneb m q) as [l'|] eqn:R; [|discriminate].
      cbn [option_map] in H. injection H as <-. destruct (IH q l' R) as [C Len].
      split; [apply (cv_cons _ _ _ p q l' Sp G C) | cbn [length]; lia].
  - injection H as <-. split; [apply cv_end; exact Sp | cbn [length]; lia].
Qed.

(* chain_v is a function of its start, and never repeats a process *)
Lemma chain_v_fun : forall t g gb p l, chain_v t g gb p l -> forall l', chain_v t g gb p l' -> l = l'.
Proof.
  intros t g gb p l C. induction C as [p Hn | p q Hs Hg | p q l Hs Hg C IH]; intros l' C';
    inversion C' as [p0 Hn0 | p0 q0 Hs0 Hg0 | p0 q0 l0 Hs0 Hg0 C0]; subst; try congruence.
  assert (q0 = q) by congruence. subst q0. f_equal. apply IH. exact C0.
Qed.

Lemma chain_v_suffix : forall t g gb l1 p q l2, chain_v t g gb p (l1 ++ q :: l2) ->
  (l2 = [] /\ memz q gb = true) \/ chain_v t g gb q l2.
Proof.
  intros t g gb. induction l1 as [|a l1 IH]; intros p q l2 C; cbn [app] in C.
  - inversion C as [| p0 q0 Hs Hg | p0 q0 l0 Hs Hg C0]; subst; [left; auto | right; exact C0].
  - inversion C as [| p0 q0 Hs Hg | p0 q0 l0 Hs Hg C0]; subst.
    + destruct l1; discriminate.
    + apply (IH a q l2 C0).
Qed.

Lemma chain_v_not_in : forall t g gb p l, memz p gb = false -> chain_v t g gb p l -> ~ In p l.
Proof.
  intros t g gb p l Np C Hin. apply in_split in Hin. destruct Hin as [l1 [l2 E]]. subst l.
  destruct (chain_v_suffix t g gb l1 p p l2 C) as [[_ G]|C2]; [congruence|].
  pose proof (chain_v_fun t g gb p _ C _ C2) as E.
  apply (f_equal (@length Z)) in E. rewrite app_length in E. cbn [length] in E. lia.
Qed.

Lemma chain_v_NoDup : forall t g gb p l, memz p gb = false -> chain_v t g gb p l -> NoDup (p :: l).
Proof.
  intros t g gb p l Np C. induction C as [p Hn | p q Hs Hg | p q l Hs Hg C IH].
  - constructor; [intros [] | constructor].
  - constructor; [|constructor; [intros [] | constructor]]. intros [E|[]]. subst q. congruence.
  - constructor; [|apply IH; exact Hg]. apply (chain_v_not_in t g gb p (q :: l) Np).
    apply (cv_cons _ _ _ p q l Hs Hg C).
Qed.

Lemma spec_parent_v_listed : forall t g p s q sq, spec_parent_v t g p s = Some (q, sq) ->
  exists e, lookup t q = Some e /\ kp_start e = sq.
Proof.
  intros t g p s q sq H. unfold spec_parent_v in H. destruct (is_root_b t p); [discriminate|].
  destruct (lookup t p) as [e|]; [|discriminate]. destruct (memz (kp_ppid e) g); [discriminate|].
  apply (spec_parent_listed _ _ _ _ _ H).
Qed.

Lemma spec_parent_of_v_eq : forall t g q sq e, lookup t q = Some e -> kp_start e = sq ->
  spec_parent_of_v t g q = option_map fst (spec_parent_v t g q sq).
Proof. intros t g q sq e L S. unfold spec_parent_of_v. rewrite L, S. reflexivity. Qed.

Lemma lookup_removed : forall q t, lookup (remove_pid q t) q = None.
Proof.
  intros q t. unfold lookup, remove_pid. induction t as [|e r IH]; [reflexivity|].
  cbn [filter]. destruct (kp_pid e =? q) eqn:E; cbn [negb]; [exact IH|].
  cbn [find]. rewrite E. exact IH.
Qed.

Section ParentsV.
  Variables (fx : fixes) (t : table) (g gb : list Z) (low : Z).
  Hypothesis F1 : fx_parents_seen fx = true.
  Hypothesis F2 : fx_parents_nsp fx = true.
  Hypothesis W : wf_table t = true.
  Hypothesis F : cache_fresh_b t (Some low) = true.

  (* an ancestor that vanished after it was linked: appended, and the chain ends *)
  Lemma loop_goneb : forall f seen q sq acc, memz q gb = true -> memz q seen = false ->
    parents_loop fx t g gb (Some low) (S f) seen (Some (q, sq)) acc = Val (Some (acc ++ [q])).
  Proof.
    intros f seen q sq acc G M.
    rewrite (loop_unfold fx t g gb (Some low) f seen q sq acc); [|rewrite M; apply andb_false_r].
    rewrite G. unfold parent.
    assert (R : raise_if_pid_reused (remove_pid q t) (obj_of (q, sq)) = Val tt).
    { unfold raise_if_pid_reused, obj_of. cbn [o_pid fst]. rewrite lookup_removed. reflexivity. }
    assert (P0 : (if fx_parent_reuse fx then raise_if_pid_reused (remove_pid q t) (obj_of (q, sq)) else Val tt) = Val tt)
      by (destruct (fx_parent_reuse fx); [exact R | reflexivity]).
    rewrite P0. cbn [obind lowest_pid]. destruct (o_pid (obj_of (q, sq)) =? low).
    - apply loop_none.
    - unfold ppid_call. rewrite R. cbn [obind obj_of o_pid fst]. rewrite lookup_removed. cbn [obind].
      rewrite F2. reflexivity.
  Qed.

  Lemma loop_step_v : forall f seen q sq e acc, lookup t q = Some e -> kp_start e = sq ->
    memz q gb = false -> memz q seen = false ->
    parents_loop fx t g gb (Some low) (S f) seen (Some (q, sq)) acc =
    parents_loop fx t g gb (Some low) f (q :: seen) (spec_parent_v t g q sq) (acc ++ [q]).
  Proof.
    intros f seen q sq e acc L S G M.
    rewrite (loop_unfold fx t g gb (Some low) f seen q sq acc); [|rewrite M; apply andb_false_r].
    rewrite G.
    pose proof (parent_spec_v fx t g (Some low) (obj_of (q, sq)) W (obj_alive t q sq e L S) F) as P.
    rewrite P. cbn [obj_of o_pid o_ident fst snd]. reflexivity.
  Qed.

  Lemma loop_complete_v : forall l q sq e acc seen fuel, chain_v t g gb q l ->
    lookup t q = Some e -> kp_start e = sq -> memz q gb = false -> (length l < fuel)%nat ->
    (forall x, In x seen -> ~ In x (q :: l)) -> NoDup (q :: l) ->
    parents_loop fx t g gb (Some low) fuel seen (Some (q, sq)) acc = Val (Some (acc ++ q :: l)).
  Proof.
    induction l as [|q' l IH]; intros q sq e acc seen fuel Ch L St G B D ND;
      (assert (M : memz q seen = false) by (apply memz_false; intros Hq; apply (D q Hq); left; reflexivity));
      (destruct fuel as [|f]; [cbn [length] in B; lia|]);
      rewrite (loop_step_v f seen q sq e acc L St G M).
    - inversion Ch as [p Hn | |]; subst. rewrite (spec_parent_of_v_eq t g q _ e L eq_refl) in Hn.
      destruct (spec_parent_v t g q (kp_start e)); [discriminate|]. apply loop_none.
    - apply NoDup_cons_iff in ND. destruct ND as [Hq NDl].
      assert (D' : forall x, In x (q :: seen) -> ~ In x (q' :: l)).
      { intros x [Hx|Hx] Hin; [subst x; apply Hq; exact Hin | apply (D x Hx); right; exact Hin]. }
      inversion Ch as [| p q0 Hs Hg | p q0 l0 Hs Hg Ch']; subst.
      + rewrite (spec_parent_of_v_eq t g q _ e L eq_refl) in Hs.
        destruct (spec_parent_v t g q (kp_start e)) as [[q2 s2]|] eqn:SP; [|discriminate].
        cbn [option_map fst] in Hs. injection Hs as ->.
        destruct f as [|f']; [cbn [length] in B; lia|].
        rewrite (loop_goneb f' (q :: seen) q' s2 (acc ++ [q]) Hg).
        * rewrite <- app_assoc. reflexivity.
        * apply memz_false. intros Hin. apply (D' q' Hin). left. reflexivity.
      + rewrite (spec_parent_of_v_eq t g q _ e L eq_refl) in Hs.
        destruct (spec_parent_v t g q (kp_start e)) as [[q2 s2]|] eqn:SP; [|discriminate].
        cbn [option_map fst] in Hs. injection Hs as ->.
        destruct (spec_parent_v_listed _ _ _ _ _ _ SP) as [e' [L' S']].
        rewrite (IH q' s2 e' (acc ++ [q]) (q :: seen) f Ch' L' S' Hg).
        * rewrite <- app_assoc. reflexivity.
        * cbn [length] in B. lia.
        * exact D'.
        * exact NDl.
  Qed.
End ParentsV.

(* parents() returns the chain demanded under vanishing, whenever that chain ends *)
Theorem parents_chain_v_fx : forall fx t gone goneb cache o l fuel,
  fx_parents_nsp fx = true -> wf_table t = true -> alive_b t o = true -> cache_fresh_b t cache = true ->
  memz (o_pid o) goneb = false ->
  chain_v t gone goneb (o_pid o) l -> (length l <= fuel)%nat ->
  parents fx fuel t gone goneb cache o = Val (Some l).
Proof.
  intros fx t gone goneb cache o l fuel F2 W A F Ng Ch B. destruct (alive_facts t o A) as [_ [_ [e [L St]]]].
  unfold parents. rewrite (parent_spec_v fx t gone cache o W A F). cbn [obind].
  pose proof (cache_after_fresh t cache o A F) as F'.
  destruct (cache_after_some t cache o A) as [low Hl]. rewrite Hl in *.
  pose proof (chain_v_NoDup t gone goneb _ _ Ng Ch) as ND.
  apply NoDup_cons_iff in ND. destruct ND as [Hp ND'].
  inversion Ch as [p Hn | p q Hs Hg | p q l' Hs Hg Ch']; subst.
  - rewrite (spec_parent_of_v_eq t gone _ _ e L St) in Hn.
    destruct (spec_parent_v t gone (o_pid o) (o_ident o)); [discriminate|]. apply loop_none.
  - rewrite (spec_parent_of_v_eq t gone _ _ e L St) in Hs.
    destruct (spec_parent_v t gone (o_pid o) (o_ident o)) as [[q2 s2]|] eqn:SP; [|discriminate].
    cbn [option_map fst] in Hs. injection Hs as ->.
    destruct fuel as [|f]; [cbn [length] in B; lia|].
    rewrite (loop_goneb fx t gone goneb low F2 f [o_pid o] q s2 [] Hg); [reflexivity|].
    apply memz_false. intros [E|[]]. apply Hp. left. symmetry. exact E.
  - rewrite (spec_parent_of_v_eq t gone _ _ e L St) in Hs.
    destruct (spec_parent_v t gone (o_pid o) (o_ident o)) as [[q2 s2]|] eqn:SP; [|discriminate].
    cbn [option_map fst] in Hs. injection Hs as ->.
    destruct (spec_parent_v_listed _ _ _ _ _ _ SP) as [e' [L' S']].
    rewrite (loop_complete_v fx t gone goneb low F2 W F' l' q s2 e' [] [o_pid o] fuel Ch' L' S' Hg);
      [reflexivity| | |exact ND'].
    + cbn [length] in B. lia.
    + intros x [Hx|[]] Hin. subst x. apply Hp. exact Hin.
Qed.

Theorem parents_chain_v_complete : forall t gone goneb cache o l fuel,
  wf_table t = true -> alive_b t o = true -> cache_fresh_b t cache = true ->
  memz (o_pid o) goneb = false ->
  chain_v t gone goneb (o_pid o) l -> (length l <= fuel)%nat ->
  parents as_is fuel t gone goneb cache o = Val (Some l).
Proof. intros t gone goneb cache o l fuel. apply parents_chain_v_fx. reflexivity. Qed.

(* hence: whenever the harness's oracle names a chain, the model of the code returns it *)
Theorem parents_oracle : forall t gone goneb cache o l,
  wf_table t = true -> alive_b t o = true -> cache_fresh_b t cache = true ->
  memz (o_pid o) goneb = false ->
  spec_parents_v t gone goneb (length t) (o_pid o) = Some l ->
  parents as_is (S (length t)) t gone goneb cache o = Val (Some l) /\ chain_v t gone goneb (o_pid o) l.
Proof.
  intros t gone goneb cache o l W A F Ng H. destruct (spec_parents_v_sound _ _ _ _ _ _ H) as [C Len].
  split; [|exact C]. apply parents_chain_v_complete; assumption.
Qed.
