(* C05 -- list lemmas and the generic stack/seen walk: on ANY edge function in which
   every node has at most one source, the walk with fuel |universe|+1 terminates,
   returns every node at most once and exactly the nodes reachable from the start. *)
From PV Require Export C05.Spec.

Lemma memz_In : forall x l, memz x l = true <-> In x l.
Proof.
  intros x l. unfold memz. rewrite existsb_exists. split.
  - intros [y [Hy E]]. apply Z.eqb_eq in E. subst. exact Hy.
  - intros H. exists x. split; [exact H | apply Z.eqb_refl].
Qed.

Lemma memz_false : forall x l, memz x l = false <-> ~ In x l.
Proof.
  intros x l. rewrite <- memz_In. destruct (memz x l); split; congruence.
Qed.

Lemma nodupb_NoDup : forall l, nodupb l = true -> NoDup l.
Proof.
  induction l as [|x r IH]; cbn [nodupb]; intros H.
  - constructor.
  - apply andb_true_iff in H. destruct H as [H1 H2]. constructor.
    + apply negb_true_iff in H1. apply memz_false in H1. exact H1.
    + apply IH. exact H2.
Qed.

Lemma NoDup_nodupb : forall l, NoDup l -> nodupb l = true.
Proof.
  induction 1 as [|x r Hx Hr IH]; cbn [nodupb]; [reflexivity|].
  apply andb_true_iff. split; [|exact IH].
  apply negb_true_iff. apply memz_false. exact Hx.
Qed.

Lemma NoDup_map_inj : forall (A B : Type) (f : A -> B) (l : list A) x y,
  NoDup (map f l) -> In x l -> In y l -> f x = f y -> x = y.
Proof.
  intros A B f l. induction l as [|a r IH]; intros x y N Hx Hy E; [destruct Hx|].
  cbn [map] in N. inversion N as [|? ? Ha Nr]; subst.
  destruct Hx as [Hx|Hx], Hy as [Hy|Hy]; subst.
  - reflexivity.
  - exfalso. apply Ha. rewrite E. apply in_map. exact Hy.
  - exfalso. apply Ha. rewrite <- E. apply in_map. exact Hx.
  - apply IH; assumption.
Qed.

(* ------------------------------------------------------------ lookup / kids *)
Lemma lookup_In : forall t p e, lookup t p = Some e -> In e t /\ kp_pid e = p.
Proof.
  intros t p e H. unfold lookup in H. apply find_some in H. destruct H as [H1 H2].
  apply Z.eqb_eq in H2. split; assumption.
Qed.

Lemma lookup_None : forall t p, lookup t p = None -> ~ In p (pids_of t).
Proof.
  intros t p H Hin. unfold pids_of in Hin. apply in_map_iff in Hin. destruct Hin as [e [E He]].
  unfold lookup in H. apply (find_none _ _ H) in He. cbv beta in He. rewrite E in He.
  rewrite Z.eqb_refl in He. discriminate.
Qed.

Lemma lookup_complete : forall t e, NoDup (pids_of t) -> In e t -> lookup t (kp_pid e) = Some e.
Proof.
  intros t e N He. destruct (lookup t (kp_pid e)) as [e'|] eqn:L.
  - apply lookup_In in L. destruct L as [L1 L2]. f_equal.
    apply (NoDup_map_inj _ _ kp_pid t); assumption.
  - apply lookup_None in L. exfalso. apply L. unfold pids_of. apply in_map. exact He.
Qed.

Lemma In_kids : forall t p q,
  In q (kids t p) <-> exists e, In e t /\ kp_pid e = q /\ kp_ppid e = p.
Proof.
  intros t p q. unfold kids, ppid_map. rewrite in_map_iff. split.
  - intros [[a b] [E H]]. apply filter_In in H. destruct H as [H1 H2]. cbn [fst snd] in *.
    apply in_map_iff in H1. destruct H1 as [e [E1 He]]. inversion E1; subst.
    apply Z.eqb_eq in H2. exists e. auto.
  - intros [e [He [E1 E2]]]. exists (kp_pid e, kp_ppid e). split; [exact E1|].
    apply filter_In. split.
    + apply in_map_iff. exists e. auto.
    + cbn [snd]. apply Z.eqb_eq. exact E2.
Qed.

Lemma kids_sub_pids : forall t p q, In q (kids t p) -> In q (pids_of t).
Proof.
  intros t p q H. apply In_kids in H. destruct H as [e [He [E _]]]. subst.
  unfold pids_of. apply in_map. exact He.
Qed.

Lemma NoDup_kids : forall t p, NoDup (pids_of t) -> NoDup (kids t p).
Proof.
  intros t p. unfold kids, ppid_map, pids_of. induction t as [|e r IH]; cbn [map filter]; intros N.
  - constructor.
  - inversion N as [|? ? Hn Nr]; subst. cbn [snd]. destruct (kp_ppid e =? p).
    + cbn [map fst]. constructor; [|apply IH; exact Nr].
      intros Hin. apply Hn. apply in_map_iff in Hin. destruct Hin as [[a b] [E H]].
      apply filter_In in H. destruct H as [H _]. apply in_map_iff in H. destruct H as [e' [E' He']].
      inversion E'; subst. cbn [fst] in E. rewrite <- E. apply in_map. exact He'.
    + apply IH. exact Nr.
Qed.

Lemma kids_one_parent : forall t p p' q, NoDup (pids_of t) ->
  In q (kids t p) -> In q (kids t p') -> p = p'.
Proof.
  intros t p p' q N H1 H2. apply In_kids in H1. apply In_kids in H2.
  destruct H1 as [e [He [E1 E2]]]. destruct H2 as [e' [He' [E1' E2']]].
  assert (e = e') by (apply (NoDup_map_inj _ _ kp_pid t); try assumption; congruence).
  subst. reflexivity.
Qed.

(* ------------------------------------------------------------ generic walk *)
Section Walk.
  Variable E : Z -> list Z.          (* edges: E p = nodes whose source is p *)
  Variable univ : list Z.
  Variable self : Z.
  Hypothesis E_nodup : forall p, NoDup (E p).
  Hypothesis E_univ : forall p q, In q (E p) -> In q univ.
  Hypothesis E_parent : forall p p' q, In q (E p) -> In q (E p') -> p = p'.

  Fixpoint gwalk (fuel : nat) (stack seen ret : list Z) : option (list Z) :=
    match stack with
    | [] => Some ret
    | p :: st =>
        match fuel with
        | O => None
        | S f => if memz p seen then gwalk f st seen ret
                 else gwalk f (rev (E p) ++ st) (p :: seen) (ret ++ E p)
        end
    end.

  Inductive reach : Z -> Prop :=
  | reach_kid q : In q (E self) -> reach q
  | reach_step p q : reach p -> In q (E p) -> reach q.

  Record Inv (stack seen ret : list Z) : Prop := {
    inv_nodup : NoDup ret;
    inv_src : forall q, In q ret -> exists p, In p seen /\ In q (E p);
    inv_done : forall p, In p seen -> incl (E p) ret;
    inv_pend : forall q, In q ret -> In q stack \/ In q seen;
    inv_self : In self stack \/ In self seen;
    inv_sound : forall p, In p stack \/ In p seen -> p = self \/ reach p }.

  Lemma inv_len : forall stack seen ret, Inv stack seen ret -> (length ret <= length univ)%nat.
  Proof.
    intros stack seen ret I. apply NoDup_incl_length; [apply (inv_nodup _ _ _ I)|].
    intros q Hq. destruct (inv_src _ _ _ I q Hq) as [p [_ Hp]]. apply (E_univ p q Hp).
  Qed.

  Lemma inv_pop_seen : forall p st seen ret, Inv (p :: st) seen ret -> In p seen -> Inv st seen ret.
  Proof.
    intros p st seen ret I Hp. destruct I as [I1 I2 I3 I4 I5 I6]. constructor; try assumption.
    - intros q Hq. destruct (I4 q Hq) as [[H|H]|H]; subst; auto.
    - destruct I5 as [[H|H]|H]; subst; auto.
    - intros x [H|H]; apply I6; [left; right; exact H | right; exact H].
  Qed.

  Lemma inv_expand : forall p st seen ret, Inv (p :: st) seen ret -> ~ In p seen ->
    Inv (rev (E p) ++ st) (p :: seen) (ret ++ E p).
  Proof.
    intros p st seen ret I Hp. destruct I as [I1 I2 I3 I4 I5 I6]. constructor.
    - (* NoDup (ret ++ E p) *)
      assert (D : forall q, In q ret -> ~ In q (E p)).
      { intros q Hq Hq'. destruct (I2 q Hq) as [p' [Hp' Hq'']].
        assert (p' = p) by (apply (E_parent p' p q); assumption). subst. contradiction. }
      clear - I1 D E_nodup. induction ret as [|a r IH]; cbn [app].
      + apply E_nodup.
      + inversion I1 as [|? ? Ha Nr]; subst. constructor.
        * intros H. apply in_app_or in H. destruct H as [H|H]; [contradiction|].
          apply (D a); [left; reflexivity | exact H].
        * apply IH; [exact Nr|]. intros q Hq. apply D. right. exact Hq.
    - intros q Hq. apply in_app_or in Hq. destruct Hq as [Hq|Hq].
      + destruct (I2 q Hq) as [p' [H1 H2]]. exists p'. split; [right; exact H1 | exact H2].
      + exists p. split; [left; reflexivity | exact Hq].
    - intros x [Hx|Hx] q Hq.
      + subst. apply in_or_app. right. exact Hq.
      + apply in_or_app. left. apply (I3 x Hx q Hq).
    - intros q Hq. apply in_app_or in Hq. destruct Hq as [Hq|Hq].
      + destruct (I4 q Hq) as [[H|H]|H].
        * subst. right. left. reflexivity.
        * left. apply in_or_app. right. exact H.
        * right. right. exact H.
      + left. apply in_or_app. left. apply -> in_rev. exact Hq.
    - destruct I5 as [[H|H]|H].
      + subst. right. left. reflexivity.
      + left. apply in_or_app. right. exact H.
      + right. right. exact H.
    - assert (Sp : p = self \/ reach p) by (apply I6; left; left; reflexivity).
      intros x [Hx|[Hx|Hx]].
      + apply in_app_or in Hx. destruct Hx as [Hx|Hx].
        * apply in_rev in Hx. right. destruct Sp as [Sp|Sp].
          -- subst. apply reach_kid. exact Hx.
          -- apply (reach_step p x Sp Hx).
        * apply I6. left. right. exact Hx.
      + subst. exact Sp.
      + apply I6. right. exact Hx.
  Qed.

  Lemma gwalk_inv : forall fuel stack seen ret,
    Inv stack seen ret -> (length stack + length univ <= fuel + length ret)%nat ->
    exists l seen', gwalk fuel stack seen ret = Some l /\ Inv [] seen' l.
  Proof.
    induction fuel as [|f IH]; intros stack seen ret I B.
    - pose proof (inv_len _ _ _ I) as L. destruct stack as [|p st].
      + exists ret, seen. split; [reflexivity | exact I].
      + cbn [length] in B. lia.
    - destruct stack as [|p st].
      + exists ret, seen. split; [reflexivity | exact I].
      + cbn [gwalk]. destruct (memz p seen) eqn:M.
        * apply memz_In in M. apply IH; [apply (inv_pop_seen p); assumption|].
          cbn [length] in B. lia.
        * apply memz_false in M. apply IH; [apply inv_expand; assumption|].
          cbn [length] in B. rewrite !app_length, rev_length. lia.
  Qed.

  Lemma inv_init : Inv [self] [] [].
  Proof.
    constructor.
    - constructor.
    - intros q [].
    - intros p [].
    - intros q [].
    - left. left. reflexivity.
    - intros p [[H|[]]|[]]. left. symmetry. exact H.
  Qed.

  Theorem gwalk_correct :
    exists l, gwalk (S (length univ)) [self] [] [] = Some l /\ NoDup l /\ forall q, In q l <-> reach q.
  Proof.
    destruct (gwalk_inv (S (length univ)) [self] [] [] inv_init) as [l [seen' [W I]]].
    { cbn [length]. lia. }
    exists l. split; [exact W|]. destruct I as [I1 I2 I3 I4 I5 I6]. split; [exact I1|].
    assert (Hself : In self seen') by (destruct I5 as [[]|H]; exact H).
    intros q. split.
    - intros Hq. destruct (I2 q Hq) as [p [Hp Hqp]].
      destruct (I6 p (or_intror Hp)) as [S|S].
      + subst. apply reach_kid. exact Hqp.
      + apply (reach_step p q S Hqp).
    - intros R. induction R as [q Hq | p q R IHR Hq].
      + apply (I3 self Hself q Hq).
      + destruct (I4 p IHR) as [[]|Hp]. apply (I3 p Hp q Hq).
  Qed.

  (* more fuel never hurts *)
  Lemma gwalk_mono : forall fuel stack seen ret l,
    gwalk fuel stack seen ret = Some l -> gwalk (S fuel) stack seen ret = Some l.
  Proof.
    induction fuel as [|f IH]; intros stack seen ret l H.
    - destruct stack; [exact H | discriminate H].
    - destruct stack as [|p st]; [exact H|].
      cbn [gwalk] in H. change (gwalk (S (S f)) (p :: st) seen ret)
        with (if memz p seen then gwalk (S f) st seen ret
              else gwalk (S f) (rev (E p) ++ st) (p :: seen) (ret ++ E p)).
      destruct (memz p seen); apply IH; exact H.
  Qed.
End Walk.
