(* C05 -- what the property demands of children(), parent(), parents(), written
   from the property text over the process table the kernel lists (pid, ppid,
   start ticks), not from psutil's code.  (The record types are shared with the
   model; nothing else of the model is used here.) *)
From PV Require Export C05.Model.

(* ---------------------------------------------------------------- tables *)
Fixpoint nodupb (l : list Z) : bool :=
  match l with [] => true | x :: r => negb (memz x r) && nodupb r end.

(* a directory lists every PID once; PIDs and parent PIDs are pid_t values *)
Definition wf_table (t : table) : bool :=
  nodupb (pids_of t)
  && forallb (fun e => (0 <=? kp_pid e) && (kp_pid e <=? PID_MAX)
                       && (0 <=? kp_ppid e) && (kp_ppid e <=? PID_MAX)) t.

(* the caller is still the process the object was created for *)
Definition alive_b (t : table) (o : pobj) : bool :=
  match lookup t (o_pid o) with
  | Some e => o_known o && (kp_start e =? o_ident o)
              && match o_ctime o with None => true | Some c => c =? o_ident o end
  | None => false
  end.
(* the same without any condition on the create_time() cache *)
Definition live_b (t : table) (o : pobj) : bool :=
  match lookup t (o_pid o) with Some e => o_known o && (kp_start e =? o_ident o) | None => false end.
(* the caller's PID now belongs to another process (different start ticks) *)
Definition recycled_b (t : table) (o : pobj) : bool :=
  match lookup t (o_pid o) with
  | Some e => o_known o && negb (kp_start e =? o_ident o)
  | None => false
  end.

(* the caller is recorded as its own parent (ppid self-loop) *)
Definition own_parent_b (t : table) (pid : Z) : bool :=
  match lookup t pid with Some e => kp_ppid e =? pid | None => false end.

(* ---------------------------------------------------------------- children *)
(* a listed process that can be returned for a caller started at tick s0: still
   there when it is looked at, and not started before the caller *)
Definition elig (gone : list Z) (s0 : Z) (e : kproc) : bool :=
  negb (memz (kp_pid e) gone) && (s0 <=? kp_start e).

(* children(): the listed processes whose parent is this process, never itself *)
Definition spec_children (t : table) (gone : list Z) (self s0 : Z) : list Z :=
  map kp_pid (filter (fun e => (kp_ppid e =? self) && negb (kp_pid e =? self) && elig gone s0 e) t).

(* reachable from the caller through parent links (least set) *)
Inductive desc (t : table) (gone : list Z) (self s0 : Z) : Z -> Prop :=
| desc_child e : In e t -> kp_ppid e = self -> elig gone s0 e = true -> desc t gone self s0 (kp_pid e)
| desc_step e : In e t -> elig gone s0 e = true -> desc t gone self s0 (kp_ppid e) ->
                desc t gone self s0 (kp_pid e).

(* computable form used by the harness: q climbs to the caller along parent links
   in at most n steps (every process has one parent link) *)
Fixpoint climbs (t : table) (gone : list Z) (self s0 : Z) (n : nat) (q : Z) : bool :=
  match n with
  | O => false
  | S m => match lookup t q with
           | None => false
           | Some e => elig gone s0 e && ((kp_ppid e =? self) || climbs t gone self s0 m (kp_ppid e))
           end
  end.
Definition spec_descendants (t : table) (gone : list Z) (self s0 : Z) : list Z :=
  filter (fun q => negb (q =? self) && climbs t gone self s0 (length t) q) (pids_of t).

(* ---------------------------------------------------------------- parent *)
(* the root of the tree: the lowest listed PID *)
Definition is_root (t : table) (r : Z) : Prop :=
  In r (pids_of t) /\ forall p, In p (pids_of t) -> r <= p.
Fixpoint root_of (l : list Z) : option Z :=
  match l with
  | [] => None
  | p :: r => match root_of r with
              | None => Some p
              | Some m => Some (if p <? m then p else m)
              end
  end.
Definition is_root_b (t : table) (p : Z) : bool :=
  match root_of (pids_of t) with Some r => p =? r | None => false end.

(* parent() of the listed process pid (started at s0): the process named by its
   ppid, unless that PID is not listed or belongs to a process younger than the
   caller; none for the root *)
Definition spec_parent (t : table) (pid s0 : Z) : option (Z * Z) :=
  if is_root_b t pid then None
  else match lookup t pid with
       | None => None
       | Some e => match lookup t (kp_ppid e) with
                   | Some pe => if kp_start pe <=? s0 then Some (kp_pid pe, kp_start pe) else None
                   | None => None
                   end
       end.
(* the same when the processes in [gone] vanish while parent() looks at them: a vanished
   parent is no parent *)
Definition spec_parent_v (t : table) (gone : list Z) (pid s0 : Z) : option (Z * Z) :=
  if is_root_b t pid then None
  else match lookup t pid with
       | None => None
       | Some e => if memz (kp_ppid e) gone then None else spec_parent t pid s0
       end.
Definition spec_parent_of (t : table) (pid : Z) : option Z :=
  match lookup t pid with
  | Some e => option_map fst (spec_parent t pid (kp_start e))
  | None => None
  end.

(* parents(): the chain of parent() up to the root *)
Inductive chain (t : table) : Z -> list Z -> Prop :=
| chain_end p : spec_parent_of t p = None -> chain t p []
| chain_cons p q l : spec_parent_of t p = Some q -> chain t q l -> chain t p (q :: l).

(* the same chain, cut before the first process that was already met (the caller or an
   earlier member): what a terminating parents() can return when PID reuse made the
   parent links cyclic; [seen] = the processes met so far *)
Inductive chain_cut (t : table) : list Z -> Z -> list Z -> Prop :=
| cut_root seen p : spec_parent_of t p = None -> chain_cut t seen p []
| cut_seen seen p q : spec_parent_of t p = Some q -> In q seen -> chain_cut t seen p []
| cut_step seen p q l : spec_parent_of t p = Some q -> ~ In q seen ->
                        chain_cut t (q :: seen) q l -> chain_cut t seen p (q :: l).

Fixpoint spec_parents (t : table) (n : nat) (p : Z) : option (list Z) :=
  match spec_parent_of t p with
  | None => Some []
  | Some q => match n with
              | O => None      (* the chain does not end within n steps: it is cyclic *)
              | S m => option_map (cons q) (spec_parents t m q)
              end
  end.

(* parents() while processes vanish: a process in [gone] vanished before it could be linked
   (it is no parent); an ancestor in [goneb] vanished after it was linked, the chain ends
   with it.  Used by the harness as the demanded answer. *)
Definition spec_parent_of_v (t : table) (gone : list Z) (pid : Z) : option Z :=
  match lookup t pid with
  | Some e => option_map fst (spec_parent_v t gone pid (kp_start e))
  | None => None
  end.
Fixpoint spec_parents_v (t : table) (gone goneb : list Z) (n : nat) (p : Z) : option (list Z) :=
  match spec_parent_of_v t gone p with
  | None => Some []
  | Some q => if memz q goneb then Some [q]
              else match n with
                   | O => None
                   | S m => option_map (cons q) (spec_parents_v t gone goneb m q)
                   end
  end.

(* the chain of parent() while processes vanish, as a relation: it ends at the root (or where
   the next parent is unlisted / younger / vanished before it could be linked), or WITH the
   first ancestor that vanished after it was linked *)
Inductive chain_v (t : table) (gone goneb : list Z) : Z -> list Z -> Prop :=
| cv_end p : spec_parent_of_v t gone p = None -> chain_v t gone goneb p []
| cv_gone p q : spec_parent_of_v t gone p = Some q -> memz q goneb = true -> chain_v t gone goneb p [q]
| cv_cons p q l : spec_parent_of_v t gone p = Some q -> memz q goneb = false ->
                  chain_v t gone goneb q l -> chain_v t gone goneb p (q :: l).

(* k-fold parent *)
Fixpoint up (t : table) (k : nat) (p : Z) : option Z :=
  match k with
  | O => Some p
  | S j => match spec_parent_of t p with Some q => up t j q | None => None end
  end.
(* no process is its own ancestor (parent links made cyclic by PID reuse need equal
   start ticks all around the cycle, because a parent is never younger) *)
Definition acyclic (t : table) : Prop := forall p k, up t (S k) p <> Some p.

(* sufficient and decidable: every returned parent started strictly earlier *)
Definition strictly_older_b (t : table) : bool :=
  forallb (fun e => match spec_parent t (kp_pid e) (kp_start e) with
                    | Some (_, ps) => ps <? kp_start e
                    | None => true
                    end) t.

(* cache of the lowest PID is fresh: empty, or the lowest listed PID *)
Definition cache_fresh_b (t : table) (cache : option Z) : bool :=
  match cache with None => true | Some l => is_root_b t l end.

(* ---------------------------------------------------------------- big tables from a compact seed
   (depth and width far beyond an interpreter's recursion limit; the harness writes the same
   tables into the fake /proc from the same seed) *)
Fixpoint zseq (a : Z) (n : nat) : list Z :=
  match n with O => [] | S m => a :: zseq (a + 1) m end.
(* chain n: 1 <- 2 <- ... <- n   (PID i has parent i-1 and start tick i; PID 1 is the root) *)
Definition chain_entry (i : Z) : kproc := {| kp_pid := i; kp_ppid := i - 1; kp_start := i |}.
Definition gen_chain (n : nat) : table := map chain_entry (zseq 1 n).
(* star n: the root 1 with the n children 2 .. n+1 *)
Definition gen_star (n : nat) : table :=
  {| kp_pid := 1; kp_ppid := 0; kp_start := 1 |}
  :: map (fun i => {| kp_pid := i; kp_ppid := 1; kp_start := i |}) (zseq 2 n).
(* comb d w: the chain 1 .. d, every node of which has w more children that are leaves *)
Definition gen_comb (d w : nat) : table :=
  gen_chain d ++
  flat_map (fun i => map (fun j => {| kp_pid := Z.of_nat d + (i - 1) * Z.of_nat w + j; kp_ppid := i; kp_start := i |})
                         (zseq 1 w)) (zseq 1 d).
(* the ancestors of PID m+1 in a chain: m, m-1, .., 1 *)
Fixpoint down (m : nat) : list Z := match m with O => [] | S k => Z.of_nat (S k) :: down k end.
