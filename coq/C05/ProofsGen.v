(* C05 -- the interpreter of PyGen.v run on the program GENERATED from the source of Process.children()
   (coq/Gen/C05_Tables.v: c05_children) equals the hand-written model (Model.v: children_direct, children_rec with
   the fixes [as_is]) for every process table whose listed PIDs are non-negative, every set of vanishing PIDs, every
   caller object and every amount of fuel.  When the source changes, c05_children changes and [gen_is_expected]
   (or the build of the generated file) fails. *)
From PV Require Import C05.PyGen C05.Spec Gen.C05_Tables.
From Coq Require Import String Lia.
Import ListNotations.
Local Open Scope string_scope.
Local Open Scope Z_scope.
Local Open Scope list_scope.

Definition direct_body : list cstmt :=
  [CIf (CAnd (CCmp OEq (EVar "ppid") ESelfPid) (CCmp ONe (EVar "pid") ESelfPid))
     [CTry [BNewProc "child" (EVar "pid"); BStartTimes "ctime" "child_ctime" "child";
            BIf (CCmp OLe (EVar "ctime") (EVar "child_ctime")) [BAppendRet "child"]]
           [NoSuchProcess; ZombieProcess]]].
Definition rec_body : list cstmt :=
  [CIfContinue (CCmp OEq (EVar "child_pid") ESelfPid);
   CTry [BNewProc "child" (EVar "child_pid"); BStartTimes "ctime" "child_ctime" "child";
         BLet "intime" (CCmp OLe (EVar "ctime") (EVar "child_ctime"));
         BIf (CVar "intime") [BAppendRet "child"; BPush (EVar "child_pid")]]
        [NoSuchProcess; ZombieProcess]].
Definition while_body : list wstmt :=
  [WPop "pid"; WIfSeenContinue (EVar "pid"); WSeenAdd (EVar "pid"); WForRev "child_pid" (EVar "pid") rec_body].
Definition expected : children_prog :=
  {| cp_pre := [TCheck; TMap; TRetInit]; cp_neg := true;
     cp_then := [TForItems "pid" "ppid" direct_body];
     cp_else := [TRevInit; TForItems "pid" "ppid" [CRevAppend (EVar "ppid") (EVar "pid")]; TSeenInit;
                 TStackInit ESelfPid; TWhileStack while_body];
     cp_post := [TReturnRet] |}.

Lemma gen_is_expected : c05_children = expected.
Proof. reflexivity. Qed.

Section Generic.
Variable pr : prims.
Definition okb (q : Z) : bool :=
  match p_new pr q with Val cs => match p_start pr with Val c => c <=? cs | _ => false end | _ => false end.
Definition tame_new (q : Z) : Prop :=
  match p_new pr q with Val _ => True | Exc e => e = NoSuchProcess | OutOfModel => False end.
Definition tame_start : Prop :=
  match p_start pr with Val _ => True | Exc e => e = NoSuchProcess | OutOfModel => False end.
Definition sel (q : Z) : bool := negb (q =? p_self pr) && okb q.

Lemma rec_item : forall s q r k, tame_new q -> tame_start -> s_ret s = Some r -> s_stack s = Some k ->
  exists s', (cseq pr rec_body (setv "child_pid" q s) = ROk s' \/ cseq pr rec_body (setv "child_pid" q s) = RCont s') /\
    s_map s' = s_map s /\ s_seen s' = s_seen s /\ s_rev s' = s_rev s /\
    s_ret s' = Some (r ++ if sel q then [q] else []) /\
    s_stack s' = Some (if sel q then q :: k else k).
Proof.
  intros [env pst mp rt stk sn rv] q r k Hn Hs Hr Hk. cbn in Hr, Hk. subst rt stk.
  unfold tame_new, tame_start, sel, okb in *. cbn.
  destruct (q =? p_self pr); cbn.
  { eexists; split; [right; reflexivity|]. cbn. rewrite app_nil_r. repeat split. }
  destruct (p_new pr q) as [cs|e|]; [| subst e | contradiction]; cbn.
  2:{ eexists; split; [left; reflexivity|]. cbn. rewrite app_nil_r. repeat split. }
  destruct (p_start pr) as [c|e|]; [| subst e | contradiction]; cbn.
  2:{ eexists; split; [left; reflexivity|]. cbn. rewrite app_nil_r. repeat split. }
  destruct (c <=? cs); cbn.
  - eexists; split; [left; reflexivity|]. cbn. repeat split.
  - eexists; split; [left; reflexivity|]. cbn. rewrite app_nil_r. repeat split.
Qed.

Lemma direct_item : forall s q pp r, tame_new q -> tame_start -> s_ret s = Some r ->
  exists s', cseq pr direct_body (setv "ppid" pp (setv "pid" q s)) = ROk s' /\
    s_map s' = s_map s /\ s_ret s' = Some (r ++ if (pp =? p_self pr) && sel q then [q] else []).
Proof.
  intros [env pst mp rt stk sn rv] q pp r Hn Hs Hr. cbn in Hr. subst rt.
  unfold tame_new, tame_start, sel, okb in *. cbn.
  destruct (pp =? p_self pr); cbn.
  2:{ eexists; split; [reflexivity|]. cbn. rewrite app_nil_r. repeat split. }
  destruct (q =? p_self pr); cbn.
  { eexists; split; [reflexivity|]. cbn. rewrite app_nil_r. repeat split. }
  destruct (p_new pr q) as [cs|e|]; [| subst e | contradiction]; cbn.
  2:{ eexists; split; [reflexivity|]. cbn. rewrite app_nil_r. repeat split. }
  destruct (p_start pr) as [c|e|]; [| subst e | contradiction]; cbn.
  2:{ eexists; split; [reflexivity|]. cbn. rewrite app_nil_r. repeat split. }
  destruct (c <=? cs); cbn.
  - eexists; split; [reflexivity|]. cbn. repeat split.
  - eexists; split; [reflexivity|]. cbn. rewrite app_nil_r. repeat split.
Qed.

Lemma rec_loop : forall l s r k, (forall q, In q l -> tame_new q) -> tame_start -> s_ret s = Some r -> s_stack s = Some k ->
  exists s', forloop pr (fun q => setv "child_pid" q) rec_body l s = ROk s' /\
    s_map s' = s_map s /\ s_seen s' = s_seen s /\ s_rev s' = s_rev s /\
    s_ret s' = Some (r ++ filter sel l) /\ s_stack s' = Some (rev (filter sel l) ++ k).
Proof.
  induction l as [|q l IH]; intros s r k Hn Hs Hr Hk.
  - exists s. cbn. rewrite app_nil_r. repeat split; assumption.
  - destruct (rec_item s q r k (Hn q (or_introl eq_refl)) Hs Hr Hk) as (s1 & Hrun & Hm & Hsn & Hrv & Hr1 & Hk1).
    destruct (IH s1 _ _ (fun q' H => Hn q' (or_intror H)) Hs Hr1 Hk1) as (s2 & Hrun2 & Hm2 & Hsn2 & Hrv2 & Hr2 & Hk2).
    exists s2. split.
    { cbn [forloop]. destruct Hrun as [Hrun|Hrun]; rewrite Hrun; exact Hrun2. }
    rewrite Hm2, Hsn2, Hrv2, Hr2, Hk2. repeat split; try assumption.
    + cbn [filter]. destruct (sel q); cbn [app]; rewrite <- ?app_assoc; cbn [app]; rewrite ?app_nil_r; reflexivity.
    + cbn [filter]. destruct (sel q); cbn [rev app]; rewrite <- ?app_assoc; reflexivity.
Qed.

Definition bind2 (kv : Z * Z) (s : st) : st := setv "ppid" (snd kv) (setv "pid" (fst kv) s).

Lemma direct_loop : forall m s r, (forall kv, In kv m -> tame_new (fst kv)) -> tame_start -> s_ret s = Some r ->
  exists s', forloop pr bind2 direct_body m s = ROk s' /\ s_map s' = s_map s /\
    s_ret s' = Some (r ++ map fst (filter (fun kv => (snd kv =? p_self pr) && sel (fst kv)) m)).
Proof.
  induction m as [|[q pp] m IH]; intros s r Hn Hs Hr.
  - exists s. cbn. rewrite app_nil_r. repeat split; assumption.
  - destruct (direct_item s q pp r (Hn (q, pp) (or_introl eq_refl)) Hs Hr) as (s1 & Hrun & Hm & Hr1).
    destruct (IH s1 _ (fun kv H => Hn kv (or_intror H)) Hs Hr1) as (s2 & Hrun2 & Hm2 & Hr2).
    exists s2. split.
    { cbn [forloop]. unfold bind2 at 1. cbn [fst snd]. rewrite Hrun. exact Hrun2. }
    rewrite Hm2, Hr2. split; [assumption|].
    cbn [filter fst snd]. destruct ((pp =? p_self pr) && sel q); cbn [map fst app]; rewrite <- ?app_assoc; cbn [app]; rewrite ?app_nil_r; reflexivity.
Qed.

Definition swap (kv : Z * Z) : Z * Z := (snd kv, fst kv).
Lemma fill_loop : forall m s rv, s_rev s = Some rv ->
  exists s', forloop pr bind2 [CRevAppend (EVar "ppid") (EVar "pid")] m s = ROk s' /\
    s_map s' = s_map s /\ s_seen s' = s_seen s /\ s_ret s' = s_ret s /\ s_stack s' = s_stack s /\
    s_rev s' = Some (rv ++ map swap m).
Proof.
  induction m as [|[q pp] m IH]; intros s rv Hrv.
  - exists s. cbn. rewrite app_nil_r. repeat split; assumption.
  - destruct s as [env pst mp rt stk sn rv0]. cbn in Hrv. subst rv0.
    cbn [forloop]. unfold bind2 at 1. cbn.
    match goal with |- exists s', forloop _ _ _ _ ?S = _ /\ _ => destruct (IH S (rv ++ [(pp, q)]) eq_refl) as (s2 & Hrun & Hm & Hsn & Hr & Hk & Hv) end.
    exists s2. split; [exact Hrun|]. rewrite Hm, Hsn, Hr, Hk, Hv. cbn. rewrite <- app_assoc. repeat split.
Qed.
End Generic.

Definition prims_of (t : table) (gone : list Z) (o : pobj) : prims :=
  {| p_self := o_pid o; p_check := raise_if_pid_reused t o; p_map := ppid_map t;
     p_new := proc_new t gone; p_start := caller_start as_is t o |}.
Definition pids_nonneg (t : table) : bool := forallb (fun e => 0 <=? kp_pid e) t.

Section ModelTie.
Variables (t : table) (gone : list Z) (o : pobj).
Hypothesis Hnn : pids_nonneg t = true.
Let pr := prims_of t gone o.

Lemma tame_new_m : forall q, 0 <= q -> tame_new pr q.
Proof.
  intros q Hq. unfold tame_new, pr, prims_of, proc_new. cbn [p_new].
  destruct (q <? 0) eqn:E; [lia|]. destruct (PID_MAX <? q); [reflexivity|].
  destruct (memz q gone); [reflexivity|]. destruct (lookup t q); [exact I | reflexivity].
Qed.

Lemma tame_start_m : tame_start pr.
Proof.
  unfold tame_start, pr, prims_of, caller_start, ident_opt, self_ctime. cbn [p_start as_is fx_mono fx_ident_some].
  destruct (o_known o); cbn [orb]; [exact I|].
  destruct (o_ctime o); [exact I|]. destruct (lookup t (o_pid o)); [exact I | reflexivity].
Qed.

Lemma kids_nonneg : forall p q, In q (kids t p) -> 0 <= q.
Proof.
  intros p q H. unfold kids, ppid_map in H. apply in_map_iff in H as ([a b] & Heq & Hin).
  apply filter_In in Hin as [Hin _]. apply in_map_iff in Hin as (e & He & Het).
  unfold pids_nonneg in Hnn. rewrite forallb_forall in Hnn. specialize (Hnn e Het).
  inversion He; subst. cbn. lia.
Qed.

Lemma rev_kids : forall p, map snd (filter (fun kv => fst kv =? p) (map swap (ppid_map t))) = kids t p.
Proof.
  intros p. unfold kids, ppid_map. clear Hnn pr. induction t as [|e t' IH]; [reflexivity|].
  cbn. destruct (kp_ppid e =? p); cbn; rewrite IH; reflexivity.
Qed.

Lemma okkids_sel : forall p, okkids as_is t gone o p = filter (sel pr) (kids t p).
Proof. reflexivity. Qed.

Lemma while_eq : forall fuel s stk sn r,
  s_stack s = Some stk -> s_seen s = Some sn -> s_ret s = Some r -> s_rev s = Some (map swap (ppid_map t)) ->
  match walk as_is t gone o fuel stk sn r with
  | None => wloop pr while_body fuel s = None
  | Some l => exists s', wloop pr while_body fuel s = Some (ROk s') /\ s_ret s' = Some l
  end.
Proof.
  induction fuel as [|f IH]; intros [env pst mp rt k sn0 rv] stk sn r Hk Hsn Hr Hrv; cbn in Hk, Hsn, Hr, Hrv; subst.
  - destruct stk; cbn; [eexists; split; reflexivity | reflexivity].
  - destruct stk as [|p st]; [cbn; eexists; split; reflexivity|].
    cbn [walk]. cbn -[rec_body memz okkids].
    destruct (memz p sn) eqn:Em.
    + apply IH; reflexivity.
    + cbn -[rec_body memz okkids]. rewrite rev_kids.
      match goal with |- context [forloop _ _ _ _ ?S] =>
        destruct (rec_loop pr (kids t p) S r st (fun q H => tame_new_m q (kids_nonneg p q H)) tame_start_m eq_refl eq_refl)
          as (s2 & Hrun & Hm & Hsn & Hrv & Hr & Hk) end.
      rewrite Hrun. rewrite okkids_sel. apply IH; assumption.
Qed.

Lemma filter_map_fst : forall (f : Z -> bool) p (m : list (Z * Z)),
  map fst (filter (fun kv => (snd kv =? p) && f (fst kv)) m) = filter f (map fst (filter (fun pq => snd pq =? p) m)).
Proof.
  intros f p m. induction m as [|[a b] m IH]; [reflexivity|].
  cbn. destruct (b =? p); cbn; [destruct (f a); cbn; rewrite IH; reflexivity | exact IH].
Qed.

Lemma items_nonneg : forall kv, In kv (ppid_map t) -> 0 <= fst kv.
Proof.
  intros kv H. unfold ppid_map in H. apply in_map_iff in H as (e & He & Het).
  unfold pids_nonneg in Hnn. rewrite forallb_forall in Hnn. specialize (Hnn e Het). subst kv. cbn. lia.
Qed.

Theorem gen_children_direct : forall fuel,
  run_children pr c05_children false fuel = (do l <- children_direct as_is t gone o; Val (Some l)).
Proof.
  intros fuel. rewrite gen_is_expected. unfold children_direct, run_children, expected.
  cbn -[direct_body forloop raise_if_pid_reused okkids].
  destruct (raise_if_pid_reused t o) as [u|e|]; [| reflexivity | reflexivity].
  cbn -[direct_body forloop okkids].
  match goal with |- context [forloop _ _ _ _ ?S] =>
    destruct (direct_loop pr (ppid_map t) S [] (fun kv H => tame_new_m _ (items_nonneg kv H)) tame_start_m eq_refl)
      as (s2 & Hrun & Hm & Hr) end.
  unfold bind2 in Hrun. rewrite Hrun. cbn -[okkids]. rewrite Hr. cbn [app].
  rewrite filter_map_fst. reflexivity.
Qed.

Theorem gen_children_rec : forall fuel,
  run_children pr c05_children true fuel = children_rec as_is fuel t gone o.
Proof.
  intros fuel. rewrite gen_is_expected. unfold children_rec, run_children, expected.
  cbn -[while_body wloop forloop raise_if_pid_reused walk].
  destruct (raise_if_pid_reused t o) as [u|e|]; [| reflexivity | reflexivity].
  cbn -[while_body wloop forloop walk].
  match goal with |- context [forloop _ _ _ _ ?S] =>
    destruct (fill_loop pr (ppid_map t) S [] eq_refl) as (s2 & Hrun & Hm & Hsn & Hr & Hk & Hv) end.
  unfold bind2 in Hrun. rewrite Hrun. cbn -[while_body wloop walk].
  pose proof (while_eq fuel (w_stack (Some [o_pid o]) (w_seen (Some []) s2)) [o_pid o] [] [] eq_refl eq_refl Hr Hv) as W.
  destruct (walk as_is t gone o fuel [o_pid o] [] []) as [l|].
  - destruct W as (s3 & W & Hr3). rewrite W. cbn. rewrite Hr3. reflexivity.
  - rewrite W. reflexivity.
Qed.
End ModelTie.

Example pids_nonneg_example :
  pids_nonneg [ {| kp_pid := 1; kp_ppid := 0; kp_start := 5 |}; {| kp_pid := 7; kp_ppid := 1; kp_start := 9 |};
                {| kp_pid := 9; kp_ppid := 7; kp_start := 3 |} ] = true.
Proof. reflexivity. Qed.

Lemma nonneg_of_wf : forall t, wf_table t = true -> pids_nonneg t = true.
Proof.
  intros t H. unfold wf_table in H. apply andb_true_iff in H as [_ H]. unfold pids_nonneg.
  rewrite forallb_forall in *. intros e He. specialize (H e He).
  repeat (apply andb_true_iff in H as [H _]). exact H.
Qed.
