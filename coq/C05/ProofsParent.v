(* C05 -- proofs about parent() and parents(). *)
From PV Require Export C05.Proofs.

(* ------------------------------------------------------------ the lowest PID *)
Lemma fold_min_assoc : forall r x y, fold_left Z.min r (Z.min x y) = Z.min x (fold_left Z.min r y).
Proof.
  induction r as [|a r IH]; intros x y; cbn [fold_left]; [reflexivity|].
  rewrite <- Z.min_assoc. apply IH.
Qed.

Lemma root_of_fold : forall r p, root_of (p :: r) = Some (fold_left Z.min r p).
Proof.
  induction r as [|a r IH]; intros p; [reflexivity|].
  change (root_of (p :: a :: r)) with
    (match root_of (a :: r) with None => Some p | Some m => Some (if p <? m then p else m) end).
  rewrite IH. cbn [fold_left]. rewrite fold_min_assoc. f_equal.
  destruct (Z.ltb_spec p (fold_left Z.min r a)); lia.
Qed.

Lemma min_pid_root : forall t, min_pid t = match root_of (pids_of t) with Some m => Val m | None => Exc IndexError end.
Proof.
  intros t. unfold min_pid. destruct (pids_of t) as [|p r]; [reflexivity|]. rewrite root_of_fold. reflexivity.
Qed.

Lemma root_of_is_root : forall t r, root_of (pids_of t) = Some r -> is_root t r.
Proof.
  intros t r. unfold is_root. generalize (pids_of t). clear t.
  intros l. revert r. induction l as [|p l IH]; intros r H; [discriminate|].
  cbn [root_of] in H. destruct (root_of l) as [m|] eqn:Rl.
  - destruct (IH m eq_refl) as [I1 I2]. inversion H; subst. clear H.
    destruct (Z.ltb_spec p m) as [Lt|Ge].
    + split; [left; reflexivity|]. intros x [Hx|Hx]; [lia|]. specialize (I2 x Hx). lia.
    + split; [right; exact I1|]. intros x [Hx|Hx]; [lia|]. apply I2. exact Hx.
  - inversion H; subst. destruct l as [|a l]; [|cbn [root_of] in Rl; destruct (root_of l); discriminate].
    split; [left; reflexivity|]. intros x [Hx|[]]. lia.
Qed.

Lemma fresh_lowest : forall t cache o, alive_b t o = true -> cache_fresh_b t cache = true ->
  exists r, lowest_pid t cache = Val r /\ root_of (pids_of t) = Some r.
Proof.
  intros t cache o A F. destruct (alive_facts t o A) as [_ [_ [e [L _]]]].
  assert (NE : exists r, root_of (pids_of t) = Some r).
  { apply lookup_In in L. destruct L as [He _]. unfold pids_of.
    destruct t as [|a t']; [destruct He|]. cbn [map]. rewrite root_of_fold. eexists. reflexivity. }
  destruct NE as [r Hr]. unfold lowest_pid. destruct cache as [l|].
  - unfold cache_fresh_b, is_root_b in F. rewrite Hr in F. apply Z.eqb_eq in F. subst. exists r. auto.
  - exists r. rewrite min_pid_root, Hr. auto.
Qed.

(* ------------------------------------------------------------ parent() *)
Theorem parent_spec_fx : forall fx t cache o, wf_table t = true -> alive_b t o = true ->
  cache_fresh_b t cache = true ->
  parent fx t [] cache o = Val (spec_parent t (o_pid o) (o_ident o)).
Proof.
  intros fx t cache o W A F. destruct (fresh_lowest t cache o A F) as [r [Lr Rr]].
  destruct (alive_facts t o A) as [R [C [e [L S]]]].
  unfold parent, spec_parent, is_root_b.
  assert (P0 : (if fx_parent_reuse fx then raise_if_pid_reused t o else Val tt) = Val tt)
    by (destruct (fx_parent_reuse fx); [exact R | reflexivity]).
  rewrite P0. cbn [obind]. rewrite Lr, Rr. cbn [obind].
  destruct (o_pid o =? r); [reflexivity|].
  unfold ppid_call. rewrite R, L. cbn [obind]. rewrite (caller_start_alive fx t o A). cbn [obind].
  pose proof (lookup_In _ _ _ L) as [He _].
  destruct (wf_range t e W He) as [_ [P1 P2]].
  unfold proc_new.
  assert (X1 : (kp_ppid e <? 0) = false) by (apply Z.ltb_ge; exact P1). rewrite X1.
  assert (X2 : (PID_MAX <? kp_ppid e) = false) by (apply Z.ltb_ge; exact P2). rewrite X2.
  cbn [memz existsb]. destruct (lookup t (kp_ppid e)) as [pe|] eqn:Lp; [|reflexivity].
  apply lookup_In in Lp. destruct Lp as [_ Ep]. rewrite Ep.
  destruct (kp_start pe <=? o_ident o); reflexivity.
Qed.

Theorem parent_spec : forall t cache o, wf_table t = true -> alive_b t o = true ->
  cache_fresh_b t cache = true ->
  parent as_is t [] cache o = Val (spec_parent t (o_pid o) (o_ident o)).
Proof. exact (parent_spec_fx as_is). Qed.

Definition tab15 : table := [ {| kp_pid := 1; kp_ppid := 0; kp_start := 1 |};
                              {| kp_pid := 5; kp_ppid := 1; kp_start := 10 |} ].
Definition o5' : pobj := {| o_pid := 5; o_ident := 10; o_ctime := None; o_known := true |}.

Theorem parent_stale_cache_refuted :
  exists t cache o, wf_table t = true /\ alive_b t o = true /\
    spec_parent t (o_pid o) (o_ident o) = Some (1, 1) /\ parent as_is t [] cache o = Val None.
Proof. exists tab15, (Some 5), o5'. repeat split; vm_compute; reflexivity. Qed.

Example parent_spec_hyps :
  wf_table tab15 = true /\ alive_b tab15 o5' = true /\ cache_fresh_b tab15 (Some 1) = true /\
  cache_fresh_b tab15 None = true /\ parent as_is tab15 [] None o5' = Val (Some (1, 1)).
Proof. repeat split; vm_compute; reflexivity. Qed.

(* recycled caller: NoSuchProcess, whatever the table and the cache hold *)
Theorem parent_recycled : forall t cache o, recycled_b t o = true ->
  parent as_is t [] cache o = Exc NoSuchProcess.
Proof.
  intros t cache o H. unfold parent. cbn [fx_parent_reuse as_is]. rewrite (recycled_raises t o H). reflexivity.
Qed.

Theorem parents_recycled : forall t cache o fuel, recycled_b t o = true ->
  parents as_is fuel t [] [] cache o = Exc NoSuchProcess.
Proof. intros t cache o fuel H. unfold parents. rewrite (parent_recycled t cache o H). reflexivity. Qed.

Definition tab1r : table := [ {| kp_pid := 1; kp_ppid := 0; kp_start := 20 |};
                              {| kp_pid := 5; kp_ppid := 1; kp_start := 30 |} ].
Definition o1r : pobj := {| o_pid := 1; o_ident := 10; o_ctime := None; o_known := true |}.

(* the code before repair 3959fba: the recycled lowest PID got None / [] *)
Theorem parent_recycled_old_refuted :
  exists t o, wf_table t = true /\ recycled_b t o = true /\
    parent before_fixes t [] None o = Val None /\ parents before_fixes 3 t [] [] None o = Val (Some []).
Proof. exists tab1r, o1r. repeat split; vm_compute; reflexivity. Qed.

(* ------------------------------------------------------------ parents() *)
Lemma spec_parent_listed : forall t p s q sq, spec_parent t p s = Some (q, sq) ->
  exists e, lookup t q = Some e /\ kp_start e = sq.
Proof.
  intros t p s q sq H. unfold spec_parent in H. destruct (is_root_b t p); [discriminate|].
  destruct (lookup t p) as [e|]; [|discriminate].
  destruct (lookup t (kp_ppid e)) as [pe|] eqn:Lp; [|discriminate].
  destruct (kp_start pe <=? s); [|discriminate]. inversion H; subst.
  pose proof (lookup_In _ _ _ Lp) as [_ Ep]. rewrite Ep. exists pe. auto.
Qed.

Lemma obj_alive : forall t q sq e, lookup t q = Some e -> kp_start e = sq -> alive_b t (obj_of (q, sq)) = true.
Proof.
  intros t q sq e L S. unfold alive_b, obj_of. cbn [o_pid o_ident o_ctime fst snd]. rewrite L, S.
  rewrite Z.eqb_refl. reflexivity.
Qed.

Lemma spec_parent_of_eq : forall t q sq e, lookup t q = Some e -> kp_start e = sq ->
  spec_parent_of t q = option_map fst (spec_parent t q sq).
Proof. intros t q sq e L S. unfold spec_parent_of. rewrite L, S. reflexivity. Qed.

Lemma loop_none : forall fx t g gb c fuel seen acc, parents_loop fx t g gb c fuel seen None acc = Val (Some acc).
Proof. intros. destruct fuel; reflexivity. Qed.

Lemma loop_seen : forall fx t g gb c fuel seen q sq acc, fx_parents_seen fx = true -> memz q seen = true ->
  parents_loop fx t g gb c fuel seen (Some (q, sq)) acc = Val (Some acc).
Proof. intros fx t g gb c fuel seen q sq acc F M. destruct fuel; cbn [parents_loop fst]; rewrite F, M; reflexivity. Qed.

Lemma loop_unfold : forall fx t g gb c f seen q sq acc, (fx_parents_seen fx && memz q seen) = false ->
  parents_loop fx t g gb c (S f) seen (Some (q, sq)) acc =
  match parent fx (if memz q gb then remove_pid q t else t) g c (obj_of (q, sq)) with
  | Val nxt => parents_loop fx t g gb c f (q :: seen) nxt (acc ++ [q])
  | Exc NoSuchProcess => if fx_parents_nsp fx then Val (Some (acc ++ [q])) else Exc NoSuchProcess
  | Exc e => Exc e
  | OutOfModel => OutOfModel
  end.
Proof. intros fx t g gb c f seen q sq acc G. cbn [parents_loop fst]. rewrite G. reflexivity. Qed.

Lemma loop_zero : forall fx t g gb c seen q sq acc, (fx_parents_seen fx && memz q seen) = false ->
  parents_loop fx t g gb c O seen (Some (q, sq)) acc = Val None.
Proof. intros fx t g gb c seen q sq acc G. cbn [parents_loop fst]. rewrite G. reflexivity. Qed.

(* k-fold parent: one more step at the far end *)
Lemma up_snoc : forall t k x q q', up t k x = Some q -> spec_parent_of t q = Some q' -> up t (S k) x = Some q'.
Proof.
  intros t. induction k as [|k IH]; intros x q q' H Hq.
  - cbn [up] in H. inversion H; subst. cbn [up]. rewrite Hq. reflexivity.
  - change (up t (S k) x) with (match spec_parent_of t x with Some y => up t k y | None => None end) in H.
    change (up t (S (S k)) x) with (match spec_parent_of t x with Some y => up t (S k) y | None => None end).
    destruct (spec_parent_of t x) as [y|]; [|discriminate]. apply (IH y q q' H Hq).
Qed.

Section Parents.
  Variables (fx : fixes) (t : table) (c : option Z).
  Hypothesis W : wf_table t = true.
  Hypothesis F : cache_fresh_b t c = true.

  Lemma loop_step : forall f seen q sq e acc, lookup t q = Some e -> kp_start e = sq ->
    (fx_parents_seen fx && memz q seen) = false ->
    parents_loop fx t [] [] c (S f) seen (Some (q, sq)) acc =
    parents_loop fx t [] [] c f (q :: seen) (spec_parent t q sq) (acc ++ [q]).
  Proof.
    intros f seen q sq e acc L S G. rewrite (loop_unfold fx t [] [] c f seen q sq acc G).
    cbn [memz existsb].
    pose proof (parent_spec_fx fx t c (obj_of (q, sq)) W (obj_alive t q sq e L S) F) as P.
    rewrite P. cbn [obj_of o_pid o_ident fst snd]. reflexivity.
  Qed.

  (* never an exception: a list, or fuel exhausted *)
  Lemma loop_total : forall fuel q sq e acc seen,
    lookup t q = Some e -> kp_start e = sq ->
    parents_loop fx t [] [] c fuel seen (Some (q, sq)) acc = Val None \/
    exists r, parents_loop fx t [] [] c fuel seen (Some (q, sq)) acc = Val (Some r).
  Proof.
    induction fuel as [|f IH]; intros q sq e acc seen L S;
      destruct (fx_parents_seen fx && memz q seen) eqn:G.
    - right. exists acc. apply andb_true_iff in G. destruct G. apply loop_seen; assumption.
    - left. apply loop_zero. exact G.
    - right. exists acc. apply andb_true_iff in G. destruct G. apply loop_seen; assumption.
    - rewrite (loop_step f seen q sq e acc L S G).
      destruct (spec_parent t q sq) as [[q2 s2]|] eqn:SP.
      + destruct (spec_parent_listed _ _ _ _ _ SP) as [e' [L' S']]. apply (IH q2 s2 e'); assumption.
      + right. eexists. apply loop_none.
  Qed.

  (* the chain ends: the loop returns it (the seen set never fires on a chain that ends) *)
  Lemma loop_complete : forall l q sq e acc seen fuel, chain t q l ->
    lookup t q = Some e -> kp_start e = sq -> (length l < fuel)%nat ->
    (forall x, In x seen -> ~ In x (q :: l)) -> NoDup (q :: l) ->
    parents_loop fx t [] [] c fuel seen (Some (q, sq)) acc = Val (Some (acc ++ q :: l)).
  Proof.
    induction l as [|q' l IH]; intros q sq e acc seen fuel Ch L S B D ND.
    - assert (G : (fx_parents_seen fx && memz q seen) = false).
      { apply andb_false_iff. right. apply memz_false. intros Hq. apply (D q Hq). left. reflexivity. }
      destruct fuel as [|f]; [cbn [length] in B; lia|]. rewrite (loop_step f seen q sq e acc L S G).
      inversion Ch as [p Hn|]; subst. rewrite (spec_parent_of_eq t q _ e L eq_refl) in Hn.
      destruct (spec_parent t q (kp_start e)); [discriminate|]. apply loop_none.
    - assert (G : (fx_parents_seen fx && memz q seen) = false).
      { apply andb_false_iff. right. apply memz_false. intros Hq. apply (D q Hq). left. reflexivity. }
      destruct fuel as [|f]; [cbn [length] in B; lia|]. rewrite (loop_step f seen q sq e acc L S G).
      inversion Ch as [|p q0 l0 Hs Ch']; subst. rewrite (spec_parent_of_eq t q _ e L eq_refl) in Hs.
      destruct (spec_parent t q (kp_start e)) as [[q2 s2]|] eqn:SP; [|discriminate].
      cbn [option_map fst] in Hs. inversion Hs; subst.
      destruct (spec_parent_listed _ _ _ _ _ SP) as [e' [L' S']].
      apply NoDup_cons_iff in ND. destruct ND as [Hq NDl].
      rewrite (IH q' s2 e' (acc ++ [q]) (q :: seen) f Ch' L' S').
      + rewrite <- app_assoc. reflexivity.
      + cbn [length] in B. lia.
      + intros x [Hx|Hx] Hin.
        * subst x. apply Hq. exact Hin.
        * apply (D x Hx). right. exact Hin.
      + exact NDl.
  Qed.

  (* what is returned on an acyclic table is the chain *)
  Lemma loop_sound : acyclic t -> forall fuel q sq e acc seen r,
    lookup t q = Some e -> kp_start e = sq ->
    (forall x, In x seen -> exists k, up t (S k) x = Some q) ->
    parents_loop fx t [] [] c fuel seen (Some (q, sq)) acc = Val (Some r) ->
    exists l, r = acc ++ q :: l /\ chain t q l.
  Proof.
    intros AC. induction fuel as [|f IH]; intros q sq e acc seen r L St Hs H;
      destruct (fx_parents_seen fx && memz q seen) eqn:G.
    - apply andb_true_iff in G. destruct G as [_ G]. apply memz_In in G.
      destruct (Hs q G) as [k Hk]. exfalso. apply (AC q k Hk).
    - rewrite (loop_zero fx t [] [] c seen q sq acc G) in H. discriminate.
    - apply andb_true_iff in G. destruct G as [_ G]. apply memz_In in G.
      destruct (Hs q G) as [k Hk]. exfalso. apply (AC q k Hk).
    - rewrite (loop_step f seen q sq e acc L St G) in H.
      destruct (spec_parent t q sq) as [[q2 s2]|] eqn:SP.
      + destruct (spec_parent_listed _ _ _ _ _ SP) as [e' [L' S']].
        assert (Pq : spec_parent_of t q = Some q2) by (rewrite (spec_parent_of_eq t q sq e L St), SP; reflexivity).
        destruct (IH q2 s2 e' (acc ++ [q]) (q :: seen) r L' S') as [l [E Ch]].
        * intros x [Hx|Hx].
          -- subst x. exists O. cbn [up]. rewrite Pq. reflexivity.
          -- destruct (Hs x Hx) as [k Hk]. exists (S k). apply (up_snoc t (S k) x q q2 Hk Pq).
        * exact H.
        * exists (q2 :: l). split; [rewrite E, <- app_assoc; reflexivity|].
          apply chain_cons; [exact Pq | exact Ch].
      + rewrite loop_none in H. injection H as Hr. subst r. exists []. split; [reflexivity|].
        apply chain_end. rewrite (spec_parent_of_eq t q sq e L St), SP. reflexivity.
  Qed.
End Parents.

Lemma cache_after_fresh : forall t cache o, alive_b t o = true -> cache_fresh_b t cache = true ->
  cache_fresh_b t (cache_after t cache) = true.
Proof.
  intros t cache o A F. destruct (fresh_lowest t cache o A F) as [r [Lr Rr]].
  unfold cache_after. destruct cache as [l|]; [exact F|].
  unfold lowest_pid in Lr. rewrite Lr. unfold cache_fresh_b, is_root_b. rewrite Rr. apply Z.eqb_refl.
Qed.

(* ---- a chain that ends has no repeated process *)
Lemma chain_fun : forall t p l, chain t p l -> forall l', chain t p l' -> l = l'.
Proof.
  intros t p l Ch. induction Ch as [p Hn | p q l Hs Ch IH]; intros l' Ch'.
  - inversion Ch' as [|p0 q0 l0 Hs0]; subst; [reflexivity | congruence].
  - inversion Ch' as [p0 Hn0 | p0 q0 l0 Hs0 Ch0]; subst; [congruence|].
    assert (q0 = q) by congruence. subst q0. f_equal. apply IH. exact Ch0.
Qed.

Lemma chain_suffix : forall t l1 p q l2, chain t p (l1 ++ q :: l2) -> chain t q l2.
Proof.
  intros t. induction l1 as [|a l1 IH]; intros p q l2 Ch; cbn [app] in Ch.
  - inversion Ch; subst. assumption.
  - inversion Ch as [|p0 q0 l0 Hs Ch']; subst. apply (IH a q l2 Ch').
Qed.

Lemma chain_not_in : forall t p l, chain t p l -> ~ In p l.
Proof.
  intros t p l Ch Hin. apply in_split in Hin. destruct Hin as [l1 [l2 E]]. subst l.
  pose proof (chain_suffix t l1 p p l2 Ch) as Ch2.
  pose proof (chain_fun t p _ Ch _ Ch2) as E.
  apply (f_equal (@length Z)) in E. rewrite app_length in E. cbn [length] in E. lia.
Qed.

Lemma chain_NoDup : forall t p l, chain t p l -> NoDup (p :: l).
Proof.
  intros t p l Ch. induction Ch as [p Hn | p q l Hs Ch IH].
  - constructor; [intros [] | constructor].
  - constructor; [|exact IH]. apply (chain_not_in t p (q :: l)). apply chain_cons; assumption.
Qed.

(* parents() is the chain of parent() up to the root, whenever that chain ends ... *)
Theorem parents_chain_complete : forall t cache o l fuel, wf_table t = true -> alive_b t o = true ->
  cache_fresh_b t cache = true -> chain t (o_pid o) l -> (length l <= fuel)%nat ->
  parents as_is fuel t [] [] cache o = Val (Some l).
Proof.
  intros t cache o l fuel W A F Ch B. destruct (alive_facts t o A) as [_ [_ [e [L S]]]].
  unfold parents. rewrite (parent_spec t cache o W A F). cbn [obind].
  pose proof (cache_after_fresh t cache o A F) as F'.
  pose proof (chain_NoDup t _ _ Ch) as ND.
  inversion Ch as [p Hn | p q l' Hs Ch']; subst.
  - rewrite (spec_parent_of_eq t _ _ e L S) in Hn.
    destruct (spec_parent t (o_pid o) (o_ident o)); [discriminate|]. apply loop_none.
  - rewrite (spec_parent_of_eq t _ _ e L S) in Hs.
    destruct (spec_parent t (o_pid o) (o_ident o)) as [[q2 s2]|] eqn:SP; [|discriminate].
    cbn [option_map fst] in Hs. inversion Hs; subst.
    destruct (spec_parent_listed _ _ _ _ _ SP) as [e' [L' S']].
    apply NoDup_cons_iff in ND. destruct ND as [Hp ND'].
    rewrite (loop_complete as_is t _ W F' l' q s2 e' [] [o_pid o] fuel Ch' L' S'); [reflexivity| | |exact ND'].
    + cbn [length] in B. lia.
    + intros x [Hx|[]] Hin. subst x. apply Hp. exact Hin.
Qed.

Lemma parent_some_listed : forall fx t g c o q sq, parent fx t g c o = Val (Some (q, sq)) -> In q (pids_of t).
Proof.
  intros fx t g c o q sq H. unfold parent in H.
  destruct (if fx_parent_reuse fx then raise_if_pid_reused t o else Val tt) as [u| |]; cbn [obind] in H; try discriminate.
  destruct (lowest_pid t c) as [low| |]; cbn [obind] in H; try discriminate.
  destruct (o_pid o =? low); [discriminate|].
  destruct (ppid_call t o) as [pp| |]; cbn [obind] in H; try discriminate.
  destruct (caller_start fx t o) as [ct| |]; cbn [obind] in H; try discriminate.
  unfold proc_new in H. destruct (pp <? 0); [discriminate|]. destruct (PID_MAX <? pp).
  { discriminate. }
  destruct (memz pp g); [discriminate|]. destruct (lookup t pp) as [pe|] eqn:Lp; [|discriminate].
  destruct (kp_start pe <=? ct); [|discriminate]. injection H as E1 E2. subst q.
  apply lookup_In in Lp. destruct Lp as [He Ep]. rewrite <- Ep. unfold pids_of. apply in_map. exact He.
Qed.

Lemma NoDup_snoc : forall (l : list Z) x, NoDup l -> ~ In x l -> NoDup (l ++ [x]).
Proof.
  induction l as [|a l IH]; intros x N Hx; cbn [app].
  - constructor; [intros [] | constructor].
  - inversion N as [|? ? Ha Nl]; subst. constructor.
    + intros H. apply in_app_or in H. destruct H as [H|[H|[]]]; [contradiction|].
      subst. apply Hx. left. reflexivity.
    + apply IH; [exact Nl|]. intros H. apply Hx. right. exact H.
Qed.

Lemma remove_pid_incl : forall q t x, In x (pids_of (remove_pid q t)) -> In x (pids_of t).
Proof.
  intros q t x H. unfold pids_of, remove_pid in *. apply in_map_iff in H. destruct H as [e [E He]].
  apply filter_In in He. destruct He as [He _]. subst x. apply in_map. exact He.
Qed.

(* ... it terminates within |t|+1 loop tests on ANY table, any cache, any caller state,
   whatever vanishes meanwhile *)
Lemma loop_terminates : forall fx t g gb c, fx_parents_seen fx = true ->
  forall fuel seen cur acc, NoDup acc -> incl acc (pids_of t) -> incl acc seen ->
  (forall ps, cur = Some ps -> In (fst ps) (pids_of t)) ->
  (length t + 1 <= fuel + length acc)%nat ->
  parents_loop fx t g gb c fuel seen cur acc <> Val None.
Proof.
  intros fx t g gb c Fx. induction fuel as [|f IH]; intros seen cur acc ND I1 I2 Hc B.
  - destruct cur as [[q sq]|]; [|rewrite loop_none; discriminate].
    destruct (memz q seen) eqn:M; [rewrite (loop_seen fx t g gb c O seen q sq acc Fx M); discriminate|].
    exfalso. apply memz_false in M.
    assert (Hq : ~ In q acc) by (intros H; apply M; apply I2; exact H).
    pose proof (@NoDup_incl_length Z (acc ++ [q]) (pids_of t) (NoDup_snoc acc q ND Hq)) as Len.
    rewrite app_length in Len. unfold pids_of in Len. rewrite map_length in Len.
    cbn [length] in Len. assert ((length acc + 1 <= length t)%nat); [|lia].
    apply Len. intros x Hx. apply in_app_or in Hx. destruct Hx as [Hx|[Hx|[]]]; [apply I1; exact Hx|].
    subst x. apply (Hc (q, sq) eq_refl).
  - destruct cur as [[q sq]|]; [|rewrite loop_none; discriminate].
    destruct (memz q seen) eqn:M; [rewrite (loop_seen fx t g gb c (S f) seen q sq acc Fx M); discriminate|].
    rewrite (loop_unfold fx t g gb c f seen q sq acc); [|rewrite M; apply andb_false_r].
    apply memz_false in M.
    assert (Hq : ~ In q acc) by (intros H; apply M; apply I2; exact H).
    destruct (parent fx (if memz q gb then remove_pid q t else t) g c (obj_of (q, sq))) as [nxt|e|] eqn:P;
      [|destruct e; try discriminate; destruct (fx_parents_nsp fx); discriminate | discriminate].
    apply IH.
    + apply NoDup_snoc; assumption.
    + intros x Hx. apply in_app_or in Hx. destruct Hx as [Hx|[Hx|[]]]; [apply I1; exact Hx|].
      subst x. apply (Hc (q, sq) eq_refl).
    + intros x Hx. apply in_app_or in Hx. destruct Hx as [Hx|[Hx|[]]]; [right; apply I2; exact Hx|].
      left. exact Hx.
    + intros [q2 s2] E. subst nxt. cbn [fst]. apply parent_some_listed in P.
      destruct (memz q gb); [apply (remove_pid_incl q t q2 P) | exact P].
    + rewrite app_length. cbn [length]. lia.
Qed.

Theorem parents_terminates : forall fx t gone goneb cache o, fx_parents_seen fx = true ->
  parents fx (S (length t)) t gone goneb cache o <> Val None.
Proof.
  intros fx t gone goneb cache o Fx. unfold parents.
  destruct (parent fx t gone cache o) as [first| |] eqn:P; cbn [obind]; try discriminate.
  apply (loop_terminates fx t gone goneb _ Fx).
  - constructor.
  - intros x [].
  - intros x [].
  - intros [q sq] E. subst first. cbn [fst]. apply (parent_some_listed fx t gone cache o q sq P).
  - cbn [length]. lia.
Qed.

(* ... and on a table without cyclic parent links it returns exactly the chain up to the root *)
Theorem parents_acyclic_chain : forall t cache o, wf_table t = true -> alive_b t o = true ->
  cache_fresh_b t cache = true -> acyclic t ->
  exists l, parents as_is (S (length t)) t [] [] cache o = Val (Some l) /\ chain t (o_pid o) l.
Proof.
  intros t cache o W A F AC. destruct (alive_facts t o A) as [_ [_ [e [L St]]]].
  pose proof (parents_terminates as_is t [] [] cache o eq_refl) as T.
  unfold parents in *. rewrite (parent_spec t cache o W A F) in *. cbn [obind] in *.
  pose proof (cache_after_fresh t cache o A F) as F'.
  destruct (spec_parent t (o_pid o) (o_ident o)) as [[q2 s2]|] eqn:SP.
  - destruct (spec_parent_listed _ _ _ _ _ SP) as [e' [L' S']].
    assert (Pq : spec_parent_of t (o_pid o) = Some q2) by (rewrite (spec_parent_of_eq t _ _ e L St), SP; reflexivity).
    destruct (loop_total as_is t _ W F' (S (length t)) q2 s2 e' [] [o_pid o] L' S') as [N|[r Hr]]; [contradiction|].
    destruct (loop_sound as_is t _ W F' AC (S (length t)) q2 s2 e' [] [o_pid o] r L' S') as [l [E Ch]].
    + intros x [Hx|[]]. subst x. exists O. cbn [up]. rewrite Pq. reflexivity.
    + exact Hr.
    + cbn [app] in E. subst r. exists (q2 :: l). split; [exact Hr|]. apply chain_cons; assumption.
  - exists []. split; [apply loop_none|].
    apply chain_end. rewrite (spec_parent_of_eq t _ _ e L St), SP. reflexivity.
Qed.

(* never an exception for a live caller *)
Theorem parents_total : forall t cache o, wf_table t = true -> alive_b t o = true ->
  cache_fresh_b t cache = true ->
  exists l, parents as_is (S (length t)) t [] [] cache o = Val (Some l).
Proof.
  intros t cache o W A F. pose proof (parents_terminates as_is t [] [] cache o eq_refl) as T.
  unfold parents in *. rewrite (parent_spec t cache o W A F) in *. cbn [obind] in *.
  pose proof (cache_after_fresh t cache o A F) as F'.
  destruct (spec_parent t (o_pid o) (o_ident o)) as [[q2 s2]|] eqn:SP.
  - destruct (spec_parent_listed _ _ _ _ _ SP) as [e' [L' S']].
    destruct (loop_total as_is t _ W F' (S (length t)) q2 s2 e' [] [o_pid o] L' S') as [N|[r Hr]]; [contradiction|].
    exists r. exact Hr.
  - exists []. apply loop_none.
Qed.

(* whatever the links are, the result is the chain of parent() cut before the first repeat *)
Lemma loop_cut : forall t c, wf_table t = true -> cache_fresh_b t c = true ->
  forall fuel seen p ep acc r, lookup t p = Some ep ->
  parents_loop as_is t [] [] c fuel seen (spec_parent t p (kp_start ep)) acc = Val (Some r) ->
  exists l, r = acc ++ l /\ chain_cut t seen p l.
Proof.
  intros t c W F. induction fuel as [|f IH]; intros seen p ep acc r Lp H;
    destruct (spec_parent t p (kp_start ep)) as [[q sq]|] eqn:SP.
  - assert (Pq : spec_parent_of t p = Some q) by (rewrite (spec_parent_of_eq t p _ ep Lp eq_refl), SP; reflexivity).
    destruct (memz q seen) eqn:M.
    + rewrite (loop_seen as_is t [] [] c O seen q sq acc eq_refl M) in H. injection H as Hr. subst r.
      exists []. split; [symmetry; apply app_nil_r|]. apply memz_In in M. apply (cut_seen t seen p q Pq M).
    + rewrite (loop_zero as_is t [] [] c seen q sq acc) in H; [discriminate | cbn [fx_parents_seen as_is andb]; exact M].
  - rewrite loop_none in H. injection H as Hr. subst r. exists []. split; [symmetry; apply app_nil_r|].
    apply cut_root. rewrite (spec_parent_of_eq t p _ ep Lp eq_refl), SP. reflexivity.
  - assert (Pq : spec_parent_of t p = Some q) by (rewrite (spec_parent_of_eq t p _ ep Lp eq_refl), SP; reflexivity).
    destruct (memz q seen) eqn:M.
    + rewrite (loop_seen as_is t [] [] c (S f) seen q sq acc eq_refl M) in H. injection H as Hr. subst r.
      exists []. split; [symmetry; apply app_nil_r|]. apply memz_In in M. apply (cut_seen t seen p q Pq M).
    + destruct (spec_parent_listed _ _ _ _ _ SP) as [e' [L' S']].
      rewrite (loop_step as_is t c W F f seen q sq e' acc L' S') in H; [|cbn [fx_parents_seen as_is andb]; exact M].
      rewrite <- S' in H. destruct (IH (q :: seen) q e' (acc ++ [q]) r L' H) as [l [E C]].
      exists (q :: l). split; [rewrite E, <- app_assoc; reflexivity|].
      apply memz_false in M. apply (cut_step t seen p q l Pq M C).
  - rewrite loop_none in H. injection H as Hr. subst r. exists []. split; [symmetry; apply app_nil_r|].
    apply cut_root. rewrite (spec_parent_of_eq t p _ ep Lp eq_refl), SP. reflexivity.
Qed.

Theorem parents_cut : forall t cache o, wf_table t = true -> alive_b t o = true ->
  cache_fresh_b t cache = true ->
  exists l, parents as_is (S (length t)) t [] [] cache o = Val (Some l) /\ chain_cut t [o_pid o] (o_pid o) l.
Proof.
  intros t cache o W A F. destruct (parents_total t cache o W A F) as [l Hl]. exists l. split; [exact Hl|].
  destruct (alive_facts t o A) as [_ [_ [e [L St]]]].
  unfold parents in Hl. rewrite (parent_spec t cache o W A F) in Hl. cbn [obind] in Hl.
  pose proof (cache_after_fresh t cache o A F) as F'. rewrite <- St in Hl.
  destruct (loop_cut t _ W F' (S (length t)) [o_pid o] (o_pid o) e [] l L Hl) as [l' [E C]].
  cbn [app] in E. subst l'. exact C.
Qed.

(* sufficient, decidable condition for acyclicity: every returned parent started strictly earlier *)
Lemma up_older : forall t, strictly_older_b t = true -> forall k p q, up t (S k) p = Some q ->
  exists ep eq, lookup t p = Some ep /\ lookup t q = Some eq /\ kp_start eq < kp_start ep.
Proof.
  intros t SO. unfold strictly_older_b in SO. rewrite forallb_forall in SO.
  assert (Step : forall p q, spec_parent_of t p = Some q ->
            exists ep eq, lookup t p = Some ep /\ lookup t q = Some eq /\ kp_start eq < kp_start ep).
  { intros p q H. unfold spec_parent_of in H. destruct (lookup t p) as [ep|] eqn:Lp; [|discriminate].
    pose proof (lookup_In _ _ _ Lp) as [Hep Ep]. specialize (SO ep Hep). rewrite Ep in SO.
    destruct (spec_parent t p (kp_start ep)) as [[q2 s2]|] eqn:SP; [|discriminate].
    cbn [option_map fst] in H. inversion H; subst.
    destruct (spec_parent_listed _ _ _ _ _ SP) as [eq [Lq Sq]].
    exists ep, eq. split; [reflexivity|]. split; [exact Lq|]. apply Z.ltb_lt in SO. lia. }
  induction k as [|k IH]; intros p q H.
  - cbn [up] in H. destruct (spec_parent_of t p) as [y|] eqn:Py; [|discriminate].
    inversion H; subst. apply Step. exact Py.
  - change (up t (S (S k)) p) with (match spec_parent_of t p with Some y => up t (S k) y | None => None end) in H.
    destruct (spec_parent_of t p) as [y|] eqn:Py; [|discriminate].
    destruct (Step p y Py) as [ep [ey [Lp [Ly Lt]]]].
    destruct (IH y q H) as [ey' [eq [Ly' [Lq Lt']]]].
    rewrite Ly in Ly'. inversion Ly'; subst. exists ep, eq. repeat split; try assumption. lia.
Qed.

Theorem strictly_older_acyclic : forall t, strictly_older_b t = true -> acyclic t.
Proof.
  intros t SO p k H. destruct (up_older t SO k p p H) as [ep [eq [Lp [Lq Lt]]]].
  rewrite Lp in Lq. inversion Lq; subst. lia.
Qed.

Definition tree4 : table := [ {| kp_pid := 1; kp_ppid := 0; kp_start := 1 |};
                              {| kp_pid := 5; kp_ppid := 1; kp_start := 30 |};
                              {| kp_pid := 8; kp_ppid := 5; kp_start := 40 |};
                              {| kp_pid := 9; kp_ppid := 8; kp_start := 41 |} ].
Definition o9 : pobj := {| o_pid := 9; o_ident := 41; o_ctime := None; o_known := true |}.
Example tree4_hyps : wf_table tree4 = true /\ alive_b tree4 o9 = true /\ cache_fresh_b tree4 None = true /\
  acyclic tree4 /\ parents as_is 5 tree4 [] [] None o9 = Val (Some [8; 5; 1]).
Proof.
  split; [reflexivity|]. split; [reflexivity|]. split; [reflexivity|].
  split; [apply strictly_older_acyclic; reflexivity | vm_compute; reflexivity].
Qed.

(* the code before repair e202d3b: on a ppid self-loop parents() exhausts every fuel *)
Definition loop17 : table := [ {| kp_pid := 1; kp_ppid := 0; kp_start := 1 |};
                               {| kp_pid := 7; kp_ppid := 7; kp_start := 50 |} ].

Lemma loop17_spin : forall fuel seen acc,
  parents_loop before_fixes loop17 [] [] (Some 1) fuel seen (Some (7, 50)) acc = Val None.
Proof.
  induction fuel as [|f IH]; intros seen acc; [reflexivity|].
  rewrite (loop_step before_fixes loop17 (Some 1) eq_refl eq_refl f seen 7 50
             {| kp_pid := 7; kp_ppid := 7; kp_start := 50 |} acc eq_refl eq_refl eq_refl).
  change (spec_parent loop17 7 50) with (Some (7, 50)). apply IH.
Qed.

Theorem parents_old_nonterminating_refuted :
  exists t o, wf_table t = true /\ alive_b t o = true /\
              forall fuel, parents before_fixes fuel t [] [] None o = Val None.
Proof.
  exists loop17, o7. split; [reflexivity|]. split; [reflexivity|]. intros fuel.
  unfold parents. change (parent before_fixes loop17 [] None o7) with (Val (A := option (Z * Z)) (Some (7, 50))).
  cbn [obind]. change (cache_after loop17 None) with (Some 1). apply loop17_spin.
Qed.

Example loop17_now : parents as_is 3 loop17 [] [] None o7 = Val (Some []).
Proof. vm_compute. reflexivity. Qed.
