(* C05 -- proofs about parent() and parents(). *)
From PV Require Export C05.Proofs.

(* ------------------------------------------------------------ the lowest PID *)
Lemma fold_min_assoc : forall r x y, fold_left Z.min r (Z.min x y) = Z.min x (fold_left Z.min r y).
Proof.
  induction r as [|a r IH]; intros x y; cbn [fold_left]; [reflexivity|].
  rewrite <- Z.min_assoc. apply IH.
Qed.

Lemma root_of_fold : forall r p, root_of (p :: r) = Some (fold_left Z.min r p).
Proof.
  induction r as [|a r IH]; intros p; [reflexivity|].
  change (root_of (p :: a :: r)) with
    (match root_of (a :: r) with None => Some p | Some m => Some (if p <? m then p else m) end).
  rewrite IH. cbn [fold_left]. rewrite fold_min_assoc. f_equal.
  destruct (Z.ltb_spec p (fold_left Z.min r a)); lia.
Qed.

Lemma min_pid_root : forall t, min_pid t = match root_of (pids_of t) with Some m => Val m | None => Exc IndexError end.
Proof.
  intros t. unfold min_pid. destruct (pids_of t) as [|p r]; [reflexivity|]. rewrite root_of_fold. reflexivity.
Qed.

Lemma root_of_is_root : forall t r, root_of (pids_of t) = Some r -> is_root t r.
Proof.
  intros t r. unfold is_root. generalize (pids_of t). clear t.
  intros l. revert r. induction l as [|p l IH]; intros r H; [discriminate|].
  cbn [root_of] in H. destruct (root_of l) as [m|] eqn:Rl.
  - destruct (IH m eq_refl) as [I1 I2]. inversion H; subst. clear H.
    destruct (Z.ltb_spec p m) as [Lt|Ge].
    + split; [left; reflexivity|]. intros x [Hx|Hx]; [lia|]. specialize (I2 x Hx). lia.
    + split; [right; exact I1|]. intros x [Hx|Hx]; [lia|]. apply I2. exact Hx.
  - inversion H; subst. destruct l as [|a l]; [|cbn [root_of] in Rl; destruct (root_of l); discriminate].
    split; [left; reflexivity|]. intros x [Hx|[]]. lia.
Qed.

Lemma fresh_lowest : forall t cache o, alive_b t o = true -> cache_fresh_b t cache = true ->
  exists r, lowest_pid t cache = Val r /\ root_of (pids_of t) = Some r.
Proof.
  intros t cache o A F. destruct (alive_facts t o A) as [_ [_ [e [L _]]]].
  assert (NE : exists r, root_of (pids_of t) = Some r).
  { apply lookup_In in L. destruct L as [He _]. unfold pids_of.
    destruct t as [|a t']; [destruct He|]. cbn [map]. rewrite root_of_fold. eexists. reflexivity. }
  destruct NE as [r Hr]. unfold lowest_pid. destruct cache as [l|].
  - unfold cache_fresh_b, is_root_b in F. rewrite Hr in F. apply Z.eqb_eq in F. subst. exists r. auto.
  - exists r. rewrite min_pid_root, Hr. auto.
Qed.

(* ------------------------------------------------------------ parent() *)
Theorem parent_spec : forall t cache o, wf_table t = true -> alive_b t o = true ->
  cache_fresh_b t cache = true ->
  parent as_is t cache o = Val (spec_parent t (o_pid o) (o_ident o)).
Proof.
  intros t cache o W A F. destruct (fresh_lowest t cache o A F) as [r [Lr Rr]].
  destruct (alive_facts t o A) as [R [C [e [L S]]]].
  unfold parent, spec_parent, is_root_b. cbn [fx_parent_reuse as_is obind]. rewrite Lr, Rr. cbn [obind].
  destruct (o_pid o =? r); [reflexivity|].
  unfold ppid_call. rewrite R, L, C. cbn [obind].
  pose proof (lookup_In _ _ _ L) as [He _].
  destruct (wf_range t e W He) as [_ [P1 P2]].
  unfold proc_new.
  assert (X1 : (kp_ppid e <? 0) = false) by (apply Z.ltb_ge; exact P1). rewrite X1.
  assert (X2 : (PID_MAX <? kp_ppid e) = false) by (apply Z.ltb_ge; exact P2). rewrite X2.
  cbn [memz existsb]. destruct (lookup t (kp_ppid e)) as [pe|] eqn:Lp; [|reflexivity].
  apply lookup_In in Lp. destruct Lp as [_ Ep]. rewrite Ep.
  destruct (kp_start pe <=? o_ident o); reflexivity.
Qed.

Definition tab15 : table := [ {| kp_pid := 1; kp_ppid := 0; kp_start := 1 |};
                              {| kp_pid := 5; kp_ppid := 1; kp_start := 10 |} ].
Definition o5' : pobj := {| o_pid := 5; o_ident := 10; o_ctime := None |}.

Theorem parent_stale_cache_refuted :
  exists t cache o, wf_table t = true /\ alive_b t o = true /\
    spec_parent t (o_pid o) (o_ident o) = Some (1, 1) /\ parent as_is t cache o = Val None.
Proof. exists tab15, (Some 5), o5'. repeat split; vm_compute; reflexivity. Qed.

Example parent_spec_hyps :
  wf_table tab15 = true /\ alive_b tab15 o5' = true /\ cache_fresh_b tab15 (Some 1) = true /\
  cache_fresh_b tab15 None = true /\ parent as_is tab15 None o5' = Val (Some (1, 1)).
Proof. repeat split; vm_compute; reflexivity. Qed.

(* recycled caller: NoSuchProcess -- except, in the code as it is, for the PID
   parent() takes for the lowest one *)
Theorem parent_recycled : forall t cache o low, recycled_b t o = true ->
  lowest_pid t cache = Val low -> o_pid o <> low ->
  parent as_is t cache o = Exc NoSuchProcess.
Proof.
  intros t cache o low H Lw Ne. unfold parent. cbn [fx_parent_reuse as_is obind]. rewrite Lw. cbn [obind].
  apply Z.eqb_neq in Ne. rewrite Ne. unfold ppid_call. rewrite (recycled_raises t o H). reflexivity.
Qed.

Theorem parent_recycled_patched : forall fx t cache o, fx_parent_reuse fx = true -> recycled_b t o = true ->
  parent fx t cache o = Exc NoSuchProcess.
Proof.
  intros fx t cache o F H. unfold parent. rewrite F. rewrite (recycled_raises t o H). reflexivity.
Qed.

Definition tab1r : table := [ {| kp_pid := 1; kp_ppid := 0; kp_start := 20 |};
                              {| kp_pid := 5; kp_ppid := 1; kp_start := 30 |} ].
Definition o1r : pobj := {| o_pid := 1; o_ident := 10; o_ctime := None |}.

Theorem parent_recycled_lowest_refuted :
  exists t o, wf_table t = true /\ recycled_b t o = true /\
    parent as_is t None o = Val None /\ parents as_is 3 t None o = Val (Some []).
Proof. exists tab1r, o1r. repeat split; vm_compute; reflexivity. Qed.

(* ------------------------------------------------------------ parents() *)
Lemma spec_parent_listed : forall t p s q sq, spec_parent t p s = Some (q, sq) ->
  exists e, lookup t q = Some e /\ kp_start e = sq.
Proof.
  intros t p s q sq H. unfold spec_parent in H. destruct (is_root_b t p); [discriminate|].
  destruct (lookup t p) as [e|]; [|discriminate].
  destruct (lookup t (kp_ppid e)) as [pe|] eqn:Lp; [|discriminate].
  destruct (kp_start pe <=? s); [|discriminate]. inversion H; subst.
  pose proof (lookup_In _ _ _ Lp) as [_ Ep]. rewrite Ep. exists pe. auto.
Qed.

Lemma obj_alive : forall t q sq e, lookup t q = Some e -> kp_start e = sq -> alive_b t (obj_of (q, sq)) = true.
Proof.
  intros t q sq e L S. unfold alive_b, obj_of. cbn [o_pid o_ident o_ctime fst snd]. rewrite L, S.
  rewrite Z.eqb_refl. reflexivity.
Qed.

Lemma spec_parent_of_eq : forall t q sq e, lookup t q = Some e -> kp_start e = sq ->
  spec_parent_of t q = option_map fst (spec_parent t q sq).
Proof. intros t q sq e L S. unfold spec_parent_of. rewrite L, S. reflexivity. Qed.

Lemma loop_none : forall fx t c fuel seen acc, parents_loop fx t c fuel seen None acc = Val (Some acc).
Proof. intros. destruct fuel; reflexivity. Qed.

Section Parents.
  Variables (t : table) (c : option Z).
  Hypothesis W : wf_table t = true.
  Hypothesis F : cache_fresh_b t c = true.

  Lemma loop_step : forall f seen q sq e acc, lookup t q = Some e -> kp_start e = sq ->
    parents_loop as_is t c (S f) seen (Some (q, sq)) acc =
    parents_loop as_is t c f (q :: seen) (spec_parent t q sq) (acc ++ [q]).
  Proof.
    intros f seen q sq e acc L S. cbn [parents_loop fx_parents_seen as_is andb fst].
    pose proof (parent_spec t c (obj_of (q, sq)) W (obj_alive t q sq e L S) F) as P.
    rewrite P. cbn [obind obj_of o_pid o_ident fst snd]. reflexivity.
  Qed.

  Lemma loop_complete : forall l q sq e acc seen fuel, chain t q l ->
    lookup t q = Some e -> kp_start e = sq -> (length l < fuel)%nat ->
    parents_loop as_is t c fuel seen (Some (q, sq)) acc = Val (Some (acc ++ q :: l)).
  Proof.
    induction l as [|q' l IH]; intros q sq e acc seen fuel Ch L S B.
    - destruct fuel as [|f]; [cbn [length] in B; lia|]. rewrite (loop_step f seen q sq e acc L S).
      inversion Ch as [p Hn|]; subst. rewrite (spec_parent_of_eq t q _ e L eq_refl) in Hn.
      destruct (spec_parent t q (kp_start e)); [discriminate|]. apply loop_none.
    - destruct fuel as [|f]; [cbn [length] in B; lia|]. rewrite (loop_step f seen q sq e acc L S).
      inversion Ch as [|p q0 l0 Hs Ch']; subst. rewrite (spec_parent_of_eq t q _ e L eq_refl) in Hs.
      destruct (spec_parent t q (kp_start e)) as [[q2 s2]|] eqn:SP; [|discriminate].
      cbn [option_map fst] in Hs. inversion Hs; subst.
      destruct (spec_parent_listed _ _ _ _ _ SP) as [e' [L' S']].
      rewrite (IH q' s2 e' (acc ++ [q]) (q :: seen) f Ch' L' S'); [|cbn [length] in B; lia].
      rewrite <- app_assoc. reflexivity.
  Qed.

  Lemma loop_sound : forall fuel q sq e acc seen r,
    lookup t q = Some e -> kp_start e = sq ->
    parents_loop as_is t c fuel seen (Some (q, sq)) acc = Val (Some r) ->
    exists l, r = acc ++ q :: l /\ chain t q l.
  Proof.
    induction fuel as [|f IH]; intros q sq e acc seen r L S H.
    - cbn [parents_loop fx_parents_seen as_is andb] in H. discriminate.
    - rewrite (loop_step f seen q sq e acc L S) in H.
      destruct (spec_parent t q sq) as [[q2 s2]|] eqn:SP.
      + destruct (spec_parent_listed _ _ _ _ _ SP) as [e' [L' S']].
        destruct (IH q2 s2 e' _ _ _ L' S' H) as [l [E Ch]].
        exists (q2 :: l). split; [rewrite E, <- app_assoc; reflexivity|].
        apply chain_cons; [|exact Ch]. rewrite (spec_parent_of_eq t q sq e L S), SP. reflexivity.
      + rewrite loop_none in H. injection H as Hr. subst r. exists []. split; [reflexivity|].
        apply chain_end. rewrite (spec_parent_of_eq t q sq e L S), SP. reflexivity.
  Qed.

  Lemma loop_total : forall fuel q sq e acc seen,
    lookup t q = Some e -> kp_start e = sq ->
    parents_loop as_is t c fuel seen (Some (q, sq)) acc = Val None \/
    exists r, parents_loop as_is t c fuel seen (Some (q, sq)) acc = Val (Some r).
  Proof.
    induction fuel as [|f IH]; intros q sq e acc seen L S.
    - left. reflexivity.
    - rewrite (loop_step f seen q sq e acc L S).
      destruct (spec_parent t q sq) as [[q2 s2]|] eqn:SP.
      + destruct (spec_parent_listed _ _ _ _ _ SP) as [e' [L' S']]. apply (IH q2 s2 e'); assumption.
      + right. eexists. apply loop_none.
  Qed.
End Parents.

Lemma cache_after_fresh : forall t cache o, alive_b t o = true -> cache_fresh_b t cache = true ->
  cache_fresh_b t (cache_after t cache) = true.
Proof.
  intros t cache o A F. destruct (fresh_lowest t cache o A F) as [r [Lr Rr]].
  unfold cache_after. destruct cache as [l|]; [exact F|].
  unfold lowest_pid in Lr. rewrite Lr. unfold cache_fresh_b, is_root_b. rewrite Rr. apply Z.eqb_refl.
Qed.

(* parents() is the chain of parent() up to the root, whenever that chain ends *)
Theorem parents_chain_complete : forall t cache o l fuel, wf_table t = true -> alive_b t o = true ->
  cache_fresh_b t cache = true -> chain t (o_pid o) l -> (length l <= fuel)%nat ->
  parents as_is fuel t cache o = Val (Some l).
Proof.
  intros t cache o l fuel W A F Ch B. destruct (alive_facts t o A) as [_ [_ [e [L S]]]].
  unfold parents. rewrite (parent_spec t cache o W A F). cbn [obind].
  pose proof (cache_after_fresh t cache o A F) as F'.
  inversion Ch as [p Hn | p q l' Hs Ch']; subst.
  - rewrite (spec_parent_of_eq t _ _ e L S) in Hn.
    destruct (spec_parent t (o_pid o) (o_ident o)); [discriminate|].
    apply loop_none.
  - rewrite (spec_parent_of_eq t _ _ e L S) in Hs.
    destruct (spec_parent t (o_pid o) (o_ident o)) as [[q2 s2]|] eqn:SP; [|discriminate].
    cbn [option_map fst] in Hs. inversion Hs; subst.
    destruct (spec_parent_listed _ _ _ _ _ SP) as [e' [L' S']].
    rewrite (loop_complete t _ W F' l' q s2 e' [] [o_pid o] fuel Ch' L' S'); [reflexivity|].
    cbn [length] in B. lia.
Qed.

Theorem parents_chain_sound : forall t cache o l fuel, wf_table t = true -> alive_b t o = true ->
  cache_fresh_b t cache = true ->
  parents as_is fuel t cache o = Val (Some l) -> chain t (o_pid o) l.
Proof.
  intros t cache o l fuel W A F H. destruct (alive_facts t o A) as [_ [_ [e [L S]]]].
  unfold parents in H. rewrite (parent_spec t cache o W A F) in H. cbn [obind] in H.
  pose proof (cache_after_fresh t cache o A F) as F'.
  destruct (spec_parent t (o_pid o) (o_ident o)) as [[q2 s2]|] eqn:SP.
  - destruct (spec_parent_listed _ _ _ _ _ SP) as [e' [L' S']].
    destruct (loop_sound t _ W F' fuel q2 s2 e' [] _ l L' S' H) as [l' [E Ch]].
    cbn [app] in E. subst l. apply chain_cons; [|exact Ch].
    rewrite (spec_parent_of_eq t _ _ e L S), SP. reflexivity.
  - rewrite loop_none in H. assert (l = []) by (inversion H; reflexivity). subst.
    apply chain_end. rewrite (spec_parent_of_eq t _ _ e L S), SP. reflexivity.
Qed.

(* ... and no other outcome is possible: a list or fuel exhaustion, never an exception *)
Theorem parents_total : forall t cache o fuel, wf_table t = true -> alive_b t o = true ->
  cache_fresh_b t cache = true ->
  parents as_is fuel t cache o = Val None \/ exists l, parents as_is fuel t cache o = Val (Some l).
Proof.
  intros t cache o fuel W A F. unfold parents. rewrite (parent_spec t cache o W A F). cbn [obind].
  pose proof (cache_after_fresh t cache o A F) as F'.
  destruct (spec_parent t (o_pid o) (o_ident o)) as [[q2 s2]|] eqn:SP.
  - destruct (spec_parent_listed _ _ _ _ _ SP) as [e' [L' S']].
    apply (loop_total t _ W F' fuel q2 s2 e'); assumption.
  - right. exists []. apply loop_none.
Qed.

(* non-termination on a ppid self-loop: fuel is exhausted whatever the fuel *)
Definition loop17 : table := [ {| kp_pid := 1; kp_ppid := 0; kp_start := 1 |};
                               {| kp_pid := 7; kp_ppid := 7; kp_start := 50 |} ].

Lemma loop17_spin : forall fuel seen acc,
  parents_loop as_is loop17 (Some 1) fuel seen (Some (7, 50)) acc = Val None.
Proof.
  induction fuel as [|f IH]; intros seen acc; [reflexivity|].
  rewrite (loop_step loop17 (Some 1) eq_refl eq_refl f seen 7 50
             {| kp_pid := 7; kp_ppid := 7; kp_start := 50 |} acc eq_refl eq_refl).
  change (spec_parent loop17 7 50) with (Some (7, 50)). apply IH.
Qed.

Theorem parents_nonterminating_refuted :
  exists t o, wf_table t = true /\ alive_b t o = true /\
              forall fuel, parents as_is fuel t None o = Val None.
Proof.
  exists loop17, o7. split; [reflexivity|]. split; [reflexivity|]. intros fuel.
  unfold parents. change (parent as_is loop17 None o7) with (Val (A := option (Z * Z)) (Some (7, 50))).
  cbn [obind]. change (cache_after loop17 None) with (Some 1). apply loop17_spin.
Qed.

Theorem parents_recycled : forall t cache o low fuel, recycled_b t o = true ->
  lowest_pid t cache = Val low -> o_pid o <> low ->
  parents as_is fuel t cache o = Exc NoSuchProcess.
Proof.
  intros t cache o low fuel H Lw Ne. unfold parents. rewrite (parent_recycled t cache o low H Lw Ne). reflexivity.
Qed.
