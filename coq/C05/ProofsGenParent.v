(* C05 -- the interpreter of PyGen.v (run_parent) on the program GENERATED from the source of Process.parent()
   (coq/Gen/C05_Tables.v: c05_parent) equals the hand-written model's [parent as_is] for EVERY process table, vanish set,
   lowest-PID cache and caller object (no hypothesis). *)
From PV Require Import C05.PyGen Gen.C05_Tables.
From Coq Require Import String Lia.
Import ListNotations.
Local Open Scope string_scope.
Local Open Scope Z_scope.
Local Open Scope list_scope.

Definition expected_parent : list pstmt :=
  [PCheck; PLowest "lowest_pid"; PIfReturnNone (CCmp OEq ESelfPid (EVar "lowest_pid")); PPpid "ppid";
   PIfNotNone "ppid"
     [PTry [PNewProc "parent" (EVar "ppid"); PStartTimes "ctime" "parent_ctime" "parent";
            PIfReturnProc (CCmp OLe (EVar "parent_ctime") (EVar "ctime")) "parent"]
           [NoSuchProcess]]].

Lemma gen_parent_is_expected : c05_parent = expected_parent.
Proof. reflexivity. Qed.

Definition pprims_of (t : table) (gone : list Z) (cache : option Z) (o : pobj) : pprims :=
  {| q_base := {| p_self := o_pid o; p_check := raise_if_pid_reused t o; p_map := ppid_map t;
                  p_new := proc_new t gone; p_start := caller_start as_is t o |};
     q_lowest := lowest_pid t cache; q_ppid := ppid_call t o |}.

(* once ppid() has answered, the caller's start time is known: its stat file is there *)
Lemma ppid_then_start : forall t o pp, ppid_call t o = Val pp -> exists c, caller_start as_is t o = Val c.
Proof.
  intros t o pp H. unfold ppid_call in H. destruct (raise_if_pid_reused t o); cbn in H; try discriminate.
  unfold caller_start, ident_opt, self_ctime. cbn [as_is fx_mono fx_ident_some].
  destruct (o_known o); cbn [orb]; [eexists; reflexivity|].
  destruct (o_ctime o); [eexists; reflexivity|].
  destruct (lookup t (o_pid o)); [eexists; reflexivity | discriminate].
Qed.

Theorem gen_parent : forall t gone cache o,
  run_parent (pprims_of t gone cache o) c05_parent = parent as_is t gone cache o.
Proof.
  intros t gone cache o. rewrite gen_parent_is_expected. unfold run_parent, parent, expected_parent.
  cbn -[raise_if_pid_reused lowest_pid ppid_call proc_new caller_start].
  destruct (raise_if_pid_reused t o) as [u|e|]; [| reflexivity | reflexivity].
  cbn -[lowest_pid ppid_call proc_new caller_start].
  destruct (lowest_pid t cache) as [low|e|]; [| reflexivity | reflexivity].
  cbn -[ppid_call proc_new caller_start].
  destruct (o_pid o =? low); [reflexivity|].
  destruct (ppid_call t o) as [pp|e|] eqn:Epp; [| reflexivity | reflexivity].
  destruct (ppid_then_start t o pp Epp) as [c Hc].
  cbn -[proc_new caller_start]. rewrite Hc.
  destruct (proc_new t gone pp) as [ps|e|]; cbn -[proc_new caller_start].
  - rewrite ?Hc. cbn. destruct (ps <=? c); reflexivity.
  - destruct e; reflexivity.
  - reflexivity.
Qed.
