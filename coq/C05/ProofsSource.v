(* C05 -- what the SOURCE says (table generated from the ast of the code under test):
   Process.children(), parents(), parent() and ppid_map() are loops -- none of them reaches
   itself through calls (by name, an over-approximation), none defines a nested function,
   lambda or class that could recurse.  Decided by computation on the generated table. *)
From Coq Require Import String List Bool Arith.
From PV Require Import Gen.C05_Tables.
Import ListNotations.
Local Open Scope string_scope.

Definition entry (f : string) : option (list string * nat) :=
  match find (fun x => String.eqb (fst x) f) c05_calls with Some x => Some (snd x) | None => None end.
Definition callees (f : string) : list string := match entry f with Some (cs, _) => cs | None => [] end.
Definition nested (f : string) : nat := match entry f with Some (_, k) => k | None => 1%nat end.   (* unknown: fail *)
Definition present (f : string) : bool := match entry f with Some _ => true | None => false end.

(* g is reachable from f in at most [fuel] calls through the listed functions; a cycle-free
   path never needs more than the number of listed functions *)
Fixpoint reaches (fuel : nat) (f g : string) : bool :=
  match fuel with
  | O => false
  | S m => existsb (fun c => String.eqb c g || reaches m c g) (callees f)
  end.

Definition loop_only (f : string) : bool :=
  present f && negb (reaches (length c05_calls) f f) && Nat.eqb (nested f) 0.

Definition walkers : list string := ["children"; "parents"; "parent"; "linux.ppid_map"].

Lemma source_no_recursion : forallb loop_only walkers = true.
Proof. vm_compute. reflexivity. Qed.

(* what the walkers may call stays outside them: none of the functions they reach calls back *)
Lemma source_no_callback :
  forallb (fun f => forallb (fun g => negb (reaches (length c05_calls) f g && reaches (length c05_calls) g f)) walkers) walkers = true.
Proof. vm_compute. reflexivity. Qed.
