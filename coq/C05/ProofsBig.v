(* C05 -- chains of ANY length: the answers of children(recursive=True) and parents() are the
   demanded ones, with fuel = number of processes + 1 (an explicit work-list, no recursion on
   the depth of the tree). *)
From PV Require Export C05.ProofsClock.

Lemma zseq_In : forall n a x, In x (zseq a n) <-> a <= x < a + Z.of_nat n.
Proof.
  induction n as [|n IH]; intros a x; cbn [zseq].
  - cbn [In]. lia.
  - cbn [In]. rewrite IH. lia.
Qed.

Lemma zseq_length : forall n a, length (zseq a n) = n.
Proof. induction n as [|n IH]; intros a; cbn [zseq length]; [reflexivity | rewrite IH; reflexivity]. Qed.

Lemma zseq_NoDup : forall n a, NoDup (zseq a n).
Proof.
  induction n as [|n IH]; intros a; cbn [zseq]; constructor; [|apply IH].
  intros H. apply zseq_In in H. lia.
Qed.

Lemma chain_pids : forall n, pids_of (gen_chain n) = zseq 1 n.
Proof.
  intros n. unfold pids_of, gen_chain. rewrite map_map. cbn [kp_pid chain_entry]. apply map_id.
Qed.

Lemma chain_length : forall n, length (gen_chain n) = n.
Proof. intros n. unfold gen_chain. rewrite map_length. apply zseq_length. Qed.

Lemma chain_In : forall n e, In e (gen_chain n) <-> exists i, e = chain_entry i /\ 1 <= i <= Z.of_nat n.
Proof.
  intros n e. unfold gen_chain. rewrite in_map_iff. split.
  - intros [i [E H]]. apply zseq_In in H. exists i. split; [symmetry; exact E | lia].
  - intros [i [E H]]. exists i. split; [symmetry; exact E | apply zseq_In; lia].
Qed.

Lemma chain_wf : forall n, Z.of_nat n <= PID_MAX -> wf_table (gen_chain n) = true.
Proof.
  intros n B. unfold wf_table. apply andb_true_iff. split.
  - apply NoDup_nodupb. rewrite chain_pids. apply zseq_NoDup.
  - apply forallb_forall. intros e He. apply chain_In in He. destruct He as [i [E H]]. subst e.
    cbn [chain_entry kp_pid kp_ppid]. unfold PID_MAX in *.
    repeat (apply andb_true_iff; split); apply Z.leb_le; lia.
Qed.

Lemma chain_lookup : forall n i, 1 <= i <= Z.of_nat n -> lookup (gen_chain n) i = Some (chain_entry i).
Proof.
  intros n i H. change i with (kp_pid (chain_entry i)) at 1. apply lookup_complete.
  - rewrite chain_pids. apply zseq_NoDup.
  - apply chain_In. exists i. auto.
Qed.

Lemma chain_lookup_none : forall n i, ~ (1 <= i <= Z.of_nat n) -> lookup (gen_chain n) i = None.
Proof.
  intros n i H. destruct (lookup (gen_chain n) i) as [e|] eqn:L; [|reflexivity].
  apply lookup_In in L. destruct L as [He Ep]. apply chain_In in He. destruct He as [j [E Hj]]. subst e.
  cbn [chain_entry kp_pid] in Ep. subst j. contradiction.
Qed.

Definition chain_caller (k : Z) : pobj := {| o_pid := k; o_ident := k; o_ctime := None; o_known := true |}.

Lemma chain_live : forall n k, 1 <= k <= Z.of_nat n -> live_b (gen_chain n) (chain_caller k) = true.
Proof.
  intros n k H. unfold live_b, chain_caller. cbn [o_pid o_ident o_known]. rewrite (chain_lookup n k H).
  cbn [chain_entry kp_start andb]. apply Z.eqb_refl.
Qed.

(* the descendants of PID k in the chain are k+1 .. n *)
Lemma chain_desc : forall n k q, 1 <= k ->
  (desc (gen_chain n) [] k k q <-> k < q <= Z.of_nat n).
Proof.
  intros n k q Hk. split.
  - intros D. induction D as [e He E El | e He El D IH].
    + apply chain_In in He. destruct He as [i [Ei Hi]]. subst e. cbn [chain_entry kp_pid kp_ppid] in *. lia.
    + apply chain_In in He. destruct He as [i [Ei Hi]]. subst e. cbn [chain_entry kp_pid kp_ppid] in *. lia.
  - intros H. assert (G : forall m, k + 1 + Z.of_nat m <= Z.of_nat n -> desc (gen_chain n) [] k k (k + 1 + Z.of_nat m)).
    { induction m as [|m IHm]; intros B.
      - replace (k + 1 + Z.of_nat 0) with (kp_pid (chain_entry (k + 1))) by (cbn [chain_entry kp_pid]; lia).
        apply desc_child.
        + apply chain_In. exists (k + 1). split; [reflexivity | lia].
        + cbn [chain_entry kp_ppid]. lia.
        + unfold elig. cbn [chain_entry kp_pid kp_start memz existsb negb andb]. apply Z.leb_le. lia.
      - replace (k + 1 + Z.of_nat (S m)) with (kp_pid (chain_entry (k + 1 + Z.of_nat (S m)))) by reflexivity.
        apply desc_step.
        + apply chain_In. eexists. split; [reflexivity | lia].
        + unfold elig. cbn [chain_entry kp_pid kp_start memz existsb negb andb]. apply Z.leb_le. lia.
        + cbn [chain_entry kp_ppid]. replace (k + 1 + Z.of_nat (S m) - 1) with (k + 1 + Z.of_nat m) by lia.
          apply IHm. lia. }
    replace q with (k + 1 + Z.of_nat (Z.to_nat (q - k - 1))) by lia. apply G. lia.
Qed.

(* children(recursive=True) of PID k in a chain of ANY length n: fuel n+1 suffices, every
   process once, exactly k+1 .. n *)
Theorem chain_children_rec : forall n k, Z.of_nat n <= PID_MAX -> 1 <= k <= Z.of_nat n ->
  exists l, children_rec as_is (S n) (gen_chain n) [] (chain_caller k) = Val (Some l) /\ NoDup l /\
            forall q, In q l <-> k < q <= Z.of_nat n.
Proof.
  intros n k B H.
  destruct (children_rec_live (gen_chain n) [] (chain_caller k) (chain_wf n B) (chain_live n k H)) as [l [E [ND I]]].
  rewrite chain_length in E. exists l. split; [exact E|]. split; [exact ND|].
  intros q. rewrite I. cbn [chain_caller o_pid o_ident]. rewrite (chain_desc n k q); lia.
Qed.

(* the root of a chain is PID 1 *)
Lemma root_zseq : forall m a, root_of (zseq a (S m)) = Some a.
Proof.
  induction m as [|m IH]; intros a; [reflexivity|].
  change (zseq a (S (S m))) with (a :: zseq (a + 1) (S m)). cbn [root_of]. rewrite IH.
  destruct (Z.ltb_spec a (a + 1)); [reflexivity | lia].
Qed.

Lemma chain_root : forall n i, (1 <= n)%nat -> is_root_b (gen_chain n) i = (i =? 1).
Proof.
  intros n i H. unfold is_root_b. rewrite chain_pids. destruct n as [|m]; [lia|]. rewrite root_zseq. reflexivity.
Qed.

Lemma chain_spec_parent_of : forall n i, 1 <= i <= Z.of_nat n ->
  spec_parent_of (gen_chain n) i = if i =? 1 then None else Some (i - 1).
Proof.
  intros n i H. unfold spec_parent_of, spec_parent. rewrite (chain_lookup n i H).
  rewrite chain_root by lia. destruct (i =? 1) eqn:E1; [reflexivity|]. apply Z.eqb_neq in E1.
  cbn [chain_entry kp_ppid kp_start]. rewrite (chain_lookup n (i - 1)) by lia.
  cbn [chain_entry kp_start kp_pid]. assert (X : (i - 1 <=? i) = true) by (apply Z.leb_le; lia). rewrite X. reflexivity.
Qed.

Lemma chain_chain : forall n m, (S m <= n)%nat -> chain (gen_chain n) (Z.of_nat (S m)) (down m).
Proof.
  intros n. induction m as [|m IH]; intros H.
  - apply chain_end. rewrite chain_spec_parent_of by lia. reflexivity.
  - cbn [down]. apply chain_cons.
    + rewrite chain_spec_parent_of by lia.
      assert (X : (Z.of_nat (S (S m)) =? 1) = false) by (apply Z.eqb_neq; lia). rewrite X. f_equal. lia.
    + apply IH. lia.
Qed.

Lemma down_length : forall m, length (down m) = m.
Proof. induction m as [|m IH]; cbn [down length]; [reflexivity | rewrite IH; reflexivity]. Qed.

(* parents() of PID m+1 in a chain of ANY length n: fuel n+1 suffices, the answer is
   m, m-1, .., 1 *)
Theorem chain_parents : forall n m cache, Z.of_nat n <= PID_MAX -> (S m <= n)%nat ->
  cache_fresh_b (gen_chain n) cache = true ->
  parents as_is (S n) (gen_chain n) [] [] cache (chain_caller (Z.of_nat (S m))) = Val (Some (down m)).
Proof.
  intros n m cache B H F.
  apply (parents_chain_complete_live (gen_chain n) cache (chain_caller (Z.of_nat (S m))) (down m) (S n)
           (chain_wf n B)); [apply chain_live; lia | exact F | apply chain_chain; exact H | rewrite down_length; lia].
Qed.

Example chain_big : children_rec as_is 6 (gen_chain 5) [] (chain_caller 2) = Val (Some [3; 4; 5])
                    /\ parents as_is 6 (gen_chain 5) [] [] None (chain_caller 5) = Val (Some [4; 3; 2; 1]).
Proof. split; vm_compute; reflexivity. Qed.
