(* C04 -- small library: insertion sort by an integer key, integer sets as lists,
   dictionaries as association lists (first binding wins). *)
From PV Require Export Base.Prelude.
From Coq Require Export Sorting.Sorted Sorting.Permutation.

Definition zmem (x : Z) (l : list Z) : bool := existsb (Z.eqb x) l.

Lemma zmem_In x l : zmem x l = true <-> In x l.
Proof.
  unfold zmem. rewrite existsb_exists. split.
  - intros [y [Hy He]]. apply Z.eqb_eq in He. now subst.
  - intros H. exists x. split; [exact H|apply Z.eqb_refl].
Qed.

Lemma zmem_false x l : zmem x l = false <-> ~ In x l.
Proof.
  rewrite <- zmem_In. destruct (zmem x l); split; intros; try congruence; tauto.
Qed.

(* ------------------------------------------------------------ insertion sort *)
Section Sort.
  Context {A : Type} (key : A -> Z).

  Fixpoint ins (x : A) (l : list A) : list A :=
    match l with
    | [] => [x]
    | y :: r => if key x <=? key y then x :: l else y :: ins x r
    end.

  Fixpoint isort (l : list A) : list A :=
    match l with
    | [] => []
    | x :: r => ins x (isort r)
    end.

  Lemma ins_perm x l : Permutation (ins x l) (x :: l).
  Proof.
    induction l as [|y r IH]; cbn [ins]; [reflexivity|].
    destruct (key x <=? key y); [reflexivity|].
    rewrite IH. apply perm_swap.
  Qed.

  Lemma isort_perm l : Permutation (isort l) l.
  Proof.
    induction l as [|x r IH]; cbn [isort]; [reflexivity|].
    rewrite ins_perm. now rewrite IH.
  Qed.

  Lemma isort_In l x : In x (isort l) <-> In x l.
  Proof.
    split; apply Permutation_in; [apply isort_perm|symmetry; apply isort_perm].
  Qed.

  Definition kle (a b : A) : Prop := key a <= key b.
  Definition klt (a b : A) : Prop := key a < key b.

  Lemma ins_sorted x l : StronglySorted kle l -> StronglySorted kle (ins x l).
  Proof.
    induction l as [|y r IH]; intros Hs; cbn [ins].
    - constructor; [constructor|constructor].
    - destruct (key x <=? key y) eqn:E.
      + apply Z.leb_le in E. constructor; [exact Hs|].
        inversion Hs as [|? ? Hr Hall]; subst.
        constructor; [exact E|].
        rewrite Forall_forall in *. intros z Hz. unfold kle in *. specialize (Hall z Hz). lia.
      + apply Z.leb_gt in E.
        inversion Hs as [|? ? Hr Hall]; subst.
        constructor; [apply IH; exact Hr|].
        rewrite Forall_forall in *. intros z Hz.
        apply (Permutation_in _ (ins_perm x r)) in Hz. destruct Hz as [Hz|Hz].
        * subst. unfold kle. lia.
        * apply Hall; exact Hz.
  Qed.

  Lemma isort_sorted l : StronglySorted kle (isort l).
  Proof.
    induction l as [|x r IH]; cbn [isort]; [constructor|]. apply ins_sorted; exact IH.
  Qed.

  (* with pairwise different keys the order is strict *)
  Lemma sorted_le_nodup_lt l :
    StronglySorted kle l -> NoDup (map key l) -> StronglySorted klt l.
  Proof.
    induction l as [|x r IH]; intros Hs Hn; [constructor|].
    inversion Hs as [|? ? Hr Hall]; subst. cbn [map] in Hn. inversion Hn as [|? ? Hni Hnr]; subst.
    constructor; [apply IH; assumption|].
    rewrite Forall_forall in *. intros z Hz. specialize (Hall z Hz). unfold kle, klt in *.
    assert (key x <> key z).
    { intros He. apply Hni. rewrite He. apply in_map; exact Hz. }
    lia.
  Qed.

  Lemma isort_strict l : NoDup (map key l) -> StronglySorted klt (isort l).
  Proof.
    intros Hn. apply sorted_le_nodup_lt; [apply isort_sorted|].
    eapply Permutation_NoDup; [|exact Hn].
    apply Permutation_map. symmetry. apply isort_perm.
  Qed.
End Sort.

Definition zsort (l : list Z) : list Z := isort (fun x => x) l.

Lemma zsort_In l x : In x (zsort l) <-> In x l.
Proof. apply isort_In. Qed.

Lemma zsort_sorted l : StronglySorted Z.le (zsort l).
Proof. apply (isort_sorted (fun x : Z => x)). Qed.

Lemma zsort_strict l : NoDup l -> StronglySorted Z.lt (zsort l).
Proof. intros H. apply (isort_strict (fun x : Z => x)). now rewrite map_id. Qed.

Lemma zsort_nil l : zsort l = [] <-> l = [].
Proof.
  split; intros H; [|subst; reflexivity].
  destruct l as [|x r]; [reflexivity|].
  assert (Hin : In x (zsort (x :: r))) by (apply zsort_In; left; reflexivity).
  rewrite H in Hin. destruct Hin.
Qed.

(* the head of an ascending list is its minimum *)
Lemma sorted_head_min x l : StronglySorted Z.le (x :: l) -> forall y, In y (x :: l) -> x <= y.
Proof.
  intros Hs y [Hy|Hy]; [subst; lia|].
  inversion Hs as [|? ? _ Hall]; subst. rewrite Forall_forall in Hall. now apply Hall.
Qed.

(* ------------------------------------------------------------ dictionaries *)
(* pid -> object token; [dset] shadows, [dget] reads the first binding, [ddel]
   removes every binding of the key, [ditems] lists the visible bindings. *)
Definition dict := list (Z * nat).

Fixpoint dget (k : Z) (d : dict) : option nat :=
  match d with
  | [] => None
  | (k', v) :: r => if k' =? k then Some v else dget k r
  end.

Definition dset (k : Z) (v : nat) (d : dict) : dict := (k, v) :: d.
Definition ddel (k : Z) (d : dict) : dict := filter (fun kv => negb (fst kv =? k)) d.
Definition ddel_all (ks : list Z) (d : dict) : dict := filter (fun kv => negb (zmem (fst kv) ks)) d.

Fixpoint ditems (d : dict) : list (Z * nat) :=
  match d with
  | [] => []
  | (k, v) :: r => (k, v) :: ddel k (ditems r)
  end.
Definition dkeys (d : dict) : list Z := map fst (ditems d).

Lemma dget_dset k v d k' : dget k' (dset k v d) = if k =? k' then Some v else dget k' d.
Proof. reflexivity. Qed.

Lemma dget_ddel k d k' : dget k' (ddel k d) = if k =? k' then None else dget k' d.
Proof.
  induction d as [|[a v] r IH]; cbn [ddel filter dget fst].
  - now destruct (k =? k').
  - fold (ddel k r). destruct (a =? k) eqn:E1; cbn [negb].
    + apply Z.eqb_eq in E1. subst a. rewrite IH. destruct (k =? k'); reflexivity.
    + cbn [dget]. rewrite IH. destruct (a =? k') eqn:E2; [|reflexivity].
      apply Z.eqb_eq in E2. subst a. rewrite Z.eqb_sym, E1. reflexivity.
Qed.

Lemma dget_ddel_all ks d k : dget k (ddel_all ks d) = if zmem k ks then None else dget k d.
Proof.
  induction d as [|[a v] r IH]; cbn [ddel_all filter dget fst].
  - now destruct (zmem k ks).
  - fold (ddel_all ks r). destruct (zmem a ks) eqn:E1; cbn [negb].
    + rewrite IH. destruct (a =? k) eqn:E2; [|reflexivity].
      apply Z.eqb_eq in E2. subst a. now rewrite E1.
    + cbn [dget]. rewrite IH. destruct (a =? k) eqn:E2; [|reflexivity].
      apply Z.eqb_eq in E2. subst a. now rewrite E1.
Qed.

Lemma ddel_In k d x : In x (ddel k d) <-> In x d /\ fst x <> k.
Proof.
  unfold ddel. rewrite filter_In. rewrite negb_true_iff, Z.eqb_neq. reflexivity.
Qed.

Lemma ditems_In d k v : In (k, v) (ditems d) <-> dget k d = Some v.
Proof.
  induction d as [|[a w] r IH]; cbn [ditems dget].
  - split; [intros []|discriminate].
  - split.
    + intros [H|H].
      * inversion H; subst. now rewrite Z.eqb_refl.
      * apply ddel_In in H as [H Hne]. cbn [fst] in Hne.
        destruct (a =? k) eqn:E; [apply Z.eqb_eq in E; congruence|]. now apply IH.
    + destruct (a =? k) eqn:E.
      * apply Z.eqb_eq in E. intros H; inversion H; subst. now left.
      * intros H. right. apply ddel_In. split; [now apply IH|].
        cbn [fst]. apply Z.eqb_neq in E. congruence.
Qed.

Lemma ditems_NoDup d : NoDup (map fst (ditems d)).
Proof.
  induction d as [|[a w] r IH]; cbn [ditems map fst]; constructor.
  - rewrite in_map_iff. intros [[k v] [Hk Hin]]. cbn [fst] in Hk. subst k.
    apply ddel_In in Hin as [_ Hne]. now apply Hne.
  - unfold ddel. clear -IH. induction (ditems r) as [|[k v] l IHl]; cbn [filter map]; [constructor|].
    cbn [map fst] in IH. inversion IH as [|? ? Hni Hnd]; subst.
    destruct (negb (fst (k, v) =? a)); [|now apply IHl].
    cbn [map fst]. constructor; [|now apply IHl].
    intros Hin. apply Hni. rewrite in_map_iff in *. destruct Hin as [x [Hx Hf]].
    exists x. split; [exact Hx|]. apply filter_In in Hf. tauto.
Qed.

Lemma dkeys_In d k : In k (dkeys d) <-> exists v, dget k d = Some v.
Proof.
  unfold dkeys. rewrite in_map_iff. split.
  - intros [[k' v] [Hk Hin]]. cbn [fst] in Hk. subst k'. exists v. now apply ditems_In.
  - intros [v Hv]. exists (k, v). split; [reflexivity|now apply ditems_In].
Qed.

Lemma dkeys_not_In d k : ~ In k (dkeys d) <-> dget k d = None.
Proof.
  rewrite dkeys_In. destruct (dget k d) as [v|]; split; intros H; try congruence.
  - exfalso. apply H. now exists v.
  - intros [v Hv]. congruence.
Qed.
