(* C04 -- the theorems about all histories, assembled from ProofsTable (process table,
   pids, pid_exists), ProofsLoop / ProofsIter (generators, cache) and ProofsText. *)
From PV Require Import C04.Spec C04.ProofsTable C04.ProofsLoop C04.ProofsIter.
From PV Require Export C04.ProofsText.

(* ---------------------------------------------------------------- pids / pid_exists over histories *)
Theorem pids_exact_h valid h :
  let s := final valid h in
  tbl s <> [] ->
  exists l, snd (step valid s Pids) = OPids l
            /\ StronglySorted Z.lt l
            /\ (forall n, In n l <-> In n (listing (tbl s)))
            /\ (exists low r, l = low :: r /\ lowest (fst (step valid s Pids)) = Some low
                              /\ forall n, In n (listing (tbl s)) -> low <= n).
Proof. intros s Hne. apply pids_exact; [apply wf_final|exact Hne]. Qed.

Theorem pid_exists_spec_h valid h n :
  let s := final valid h in
  (n = 0 -> tbl s <> []) ->
  snd (step valid s (PidExists n)) = OBool (zmem n (listing (tbl s))).
Proof. intros s Hne. apply pid_exists_spec; [apply wf_final|exact Hne]. Qed.

Theorem pid_exists_false_h valid h n :
  let s := final valid h in
  n <> 0 ->
  (exists k, In k (tbl s) /\ In n (k_tids k)) \/ n < 0 \/ PIDMAX < n ->
  snd (step valid s (PidExists n)) = OBool false.
Proof.
  intros s Hn0 H. unfold s. rewrite pid_exists_spec_h by (intros; contradiction).
  f_equal. pose proof (wf_final valid h) as Hwf.
  destruct H as [Ht|Hr].
  - now apply (tid_not_listed _ _ Hwf).
  - now apply (out_of_range_not_listed _ _ Hwf).
Qed.

(* ---------------------------------------------------------------- what a generator yields *)
Theorem iter_yields valid h g :
  let gh := snd (irun valid h) g in
  StronglySorted Z.gt (map ypid (gh_yields gh)) /\
  forall p o i, In (p, o, i) (gh_yields gh) ->
    In p (gh_list gh) /\
    ((dget p (gh_cache gh) = Some o /\ ~ In p (gh_marked gh))
     \/ (gh_heap0 gh <= o)%nat) /\
    match gh_attrs gh with
    | None => True
    | Some l => attrs_valid valid l = true /\ i = Some (spec_keys valid l)
    end.
Proof.
  intros gh. pose proof (Inv_irun valid h g) as H. apply ginv_yields in H. destruct H as [Hs Hy].
  split; [exact Hs|]. intros p o i Hin. rewrite Forall_forall in Hy. exact (Hy _ Hin).
Qed.

(* ghost bookkeeping only: 'exhausted' is set together with 'done' *)
Definition exh_ok (gh : ghost) : Prop := gh_exhausted gh = true -> gh_done gh = true.

Lemma exh_gupd s e o G : (forall g, exh_ok (G g)) -> forall g, exh_ok (gupd s e o G g).
Proof.
  intros H g. destruct e; cbn [gupd]; try apply H.
  - (* Reap *)
    destruct (alive (tbl s) pid); [|apply H]. unfold gh_vanish.
    destruct (gh_started (G g) && negb (gh_done (G g))); [|apply H].
    unfold exh_ok. cbn [gh_exhausted gh_done]. apply H.
  - (* IterNew *)
    unfold gset. destruct (Nat.eqb g (ngen s)); [|apply H]. unfold exh_ok. cbn. discriminate.
  - (* IterNext *)
    destruct (Nat.leb (ngen s) g0); [apply H|]. destruct (gh_done (G g0)) eqn:Ed; [apply H|].
    unfold gset. destruct (Nat.eqb g g0); [|apply H].
    assert (H1 : exh_ok (if gh_started (G g0) then G g0 else gh_enter s (G g0))).
    { destruct (gh_started (G g0)); [apply H|]. unfold exh_ok. cbn. discriminate. }
    destruct o; try exact H1; unfold exh_ok; cbn [gh_push gh_finish gh_exhausted gh_done]; try reflexivity.
  - (* IterClose *)
    destruct (Nat.leb (ngen s) g0); [apply H|]. destruct (gh_done (G g0)) eqn:Ed; [apply H|].
    unfold gset. destruct (Nat.eqb g g0); [|apply H]. unfold exh_ok. cbn. reflexivity.
Qed.

Lemma exh_fold valid h : forall sg : st * ghosts, (forall g, exh_ok (snd sg g)) ->
  forall g, exh_ok (snd (fold_left (fun sg e => fst (istep valid sg e)) h sg) g).
Proof.
  induction h as [|e h IH]; intros sg H; [exact H|]. cbn [fold_left]. apply IH.
  intros g.
  assert (E : snd (fst (istep valid sg e)) = gupd (fst sg) e (snd (step valid (fst sg) e)) (snd sg)).
  { unfold istep. destruct (step valid (fst sg) e); reflexivity. }
  rewrite E. now apply exh_gupd.
Qed.

Lemma exh_irun valid h g : exh_ok (snd (irun valid h) g).
Proof. apply exh_fold. intros g'. unfold exh_ok. cbn. reflexivity. Qed.

Theorem iter_complete valid h g :
  let gh := snd (irun valid h) g in
  gh_exhausted gh = true ->
  forall p, In p (gh_list gh) ->
    In p (map ypid (gh_yields gh)) \/ In p (gh_vanished gh)
    \/ ((exists o, dget p (gh_cache gh) = Some o) /\ (In p (gh_marked gh) \/ req_ppid valid (gh_attrs gh) = true)).
Proof.
  intros gh Hex p Hp. pose proof (Inv_irun valid h g) as H.
  pose proof (exh_irun valid h g Hex) as Hdone. fold gh in Hdone.
  destruct (gens (fst (irun valid h)) g) as [a|a pm rest|] eqn:Eg; cbn [ginv] in H; fold gh in H.
  - destruct H as [_ [Hdn _]]. congruence.
  - destruct H as [_ [Hdn _]]. congruence.
  - destruct H as [_ [_ Hc]]. exact (Hc Hex p Hp).
Qed.

(* the class excluded: nothing cached was marked as reused, and ppid is not requested *)
Corollary iter_complete_clean valid h g :
  let gh := snd (irun valid h) g in
  gh_exhausted gh = true ->
  (forall p, In p (gh_marked gh) -> dget p (gh_cache gh) = None) -> req_ppid valid (gh_attrs gh) = false ->
  forall p, In p (gh_list gh) -> In p (map ypid (gh_yields gh)) \/ In p (gh_vanished gh).
Proof.
  intros gh Hex Hm Hpp p Hp. destruct (iter_complete valid h g Hex p Hp) as [H|[H|[[o Ho] [H|H]]]].
  - now left.
  - now right.
  - pose proof (Hm p H) as Hn. unfold gh in Hn. congruence.
  - unfold gh in Hpp. congruence.
Qed.

(* the full statement (without the exclusion) is false of the code as written:
   PID 5 is recycled, is_running() on the old object marks it, and the next complete
   iteration yields no Process for the living PID 5 *)
Definition refute_h : list ev :=
  [Spawn 5 100; Spawn 9 100; IterNew None; IterNext 0; IterNext 0; IterNext 0;
   Reap 5; Spawn 5 200; IsRunning 0; IterNew None; IterNext 1; IterNext 1].

Theorem iter_complete_refuted :
  exists valid h g p,
    let sg := irun valid h in
    let gh := snd sg g in
    gh_exhausted gh = true /\ In p (gh_list gh) /\ alive (tbl (fst sg)) p = true
    /\ zmem p (map ypid (gh_yields gh)) = false /\ zmem p (gh_vanished gh) = false.
Proof.
  exists [0; 1; 2], refute_h, 1%nat, 5. vm_compute. repeat split; auto.
Qed.

(* ---------------------------------------------------------------- exceptions *)
Theorem iter_exceptions valid h g x :
  let sg := irun valid h in
  snd (step valid (fst sg) (IterNext g)) = OExc x ->
  (x = ValueError /\ exists l, gh_attrs (snd sg g) = Some l /\ attrs_valid valid l = false)
  \/ (x = IndexError /\ tbl (fst sg) = []).
Proof.
  intros sg Hx. destruct (Nat.leb (ngen (fst sg)) g) eqn:Hg.
  - cbn [step] in Hx. rewrite Hg in Hx. discriminate.
  - pose proof (Inv_irun valid h) as HI. fold sg in HI. destruct sg as [s G].
    exact (proj1 (proj2 (next_inv valid s G g HI Hg)) x Hx).
Qed.

(* ---------------------------------------------------------------- the cache *)
Lemma done_flip s e o G g :
  gh_done (G g) = false -> gh_done (gupd s e o G g) = true ->
  (e = IterNext g \/ e = IterClose g) /\ Nat.leb (ngen s) g = false.
Proof.
  intros Hd Hd'. destruct e; cbn [gupd] in Hd'; try congruence.
  - destruct (alive (tbl s) pid); [|congruence]. unfold gh_vanish in Hd'.
    destruct (gh_started (G g) && negb (gh_done (G g))); cbn [gh_done] in Hd'; congruence.
  - unfold gset in Hd'. destruct (Nat.eqb g (ngen s)); [cbn in Hd'|]; congruence.
  - destruct (Nat.leb (ngen s) g0) eqn:Hl; [congruence|]. destruct (gh_done (G g0)); [congruence|].
    unfold gset in Hd'. destruct (Nat.eqb g g0) eqn:E; [|congruence].
    apply Nat.eqb_eq in E. subst g0. split; [now left|exact Hl].
  - destruct (Nat.leb (ngen s) g0) eqn:Hl; [congruence|]. destruct (gh_done (G g0)); [congruence|].
    unfold gset in Hd'. destruct (Nat.eqb g g0) eqn:E; [|congruence].
    apply Nat.eqb_eq in E. subst g0. split; [now right|exact Hl].
Qed.

Theorem finish_installs valid h e g :
  let sg := irun valid h in
  let r := istep valid sg e in
  let gh' := snd (fst r) g in
  let cache' := pmap (fst (fst r)) in
  gh_done (snd sg g) = false -> gh_done gh' = true -> gh_started gh' = true ->
  snd r <> OOom -> tbl (fst sg) <> [] ->
  (forall p o, dget p cache' = Some o ->
     In p (gh_list gh') /\
     ((dget p (gh_cache gh') = Some o /\ ~ In p (gh_marked gh')) \/ (gh_heap0 gh' <= o)%nat)) /\
  (forall p o i, In (p, o, i) (gh_yields gh') -> dget p cache' = Some o).
Proof.
  intros sg r gh' cache' Hd Hd' Hst' Hoom Hne.
  pose proof (Inv_irun valid h) as HI. fold sg in HI. destruct sg as [s G] eqn:Esg.
  assert (E : fst r = (fst (step valid s e), gupd s e (snd (step valid s e)) G) /\ snd r = snd (step valid s e)).
  { subst r. unfold istep. cbn [fst snd]. destruct (step valid s e); split; reflexivity. }
  destruct E as [E1 E2].
  assert (HF : Jfin valid (frame_of gh') cache' (gh_yields gh')).
  { subst gh' cache'. rewrite E1 in *. cbn [fst snd] in *.
    destruct (done_flip s e _ G g Hd Hd') as [[He|He] Hl]; subst e.
    - rewrite E2 in Hoom. exact (proj1 (proj2 (proj2 (next_inv valid s G g HI Hl))) Hd Hd' Hoom Hne).
    - cbn [gupd] in *. rewrite Hl in *. rewrite Hd in *. rewrite gset_same in *.
      cbn [gh_finish gh_started gh_yields frame_of gh_attrs gh_list gh_cache gh_marked gh_heap0] in *.
      pose proof (HI g) as Hg. cbn [fst snd] in Hg. cbn [step]. rewrite Hl.
      destruct (gens s g) as [a|a pm rest|]; cbn [ginv] in Hg.
      + destruct Hg as [H1 _]. congruence.
      + destruct Hg as [_ [_ [_ HJ]]]. cbn [fst mk pmap]. exact (J_Jfin _ _ _ _ _ _ _ _ HJ).
      + destruct Hg as [H1 _]. congruence. }
  split.
  - intros p o Hg. exact (f_pm _ _ _ _ HF p o Hg).
  - intros p o i Hin. exact (f_ypm _ _ _ _ HF (p, o, i) Hin).
Qed.

Theorem cache_clear_empties valid s : pmap (fst (step valid s CacheClear)) = [].
Proof. reflexivity. Qed.

(* only cache_clear() and a generator that finishes change the cache *)
Theorem pmap_frame valid s e :
  match e with
  | CacheClear | IterNext _ | IterClose _ => True
  | _ => pmap (fst (step valid s e)) = pmap s
  end.
Proof.
  destruct e; cbn [step]; try exact I.
  - destruct (_ && _); reflexivity.
  - reflexivity.
  - reflexivity.
  - destruct (_ && _); reflexivity.
  - reflexivity.
  - destruct (pids_sorted _) as [[l low]| |]; reflexivity.
  - destruct (n <? 0); [reflexivity|]. destruct (n =? 0); [|reflexivity].
    destruct (pids_sorted _) as [[l low]| |]; reflexivity.
  - reflexivity.
  - destruct (Nat.leb _ _); [reflexivity|]. destruct (is_running_obj _ _ _ _) as [[r ob'] ru']. reflexivity.
Qed.

Theorem pmap_yield valid h g p ob i :
  let s := fst (irun valid h) in
  snd (step valid s (IterNext g)) = OYield p ob i -> pmap (fst (step valid s (IterNext g))) = pmap s.
Proof.
  intros s Hy. destruct (Nat.leb (ngen s) g) eqn:Hg.
  - cbn [step] in Hy. rewrite Hg in Hy. discriminate.
  - pose proof (Inv_irun valid h) as HI. unfold s in *. destruct (irun valid h) as [s0 G]. cbn [fst] in *.
    exact (proj2 (proj2 (proj2 (proj2 (next_inv valid s0 G g HI Hg)))) p ob i Hy).
Qed.

(* ---------------------------------------------------------------- corollaries named by the property *)
Corollary reused_refresh valid h g p o i :
  let gh := snd (irun valid h) g in
  In (p, o, i) (gh_yields gh) -> In p (gh_marked gh) -> (gh_heap0 gh <= o)%nat.
Proof.
  intros gh Hin Hm. destruct (proj2 (iter_yields valid h g) p o i Hin) as [_ [[[_ Hn]|Hf] _]].
  - contradiction.
  - exact Hf.
Qed.

Corollary cache_clear_fresh valid h g p o i :
  let gh := snd (irun valid h) g in
  gh_cache gh = [] -> In (p, o, i) (gh_yields gh) -> (gh_heap0 gh <= o)%nat.
Proof.
  intros gh Hc Hin. destruct (proj2 (iter_yields valid h g) p o i Hin) as [_ [[[Hs _]|Hf] _]].
  - fold gh in Hs. rewrite Hc in Hs. discriminate.
  - exact Hf.
Qed.

(* what happens when the loop meets a cache entry (pid, o): without the reused flag the cached
   object itself is yielded (or the PID is dropped on NoSuchProcess, or as_dict ends the generator);
   with the flag the entry is handled exactly like a PID that has no cache entry *)
Theorem visit_cached t valid attrs x pid o rest :
  o_reused (l_hp x o) = false ->
  (exists x' i, gen_loop t valid attrs x ((pid, Some o) :: rest) = LYield x' rest pid o i)
  \/ (exists x', gen_loop t valid attrs x ((pid, Some o) :: rest) = gen_loop t valid attrs x' rest)
  \/ (exists x' e, gen_loop t valid attrs x ((pid, Some o) :: rest) = LExc x' e)
  \/ (exists x', gen_loop t valid attrs x ((pid, Some o) :: rest) = LOom x').
Proof.
  intros H. cbn [gen_loop]. rewrite H. cbv beta iota. destruct attrs as [l|]; [|left; eauto].
  destruct (as_dict t valid (l_ru x) pid (l_hp x o) l) as [[r ob'] ru'].
  destruct r as [keys|e|]; [left; eauto| |right; right; right; eauto].
  destruct e; [right; left; eauto|right; right; left; eauto ..].
Qed.

Theorem visit_flagged t valid attrs x pid o rest :
  o_reused (l_hp x o) = true ->
  gen_loop t valid attrs x ((pid, Some o) :: rest) = gen_loop t valid attrs x ((pid, None) :: rest).
Proof. intros H. cbn [gen_loop]. rewrite H. reflexivity. Qed.

(* is_running(): detects a recycled PID exactly through the start time, and marks it *)
Theorem is_running_spec valid s o :
  (o < nobj s)%nat -> o_gone (heap s o) = false -> o_reused (heap s o) = false ->
  let ob := heap s o in
  let r := step valid s (IsRunning o) in
  match find_proc (tbl s) (o_pid ob) with
  | None => snd r = OBool false /\ reused (fst r) = reused s
  | Some k =>
    if k_start k =? o_start ob
    then snd r = OBool true /\ reused (fst r) = reused s
    else snd r = OBool false /\ In (o_pid ob) (reused (fst r)) /\ o_reused (heap (fst r) o) = true
  end.
Proof.
  intros Ho Hg Hr ob r. subst r ob. cbn [step].
  assert (Hl : Nat.leb (nobj s) o = false) by (apply Nat.leb_gt; exact Ho).
  rewrite Hl. unfold is_running_obj. rewrite Hg, Hr. cbn [orb].
  destruct (find_proc (tbl s) (o_pid (heap s o))) as [k|]; [|split; reflexivity].
  destruct (k_start k =? o_start (heap s o)); [split; reflexivity|].
  cbn [fst snd mk reused heap]. split; [reflexivity|]. split.
  - unfold set_add. destruct (zmem (o_pid (heap s o)) (reused s)) eqn:M; [now apply zmem_In|now left].
  - unfold upd_heap. rewrite Nat.eqb_refl. reflexivity.
Qed.

Example history_ex :
  let sg := irun [0; 1; 2] refute_h in
  gh_exhausted (snd sg 0%nat) = true /\ map ypid (gh_yields (snd sg 0%nat)) = [9; 5]
  /\ tbl (fst sg) <> [] /\ gh_marked (snd sg 1%nat) = [5].
Proof. vm_compute. repeat split; discriminate. Qed.

(* the hypotheses of iter_complete_clean and finish_installs are satisfiable *)
Example clean_ex :
  let gh := snd (irun [0; 1; 2] refute_h) 0%nat in
  gh_exhausted gh = true /\ gh_marked gh = [] /\ req_ppid [0; 1; 2] (gh_attrs gh) = false /\ gh_list gh = [9; 5].
Proof. vm_compute. repeat split. Qed.

Example finish_ex :
  let sg := irun [0; 1; 2] (firstn 5 refute_h) in
  let r := istep [0; 1; 2] sg (IterNext 0) in
  gh_done (snd sg 0%nat) = false /\ gh_done (snd (fst r) 0%nat) = true /\ gh_started (snd (fst r) 0%nat) = true
  /\ snd r = OStop /\ tbl (fst sg) <> [].
Proof. vm_compute. repeat split; discriminate. Qed.
