(* C04 -- the theorems about all histories, assembled from ProofsTable (process table,
   pids, pid_exists), ProofsLoop / ProofsIter (generators, cache) and ProofsText. *)
From PV Require Import C04.Spec C04.ProofsTable C04.ProofsLoop C04.ProofsIter C04.ProofsStale C04.ProofsExact.
From PV Require Export C04.ProofsText.

(* ---------------------------------------------------------------- pids / pid_exists over histories *)
Theorem pids_exact_h valid h :
  let s := final valid h in
  tbl s <> [] ->
  exists l, snd (step valid s Pids) = OPids l
            /\ StronglySorted Z.lt l
            /\ (forall n, In n l <-> In n (listing (tbl s)))
            /\ (exists low r, l = low :: r /\ lowest (fst (step valid s Pids)) = Some low
                              /\ forall n, In n (listing (tbl s)) -> low <= n).
Proof. intros s Hne. apply pids_exact; [apply wf_final|exact Hne]. Qed.

Theorem pid_exists_spec_h valid h n :
  let s := final valid h in
  (n = 0 -> tbl s <> []) ->
  snd (step valid s (PidExists n)) = OBool (zmem n (listing (tbl s))).
Proof. intros s Hne. apply pid_exists_spec; [apply wf_final|exact Hne]. Qed.

Theorem pid_exists_false_h valid h n :
  let s := final valid h in
  n <> 0 ->
  (exists k, In k (tbl s) /\ In n (k_tids k)) \/ n < 0 \/ PIDMAX < n ->
  snd (step valid s (PidExists n)) = OBool false.
Proof.
  intros s Hn0 H. unfold s. rewrite pid_exists_spec_h by (intros; contradiction).
  f_equal. pose proof (wf_final valid h) as Hwf.
  destruct H as [Ht|Hr].
  - now apply (tid_not_listed _ _ Hwf).
  - now apply (out_of_range_not_listed _ _ Hwf).
Qed.

Theorem pid_exists_fault_h valid h n f :
  let s := final valid h in
  (n = 0 -> tbl s <> []) ->
  snd (step valid s (PidExistsF n f)) = OBool (zmem n (listing (tbl s))).
Proof. intros s Hne. apply pid_exists_fault_spec; [apply wf_final|exact Hne]. Qed.

(* ---------------------------------------------------------------- what a generator yields *)
Theorem iter_yields valid h g :
  let gh := snd (irun valid h) g in
  StronglySorted Z.gt (map ypid (gh_yields gh)) /\
  forall p o i, In (p, o, i) (gh_yields gh) ->
    In p (gh_list gh) /\
    ((dget p (gh_cache gh) = Some o /\ ~ In p (gh_marked gh))
     \/ (gh_heap0 gh <= o)%nat) /\
    match gh_attrs gh with
    | None => True
    | Some l => attrs_valid valid l = true /\ i = Some (spec_keys valid l)
    end.
Proof.
  intros gh. pose proof (Inv_irun valid h g) as H. apply ginv_yields in H. destruct H as [Hs Hy].
  split; [exact Hs|]. intros p o i Hin. rewrite Forall_forall in Hy. exact (Hy _ Hin).
Qed.

(* ghost bookkeeping only: 'exhausted' is set together with 'done' *)
Definition exh_ok (gh : ghost) : Prop := gh_exhausted gh = true -> gh_done gh = true.

Lemma exh_gupd s e o G : (forall g, exh_ok (G g)) -> forall g, exh_ok (gupd s e o G g).
Proof.
  intros H g. destruct e; cbn [gupd]; try apply H.
  - (* Reap *)
    destruct (alive (tbl s) pid); [|apply H]. unfold gh_vanish.
    destruct (gh_started (G g) && negb (gh_done (G g))); [|apply H].
    unfold exh_ok. cbn [gh_exhausted gh_done]. apply H.
  - (* IterNew *)
    unfold gset. destruct (Nat.eqb g (ngen s)); [|apply H]. unfold exh_ok. cbn. discriminate.
  - (* IterNext *)
    destruct (Nat.leb (ngen s) g0); [apply H|]. destruct (gh_done (G g0)) eqn:Ed; [apply H|].
    unfold gset. destruct (Nat.eqb g g0); [|apply H].
    assert (H1 : exh_ok (if gh_started (G g0) then G g0 else gh_enter s (G g0))).
    { destruct (gh_started (G g0)); [apply H|]. unfold exh_ok. cbn. discriminate. }
    destruct o; try exact H1; unfold exh_ok; cbn [gh_push gh_finish gh_exhausted gh_done]; try reflexivity.
  - (* IterClose *)
    destruct (Nat.leb (ngen s) g0); [apply H|]. destruct (gh_done (G g0)) eqn:Ed; [apply H|].
    unfold gset. destruct (Nat.eqb g g0); [|apply H]. unfold exh_ok. cbn. reflexivity.
Qed.

Lemma exh_fold valid h : forall sg : st * ghosts, (forall g, exh_ok (snd sg g)) ->
  forall g, exh_ok (snd (fold_left (fun sg e => fst (istep valid sg e)) h sg) g).
Proof.
  induction h as [|e h IH]; intros sg H; [exact H|]. cbn [fold_left]. apply IH.
  intros g.
  assert (E : snd (fst (istep valid sg e)) = gupd (fst sg) e (snd (step valid (fst sg) e)) (snd sg)).
  { unfold istep. destruct (step valid (fst sg) e); reflexivity. }
  rewrite E. now apply exh_gupd.
Qed.

Lemma exh_irun valid h g : exh_ok (snd (irun valid h) g).
Proof. apply exh_fold. intros g'. unfold exh_ok. cbn. reflexivity. Qed.

Theorem iter_complete valid h g :
  let gh := snd (irun valid h) g in
  gh_exhausted gh = true ->
  forall p, In p (gh_list gh) ->
    In p (map ypid (gh_yields gh)) \/ In p (gh_vanished gh)
    \/ ((exists o, dget p (gh_cache gh) = Some o) /\ (In p (gh_marked gh) \/ req_ppid valid (gh_attrs gh) = true)).
Proof.
  intros gh Hex p Hp. pose proof (Inv_irun valid h g) as H.
  pose proof (exh_irun valid h g Hex) as Hdone. fold gh in Hdone.
  destruct (gens (fst (irun valid h)) g) as [a|a pm rest|] eqn:Eg; cbn [ginv] in H; fold gh in H.
  - destruct H as [_ [Hdn _]]. congruence.
  - destruct H as [_ [Hdn _]]. congruence.
  - destruct H as [_ [_ Hc]]. exact (Hc Hex p Hp).
Qed.

(* the class excluded: nothing cached was marked as reused, and ppid is not requested *)
Corollary iter_complete_clean valid h g :
  let gh := snd (irun valid h) g in
  gh_exhausted gh = true ->
  (forall p, In p (gh_marked gh) -> dget p (gh_cache gh) = None) -> req_ppid valid (gh_attrs gh) = false ->
  forall p, In p (gh_list gh) -> In p (map ypid (gh_yields gh)) \/ In p (gh_vanished gh).
Proof.
  intros gh Hex Hm Hpp p Hp. destruct (iter_complete valid h g Hex p Hp) as [H|[H|[[o Ho] [H|H]]]].
  - now left.
  - now right.
  - pose proof (Hm p H) as Hn. unfold gh in Hn. congruence.
  - unfold gh in Hpp. congruence.
Qed.

(* the full statement (without the exclusion) is false of the code as written:
   PID 5 is recycled, is_running() on the old object marks it, and the next complete
   iteration yields no Process for the living PID 5 *)
Definition refute_h : list ev :=
  [Spawn 5 100; Spawn 9 100; IterNew None; IterNext 0; IterNext 0; IterNext 0;
   Reap 5; Spawn 5 200; IsRunning 0; IterNew None; IterNext 1; IterNext 1].

Theorem iter_complete_refuted :
  exists valid h g p,
    let sg := irun valid h in
    let gh := snd sg g in
    gh_exhausted gh = true /\ In p (gh_list gh) /\ alive (tbl (fst sg)) p = true
    /\ zmem p (map ypid (gh_yields gh)) = false /\ zmem p (gh_vanished gh) = false.
Proof.
  exists [0; 1; 2], refute_h, 1%nat, 5. vm_compute. repeat split; auto.
Qed.

(* ---------------------------------------------------------------- exceptions *)
Theorem iter_exceptions valid h g x :
  let sg := irun valid h in
  snd (step valid (fst sg) (IterNext g)) = OExc x ->
  (exists l, gh_attrs (snd sg g) = Some l /\ exc_reason valid l x)
  \/ (x = IndexError /\ tbl (fst sg) = []).
Proof.
  intros sg Hx. destruct (Nat.leb (ngen (fst sg)) g) eqn:Hg.
  - cbn [step] in Hx. rewrite Hg in Hx. discriminate.
  - pose proof (Inv_irun valid h) as HI. fold sg in HI. destruct sg as [s G].
    exact (proj1 (proj2 (next_inv valid s G g HI Hg)) x Hx).
Qed.

(* attrs None or an empty collection (= all attributes): next() never fails, whatever subset of the
   attributes is unimplemented on the running system; and the info dict then has exactly the implemented names *)
Theorem iter_all_attrs_never_raises valid h g x :
  let sg := irun valid h in
  gh_attrs (snd sg g) = None \/ gh_attrs (snd sg g) = Some [] ->
  snd (step valid (fst sg) (IterNext g)) = OExc x -> x = IndexError /\ tbl (fst sg) = [].
Proof.
  intros sg Ha Hx. destruct (iter_exceptions valid h g x Hx) as [[l [Hl Hr]]|H]; [|exact H].
  fold sg in Hl. destruct Ha as [Ha|Ha]; rewrite Ha in Hl; [discriminate|]. injection Hl as <-.
  destruct Hr as [[_ H]|[[_ H]|[_ H]]]; discriminate.
Qed.

Lemma spec_keys_all valid : spec_keys valid [] = zsort (filter (fun a => negb (unimpl a)) valid).
Proof. reflexivity. Qed.

(* a non-empty attrs naming an unimplemented attribute keeps the documented behaviour: the first visited
   process that is in the table makes next() raise NotImplementedError (as_dict level) *)
Theorem as_dict_explicit_unimplemented t valid ru pid ob l k :
  zmem BADTYPE l = false -> attrs_valid valid l = true -> explicit_ni l = true ->
  zmem PPID (nodup Z.eq_dec l) = false -> find_proc t pid = Some k ->
  fst (fst (as_dict t valid ru pid ob l)) = Exc NotImplementedError.
Proof.
  intros Hb Hv Hn Hp Hf. unfold as_dict. rewrite Hb, existsb_invalid, Hv, Hn. cbn [negb].
  assert (Ha : alive t pid = true) by (unfold alive; now rewrite Hf). rewrite Ha. cbn [negb]. rewrite andb_false_r.
  unfold explicit_ni in Hn. destruct (nodup Z.eq_dec l) as [|a r] eqn:E; [discriminate|]. rewrite Hp. reflexivity.
Qed.

(* ---------------------------------------------------------------- the cache *)
Lemma done_flip s e o G g :
  gh_done (G g) = false -> gh_done (gupd s e o G g) = true ->
  (e = IterNext g \/ e = IterClose g) /\ Nat.leb (ngen s) g = false.
Proof.
  intros Hd Hd'. destruct e; cbn [gupd] in Hd'; try congruence.
  - destruct (alive (tbl s) pid); [|congruence]. unfold gh_vanish in Hd'.
    destruct (gh_started (G g) && negb (gh_done (G g))); cbn [gh_done] in Hd'; congruence.
  - unfold gset in Hd'. destruct (Nat.eqb g (ngen s)); [cbn in Hd'|]; congruence.
  - destruct (Nat.leb (ngen s) g0) eqn:Hl; [congruence|]. destruct (gh_done (G g0)); [congruence|].
    unfold gset in Hd'. destruct (Nat.eqb g g0) eqn:E; [|congruence].
    apply Nat.eqb_eq in E. subst g0. split; [now left|exact Hl].
  - destruct (Nat.leb (ngen s) g0) eqn:Hl; [congruence|]. destruct (gh_done (G g0)); [congruence|].
    unfold gset in Hd'. destruct (Nat.eqb g g0) eqn:E; [|congruence].
    apply Nat.eqb_eq in E. subst g0. split; [now right|exact Hl].
Qed.

Theorem finish_installs valid h e g :
  let sg := irun valid h in
  let r := istep valid sg e in
  let gh' := snd (fst r) g in
  let cache' := pmap (fst (fst r)) in
  gh_done (snd sg g) = false -> gh_done gh' = true -> gh_started gh' = true ->
  snd r <> OOom -> (tbl (fst sg) <> [] \/ snd r = OStop) ->
  (forall p o, dget p cache' = Some o ->
     In p (gh_list gh') /\
     ((dget p (gh_cache gh') = Some o /\ ~ In p (gh_marked gh')) \/ (gh_heap0 gh' <= o)%nat)) /\
  (forall p o i, In (p, o, i) (gh_yields gh') -> dget p cache' = Some o) /\
  (forall p, In p (gh_marked gh') -> (exists o, dget p (gh_cache gh') = Some o) -> dget p cache' = None).
Proof.
  intros sg r gh' cache' Hd Hd' Hst' Hoom Hne.
  pose proof (Inv_irun valid h) as HI. fold sg in HI. destruct sg as [s G] eqn:Esg.
  assert (E : fst r = (fst (step valid s e), gupd s e (snd (step valid s e)) G) /\ snd r = snd (step valid s e)).
  { subst r. unfold istep. cbn [fst snd]. destruct (step valid s e); split; reflexivity. }
  destruct E as [E1 E2].
  assert (HF : Jfin valid (frame_of gh') cache' (gh_yields gh')).
  { subst gh' cache'. rewrite E1 in *. cbn [fst snd] in *.
    destruct (done_flip s e _ G g Hd Hd') as [[He|He] Hl]; subst e.
    - rewrite E2 in Hoom, Hne. exact (proj1 (proj2 (proj2 (next_inv valid s G g HI Hl))) Hd Hd' Hoom Hne).
    - cbn [gupd] in *. rewrite Hl in *. rewrite Hd in *. rewrite gset_same in *.
      cbn [gh_finish gh_started gh_yields frame_of gh_attrs gh_list gh_cache gh_marked gh_heap0] in *.
      pose proof (HI g) as Hg. cbn [fst snd] in Hg. cbn [step]. rewrite Hl.
      destruct (gens s g) as [a|a pm rest|]; cbn [ginv] in Hg.
      + destruct Hg as [H1 _]. congruence.
      + destruct Hg as [_ [_ [_ HJ]]]. cbn [fst mk pmap]. exact (J_Jfin _ _ _ _ _ _ _ _ HJ).
      + destruct Hg as [H1 _]. congruence. }
  split; [|split].
  - intros p o Hg. exact (f_pm _ _ _ _ HF p o Hg).
  - intros p o i Hin. exact (f_ypm _ _ _ _ HF (p, o, i) Hin).
  - intros p Hm Hc. exact (proj1 (f_mc _ _ _ _ HF p Hm Hc)).
Qed.

Theorem cache_clear_empties valid s : pmap (fst (step valid s CacheClear)) = [].
Proof. reflexivity. Qed.

(* only cache_clear() and a generator that finishes change the cache *)
Theorem pmap_frame valid s e :
  match e with
  | CacheClear | IterNext _ | IterClose _ => True
  | _ => pmap (fst (step valid s e)) = pmap s
  end.
Proof.
  destruct e; cbn [step]; try exact I.
  - destruct (_ && _); reflexivity.
  - reflexivity.
  - reflexivity.
  - destruct (_ && _); reflexivity.
  - reflexivity.
  - destruct (pids_sorted _) as [[l low]| |]; reflexivity.
  - destruct (n <? 0); [reflexivity|]. destruct (n =? 0); [|reflexivity].
    destruct (pids_sorted _) as [[l low]| |]; reflexivity.
  - reflexivity.
  - destruct (Nat.leb _ _); [reflexivity|]. destruct (is_running_obj _ _ _ _) as [[r ob'] ru']. reflexivity.
  - destruct (n <? 0); [reflexivity|].
    destruct (n =? 0); [destruct (pids_sorted _) as [[l low]| |]; reflexivity|]. destruct (_ && _); reflexivity.
Qed.

Theorem pmap_yield valid h g p ob i :
  let s := fst (irun valid h) in
  snd (step valid s (IterNext g)) = OYield p ob i -> pmap (fst (step valid s (IterNext g))) = pmap s.
Proof.
  intros s Hy. destruct (Nat.leb (ngen s) g) eqn:Hg.
  - cbn [step] in Hy. rewrite Hg in Hy. discriminate.
  - pose proof (Inv_irun valid h) as HI. unfold s in *. destruct (irun valid h) as [s0 G]. cbn [fst] in *.
    exact (proj2 (proj2 (proj2 (proj2 (next_inv valid s0 G g HI Hg)))) p ob i Hy).
Qed.

(* ---------------------------------------------------------------- corollaries named by the property *)
Corollary reused_refresh valid h g p o i :
  let gh := snd (irun valid h) g in
  In (p, o, i) (gh_yields gh) -> In p (gh_marked gh) -> (gh_heap0 gh <= o)%nat.
Proof.
  intros gh Hin Hm. destruct (proj2 (iter_yields valid h g) p o i Hin) as [_ [[[_ Hn]|Hf] _]].
  - contradiction.
  - exact Hf.
Qed.

Corollary cache_clear_fresh valid h g p o i :
  let gh := snd (irun valid h) g in
  gh_cache gh = [] -> In (p, o, i) (gh_yields gh) -> (gh_heap0 gh <= o)%nat.
Proof.
  intros gh Hc Hin. destruct (proj2 (iter_yields valid h g) p o i Hin) as [_ [[[Hs _]|Hf] _]].
  - fold gh in Hs. rewrite Hc in Hs. discriminate.
  - exact Hf.
Qed.

(* what happens when the loop meets a cache entry (pid, o): without the reused flag the cached
   object itself is yielded (or the PID is dropped on NoSuchProcess, or as_dict ends the generator);
   with the flag the entry is handled exactly like a PID that has no cache entry *)
Theorem visit_cached t valid attrs x pid o rest :
  o_reused (l_hp x o) = false ->
  (exists x' i, gen_loop t valid attrs x ((pid, Some o) :: rest) = LYield x' rest pid o i)
  \/ (exists x', gen_loop t valid attrs x ((pid, Some o) :: rest) = gen_loop t valid attrs x' rest)
  \/ (exists x' e, gen_loop t valid attrs x ((pid, Some o) :: rest) = LExc x' e)
  \/ (exists x', gen_loop t valid attrs x ((pid, Some o) :: rest) = LOom x').
Proof.
  intros H. cbn [gen_loop]. rewrite H. cbv beta iota. destruct attrs as [l|]; [|left; eauto].
  destruct (as_dict t valid (l_ru x) pid (l_hp x o) l) as [[r ob'] ru'].
  destruct r as [keys|e|]; [left; eauto| |right; right; right; eauto].
  destruct e; [right; left; eauto|right; right; left; eauto ..].
Qed.

Theorem visit_flagged t valid attrs x pid o rest :
  o_reused (l_hp x o) = true ->
  gen_loop t valid attrs x ((pid, Some o) :: rest) = gen_loop t valid attrs x ((pid, None) :: rest).
Proof. intros H. cbn [gen_loop]. rewrite H. reflexivity. Qed.

(* is_running(): detects a recycled PID exactly through the start time, and marks it *)
Theorem is_running_spec valid s o :
  (o < nobj s)%nat -> o_gone (heap s o) = false -> o_reused (heap s o) = false ->
  let ob := heap s o in
  let r := step valid s (IsRunning o) in
  match find_proc (tbl s) (o_pid ob) with
  | None => snd r = OBool false /\ reused (fst r) = reused s
  | Some k =>
    if k_start k =? o_start ob
    then snd r = OBool true /\ reused (fst r) = reused s
    else snd r = OBool false /\ In (o_pid ob) (reused (fst r)) /\ o_reused (heap (fst r) o) = true
  end.
Proof.
  intros Ho Hg Hr ob r. subst r ob. cbn [step].
  assert (Hl : Nat.leb (nobj s) o = false) by (apply Nat.leb_gt; exact Ho).
  rewrite Hl. unfold is_running_obj. rewrite Hg, Hr. cbn [orb].
  destruct (find_proc (tbl s) (o_pid (heap s o))) as [k|]; [|split; reflexivity].
  destruct (k_start k =? o_start (heap s o)); [split; reflexivity|].
  cbn [fst snd mk reused heap]. split; [reflexivity|]. split.
  - unfold set_add. destruct (zmem (o_pid (heap s o)) (reused s)) eqn:M; [now apply zmem_In|now left].
  - unfold upd_heap. rewrite Nat.eqb_refl. reflexivity.
Qed.

Example history_ex :
  let sg := irun [0; 1; 2] refute_h in
  gh_exhausted (snd sg 0%nat) = true /\ map ypid (gh_yields (snd sg 0%nat)) = [9; 5]
  /\ tbl (fst sg) <> [] /\ gh_marked (snd sg 1%nat) = [5].
Proof. vm_compute. repeat split; discriminate. Qed.

(* the hypotheses of iter_complete_clean and finish_installs are satisfiable *)
Example clean_ex :
  let gh := snd (irun [0; 1; 2] refute_h) 0%nat in
  gh_exhausted gh = true /\ gh_marked gh = [] /\ req_ppid [0; 1; 2] (gh_attrs gh) = false /\ gh_list gh = [9; 5].
Proof. vm_compute. repeat split. Qed.

Example finish_ex :
  let sg := irun [0; 1; 2] (firstn 5 refute_h) in
  let r := istep [0; 1; 2] sg (IterNext 0) in
  gh_done (snd sg 0%nat) = false /\ gh_done (snd (fst r) 0%nat) = true /\ gh_started (snd (fst r) 0%nat) = true
  /\ snd r = OStop /\ tbl (fst sg) <> [].
Proof. vm_compute. repeat split; discriminate. Qed.

(* ================================================================================ *)
(* (2) exactly which object a yield carries *)

(* at the next() that yields: the cached object iff the PID was cached (and then it was not marked) and that
   object does not carry the reused flag; otherwise an object made in this very next() *)
Theorem yield_exact valid h g p o i :
  let s := fst (irun valid h) in
  let G := snd (irun valid h) in
  snd (step valid s (IterNext g)) = OYield p o i ->
  let gh1 := if gh_started (G g) then G g else gh_enter s (G g) in
  match dget p (gh_cache gh1) with
  | Some o' => ~ In p (gh_marked gh1) /\ (if o_reused (heap s o') then (nobj s <= o)%nat else o = o')
  | None => (nobj s <= o)%nat
  end.
Proof.
  intros s G Hy gh1. destruct (reach valid h) as [HI [K _]].
  destruct (irun valid h) as [s0 G0] eqn:E. cbn [fst snd] in *.
  exact (proj2 (proj2 (proj2 (yield_exact_step valid s0 G0 g p o i HI K Hy)))).
Qed.

(* the same, as recorded in the ghost state of every generator in every history *)
Theorem iter_yields_exact valid h g :
  let gh := snd (irun valid h) g in
  StronglySorted Z.gt (map ypid (gh_yields gh)) /\
  (forall p, In p (gh_repl gh) -> In p (map ypid (gh_yields gh))) /\
  forall p o i, In (p, o, i) (gh_yields gh) ->
    In p (gh_list gh) /\
    match dget p (gh_cache gh) with
    | Some o' => ~ In p (gh_marked gh) /\ (if zmem p (gh_repl gh) then (gh_heap0 gh <= o)%nat else o = o')
    | None => (gh_heap0 gh <= o)%nat /\ zmem p (gh_repl gh) = false
    end /\
    match gh_attrs gh with
    | None => True
    | Some l => attrs_valid valid l = true /\ i = Some (spec_keys valid l)
    end.
Proof.
  intros gh. destruct (iter_yields valid h g) as [Hs Hy]. destruct (reach valid h) as [_ [_ HE]].
  destruct (HE g) as [Hsub Hex]. fold gh in Hsub, Hex.
  split; [exact Hs|]. split; [exact Hsub|]. intros p o i Hin.
  destruct (Hy p o i Hin) as [HL [_ Hat]]. split; [exact HL|]. split; [exact (Hex p o i Hin)|exact Hat].
Qed.

(* ================================================================================ *)
(* (3) the PIDs that are passed over *)

(* a PID that was cached and marked as reused when the body was entered is never yielded by that generator *)
Theorem marked_never_yielded valid h g p :
  let gh := snd (irun valid h) g in
  In p (gh_marked gh) -> (exists o, dget p (gh_cache gh) = Some o) -> ~ In p (map ypid (gh_yields gh)).
Proof.
  intros gh Hm [o' Hc] Hin. apply in_map_iff in Hin as [[[q o] i] [Hq Hin]]. cbn in Hq. subst q.
  destruct (proj2 (proj2 (iter_yields_exact valid h g)) p o i Hin) as [_ [Hex _]]. fold gh in Hex.
  rewrite Hc in Hex. destruct Hex as [Hnm _]. contradiction.
Qed.

(* a generator entered while PID p has no cache entry: any object it yields for p is new; and if it runs to
   exhaustion, p (when listed at entry) was yielded or left the table meanwhile *)
Theorem uncached_fresh valid h g p :
  let gh := snd (irun valid h) g in
  dget p (gh_cache gh) = None ->
  (forall o i, In (p, o, i) (gh_yields gh) -> (gh_heap0 gh <= o)%nat) /\
  (gh_exhausted gh = true -> In p (gh_list gh) -> In p (map ypid (gh_yields gh)) \/ In p (gh_vanished gh)).
Proof.
  intros gh Hc. split.
  - intros o i Hin. destruct (proj2 (proj2 (iter_yields_exact valid h g)) p o i Hin) as [_ [Hex _]]. fold gh in Hex.
    rewrite Hc in Hex. exact (proj1 Hex).
  - intros Hexh HL. destruct (iter_complete valid h g Hexh p HL) as [H|[H|[[o Ho] _]]]; [now left|now right|].
    fold gh in Ho. congruence.
Qed.

(* every listed PID of an exhausted generator was yielded or is in the passed-over list; the two are disjoint;
   a PID passed over while it was in the table was cached at entry and either marked as reused or the
   attrs request ppid -- the exact class of the known finding *)
Theorem iter_complete_exact valid h g :
  let gh := snd (irun valid h) g in
  (gh_exhausted gh = true -> forall p, In p (gh_list gh) ->
     In p (map ypid (gh_yields gh)) \/ In p (map fst (gh_passed gh))) /\
  (forall p b, In (p, b) (gh_passed gh) ->
     In p (gh_list gh) /\ ~ In p (map ypid (gh_yields gh)) /\
     (b = true -> (exists o, dget p (gh_cache gh) = Some o) /\
                  (In p (gh_marked gh) \/ req_ppid valid (gh_attrs gh) = true))).
Proof.
  intros gh. destruct (reach3 valid h g) as [[Hpass [[_ Hcov] _]] _]. fold gh in Hpass, Hcov.
  split; [exact Hcov|]. intros p b Hin. destruct (Hpass p b Hin) as [H1 [H2 [_ H4]]]. auto.
Qed.

(* decidable exclusion: nobody was passed over while in the table *)
Corollary iter_complete_decidable valid h g :
  let gh := snd (irun valid h) g in
  gh_exhausted gh = true -> forallb (fun qb => negb (snd qb)) (gh_passed gh) = true ->
  forall p, In p (gh_list gh) ->
    In p (map ypid (gh_yields gh)) \/ In (p, false) (gh_passed gh).
Proof.
  intros gh Hex Hall p HL. destruct (proj1 (iter_complete_exact valid h g) Hex p HL) as [H|H]; [now left|].
  right. apply in_map_iff in H as [[q b] [Hq Hin]]. cbn in Hq. subst q.
  rewrite forallb_forall in Hall. specialize (Hall _ Hin). cbn in Hall. destruct b; [discriminate|exact Hin].
Qed.

(* ... and its exact complement: whoever was passed over while in the table was listed at entry and is never yielded *)
Corollary passed_alive_not_yielded valid h g p :
  let gh := snd (irun valid h) g in
  In (p, true) (gh_passed gh) -> In p (gh_list gh) /\ ~ In p (map ypid (gh_yields gh)).
Proof.
  intros gh Hin. destruct (proj2 (iter_complete_exact valid h g) p true Hin) as [H1 [H2 _]]. now split.
Qed.

(* when does as_dict on a cached object of a PID that IS in the table raise NoSuchProcess (so that the PID
   is dropped): exactly when ppid is requested and the object does not denote the process that has the PID *)
Theorem as_dict_nsp_exact t valid ru pid ob l k :
  zmem BADTYPE l = false -> attrs_valid valid l = true -> explicit_ni l = false -> find_proc t pid = Some k ->
  (fst (fst (as_dict t valid ru pid ob l)) = Exc NoSuchProcess <->
   req_ppid valid (Some l) = true /\ (o_gone ob = true \/ o_reused ob = true \/ k_start k <> o_start ob)).
Proof.
  intros Hb Hv Hn Hf. unfold as_dict, req_ppid. rewrite Hb, existsb_invalid, Hv, Hn. cbn [negb].
  assert (Ha : alive t pid = true) by (unfold alive; now rewrite Hf). rewrite Ha. cbn [negb]. rewrite andb_false_r.
  destruct (zmem PPID _); [|cbn; split; [discriminate|intros [H _]; discriminate]].
  unfold is_running_obj. rewrite Hf.
  destruct (o_gone ob) eqn:Eg; cbn [orb]; [cbn; split; [auto|reflexivity]|].
  destruct (o_reused ob) eqn:Er; [cbn; split; [auto|reflexivity]|].
  destruct (k_start k =? o_start ob) eqn:Es; cbn [fst].
  - apply Z.eqb_eq in Es. split; [discriminate|]. intros [_ [H|[H|H]]]; congruence.
  - apply Z.eqb_neq in Es. split; [auto|reflexivity].
Qed.

(* ================================================================================ *)
(* (1) object identity across successive iterations *)
Definition quietb (valid : list Z) (s : st) (e : ev) : bool :=
  match e with
  | CacheClear => false
  | IterClose g => negb (is_run (gens s g))
  | IterNext g =>
    match gens s g with
    | GDone => true
    | _ => match snd (step valid s e) with OYield _ _ _ => true | _ => false end
    end
  | _ => true
  end.
Fixpoint quiet_run (valid : list Z) (s : st) (h : list ev) : bool :=
  match h with [] => true | e :: r => quietb valid s e && quiet_run valid (fst (step valid s e)) r end.


Lemma quiet_pmap valid s e : quietb valid s e = true -> pmap (fst (step valid s e)) = pmap s.
Proof.
  intros Hq. pose proof (pmap_frame valid s e) as F. destruct e; try exact F; cbn [quietb] in Hq; try discriminate.
  - (* IterNext *)
    cbn [step]. destruct (Nat.leb (ngen s) g); [reflexivity|].
    destruct (gens s g) as [a|a pm rest|] eqn:Eg; [| |reflexivity].
    + cbn [step] in Hq. destruct (Nat.leb (ngen s) g); [discriminate|]. rewrite Eg in Hq.
      destruct (gen_start _ _ _) as [[[pm ls] low]|e|]; [|discriminate|discriminate].
      pose proof (run_loop_facts valid (mk s (tbl s) (pmap s) [] (Some low) (heap s) (nobj s) (gens s) (ngen s)) g a pm ls) as R.
      cbn zeta in R. destruct R as [_ [_ [_ [_ [_ Fm]]]]].
      destruct (gen_loop _ _ _ _ _); destruct Fm as [Fp [_ Fo]]; rewrite Fo in Hq; try discriminate. exact Fp.
    + cbn [step] in Hq. destruct (Nat.leb (ngen s) g); [discriminate|]. rewrite Eg in Hq.
      pose proof (run_loop_facts valid s g a pm rest) as R. cbn zeta in R. destruct R as [_ [_ [_ [_ [_ Fm]]]]].
      destruct (gen_loop _ _ _ _ _); destruct Fm as [Fp [_ Fo]]; rewrite Fo in Hq; try discriminate. exact Fp.
  - (* IterClose *)
    cbn [step]. destruct (Nat.leb (ngen s) g); [reflexivity|]. destruct (gens s g); [reflexivity|discriminate|reflexivity].
Qed.

Lemma quiet_run_pmap valid h : forall s, quiet_run valid s h = true -> pmap (runs valid s h) = pmap s.
Proof.
  induction h as [|e h IH]; intros s Hq; [reflexivity|]. cbn [quiet_run] in Hq. apply andb_true_iff in Hq as [H1 H2].
  cbn [runs fold_left]. fold (runs valid (fst (step valid s e)) h). rewrite (IH _ H2). now apply quiet_pmap.
Qed.

(* the table shows PID p with start ticks st before every event of h (and at the end) *)
Definition steadyb (p st : Z) (s : Model.st) : bool :=
  match find_proc (tbl s) p with Some k => k_start k =? st | None => false end.
Fixpoint steady_run (valid : list Z) (p st : Z) (s : Model.st) (h : list ev) : bool :=
  steadyb p st s && match h with [] => true | e :: r => steady_run valid p st (fst (step valid s e)) r end.

Lemma keep_run valid x0 p0 st0 h : forall s,
  Kpid s -> kept x0 p0 st0 (heap s) (nobj s) -> steady_run valid p0 st0 s h = true ->
  kept x0 p0 st0 (heap (runs valid s h)) (nobj (runs valid s h)).
Proof.
  induction h as [|e h IH]; intros s K Hk Hs; [exact Hk|].
  cbn [steady_run] in Hs. apply andb_true_iff in Hs as [H1 H2]. unfold steadyb in H1.
  destruct (find_proc (tbl s) p0) as [k|] eqn:Ef; [|discriminate]. apply Z.eqb_eq in H1.
  cbn [runs fold_left]. fold (runs valid (fst (step valid s e)) h). apply IH; [apply (Kstep valid s e K)| |exact H2].
  exact (keep_step valid x0 p0 st0 k s e K Ef H1 Hk).
Qed.

Lemma irun_app valid h h' :
  irun valid (h ++ h') = fold_left (fun sg e => fst (istep valid sg e)) h' (irun valid h).
Proof. unfold irun. apply fold_left_app. Qed.

Lemma irun_app_fst valid h h' : fst (irun valid (h ++ h')) = runs valid (fst (irun valid h)) h'.
Proof. rewrite irun_app. apply irun_fst_fold. Qed.

Lemma ngen_mono valid s e : (ngen s <= ngen (fst (step valid s e)))%nat.
Proof.
  destruct e; cbn [step]; try (cbn; lia).
  - destruct (_ && _); cbn; lia.
  - destruct (_ && _); cbn; lia.
  - destruct (pids_sorted _) as [[l low]| |]; cbn; lia.
  - destruct (n <? 0); [cbn; lia|]. destruct (n =? 0); [|cbn; lia]. destruct (pids_sorted _) as [[l low]| |]; cbn; lia.
  - destruct (Nat.leb (ngen s) g); [cbn; lia|]. destruct (gens s g) as [a|a pm rest|]; [| |cbn; lia].
    + destruct (gen_start _ _ _) as [[[pm ls] low]|e|]; [|cbn; lia|cbn; lia].
      pose proof (run_loop_facts valid (mk s (tbl s) (pmap s) [] (Some low) (heap s) (nobj s) (gens s) (ngen s)) g a pm ls) as R.
      cbn zeta in R. destruct R as [_ [_ [_ [_ [Fg _]]]]]. rewrite Fg. cbn. lia.
    + pose proof (run_loop_facts valid s g a pm rest) as R. cbn zeta in R. destruct R as [_ [_ [_ [_ [Fg _]]]]]. rewrite Fg. cbn; lia.
  - destruct (Nat.leb (ngen s) g); [cbn; lia|]. destruct (gens s g); cbn; lia.
  - destruct (Nat.leb (nobj s) o); [cbn; lia|]. destruct (is_running_obj _ _ _ _) as [[r ob'] ru']. cbn. lia.
  - destruct (n <? 0); [cbn; lia|]. destruct (n =? 0); [destruct (pids_sorted _) as [[l low]| |]; cbn; lia|]. destruct (_ && _); cbn; lia.
Qed.

(* once a generator's body was entered, the ghost's record of that moment never changes *)
Lemma started_stable s e o G g :
  (g < ngen s)%nat -> gh_started (G g) = true ->
  gh_started (gupd s e o G g) = true /\ gh_cache (gupd s e o G g) = gh_cache (G g)
  /\ gh_marked (gupd s e o G g) = gh_marked (G g).
Proof.
  intros Hg Hs. destruct e; cbn [gupd]; auto.
  - destruct (alive (tbl s) pid); [|auto]. unfold gh_vanish. destruct (_ && _); auto.
  - unfold gset. destruct (Nat.eqb g (ngen s)) eqn:E; [apply Nat.eqb_eq in E; lia|auto].
  - destruct (Nat.leb (ngen s) g0); [auto|]. destruct (gh_done (G g0)); [auto|].
    unfold gset. destruct (Nat.eqb g g0) eqn:E; [|auto]. apply Nat.eqb_eq in E. subst g0. rewrite Hs.
    destruct o; cbn [gh_after gh_push gh_finish gh_started gh_cache gh_marked]; auto.
  - destruct (Nat.leb (ngen s) g0); [auto|]. destruct (gh_done (G g0)); [auto|].
    unfold gset. destruct (Nat.eqb g g0) eqn:E; [|auto]. apply Nat.eqb_eq in E. subst g0. cbn. auto.
Qed.

Lemma started_fold valid h : forall (sg : Model.st * ghosts) g,
  (g < ngen (fst sg))%nat -> gh_started (snd sg g) = true ->
  let sg' := fold_left (fun sg e => fst (istep valid sg e)) h sg in
  gh_started (snd sg' g) = true /\ gh_cache (snd sg' g) = gh_cache (snd sg g) /\ gh_marked (snd sg' g) = gh_marked (snd sg g).
Proof.
  induction h as [|e h IH]; intros sg g Hg Hs; [cbn; auto|]. cbn [fold_left].
  assert (E : fst (istep valid sg e) = (fst (step valid (fst sg) e), gupd (fst sg) e (snd (step valid (fst sg) e)) (snd sg))).
  { unfold istep. destruct (step valid (fst sg) e); reflexivity. }
  destruct (started_stable (fst sg) e (snd (step valid (fst sg) e)) (snd sg) g Hg Hs) as [A [B C]].
  specialize (IH (fst (istep valid sg e)) g). rewrite E in *. cbn [fst snd] in *.
  destruct (IH ltac:(pose proof (ngen_mono valid (fst sg) e); lia) A) as [A' [B' C']].
  split; [exact A'|]. split; congruence.
Qed.

Definition is_freshb (g : gen) : bool := match g with GFresh _ => true | _ => false end.

(* PID p was yielded as object x by generator g1, which now runs to exhaustion (s1 = the state right after).
   hq: no cache_clear() and no generator finishing; then g2's body is entered (p not marked at that moment);
   h3: anything at all.  If the table shows p with x's start ticks all the way (and x carried no flag at s1),
   then the next() of g2 that yields p yields that very x. *)
Theorem same_object_next_iteration valid h0 g1 p x i1 hq h3 g2 o i :
  let sg0 := irun valid h0 in
  let sg1 := irun valid (h0 ++ [IterNext g1]) in
  let s1 := fst sg1 in
  gh_done (snd sg0 g1) = false -> gh_exhausted (snd sg1 g1) = true -> gh_started (snd sg1 g1) = true ->
  In (p, x, i1) (gh_yields (snd sg1 g1)) ->
  o_reused (heap s1 x) = false ->
  quiet_run valid s1 hq = true ->
  let s2 := runs valid s1 hq in
  is_freshb (gens s2 g2) = true -> ~ In p (reused s2) ->
  (h3 = [] \/ exists h3', h3 = IterNext g2 :: h3') ->
  steady_run valid p (o_start (heap s1 x)) s1 (hq ++ h3) = true ->
  snd (step valid (runs valid s1 (hq ++ h3)) (IterNext g2)) = OYield p o i ->
  o = x.
Proof.
  intros sg0 sg1 s1 Hd Hex Hst Hyx Hflag Hq s2 Hfresh Hnm Hh3 Hsteady Hy.
  (* A: the exhaustion installed p -> x *)
  assert (Hsg1 : sg1 = fst (istep valid sg0 (IterNext g1))).
  { unfold sg1, sg0. rewrite irun_app. reflexivity. }
  assert (Hout : snd (istep valid sg0 (IterNext g1)) = OStop).
  { pose proof (exh_irun valid (h0 ++ [IterNext g1]) g1) as _.
    unfold sg1 in Hex. rewrite irun_app in Hex. cbn [fold_left] in Hex. fold sg0 in Hex.
    unfold istep in *. destruct (step valid (fst sg0) (IterNext g1)) as [s' o'] eqn:Es. cbn [fst snd] in *.
    cbn [gupd] in Hex. destruct (Nat.leb (ngen (fst sg0)) g1); [unfold sg0 in Hd; pose proof (exh_irun valid h0 g1 Hex); congruence|].
    rewrite Hd in Hex. rewrite gset_same in Hex.
    destruct o'; cbn [gh_after gh_push gh_finish gh_exhausted] in Hex; try discriminate; try reflexivity.
    - destruct (gh_started (snd sg0 g1)); [pose proof (exh_irun valid h0 g1 Hex); unfold sg0 in Hd; congruence|discriminate].
    - destruct (gh_started (snd sg0 g1)); [pose proof (exh_irun valid h0 g1 Hex); unfold sg0 in Hd; congruence|discriminate].
    - destruct (gh_started (snd sg0 g1)); [pose proof (exh_irun valid h0 g1 Hex); unfold sg0 in Hd; congruence|discriminate].
    - destruct (gh_started (snd sg0 g1)); [pose proof (exh_irun valid h0 g1 Hex); unfold sg0 in Hd; congruence|discriminate].
    - destruct (gh_started (snd sg0 g1)); [pose proof (exh_irun valid h0 g1 Hex); unfold sg0 in Hd; congruence|discriminate]. }
  assert (Hcache1 : dget p (pmap s1) = Some x).
  { pose proof (finish_installs valid h0 (IterNext g1) g1) as F. cbn zeta in F. fold sg0 in F. rewrite <- Hsg1 in F.
    assert (Hd1 : gh_done (snd sg1 g1) = true) by exact (exh_irun valid (h0 ++ [IterNext g1]) g1 Hex).
    destruct (F Hd Hd1 Hst ltac:(rewrite Hout; discriminate) (or_intror Hout)) as [_ [F2 _]].
    exact (F2 p x i1 Hyx). }
  (* B: the quiet stretch keeps the cache *)
  assert (Hcache2 : dget p (pmap s2) = Some x) by (unfold s2; rewrite (quiet_run_pmap valid hq s1 Hq); exact Hcache1).
  (* C: x is a well-formed token for p, and stays clean *)
  destruct (reach valid (h0 ++ [IterNext g1])) as [_ [K1 _]]. fold sg1 in K1. fold s1 in K1.
  destruct (proj1 K1 p x Hcache1) as [Hxn Hxp].
  assert (Hk1 : kept x p (o_start (heap s1 x)) (heap s1) (nobj s1)) by (repeat split; auto).
  pose proof (keep_run valid x p _ (hq ++ h3) s1 K1 Hk1 Hsteady) as [_ [_ [_ Hclean]]].
  (* D: the ghost of g2 at the final next() *)
  set (hall := (h0 ++ [IterNext g1]) ++ hq ++ h3).
  destruct (reach valid hall) as [HIf [Kf _]].
  assert (Efst : fst (irun valid hall) = runs valid s1 (hq ++ h3)) by (unfold hall; now rewrite irun_app_fst).
  destruct (irun valid hall) as [sf Gf] eqn:Eall. cbn [fst snd] in *. subst sf.
  destruct (yield_exact_step valid _ Gf g2 p o i HIf Kf Hy) as [_ [_ [_ Hex2]]].
  (* the ghost of g2 when the body was entered *)
  set (mid := (h0 ++ [IterNext g1]) ++ hq).
  destruct (reach valid mid) as [HI2 [K2 _]].
  assert (Efst2 : fst (irun valid mid) = s2) by (unfold mid, s2; now rewrite irun_app_fst).
  destruct (irun valid mid) as [s2' G2] eqn:Emid. cbn [fst snd] in *. subst s2'.
  pose proof (HI2 g2) as Hg2. cbn [fst snd] in Hg2.
  destruct (gens s2 g2) as [a2| |] eqn:Eg2; try discriminate. cbn [ginv] in Hg2. destruct Hg2 as [Hns [Hnd _]].
  assert (Hlt2 : (g2 < ngen s2)%nat).
  { destruct (Nat.lt_ge_cases g2 (ngen s2)) as [H|H]; [exact H|]. rewrite (proj2 (proj2 K2) g2 H) in Eg2. discriminate. }
  assert (Hgh : gh_cache (if gh_started (Gf g2) then Gf g2 else gh_enter (runs valid s1 (hq ++ h3)) (Gf g2)) = pmap s2 /\
                gh_marked (if gh_started (Gf g2) then Gf g2 else gh_enter (runs valid s1 (hq ++ h3)) (Gf g2)) = reused s2).
  { destruct Hh3 as [->|[h3' ->]].
    - (* the final next() is the one that enters the body *)
      rewrite app_nil_r in *. unfold hall in Eall. rewrite app_nil_r in Eall. fold mid in Eall. rewrite Emid in Eall.
      apply (f_equal snd) in Eall. cbn [snd] in Eall. subst Gf. rewrite Hns. fold s2. cbn [gh_enter gh_cache gh_marked]. now split.
    - (* the body was entered at the first event of h3 *)
      assert (Eall2 : (s1, Gf) = (s1, Gf)) by reflexivity.
      unfold hall in Eall. rewrite app_assoc in Eall. fold mid in Eall. rewrite irun_app in Eall. rewrite Emid in Eall.
      cbn [fold_left] in Eall.
      set (sgE := fst (istep valid (s2, G2) (IterNext g2))) in Eall.
      assert (HE : gh_started (snd sgE g2) = true /\ gh_cache (snd sgE g2) = pmap s2 /\ gh_marked (snd sgE g2) = reused s2
                   /\ (g2 < ngen (fst sgE))%nat).
      { unfold sgE, istep. cbn [fst snd]. destruct (step valid s2 (IterNext g2)) as [s' o'] eqn:Es. cbn [fst snd gupd].
        assert (Hl : Nat.leb (ngen s2) g2 = false) by (apply Nat.leb_gt; exact Hlt2). rewrite Hl, Hnd, Hns, gset_same.
        assert (Hn' : (g2 < ngen s')%nat).
        { pose proof (ngen_mono valid s2 (IterNext g2)) as M. rewrite Es in M. cbn [fst] in M. lia. }
        destruct o'; cbn [gh_after gh_push gh_finish gh_enter gh_started gh_cache gh_marked]; auto. }
      destruct HE as [E1 [E2 [E3 E4]]].
      pose proof (started_fold valid h3' sgE g2 E4 E1) as SF. cbn zeta in SF. rewrite Eall in SF. cbn [snd] in SF.
      destruct SF as [S1 [S2 S3]]. rewrite S1. split; congruence. }
  destruct Hgh as [Hc Hm]. rewrite Hc in Hex2. rewrite Hm in Hex2. rewrite Hcache2 in Hex2.
  destruct Hex2 as [_ Hfin]. rewrite Hclean in Hfin. exact Hfin.
Qed.

(* an entry whose PID had left the listing when a generator was entered is absent from the cache once that
   generator has finished *)
Corollary cache_eviction valid h e g p :
  let sg := irun valid h in
  let r := istep valid sg e in
  let gh' := snd (fst r) g in
  gh_done (snd sg g) = false -> gh_done gh' = true -> gh_started gh' = true ->
  snd r <> OOom -> (tbl (fst sg) <> [] \/ snd r = OStop) ->
  ~ In p (gh_list gh') -> dget p (pmap (fst (fst r))) = None.
Proof.
  intros sg r gh' H1 H2 H3 H4 H5 Hn.
  destruct (finish_installs valid h e g H1 H2 H3 H4 H5) as [F1 _].
  destruct (dget p (pmap (fst (fst r)))) as [o|] eqn:E; [|reflexivity].
  exfalso. apply Hn. exact (proj1 (F1 p o E)).
Qed.

(* the hypotheses of same_object_next_iteration are satisfiable, with the body of g2 entered by the final
   next() (h3 = []) and earlier (h3 = [IterNext 1]) *)
Definition e2e_h0 : list ev := [Spawn 5 100; Spawn 9 100; IterNew None; IterNext 0; IterNext 0].
Definition e2e_hq : list ev := [Spawn 7 100; IterNew None; Pids].

Example same_object_ex :
  let valid := [0; 1; 2] in
  let sg0 := irun valid e2e_h0 in
  let sg1 := irun valid (e2e_h0 ++ [IterNext 0]) in
  let s1 := fst sg1 in
  let s2 := runs valid s1 e2e_hq in
  gh_done (snd sg0 0%nat) = false /\ gh_exhausted (snd sg1 0%nat) = true /\ gh_started (snd sg1 0%nat) = true /\
  In (9, 1%nat, None) (gh_yields (snd sg1 0%nat)) /\ o_reused (heap s1 1%nat) = false /\
  quiet_run valid s1 e2e_hq = true /\ is_freshb (gens s2 1%nat) = true /\ zmem 9 (reused s2) = false /\
  steady_run valid 9 (o_start (heap s1 1%nat)) s1 (e2e_hq ++ [IterNext 1; IterNext 1]) = true /\
  snd (step valid (runs valid s1 (e2e_hq ++ [IterNext 1; IterNext 1])) (IterNext 1)) = OYield 9 1%nat None.
Proof. vm_compute. repeat split; auto. Qed.

(* without "no generator finishes in between" identity across iterations fails: two overlapping first
   iterations each make their own object for PID 5; the one finishing last wins the cache *)
Definition overlap_h0 : list ev :=
  [Spawn 5 100; IterNew None; IterNew None; IterNext 0; IterNext 1].
Definition overlap_hq : list ev := [IterNext 0; IterNew None].

Theorem identity_overlap_refuted :
  exists valid h0 g1 p x i1 hq g2 o i,
    let sg0 := irun valid h0 in
    let sg1 := irun valid (h0 ++ [IterNext g1]) in
    let s1 := fst sg1 in
    let s2 := runs valid s1 hq in
    gh_done (snd sg0 g1) = false /\ gh_exhausted (snd sg1 g1) = true /\
    In (p, x, i1) (gh_yields (snd sg1 g1)) /\ o_reused (heap s1 x) = false /\
    is_freshb (gens s2 g2) = true /\ zmem p (reused s2) = false /\
    steady_run valid p (o_start (heap s1 x)) s1 hq = true /\
    forallb (fun e => match e with CacheClear => false | _ => true end) hq = true /\
    quiet_run valid s1 hq = false /\
    snd (step valid s2 (IterNext g2)) = OYield p o i /\ Nat.eqb o x = false.
Proof.
  exists [0; 1; 2], overlap_h0, 1%nat, 5, 1%nat, None, overlap_hq, 2%nat, 0%nat, None.
  vm_compute. repeat split; auto.
Qed.

(* ================================================================================ *)
(* Modelled granularity of the commit: 'finally: _pmap = pmap' is ONE step.  In every state, an event changes
   the committed cache only if it is cache_clear(), or if it finishes a generator (which then is done) -- there
   is no machine state in which the cache is half replaced. *)
Theorem cache_change_is_commit valid s e :
  pmap (fst (step valid s e)) <> pmap s ->
  e = CacheClear \/
  exists g, (e = IterNext g \/ e = IterClose g) /\ gens (fst (step valid s e)) g = GDone /\ gens s g <> GDone.
Proof.
  intros Hne. pose proof (pmap_frame valid s e) as F.
  destruct e; try (exfalso; apply Hne; exact F); [| |now left].
  - (* IterNext *)
    right. exists g. split; [now left|]. cbn [step] in *.
    destruct (Nat.leb (ngen s) g); [exfalso; now apply Hne|].
    destruct (gens s g) as [a|a pm rest|] eqn:Eg; [| |exfalso; now apply Hne].
    + destruct (gen_start _ _ _) as [[[pm ls] low]|e|].
      * pose proof (run_loop_facts valid (mk s (tbl s) (pmap s) [] (Some low) (heap s) (nobj s) (gens s) (ngen s)) g a pm ls) as R.
        cbn zeta in R. destruct R as [_ [_ [_ [_ [_ Fm]]]]].
        destruct (gen_loop _ _ _ _ _); destruct Fm as [Fp [Fgs _]].
        -- exfalso. apply Hne. exact Fp.
        -- split; [rewrite Fgs; apply set_gen_same|discriminate].
        -- split; [rewrite Fgs; apply set_gen_same|discriminate].
        -- split; [rewrite Fgs; apply set_gen_same|discriminate].
      * exfalso. now apply Hne.
      * exfalso. now apply Hne.
    + pose proof (run_loop_facts valid s g a pm rest) as R. cbn zeta in R. destruct R as [_ [_ [_ [_ [_ Fm]]]]].
      destruct (gen_loop _ _ _ _ _); destruct Fm as [Fp [Fgs _]].
      * exfalso. apply Hne. exact Fp.
      * split; [rewrite Fgs; apply set_gen_same|discriminate].
      * split; [rewrite Fgs; apply set_gen_same|discriminate].
      * split; [rewrite Fgs; apply set_gen_same|discriminate].
  - (* IterClose *)
    right. exists g. split; [now right|]. cbn [step] in *.
    destruct (Nat.leb (ngen s) g); [exfalso; now apply Hne|].
    destruct (gens s g) as [a|a pm rest|] eqn:Eg.
    + exfalso. now apply Hne.
    + split; [cbn; apply set_gen_same|discriminate].
    + exfalso. now apply Hne.
Qed.
