(* C04 -- proofs about the machine (placeholder being extended) *)
From PV Require Import C04.Spec.

Lemma cache_clear_empties valid s : pmap (fst (step valid s CacheClear)) = [].
Proof. reflexivity. Qed.
