(* C04 -- the body of process_iter(): what one resumption of a generator preserves. *)
From PV Require Import C04.Spec C04.ProofsTable.

(* the part of a generator's ghost that never changes once its body was entered *)
Record frame := { f_attrs : attrs_t; f_list : list Z; f_cache : dict; f_marked : list Z; f_heap0 : nat }.
Definition frame_of (gh : ghost) : frame :=
  {| f_attrs := gh_attrs gh; f_list := gh_list gh; f_cache := gh_cache gh; f_marked := gh_marked gh;
     f_heap0 := gh_heap0 gh |}.

(* the input class of the known finding, per PID: a cache entry existed when the body was
   entered and either the PID was marked as reused or the attrs make as_dict call ppid() *)
Definition stale_risk (valid : list Z) (fr : frame) (p : Z) : Prop :=
  (exists o, dget p (f_cache fr) = Some o) /\ (In p (f_marked fr) \/ req_ppid valid (f_attrs fr) = true).

Definition yield_ok (valid : list Z) (fr : frame) (y : ytriple) : Prop :=
  In (ypid y) (f_list fr) /\
  ((dget (ypid y) (f_cache fr) = Some (snd (fst y)) /\ ~ In (ypid y) (f_marked fr))
   \/ (f_heap0 fr <= snd (fst y))%nat) /\
  match f_attrs fr with
  | None => True
  | Some l => attrs_valid valid l = true /\ snd y = Some (spec_keys valid l)
  end.

Notation key2 := (@fst Z (option nat)).

Record J (valid : list Z) (t : list kproc) (fr : frame) (V : list Z) (pm : dict)
         (rest : list (Z * option nat)) (Y : list ytriple) (n : nat) : Prop := {
  j_sorted : StronglySorted (klt key2) rest;
  j_rest : forall q po, In (q, po) rest ->
             In q (f_list fr) /\
             match po with
             | Some o => dget q (f_cache fr) = Some o /\ ~ In q (f_marked fr) /\ dget q pm = Some o
             | None => dget q (f_cache fr) = None
             end;
  j_ylt : forall y q po, In y Y -> In (q, po) rest -> ypid y < q;
  j_pm : forall p o, dget p pm = Some o ->
             In p (f_list fr) /\
             ((dget p (f_cache fr) = Some o /\ ~ In p (f_marked fr)) \/ (f_heap0 fr <= o)%nat);
  j_ypm : forall y, In y Y -> dget (ypid y) pm = Some (snd (fst y));
  j_comp : forall p, In p (f_list fr) ->
             In p (map ypid Y) \/ (exists po, In (p, po) rest) \/ In p V \/ stale_risk valid fr p;
  j_tbl : forall p, In p (f_list fr) -> alive t p = true \/ In p V;
  j_h0 : (f_heap0 fr <= n)%nat;
  j_ysorted : StronglySorted Z.gt (map ypid Y);
  j_yok : Forall (yield_ok valid fr) Y;
  (* a cached PID that was marked as reused at entry is in no list and has no entry in the private copy *)
  j_mc : forall p, In p (f_marked fr) -> (exists o, dget p (f_cache fr) = Some o) ->
           dget p pm = None /\ (forall po, ~ In (p, po) rest) /\ ~ In p (map ypid Y) }.

(* what survives when the generator is finished by an exception or a close() *)
Record Jfin (valid : list Z) (fr : frame) (pm : dict) (Y : list ytriple) : Prop := {
  f_pm : forall p o, dget p pm = Some o ->
             In p (f_list fr) /\
             ((dget p (f_cache fr) = Some o /\ ~ In p (f_marked fr)) \/ (f_heap0 fr <= o)%nat);
  f_ypm : forall y, In y Y -> dget (ypid y) pm = Some (snd (fst y));
  f_ysorted : StronglySorted Z.gt (map ypid Y);
  f_yok : Forall (yield_ok valid fr) Y;
  f_mc : forall p, In p (f_marked fr) -> (exists o, dget p (f_cache fr) = Some o) ->
           dget p pm = None /\ ~ In p (map ypid Y) }.

Lemma J_Jfin valid t fr V pm rest Y n : J valid t fr V pm rest Y n -> Jfin valid fr pm Y.
Proof.
  intros H. constructor; [apply (j_pm _ _ _ _ _ _ _ _ H)|apply (j_ypm _ _ _ _ _ _ _ _ H)|apply (j_ysorted _ _ _ _ _ _ _ _ H)|apply (j_yok _ _ _ _ _ _ _ _ H)|].
  intros p Hm Hc. destruct (j_mc _ _ _ _ _ _ _ _ H p Hm Hc) as [H1 [_ H3]]. now split.
Qed.

(* ---------------------------------------------------------------- as_dict *)
Lemma existsb_invalid valid l :
  existsb (fun a => negb (zmem a valid)) (nodup Z.eq_dec l) = negb (attrs_valid valid l).
Proof.
  unfold attrs_valid.
  destruct (forallb (fun a => zmem a valid) l) eqn:F; cbn [negb].
  - destruct (existsb _ _) eqn:E; [|reflexivity].
    apply existsb_exists in E as [a [Ha Hn]]. apply nodup_In in Ha.
    rewrite forallb_forall in F. rewrite (F a Ha) in Hn. discriminate.
  - destruct (existsb _ _) eqn:E; [reflexivity|].
    assert (forallb (fun a => zmem a valid) l = true); [|congruence].
    apply forallb_forall. intros a Ha.
    destruct (zmem a valid) eqn:M; [reflexivity|].
    assert (existsb (fun a => negb (zmem a valid)) (nodup Z.eq_dec l) = true); [|congruence].
    apply existsb_exists. exists a. split; [now apply nodup_In|]. now rewrite M.
Qed.

Lemma as_dict_val t valid ru pid ob l k ob' ru' :
  as_dict t valid ru pid ob l = (Val k, ob', ru') ->
  attrs_valid valid l = true /\ k = spec_keys valid l.
Proof.
  unfold as_dict. destruct (zmem BADTYPE l); [discriminate|]. rewrite existsb_invalid.
  destruct (attrs_valid valid l); cbn [negb]; [|discriminate].
  intros H. split; [reflexivity|]. unfold spec_keys.
  destruct (zmem PPID _).
  - destruct (explicit_ni l); [discriminate|].
    destruct (o_gone ob || o_reused ob); [discriminate|].
    destruct (_ && negb (alive t pid)); [discriminate|].
    destruct (is_running_obj t ru pid ob) as [[r ob1] ru1]. destruct r; inversion H; reflexivity.
  - destruct (_ && negb (alive t pid)); [discriminate|]. destruct (explicit_ni l); inversion H; reflexivity.
Qed.

Lemma as_dict_exc t valid ru pid ob l e ob' ru' :
  as_dict t valid ru pid ob l = (Exc e, ob', ru') ->
  e = NoSuchProcess \/ exc_reason valid l e.
Proof.
  unfold as_dict, exc_reason. destruct (zmem BADTYPE l) eqn:Eb.
  { intros H. inversion H. right. left. now split. }
  rewrite existsb_invalid.
  destruct (attrs_valid valid l); cbn [negb].
  - intros H. destruct (zmem PPID _).
    + destruct (explicit_ni l); [discriminate|].
      destruct (o_gone ob || o_reused ob); [inversion H; now left|].
      destruct (_ && negb (alive t pid)); [discriminate|].
      destruct (is_running_obj t ru pid ob) as [[r ob1] ru1]. destruct r; inversion H; now left.
    + destruct (_ && negb (alive t pid)); [inversion H; now left|].
      destruct (explicit_ni l) eqn:En; inversion H. right. right. right. now split.
  - intros H. inversion H. right. right. left. now split.
Qed.

Lemma as_dict_nsp t valid ru pid ob l ob' ru' :
  as_dict t valid ru pid ob l = (Exc NoSuchProcess, ob', ru') ->
  alive t pid = false \/ req_ppid valid (Some l) = true.
Proof.
  unfold as_dict, req_ppid. destruct (zmem BADTYPE l); [discriminate|]. rewrite existsb_invalid.
  destruct (attrs_valid valid l); cbn [negb]; [|discriminate].
  destruct (zmem PPID _); [intros _; now right|].
  destruct (alive t pid); [|intros _; now left].
  rewrite andb_false_r. destruct (explicit_ni l); discriminate.
Qed.

Lemma as_dict_fresh t valid ru pid k l ob' ru' :
  find_proc t pid = Some k ->
  as_dict t valid ru pid (new_obj pid (k_start k)) l <> (Exc NoSuchProcess, ob', ru').
Proof.
  intros Hf. unfold as_dict. destruct (zmem BADTYPE l); [discriminate|]. rewrite existsb_invalid.
  destruct (attrs_valid valid l); cbn [negb]; [|discriminate].
  assert (Ha : alive t pid = true) by (unfold alive; now rewrite Hf).
  rewrite Ha. cbn [negb]. rewrite andb_false_r.
  destruct (zmem PPID _); [|destruct (explicit_ni l); discriminate].
  destruct (explicit_ni l); [discriminate|].
  cbn [new_obj o_gone o_reused orb]. unfold is_running_obj. cbn [new_obj o_gone o_reused orb o_start].
  rewrite Hf. rewrite Z.eqb_refl. discriminate.
Qed.

(* ---------------------------------------------------------------- sortedness helpers *)
Lemma sorted_tail_lt q po rest :
  StronglySorted (klt key2) ((q, po) :: rest) ->
  StronglySorted (klt key2) rest /\ forall q' po', In (q', po') rest -> q < q'.
Proof.
  intros H. inversion H as [|? ? Hs Hall]; subst. split; [exact Hs|].
  intros q' po' Hin. rewrite Forall_forall in Hall. exact (Hall _ Hin).
Qed.

(* ---------------------------------------------------------------- the three moves of the loop *)
Section Moves.
  Variables (valid : list Z) (t : list kproc) (fr : frame) (V : list Z).

  (* the head PID is dropped: except NoSuchProcess: remove(pid) *)
  Lemma J_skip pm pid po rest Y n :
    J valid t fr V pm ((pid, po) :: rest) Y n ->
    In pid V \/ stale_risk valid fr pid ->
    J valid t fr V (ddel pid pm) rest Y n.
  Proof.
    intros H Hj. destruct (sorted_tail_lt _ _ _ (j_sorted _ _ _ _ _ _ _ _ H)) as [Hs Hlt].
    constructor.
    - exact Hs.
    - intros q po' Hin. destruct (j_rest _ _ _ _ _ _ _ _ H q po' (or_intror Hin)) as [HL Hpo].
      split; [exact HL|]. destruct po' as [o|]; [|exact Hpo].
      destruct Hpo as [Hc [Hm Hp]]. repeat split; try assumption.
      rewrite dget_ddel. specialize (Hlt q (Some o) Hin).
      destruct (pid =? q) eqn:E; [apply Z.eqb_eq in E; lia|exact Hp].
    - intros y q po' Hy Hin. apply (j_ylt _ _ _ _ _ _ _ _ H y q po' Hy). now right.
    - intros p o Hg. rewrite dget_ddel in Hg. destruct (pid =? p); [discriminate|].
      now apply (j_pm _ _ _ _ _ _ _ _ H).
    - intros y Hy. rewrite dget_ddel.
      pose proof (j_ylt _ _ _ _ _ _ _ _ H y pid po Hy (or_introl eq_refl)) as Hlt'.
      destruct (pid =? ypid y) eqn:E; [apply Z.eqb_eq in E; lia|].
      now apply (j_ypm _ _ _ _ _ _ _ _ H).
    - intros p Hp. destruct (j_comp _ _ _ _ _ _ _ _ H p Hp) as [Hy|[[po' Hr]|[Hv|Hst]]].
      + now left.
      + destruct Hr as [Hr|Hr].
        * inversion Hr; subst. destruct Hj as [Hv|Hst]; [right; right; now left|right; right; now right].
        * right; left. now exists po'.
      + right; right; now left.
      + right; right; now right.
    - apply (j_tbl _ _ _ _ _ _ _ _ H).
    - apply (j_h0 _ _ _ _ _ _ _ _ H).
    - apply (j_ysorted _ _ _ _ _ _ _ _ H).
    - apply (j_yok _ _ _ _ _ _ _ _ H).
    - intros p Hm Hc. destruct (j_mc _ _ _ _ _ _ _ _ H p Hm Hc) as [H1 [H2 H3]].
      split; [rewrite dget_ddel; destruct (pid =? p); [reflexivity|exact H1]|].
      split; [intros po' Hin; apply (H2 po'); now right|exact H3].
  Qed.

  Lemma ysorted_push Y pid o i rest po pm n :
    J valid t fr V pm ((pid, po) :: rest) Y n ->
    StronglySorted Z.gt (map ypid ((pid, o, i) :: Y)).
  Proof.
    intros H. cbn [map]. constructor; [apply (j_ysorted _ _ _ _ _ _ _ _ H)|].
    apply Forall_forall. intros p Hp. apply in_map_iff in Hp as [y [Hy Hin]]. subst p.
    pose proof (j_ylt _ _ _ _ _ _ _ _ H y pid po Hin (or_introl eq_refl)). cbn [ypid fst]. lia.
  Qed.

  (* a cached object is yielded *)
  Lemma J_yield_cached pm pid o rest Y n i :
    J valid t fr V pm ((pid, Some o) :: rest) Y n ->
    match f_attrs fr with None => True | Some l => attrs_valid valid l = true /\ i = Some (spec_keys valid l) end ->
    J valid t fr V pm rest ((pid, o, i) :: Y) n.
  Proof.
    intros H Hi. destruct (sorted_tail_lt _ _ _ (j_sorted _ _ _ _ _ _ _ _ H)) as [Hs Hlt].
    destruct (j_rest _ _ _ _ _ _ _ _ H pid (Some o) (or_introl eq_refl)) as [HL [Hc [Hm Hp]]].
    constructor.
    - exact Hs.
    - intros q po' Hin. apply (j_rest _ _ _ _ _ _ _ _ H). now right.
    - intros y q po' [Hy|Hy] Hin.
      + subst y. cbn [ypid fst]. exact (Hlt q po' Hin).
      + apply (j_ylt _ _ _ _ _ _ _ _ H y q po' Hy). now right.
    - apply (j_pm _ _ _ _ _ _ _ _ H).
    - intros y [Hy|Hy]; [subst y; exact Hp|now apply (j_ypm _ _ _ _ _ _ _ _ H)].
    - intros p Hpl. destruct (j_comp _ _ _ _ _ _ _ _ H p Hpl) as [Hy|[[po' Hr]|[Hv|Hst]]].
      + left. cbn [map]. now right.
      + destruct Hr as [Hr|Hr].
        * inversion Hr; subst. left. cbn [map ypid fst]. now left.
        * right; left. now exists po'.
      + right; right; now left.
      + right; right; now right.
    - apply (j_tbl _ _ _ _ _ _ _ _ H).
    - apply (j_h0 _ _ _ _ _ _ _ _ H).
    - exact (ysorted_push _ _ _ _ _ _ _ _ H).
    - constructor; [|apply (j_yok _ _ _ _ _ _ _ _ H)].
      unfold yield_ok. cbn [ypid fst snd]. split; [exact HL|]. split; [left; now split|exact Hi].
    - intros p Hmk Hck. destruct (j_mc _ _ _ _ _ _ _ _ H p Hmk Hck) as [H1 [H2 H3]].
      split; [exact H1|]. split; [intros po' Hin; apply (H2 po'); now right|].
      cbn [map ypid fst]. intros [He|Hin]; [subst p; apply (H2 (Some o)); now left|contradiction].
  Qed.

  (* a new object is made and yielded (no cache entry, or the cached instance carried the reused flag) *)
  Lemma J_yield_new pm pid po rest Y n i :
    J valid t fr V pm ((pid, po) :: rest) Y n ->
    match f_attrs fr with None => True | Some l => attrs_valid valid l = true /\ i = Some (spec_keys valid l) end ->
    J valid t fr V (dset pid n pm) rest ((pid, n, i) :: Y) (S n).
  Proof.
    intros H Hi. destruct (sorted_tail_lt _ _ _ (j_sorted _ _ _ _ _ _ _ _ H)) as [Hs Hlt].
    destruct (j_rest _ _ _ _ _ _ _ _ H pid po (or_introl eq_refl)) as [HL _].
    pose proof (j_h0 _ _ _ _ _ _ _ _ H) as Hh.
    constructor.
    - exact Hs.
    - intros q po' Hin. destruct (j_rest _ _ _ _ _ _ _ _ H q po' (or_intror Hin)) as [HLq Hpo].
      split; [exact HLq|]. destruct po' as [o|]; [|exact Hpo].
      destruct Hpo as [Hcq [Hm Hp]]. repeat split; try assumption.
      rewrite dget_dset. specialize (Hlt q (Some o) Hin).
      destruct (pid =? q) eqn:E; [apply Z.eqb_eq in E; lia|exact Hp].
    - intros y q po' [Hy|Hy] Hin.
      + subst y. cbn [ypid fst]. exact (Hlt q po' Hin).
      + apply (j_ylt _ _ _ _ _ _ _ _ H y q po' Hy). now right.
    - intros p o Hg. rewrite dget_dset in Hg. destruct (pid =? p) eqn:E.
      + apply Z.eqb_eq in E. subst p. inversion Hg; subst o. split; [exact HL|]. now right.
      + now apply (j_pm _ _ _ _ _ _ _ _ H).
    - intros y [Hy|Hy].
      + subst y. cbn [ypid fst snd]. rewrite dget_dset, Z.eqb_refl. reflexivity.
      + rewrite dget_dset.
        pose proof (j_ylt _ _ _ _ _ _ _ _ H y pid po Hy (or_introl eq_refl)) as Hlt'.
        destruct (pid =? ypid y) eqn:E; [apply Z.eqb_eq in E; lia|].
        now apply (j_ypm _ _ _ _ _ _ _ _ H).
    - intros p Hpl. destruct (j_comp _ _ _ _ _ _ _ _ H p Hpl) as [Hy|[[po' Hr]|[Hv|Hst]]].
      + left. cbn [map]. now right.
      + destruct Hr as [Hr|Hr].
        * inversion Hr; subst. left. cbn [map ypid fst]. now left.
        * right; left. now exists po'.
      + right; right; now left.
      + right; right; now right.
    - apply (j_tbl _ _ _ _ _ _ _ _ H).
    - lia.
    - exact (ysorted_push _ _ _ _ _ _ _ _ H).
    - constructor; [|apply (j_yok _ _ _ _ _ _ _ _ H)].
      unfold yield_ok. cbn [ypid fst snd]. split; [exact HL|]. split; [right; exact Hh|exact Hi].
    - intros p Hmk Hck. destruct (j_mc _ _ _ _ _ _ _ _ H p Hmk Hck) as [H1 [H2 H3]].
      assert (Hne : pid <> p) by (intros ->; apply (H2 po); now left).
      split; [rewrite dget_dset; apply Z.eqb_neq in Hne; now rewrite Hne|].
      split; [intros po' Hin; apply (H2 po'); now right|].
      cbn [map ypid fst]. intros [He|Hin]; [congruence|contradiction].
  Qed.
  (* a new object was made and cached, then as_dict failed for a reason other than NoSuchProcess *)
  Lemma Jfin_new pm pid po rest Y n :
    J valid t fr V pm ((pid, po) :: rest) Y n -> Jfin valid fr (dset pid n pm) Y.
  Proof.
    intros H.
    destruct (j_rest _ _ _ _ _ _ _ _ H pid po (or_introl eq_refl)) as [HL _].
    pose proof (j_h0 _ _ _ _ _ _ _ _ H) as Hh.
    constructor.
    - intros p o Hg. rewrite dget_dset in Hg. destruct (pid =? p) eqn:E.
      + apply Z.eqb_eq in E. subst p. inversion Hg; subst o. split; [exact HL|]. now right.
      + now apply (j_pm _ _ _ _ _ _ _ _ H).
    - intros y Hy. rewrite dget_dset.
      pose proof (j_ylt _ _ _ _ _ _ _ _ H y pid po Hy (or_introl eq_refl)) as Hlt'.
      destruct (pid =? ypid y) eqn:E; [apply Z.eqb_eq in E; lia|].
      now apply (j_ypm _ _ _ _ _ _ _ _ H).
    - apply (j_ysorted _ _ _ _ _ _ _ _ H).
    - apply (j_yok _ _ _ _ _ _ _ _ H).
    - intros p Hmk Hck. destruct (j_mc _ _ _ _ _ _ _ _ H p Hmk Hck) as [H1 [H2 H3]].
      assert (Hne : pid <> p) by (intros ->; apply (H2 po); now left).
      split; [rewrite dget_dset; apply Z.eqb_neq in Hne; now rewrite Hne|exact H3].
  Qed.
End Moves.

(* ---------------------------------------------------------------- the loop *)
Definition loop_post (valid : list Z) (t : list kproc) (fr : frame) (V : list Z) (Y : list ytriple) (n : nat)
           (r : lres) : Prop :=
  match r with
  | LYield x' rest' p o i => J valid t fr V (l_pm x') rest' ((p, o, i) :: Y) (l_n x') /\ (n <= l_n x')%nat
  | LStop x' => J valid t fr V (l_pm x') [] Y (l_n x') /\ (n <= l_n x')%nat
  | LExc x' e => Jfin valid fr (l_pm x') Y /\ (n <= l_n x')%nat
                 /\ exists l, f_attrs fr = Some l /\ exc_reason valid l e
  | LOom x' => (n <= l_n x')%nat
  end.

Lemma loop_post_mono valid t fr V Y n n' r :
  (n' <= n)%nat -> loop_post valid t fr V Y n r -> loop_post valid t fr V Y n' r.
Proof.
  intros Hn. destruct r; cbn [loop_post]; intros H.
  - destruct H; split; [assumption|lia].
  - destruct H; split; [assumption|lia].
  - destruct H as [H1 [H2 H3]]. split; [assumption|]. split; [lia|assumption].
  - lia.
Qed.

Lemma loop_inv valid t fr V : forall rest x Y,
  J valid t fr V (l_pm x) rest Y (l_n x) ->
  loop_post valid t fr V Y (l_n x) (gen_loop t valid (f_attrs fr) x rest).
Proof.
  induction rest as [|[pid po] rest IH]; intros x Y HJ.
  - cbn [gen_loop loop_post]. split; [exact HJ|lia].
  - cbn [gen_loop].
    destruct (j_rest _ _ _ _ _ _ _ _ HJ pid po (or_introl eq_refl)) as [HL Hpo].
    destruct (match po with Some o => if o_reused (l_hp x o) then None else Some o | None => None end) as [o|] eqn:Ecached.
    + (* a cached object without the reused flag *)
      assert (Epo : po = Some o).
      { destruct po as [o'|]; [|discriminate]. destruct (o_reused (l_hp x o')); [discriminate|]. now inversion Ecached. }
      subst po. destruct Hpo as [Hc [Hm Hp]].
      destruct (f_attrs fr) as [l|] eqn:Ea.
      * destruct (as_dict t valid (l_ru x) pid (l_hp x o) l) as [[r ob'] ru'] eqn:Ead.
        destruct r as [keys|e|].
        -- cbn [loop_post l_pm l_n]. split; [|lia].
           apply J_yield_cached; [exact HJ|]. rewrite Ea. destruct (as_dict_val _ _ _ _ _ _ _ _ _ Ead) as [Hv Hk]; subst keys; now split.
        -- destruct (as_dict_exc _ _ _ _ _ _ _ _ _ Ead) as [He|Hbad]; [subst e|].
           ++ pose proof (as_dict_nsp _ _ _ _ _ _ _ _ Ead) as Hwhy.
              specialize (IH {| l_pm := ddel pid (l_pm x); l_hp := upd_heap (l_hp x) o ob'; l_n := l_n x; l_ru := ru' |} Y).
              cbn [l_pm l_n] in IH. apply IH.
              apply (J_skip _ _ _ _ _ _ _ _ _ _ HJ).
              destruct Hwhy as [Hdead|Hpp].
              ** left. destruct (j_tbl _ _ _ _ _ _ _ _ HJ pid HL) as [Ha|Hv]; [congruence|exact Hv].
              ** right. split; [now exists o|]. right. now rewrite Ea.
           ++ assert (Hne : e <> NoSuchProcess).
              { destruct Hbad as [[-> _]|[[-> _]|[-> _]]]; discriminate. }
              destruct e; try contradiction; (cbn [loop_post l_pm l_n]; split; [exact (J_Jfin _ _ _ _ _ _ _ _ HJ)|];
                split; [lia|]; exists l; now split).
        -- cbn [loop_post]. lia.
      * cbn [loop_post l_pm l_n]. split; [|lia].
        apply J_yield_cached; [exact HJ|]. now rewrite Ea.
    + (* no cache entry, or a cached instance that carries the reused flag: Process(pid) *)
      destruct (find_proc t pid) as [k|] eqn:Ef.
      * destruct (f_attrs fr) as [l|] eqn:Ea.
        -- cbn [l_ru l_hp l_n l_pm]. unfold upd_heap at 1. rewrite Nat.eqb_refl.
           destruct (as_dict t valid (l_ru x) pid (new_obj pid (k_start k)) l) as [[r ob'] ru'] eqn:Ead.
           destruct r as [keys|e|].
           ++ cbn [loop_post l_pm l_n]. split; [|lia].
              apply (J_yield_new _ _ _ _ _ _ po); [exact HJ|]. rewrite Ea. destruct (as_dict_val _ _ _ _ _ _ _ _ _ Ead) as [Hv Hk]; subst keys; now split.
           ++ destruct (as_dict_exc _ _ _ _ _ _ _ _ _ Ead) as [He|Hbad]; [subst e|].
              ** exfalso. exact (as_dict_fresh _ _ _ _ _ _ _ _ Ef Ead).
              ** assert (Hne : e <> NoSuchProcess).
                 { destruct Hbad as [[-> _]|[[-> _]|[-> _]]]; discriminate. }
                 destruct e; try contradiction; (cbn [loop_post l_pm l_n]; split; [exact (Jfin_new _ _ _ _ _ _ _ _ _ _ HJ)|];
                   split; [lia|]; exists l; now split).
           ++ cbn [loop_post l_n]. lia.
        -- cbn [loop_post l_pm l_n]. split; [|lia].
           apply (J_yield_new _ _ _ _ _ _ po); [exact HJ|]. now rewrite Ea.
      * specialize (IH {| l_pm := ddel pid (l_pm x); l_hp := l_hp x; l_n := l_n x; l_ru := l_ru x |} Y).
        cbn [l_pm l_n] in IH. apply IH.
        apply (J_skip _ _ _ _ _ _ _ _ _ _ HJ). left.
        destruct (j_tbl _ _ _ _ _ _ _ _ HJ pid HL) as [Ha|Hv]; [|exact Hv].
        unfold alive in Ha. rewrite Ef in Ha. discriminate.
Qed.
