(* C04 -- specification side.  Written from the property text and from what the
   kernel shows (procfs root directory, /proc/<n>/status), not from psutil's code:
   - text level: what a procfs root listing and a status file look like, and the
     PIDs / thread-group id they denote;
   - machine level: ghost bookkeeping per process_iter() generator (the listing and
     the cache at the moment its body was entered, what it yielded, which PIDs
     vanished meanwhile) and the answers the property demands. *)
From PV Require Export C04.Model.

(* ===================================================================== *)
(* text level                                                              *)
(* ===================================================================== *)

(* an entry of the procfs root: a thread-group id printed in decimal, or one of
   the kernel's other names (self, thread-self, meminfo, sys, ...), none of which is
   a digit string *)
Inductive dirent := DPid (ds : bytes) | DOther (name : bytes).

Definition wf_dirent (d : dirent) : bool :=
  match d with DPid ds => is_dec ds | DOther n => negb (is_dec n) end.
Definition k_name (d : dirent) : bytes := match d with DPid ds => ds | DOther n => n end.
Definition k_listdir (d : list dirent) : list bytes := map k_name d.

Fixpoint spec_dir_pids (d : list dirent) : list Z :=
  match d with
  | [] => []
  | DPid ds :: r => dec_val ds :: spec_dir_pids r
  | DOther _ :: r => spec_dir_pids r
  end.

(* /proc/<n>/status (fs/proc/array.c): "Name:\t<escaped comm>\n" [Umask:] "State:\t..\n"
   "Tgid:\t<n>\n" ...; the kernel escapes '\n' in the name, so no earlier line can
   begin with "Tgid:" *)
Record kstatus := { ks_pre : list bytes; ks_tgid : bytes; ks_post : bytes }.

Definition wf_preline (l : bytes) : bool := negb (contains 10 l) && negb (prefixb (bs "Tgid:") l).
Definition wf_kstatus (r : kstatus) : bool := forallb wf_preline (ks_pre r) && is_dec (ks_tgid r).

Fixpoint k_lines (ls : list bytes) : bytes :=
  match ls with [] => [] | l :: r => l ++ 10 :: k_lines r end.
Definition k_status (r : kstatus) : bytes :=
  k_lines (ks_pre r) ++ bs "Tgid:" ++ 9 :: ks_tgid r ++ 10 :: ks_post r.

(* the Name: record (fs/proc/array.c task_name -> string_escape_str(ESCAPE_SPACE|ESCAPE_SPECIAL, "\n\\")):
   of the comm bytes only '\n' and '\\' are escaped, every other byte -- '\r', '\t', '\v', '\f', 0x1c-0x1e,
   0x85, ':' ... -- is printed raw; the record ends with the only '\n' of the line *)
Fixpoint k_escape (comm : bytes) : bytes :=
  match comm with
  | [] => []
  | c :: r => if c =? 10 then 92 :: 110 :: k_escape r
              else if c =? 92 then 92 :: 92 :: k_escape r
              else c :: k_escape r
  end.
Definition k_name_body (comm : bytes) : bytes := bs "Name:" ++ 9 :: k_escape comm.
Definition k_name_line (comm : bytes) : bytes := k_name_body comm ++ [10].

(* ===================================================================== *)
(* machine level                                                           *)
(* ===================================================================== *)

(* the property's vocabulary on the process table *)
Definition listed (t : list kproc) (n : Z) : Prop := In n (listing t).
Definition listedb (t : list kproc) (n : Z) : bool := zmem n (listing t).
Definition is_tid (t : list kproc) (n : Z) : Prop := exists k, In k t /\ In n (k_tids k).

(* the process table is well formed: PIDs are unique and inside pid_t, thread ids are
   inside pid_t and are nobody's PID.  (The machine's kernel events keep this.) *)
Definition wf_tbl (t : list kproc) : Prop :=
  NoDup (listing t) /\
  (forall k, In k t -> 0 <= k_pid k <= PIDMAX) /\
  (forall k n, In k t -> In n (k_tids k) -> ~ In n (listing t)).

(* demanded answers *)
Definition spec_pid_exists (t : list kproc) (n : Z) : bool := listedb t n.
Definition spec_pids (t : list kproc) : list Z := zsort (listing t).

(* the info dict demanded by attrs=l: exactly those names; every name when l is empty *)
Definition spec_keys (valid l : list Z) : list Z :=
  zsort (filter (fun a => negb (unimpl a)) (match nodup Z.eq_dec l with [] => valid | _ => nodup Z.eq_dec l end)).
Definition attrs_valid (valid l : list Z) : bool := forallb (fun a => zmem a valid) l.
(* the only ways next() may fail because of its attrs argument *)
Definition exc_reason (valid l : list Z) (e : exn) : Prop :=
  (e = TypeError /\ zmem BADTYPE l = true)
  \/ (e = ValueError /\ attrs_valid valid l = false)
  \/ (e = NotImplementedError /\ explicit_ni l = true).

(* one yield: (pid, object token, keys of the info dict) *)
Definition ytriple := (Z * nat * option (list Z))%type.
Definition ypid (y : ytriple) : Z := fst (fst y).

(* ---- ghost state of one generator *)
Record ghost := {
  gh_started : bool;                 (* its body was entered (first next()) *)
  gh_done : bool;                    (* exhausted, closed, or died by an exception *)
  gh_exhausted : bool;               (* ... ran to StopIteration *)
  gh_attrs : attrs_t;
  gh_list : list Z;                  (* PIDs in the table when the body was entered *)
  gh_cache : dict;                   (* the cache at that moment *)
  gh_marked : list Z;                (* PIDs marked as reused by is_running() at that moment *)
  gh_heap0 : nat;                    (* objects existing at that moment have tokens < gh_heap0 *)
  gh_yields : list ytriple;          (* (pid, object, info keys), newest first *)
  gh_vanished : list Z;              (* PIDs removed from the table since then *)
  gh_repl : list Z;                  (* yielded PIDs whose cached object carried the reused flag when yielded *)
  gh_passed : list (Z * bool) }.     (* listed PIDs passed over between two yields (or before the stop), with
                                        "was in the table at that next()" *)

Definition gh_fresh (a : attrs_t) : ghost :=
  {| gh_started := false; gh_done := false; gh_exhausted := false; gh_attrs := a; gh_list := [];
     gh_cache := []; gh_marked := []; gh_heap0 := 0%nat; gh_yields := []; gh_vanished := [];
     gh_repl := []; gh_passed := [] |}.
Definition gh_none : ghost :=
  {| gh_started := false; gh_done := true; gh_exhausted := false; gh_attrs := None; gh_list := [];
     gh_cache := []; gh_marked := []; gh_heap0 := 0%nat; gh_yields := []; gh_vanished := [];
     gh_repl := []; gh_passed := [] |}.

Definition gh_enter (s : st) (gh : ghost) : ghost :=
  {| gh_started := true; gh_done := false; gh_exhausted := false; gh_attrs := gh_attrs gh;
     gh_list := listing (tbl s); gh_cache := pmap s; gh_marked := reused s; gh_heap0 := nobj s;
     gh_yields := []; gh_vanished := []; gh_repl := []; gh_passed := [] |}.
(* a yield is recorded together with: was the cached object for that PID flagged (pre-state [s]);
   which listed PIDs were passed over since the previous yield *)
Definition gh_push (gh : ghost) (y : ytriple) (repl : bool) (passed : list (Z * bool)) : ghost :=
  {| gh_started := gh_started gh; gh_done := gh_done gh; gh_exhausted := gh_exhausted gh; gh_attrs := gh_attrs gh;
     gh_list := gh_list gh; gh_cache := gh_cache gh; gh_marked := gh_marked gh; gh_heap0 := gh_heap0 gh;
     gh_yields := y :: gh_yields gh; gh_vanished := gh_vanished gh;
     gh_repl := if repl then ypid y :: gh_repl gh else gh_repl gh; gh_passed := passed ++ gh_passed gh |}.
Definition gh_finish (gh : ghost) (exhausted : bool) (passed : list (Z * bool)) : ghost :=
  {| gh_started := gh_started gh; gh_done := true; gh_exhausted := exhausted; gh_attrs := gh_attrs gh;
     gh_list := gh_list gh; gh_cache := gh_cache gh; gh_marked := gh_marked gh; gh_heap0 := gh_heap0 gh;
     gh_yields := gh_yields gh; gh_vanished := gh_vanished gh; gh_repl := gh_repl gh;
     gh_passed := passed ++ gh_passed gh |}.
Definition gh_vanish (gh : ghost) (p : Z) : ghost :=
  if gh_started gh && negb (gh_done gh) then
    {| gh_started := gh_started gh; gh_done := gh_done gh; gh_exhausted := gh_exhausted gh; gh_attrs := gh_attrs gh;
       gh_list := gh_list gh; gh_cache := gh_cache gh; gh_marked := gh_marked gh; gh_heap0 := gh_heap0 gh;
       gh_yields := gh_yields gh; gh_vanished := p :: gh_vanished gh; gh_repl := gh_repl gh;
       gh_passed := gh_passed gh |}
  else gh.

Definition cached_flag (s : st) (gh : ghost) (p : Z) : bool :=
  match dget p (gh_cache gh) with Some o' => o_reused (heap s o') | None => false end.

(* listed PIDs strictly between the last yielded PID and [hi] (no upper bound for None) *)
Definition gap (gh : ghost) (hi : option Z) : list Z :=
  filter (fun q => match gh_yields gh with y :: _ => ypid y <? q | [] => true end
                   && match hi with Some p => q <? p | None => true end) (gh_list gh).
Definition passed_now (s : st) (gh : ghost) (hi : option Z) : list (Z * bool) :=
  map (fun q => (q, alive (tbl s) q)) (gap gh hi).

(* the ghost after a next() that answered [o], in pre-state [s] *)
Definition gh_after (s : st) (gh1 : ghost) (o : out) : ghost :=
  match o with
  | OYield p ob i => gh_push gh1 (p, ob, i) (cached_flag s gh1 p) (passed_now s gh1 (Some p))
  | OStop => gh_finish gh1 true (passed_now s gh1 None)
  | OExc _ => gh_finish gh1 false []
  | OOom => gh_finish gh1 false []
  | _ => gh1
  end.

Definition ghosts := nat -> ghost.
Definition gset (G : ghosts) (g : nat) (x : ghost) : ghosts := fun g' => if Nat.eqb g' g then x else G g'.

(* ghost bookkeeping: looks only at the event, the state before it and the answer *)
Definition gupd (s : st) (e : ev) (o : out) (G : ghosts) : ghosts :=
  match e with
  | IterNew a => gset G (ngen s) (gh_fresh a)
  | IterNext g =>
    if Nat.leb (ngen s) g then G else
    let gh := G g in
    if gh_done gh then G else
    let gh1 := if gh_started gh then gh else gh_enter s gh in
    gset G g (gh_after s gh1 o)
  | IterClose g => if Nat.leb (ngen s) g then G else if gh_done (G g) then G else gset G g (gh_finish (G g) false [])
  | Reap p => if alive (tbl s) p then fun g => gh_vanish (G g) p else G
  | _ => G
  end.

Definition istep (valid : list Z) (sg : st * ghosts) (e : ev) : (st * ghosts) * out :=
  let (s', o) := step valid (fst sg) e in ((s', gupd (fst sg) e o (snd sg)), o).

Definition irun (valid : list Z) (h : list ev) : st * ghosts :=
  fold_left (fun sg e => fst (istep valid sg e)) h (init, fun _ => gh_none).

(* the input class of the known finding: the body is entered while a listed, cached
   PID is marked as reused *)
Definition skip_class (gh : ghost) : bool :=
  existsb (fun p => zmem p (gh_list gh) && zmem p (dkeys (gh_cache gh))) (gh_marked gh).

(* does attrs make as_dict call Process.ppid() (which first runs is_running())? *)
Definition req_ppid (valid : list Z) (a : attrs_t) : bool :=
  match a with
  | None => false
  | Some l => zmem PPID (match nodup Z.eq_dec l with [] => valid | _ => nodup Z.eq_dec l end)
  end.
