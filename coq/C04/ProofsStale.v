(* C04 -- an object found recycled by is_running() and the generators entered afterwards. *)
From PV Require Import C04.Spec C04.ProofsTable.

Definition is_run (g : gen) : bool := match g with GRun _ _ _ => true | _ => false end.

(* every cache entry (pid -> token) points to an allocated object with that pid *)
Definition dict_ok (hp : nat -> obj) (n : nat) (d : dict) : Prop :=
  forall p o, dget p d = Some o -> (o < n)%nat /\ o_pid (hp o) = p.
Definition rest_tok (hp : nat -> obj) (n : nat) (rest : list (Z * option nat)) : Prop :=
  forall p o, In (p, Some o) rest -> (o < n)%nat /\ o_pid (hp o) = p.
Definition heap_ext (hp : nat -> obj) (n : nat) (hp' : nat -> obj) (n' : nat) : Prop :=
  (n <= n')%nat /\ forall o, (o < n)%nat -> o_pid (hp' o) = o_pid (hp o).

Definition Kpid (s : st) : Prop :=
  dict_ok (heap s) (nobj s) (pmap s) /\
  (forall g a pm rest, gens s g = GRun a pm rest ->
     dict_ok (heap s) (nobj s) pm /\ rest_tok (heap s) (nobj s) rest) /\
  (forall g, (ngen s <= g)%nat -> gens s g = GDone).

Lemma heap_ext_refl hp n : heap_ext hp n hp n.
Proof. split; [lia|reflexivity]. Qed.

Lemma heap_ext_trans hp n hp1 n1 hp2 n2 :
  heap_ext hp n hp1 n1 -> heap_ext hp1 n1 hp2 n2 -> heap_ext hp n hp2 n2.
Proof.
  intros [H1 H2] [H3 H4]. split; [lia|]. intros o Ho. rewrite H4 by lia. now apply H2.
Qed.

Lemma dict_ok_ext hp n hp' n' d : heap_ext hp n hp' n' -> dict_ok hp n d -> dict_ok hp' n' d.
Proof.
  intros [H1 H2] Hd p o Hg. destruct (Hd p o Hg) as [Ho Hp]. split; [lia|]. now rewrite H2.
Qed.

Lemma rest_tok_ext hp n hp' n' r : heap_ext hp n hp' n' -> rest_tok hp n r -> rest_tok hp' n' r.
Proof.
  intros [H1 H2] Hd p o Hg. destruct (Hd p o Hg) as [Ho Hp]. split; [lia|]. now rewrite H2.
Qed.

Lemma heap_ext_upd hp n o x : (o < n)%nat -> o_pid x = o_pid (hp o) -> heap_ext hp n (upd_heap hp o x) n.
Proof.
  intros Ho Hx. split; [lia|]. intros o' Ho'. unfold upd_heap.
  destruct (Nat.eqb o' o) eqn:E; [apply Nat.eqb_eq in E; subst; exact Hx|reflexivity].
Qed.

Lemma heap_ext_new hp n x : heap_ext hp n (upd_heap hp n x) (S n).
Proof.
  split; [lia|]. intros o Ho. unfold upd_heap.
  destruct (Nat.eqb o n) eqn:E; [apply Nat.eqb_eq in E; lia|reflexivity].
Qed.

Lemma is_running_obj_pid t ru pid ob r ob' ru' :
  is_running_obj t ru pid ob = (r, ob', ru') -> o_pid ob' = o_pid ob.
Proof.
  unfold is_running_obj. destruct (o_gone ob || o_reused ob); [intros H; now inversion H|].
  destruct (find_proc t pid) as [k|]; [|intros H; now inversion H].
  destruct (k_start k =? o_start ob); intros H; now inversion H.
Qed.

Lemma as_dict_pid t valid ru pid ob l r ob' ru' :
  as_dict t valid ru pid ob l = (r, ob', ru') -> o_pid ob' = o_pid ob.
Proof.
  unfold as_dict. destruct (zmem BADTYPE l); [intros H; now inversion H|].
  destruct (existsb _ _); [intros H; now inversion H|].
  destruct (zmem PPID _).
  - destruct (explicit_ni l); [intros H; now inversion H|].
    destruct (o_gone ob || o_reused ob); [intros H; now inversion H|].
    destruct (_ && negb (alive t pid)); [intros H; now inversion H|].
    destruct (is_running_obj t ru pid ob) as [[r1 ob1] ru1] eqn:E.
    apply is_running_obj_pid in E. destruct r1; intros H; inversion H; subst; exact E.
  - destruct (_ && negb (alive t pid)); [intros H; now inversion H|].
    destruct (explicit_ni l); intros H; now inversion H.
Qed.

Definition lres_state (r : lres) : lstate :=
  match r with LYield x _ _ _ _ => x | LStop x => x | LExc x _ => x | LOom x => x end.

(* ---- the loop keeps caches well-tokened *)
Lemma loop_tok t valid attrs : forall rest x,
  dict_ok (l_hp x) (l_n x) (l_pm x) -> rest_tok (l_hp x) (l_n x) rest ->
  let r := gen_loop t valid attrs x rest in
  let x' := lres_state r in
  heap_ext (l_hp x) (l_n x) (l_hp x') (l_n x') /\ dict_ok (l_hp x') (l_n x') (l_pm x') /\
  match r with LYield _ rest' _ _ _ => rest_tok (l_hp x') (l_n x') rest' | _ => True end.
Proof.
  induction rest as [|[pid po] rest IH]; intros x Hd Hr.
  - cbn. split; [apply heap_ext_refl|]. split; [exact Hd|exact I].
  - cbn [gen_loop].
    assert (Hr' : rest_tok (l_hp x) (l_n x) rest) by (intros p o Hin; apply Hr; now right).
    assert (Hdel : forall d, dict_ok (l_hp x) (l_n x) d -> dict_ok (l_hp x) (l_n x) (ddel pid d)).
    { intros d Hdd p o Hg. rewrite dget_ddel in Hg. destruct (pid =? p); [discriminate|]. now apply Hdd. }
    destruct (match po with Some o => if o_reused (l_hp x o) then None else Some o | None => None end) as [o|] eqn:Ecached.
    + assert (Epo : po = Some o).
      { destruct po as [o'|]; [|discriminate]. destruct (o_reused (l_hp x o')); [discriminate|]. now inversion Ecached. }
      subst po. destruct (Hr pid o (or_introl eq_refl)) as [Ho Hp].
      destruct attrs as [l|].
      * destruct (as_dict t valid (l_ru x) pid (l_hp x o) l) as [[r ob'] ru'] eqn:Ead.
        pose proof (as_dict_pid _ _ _ _ _ _ _ _ _ Ead) as Hpid.
        assert (Hext : forall ob2, o_pid ob2 = o_pid ob' -> heap_ext (l_hp x) (l_n x) (upd_heap (l_hp x) o ob2) (l_n x)).
        { intros ob2 H2. apply heap_ext_upd; [exact Ho|congruence]. }
        destruct r as [keys|e|].
        -- cbn [lres_state l_hp l_n l_pm]. pose proof (Hext (set_info ob' (Some keys)) eq_refl) as He.
           split; [exact He|]. split; [exact (dict_ok_ext _ _ _ _ _ He Hd)|exact (rest_tok_ext _ _ _ _ _ He Hr')].
        -- pose proof (Hext ob' eq_refl) as He.
           destruct e;
             try (cbn [lres_state l_hp l_n l_pm]; split; [exact He|]; split; [exact (dict_ok_ext _ _ _ _ _ He Hd)|exact I]).
           specialize (IH {| l_pm := ddel pid (l_pm x); l_hp := upd_heap (l_hp x) o ob'; l_n := l_n x; l_ru := ru' |}).
           cbn [l_pm l_hp l_n] in IH.
           destruct (IH (dict_ok_ext _ _ _ _ _ He (Hdel _ Hd)) (rest_tok_ext _ _ _ _ _ He Hr')) as [H1 [H2 H3]].
           split; [exact (heap_ext_trans _ _ _ _ _ _ He H1)|]. split; [exact H2|exact H3].
        -- cbn [lres_state]. split; [apply heap_ext_refl|]. split; [exact Hd|exact I].
      * cbn [lres_state]. split; [apply heap_ext_refl|]. split; [exact Hd|exact Hr'].
    + destruct (find_proc t pid) as [k|].
      * set (hp1 := upd_heap (l_hp x) (l_n x) (new_obj pid (k_start k))).
        assert (He0 : heap_ext (l_hp x) (l_n x) hp1 (S (l_n x))) by apply heap_ext_new.
        assert (Hd1 : dict_ok hp1 (S (l_n x)) (dset pid (l_n x) (l_pm x))).
        { intros p o Hg. rewrite dget_dset in Hg. destruct (pid =? p) eqn:E.
          - apply Z.eqb_eq in E. subst p. inversion Hg; subst o. split; [lia|].
            unfold hp1, upd_heap. rewrite Nat.eqb_refl. reflexivity.
          - exact (dict_ok_ext _ _ _ _ _ He0 Hd p o Hg). }
        pose proof (rest_tok_ext _ _ _ _ _ He0 Hr') as Hr1.
        destruct attrs as [l|].
        -- cbn [l_ru l_hp l_n l_pm].
           destruct (as_dict t valid (l_ru x) pid (hp1 (l_n x)) l) as [[r ob'] ru'] eqn:Ead.
           pose proof (as_dict_pid _ _ _ _ _ _ _ _ _ Ead) as Hpid.
           assert (Hext : forall ob2, o_pid ob2 = o_pid ob' -> heap_ext hp1 (S (l_n x)) (upd_heap hp1 (l_n x) ob2) (S (l_n x))).
           { intros ob2 H2. apply heap_ext_upd; [lia|congruence]. }
           assert (Hdel1 : forall d, dict_ok hp1 (S (l_n x)) d -> dict_ok hp1 (S (l_n x)) (ddel pid d)).
           { intros d Hdd p o Hg. rewrite dget_ddel in Hg. destruct (pid =? p); [discriminate|]. now apply Hdd. }
           destruct r as [keys|e|].
           ++ cbn [lres_state l_hp l_n l_pm]. pose proof (Hext (set_info ob' (Some keys)) eq_refl) as He.
              split; [exact (heap_ext_trans _ _ _ _ _ _ He0 He)|].
              split; [exact (dict_ok_ext _ _ _ _ _ He Hd1)|exact (rest_tok_ext _ _ _ _ _ He Hr1)].
           ++ pose proof (Hext ob' eq_refl) as He.
              destruct e;
                try (cbn [lres_state l_hp l_n l_pm]; split; [exact (heap_ext_trans _ _ _ _ _ _ He0 He)|];
                     split; [exact (dict_ok_ext _ _ _ _ _ He Hd1)|exact I]).
              specialize (IH {| l_pm := ddel pid (dset pid (l_n x) (l_pm x)); l_hp := upd_heap hp1 (l_n x) ob';
                                l_n := S (l_n x); l_ru := ru' |}).
              cbn [l_pm l_hp l_n] in IH.
              destruct (IH (dict_ok_ext _ _ _ _ _ He (Hdel1 _ Hd1)) (rest_tok_ext _ _ _ _ _ He Hr1)) as [H1 [H2 H3]].
              split; [exact (heap_ext_trans _ _ _ _ _ _ (heap_ext_trans _ _ _ _ _ _ He0 He) H1)|]. split; [exact H2|exact H3].
           ++ cbn [lres_state l_hp l_n l_pm]. split; [exact He0|]. split; [exact Hd1|exact I].
        -- cbn [lres_state l_hp l_n l_pm]. split; [exact He0|]. split; [exact Hd1|exact Hr1].
      * specialize (IH {| l_pm := ddel pid (l_pm x); l_hp := l_hp x; l_n := l_n x; l_ru := l_ru x |}).
        cbn [l_pm l_hp l_n] in IH. exact (IH (Hdel _ Hd) Hr').
Qed.

(* ---- the prologue: the private copy is a part of the cache without the marked PIDs *)
Opaque nodup.
Lemma gen_start_sub t pmap0 reused0 pm ls low :
  gen_start t pmap0 reused0 = Val (pm, ls, low) ->
  (forall p o, dget p pm = Some o -> dget p pmap0 = Some o /\ ~ In p reused0) /\
  (forall p o, In (p, Some o) ls -> dget p pm = Some o).
Proof.
  unfold gen_start, pids_sorted. destruct (zsort (listing t)) as [|lo r]; [discriminate|].
  cbn [obind fst snd]. intros H. injection H as Hpm Hls _. split.
  - intros p o Hg. rewrite <- Hpm in Hg. rewrite dget_ddel_all in Hg.
    destruct (zmem p reused0) eqn:Mr; [discriminate|]. rewrite dget_ddel_all in Hg.
    destruct (zmem p (filter _ _)); [discriminate|]. split; [exact Hg|now apply zmem_false].
  - intros p o Hin. rewrite <- Hls in Hin. apply isort_In in Hin. apply in_app_iff in Hin as [Hin|Hin].
    + apply in_map_iff in Hin as [[k v] [He Hi]]. cbn [fst snd] in He. injection He as Hk Hv. subst k v.
      rewrite <- Hpm. now apply ditems_In.
    + apply in_map_iff in Hin as [q [He _]]. discriminate.
Qed.
Transparent nodup.

(* ---- shape of run_loop *)
Lemma run_loop_facts valid s g a pm rest :
  let r := gen_loop (tbl s) valid a {| l_pm := pm; l_hp := heap s; l_n := nobj s; l_ru := reused s |} rest in
  let x' := lres_state r in
  let s' := fst (run_loop valid s g a pm rest) in
  let o := snd (run_loop valid s g a pm rest) in
  tbl s' = tbl s /\ heap s' = l_hp x' /\ nobj s' = l_n x' /\ reused s' = l_ru x' /\ ngen s' = ngen s /\
  match r with
  | LYield _ rest' p ob i => pmap s' = pmap s /\ gens s' = set_gen s g (GRun a (l_pm x') rest') /\ o = OYield p ob i
  | LStop _ => pmap s' = l_pm x' /\ gens s' = set_gen s g GDone /\ o = OStop
  | LExc _ e => pmap s' = l_pm x' /\ gens s' = set_gen s g GDone /\ o = OExc e
  | LOom _ => pmap s' = l_pm x' /\ gens s' = set_gen s g GDone /\ o = OOom
  end.
Proof.
  cbn zeta. unfold run_loop. destruct (gen_loop _ _ _ _ _); cbn; repeat split; reflexivity.
Qed.

Lemma set_gen_eq s g x g' : set_gen s g x g' = if Nat.eqb g' g then x else gens s g'.
Proof. reflexivity. Qed.

(* run_loop keeps the token discipline *)
Lemma run_loop_K valid s g a pm rest :
  Kpid s -> (g < ngen s)%nat ->
  dict_ok (heap s) (nobj s) pm -> rest_tok (heap s) (nobj s) rest ->
  let s' := fst (run_loop valid s g a pm rest) in
  Kpid s' /\ heap_ext (heap s) (nobj s) (heap s') (nobj s').
Proof.
  intros [K1 [K2 K3]] Hg Hd Hr.
  pose proof (run_loop_facts valid s g a pm rest) as F. cbn zeta in F.
  pose proof (loop_tok (tbl s) valid a rest {| l_pm := pm; l_hp := heap s; l_n := nobj s; l_ru := reused s |} Hd Hr) as L.
  cbn zeta in L. cbn [l_hp l_n l_pm] in L.
  destruct F as [Ft [Fh [Fn [Fr [Fg Fm]]]]]. destruct L as [Le [Ld Lr]].
  cbn zeta. rewrite <- Fh, <- Fn in Le, Ld.
  split; [|exact Le].
  assert (Hoth : forall x g2 a2 pm2 rest2, gens (fst (run_loop valid s g a pm rest)) = set_gen s g x ->
            g2 <> g -> gens (fst (run_loop valid s g a pm rest)) g2 = GRun a2 pm2 rest2 ->
            dict_ok (heap (fst (run_loop valid s g a pm rest))) (nobj (fst (run_loop valid s g a pm rest))) pm2 /\
            rest_tok (heap (fst (run_loop valid s g a pm rest))) (nobj (fst (run_loop valid s g a pm rest))) rest2).
  { intros x g2 a2 pm2 rest2 Hgs Hne Hrun. rewrite Hgs, set_gen_eq in Hrun.
    apply Nat.eqb_neq in Hne. rewrite Hne in Hrun. destruct (K2 _ _ _ _ Hrun) as [H1 H2].
    split; [exact (dict_ok_ext _ _ _ _ _ Le H1)|exact (rest_tok_ext _ _ _ _ _ Le H2)]. }
  assert (Hdone : forall x g2, gens (fst (run_loop valid s g a pm rest)) = set_gen s g x ->
            (ngen (fst (run_loop valid s g a pm rest)) <= g2)%nat -> gens (fst (run_loop valid s g a pm rest)) g2 = GDone).
  { intros x g2 Hgs Hge. rewrite Fg in Hge. rewrite Hgs, set_gen_eq.
    assert (Nat.eqb g2 g = false) as -> by (apply Nat.eqb_neq; lia). now apply K3. }
  destruct (gen_loop _ _ _ _ _) as [x1 rest1 p ob i|x1|x1 e|x1]; cbn [lres_state] in *.
  - destruct Fm as [Fp [Fgs Fo]]. split; [|split].
    + rewrite Fp. exact (dict_ok_ext _ _ _ _ _ Le K1).
    + intros g2 a2 pm2 rest2 Hrun. destruct (Nat.eq_dec g2 g) as [->|Hne].
      * rewrite Fgs, set_gen_eq, Nat.eqb_refl in Hrun. injection Hrun as _ Hpm Hrest. subst pm2 rest2.
        rewrite Fh, Fn. split; [rewrite <- Fh, <- Fn; exact Ld|exact Lr].
      * exact (Hoth _ _ _ _ _ Fgs Hne Hrun).
    + intros g2; exact (Hdone _ g2 Fgs).
  - destruct Fm as [Fp [Fgs Fo]]. split; [|split].
    + rewrite Fp. exact Ld.
    + intros g2 a2 pm2 rest2 Hrun. destruct (Nat.eq_dec g2 g) as [->|Hne].
      * rewrite Fgs, set_gen_eq, Nat.eqb_refl in Hrun. discriminate.
      * exact (Hoth _ _ _ _ _ Fgs Hne Hrun).
    + intros g2; exact (Hdone _ g2 Fgs).
  - destruct Fm as [Fp [Fgs Fo]]. split; [|split].
    + rewrite Fp. exact Ld.
    + intros g2 a2 pm2 rest2 Hrun. destruct (Nat.eq_dec g2 g) as [->|Hne].
      * rewrite Fgs, set_gen_eq, Nat.eqb_refl in Hrun. discriminate.
      * exact (Hoth _ _ _ _ _ Fgs Hne Hrun).
    + intros g2; exact (Hdone _ g2 Fgs).
  - destruct Fm as [Fp [Fgs Fo]]. split; [|split].
    + rewrite Fp. exact Ld.
    + intros g2 a2 pm2 rest2 Hrun. destruct (Nat.eq_dec g2 g) as [->|Hne].
      * rewrite Fgs, set_gen_eq, Nat.eqb_refl in Hrun. discriminate.
      * exact (Hoth _ _ _ _ _ Fgs Hne Hrun).
    + intros g2; exact (Hdone _ g2 Fgs).
Qed.

Lemma Kpid_same s s' :
  heap s' = heap s -> nobj s' = nobj s -> pmap s' = pmap s -> gens s' = gens s -> ngen s' = ngen s ->
  Kpid s -> Kpid s' /\ heap_ext (heap s) (nobj s) (heap s') (nobj s').
Proof.
  intros H1 H2 H3 H4 H5 K. unfold Kpid. rewrite H1, H2, H3, H4, H5. split; [exact K|apply heap_ext_refl].
Qed.

Lemma Kstep valid s e :
  Kpid s -> Kpid (fst (step valid s e)) /\ heap_ext (heap s) (nobj s) (heap (fst (step valid s e))) (nobj (fst (step valid s e))).
Proof.
  intros K. pose proof K as [K1 [K2 K3]].
  destruct e; cbn [step].
  - destruct (_ && _); apply Kpid_same; auto.
  - apply Kpid_same; auto.
  - apply Kpid_same; auto.
  - destruct (_ && _); apply Kpid_same; auto.
  - apply Kpid_same; auto.
  - destruct (pids_sorted _) as [[l low]| |]; apply Kpid_same; auto.
  - destruct (n <? 0); [apply Kpid_same; auto|]. destruct (n =? 0); [|apply Kpid_same; auto].
    destruct (pids_sorted _) as [[l low]| |]; apply Kpid_same; auto.
  - (* IterNew *)
    unfold Kpid; cbn [fst mk heap nobj pmap gens ngen]. split; [|apply heap_ext_refl]. split; [exact K1|]. split.
    + intros g a pm rest Hrun. rewrite set_gen_eq in Hrun. destruct (Nat.eqb g (ngen s)); [discriminate|].
      exact (K2 _ _ _ _ Hrun).
    + intros g Hge. rewrite set_gen_eq. assert (Nat.eqb g (ngen s) = false) as -> by (apply Nat.eqb_neq; lia).
      apply K3. lia.
  - (* IterNext *)
    destruct (Nat.leb (ngen s) g) eqn:Hg; [apply Kpid_same; auto|]. apply Nat.leb_gt in Hg.
    destruct (gens s g) as [a|a pm rest|] eqn:Eg; [| |apply Kpid_same; auto].
    + destruct (gen_start (tbl s) (pmap s) (reused s)) as [[[pm ls] low]|e|] eqn:Es.
      * destruct (gen_start_sub _ _ _ _ _ _ Es) as [S1 S2].
        set (s1 := mk s (tbl s) (pmap s) [] (Some low) (heap s) (nobj s) (gens s) (ngen s)).
        assert (Kp : dict_ok (heap s1) (nobj s1) pm).
        { intros p o Hgt. apply K1. now apply S1. }
        assert (Kr : rest_tok (heap s1) (nobj s1) ls).
        { intros p o Hin. apply K1. apply S1. now apply S2. }
        exact (run_loop_K valid s1 g a pm ls K Hg Kp Kr).
      * unfold Kpid, with_gen; cbn [fst mk heap nobj pmap gens ngen]. split; [|apply heap_ext_refl]. split; [exact K1|]. split.
        -- intros g2 a2 pm2 rest2 Hrun. rewrite set_gen_eq in Hrun. destruct (Nat.eqb g2 g); [discriminate|].
           exact (K2 _ _ _ _ Hrun).
        -- intros g2 Hge. rewrite set_gen_eq. destruct (Nat.eqb g2 g); [reflexivity|now apply K3].
      * unfold Kpid, with_gen; cbn [fst mk heap nobj pmap gens ngen]. split; [|apply heap_ext_refl]. split; [exact K1|]. split.
        -- intros g2 a2 pm2 rest2 Hrun. rewrite set_gen_eq in Hrun. destruct (Nat.eqb g2 g); [discriminate|].
           exact (K2 _ _ _ _ Hrun).
        -- intros g2 Hge. rewrite set_gen_eq. destruct (Nat.eqb g2 g); [reflexivity|now apply K3].
    + destruct (K2 _ _ _ _ Eg) as [Kp Kr]. exact (run_loop_K valid s g a pm rest K Hg Kp Kr).
  - (* IterClose *)
    destruct (Nat.leb (ngen s) g) eqn:Hg; [apply Kpid_same; auto|].
    destruct (gens s g) as [a|a pm rest|] eqn:Eg;
      unfold Kpid, with_gen; cbn [fst mk heap nobj pmap gens ngen]; (split; [|apply heap_ext_refl]).
    + split; [exact K1|]. split.
      * intros g2 a2 pm2 rest2 Hrun. rewrite set_gen_eq in Hrun. destruct (Nat.eqb g2 g); [discriminate|].
        exact (K2 _ _ _ _ Hrun).
      * intros g2 Hge. rewrite set_gen_eq. destruct (Nat.eqb g2 g); [reflexivity|now apply K3].
    + split; [exact (proj1 (K2 _ _ _ _ Eg))|]. split.
      * intros g2 a2 pm2 rest2 Hrun. rewrite set_gen_eq in Hrun. destruct (Nat.eqb g2 g); [discriminate|].
        exact (K2 _ _ _ _ Hrun).
      * intros g2 Hge. rewrite set_gen_eq. destruct (Nat.eqb g2 g); [reflexivity|now apply K3].
    + split; [exact K1|]. split.
      * intros g2 a2 pm2 rest2 Hrun. rewrite set_gen_eq in Hrun. destruct (Nat.eqb g2 g); [discriminate|].
        exact (K2 _ _ _ _ Hrun).
      * intros g2 Hge. rewrite set_gen_eq. destruct (Nat.eqb g2 g); [reflexivity|now apply K3].
  - (* CacheClear *)
    unfold Kpid; cbn [fst mk heap nobj pmap gens ngen]. split; [|apply heap_ext_refl]. split; [|split; [exact K2|exact K3]].
    intros p o Hgt. discriminate.
  - (* IsRunning *)
    destruct (Nat.leb (nobj s) o) eqn:Ho; [apply Kpid_same; auto|]. apply Nat.leb_gt in Ho.
    destruct (is_running_obj _ _ _ _) as [[r ob'] ru'] eqn:Er.
    pose proof (is_running_obj_pid _ _ _ _ _ _ _ Er) as Hp.
    unfold Kpid; cbn [fst mk heap nobj pmap gens ngen].
    pose proof (heap_ext_upd (heap s) (nobj s) o ob' Ho Hp) as He.
    split; [|exact He]. split; [exact (dict_ok_ext _ _ _ _ _ He K1)|]. split; [|exact K3].
    intros g a pm rest Hrun. destruct (K2 _ _ _ _ Hrun) as [H1 H2].
    split; [exact (dict_ok_ext _ _ _ _ _ He H1)|exact (rest_tok_ext _ _ _ _ _ He H2)].
  - destruct (n <? 0); [apply Kpid_same; auto|].
    destruct (n =? 0); [destruct (pids_sorted _) as [[l low]| |]; apply Kpid_same; auto|]. destruct (_ && _); apply Kpid_same; auto.
Qed.

Lemma Kpid_init : Kpid init.
Proof. split; [intros p o H; discriminate|]. split; [intros g a pm rest H; discriminate|reflexivity]. Qed.

Lemma Kpid_fold valid h : forall s, Kpid s -> Kpid (fold_left (fun s e => fst (step valid s e)) h s).
Proof. induction h as [|e h IH]; intros s K; [exact K|]. cbn [fold_left]. apply IH. apply (Kstep valid s e K). Qed.

Theorem Kpid_final valid h : Kpid (final valid h).
Proof. apply Kpid_fold. apply Kpid_init. Qed.


(* ================================================================================ *)
(* b70d950: once an object carries the 'PID reused' flag, no generator ever yields it. *)
Definition flag_ok (x : nat) (hp : nat -> obj) (n : nat) : Prop := (x < n)%nat /\ o_reused (hp x) = true.

Lemma is_running_obj_flag t ru pid ob r ob' ru' :
  is_running_obj t ru pid ob = (r, ob', ru') -> o_reused ob = true -> o_reused ob' = true.
Proof.
  unfold is_running_obj. destruct (o_gone ob || o_reused ob); [intros H; now inversion H|].
  destruct (find_proc t pid) as [k|]; [|intros H; inversion H; subst; auto].
  destruct (k_start k =? o_start ob); intros H; inversion H; subst; auto.
Qed.

Lemma as_dict_flag t valid ru pid ob l r ob' ru' :
  as_dict t valid ru pid ob l = (r, ob', ru') -> o_reused ob = true -> o_reused ob' = true.
Proof.
  unfold as_dict. destruct (zmem BADTYPE l); [intros H; now inversion H|].
  destruct (existsb _ _); [intros H; now inversion H|].
  destruct (zmem PPID _).
  - destruct (explicit_ni l); [intros H; now inversion H|].
    destruct (o_gone ob || o_reused ob); [intros H; now inversion H|].
    destruct (_ && negb (alive t pid)); [intros H; now inversion H|].
    destruct (is_running_obj t ru pid ob) as [[r1 ob1] ru1] eqn:E.
    pose proof (is_running_obj_flag _ _ _ _ _ _ _ E) as Hf.
    destruct r1; intros H; inversion H; subst; exact Hf.
  - destruct (_ && negb (alive t pid)); [intros H; now inversion H|].
    destruct (explicit_ni l); intros H; now inversion H.
Qed.

Lemma flag_upd x hp n o ob2 :
  flag_ok x hp n -> (o_reused (hp o) = true -> o_reused ob2 = true) -> flag_ok x (upd_heap hp o ob2) n.
Proof.
  intros [Hx Hf] Hm. split; [exact Hx|]. unfold upd_heap. destruct (Nat.eqb x o) eqn:E; [|exact Hf].
  apply Nat.eqb_eq in E. subst o. now apply Hm.
Qed.

Lemma flag_new x hp n ob2 : flag_ok x hp n -> flag_ok x (upd_heap hp n ob2) (S n).
Proof.
  intros [Hx Hf]. split; [lia|]. unfold upd_heap. destruct (Nat.eqb x n) eqn:E; [apply Nat.eqb_eq in E; lia|exact Hf].
Qed.

Lemma loop_flag t valid attrs x0 : forall rest x,
  flag_ok x0 (l_hp x) (l_n x) ->
  let r := gen_loop t valid attrs x rest in
  flag_ok x0 (l_hp (lres_state r)) (l_n (lres_state r)) /\
  match r with LYield _ _ _ o _ => o <> x0 | _ => True end.
Proof.
  induction rest as [|[pid po] rest IH]; intros x Hf.
  - cbn. split; [exact Hf|exact I].
  - cbn [gen_loop].
    destruct (match po with Some o => if o_reused (l_hp x o) then None else Some o | None => None end) as [o|] eqn:Ecached.
    + assert (Hnf : o_reused (l_hp x o) = false).
      { destruct po as [o'|]; [|discriminate]. destruct (o_reused (l_hp x o')) eqn:E; [discriminate|]. inversion Ecached; subst. exact E. }
      assert (Hox : o <> x0) by (intros ->; destruct Hf as [_ Hf]; congruence).
      destruct attrs as [l|]; [|cbn [lres_state]; split; [exact Hf|exact Hox]].
      destruct (as_dict t valid (l_ru x) pid (l_hp x o) l) as [[r ob'] ru'] eqn:Ead.
      pose proof (as_dict_flag _ _ _ _ _ _ _ _ _ Ead) as Hm.
      destruct r as [keys|e|].
      * cbn [lres_state l_hp l_n]. split; [|exact Hox]. apply flag_upd; [exact Hf|]. intros H. cbn. now apply Hm.
      * assert (Hf' : flag_ok x0 (upd_heap (l_hp x) o ob') (l_n x)) by (apply flag_upd; [exact Hf|exact Hm]).
        destruct e; [|cbn [lres_state l_hp l_n]; split; [exact Hf'|exact I] ..].
        apply (IH {| l_pm := ddel pid (l_pm x); l_hp := upd_heap (l_hp x) o ob'; l_n := l_n x; l_ru := ru' |}). exact Hf'.
      * cbn [lres_state]. split; [exact Hf|exact I].
    + destruct (find_proc t pid) as [k|]; [|apply (IH {| l_pm := ddel pid (l_pm x); l_hp := l_hp x; l_n := l_n x; l_ru := l_ru x |}); exact Hf].
      pose proof (flag_new x0 (l_hp x) (l_n x) (new_obj pid (k_start k)) Hf) as Hf1.
      assert (Hnx : l_n x <> x0) by (destruct Hf; lia).
      destruct attrs as [l|]; [|cbn [lres_state l_hp l_n]; split; [exact Hf1|exact Hnx]].
      cbn [l_ru l_hp l_n l_pm].
      destruct (as_dict t valid (l_ru x) pid _ l) as [[r ob'] ru'] eqn:Ead.
      pose proof (as_dict_flag _ _ _ _ _ _ _ _ _ Ead) as Hm.
      destruct r as [keys|e|].
      * cbn [lres_state l_hp l_n]. split; [|exact Hnx]. apply flag_upd; [exact Hf1|]. intros H. cbn. now apply Hm.
      * assert (Hf' : flag_ok x0 (upd_heap (upd_heap (l_hp x) (l_n x) (new_obj pid (k_start k))) (l_n x) ob') (S (l_n x)))
          by (apply flag_upd; [exact Hf1|exact Hm]).
        destruct e; [|cbn [lres_state l_hp l_n]; split; [exact Hf'|exact I] ..].
        apply (IH {| l_pm := ddel pid (dset pid (l_n x) (l_pm x));
                     l_hp := upd_heap (upd_heap (l_hp x) (l_n x) (new_obj pid (k_start k))) (l_n x) ob';
                     l_n := S (l_n x); l_ru := ru' |}). exact Hf'.
      * cbn [lres_state l_hp l_n]. split; [exact Hf1|exact I].
Qed.

Lemma run_loop_flag valid x0 s g a pm rest :
  flag_ok x0 (heap s) (nobj s) ->
  flag_ok x0 (heap (fst (run_loop valid s g a pm rest))) (nobj (fst (run_loop valid s g a pm rest))) /\
  forall p i, snd (run_loop valid s g a pm rest) <> OYield p x0 i.
Proof.
  intros Hf.
  pose proof (run_loop_facts valid s g a pm rest) as F. cbn zeta in F.
  pose proof (loop_flag (tbl s) valid a x0 rest {| l_pm := pm; l_hp := heap s; l_n := nobj s; l_ru := reused s |} Hf) as L.
  cbn zeta in L. destruct F as [_ [Fh [Fn [_ [_ Fm]]]]]. destruct L as [L1 L2]. rewrite Fh, Fn. split; [exact L1|].
  destruct (gen_loop _ _ _ _ _) as [x1 rest1 p ob i|x1|x1 e|x1]; destruct Fm as [_ [_ Fo]]; rewrite Fo;
    intros p' i' H; try discriminate. injection H as _ H _. congruence.
Qed.

Lemma Fstep valid x0 s e :
  flag_ok x0 (heap s) (nobj s) ->
  flag_ok x0 (heap (fst (step valid s e))) (nobj (fst (step valid s e))) /\
  forall g p i, e = IterNext g -> snd (step valid s e) <> OYield p x0 i.
Proof.
  intros Hf. destruct e; cbn [step]; try (split; [|intros; discriminate]).
  - destruct (_ && _); exact Hf.
  - exact Hf.
  - exact Hf.
  - destruct (_ && _); exact Hf.
  - exact Hf.
  - destruct (pids_sorted _) as [[l low]| |]; exact Hf.
  - destruct (n <? 0); [exact Hf|]. destruct (n =? 0); [|exact Hf]. destruct (pids_sorted _) as [[l low]| |]; exact Hf.
  - exact Hf.
  - destruct (Nat.leb (ngen s) g); [split; [exact Hf|intros; discriminate]|].
    destruct (gens s g) as [a|a pm rest|]; [| |split; [exact Hf|intros; discriminate]].
    + destruct (gen_start _ _ _) as [[[pm ls] low]|e|]; [|split; [exact Hf|intros; discriminate] ..].
      destruct (run_loop_flag valid x0 (mk s (tbl s) (pmap s) [] (Some low) (heap s) (nobj s) (gens s) (ngen s)) g a pm ls Hf) as [H1 H2].
      split; [exact H1|]. intros g0 p i _. apply H2.
    + destruct (run_loop_flag valid x0 s g a pm rest Hf) as [H1 H2]. split; [exact H1|]. intros g0 p i _. apply H2.
  - destruct (Nat.leb (ngen s) g); [exact Hf|]. destruct (gens s g); exact Hf.
  - exact Hf.
  - destruct (Nat.leb (nobj s) o); [exact Hf|].
    destruct (is_running_obj _ _ _ _) as [[r ob'] ru'] eqn:Er. cbn [fst mk heap nobj].
    apply flag_upd; [exact Hf|]. exact (is_running_obj_flag _ _ _ _ _ _ _ Er).
  - destruct (n <? 0); [exact Hf|]. destruct (n =? 0); [destruct (pids_sorted _) as [[l low]| |]; exact Hf|]. destruct (_ && _); exact Hf.
Qed.

Definition runs (valid : list Z) (s : st) (h : list ev) : st := fold_left (fun s e => fst (step valid s e)) h s.

Lemma flag_runs valid x0 h : forall s, flag_ok x0 (heap s) (nobj s) -> flag_ok x0 (heap (runs valid s h)) (nobj (runs valid s h)).
Proof.
  induction h as [|e h IH]; intros s Hf; [exact Hf|]. cbn [runs fold_left]. apply IH. apply (Fstep valid x0 s e Hf).
Qed.

(* an object that carries the 'PID reused' flag is never yielded, by any generator, in any continuation *)
Theorem flagged_never_yielded valid x s h g p i :
  (x < nobj s)%nat -> o_reused (heap s x) = true ->
  snd (step valid (runs valid s h) (IterNext g)) <> OYield p x i.
Proof.
  intros Hx Hf. pose proof (flag_runs valid x h s (conj Hx Hf)) as H.
  exact (proj2 (Fstep valid x _ (IterNext g) H) g p i eq_refl).
Qed.

(* After is_running() on object x returned False because its PID now belongs to a process with another
   start time, x is never yielded again: not by generators entered later, not by generators that were
   suspended at that moment, whatever the interleaving. *)
Theorem found_recycled_never_again valid h0 x h1 g p i :
  let s0 := final valid h0 in
  (x < nobj s0)%nat -> o_gone (heap s0 x) = false -> o_reused (heap s0 x) = false ->
  (exists k, find_proc (tbl s0) (o_pid (heap s0 x)) = Some k /\ k_start k <> o_start (heap s0 x)) ->
  let s1 := fst (step valid s0 (IsRunning x)) in
  snd (step valid s0 (IsRunning x)) = OBool false /\
  In (o_pid (heap s0 x)) (reused s1) /\
  snd (step valid (runs valid s1 h1) (IterNext g)) <> OYield p x i.
Proof.
  intros s0 Hx Hg Hr [k [Hf Hne]] s1.
  assert (Hl : Nat.leb (nobj s0) x = false) by (apply Nat.leb_gt; exact Hx).
  apply Z.eqb_neq in Hne.
  assert (E : step valid s0 (IsRunning x) =
              (mk s0 (tbl s0) (pmap s0) (set_add (o_pid (heap s0 x)) (reused s0)) (lowest s0)
                  (upd_heap (heap s0) x (set_flags (heap s0 x) true true)) (nobj s0) (gens s0) (ngen s0), OBool false)).
  { cbn [step]. rewrite Hl. unfold is_running_obj. rewrite Hg, Hr, Hf. cbn [orb]. rewrite Hne. reflexivity. }
  subst s1. rewrite E. cbn [fst snd]. split; [reflexivity|]. split.
  - cbn [mk reused]. unfold set_add. destruct (zmem _ (reused s0)) eqn:M; [now apply zmem_In|now left].
  - apply flagged_never_yielded; cbn [mk nobj heap]; [exact Hx|].
    unfold upd_heap. rewrite Nat.eqb_refl. reflexivity.
Qed.

Example found_recycled_ex :
  let s0 := final [0; 1; 2] [Spawn 5 100; Spawn 9 100; IterNew None; IterNext 0; IterNext 0; IterNext 0; Reap 5; Spawn 5 200] in
  Nat.ltb 0 (nobj s0) = true /\ o_gone (heap s0 0%nat) = false /\ o_reused (heap s0 0%nat) = false /\
  option_map k_start (find_proc (tbl s0) (o_pid (heap s0 0%nat))) = Some 200 /\ o_start (heap s0 0%nat) = 100.
Proof. vm_compute. repeat split. Qed.

(* ================================================================================ *)
(* Which object a resumption yields: the cached one exactly when it does not carry the reused flag. *)
Definition visit_ok (hp : nat -> obj) (n : nat) (po : option nat) (o : nat) : Prop :=
  match po with
  | Some o' => if o_reused (hp o') then (n <= o)%nat else o = o'
  | None => (n <= o)%nat
  end.

Lemma visit_ok_ext hp n hp' n' rest p po o :
  rest_tok hp n rest -> In (p, po) rest -> (n <= n')%nat ->
  (forall o', (o' < n)%nat -> (forall q, In (q, Some o') rest -> True) ->
     In (p, Some o') rest -> o_reused (hp' o') = o_reused (hp o')) ->
  visit_ok hp' n' po o -> visit_ok hp n po o.
Proof.
  intros Hr Hin Hn Hfl H. destruct po as [o'|]; cbn [visit_ok] in *; [|lia].
  destruct (Hr p o' Hin) as [Ho' _]. rewrite (Hfl o' Ho' (fun _ _ => I) Hin) in H.
  destruct (o_reused (hp o')); [lia|exact H].
Qed.

Lemma loop_exact t valid attrs : forall rest x,
  rest_tok (l_hp x) (l_n x) rest -> NoDup (map fst rest) ->
  match gen_loop t valid attrs x rest with
  | LYield _ _ p o _ => exists po, In (p, po) rest /\ visit_ok (l_hp x) (l_n x) po o
  | _ => True
  end.
Proof.
  induction rest as [|[pid po] rest IH]; intros x Hr Hnd; [exact I|].
  cbn [gen_loop].
  assert (Hr' : rest_tok (l_hp x) (l_n x) rest) by (intros p o Hin; apply Hr; now right).
  cbn [map fst] in Hnd. inversion Hnd as [|? ? Hni Hnd']; subst.
  (* what the tail's answer means for the whole list, when the heap changed only at [oc] or beyond the counter *)
  assert (Hlift : forall x2,
            heap_ext (l_hp x) (l_n x) (l_hp x2) (l_n x2) ->
            (forall o', (o' < l_n x)%nat -> o_pid (l_hp x o') <> pid -> o_reused (l_hp x2 o') = o_reused (l_hp x o')) ->
            match gen_loop t valid attrs x2 rest with
            | LYield _ _ p o _ => exists po0, In (p, po0) rest /\ visit_ok (l_hp x2) (l_n x2) po0 o
            | _ => True end ->
            match gen_loop t valid attrs x2 rest with
            | LYield _ _ p o _ => exists po0, In (p, po0) ((pid, po) :: rest) /\ visit_ok (l_hp x) (l_n x) po0 o
            | _ => True end).
  { intros x2 He Hfl H. destruct (gen_loop t valid attrs x2 rest) as [x' rest' p o i| | |]; try exact I.
    destruct H as [po0 [Hin Hv]]. exists po0. split; [now right|].
    destruct po0 as [o'|]; cbn [visit_ok] in *; [|destruct He; lia].
    destruct (Hr' p o' Hin) as [Ho' Hp'].
    assert (Hne : o_pid (l_hp x o') <> pid).
    { rewrite Hp'. intros ->. apply Hni. apply in_map_iff. exists (pid, Some o'). now split. }
    rewrite (Hfl o' Ho' Hne) in Hv. destruct (o_reused (l_hp x o')); [destruct He; lia|exact Hv]. }
  destruct (match po with Some o => if o_reused (l_hp x o) then None else Some o | None => None end) as [o|] eqn:Ecached.
  - assert (Epo : po = Some o /\ o_reused (l_hp x o) = false).
    { destruct po as [o'|]; [|discriminate]. destruct (o_reused (l_hp x o')) eqn:E; [discriminate|]. inversion Ecached; subst. now split. }
    destruct Epo as [-> Hnf]. destruct (Hr pid o (or_introl eq_refl)) as [Ho Hp].
    assert (Hhere : exists po0, In (pid, po0) ((pid, Some o) :: rest) /\ visit_ok (l_hp x) (l_n x) po0 o).
    { exists (Some o). split; [now left|]. cbn [visit_ok]. now rewrite Hnf. }
    destruct attrs as [l|]; [|exact Hhere].
    destruct (as_dict t valid (l_ru x) pid (l_hp x o) l) as [[r ob'] ru'] eqn:Ead.
    destruct r as [keys|e|]; [exact Hhere| |exact I].
    destruct e; try exact I.
    pose proof (as_dict_pid _ _ _ _ _ _ _ _ _ Ead) as Hpid.
    set (x2 := {| l_pm := ddel pid (l_pm x); l_hp := upd_heap (l_hp x) o ob'; l_n := l_n x; l_ru := ru' |}).
    assert (He : heap_ext (l_hp x) (l_n x) (l_hp x2) (l_n x2)) by (unfold x2; cbn [l_hp l_n]; apply heap_ext_upd; [exact Ho|exact Hpid]).
    apply (Hlift x2 He).
    + intros o' Ho' Hne. cbn [x2 l_hp]. unfold upd_heap. destruct (Nat.eqb o' o) eqn:E; [|reflexivity].
      apply Nat.eqb_eq in E. subst o'. congruence.
    + apply IH; [exact (rest_tok_ext _ _ _ _ _ He Hr')|exact Hnd'].
  - destruct (find_proc t pid) as [k|].
    + set (hp1 := upd_heap (l_hp x) (l_n x) (new_obj pid (k_start k))).
      assert (Hhere : exists po0, In (pid, po0) ((pid, po) :: rest) /\ visit_ok (l_hp x) (l_n x) po0 (l_n x)).
      { exists po. split; [now left|]. destruct po as [o'|]; cbn [visit_ok]; [|lia].
        destruct (o_reused (l_hp x o')); [lia|discriminate]. }
      destruct attrs as [l|]; [|exact Hhere].
      cbn [l_ru l_hp l_n l_pm].
      destruct (as_dict t valid (l_ru x) pid (hp1 (l_n x)) l) as [[r ob'] ru'] eqn:Ead.
      destruct r as [keys|e|]; [exact Hhere| |exact I].
      destruct e; try exact I.
      pose proof (as_dict_pid _ _ _ _ _ _ _ _ _ Ead) as Hpid.
      set (x2 := {| l_pm := ddel pid (dset pid (l_n x) (l_pm x)); l_hp := upd_heap hp1 (l_n x) ob'; l_n := S (l_n x); l_ru := ru' |}).
      assert (He0 : heap_ext (l_hp x) (l_n x) hp1 (S (l_n x))) by apply heap_ext_new.
      assert (He1 : heap_ext hp1 (S (l_n x)) (l_hp x2) (l_n x2)) by (unfold x2; cbn [l_hp l_n]; apply heap_ext_upd; [lia|exact Hpid]).
      pose proof (heap_ext_trans _ _ _ _ _ _ He0 He1) as He.
      apply (Hlift x2 He).
      * intros o' Ho' Hne. cbn [x2 l_hp]. unfold upd_heap, hp1, upd_heap.
        assert (Nat.eqb o' (l_n x) = false) as -> by (apply Nat.eqb_neq; lia). reflexivity.
      * apply IH; [exact (rest_tok_ext _ _ _ _ _ He Hr')|exact Hnd'].
    + set (x2 := {| l_pm := ddel pid (l_pm x); l_hp := l_hp x; l_n := l_n x; l_ru := l_ru x |}).
      apply (Hlift x2 (heap_ext_refl _ _)); [intros; reflexivity|]. apply IH; [exact Hr'|exact Hnd'].
Qed.

(* ================================================================================ *)
(* An object stays without the reused flag as long as the table shows its PID with its start time. *)
Definition kept (x0 : nat) (p0 st0 : Z) (hp : nat -> obj) (n : nat) : Prop :=
  (x0 < n)%nat /\ o_pid (hp x0) = p0 /\ o_start (hp x0) = st0 /\ o_reused (hp x0) = false.

Lemma is_running_keep t ru pid ob r ob' ru' k :
  is_running_obj t ru pid ob = (r, ob', ru') -> find_proc t pid = Some k -> k_start k = o_start ob ->
  o_reused ob = false -> o_pid ob' = o_pid ob /\ o_start ob' = o_start ob /\ o_reused ob' = false.
Proof.
  unfold is_running_obj. intros H Hf Hs Hr. rewrite Hf, Hs, Z.eqb_refl in H.
  destruct (o_gone ob || o_reused ob); inversion H; subst; auto.
Qed.

Lemma as_dict_keep t valid ru pid ob l r ob' ru' k :
  as_dict t valid ru pid ob l = (r, ob', ru') -> find_proc t pid = Some k -> k_start k = o_start ob ->
  o_reused ob = false -> o_pid ob' = o_pid ob /\ o_start ob' = o_start ob /\ o_reused ob' = false.
Proof.
  unfold as_dict. intros H Hf Hs Hr. destruct (zmem BADTYPE l); [inversion H; subst; auto|].
  destruct (existsb _ _); [inversion H; subst; auto|].
  destruct (zmem PPID _).
  - destruct (explicit_ni l); [inversion H; subst; auto|].
    destruct (o_gone ob || o_reused ob); [inversion H; subst; auto|].
    destruct (_ && negb (alive t pid)); [inversion H; subst; auto|].
    destruct (is_running_obj t ru pid ob) as [[r1 ob1] ru1] eqn:E.
    pose proof (is_running_keep _ _ _ _ _ _ _ _ E Hf Hs Hr) as K.
    destruct r1; inversion H; subst; exact K.
  - destruct (_ && negb (alive t pid)); [inversion H; subst; auto|].
    destruct (explicit_ni l); inversion H; subst; auto.
Qed.

Lemma kept_upd x0 p0 st0 hp n o ob2 :
  kept x0 p0 st0 hp n ->
  (o = x0 -> o_pid ob2 = p0 /\ o_start ob2 = st0 /\ o_reused ob2 = false) ->
  kept x0 p0 st0 (upd_heap hp o ob2) n.
Proof.
  intros [Hx [H1 [H2 H3]]] Ho. unfold kept, upd_heap. destruct (Nat.eqb x0 o) eqn:E.
  - apply Nat.eqb_eq in E. symmetry in E. destruct (Ho E) as [A [B C]]. auto.
  - auto.
Qed.

Lemma kept_new x0 p0 st0 hp n ob2 : kept x0 p0 st0 hp n -> kept x0 p0 st0 (upd_heap hp n ob2) (S n).
Proof.
  intros [Hx [H1 [H2 H3]]]. unfold kept, upd_heap.
  assert (Nat.eqb x0 n = false) as -> by (apply Nat.eqb_neq; lia). repeat split; auto.
Qed.

Lemma loop_keep t valid attrs x0 p0 st0 k :
  find_proc t p0 = Some k -> k_start k = st0 ->
  forall rest x, rest_tok (l_hp x) (l_n x) rest -> kept x0 p0 st0 (l_hp x) (l_n x) ->
  kept x0 p0 st0 (l_hp (lres_state (gen_loop t valid attrs x rest))) (l_n (lres_state (gen_loop t valid attrs x rest))).
Proof.
  intros Hf Hs. induction rest as [|[pid po] rest IH]; intros x Hr Hk; [exact Hk|].
  cbn [gen_loop].
  assert (Hr' : rest_tok (l_hp x) (l_n x) rest) by (intros p o Hin; apply Hr; now right).
  destruct (match po with Some o => if o_reused (l_hp x o) then None else Some o | None => None end) as [o|] eqn:Ecached.
  - assert (Epo : po = Some o).
    { destruct po as [o'|]; [|discriminate]. destruct (o_reused (l_hp x o')); [discriminate|]. now inversion Ecached. }
    subst po. destruct (Hr pid o (or_introl eq_refl)) as [Ho Hp].
    destruct attrs as [l|]; [|exact Hk].
    destruct (as_dict t valid (l_ru x) pid (l_hp x o) l) as [[r ob'] ru'] eqn:Ead.
    pose proof (as_dict_pid _ _ _ _ _ _ _ _ _ Ead) as Hpid.
    assert (Hown : o = x0 -> o_pid ob' = p0 /\ o_start ob' = st0 /\ o_reused ob' = false).
    { intros ->. destruct Hk as [_ [K1 [K2 K3]]].
      assert (Epid : pid = p0) by congruence. rewrite Epid in Ead.
      destruct (as_dict_keep _ _ _ _ _ _ _ _ _ _ Ead Hf ltac:(congruence) K3) as [A [B C]].
      repeat split; congruence. }
    assert (He : heap_ext (l_hp x) (l_n x) (upd_heap (l_hp x) o ob') (l_n x)) by (apply heap_ext_upd; [exact Ho|exact Hpid]).
    destruct r as [keys|e|]; [| |exact Hk].
    + cbn [lres_state l_hp l_n]. apply kept_upd; [exact Hk|]. intros E. cbn [set_info o_pid o_start o_reused]. now apply Hown.
    + destruct e; try (cbn [lres_state l_hp l_n]; apply kept_upd; [exact Hk|exact Hown]).
      apply (IH {| l_pm := ddel pid (l_pm x); l_hp := upd_heap (l_hp x) o ob'; l_n := l_n x; l_ru := ru' |}).
      * exact (rest_tok_ext _ _ _ _ _ He Hr').
      * apply kept_upd; [exact Hk|exact Hown].
  - destruct (find_proc t pid) as [k1|].
    + pose proof (kept_new x0 p0 st0 (l_hp x) (l_n x) (new_obj pid (k_start k1)) Hk) as Hk1.
      set (hp1 := upd_heap (l_hp x) (l_n x) (new_obj pid (k_start k1))) in *.
      assert (He0 : heap_ext (l_hp x) (l_n x) hp1 (S (l_n x))) by apply heap_ext_new.
      destruct attrs as [l|]; [|exact Hk1].
      cbn [l_ru l_hp l_n l_pm].
      destruct (as_dict t valid (l_ru x) pid (hp1 (l_n x)) l) as [[r ob'] ru'] eqn:Ead.
      pose proof (as_dict_pid _ _ _ _ _ _ _ _ _ Ead) as Hpid.
      assert (Hown : l_n x = x0 -> o_pid ob' = p0 /\ o_start ob' = st0 /\ o_reused ob' = false).
      { intros E. destruct Hk as [Hx _]. lia. }
      assert (He1 : heap_ext hp1 (S (l_n x)) (upd_heap hp1 (l_n x) ob') (S (l_n x))) by (apply heap_ext_upd; [lia|exact Hpid]).
      destruct r as [keys|e|]; [| |exact Hk1].
      * cbn [lres_state l_hp l_n]. apply kept_upd; [exact Hk1|]. intros E. destruct Hk as [Hx _]. lia.
      * destruct e; try (cbn [lres_state l_hp l_n]; apply kept_upd; [exact Hk1|exact Hown]).
        apply (IH {| l_pm := ddel pid (dset pid (l_n x) (l_pm x)); l_hp := upd_heap hp1 (l_n x) ob'; l_n := S (l_n x); l_ru := ru' |}).
        -- exact (rest_tok_ext _ _ _ _ _ (heap_ext_trans _ _ _ _ _ _ He0 He1) Hr').
        -- apply kept_upd; [exact Hk1|exact Hown].
    + apply (IH {| l_pm := ddel pid (l_pm x); l_hp := l_hp x; l_n := l_n x; l_ru := l_ru x |}); [exact Hr'|exact Hk].
Qed.

Lemma run_loop_keep valid x0 p0 st0 k s g a pm rest :
  find_proc (tbl s) p0 = Some k -> k_start k = st0 ->
  rest_tok (heap s) (nobj s) rest -> kept x0 p0 st0 (heap s) (nobj s) ->
  kept x0 p0 st0 (heap (fst (run_loop valid s g a pm rest))) (nobj (fst (run_loop valid s g a pm rest))).
Proof.
  intros Hf Hs Hr Hk.
  pose proof (run_loop_facts valid s g a pm rest) as F. cbn zeta in F. destruct F as [_ [Fh [Fn _]]].
  rewrite Fh, Fn.
  exact (loop_keep (tbl s) valid a x0 p0 st0 k Hf Hs rest {| l_pm := pm; l_hp := heap s; l_n := nobj s; l_ru := reused s |} Hr Hk).
Qed.

(* one event, any event: if the table shows p0 with start st0 before it, object x0 keeps its clean state *)
Lemma keep_step valid x0 p0 st0 k s e :
  Kpid s -> find_proc (tbl s) p0 = Some k -> k_start k = st0 ->
  kept x0 p0 st0 (heap s) (nobj s) ->
  kept x0 p0 st0 (heap (fst (step valid s e))) (nobj (fst (step valid s e))).
Proof.
  intros [K1 [K2 K3]] Hf Hs Hk. destruct e; cbn [step].
  - destruct (_ && _); exact Hk.
  - exact Hk.
  - exact Hk.
  - destruct (_ && _); exact Hk.
  - exact Hk.
  - destruct (pids_sorted _) as [[l low]| |]; exact Hk.
  - destruct (n <? 0); [exact Hk|]. destruct (n =? 0); [|exact Hk]. destruct (pids_sorted _) as [[l low]| |]; exact Hk.
  - exact Hk.
  - destruct (Nat.leb (ngen s) g); [exact Hk|].
    destruct (gens s g) as [a|a pm rest|] eqn:Eg; [| |exact Hk].
    + destruct (gen_start _ _ _) as [[[pm ls] low]|e|] eqn:Es; [|exact Hk|exact Hk].
      destruct (gen_start_sub _ _ _ _ _ _ Es) as [S1 S2].
      apply (run_loop_keep valid x0 p0 st0 k (mk s (tbl s) (pmap s) [] (Some low) (heap s) (nobj s) (gens s) (ngen s)));
        [exact Hf|exact Hs| |exact Hk].
      intros p o Hin. apply K1. apply S1. now apply S2.
    + apply (run_loop_keep valid x0 p0 st0 k s); [exact Hf|exact Hs|exact (proj2 (K2 _ _ _ _ Eg))|exact Hk].
  - destruct (Nat.leb (ngen s) g); [exact Hk|]. destruct (gens s g); exact Hk.
  - exact Hk.
  - destruct (Nat.leb (nobj s) o) eqn:Ho; [exact Hk|].
    destruct (is_running_obj _ _ _ _) as [[r ob'] ru'] eqn:Er. cbn [fst mk heap nobj].
    apply kept_upd; [exact Hk|]. intros ->. destruct Hk as [_ [A [B C]]].
    rewrite A in Er. destruct (is_running_keep _ _ _ _ _ _ _ _ Er Hf ltac:(congruence) C) as [P [Q R]].
    repeat split; congruence.
  - destruct (n <? 0); [exact Hk|]. destruct (n =? 0); [destruct (pids_sorted _) as [[l low]| |]; exact Hk|]. destruct (_ && _); exact Hk.
Qed.
