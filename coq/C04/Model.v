(* C04 -- model of psutil.pids(), psutil.pid_exists(), psutil.process_iter()
   (+ cache_clear, _pmap, _pids_reused, _LOWEST_PID) and of Process.is_running()
   as far as it feeds _pids_reused.  Transcribed from
     psutil/__init__.py   pids() 1451-1456, pid_exists() 1459-1474, process_iter() 1477-1536,
                          Process._init 318-363, as_dict 548-593, is_running 621-648
     psutil/_pslinux.py   pids() 1577-1580, pid_exists() 1583-1613
     psutil/_psposix.py   pid_exists() 27-47
   No proofs here. *)
From PV Require Export Base.Prelude Base.Bytes Base.Dec C04.Lib.

(* ===================================================================== *)
(* Layer A: the text level (directory names, /proc/<pid>/status)          *)
(* ===================================================================== *)

(* _pslinux.pids():  [int(x) for x in os.listdir(b"/proc") if x.isdigit()]
   bytes.isdigit() = non-empty and ASCII digits only = is_dec *)
Definition plat_pids (names : list bytes) : outcome (list Z) :=
  mapM py_int (filter is_dec names).

(* psutil.pids(): ret = sorted(...); _LOWEST_PID = ret[0]; returns (ret, ret[0]) *)
Definition pids_sorted (l : list Z) : outcome (list Z * Z) :=
  match zsort l with
  | [] => Exc IndexError
  | low :: r => Val (low :: r, low)
  end.

Definition pids_text (names : list bytes) : outcome (list Z * Z) :=
  do l <- plat_pids names; pids_sorted l.

(* the loop of _pslinux.pid_exists over the lines of the status file *)
Fixpoint tgid_scan (lines : list bytes) : outcome Z :=
  match lines with
  | [] => Exc ValueError                          (* 'Tgid' line not found *)
  | ln :: r =>
    if prefixb (bs "Tgid:") ln then
      match split_ws ln with
      | _ :: tok :: _ => py_int tok               (* int(line.split()[1]) *)
      | _ => Exc IndexError
      end
    else tgid_scan r
  end.
Definition status_tgid (content : bytes) : outcome Z := tgid_scan (lines_keep content).

(* what os.kill(pid, 0) did *)
Inductive killres := KOk | KEsrch | KEperm | KOverflow.

(* _pslinux.pid_exists(pid) for pid > 0; [status] = None when opening
   /proc/<pid>/status raises OSError; [names] = os.listdir of the procfs root
   (used by the fallback 'pid in pids()') *)
Definition pid_exists_linux (pid : Z) (k : killres) (status : option bytes) (names : list bytes)
  : outcome bool :=
  (* 'pid in pids()' inside _pslinux is the platform pids(): unsorted, no _LOWEST_PID, no IndexError *)
  let fallback := do l <- plat_pids names; Val (zmem pid l) in
  match k with
  | KEsrch | KOverflow => Val false               (* _psposix.pid_exists -> False *)
  | KOk | KEperm =>
    match status with
    | None => fallback
    | Some c =>
      match status_tgid c with
      | Val tg => Val (tg =? pid)
      | Exc ValueError => fallback
      | Exc e => Exc e
      | OutOfModel => OutOfModel
      end
    end
  end.

(* ===================================================================== *)
(* Layer B: the process-table machine                                     *)
(* ===================================================================== *)

Definition PIDMAX : Z := 2147483647.          (* largest pid_t; os.kill raises OverflowError above *)

(* the kernel's process table *)
Record kproc := { k_pid : Z; k_start : Z; k_zombie : bool; k_tids : list Z }.

Definition find_proc (t : list kproc) (p : Z) : option kproc := find (fun k => k_pid k =? p) t.
Definition alive (t : list kproc) (p : Z) : bool :=
  match find_proc t p with Some _ => true | None => false end.
Definition listing (t : list kproc) : list Z := map k_pid t.   (* numeric entries of the procfs root *)

(* which thread group owns task id n (os.kill and /proc/<n>/status accept TIDs) *)
Definition task_tgid (t : list kproc) (n : Z) : option Z :=
  option_map k_pid (find (fun k => (k_pid k =? n) || zmem n (k_tids k)) t).
Definition id_free (t : list kproc) (n : Z) : bool :=
  match task_tgid t n with Some _ => false | None => true end.

(* _pslinux.pid_exists(n), n > 0, against the table *)
Definition sys_pid_exists (t : list kproc) (n : Z) : bool :=
  if PIDMAX <? n then false                        (* OverflowError -> False *)
  else match task_tgid t n with
       | None => false                             (* ESRCH *)
       | Some tg => tg =? n                        (* Tgid: line of /proc/<n>/status *)
       end.

(* a psutil.Process object, as far as C04 looks at it.  o_start = the start
   ticks in _ident; o_info = keys of the .info dict if one was attached *)
Record obj := { o_pid : Z; o_start : Z; o_gone : bool; o_reused : bool; o_info : option (list Z) }.

Definition set_flags (ob : obj) (g r : bool) : obj :=
  {| o_pid := o_pid ob; o_start := o_start ob; o_gone := g; o_reused := r; o_info := o_info ob |}.
Definition set_info (ob : obj) (i : option (list Z)) : obj :=
  {| o_pid := o_pid ob; o_start := o_start ob; o_gone := o_gone ob; o_reused := o_reused ob; o_info := i |}.
Definition new_obj (pid start : Z) : obj :=
  {| o_pid := pid; o_start := start; o_gone := false; o_reused := false; o_info := None |}.

Definition set_add (x : Z) (l : list Z) : list Z := if zmem x l then l else x :: l.

(* Process.is_running(): answer, the object afterwards, _pids_reused afterwards.
   [pid] is self.pid: o_pid of the object for the IsRunning event, the cache key inside
   process_iter() -- the same number, because cache entries are only ever made by
   'proc = Process(pid); pmap[proc.pid] = proc'. *)
Definition is_running_obj (t : list kproc) (ru : list Z) (pid : Z) (ob : obj) : bool * obj * list Z :=
  if o_gone ob || o_reused ob then (false, ob, ru)
  else
    match find_proc t pid with
    | None => (false, set_flags ob true (o_reused ob), ru)      (* Process(pid) raises NoSuchProcess: _gone = True *)
    | Some k =>
      if k_start k =? o_start ob then (true, ob, ru)            (* self == Process(self.pid) *)
      else (false, set_flags ob true true, set_add pid ru)       (* _pid_reused; _pids_reused.add(pid); _gone *)
    end.

(* attribute names are integer codes: 0 = 'pid' (never consults the OS), 2 = 'ppid'
   (Process.ppid() first calls _raise_if_pid_reused(), hence is_running()); the
   members of [valid] are psutil._as_dict_attrnames; any other code is an invalid name.
   Codes >= 1000 stand for names whose platform method raises NotImplementedError on the running
   system (the kernel lacks an optional record: e.g. num_ctx_switches when /proc/<pid>/status has no
   *_ctxt_switches lines) -- which members of [valid] these are is arbitrary.
   The code -1 inside the list stands for: the attrs argument is not a list / tuple / set / frozenset
   (a generator, an iterator, a dict, a dict view, a str ...). *)
Definition attrs_t := option (list Z).
Definition PPID : Z := 2.
Definition BADTYPE : Z := -1.
Definition unimpl (a : Z) : bool := 1000 <=? a.
(* 'if attrs: raise' -- a non-empty attrs names an unimplemented attribute *)
Definition explicit_ni (l : list Z) : bool :=
  match nodup Z.eq_dec l with [] => false | _ => existsb unimpl (nodup Z.eq_dec l) end.

(* Process.as_dict(attrs=l) of object [ob] whose pid is [pid]: the keys of the returned dict (ascending).
   TypeError when attrs is of an unsupported type; ValueError for an invalid name; NoSuchProcess when a
   name other than 'pid' is fetched and the pid is not in the table, or when 'ppid' is fetched and the
   object does not denote the process that has the pid now; NotImplementedError of a platform method:
   re-raised when the caller named attributes (attrs non-empty), skipped ('continue': the key is
   left out) when attrs is empty, i.e. all names were asked for.  Also returns the object and
   _pids_reused afterwards.  OutOfModel: the iteration order of the name set decides which of two
   effects happens first (is_running() of ppid vs an exception of another name). *)
Definition as_dict (t : list kproc) (valid : list Z) (ru : list Z) (pid : Z) (ob : obj) (l : list Z)
  : outcome (list Z) * obj * list Z :=
  if zmem BADTYPE l then (Exc TypeError, ob, ru) else           (* not isinstance(attrs, (list, tuple, set, frozenset)) *)
  let attrs := nodup Z.eq_dec l in                               (* attrs = set(attrs) *)
  if existsb (fun a => negb (zmem a valid)) attrs then (Exc ValueError, ob, ru)
  else
    let ls := match attrs with [] => valid | _ => attrs end in    (* ls = attrs or valid_names *)
    let keys := zsort (filter (fun a => negb (unimpl a)) ls) in   (* except NotImplementedError: continue *)
    let other_os := existsb (fun a => negb (a =? 0) && negb (a =? PPID)) ls in
    let here := alive t pid in
    if zmem PPID ls then
      if explicit_ni l then (OutOfModel, ob, ru)
      else if o_gone ob || o_reused ob then (Exc NoSuchProcess, ob, ru)   (* _raise_if_pid_reused() *)
      else if other_os && negb here then (OutOfModel, ob, ru)
      else
        let '(r, ob', ru') := is_running_obj t ru pid ob in
        if r then (Val keys, ob', ru') else (Exc NoSuchProcess, ob', ru')
    else if other_os && negb here then (Exc NoSuchProcess, ob, ru)
    else if explicit_ni l then (Exc NotImplementedError, ob, ru)     (* if attrs: raise *)
    else (Val keys, ob, ru).

(* a process_iter() generator *)
Inductive gen :=
| GFresh (attrs : attrs_t)                         (* created, body not entered yet *)
| GRun (attrs : attrs_t) (pm : dict) (rest : list (Z * option nat))   (* suspended at 'yield' *)
| GDone.

Record st := {
  tbl : list kproc;
  pmap : dict;               (* psutil._pmap *)
  reused : list Z;           (* psutil._pids_reused *)
  lowest : option Z;         (* psutil._LOWEST_PID *)
  heap : nat -> obj;         (* every Process object process_iter() created; token = index < nobj *)
  nobj : nat;
  gens : nat -> gen;         (* generators; index < ngen *)
  ngen : nat }.

Definition init : st :=
  {| tbl := []; pmap := []; reused := []; lowest := None; heap := fun _ => new_obj 0 0; nobj := 0;
     gens := fun _ => GDone; ngen := 0 |}.

(* what goes wrong with /proc/<n>/status inside _pslinux.pid_exists *)
Inductive sfault := FErrno (errno : Z) | FNoTgid.

Inductive ev :=
(* kernel *)
| Spawn (pid start : Z) | Exit (pid : Z) | Reap (pid : Z) | Thread (pid tid : Z) | ThreadExit (tid : Z)
(* psutil calls *)
| Pids | PidExists (n : Z)
| IterNew (attrs : attrs_t) | IterNext (g : nat) | IterClose (g : nat)
| CacheClear | IsRunning (o : nat)
(* pid_exists(n) while opening / reading /proc/<n>/status fails with OSError(errno), or the file has no Tgid line *)
| PidExistsF (n : Z) (f : sfault).

Inductive out :=
| ONone
| OPids (l : list Z)
| OBool (b : bool)
| OYield (pid : Z) (o : nat) (info : option (list Z))
| OStop
| OExc (e : exn)
| OOom                                             (* behaviour outside the model *)
| OBad.                                            (* event names an unknown generator/object *)

Definition set_gen (s : st) (g : nat) (x : gen) : nat -> gen :=
  fun g' => if Nat.eqb g' g then x else gens s g'.
Definition upd_heap (hp : nat -> obj) (o : nat) (x : obj) : nat -> obj :=
  fun o' => if Nat.eqb o' o then x else hp o'.

(* ---- the body of process_iter() after the prologue: 'for pid, proc in ls' *)
Record lstate := { l_pm : dict; l_hp : nat -> obj; l_n : nat; l_ru : list Z }.
Inductive lres :=
| LYield (x : lstate) (rest : list (Z * option nat)) (pid : Z) (o : nat) (info : option (list Z))
| LStop (x : lstate)
| LExc (x : lstate) (e : exn)
| LOom (x : lstate).

Fixpoint gen_loop (t : list kproc) (valid : list Z) (attrs : attrs_t) (x : lstate)
         (rest : list (Z * option nat)) : lres :=
  match rest with
  | [] => LStop x
  | (pid, po) :: rest' =>
    (* if proc is None or proc._pid_reused: proc = add(pid)   [Process(pid); pmap[proc.pid] = proc]
       (b70d950: a cached instance that is_running() found stale is replaced wherever it is met) *)
    match (match (match po with
                  | Some o => if o_reused (l_hp x o) then None else Some o
                  | None => None
                  end) with
           | Some o => Some (o, x)
           | None =>
             match find_proc t pid with
             | Some k =>
               Some (l_n x, {| l_pm := dset pid (l_n x) (l_pm x);
                               l_hp := upd_heap (l_hp x) (l_n x) (new_obj pid (k_start k));
                               l_n := S (l_n x); l_ru := l_ru x |})
             | None => None                         (* NoSuchProcess from Process(pid) *)
             end
           end) with
    | None =>                                       (* except NoSuchProcess: remove(pid) *)
      gen_loop t valid attrs {| l_pm := ddel pid (l_pm x); l_hp := l_hp x; l_n := l_n x; l_ru := l_ru x |} rest'
    | Some (o, x1) =>
      match attrs with
      | None => LYield x1 rest' pid o (o_info (l_hp x1 o))
      | Some l =>
        let '(r, ob', ru') := as_dict t valid (l_ru x1) pid (l_hp x1 o) l in
        match r with
        | Val keys =>
          LYield {| l_pm := l_pm x1; l_hp := upd_heap (l_hp x1) o (set_info ob' (Some keys)); l_n := l_n x1; l_ru := ru' |}
                 rest' pid o (Some keys)
        | Exc NoSuchProcess =>
          gen_loop t valid attrs {| l_pm := ddel pid (l_pm x1); l_hp := upd_heap (l_hp x1) o ob'; l_n := l_n x1; l_ru := ru' |}
                   rest'
        | Exc e => LExc {| l_pm := l_pm x1; l_hp := upd_heap (l_hp x1) o ob'; l_n := l_n x1; l_ru := ru' |} e
        | OutOfModel => LOom x1
        end
      end
    end
  end.

(* ---- the prologue of process_iter(): private copy, set differences, sorted merge *)
Definition gen_start (t : list kproc) (pmap0 : dict) (reused0 : list Z)
  : outcome (dict * list (Z * option nat) * Z) :=
  do pl <- pids_sorted (listing t);                              (* a = set(pids()) *)
  let a := nodup Z.eq_dec (fst pl) in
  let b := dkeys pmap0 in                                        (* b = set(pmap.keys()) *)
  let new_pids := filter (fun p => negb (zmem p b)) a in
  let gone_pids := filter (fun p => negb (zmem p a)) b in
  let pm1 := ddel_all gone_pids pmap0 in                         (* for pid in gone_pids: remove(pid) *)
  let pm2 := ddel_all reused0 pm1 in                             (* while _pids_reused: remove(pop()) *)
  let ls := isort (fun x : Z * option nat => fst x)
                  (map (fun kv => (fst kv, Some (snd kv))) (ditems pm2) ++ map (fun p => (p, None)) new_pids) in
  Val (pm2, ls, snd pl).

Section Step.
  Variable valid : list Z.

  Definition mk (s : st) (t : list kproc) (pm : dict) (ru : list Z) (lo : option Z) (hp : nat -> obj) (n : nat)
             (gs : nat -> gen) (ng : nat) : st :=
    {| tbl := t; pmap := pm; reused := ru; lowest := lo; heap := hp; nobj := n; gens := gs; ngen := ng |}.

  (* resume generator g whose frame holds (attrs, pm, rest); [s] already reflects the prologue if it just ran *)
  Definition run_loop (s : st) (g : nat) (attrs : attrs_t) (pm : dict) (rest : list (Z * option nat))
    : st * out :=
    match gen_loop (tbl s) valid attrs {| l_pm := pm; l_hp := heap s; l_n := nobj s; l_ru := reused s |} rest with
    | LYield x rest' pid o info =>
      (mk s (tbl s) (pmap s) (l_ru x) (lowest s) (l_hp x) (l_n x) (set_gen s g (GRun attrs (l_pm x) rest')) (ngen s),
       OYield pid o info)
    | LStop x =>                                                  (* finally: _pmap = pmap *)
      (mk s (tbl s) (l_pm x) (l_ru x) (lowest s) (l_hp x) (l_n x) (set_gen s g GDone) (ngen s), OStop)
    | LExc x e =>
      (mk s (tbl s) (l_pm x) (l_ru x) (lowest s) (l_hp x) (l_n x) (set_gen s g GDone) (ngen s), OExc e)
    | LOom x =>
      (mk s (tbl s) (l_pm x) (l_ru x) (lowest s) (l_hp x) (l_n x) (set_gen s g GDone) (ngen s), OOom)
    end.

  Definition with_tbl (s : st) (t : list kproc) : st :=
    mk s t (pmap s) (reused s) (lowest s) (heap s) (nobj s) (gens s) (ngen s).
  Definition with_lowest (s : st) (lo : Z) : st :=
    mk s (tbl s) (pmap s) (reused s) (Some lo) (heap s) (nobj s) (gens s) (ngen s).
  Definition with_gen (s : st) (g : nat) (x : gen) : st :=
    mk s (tbl s) (pmap s) (reused s) (lowest s) (heap s) (nobj s) (set_gen s g x) (ngen s).

  Definition step (s : st) (e : ev) : st * out :=
    match e with
    (* ---------------- kernel events (guards keep ids unique and inside pid_t) *)
    | Spawn p stt =>
      if (0 <=? p) && (p <=? PIDMAX) && id_free (tbl s) p
      then (with_tbl s ({| k_pid := p; k_start := stt; k_zombie := false; k_tids := [] |} :: tbl s), ONone)
      else (s, ONone)
    | Exit p =>
      (with_tbl s (map (fun k => if k_pid k =? p
                                 then {| k_pid := k_pid k; k_start := k_start k; k_zombie := true; k_tids := [] |}
                                 else k) (tbl s)), ONone)
    | Reap p => (with_tbl s (filter (fun k => negb (k_pid k =? p)) (tbl s)), ONone)
    | Thread p tid =>
      if (1 <=? tid) && (tid <=? PIDMAX) && id_free (tbl s) tid
      then (with_tbl s (map (fun k => if (k_pid k =? p) && negb (k_zombie k)
                                      then {| k_pid := k_pid k; k_start := k_start k; k_zombie := false;
                                              k_tids := tid :: k_tids k |}
                                      else k) (tbl s)), ONone)
      else (s, ONone)
    | ThreadExit tid =>
      (with_tbl s (map (fun k => {| k_pid := k_pid k; k_start := k_start k; k_zombie := k_zombie k;
                                    k_tids := filter (fun x => negb (x =? tid)) (k_tids k) |}) (tbl s)), ONone)
    (* ---------------- psutil.pids() *)
    | Pids =>
      match pids_sorted (listing (tbl s)) with
      | Val (l, low) => (with_lowest s low, OPids l)
      | Exc e => (s, OExc e)
      | OutOfModel => (s, OOom)
      end
    (* ---------------- psutil.pid_exists(n) *)
    | PidExists n =>
      if n <? 0 then (s, OBool false)
      else if n =? 0 then                                         (* return pid in pids() *)
        match pids_sorted (listing (tbl s)) with
        | Val (l, low) => (with_lowest s low, OBool (zmem 0 l))
        | Exc e => (s, OExc e)
        | OutOfModel => (s, OOom)
        end
      else (s, OBool (sys_pid_exists (tbl s) n))
    (* ---------------- process_iter(attrs): creating the generator runs no code *)
    | IterNew attrs =>
      (mk s (tbl s) (pmap s) (reused s) (lowest s) (heap s) (nobj s) (set_gen s (ngen s) (GFresh attrs)) (S (ngen s)), ONone)
    | IterNext g =>
      if Nat.leb (ngen s) g then (s, OBad) else
      match gens s g with
      | GDone => (s, OStop)
      | GFresh attrs =>
        match gen_start (tbl s) (pmap s) (reused s) with
        | Val (pm, ls, low) =>                                    (* _pids_reused emptied, _LOWEST_PID set *)
          run_loop (mk s (tbl s) (pmap s) [] (Some low) (heap s) (nobj s) (gens s) (ngen s)) g attrs pm ls
        | Exc e => (with_gen s g GDone, OExc e)                   (* raised before 'try': no finally *)
        | OutOfModel => (with_gen s g GDone, OOom)
        end
      | GRun attrs pm rest => run_loop s g attrs pm rest
      end
    | IterClose g =>
      if Nat.leb (ngen s) g then (s, OBad) else
      match gens s g with
      | GRun _ pm _ =>                                            (* GeneratorExit at 'yield': finally runs *)
        (mk s (tbl s) pm (reused s) (lowest s) (heap s) (nobj s) (set_gen s g GDone) (ngen s), ONone)
      | _ => (with_gen s g GDone, ONone)
      end
    (* ---------------- process_iter.cache_clear() *)
    | CacheClear => (mk s (tbl s) [] (reused s) (lowest s) (heap s) (nobj s) (gens s) (ngen s), ONone)
    (* ---------------- Process.is_running() on a yielded object *)
    | IsRunning o =>
      if Nat.leb (nobj s) o then (s, OBad) else
      let '(r, ob', ru') := is_running_obj (tbl s) (reused s) (o_pid (heap s o)) (heap s o) in
      (mk s (tbl s) (pmap s) ru' (lowest s) (upd_heap (heap s) o ob') (nobj s) (gens s) (ngen s), OBool r)
    (* ---------------- psutil.pid_exists(n) with a faulty /proc/<n>/status:
       _psposix.pid_exists first (kill), then 'except (OSError, ValueError): return pid in pids()' *)
    | PidExistsF n _ =>
      if n <? 0 then (s, OBool false)
      else if n =? 0 then                                         (* psutil.pid_exists(0): pid in psutil.pids() *)
        match pids_sorted (listing (tbl s)) with
        | Val (l, low) => (with_lowest s low, OBool (zmem 0 l))
        | Exc e => (s, OExc e)
        | OutOfModel => (s, OOom)
        end
      else if (n <=? PIDMAX) && negb (id_free (tbl s) n)
      then (s, OBool (zmem n (listing (tbl s))))                  (* the platform pids(): no _LOWEST_PID *)
      else (s, OBool false)                                      (* OverflowError / ESRCH from os.kill *)
    end.

  Definition final (h : list ev) : st := fold_left (fun s e => fst (step s e)) h init.
End Step.
