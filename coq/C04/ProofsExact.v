(* C04 -- exactly which object each yield carries (threaded through the ghost state), the class
   of PIDs that are passed over, and object identity across successive iterations. *)
From PV Require Import C04.Spec C04.ProofsTable C04.ProofsLoop C04.ProofsIter C04.ProofsStale.

Lemma sorted_keys_NoDup (rest : list (Z * option nat)) :
  StronglySorted (klt (@fst Z (option nat))) rest -> NoDup (map fst rest).
Proof.
  induction rest as [|a r IH]; intros H; [constructor|]. inversion H as [|? ? Hs Hall]; subst.
  cbn [map]. constructor; [|now apply IH].
  intros Hin. apply in_map_iff in Hin as [b [Hb Hin]]. rewrite Forall_forall in Hall.
  specialize (Hall b Hin). unfold klt in Hall. lia.
Qed.

(* ---------------------------------------------------------------- one yielding next(), exactly *)
Lemma yield_exact_step valid s G g p o i :
  Inv valid (s, G) -> Kpid s ->
  snd (step valid s (IterNext g)) = OYield p o i ->
  let gh1 := if gh_started (G g) then G g else gh_enter s (G g) in
  Nat.leb (ngen s) g = false /\ gh_done (G g) = false /\ (gh_heap0 gh1 <= nobj s)%nat /\
  match dget p (gh_cache gh1) with
  | Some o' => ~ In p (gh_marked gh1) /\ (if o_reused (heap s o') then (nobj s <= o)%nat else o = o')
  | None => (nobj s <= o)%nat
  end.
Proof.
  intros HI K Hy gh1. cbn [step] in Hy.
  destruct (Nat.leb (ngen s) g) eqn:Hg; [discriminate|]. split; [reflexivity|].
  pose proof (HI g) as Hgi. cbn [fst snd] in Hgi. destruct K as [K1 [K2 K3]].
  assert (Hcore : forall (s0 : st) a pm rest (fr : frame) V Y,
            heap s0 = heap s -> nobj s0 = nobj s -> tbl s0 = tbl s ->
            J valid (tbl s) fr V pm rest Y (nobj s) -> rest_tok (heap s) (nobj s) rest ->
            snd (run_loop valid s0 g a pm rest) = OYield p o i ->
            match dget p (f_cache fr) with
            | Some o' => ~ In p (f_marked fr) /\ (if o_reused (heap s o') then (nobj s <= o)%nat else o = o')
            | None => (nobj s <= o)%nat
            end).
  { intros s0 a pm rest fr V Y Eh En Et HJ Hr Ho. rewrite <- Eh, <- En. rewrite <- Eh, <- En in Hr.
    pose proof (run_loop_facts valid s0 g a pm rest) as F. cbn zeta in F. destruct F as [_ [_ [_ [_ [_ Fm]]]]].
    pose proof (loop_exact (tbl s0) valid a rest {| l_pm := pm; l_hp := heap s0; l_n := nobj s0; l_ru := reused s0 |}) as L.
    cbn [l_hp l_n] in L.
    specialize (L Hr (sorted_keys_NoDup _ (j_sorted _ _ _ _ _ _ _ _ HJ))).
    destruct (gen_loop _ _ _ _ _) as [x1 rest1 p1 o1 i1|x1|x1 e|x1]; destruct Fm as [_ [_ Fo]]; rewrite Fo in Ho; try discriminate.
    injection Ho as -> -> ->. destruct L as [po [Hin Hv]].
    destruct (j_rest _ _ _ _ _ _ _ _ HJ p po Hin) as [_ Hpo].
    destruct po as [o'|]; cbn [visit_ok] in Hv.
    - destruct Hpo as [Hc [Hm _]]. rewrite Hc. split; [exact Hm|exact Hv].
    - rewrite Hpo. exact Hv. }
  destruct (gens s g) as [a|a pm rest|] eqn:Eg; cbn [ginv] in Hgi.
  - destruct Hgi as [Hst [Hdn [Hat _]]]. split; [exact Hdn|].
    unfold gh1. rewrite Hst. cbn [gh_enter gh_heap0 gh_cache gh_marked]. split; [lia|].
    destruct (gen_start (tbl s) (pmap s) (reused s)) as [[[pm ls] low]|e|] eqn:Es; [|discriminate|discriminate].
    destruct (gen_start_sub _ _ _ _ _ _ Es) as [S1 S2].
    pose proof (start_inv valid (tbl s) (pmap s) (reused s) a (nobj s) pm ls low Es) as HJ.
    assert (Hr : rest_tok (heap s) (nobj s) ls) by (intros q o' Hin; apply K1; apply S1; now apply S2).
    exact (Hcore (mk s (tbl s) (pmap s) [] (Some low) (heap s) (nobj s) (gens s) (ngen s)) a pm ls _ _ _ eq_refl eq_refl eq_refl HJ Hr Hy).
  - destruct Hgi as [Hst [Hdn [Hat HJ]]]. split; [exact Hdn|].
    unfold gh1. rewrite Hst. split; [exact (j_h0 _ _ _ _ _ _ _ _ HJ)|].
    exact (Hcore s a pm rest _ _ _ eq_refl eq_refl eq_refl HJ (proj2 (K2 _ _ _ _ Eg)) Hy).
  - discriminate.
Qed.

(* ---------------------------------------------------------------- the same, kept in the ghost state *)
Definition exact_ok (gh : ghost) : Prop :=
  (forall p, In p (gh_repl gh) -> In p (map ypid (gh_yields gh))) /\
  forall p o i, In (p, o, i) (gh_yields gh) ->
    match dget p (gh_cache gh) with
    | Some o' => ~ In p (gh_marked gh) /\ (if zmem p (gh_repl gh) then (gh_heap0 gh <= o)%nat else o = o')
    | None => (gh_heap0 gh <= o)%nat /\ zmem p (gh_repl gh) = false
    end.

Lemma exact_ok_eq gh gh' :
  gh_repl gh' = gh_repl gh -> gh_yields gh' = gh_yields gh -> gh_cache gh' = gh_cache gh ->
  gh_marked gh' = gh_marked gh -> gh_heap0 gh' = gh_heap0 gh -> exact_ok gh -> exact_ok gh'.
Proof. intros H1 H2 H3 H4 H5 H. unfold exact_ok. rewrite H1, H2, H3, H4, H5. exact H. Qed.

Lemma exact_ok_empty gh : gh_yields gh = [] -> gh_repl gh = [] -> exact_ok gh.
Proof. intros H1 H2. unfold exact_ok. rewrite H1, H2. split; intros; contradiction. Qed.

Lemma Ex_step valid s G e :
  Inv valid (s, G) -> Kpid s -> (forall g, exact_ok (G g)) ->
  forall g, exact_ok (gupd s e (snd (step valid s e)) G g).
Proof.
  intros HI K HE g. destruct e; cbn [gupd]; try apply HE.
  - destruct (alive (tbl s) pid); [|apply HE]. unfold gh_vanish.
    destruct (gh_started (G g) && negb (gh_done (G g))); [|apply HE]. now apply (exact_ok_eq (G g)).
  - unfold gset. destruct (Nat.eqb g (ngen s)); [|apply HE]. now apply exact_ok_empty.
  - destruct (Nat.leb (ngen s) g0) eqn:Hg; [apply HE|]. destruct (gh_done (G g0)) eqn:Hd; [apply HE|].
    unfold gset. destruct (Nat.eqb g g0) eqn:Eg; [|apply HE]. apply Nat.eqb_eq in Eg. subst g0.
    set (gh1 := if gh_started (G g) then G g else gh_enter s (G g)).
    assert (H1 : exact_ok gh1).
    { unfold gh1. destruct (gh_started (G g)); [apply HE|now apply exact_ok_empty]. }
    destruct (snd (step valid s (IterNext g))) as [| | |p o i| | | |] eqn:Eo; cbn [gh_after]; try exact H1;
      try (now apply (exact_ok_eq gh1)).
    (* a yield *)
    destruct (yield_exact_step valid s G g p o i HI K Eo) as [_ [_ [Hh0 Hex]]]. fold gh1 in Hh0, Hex.
    (* the yields after the step are strictly ordered: p is new *)
    pose proof (Inv_step valid (s, G) (IterNext g) HI g) as HI'.
    assert (Epost : snd (fst (istep valid (s, G) (IterNext g))) g
                    = gh_push gh1 (p, o, i) (cached_flag s gh1 p) (passed_now s gh1 (Some p))).
    { unfold istep. cbn [fst snd]. destruct (step valid s (IterNext g)) as [s' o'] eqn:Es. cbn [fst snd] in *.
      subst o'. cbn [gupd]. rewrite Hg, Hd. fold gh1. rewrite gset_same. reflexivity. }
    apply ginv_yields in HI'. rewrite Epost in HI'. destruct HI' as [Hsort _].
    cbn [gh_push gh_yields map ypid fst] in Hsort. inversion Hsort as [|? ? _ Hall]; subst.
    assert (Hnew : ~ In p (map ypid (gh_yields gh1))).
    { intros Hin. rewrite Forall_forall in Hall. specialize (Hall p Hin). lia. }
    destruct H1 as [Hsub Hold].
    assert (HpR : zmem p (gh_repl gh1) = false) by (apply zmem_false; intros Hin; apply Hnew; now apply Hsub).
    unfold exact_ok. cbn [gh_push gh_repl gh_yields gh_cache gh_marked gh_heap0 ypid fst]. split.
    + intros q Hq. cbn [map ypid fst]. destruct (cached_flag s gh1 p); [|right; now apply Hsub].
      destruct Hq as [<-|Hq]; [now left|right; now apply Hsub].
    + intros q o2 i2 [Hy|Hy].
      * injection Hy as <- <- <-. unfold cached_flag.
        destruct (dget p (gh_cache gh1)) as [o'|].
        -- destruct Hex as [Hm Hf]. split; [exact Hm|]. destruct (o_reused (heap s o')).
           ++ cbn [zmem existsb]. rewrite Z.eqb_refl. cbn [orb]. lia.
           ++ rewrite HpR. exact Hf.
        -- split; [lia|exact HpR].
      * assert (Hne : q <> p).
        { intros ->. apply Hnew. apply in_map_iff. exists (p, o2, i2). now split. }
        specialize (Hold q o2 i2 Hy).
        assert (Hz : zmem q (if cached_flag s gh1 p then p :: gh_repl gh1 else gh_repl gh1) = zmem q (gh_repl gh1)).
        { destruct (cached_flag s gh1 p); [|reflexivity]. cbn [zmem existsb].
          apply Z.eqb_neq in Hne. now rewrite Hne. }
        rewrite Hz. exact Hold.
  - destruct (Nat.leb (ngen s) g0); [apply HE|]. destruct (gh_done (G g0)); [apply HE|].
    unfold gset. destruct (Nat.eqb g g0) eqn:Eg; [|apply HE]. apply Nat.eqb_eq in Eg. subst g0.
    now apply (exact_ok_eq (G g)).
Qed.

(* the two invariants along every history *)
Lemma reach_fold valid h : forall sg : st * ghosts,
  Inv valid sg -> Kpid (fst sg) -> (forall g, exact_ok (snd sg g)) ->
  let sg' := fold_left (fun sg e => fst (istep valid sg e)) h sg in
  Inv valid sg' /\ Kpid (fst sg') /\ (forall g, exact_ok (snd sg' g)).
Proof.
  induction h as [|e h IH]; intros sg HI K HE; [cbn; auto|].
  cbn [fold_left]. apply IH.
  - now apply Inv_step.
  - unfold istep. destruct (step valid (fst sg) e) as [s' o] eqn:Es. cbn [fst].
    replace s' with (fst (step valid (fst sg) e)) by now rewrite Es. apply (Kstep valid (fst sg) e K).
  - intros g. assert (E : snd (fst (istep valid sg e)) = gupd (fst sg) e (snd (step valid (fst sg) e)) (snd sg)).
    { unfold istep. destruct (step valid (fst sg) e); reflexivity. }
    rewrite E. destruct sg as [s G]. now apply Ex_step.
Qed.

Theorem reach valid h :
  Inv valid (irun valid h) /\ Kpid (fst (irun valid h)) /\ (forall g, exact_ok (snd (irun valid h) g)).
Proof.
  apply reach_fold; [apply Inv_init|apply Kpid_init|]. intros g. now apply exact_ok_empty.
Qed.

(* ================================================================================ *)
(* Passed-over PIDs.  [dropped_ok]: every entry the loop consumed without yielding it was dropped either
   because the PID was not in the table at that next(), or because as_dict ran ppid() on a cached object. *)
Definition dropped_ok (t : list kproc) (valid : list Z) (attrs : attrs_t) (pre : list (Z * option nat)) : Prop :=
  forall q po, In (q, po) pre -> alive t q = false \/ (req_ppid valid attrs = true /\ exists o, po = Some o).

Lemma loop_drops t valid attrs : forall rest x,
  match gen_loop t valid attrs x rest with
  | LYield _ rest' p _ _ => exists pre po, rest = pre ++ (p, po) :: rest' /\ dropped_ok t valid attrs pre
  | LStop _ => dropped_ok t valid attrs rest
  | _ => True
  end.
Proof.
  induction rest as [|[pid po] rest IH]; intros x; [cbn; intros q po []|].
  cbn [gen_loop].
  assert (Hcons : forall x2, (alive t pid = false \/ (req_ppid valid attrs = true /\ exists o, po = Some o)) ->
            match gen_loop t valid attrs x2 rest with
            | LYield _ rest' p _ _ => exists pre po0, (pid, po) :: rest = pre ++ (p, po0) :: rest' /\ dropped_ok t valid attrs pre
            | LStop _ => dropped_ok t valid attrs ((pid, po) :: rest)
            | _ => True end).
  { intros x2 Hwhy. specialize (IH x2). destruct (gen_loop t valid attrs x2 rest) as [x' rest' p o i|x'| |]; try exact I.
    - destruct IH as [pre [po0 [E Hd]]]. exists ((pid, po) :: pre), po0. split; [cbn [app]; now rewrite E|].
      intros q po1 [H|H]; [injection H as <- <-; exact Hwhy|now apply Hd].
    - intros q po1 [H|H]; [injection H as <- <-; exact Hwhy|now apply IH]. }
  destruct (match po with Some o => if o_reused (l_hp x o) then None else Some o | None => None end) as [o|] eqn:Ecached.
  - assert (Epo : po = Some o).
    { destruct po as [o'|]; [|discriminate]. destruct (o_reused (l_hp x o')); [discriminate|]. now inversion Ecached. }
    destruct attrs as [l|].
    + destruct (as_dict t valid (l_ru x) pid (l_hp x o) l) as [[r ob'] ru'] eqn:Ead.
      destruct r as [keys|e|]; [exists [], po; split; [reflexivity|intros q po1 []]| |exact I].
      destruct e; try exact I.
      apply Hcons. destruct (as_dict_nsp _ _ _ _ _ _ _ _ Ead) as [H|H]; [now left|right; split; [exact H|now exists o]].
    + exists [], po. split; [reflexivity|intros q po1 []].
  - destruct (find_proc t pid) as [k|] eqn:Ef.
    + destruct attrs as [l|].
      * cbn [l_ru l_hp l_n l_pm]. unfold upd_heap at 1. rewrite Nat.eqb_refl.
        destruct (as_dict t valid (l_ru x) pid (new_obj pid (k_start k)) l) as [[r ob'] ru'] eqn:Ead.
        destruct r as [keys|e|]; [exists [], po; split; [reflexivity|intros q po1 []]| |exact I].
        destruct e; try exact I. exfalso. exact (as_dict_fresh _ _ _ _ _ _ _ _ Ef Ead).
      * exists [], po. split; [reflexivity|intros q po1 []].
    + apply Hcons. left. unfold alive. now rewrite Ef.
Qed.

(* the prologue, exactly: every listed PID is in the merged list, unless it was cached and marked *)
Opaque nodup.
Lemma start_part t pmap0 reused0 pm ls low :
  gen_start t pmap0 reused0 = Val (pm, ls, low) ->
  forall q, In q (listing t) ->
    (In q reused0 /\ exists o, dget q pmap0 = Some o) \/ exists po, In (q, po) ls.
Proof.
  unfold gen_start, pids_sorted. destruct (zsort (listing t)) as [|lo r] eqn:E; [discriminate|].
  cbn [obind fst snd]. intros H. injection H as Hpm Hls _. intros q Hq.
  assert (Ha0 : In q (nodup Z.eq_dec (lo :: r))) by (rewrite nodup_In, <- E; now apply zsort_In).
  destruct (dget q pmap0) as [o|] eqn:Eg.
  - destruct (zmem q reused0) eqn:Mr; [left; split; [now apply zmem_In|now exists o]|].
    right. exists (Some o). rewrite <- Hls. apply isort_In. apply in_app_iff. left.
    apply in_map_iff. exists (q, o). split; [reflexivity|]. apply ditems_In.
    rewrite dget_ddel_all, Mr, dget_ddel_all.
    assert (zmem q (filter (fun p => negb (zmem p (nodup Z.eq_dec (lo :: r)))) (dkeys pmap0)) = false) as ->; [|exact Eg].
    apply zmem_false. rewrite filter_In. intros [_ Hn]. apply zmem_In in Ha0. rewrite Ha0 in Hn. discriminate.
  - right. exists None. rewrite <- Hls. apply isort_In. apply in_app_iff. right.
    apply in_map_iff. exists q. split; [reflexivity|]. apply filter_In. split; [exact Ha0|].
    apply negb_true_iff. apply zmem_false. now apply dkeys_not_In.
Qed.
Transparent nodup.

(* ---------------------------------------------------------------- the ghost's passed-over list is sound *)
Definition last_lt (gh : ghost) (q : Z) : Prop := forall y, In y (gh_yields gh) -> ypid y < q.
Definition part_ok (gh : ghost) (rest : list (Z * option nat)) : Prop :=
  forall q, In q (gh_list gh) -> last_lt gh q ->
    (In q (gh_marked gh) /\ exists o, dget q (gh_cache gh) = Some o) \/ exists po, In (q, po) rest.
Definition passed_ok (valid : list Z) (gh : ghost) : Prop :=
  forall q b, In (q, b) (gh_passed gh) ->
    In q (gh_list gh) /\ ~ In q (map ypid (gh_yields gh)) /\
    (gh_exhausted gh = true \/ match gh_yields gh with y :: _ => q < ypid y | [] => False end) /\
    (b = true -> (exists o, dget q (gh_cache gh) = Some o) /\ (In q (gh_marked gh) \/ req_ppid valid (gh_attrs gh) = true)).

Lemma sorted_gt_head_max (l : list Z) x : StronglySorted Z.gt (x :: l) -> forall y, In y l -> y < x.
Proof. intros H y Hy. inversion H as [|? ? _ Hall]; subst. rewrite Forall_forall in Hall. specialize (Hall y Hy). lia. Qed.

Lemma sorted_split_keys (pre : list (Z * option nat)) p po rest' :
  StronglySorted (klt (@fst Z (option nat))) (pre ++ (p, po) :: rest') ->
  (forall q po', In (q, po') pre -> q < p) /\ (forall q po', In (q, po') rest' -> p < q).
Proof.
  induction pre as [|[a pa] pre IH]; cbn [app]; intros H.
  - split; [intros q po' []|]. inversion H as [|? ? _ Hall]; subst. rewrite Forall_forall in Hall.
    intros q po' Hin. exact (Hall _ Hin).
  - inversion H as [|? ? Hs Hall]; subst. destruct (IH Hs) as [I1 I2]. split; [|exact I2].
    intros q po' [He|Hin]; [|now apply (I1 q po')]. injection He as <- <-.
    rewrite Forall_forall in Hall. apply (Hall (p, po)). apply in_app_iff. right. now left.
Qed.

Lemma gap_In gh hi q :
  In q (gap gh hi) <->
  In q (gh_list gh) /\ match gh_yields gh with y :: _ => ypid y < q | [] => True end
  /\ match hi with Some p => q < p | None => True end.
Proof.
  unfold gap. rewrite filter_In, andb_true_iff. split; intros [H1 [H2 H3]]; (split; [exact H1|split]).
  - destruct (gh_yields gh); [exact I|now apply Z.ltb_lt].
  - destruct hi; [now apply Z.ltb_lt|exact I].
  - destruct (gh_yields gh); [reflexivity|now apply Z.ltb_lt].
  - destruct hi; [now apply Z.ltb_lt|reflexivity].
Qed.

Lemma resume_p3 valid s s0 g a pm rest gh1 V n :
  tbl s0 = tbl s ->
  J valid (tbl s) (frame_of gh1) V pm rest (gh_yields gh1) n -> gh_attrs gh1 = a ->
  part_ok gh1 rest -> passed_ok valid gh1 -> gh_exhausted gh1 = false ->
  let r := run_loop valid s0 g a pm rest in
  passed_ok valid (gh_after s gh1 (snd r)) /\
  (forall a' pm' rest', gens (fst r) g = GRun a' pm' rest' -> part_ok (gh_after s gh1 (snd r)) rest').
Proof.
  intros Et HJ Hat Hpart Hpass Hnex r. subst r.
  pose proof (run_loop_facts valid s0 g a pm rest) as F. cbn zeta in F. destruct F as [_ [_ [_ [_ [_ Fm]]]]].
  pose proof (loop_drops (tbl s0) valid a rest {| l_pm := pm; l_hp := heap s0; l_n := nobj s0; l_ru := reused s0 |}) as D.
  pose proof (j_ysorted _ _ _ _ _ _ _ _ HJ) as Hys.
  (* a listed PID above every yield so far and not (marked and cached) is still in [rest] *)
  assert (Hlast : forall q, match gh_yields gh1 with y :: _ => ypid y < q | [] => True end -> last_lt gh1 q).
  { intros q Hq y Hy. destruct (gh_yields gh1) as [|y0 Y] eqn:EY; [destruct Hy|].
    destruct Hy as [<-|Hy]; [exact Hq|]. cbn [map] in Hys.
    pose proof (sorted_gt_head_max _ _ Hys (ypid y) (in_map ypid _ _ Hy)). lia. }
  (* classification of one passed-over PID that sat in a consumed prefix [pre] of [rest] *)
  assert (Hclass : forall pre q, (forall po', In (q, po') rest -> In (q, po') pre) ->
            dropped_ok (tbl s) valid a pre -> In q (gh_list gh1) -> last_lt gh1 q ->
            alive (tbl s) q = true ->
            (exists o, dget q (gh_cache gh1) = Some o) /\ (In q (gh_marked gh1) \/ req_ppid valid (gh_attrs gh1) = true)).
  { intros pre q Hpre Hd HL Hlt Hal. destruct (Hpart q HL Hlt) as [[Hm Hc]|[po' Hin]]; [split; [exact Hc|now left]|].
    destruct (Hd q po' (Hpre po' Hin)) as [Hdead|[Hpp [o Ho]]]; [congruence|]. subst po'.
    destruct (j_rest _ _ _ _ _ _ _ _ HJ q (Some o) Hin) as [_ [Hc _]]. cbn [frame_of f_cache] in Hc.
    split; [now exists o|right; now rewrite Hat]. }
  destruct (gen_loop _ _ _ _ _) as [x1 rest1 p o i|x1|x1 e|x1]; destruct Fm as [_ [Fgs Fo]]; rewrite Fo, Fgs; cbn [gh_after].
  - (* a yield *)
    destruct D as [pre [po [Erest Hd]]]. rewrite Et in Hd.
    pose proof (j_sorted _ _ _ _ _ _ _ _ HJ) as Hsr. rewrite Erest in Hsr.
    destruct (sorted_split_keys _ _ _ _ Hsr) as [Hpre_lt Hpost_gt].
    assert (Hp_gt : forall y, In y (gh_yields gh1) -> ypid y < p).
    { intros y Hy. apply (j_ylt _ _ _ _ _ _ _ _ HJ y p po Hy). rewrite Erest. apply in_app_iff. right. now left. }
    split.
    + intros q b Hin. cbn [gh_push gh_passed gh_list gh_yields gh_exhausted gh_cache gh_marked gh_attrs] in *.
      apply in_app_iff in Hin as [Hin|Hin].
      * unfold passed_now in Hin. apply in_map_iff in Hin as [q' [He Hg]]. injection He as <- <-.
        apply gap_In in Hg as [HL [Hlo Hhi]].
        split; [exact HL|]. split.
        { cbn [map ypid fst]. intros [He|Hy]; [lia|]. apply in_map_iff in Hy as [y [Hy1 Hy2]].
          pose proof (Hlast q' Hlo y Hy2). lia. }
        split; [right; cbn [ypid fst]; exact Hhi|].
        intros Hal. apply (Hclass pre q'); try assumption; [|now apply Hlast].
        intros po' Hin'. rewrite Erest in Hin'. apply in_app_iff in Hin' as [H|[H|H]]; [exact H| |].
        -- injection H as H _. lia.
        -- pose proof (Hpost_gt _ _ H). lia.
      * destruct (Hpass q b Hin) as [H1 [H2 [H3 H4]]]. split; [exact H1|]. split.
        { cbn [map ypid fst]. intros [He|Hy]; [|contradiction]. subst q.
          destruct H3 as [H3|H3]; [congruence|]. destruct (gh_yields gh1) as [|y0 Y]; [contradiction|].
          pose proof (Hp_gt y0 (or_introl eq_refl)). lia. }
        split; [|exact H4]. right. cbn [ypid fst]. destruct H3 as [H3|H3]; [congruence|].
        destruct (gh_yields gh1) as [|y0 Y]; [contradiction|]. pose proof (Hp_gt y0 (or_introl eq_refl)). lia.
    + intros a' pm' rest' Hrun. rewrite set_gen_same in Hrun. injection Hrun as _ _ <-.
      intros q HL Hlt. cbn [gh_push gh_list gh_marked gh_cache] in *.
      assert (Hlt1 : last_lt gh1 q) by (intros y Hy; apply Hlt; cbn [gh_push gh_yields]; now right).
      assert (Hqp : p < q) by (apply (Hlt (p, o, i)); cbn [gh_push gh_yields]; now left).
      destruct (Hpart q HL Hlt1) as [Hmc|[po' Hin]]; [now left|]. right. exists po'.
      rewrite Erest in Hin. apply in_app_iff in Hin as [H|[H|H]]; [|injection H as H _; lia|exact H].
      pose proof (Hpre_lt _ _ H). lia.
  - (* exhaustion: everything left in [rest] was dropped *)
    rewrite Et in D.
    split; [|intros a' pm' rest' Hrun; rewrite set_gen_same in Hrun; discriminate].
    intros q b Hin. cbn [gh_finish gh_passed gh_list gh_yields gh_exhausted gh_cache gh_marked gh_attrs] in *.
    apply in_app_iff in Hin as [Hin|Hin].
    + unfold passed_now in Hin. apply in_map_iff in Hin as [q' [He Hg]]. injection He as <- <-.
      apply gap_In in Hg as [HL [Hlo _]].
      split; [exact HL|]. split.
      { intros Hy. apply in_map_iff in Hy as [y [Hy1 Hy2]]. pose proof (Hlast q' Hlo y Hy2). lia. }
      split; [now left|]. intros Hal. apply (Hclass rest q'); try assumption; [auto|now apply Hlast].
    + destruct (Hpass q b Hin) as [H1 [H2 [H3 H4]]]. split; [exact H1|]. split; [exact H2|]. split; [now left|exact H4].
  - split; [|intros a' pm' rest' Hrun; rewrite set_gen_same in Hrun; discriminate].
    intros q b Hin. cbn [gh_finish gh_passed gh_list gh_yields gh_exhausted gh_cache gh_marked gh_attrs app] in *.
    destruct (Hpass q b Hin) as [H1 [H2 [H3 H4]]]. rewrite Hnex in H3. split; [exact H1|]. split; [exact H2|]. split; [|exact H4].
    right. destruct H3 as [H3|H3]; [discriminate|exact H3].
  - split; [|intros a' pm' rest' Hrun; rewrite set_gen_same in Hrun; discriminate].
    intros q b Hin. cbn [gh_finish gh_passed gh_list gh_yields gh_exhausted gh_cache gh_marked gh_attrs app] in *.
    destruct (Hpass q b Hin) as [H1 [H2 [H3 H4]]]. rewrite Hnex in H3. split; [exact H1|]. split; [exact H2|]. split; [|exact H4].
    right. destruct H3 as [H3|H3]; [discriminate|exact H3].
Qed.

(* every listed PID up to the last yield (all of them, after exhaustion) was yielded or passed over *)
Definition cover_ok (gh : ghost) : Prop :=
  (forall p, In p (gh_list gh) -> (exists y, In y (gh_yields gh) /\ p <= ypid y) ->
     In p (map ypid (gh_yields gh)) \/ In p (map fst (gh_passed gh))) /\
  (gh_exhausted gh = true -> forall p, In p (gh_list gh) ->
     In p (map ypid (gh_yields gh)) \/ In p (map fst (gh_passed gh))).

Definition g3 (valid : list Z) (gh : ghost) : Prop :=
  passed_ok valid gh /\ cover_ok gh /\ (gh_exhausted gh = true -> gh_done gh = true).
Definition Inv3 (valid : list Z) (sg : st * ghosts) : Prop :=
  forall g, g3 valid (snd sg g) /\
            forall a pm rest, gens (fst sg) g = GRun a pm rest -> part_ok (snd sg g) rest.

Lemma g3_eq valid gh gh' :
  gh_list gh' = gh_list gh -> gh_yields gh' = gh_yields gh -> gh_exhausted gh' = gh_exhausted gh ->
  gh_cache gh' = gh_cache gh -> gh_marked gh' = gh_marked gh -> gh_attrs gh' = gh_attrs gh ->
  gh_passed gh' = gh_passed gh -> (gh_done gh = true -> gh_done gh' = true) -> g3 valid gh -> g3 valid gh'.
Proof.
  intros H1 H2 H3 H4 H5 H6 H7 H8 [A [B C]]. unfold g3, passed_ok, cover_ok. rewrite H1, H2, H3, H4, H5, H6, H7.
  split; [exact A|]. split; [exact B|]. intros H. apply H8. now apply C.
Qed.

Lemma part_eq gh gh' rest :
  gh_list gh' = gh_list gh -> gh_yields gh' = gh_yields gh -> gh_cache gh' = gh_cache gh ->
  gh_marked gh' = gh_marked gh -> part_ok gh rest -> part_ok gh' rest.
Proof. intros H1 H2 H3 H4 H. unfold part_ok, last_lt. rewrite H1, H2, H3, H4. exact H. Qed.

Lemma g3_empty valid gh : gh_yields gh = [] -> gh_passed gh = [] -> gh_exhausted gh = false -> g3 valid gh.
Proof.
  intros H1 H2 H3. unfold g3, passed_ok, cover_ok. rewrite H1, H2, H3. split; [intros q b []|].
  split; [split; [intros p _ [y [[] _]]|discriminate]|discriminate].
Qed.

(* cover: pure bookkeeping of the gaps *)
Lemma cover_push gh y fl s :
  cover_ok gh -> gh_exhausted gh = false ->
  cover_ok (gh_push gh y fl (passed_now s gh (Some (ypid y)))).
Proof.
  intros [C1 _] Hex. split; [|cbn [gh_push gh_exhausted]; congruence].
  cbn [gh_push gh_list gh_yields gh_passed]. intros p HL [y' [[<-|Hy'] Hle]].
  - destruct (Z.eq_dec p (ypid y)) as [->|Hne]; [left; cbn [map]; now left|].
    destruct (gh_yields gh) as [|y0 Y] eqn:EY.
    + right. rewrite map_app. apply in_app_iff. left. unfold passed_now. rewrite map_map. cbn [fst]. rewrite map_id.
      apply gap_In. rewrite EY. split; [exact HL|]. split; [exact I|lia].
    + destruct (Z_le_gt_dec p (ypid y0)) as [Hle0|Hgt].
      * destruct (C1 p HL) as [H|H]; [exists y0; split; [try rewrite EY; now left|exact Hle0]| |].
        -- left. cbn [map]. right. exact H.
        -- right. rewrite map_app. apply in_app_iff. now right.
      * right. rewrite map_app. apply in_app_iff. left. unfold passed_now. rewrite map_map. cbn [fst]. rewrite map_id.
        apply gap_In. rewrite EY. split; [exact HL|]. split; [lia|lia].
  - destruct (C1 p HL) as [H|H]; [now exists y'| |].
    + left. cbn [map]. now right.
    + right. rewrite map_app. apply in_app_iff. now right.
Qed.

Lemma cover_stop gh s : cover_ok gh -> cover_ok (gh_finish gh true (passed_now s gh None)).
Proof.
  intros [C1 _].
  assert (Hall : forall p, In p (gh_list gh) ->
            In p (map ypid (gh_yields gh)) \/ In p (map fst (passed_now s gh None ++ gh_passed gh))).
  { intros p HL. destruct (gh_yields gh) as [|y0 Y] eqn:EY.
    - right. rewrite map_app. apply in_app_iff. left. unfold passed_now. rewrite map_map. cbn [fst]. rewrite map_id.
      apply gap_In. rewrite EY. auto.
    - destruct (Z_le_gt_dec p (ypid y0)) as [Hle0|Hgt].
      + destruct (C1 p HL) as [H|H]; [exists y0; split; [try rewrite EY; now left|exact Hle0]| |].
        * left. rewrite ?EY. exact H.
        * right. rewrite map_app. apply in_app_iff. now right.
      + right. rewrite map_app. apply in_app_iff. left. unfold passed_now. rewrite map_map. cbn [fst]. rewrite map_id.
        apply gap_In. rewrite EY. split; [exact HL|]. split; [lia|exact I]. }
  split; cbn [gh_finish gh_list gh_yields gh_passed gh_exhausted]; [intros p HL _|intros _ p HL]; now apply Hall.
Qed.

Lemma cover_empty gh : gh_yields gh = [] -> gh_exhausted gh = false -> cover_ok gh.
Proof. intros H1 H2. unfold cover_ok. rewrite H1, H2. split; [intros p _ [y [[] _]]|discriminate]. Qed.

Lemma P3_step valid sg e : Inv valid sg -> Inv3 valid sg -> Inv3 valid (fst (istep valid sg e)).
Proof.
  destruct sg as [s G]. intros HI H3.
  assert (E : fst (istep valid (s, G) e) = (fst (step valid s e), gupd s e (snd (step valid s e)) G)).
  { unfold istep. cbn [fst snd]. destruct (step valid s e); reflexivity. }
  rewrite E. clear E. intros g. cbn [fst snd].
  destruct (H3 g) as [Hg3 Hpart]. cbn [fst snd] in Hg3, Hpart.
  (* events that leave generator g and its ghost's relevant fields alone *)
  assert (Hsame : gens (fst (step valid s e)) g = gens s g -> gupd s e (snd (step valid s e)) G g = G g ->
            g3 valid (gupd s e (snd (step valid s e)) G g) /\
            (forall a pm rest, gens (fst (step valid s e)) g = GRun a pm rest -> part_ok (gupd s e (snd (step valid s e)) G g) rest)).
  { intros E1 E2. rewrite E1, E2. now split. }
  destruct e; cbn [gupd].
  - apply Hsame; [cbn [step]; destruct (_ && _); reflexivity|reflexivity].
  - apply Hsame; reflexivity.
  - (* Reap *)
    assert (Eg : gens (fst (step valid s (Reap pid))) g = gens s g) by reflexivity.
    destruct (alive (tbl s) pid); [|rewrite Eg; now split].
    rewrite Eg. unfold gh_vanish. destruct (gh_started (G g) && negb (gh_done (G g))); [|now split].
    split; [apply (g3_eq valid (G g)); auto|]. intros a pm rest Hr. apply (part_eq (G g)); auto. exact (Hpart a pm rest Hr).
  - apply Hsame; [cbn [step]; destruct (_ && _); reflexivity|reflexivity].
  - apply Hsame; reflexivity.
  - apply Hsame; [cbn [step]; destruct (pids_sorted _) as [[l low]| |]; reflexivity|reflexivity].
  - apply Hsame; [|reflexivity]. cbn [step]. destruct (n <? 0); [reflexivity|]. destruct (n =? 0); [|reflexivity].
    destruct (pids_sorted _) as [[l low]| |]; reflexivity.
  - (* IterNew *)
    cbn [step fst mk gens]. unfold gset. rewrite set_gen_eq. destruct (Nat.eqb g (ngen s)).
    + split; [now apply g3_empty|discriminate].
    + now split.
  - (* IterNext *)
    cbn [step]. destruct (Nat.leb (ngen s) g0) eqn:Hl; [now split|]. cbn [fst snd].
    pose proof (HI g0) as Hgi. cbn [fst snd] in Hgi.
    destruct (Nat.eq_dec g g0) as [->|Hne].
    2:{ (* another generator *)
      assert (Eg : gens (fst (match gens s g0 with
                          | GFresh attrs => match gen_start (tbl s) (pmap s) (reused s) with
                                            | Val (pm, ls, low) => run_loop valid (mk s (tbl s) (pmap s) [] (Some low) (heap s) (nobj s) (gens s) (ngen s)) g0 attrs pm ls
                                            | Exc e => (with_gen s g0 GDone, OExc e)
                                            | OutOfModel => (with_gen s g0 GDone, OOom) end
                          | GRun attrs pm rest => run_loop valid s g0 attrs pm rest
                          | GDone => (s, OStop) end)) g = gens s g).
      { destruct (gens s g0) as [a|a pm rest|]; [| |reflexivity].
        - destruct (gen_start _ _ _) as [[[pm ls] low]|e|]; [|cbn; rewrite set_gen_eq; apply Nat.eqb_neq in Hne; now rewrite Hne ..].
          pose proof (run_loop_facts valid (mk s (tbl s) (pmap s) [] (Some low) (heap s) (nobj s) (gens s) (ngen s)) g0 a pm ls) as F.
          cbn zeta in F. destruct F as [_ [_ [_ [_ [_ Fm]]]]].
          destruct (gen_loop _ _ _ _ _); destruct Fm as [_ [Fgs _]]; rewrite Fgs, set_gen_eq; apply Nat.eqb_neq in Hne; now rewrite Hne.
        - pose proof (run_loop_facts valid s g0 a pm rest) as F. cbn zeta in F. destruct F as [_ [_ [_ [_ [_ Fm]]]]].
          destruct (gen_loop _ _ _ _ _); destruct Fm as [_ [Fgs _]]; rewrite Fgs, set_gen_eq; apply Nat.eqb_neq in Hne; now rewrite Hne. }
      rewrite Eg. destruct (gh_done (G g0)); [now split|]. rewrite gset_other by exact Hne. now split. }
    destruct Hg3 as [Hpass [Hcov Hexd]].
    destruct (gens s g0) as [a|a pm rest|] eqn:Egen; cbn [ginv] in Hgi.
    + (* body entered *)
      destruct Hgi as [Hst [Hdn [Hat Hy]]]. rewrite Hdn, Hst, gset_same.
      set (gh1 := gh_enter s (G g0)).
      destruct (gen_start (tbl s) (pmap s) (reused s)) as [[[pm ls] low]|e|] eqn:Es.
      * set (s1 := mk s (tbl s) (pmap s) [] (Some low) (heap s) (nobj s) (gens s) (ngen s)).
        pose proof (start_inv valid (tbl s) (pmap s) (reused s) (gh_attrs (G g0)) (nobj s) pm ls low Es) as HJ.
        assert (Hp1 : part_ok gh1 ls).
        { intros q HL _. exact (start_part _ _ _ _ _ _ Es q HL). }
        assert (Hps1 : passed_ok valid gh1) by (intros q b []).
        destruct (resume_p3 valid s s1 g0 a pm ls gh1 [] (nobj s) eq_refl HJ Hat Hp1 Hps1 eq_refl) as [R1 R2].
        cbn zeta in R1, R2. split; [|exact R2]. split; [exact R1|]. split.
        -- assert (Hc1 : cover_ok gh1) by (now apply cover_empty).
           destruct (snd (run_loop valid s1 g0 a pm ls)) as [| | |p o i| | | |]; cbn [gh_after]; try exact Hc1;
             try (now apply cover_empty).
           ++ now apply (cover_push gh1 (p, o, i)).
           ++ now apply cover_stop.
        -- destruct (snd (run_loop valid s1 g0 a pm ls)); cbn [gh_after gh_push gh_finish gh_enter gh1 gh_exhausted gh_done]; auto; discriminate.
      * cbn [fst snd gh_after]. split; [|cbn [with_gen mk gens]; intros a' pm' rest' Hr; rewrite set_gen_same in Hr; discriminate].
        apply g3_empty; reflexivity.
      * cbn [fst snd gh_after]. split; [|cbn [with_gen mk gens]; intros a' pm' rest' Hr; rewrite set_gen_same in Hr; discriminate].
        apply g3_empty; reflexivity.
    + (* resumed *)
      destruct Hgi as [Hst [Hdn [Hat HJ]]]. rewrite Hdn, Hst, gset_same.
      assert (Hnex : gh_exhausted (G g0) = false).
      { destruct (gh_exhausted (G g0)) eqn:Ex; [|reflexivity]. rewrite (Hexd eq_refl) in Hdn. discriminate. }
      destruct (resume_p3 valid s s g0 a pm rest (G g0) _ _ eq_refl HJ Hat (Hpart a pm rest eq_refl) Hpass Hnex) as [R1 R2].
      cbn zeta in R1, R2. split; [|exact R2]. split; [exact R1|]. split.
      * destruct (snd (run_loop valid s g0 a pm rest)) as [| | |p o i| | | |]; cbn [gh_after]; try exact Hcov.
        -- now apply (cover_push (G g0) (p, o, i)).
        -- now apply cover_stop.
        -- destruct Hcov as [C1 C2]. split; [exact C1|cbn [gh_finish gh_exhausted]; discriminate].
        -- destruct Hcov as [C1 C2]. split; [exact C1|cbn [gh_finish gh_exhausted]; discriminate].
      * destruct (snd (run_loop valid s g0 a pm rest)); cbn [gh_after gh_push gh_finish gh_exhausted gh_done]; auto.
    + destruct Hgi as [Hdn _]. rewrite Hdn. cbn [fst]. rewrite Egen. split; [now split|discriminate].
  - (* IterClose *)
    cbn [step]. destruct (Nat.leb (ngen s) g0) eqn:Hl; [now split|].
    assert (Eg : forall g', g' <> g0 -> gens (fst (match gens s g0 with
                  | GRun _ pm _ => (mk s (tbl s) pm (reused s) (lowest s) (heap s) (nobj s) (set_gen s g0 GDone) (ngen s), ONone)
                  | _ => (with_gen s g0 GDone, ONone) end)) g' = gens s g').
    { intros g' Hne. destruct (gens s g0); cbn; rewrite set_gen_eq; apply Nat.eqb_neq in Hne; now rewrite Hne. }
    assert (Eg0 : gens (fst (match gens s g0 with
                  | GRun _ pm _ => (mk s (tbl s) pm (reused s) (lowest s) (heap s) (nobj s) (set_gen s g0 GDone) (ngen s), ONone)
                  | _ => (with_gen s g0 GDone, ONone) end)) g0 = GDone).
    { destruct (gens s g0); cbn; now rewrite set_gen_same. }
    destruct (Nat.eq_dec g g0) as [->|Hne].
    + rewrite Eg0. destruct (gh_done (G g0)) eqn:Hd.
      * split; [exact Hg3|discriminate].
      * rewrite gset_same. split; [|discriminate].
        destruct Hg3 as [A [[C1 C2] Cx]].
        assert (Hnex : gh_exhausted (G g0) = false).
        { destruct (gh_exhausted (G g0)) eqn:Ex; [|reflexivity]. rewrite (Cx eq_refl) in Hd. discriminate. }
        split; [|split].
        -- intros q b Hin. cbn [gh_finish gh_passed app gh_list gh_yields gh_exhausted gh_cache gh_marked gh_attrs] in *.
           destruct (A q b Hin) as [H1 [H2 [H3' H4]]]. rewrite Hnex in H3'. split; [exact H1|]. split; [exact H2|]. split; [|exact H4].
           right. destruct H3' as [H|H]; [discriminate|exact H].
        -- split; [exact C1|cbn; discriminate].
        -- cbn. discriminate.
    + rewrite (Eg g Hne). destruct (gh_done (G g0)); [now split|]. rewrite gset_other by exact Hne. now split.
  - apply Hsame; reflexivity.
  - apply Hsame; [|reflexivity]. cbn [step]. destruct (Nat.leb (nobj s) o); [reflexivity|].
    destruct (is_running_obj _ _ _ _) as [[r ob'] ru']. reflexivity.
  - apply Hsame; [|reflexivity]. cbn [step]. destruct (n <? 0); [reflexivity|].
    destruct (n =? 0); [destruct (pids_sorted _) as [[l low]| |]; reflexivity|]. destruct (_ && _); reflexivity.
Qed.

Lemma Inv3_init valid : Inv3 valid (init, fun _ => gh_none).
Proof. intros g. split; [now apply g3_empty|discriminate]. Qed.

Lemma reach3_fold valid h : forall sg : st * ghosts, Inv valid sg -> Inv3 valid sg ->
  Inv3 valid (fold_left (fun sg e => fst (istep valid sg e)) h sg).
Proof.
  induction h as [|e h IH]; intros sg HI H3; [exact H3|]. cbn [fold_left]. apply IH; [now apply Inv_step|now apply P3_step].
Qed.

Theorem reach3 valid h : Inv3 valid (irun valid h).
Proof. apply reach3_fold; [apply Inv_init|apply Inv3_init]. Qed.
