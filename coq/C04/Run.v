(* Entry points evaluated by the correspondence harness (props/C04.py). *)
From PV Require Export C04.Spec.

Definition jv_zs (l : list Z) : jv := JL (map JZ l).
Definition jv_obj (o : nat) : jv := JC "Obj" [JZ (Z.of_nat o)].

Definition jv_out (o : out) : jv :=
  match o with
  | ONone => JC "Ret" []
  | OPids l => JC "Pids" [jv_zs l]
  | OBool b => JC "Bool" [jbool b]
  | OYield p ob i => JC "Yield" [JZ p; jv_obj ob; jopt jv_zs i]
  | OStop => JC "Stop" []
  | OExc e => JC "Exc" [JC (exn_name e) []]
  | OOom => JC "Oom" []
  | OBad => JC "Bad" []
  end.

(* psutil's module globals after an event *)
Definition jv_snapshot (s : st) : jv :=
  JL [ JL (map (fun kv => JL [JZ (fst kv); jv_obj (snd kv)]) (isort (fun kv : Z * nat => fst kv) (ditems (pmap s))));
       jv_zs (zsort (reused s));
       jopt JZ (lowest s) ].

(* what the property demands of pids() / pid_exists() in this state (None: no demand) *)
Definition jv_spec (s : st) (e : ev) : jv :=
  match e with
  | Pids => match tbl s with [] => jnone | _ => JC "Pids" [jv_zs (spec_pids (tbl s))] end
  | PidExists n => if (n =? 0) && match tbl s with [] => true | _ => false end then jnone
                   else JC "Bool" [jbool (spec_pid_exists (tbl s) n)]
  | PidExistsF n _ => if (n =? 0) && match tbl s with [] => true | _ => false end then jnone
                      else JC "Bool" [jbool (spec_pid_exists (tbl s) n)]
  | _ => jnone
  end.

(* harness events: a machine event, or is_running() on the object of the j-th yield
   of the history so far *)
Inductive hev := HE (e : ev) | HRunY (j : nat).

(* tokens whose object carries the 'PID reused' flag *)
Definition flagged (s : st) : list nat := filter (fun o => o_reused (heap s o)) (seq 0 (nobj s)).

(* [ent]: for every generator whose body was entered, the tokens flagged at that moment;
   [bad]: some generator yielded an object that was already flagged when it was entered *)
Fixpoint run_hevs (valid : list Z) (s : st) (G : ghosts) (ylog : list nat) (ent : list (nat * list nat)) (bad : bool)
         (h : list hev) : list jv * (st * ghosts * bool) :=
  match h with
  | [] => ([], (s, G, bad))
  | he :: r =>
    match (match he with
           | HE e => Some e
           | HRunY j => option_map IsRunning (nth_error ylog j)
           end) with
    | None => let (js, fin) := run_hevs valid s G ylog ent bad r in (JC "Skip" [] :: js, fin)
    | Some e =>
      let '(s', G', o) := istep valid (s, G) e in
      let ylog' := match o with OYield _ ob _ => ylog ++ [ob] | _ => ylog end in
      let ent' := match e with
                  | IterNext g => if negb (gh_started (G g)) && gh_started (G' g) then (g, flagged s) :: ent else ent
                  | _ => ent
                  end in
      let bad' := match e, o with
                  | IterNext g, OYield _ ob _ =>
                    bad || existsb (fun gf => Nat.eqb (fst gf) g && existsb (Nat.eqb ob) (snd gf)) ent'
                  | _, _ => bad
                  end in
      let (js, fin) := run_hevs valid s' G' ylog' ent' bad' r in
      (JL [jv_out o; jv_snapshot s'; jv_spec s e] :: js, fin)
    end
  end.

Definition any_skip_class (sg : st * ghosts) : bool :=
  existsb (fun g => gh_started (snd sg g) && skip_class (snd sg g)) (seq 0 (ngen (fst sg))).

(* a generator ran to exhaustion without yielding a listed PID that never left the table *)
Definition unjustified_skip (gh : ghost) : bool :=
  gh_exhausted gh &&
  existsb (fun p => negb (zmem p (map (fun y => fst (fst y)) (gh_yields gh))) && negb (zmem p (gh_vanished gh))) (gh_list gh).
Definition any_unjustified_skip (sg : st * ghosts) : bool :=
  existsb (fun g => unjustified_skip (snd sg g)) (seq 0 (ngen (fst sg))).

Definition run_hist (valid : list Z) (h : list hev) : jv :=
  let (js, fin) := run_hevs valid init (fun _ => gh_none) [] [] false h in
  JL [ JL js; jbool (any_skip_class (fst fin)); jbool (any_unjustified_skip (fst fin)); jbool (snd fin) ].

(* text level: pids() over a directory listing *)
Definition jv_pl (pl : list Z * Z) : jv := JL [jv_zs (fst pl); JZ (snd pl)].
Definition run_listing (d : list dirent) : jv :=
  JL [ JL (map JB (k_listdir d));
       jv_outcome jv_pl (pids_text (k_listdir d));
       (if forallb wf_dirent d then
          match spec_dir_pids d with [] => jnone | l => JC "Val" [jv_zs (zsort l)] end
        else jnone) ].
Definition run_listing_raw (names : list bytes) : jv :=
  JL [ jv_outcome jv_pl (pids_text names) ].

(* text level: _pslinux.pid_exists(pid) over a status file *)
Definition run_status (pid : Z) (k : killres) (r : kstatus) (names : list bytes) : jv :=
  JL [ JB (k_status r);
       jv_outcome jbool (pid_exists_linux pid k (Some (k_status r)) names);
       (if wf_kstatus r then
          match k with
          | KOk | KEperm => JC "Val" [jbool (dec_val (ks_tgid r) =? pid)]
          | _ => JC "Val" [jbool false]
          end
        else jnone) ].
Definition run_status_raw (pid : Z) (k : killres) (content : option bytes) (names : list bytes) : jv :=
  JL [ jv_outcome jbool (pid_exists_linux pid k content names) ].

(* text level: a status file whose first record is the Name of a process / thread called [comm] *)
Definition run_status_named (pid : Z) (k : killres) (comm : bytes) (pre : list bytes) (tgid post : bytes)
           (names : list bytes) : jv :=
  run_status pid k {| ks_pre := k_name_body comm :: pre; ks_tgid := tgid; ks_post := post |} names.
(* the Name record alone, for the comparison with the running kernel *)
Definition run_name_lines (comms : list bytes) : jv := JL (map (fun c => JB (k_name_line c)) comms).
