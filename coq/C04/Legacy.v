(* C04 -- process_iter() as it was BEFORE the repair b70d950 ("process_iter() replaces a cached instance that
   is_running() found stale"): the loop used a cached object whatever its _pid_reused flag.  Kept only to
   record, with a machine-checked witness, that the demand "an object found recycled by is_running() is never
   yielded by a generator entered afterwards" was false of that code when generators overlap. *)
From PV Require Import C04.Spec.

Fixpoint gen_loop_legacy (t : list kproc) (valid : list Z) (attrs : attrs_t) (x : lstate)
         (rest : list (Z * option nat)) : lres :=
  match rest with
  | [] => LStop x
  | (pid, po) :: rest' =>
    (* if proc is None: proc = add(pid)   [Process(pid); pmap[proc.pid] = proc] *)
    match (match po with
           | Some o => Some (o, x)
           | None =>
             match find_proc t pid with
             | Some k =>
               Some (l_n x, {| l_pm := dset pid (l_n x) (l_pm x);
                               l_hp := upd_heap (l_hp x) (l_n x) (new_obj pid (k_start k));
                               l_n := S (l_n x); l_ru := l_ru x |})
             | None => None                         (* NoSuchProcess from Process(pid) *)
             end
           end) with
    | None =>                                       (* except NoSuchProcess: remove(pid) *)
      gen_loop_legacy t valid attrs {| l_pm := ddel pid (l_pm x); l_hp := l_hp x; l_n := l_n x; l_ru := l_ru x |} rest'
    | Some (o, x1) =>
      match attrs with
      | None => LYield x1 rest' pid o (o_info (l_hp x1 o))
      | Some l =>
        let '(r, ob', ru') := as_dict t valid (l_ru x1) pid (l_hp x1 o) l in
        match r with
        | Val keys =>
          LYield {| l_pm := l_pm x1; l_hp := upd_heap (l_hp x1) o (set_info ob' (Some keys)); l_n := l_n x1; l_ru := ru' |}
                 rest' pid o (Some keys)
        | Exc NoSuchProcess =>
          gen_loop_legacy t valid attrs {| l_pm := ddel pid (l_pm x1); l_hp := upd_heap (l_hp x1) o ob'; l_n := l_n x1; l_ru := ru' |}
                   rest'
        | Exc e => LExc {| l_pm := l_pm x1; l_hp := upd_heap (l_hp x1) o ob'; l_n := l_n x1; l_ru := ru' |} e
        | OutOfModel => LOom x1
        end
      end
    end
  end.


Definition run_loop_legacy (valid : list Z) (s : st) (g : nat) (attrs : attrs_t) (pm : dict) (rest : list (Z * option nat))
  : st * out :=
  match gen_loop_legacy (tbl s) valid attrs {| l_pm := pm; l_hp := heap s; l_n := nobj s; l_ru := reused s |} rest with
  | LYield x rest' pid o info =>
    (mk s (tbl s) (pmap s) (l_ru x) (lowest s) (l_hp x) (l_n x) (set_gen s g (GRun attrs (l_pm x) rest')) (ngen s),
     OYield pid o info)
  | LStop x => (mk s (tbl s) (l_pm x) (l_ru x) (lowest s) (l_hp x) (l_n x) (set_gen s g GDone) (ngen s), OStop)
  | LExc x e => (mk s (tbl s) (l_pm x) (l_ru x) (lowest s) (l_hp x) (l_n x) (set_gen s g GDone) (ngen s), OExc e)
  | LOom x => (mk s (tbl s) (l_pm x) (l_ru x) (lowest s) (l_hp x) (l_n x) (set_gen s g GDone) (ngen s), OOom)
  end.

(* every event as in the current model, except next() on a generator *)
Definition step_legacy (valid : list Z) (s : st) (e : ev) : st * out :=
  match e with
  | IterNext g =>
    if Nat.leb (ngen s) g then (s, OBad) else
    match gens s g with
    | GDone => (s, OStop)
    | GFresh attrs =>
      match gen_start (tbl s) (pmap s) (reused s) with
      | Val (pm, ls, low) =>
        run_loop_legacy valid (mk s (tbl s) (pmap s) [] (Some low) (heap s) (nobj s) (gens s) (ngen s)) g attrs pm ls
      | Exc e => (with_gen s g GDone, OExc e)
      | OutOfModel => (with_gen s g GDone, OOom)
      end
    | GRun attrs pm rest => run_loop_legacy valid s g attrs pm rest
    end
  | _ => step valid s e
  end.

Definition runs_legacy (valid : list Z) (s : st) (h : list ev) : st :=
  fold_left (fun s e => fst (step_legacy valid s e)) h s.

(* PID 5 is cached (object 0), recycled, found recycled by is_running() on object 0 (which marks it);
   generator 1 consumes the mark and stays suspended; generator 2, entered meanwhile, yields object 0 *)
Definition stale_h0 : list ev :=
  [Spawn 5 100; Spawn 9 100; IterNew None; IterNext 0; IterNext 0; IterNext 0; Reap 5; Spawn 5 200].
Definition stale_h1a : list ev := [IterNew None; IterNext 1; IterNew None].

Theorem legacy_found_recycled_refuted :
  exists valid h0 x h1a g p i,
    let s0 := runs_legacy valid init h0 in
    let s1 := fst (step_legacy valid s0 (IsRunning x)) in
    Nat.ltb x (nobj s0) = true /\ o_gone (heap s0 x) = false /\ o_reused (heap s0 x) = false /\
    snd (step_legacy valid s0 (IsRunning x)) = OBool false /\ o_reused (heap s1 x) = true /\
    zmem (o_pid (heap s0 x)) (reused s1) = true /\
    match gens s1 g with GRun _ _ _ => false | _ => true end = true /\
    snd (step_legacy valid (runs_legacy valid s1 h1a) (IterNext g)) = OYield p x i.
Proof.
  exists [0; 1; 2], stale_h0, 0%nat, stale_h1a, 2%nat, 5, None. vm_compute. repeat split.
Qed.
