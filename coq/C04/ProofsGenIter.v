(* C04 -- round 2 follow-up: the whole process_iter() step expressed through the interpreters of C04/PyGen.v on the
   programs generated from the source (Gen/C04_Tables.v): next() on a generator = the generated prologue (when the body
   is entered for the first time) followed by the generated loop over the merged list, with the generator bookkeeping of
   the model (suspension at 'yield', 'finally: _pmap = pmap').  Composes gen_prologue_eq_model and gen_loop_eq_model. *)
From PV Require Import Base.Prelude Gen.C04_Tables C04.PyGen C04.ProofsGen.

(* resume generator g: Model.run_loop with the interpreter [run_for b] in the place of gen_loop *)
Definition run_loop_gen (valid : list Z) (b : body) (s : st) (g : nat) (attrs : attrs_t) (pm : dict)
           (rest : list (Z * option nat)) : st * out :=
  match run_for (tbl s) valid attrs b {| l_pm := pm; l_hp := heap s; l_n := nobj s; l_ru := reused s |} rest with
  | LYield x rest' pid o info =>
    (mk s (tbl s) (pmap s) (l_ru x) (lowest s) (l_hp x) (l_n x) (set_gen s g (GRun attrs (l_pm x) rest')) (ngen s),
     OYield pid o info)
  | LStop x =>
    (mk s (tbl s) (l_pm x) (l_ru x) (lowest s) (l_hp x) (l_n x) (set_gen s g GDone) (ngen s), OStop)
  | LExc x e =>
    (mk s (tbl s) (l_pm x) (l_ru x) (lowest s) (l_hp x) (l_n x) (set_gen s g GDone) (ngen s), OExc e)
  | LOom x =>
    (mk s (tbl s) (l_pm x) (l_ru x) (lowest s) (l_hp x) (l_n x) (set_gen s g GDone) (ngen s), OOom)
  end.

(* next(g): prologue program p on first entry (its _pids_reused and _LOWEST_PID are written back), then the loop program b *)
Definition iter_next_gen (valid : list Z) (p : list pstmt) (b : body) (s : st) (g : nat) : st * out :=
  if Nat.leb (ngen s) g then (s, OBad) else
  match gens s g with
  | GDone => (s, OStop)
  | GFresh attrs =>
    match prologue_run p (tbl s) (pmap s) (reused s) with
    | Val (pm, ls, low, ru') =>
      run_loop_gen valid b (mk s (tbl s) (pmap s) ru' (Some low) (heap s) (nobj s) (gens s) (ngen s)) g attrs pm ls
    | Exc e => (with_gen s g GDone, OExc e)
    | OutOfModel => (with_gen s g GDone, OOom)
    end
  | GRun attrs pm rest => run_loop_gen valid b s g attrs pm rest
  end.

Lemma run_loop_gen_eq_model valid s g attrs pm rest :
  run_loop_gen valid gen_iter_body s g attrs pm rest = run_loop valid s g attrs pm rest.
Proof. unfold run_loop_gen, run_loop. rewrite gen_loop_eq_model. reflexivity. Qed.

Lemma gen_process_iter_eq_model : forall valid s g,
  iter_next_gen valid gen_iter_prologue gen_iter_body s g = step valid s (IterNext g).
Proof.
  intros valid s g. unfold iter_next_gen. cbn [step].
  destruct (Nat.leb (ngen s) g); [reflexivity|].
  destruct (gens s g) as [attrs|attrs pm rest|]; [| apply run_loop_gen_eq_model | reflexivity].
  rewrite gen_prologue_eq_model.
  destruct (gen_start (tbl s) (pmap s) (reused s)) as [[[pm ls] low]|e|]; cbn [obind]; [|reflexivity|reflexivity].
  apply run_loop_gen_eq_model.
Qed.

(* draining: any sequence of next() calls on any generators *)
Lemma gen_process_iter_drain_eq_model : forall valid gs s,
  fold_left (fun s g => fst (iter_next_gen valid gen_iter_prologue gen_iter_body s g)) gs s =
  fold_left (fun s g => fst (step valid s (IterNext g))) gs s.
Proof.
  intros valid gs. induction gs as [|g gs IH]; intros s; cbn [fold_left]; [reflexivity|].
  rewrite gen_process_iter_eq_model. apply IH.
Qed.

(* ---- _psposix.pid_exists(): the handler ladder around os.kill(pid, 0) ---- *)
Lemma gen_posix_pid_exists_answer : forall pid k, pid <> 0 ->
  px_run gen_posix_pid_exists pid k = Val (match k with KEsrch | KOverflow => false | KOk | KEperm => true end).
Proof.
  intros pid k H. unfold px_run. apply Z.eqb_neq in H. rewrite H. destruct k; reflexivity.
Qed.

(* the model's _pslinux.pid_exists factors through it: 'if not _psposix.pid_exists(pid): return False', otherwise the
   Tgid check, which no longer looks at what os.kill did *)
Lemma gen_posix_pid_exists_factors_model : forall pid k status names, pid <> 0 ->
  pid_exists_linux pid k status names =
  match px_run gen_posix_pid_exists pid k with
  | Val false => Val false
  | Val true => pid_exists_linux pid KOk status names
  | Exc e => Exc e
  | OutOfModel => OutOfModel
  end.
Proof.
  intros pid k status names H. rewrite gen_posix_pid_exists_answer by exact H. destruct k; reflexivity.
Qed.
