(* C04 -- text level: the procfs root filter and the Tgid scan return the kernel's
   values for every printed listing / status file. *)
From PV Require Import C04.Spec.

Lemma py_int_dec ds : is_dec ds = true -> py_int ds = Val (dec_val ds).
Proof. intros H. unfold py_int. now rewrite (parse_int_dec _ H). Qed.

(* _pslinux.pids() over a kernel listing: exactly the numeric entries, in order *)
Lemma listing_parse d :
  forallb wf_dirent d = true -> plat_pids (k_listdir d) = Val (spec_dir_pids d).
Proof.
  unfold plat_pids, k_listdir.
  induction d as [|e d IH]; intros H; [reflexivity|].
  cbn [forallb] in H. apply andb_true_iff in H as [He Hd].
  cbn [map filter]. destruct e as [ds|n]; cbn [wf_dirent k_name] in *.
  - rewrite He. cbn [mapM]. rewrite (py_int_dec _ He). cbn [obind]. rewrite (IH Hd). reflexivity.
  - apply negb_true_iff in He. rewrite He. cbn [spec_dir_pids]. now apply IH.
Qed.

(* psutil.pids() over a kernel listing with at least one numeric entry: ascending,
   exactly the listed values, first = smallest *)
Lemma pids_text_exact d :
  forallb wf_dirent d = true -> spec_dir_pids d <> [] ->
  exists low r, pids_text (k_listdir d) = Val (low :: r, low)
                /\ low :: r = zsort (spec_dir_pids d)
                /\ StronglySorted Z.le (low :: r)
                /\ (forall n, In n (low :: r) <-> In n (spec_dir_pids d))
                /\ (forall n, In n (spec_dir_pids d) -> low <= n).
Proof.
  intros Hwf Hne. unfold pids_text. rewrite (listing_parse _ Hwf). cbn [obind]. unfold pids_sorted.
  destruct (zsort (spec_dir_pids d)) as [|low r] eqn:E.
  - apply (proj1 (zsort_nil _)) in E. congruence.
  - exists low, r. split; [reflexivity|]. split; [reflexivity|].
    assert (Hs : StronglySorted Z.le (low :: r)) by (rewrite <- E; apply zsort_sorted).
    split; [exact Hs|]. split.
    + intros n. rewrite <- E. apply zsort_In.
    + intros n Hn. apply (sorted_head_min _ _ Hs). rewrite <- E. now apply zsort_In.
Qed.

(* ---- the status file *)
Lemma prefixb_line p : contains 10 p = false ->
  forall l rest, prefixb p (l ++ 10 :: rest) = prefixb p l.
Proof.
  induction p as [|x p IH]; intros Hp l rest; [reflexivity|].
  rewrite contains_cons in Hp. apply orb_false_iff in Hp as [Hx Hp'].
  destruct l as [|c l]; cbn [app prefixb].
  - rewrite Z.eqb_sym, Hx. reflexivity.
  - now rewrite IH.
Qed.

Lemma lines_keep_pre pre tail :
  forallb wf_preline pre = true ->
  lines_keep (k_lines pre ++ tail) = map (fun l => l ++ [10]) pre ++ lines_keep tail.
Proof.
  induction pre as [|l pre IH]; intros H; [reflexivity|].
  cbn [forallb] in H. apply andb_true_iff in H as [Hl Hpre].
  unfold wf_preline in Hl. apply andb_true_iff in Hl as [Hnl _]. apply negb_true_iff in Hnl.
  cbn [k_lines map]. rewrite <- app_assoc. cbn [app].
  rewrite (lines_keep_line _ _ Hnl). now rewrite IH.
Qed.

Lemma tgid_scan_skip pre rest :
  forallb wf_preline pre = true ->
  tgid_scan (map (fun l => l ++ [10]) pre ++ rest) = tgid_scan rest.
Proof.
  induction pre as [|l pre IH]; intros H; [reflexivity|].
  cbn [forallb] in H. apply andb_true_iff in H as [Hl Hpre].
  unfold wf_preline in Hl. apply andb_true_iff in Hl as [_ Hp]. apply negb_true_iff in Hp.
  cbn [map app tgid_scan].
  rewrite (prefixb_line (bs "Tgid:") eq_refl l []). rewrite Hp. now apply IH.
Qed.

Lemma digits_no_nl ds : all_digits ds = true -> contains 10 ds = false.
Proof.
  intros H. apply no_ws_contains; [reflexivity|]. now apply all_digits_no_ws.
Qed.

Theorem status_tgid_exact r :
  wf_kstatus r = true -> status_tgid (k_status r) = Val (dec_val (ks_tgid r)).
Proof.
  unfold wf_kstatus. intros H. apply andb_true_iff in H as [Hpre Hd].
  unfold status_tgid, k_status.
  rewrite (lines_keep_pre _ _ Hpre). rewrite (tgid_scan_skip _ _ Hpre).
  assert (Hdig : all_digits (ks_tgid r) = true) by (destruct (ks_tgid r); [discriminate|exact Hd]).
  pose proof (is_dec_tok _ Hd) as [Hne Hnws].
  set (ds := ks_tgid r) in *.
  change (bs "Tgid:" ++ 9 :: ds ++ 10 :: ks_post r) with ((bs "Tgid:" ++ 9 :: ds) ++ 10 :: ks_post r).
  assert (Hnl : contains 10 (bs "Tgid:" ++ 9 :: ds) = false).
  { rewrite contains_app. cbn [contains_cons]. rewrite contains_cons. rewrite (digits_no_nl _ Hdig). reflexivity. }
  rewrite (lines_keep_line _ _ Hnl). cbn [tgid_scan].
  rewrite <- app_assoc.
  rewrite prefixb_app.
  change ((bs "Tgid:" ++ 9 :: ds) ++ [10]) with ((bs "Tgid:" ++ 9 :: ds) ++ [10]).
  replace (bs "Tgid:" ++ (9 :: ds) ++ [10]) with (bs "Tgid:" ++ 9 :: (ds ++ [10])) by reflexivity.
  rewrite (split_ws_token_sep (bs "Tgid:") 9 (ds ++ [10])); [|discriminate|reflexivity|reflexivity].
  rewrite (split_ws_token_sep ds 10 []); [|exact Hne|exact Hnws|reflexivity].
  now apply py_int_dec.
Qed.

(* _pslinux.pid_exists over a kernel-printed status file *)
Theorem pid_exists_linux_exact pid k r names :
  wf_kstatus r = true ->
  pid_exists_linux pid k (Some (k_status r)) names =
  Val (match k with KOk | KEperm => dec_val (ks_tgid r) =? pid | _ => false end).
Proof.
  intros H. unfold pid_exists_linux. rewrite (status_tgid_exact _ H). destruct k; reflexivity.
Qed.

Example wf_kstatus_ex :
  wf_kstatus {| ks_pre := [bs "Name:	Tgid:"; bs "Umask:	0022"; bs "State:	S (sleeping)"];
                ks_tgid := bs "4242"; ks_post := bs "Ngid:	0" |} = true.
Proof. vm_compute. reflexivity. Qed.

Example wf_listing_ex :
  forallb wf_dirent [DPid (bs "1"); DOther (bs "self"); DPid (bs "4194304"); DOther (bs "1a")] = true
  /\ spec_dir_pids [DPid (bs "1"); DOther (bs "self"); DPid (bs "4194304"); DOther (bs "1a")] = [1; 4194304].
Proof. vm_compute. split; reflexivity. Qed.

(* ---- a status file that cannot be opened / read, or has no Tgid line: pid in pids() *)
Lemma status_no_tgid pre :
  forallb wf_preline pre = true -> status_tgid (k_lines pre) = Exc ValueError.
Proof.
  intros H. unfold status_tgid. rewrite <- (app_nil_r (k_lines pre)).
  rewrite (lines_keep_pre _ _ H). cbn [lines_keep]. rewrite (tgid_scan_skip _ _ H). reflexivity.
Qed.

Theorem pid_exists_linux_fault pid k status d :
  forallb wf_dirent d = true ->
  k = KOk \/ k = KEperm ->
  status = None \/ (exists pre, forallb wf_preline pre = true /\ status = Some (k_lines pre)) ->
  pid_exists_linux pid k status (k_listdir d) = Val (zmem pid (spec_dir_pids d)).
Proof.
  intros Hwf Hk Hst.
  assert (Hfb : (do l <- plat_pids (k_listdir d); Val (zmem pid l)) = Val (zmem pid (spec_dir_pids d))).
  { rewrite (listing_parse _ Hwf). reflexivity. }
  unfold pid_exists_linux.
  destruct Hst as [->|[pre [Hpre ->]]].
  - destruct Hk as [->| ->]; exact Hfb.
  - rewrite (status_no_tgid _ Hpre). destruct Hk as [->| ->]; exact Hfb.
Qed.

(* ---- the Name: record cannot influence the Tgid probe, whatever the process / thread is called *)
Lemma k_escape_no_nl comm : contains 10 (k_escape comm) = false.
Proof.
  induction comm as [|c r IH]; [reflexivity|]. cbn [k_escape].
  destruct (c =? 10) eqn:E1; [rewrite !contains_cons; cbn; exact IH|].
  destruct (c =? 92) eqn:E2; [rewrite !contains_cons; cbn; exact IH|].
  rewrite contains_cons. rewrite Z.eqb_sym, E1. exact IH.
Qed.

Lemma name_body_wf comm : wf_preline (k_name_body comm) = true.
Proof.
  unfold wf_preline, k_name_body. rewrite contains_app, contains_cons, k_escape_no_nl. reflexivity.
Qed.

(* the scan is over '\n'-separated records only: a Name record, whatever bytes the name has, is skipped *)
Theorem status_name_independent comm rest :
  status_tgid (k_name_line comm ++ rest) = status_tgid rest.
Proof.
  unfold status_tgid, k_name_line. rewrite <- app_assoc. cbn [app].
  assert (Hnl : contains 10 (k_name_body comm) = false).
  { pose proof (name_body_wf comm) as H. unfold wf_preline in H. apply andb_true_iff in H as [H _]. now apply negb_true_iff in H. }
  rewrite (lines_keep_line _ _ Hnl). cbn [tgid_scan].
  assert (Hp : prefixb (bs "Tgid:") (k_name_body comm ++ [10]) = false) by reflexivity.
  now rewrite Hp.
Qed.

Theorem pid_exists_name_independent pid k comm rest names :
  pid_exists_linux pid k (Some (k_name_line comm ++ rest)) names = pid_exists_linux pid k (Some rest) names.
Proof. unfold pid_exists_linux. now rewrite status_name_independent. Qed.

(* the whole file as the kernel prints it, for every comm: Name first, then any records not starting with
   "Tgid:", then the Tgid record *)
Theorem pid_exists_any_name pid k comm pre tgid post names :
  forallb wf_preline pre = true -> is_dec tgid = true ->
  pid_exists_linux pid k
    (Some (k_status {| ks_pre := k_name_body comm :: pre; ks_tgid := tgid; ks_post := post |})) names =
  Val (match k with KOk | KEperm => dec_val tgid =? pid | _ => false end).
Proof.
  intros Hpre Ht. apply pid_exists_linux_exact. unfold wf_kstatus. cbn [ks_pre ks_tgid forallb].
  now rewrite name_body_wf, Hpre, Ht.
Qed.

Example hostile_name_ex :
  k_name_line (bs "x" ++ 13 :: bs "Tgid:" ++ 9 :: bs "1" ++ 10 :: bs "a\b") =
  bs "Name:" ++ 9 :: bs "x" ++ 13 :: bs "Tgid:" ++ 9 :: bs "1\na\\b" ++ [10].
Proof. reflexivity. Qed.
