(* C04 -- fork safety, over the table generated from the source of the tree under test (coq/Gen/C04_Tables.v). *)
From PV Require Import Base.Prelude Gen.C04_Tables.

(* has the object an os.register_at_fork(after_in_child=...) re-initialisation? *)
Definition sync_reinit (e : list Z * list Z * list Z * bool) : bool := snd e.

Lemma fork_safe_sync_objects : forallb sync_reinit gen_sync_objects = true.
Proof. vm_compute. reflexivity. Qed.
