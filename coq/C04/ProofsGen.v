(* C04 -- fork safety, over the table generated from the source of the tree under test (coq/Gen/C04_Tables.v). *)
From PV Require Import Base.Prelude Gen.C04_Tables.

(* has the object an os.register_at_fork(after_in_child=...) re-initialisation? *)
Definition sync_reinit (e : list Z * list Z * list Z * bool) : bool := snd e.

Lemma fork_safe_sync_objects : forallb sync_reinit gen_sync_objects = true.
Proof. vm_compute. reflexivity. Qed.

(* ===================================================================== *)
(* Round 2: control flow translated from the source (C04/PyGen.v languages, programs in Gen/C04_Tables.v) *)
(* ===================================================================== *)
From PV Require Import C04.PyGen.
From Coq Require Import Lia.

(* ---- pid_exists(): the guard chain ---- *)
Lemma gen_pid_exists_eq_model : forall valid s n,
  pe_exec gen_pid_exists s n = step valid s (PidExists n).
Proof.
  intros valid s n. unfold pe_exec, gen_pid_exists. cbn [pe_select pe_holds step].
  destruct (n <? 0) eqn:E1; [reflexivity|].
  destruct (n =? 0) eqn:E2; [|reflexivity].
  apply Z.eqb_eq in E2. subst n. reflexivity.
Qed.

(* ---- process_iter(): the prologue ---- *)
Lemma filter_all_true {A} (f : A -> bool) (l : list A) : (forall x, f x = true) -> filter f l = l.
Proof. intros H. induction l as [|a r IH]; cbn [filter]; [reflexivity|]. now rewrite H, IH. Qed.

Lemma ddel_all_ddel k ks d : ddel_all ks (ddel k d) = ddel_all (k :: ks) d.
Proof.
  unfold ddel_all, ddel. induction d as [|[a v] r IH]; cbn [filter fst]; [reflexivity|].
  unfold zmem at 2. cbn [existsb]. fold (zmem a ks).
  destruct (a =? k) eqn:E; cbn [negb orb filter fst].
  - exact IH.
  - destruct (zmem a ks); cbn [negb]; [exact IH|]. f_equal. exact IH.
Qed.

(* 'for pid in S: remove(pid)' in any order = dropping every key of S *)
Lemma remove_each_ddel_all ks : forall d, remove_each ks d = ddel_all ks d.
Proof.
  unfold remove_each. induction ks as [|k ks IH]; intros d; cbn [fold_left].
  - unfold ddel_all. symmetry. apply filter_all_true. intros x. reflexivity.
  - rewrite IH. apply ddel_all_ddel.
Qed.

Lemma gen_prologue_eq_model : forall t pm ru,
  prologue_run gen_iter_prologue t pm ru = (do r <- gen_start t pm ru; Val (r, @nil Z)).
Proof.
  intros t pm ru. unfold prologue_run, gen_start, gen_iter_prologue.
  cbn [pexec_all pexec penv_init set_pm obind].
  destruct (pids_sorted (listing t)) as [[l low]|e|]; [|reflexivity|reflexivity].
  cbn [obind pexec_all pexec set_var set_pm e_pm e_sets e_ru e_low e_ls Nat.eqb fst snd].
  rewrite !remove_each_ddel_all. reflexivity.
Qed.

(* ---- process_iter(): the loop ---- *)
Lemma gen_loop_eq_model : forall t valid attrs rest x,
  run_for t valid attrs gen_iter_body x rest = gen_loop t valid attrs x rest.
Proof.
  intros t valid attrs rest. induction rest as [|[pid po] rest' IH]; intros x; [reflexivity|].
  cbn [run_for gen_loop]. unfold gen_iter_body at 1. cbn [b_stmts b_handlers].
  assert (TAIL : forall o x1,
    match run_body t valid attrs pid [(GAttrs, AInfo); (GAlways, AYield)] (Some o) x1 with
    | RYield x' o0 => LYield x' rest' pid o0 (o_info (l_hp x' o0))
    | RNext _ x' => run_for t valid attrs gen_iter_body x' rest'
    | RExc x' e =>
      match handler_for [(NoSuchProcess, HRemove)] e with
      | Some HRemove =>
        run_for t valid attrs gen_iter_body
                {| l_pm := ddel pid (l_pm x'); l_hp := l_hp x'; l_n := l_n x'; l_ru := l_ru x' |} rest'
      | Some HPass => run_for t valid attrs gen_iter_body x' rest'
      | None => LExc x' e
      end
    | ROom x' => LOom x'
    end =
    match attrs with
    | None => LYield x1 rest' pid o (o_info (l_hp x1 o))
    | Some l =>
      let '(r, ob', ru') := as_dict t valid (l_ru x1) pid (l_hp x1 o) l in
      match r with
      | Val keys =>
        LYield {| l_pm := l_pm x1; l_hp := upd_heap (l_hp x1) o (set_info ob' (Some keys)); l_n := l_n x1; l_ru := ru' |}
               rest' pid o (Some keys)
      | Exc NoSuchProcess =>
        gen_loop t valid attrs {| l_pm := ddel pid (l_pm x1); l_hp := upd_heap (l_hp x1) o ob'; l_n := l_n x1; l_ru := ru' |}
                 rest'
      | Exc e => LExc {| l_pm := l_pm x1; l_hp := upd_heap (l_hp x1) o ob'; l_n := l_n x1; l_ru := ru' |} e
      | OutOfModel => LOom x1
      end
    end).
  { intros o x1. cbn [run_body eval_guard]. destruct attrs as [l|]; [|reflexivity].
    cbn [exec_act]. destruct (as_dict t valid (l_ru x1) pid (l_hp x1 o) l) as [[r ob'] ru'].
    destruct r as [keys|e|]; [| |reflexivity].
    - cbn [run_body eval_guard exec_act l_hp]. f_equal. unfold upd_heap. rewrite Nat.eqb_refl. reflexivity.
    - destruct e; cbn [handler_for exn_beq l_pm l_hp l_n l_ru]; try reflexivity. apply IH. }
  cbn [run_body eval_guard eval_any].
  destruct po as [o|]; cbn [eval_cond].
  - destruct (o_reused (l_hp x o)) eqn:Er.
    + cbn [exec_act]. destruct (find_proc t pid) as [k|].
      * apply TAIL.
      * cbn [handler_for exn_beq l_pm l_hp l_n l_ru]. apply IH.
    + apply TAIL.
  - cbn [exec_act]. destruct (find_proc t pid) as [k|].
    + apply TAIL.
    + cbn [handler_for exn_beq l_pm l_hp l_n l_ru]. apply IH.
Qed.
